/-
  C09 on the whole-solver model WITH NONSYMMETRIC CONES — `presolve_transparent`, end to end, no
  length hypothesis.  Counterpart of `Lemmas/PresolveTransparent.lean` (`presolve_transparent_model`)
  and `Lemmas/PresolveTransparentFull.lean` (`presolve_transparent_model_full`).

  The presolver / `DefaultProblemData::new` stage is SHARED by the two models (`ProblemData.new`,
  `Presolve.keepFlags`, `Presolve.handReduce`, …: every lemma about it is imported from
  `Lemmas/PresolveTransparent.lean`); the NS `new` / `solve` parts come from
  `Lemmas/SolverNSPresolveTransparent.lean`; the lengths of the final `variables` from
  `solve_sizedN` (`Lemmas/SolverNSFullTraj.lean`).

  Structural ([S]).
-/
import ClarabelProofs.Lemmas.PresolveTransparent
import ClarabelProofs.Lemmas.SolverNSPresolveTransparent
import ClarabelProofs.Lemmas.SolverNSFullTraj
import ClarabelProofs.Lemmas.SolverNSFullNew

namespace Clarabel
namespace SolverNS
open Cones Presolve
open Clarabel.Solver (presolveMap)
set_option linter.unusedSectionVars false
set_option linter.unusedVariables false
variable {α : Type}

section main
variable [Add α] [Sub α] [Mul α] [Div α] [Neg α] [LT α] [LE α] [DecidableLT α] [DecidableLE α]
  [BEq α] [OfNat α 0] [OfNat α 1] [OfNat α 2] [OfNat α 3] [OfNat α 4] [OfNat α 100] [OfNat α 1000]
  [OfScientific α] [FloatLike α]

/-- what `Solver.new … = .ok S` says about the user's dimensions -/
theorem solver_new_dimsN {P : Csc α} {q : Array α} {A : Csc α} {b : Array α} {cones : List (ConeT α)}
    {st : Settings α} {perm : Array Nat} {S : Solver α}
    (hnew : Solver.new P q A b cones st perm = .ok S) :
    b.size = A.m ∧ numel cones = b.size ∧ q.size = A.n ∧ q.size = P.n ∧ P.m = P.n := by
  unfold Solver.new at hnew
  cases hd : Loop.checkDimensions P.m P.n q.size A.m A.n b.size (cones.map ConeT.nvars) with
  | error e => rw [hd] at hnew; cases hnew
  | ok u => cases u; exact (checkDimensions_ok_iff _ _ _ _ _ _ cones).mp hd

/-- `fillNorms` keeps the row count -/
theorem fillNorms_m {d d' : ProblemData α} (h : Solver.fillNorms d = .ok d') : d'.m = d.m := by
  unfold Solver.fillNorms at h
  obtain ⟨nq, _, h⟩ := Clarabel.Solver.bind_ok_inv h
  obtain ⟨nb, _, h⟩ := Clarabel.Solver.bind_ok_inv h
  cases h
  rfl

/-- **`presolve_transparent`, model with nonsymmetric cones, end to end** (under the length
hypothesis; see `presolve_transparent_model_fullN`) -/
theorem presolve_transparent_modelN {P : Csc α} {q : Array α} {A : Csc α} {b : Array α}
    {cones : List (ConeT α)} {st : Settings α} {perm : Array Nat} {S : Solver α} {keep : List Bool}
    (hA : C16.Canonical A) (hpre : st.presolveEnable = true)
    (hnew : Solver.new P q A b cones st perm = .ok S)
    (hk : keepFlags (threshold st.infbound) (newCollapsed cones) b.toList = .ok keep)
    (hc : keep.count true < b.size) :
    ∃ (A' : Csc α) (b' : Array α) (cones' : List (ConeT α)) (S' : Solver α),
      handReduce keep A b cones = .ok (A', b', cones') ∧
      A'.m = keep.count true ∧ A'.n = A.n ∧
      Solver.new P q A' b' cones' { st with presolveEnable := false } perm = .ok S' ∧
      S'.st = S.st.setPre none ∧ S'.solution = Unscale.Solution.new A'.n A'.m ∧
      presolveMap S.st.data = some { keep := keep.toArray, infbound := st.infbound } ∧
      ∀ r, S.solve st = .ok r → r.S.st.variables.s.size = A'.m → r.S.st.variables.z.size = A'.m →
        ∃ r', S'.solve { st with presolveEnable := false } = .ok r' ∧
          SolveRelN { keep := keep.toArray, infbound := st.infbound } r r' := by
  obtain ⟨hbm, hnum, hqn, hqp, hPsq⟩ := solver_new_dimsN hnew
  have hAm : A.m = b.size := hbm.symm
  have hnum' : numel (newCollapsed cones) = b.size := by
    rw [newCollapsed, numel_collapseGo]; omega
  obtain ⟨keep', hk', hl, _⟩ := keepFlags_spec (threshold st.infbound) (newCollapsed cones) b.toList
    (by simpa using hnum')
  rw [hk] at hk'; cases hk'
  have hl' : keep.length = b.size := by simpa using hl
  obtain ⟨Pn, hPn⟩ := triuStep_ok P hPsq
  have hpre' : ProblemData.tryPresolver b (newCollapsed cones) true st.infbound =
      .ok (some (recordOf keep b st.infbound)) := by
    rw [tryPresolver_on _ _ _ _ hk, if_pos hc]
  obtain ⟨A', hsel, hm', hn'⟩ := selectRows_ok A keep (by rw [hl', hAm]) hA.rows_bound
  have hred : ProblemData.reduceStep (some (recordOf keep b st.infbound)) A b (newCollapsed cones) =
      .ok (A', Vec.select b keep.toArray, reduceConesWith keep (newCollapsed cones)) :=
    presolve_recordOf A A' b (newCollapsed cones) keep st.infbound hl' hsel
  obtain ⟨d0, hd0, hd⟩ : ∃ d0 : ProblemData α,
      d0 = ProblemData.assemble Pn q A' (Vec.select b keep.toArray)
        (reduceConesWith keep (newCollapsed cones)) (some (recordOf keep b st.infbound)) st.infbound ∧
      ProblemData.new P q A b cones true false st.infbound = .ok d0 :=
    ⟨_, rfl, new_eq_of_steps P q A b cones true st.infbound Pn _ _ hPn hpre' hred⟩
  obtain ⟨A'', b', cones', hh, hoff, _⟩ :=
    problemdata_new_hand_reduced P q A b cones st.infbound keep d0 hA hAm hnum hPsq hk hc hd
  have hh' : handReduce keep A b cones =
      .ok (A', Vec.select b keep.toArray, handReduceCones keep cones) := by
    unfold handReduce
    rw [hsel]; rfl
  rw [hh'] at hh
  cases hh
  have hbsz : (Vec.select b keep.toArray).size = keep.count true := select_size b keep hl'
  have hcn : numel (handReduceCones keep cones) = keep.count true :=
    numel_handReduceCones (threshold st.infbound) cones b.toList keep (by simpa using hnum) hk
  have hdim : Loop.checkDimensions P.m P.n q.size A'.m A'.n (Vec.select b keep.toArray).size
      ((handReduceCones keep cones).map ConeT.nvars) = .ok () := by
    rw [checkDimensions_ok_iff]
    exact ⟨by rw [hbsz, hm'], by rw [hcn, hbsz], by rw [hn', hqn], hqp, hPsq⟩
  have h1 : ProblemData.new P q A b cones st.presolveEnable false st.infbound = .ok d0 := by
    rw [hpre]; exact hd
  have hpm : presolveMap d0 = some { keep := keep.toArray, infbound := st.infbound } := by
    rw [hd0]; rfl
  obtain ⟨S', hS', hst, hsol, hpmS, hsolve⟩ :=
    new_solve_presolve_transparentN (perm := perm) hnew h1 hoff hdim hn' hpm
  exact ⟨A', _, _, S', hh', hm', hn', hS', hst, hsol, hpmS, hsolve⟩

/-- **`presolve_transparent`, model with nonsymmetric cones, end to end, no length hypothesis.**
`DefaultSolver::new` with presolve ON for a canonical `A`, `keep` the flags of
`make_reduction_map`, at least one row dropped: the hand-reduced problem
`(A', b', cones') = handReduce keep A b cones` is accepted by `DefaultSolver::new` with presolve
OFF, the two solver objects coincide except for the `presolver` record and the `solution` lengths,
and every successful `solve()` of the former is matched by a `solve()` of the latter with the same
trajectory (every pass record, incl. the strategy switches and backtracking counts), internal
state and verdict, whose `(x, s, z)` are the un-scaled reduced variables — of which the presolve-on
solution is the `reverse_presolve` image (`SolveRelN.explicit`). -/
theorem presolve_transparent_model_fullN {P : Csc α} {q : Array α} {A : Csc α} {b : Array α}
    {cones : List (ConeT α)} {st : Settings α} {perm : Array Nat} {S : Solver α} {keep : List Bool}
    (hA : C16.Canonical A) (hpre : st.presolveEnable = true)
    (hnew : Solver.new P q A b cones st perm = .ok S)
    (hk : keepFlags (threshold st.infbound) (newCollapsed cones) b.toList = .ok keep)
    (hc : keep.count true < b.size) :
    ∃ (A' : Csc α) (b' : Array α) (cones' : List (ConeT α)) (S' : Solver α),
      handReduce keep A b cones = .ok (A', b', cones') ∧
      A'.m = keep.count true ∧ A'.n = A.n ∧
      Solver.new P q A' b' cones' { st with presolveEnable := false } perm = .ok S' ∧
      S'.st = S.st.setPre none ∧ S'.solution = Unscale.Solution.new A'.n A'.m ∧
      presolveMap S.st.data = some { keep := keep.toArray, infbound := st.infbound } ∧
      S.st.data.m = A'.m ∧
      ∀ r, S.solve st = .ok r →
        (r.S.st.variables.s.size = A'.m ∧ r.S.st.variables.z.size = A'.m) ∧
        ∃ r', S'.solve { st with presolveEnable := false } = .ok r' ∧
          SolveRelN { keep := keep.toArray, infbound := st.infbound } r r' := by
  obtain ⟨A', b', cones', S', h1, h2, h3, h4, h5, h6, h7, h8⟩ :=
    presolve_transparent_modelN hA hpre hnew hk hc
  obtain ⟨d0', hA'⟩ := solverNew_anatomyN h4
  have hm' : S'.st.data.m = A'.m := (hA'.off rfl).2.1
  have hm : S.st.data.m = A'.m := by
    rw [← hm', h5]; rfl
  refine ⟨A', b', cones', S', h1, h2, h3, h4, h5, h6, h7, hm, ?_⟩
  intro r hr
  obtain ⟨hsz, hfill, -⟩ := solve_sizedN (SizedN.of_new hnew) hr
  have hmr : r.S.st.data.m = A'.m := by rw [fillNorms_m hfill, hm]
  have hs : r.S.st.variables.s.size = A'.m := by rw [← hmr]; exact hsz.vars.s
  have hz : r.S.st.variables.z.size = A'.m := by rw [← hmr]; exact hsz.vars.z
  exact ⟨⟨hs, hz⟩, h8 r hr hs hz⟩

end main
end SolverNS
end Clarabel
