/-
  C08 on the whole-solver model: **update, then solve = solve of the rebuilt solver**.

  For a solver object `S` satisfying the history invariant `UInv st S0 S pk ak`
  (`Lemmas/UpdateSolverModel.lean`: reached from an object `S0` built by `DefaultSolver::new` by any
  history of updates — accepted or rejected, every argument form — and solves):

  * `kktSolver_new_frozen`   : `DirectLDLKKTSolver::new` on the data whose matrices are `pk`, `ak` (same
                               patterns) succeeds and returns an object `KSync`-related to `S0`'s
                               (imported: `assembleKktMatrix_values`, `kktSolver_new_values_of_asm`);
  * `rebuiltWith_ok`         : hence `Solver.rebuiltWith S.data dK …` (what `DefaultSolver::new` builds
                               from the data with the FROZEN equilibration) is defined;
  * `solve_eq_rebuiltWith`   : `S.solve` and the solve of the rebuilt object fail alike or succeed with
                               the same observable result (`SolveObs`: solution, whole trajectory,
                               final iterate, `info`), by C05's `Stale` machinery (`solve_rel1_any`)
                               and `update_forgets`.
-/
import ClarabelProofs.Lemmas.UpdateSolverModel
import ClarabelProofs.Lemmas.UpdateAsmValues
import ClarabelProofs.Lemmas.UpdateQdldlValues
import ClarabelProofs.Lemmas.SolverStaleAnyStart

namespace Clarabel.Solver
open Clarabel Clarabel.Update
open Clarabel.Lemmas.KktSpec (KktInputs)

set_option linter.unusedSectionVars false
set_option linter.unusedVariables false

variable {α : Type}

section
variable [Add α] [Sub α] [Mul α] [Div α] [Neg α] [OfNat α 0] [OfNat α 1] [OfNat α 2]
  [OfNat α 100] [OfNat α 1000] [LT α] [DecidableLT α] [LE α] [DecidableLE α] [BEq α] [FloatLike α]

/-- the data whose matrices hold the values `pk`, `ak` (what the KKT copy is synchronised with) -/
def dataWith (d : ProblemData α) (pk ak : Array α) : ProblemData α :=
  { d with P := { d.P with nzval := pk }, A := { d.A with nzval := ak } }

/-- for consistent ghost values `dataWith` is the data itself -/
theorem dataWith_self (d : ProblemData α) : dataWith d d.P.nzval d.A.nzval = d := by
  cases d; rfl

/-- [S] **`DirectLDLKKTSolver::new` on frozen-pattern data**: for value arrays `pk`, `ak` of the right
lengths, `new` on `{P with nzval := pk}`, `{A with nzval := ak}` succeeds and the object it returns
has the structure of `S0`'s and holds `pk`, `ak` (`KSync`). -/
theorem kktSolver_new_frozen {st : Settings α} {perm : Array Nat} {S0 : Solver α} (hb : Base st perm S0)
    (pk ak : Array α) (hp : pk.size = S0.st.data.P.nzval.size) (ha : ak.size = S0.st.data.A.nzval.size) :
    ∃ K1, KktSolver.new { S0.st.data.P with nzval := pk } { S0.st.data.A with nzval := ak } S0.st.cones
        S0.st.data.m S0.st.data.n st.lin perm = .ok K1 ∧
      KSync st.lin S0.st.kktsystem.kktsolver K1 pk ak := by
  obtain ⟨_, _, hKs, _⟩ := ofData_parts hb.ofData
  obtain ⟨iperm, hasm, hperm⟩ := kktSolver_new_parts_own hKs
  obtain ⟨nz, hasm', hnzsz, hframe⟩ :=
    Clarabel.Lemmas.UpdateAsmValues.assembleKktMatrix_values hb.kktIn hasm pk ak hp ha
  obtain ⟨K1, hK1, e1, e2, e3, e4, e5, e6, e7, hLS, e8, e9, e10, e11, e12, hl⟩ :=
    kktSolver_new_values_of_asm hKs nz hnzsz hasm'
  refine ⟨K1, hK1, ?_⟩
  set K0 := S0.st.kktsystem.kktsolver with hK0
  have hin' := Clarabel.Lemmas.UpdateAsmValues.kktInputs_with (vP := pk) (vA := ak) hb.kktIn hp ha
  obtain ⟨_, _, _, _, a5, a6⟩ := assembly_PA_maps_own hin' hasm'
  obtain ⟨_, _, _, _, b5⟩ := permute_atop_own hperm
  have hm := hb.maps
  have hat : K1.ldl.AtoPAPt = K0.ldl.AtoPAPt := hLS.map.symm
  have hKnz : K1.KKT.nzval = nz := by rw [e7]
  refine
    { m := e1.symm, n := e2.symm, p := e3.symm, map := e4.symm, dsigns := e5.symm
      hsz := by rw [e6], km := by rw [e7], kn := by rw [e7], kcol := by rw [e7], krow := by rw [e7]
      nzsz := by rw [hKnz, hnzsz], ldlS := hLS, x := by rw [e8], b := by rw [e9], work1 := by rw [e10]
      work2 := by rw [e11], dr := fun _ => e12.symm
      frame := ?_, kP := ?_, kA := ?_, lframe := ?_, lP := ?_, lA := ?_ }
  · intro i _ h1 h2
    rw [hKnz]
    exact hframe i h1 h2
  · intro k hk
    rw [hKnz]
    have := a5 k (by show k < pk.size; rw [hp, ← hb.mapPsz]; exact hk)
    exact this
  · intro k hk
    rw [hKnz]
    have := a6 k (by show k < ak.size; rw [ha, ← hb.mapAsz]; exact hk)
    exact this
  · intro j hj
    by_cases hjs : j < K0.ldl.triuA.nzval.size
    · obtain ⟨i, hi⟩ := hm.atopSurj j hjs
      obtain ⟨h1, h2, h3⟩ := hj i hi
      obtain ⟨hi', _⟩ := Array.getElem?_eq_some_iff.mp hi
      have hin : i < K0.KKT.nzval.size := by rw [← hm.atopSize]; exact hi'
      have hgd : K0.ldl.AtoPAPt.getD i 0 = j := getD_of_getElem?_own hi
      have l1 := hl i (by rw [hnzsz]; exact hin)
      rw [hat, hgd] at l1
      have l0 := b5 i hin
      rw [hgd] at l0
      rw [l1, l0]
      exact hframe i h2 h3
    · have hsz : K1.ldl.triuA.nzval.size = K0.ldl.triuA.nzval.size := hLS.tnz.1.symm
      rw [Array.getElem?_eq_none (by omega), Array.getElem?_eq_none (by omega)]
  · intro k hk _
    have hb' : K0.map.P.getD k 0 < K0.KKT.nzval.size :=
      hm.bound _ (List.mem_append_left _ (getD_mem_own hk))
    have l1 := hl (K0.map.P.getD k 0) (by rw [hnzsz]; exact hb')
    rw [hat] at l1
    rw [l1]
    exact a5 k (by show k < pk.size; rw [hp, ← hb.mapPsz]; exact hk)
  · intro k hk _
    have hb' : K0.map.A.getD k 0 < K0.KKT.nzval.size :=
      hm.bound _ (List.mem_append_right _ (getD_mem_own hk))
    have l1 := hl (K0.map.A.getD k 0) (by rw [hnzsz]; exact hb')
    rw [hat] at l1
    rw [l1]
    exact a6 k (by show k < ak.size; rw [ha, ← hb.mapAsz]; exact hk)

/-- the state `SolverSt.ofData` builds around a given linear-solver object -/
def freshSt (d : ProblemData α) (cones : List (ConeSt α)) (K1 : KktSolver α) : SolverSt α :=
  { data := d, «variables» := varsNew d.n d.m, residuals := residNew d.n d.m,
    kktsystem := { kktsolver := K1, x1 := Array.replicate d.n 0, z1 := Array.replicate d.m 0,
                   x2 := Array.replicate d.n 0, z2 := Array.replicate d.m 0,
                   workx := Array.replicate d.n 0, workz := Array.replicate d.m 0,
                   workConic := Array.replicate d.m 0 },
    cones := cones, stepLhs := varsNew d.n d.m, stepRhs := varsNew d.n d.m,
    prevVars := varsNew d.n d.m, info := infoNew, infoMu := 0, infoSigma := 0, infoStepLength := 0 }

theorem ofData_eq_freshSt {d : ProblemData α} {st : Settings α} {perm : Array Nat} {cones : List (ConeSt α)}
    {K1 : KktSolver α} (hc : makeCones d.cones = .ok cones)
    (hK : KktSolver.new d.P d.A cones d.m d.n st.lin perm = .ok K1) :
    SolverSt.ofData d st perm = .ok (freshSt d cones K1) := by
  unfold SolverSt.ofData
  rw [bind_ok_of hc]
  unfold KktSys.new
  dsimp only
  rw [bind_ok_of hK]
  rfl

/-- [S] **the rebuilt object exists** along every history: `DefaultSolver::new` on the current data with
the matrices the KKT copy is synchronised with, equilibration frozen -/
theorem rebuiltWith_ok {st : Settings α} {perm : Array Nat} {S0 S : Solver α} {pk ak : Array α}
    (hb : Base st perm S0) (h : UInv st S0 S pk ak) (sol : Unscale.Solution α) :
    ∃ K1, KktSolver.new { S0.st.data.P with nzval := pk } { S0.st.data.A with nzval := ak } S0.st.cones
        S0.st.data.m S0.st.data.n st.lin perm = .ok K1 ∧
      KSync st.lin S0.st.kktsystem.kktsolver K1 pk ak ∧
      Solver.rebuiltWith S.st.data (dataWith S.st.data pk ak) st perm sol
        = .ok { st := { freshSt (dataWith S.st.data pk ak) S0.st.cones K1 with data := S.st.data },
                solution := sol } := by
  obtain ⟨K1, hK1, hs⟩ := kktSolver_new_frozen hb pk ak h.pksz h.aksz
  refine ⟨K1, hK1, hs, ?_⟩
  obtain ⟨_, hK0, _⟩ := ofData_parts hb.ofData
  have eP : ({ S.st.data.P with nzval := pk } : Csc α) = { S0.st.data.P with nzval := pk } := by
    have := h.frame.P.eq_with
    rw [this]
  have eA : ({ S.st.data.A with nzval := ak } : Csc α) = { S0.st.data.A with nzval := ak } := by
    have := h.frame.A.eq_with
    rw [this]
  have hc : makeCones (dataWith S.st.data pk ak).cones = .ok S0.st.cones := by
    show makeCones S.st.data.cones = _
    rw [h.frame.cones]; exact hK0
  have hK : KktSolver.new (dataWith S.st.data pk ak).P (dataWith S.st.data pk ak).A S0.st.cones
      (dataWith S.st.data pk ak).m (dataWith S.st.data pk ak).n st.lin perm = .ok K1 := by
    show KktSolver.new { S.st.data.P with nzval := pk } { S.st.data.A with nzval := ak } S0.st.cones
      S.st.data.m S.st.data.n st.lin perm = _
    rw [eP, eA, h.frame.m, h.frame.n]; exact hK1
  unfold Solver.rebuiltWith
  rw [bind_ok_of (ofData_eq_freshSt hc hK)]
  rfl

/-- [S] **update, then solve = solve of the rebuilt solver (general form).**  `S` any object reached
from `S0` (`UInv`), `pk`, `ak` the matrices its KKT copy is synchronised with, no presolver.  The
object `R` that `DefaultSolver::new` builds from the CURRENT data of `S` — equilibration frozen, KKT
system assembled from `pk`, `ak` — exists, and `S.solve` and `R.solve` fail with the same error or
succeed with the same observable result: the same `solution`, the same trajectory pass by pass, the
same final iterate and `info` figures. -/
theorem solve_eq_rebuiltWith (hbeq : ((0 : α) == 0) = true) {st : Settings α} {perm : Array Nat}
    {S0 S : Solver α} {pk ak : Array α} (hb : Base st perm S0) (h : UInv st S0 S pk ak)
    (hnp : S0.st.data.presolver = none) :
    ∃ R, Solver.rebuiltWith S.st.data (dataWith S.st.data pk ak) st perm
        (Unscale.Solution.new S.st.data.n S.st.data.m) = .ok R ∧
      R.st.data = S.st.data ∧
      RelM SolveObs (S.solve st) (R.solve st) := by
  obtain ⟨K1, hK1, hs1, hR⟩ := rebuiltWith_ok hb h (Unscale.Solution.new S.st.data.n S.st.data.m)
  refine ⟨_, hR, rfl, ?_⟩
  obtain ⟨_, _, _, v1, v2, v3, v4, v5, k1, k2, k3, k4, k5, k6, k7⟩ := ofData_parts hb.ofData
  have hn := h.frame.n
  have hm := h.frame.m
  -- shapes: `S0` against the rebuilt state
  have hsh0 : Sh S0.st { freshSt (dataWith S.st.data pk ak) S0.st.cones K1 with data := S.st.data } := by
    refine ⟨rfl, ?_, ?_, ?_, ?_, ?_, ?_, ?_, ?_, ?_, ?_, ?_, ?_, ?_, ConesShape.rfl' _, ?_, ?_, ?_⟩
    · show VarsShape S0.st.variables (varsNew S.st.data.n S.st.data.m)
      rw [v1, hn, hm]; exact VarsShape.rfl' _
    · show S0.st.residuals.rx.size = (residNew S.st.data.n S.st.data.m : Residuals.Resid α).rx.size
      rw [v2, hn, hm]
    · show S0.st.residuals.rz.size = (residNew S.st.data.n S.st.data.m : Residuals.Resid α).rz.size
      rw [v2, hn, hm]
    · show S0.st.residuals.rx_inf.size = (residNew S.st.data.n S.st.data.m : Residuals.Resid α).rx_inf.size
      rw [v2, hn, hm]
    · show S0.st.residuals.rz_inf.size = (residNew S.st.data.n S.st.data.m : Residuals.Resid α).rz_inf.size
      rw [v2, hn, hm]
    · show S0.st.residuals.Px.size = (residNew S.st.data.n S.st.data.m : Residuals.Resid α).Px.size
      rw [v2, hn, hm]
    · show S0.st.kktsystem.x1.size = (Array.replicate S.st.data.n (0 : α)).size
      rw [k1, hn]
    · show S0.st.kktsystem.z1.size = (Array.replicate S.st.data.m (0 : α)).size
      rw [k2, hm]
    · show S0.st.kktsystem.x2.size = (Array.replicate S.st.data.n (0 : α)).size
      rw [k3, hn]
    · show S0.st.kktsystem.z2.size = (Array.replicate S.st.data.m (0 : α)).size
      rw [k4, hm]
    · show S0.st.kktsystem.workx.size = (Array.replicate S.st.data.n (0 : α)).size
      rw [k5, hn]
    · show S0.st.kktsystem.workz.size = (Array.replicate S.st.data.m (0 : α)).size
      rw [k6, hm]
    · show S0.st.kktsystem.workConic.size = (Array.replicate S.st.data.m (0 : α)).size
      rw [k7, hm]
    · show VarsShape S0.st.stepLhs (varsNew S.st.data.n S.st.data.m)
      rw [v3, hn, hm]; exact VarsShape.rfl' _
    · show VarsShape S0.st.stepRhs (varsNew S.st.data.n S.st.data.m)
      rw [v4, hn, hm]; exact VarsShape.rfl' _
    · show VarsShape S0.st.prevVars (varsNew S.st.data.n S.st.data.m)
      rw [v5, hn, hm]; exact VarsShape.rfl' _
  have hshape : SameShape S.st { freshSt (dataWith S.st.data pk ak) S0.st.cones K1 with data := S.st.data } :=
    (h.sh.symm.trans hsh0).toSameShape rfl
  -- sizes of `S`
  have hws : WellSized S.st := h.sh.wellSized hb.wellSized
  have hwx : WorkxSized S.st := by
    show S.st.kktsystem.workx.size ≤ S.st.data.q.size
    have e1 : S.st.kktsystem.workx.size = S0.st.kktsystem.workx.size := h.sh.workx.symm
    have e2 := hb.workx
    unfold WorkxSized at e2
    rw [e1, h.frame.q]; exact e2
  -- the two linear-solver objects answer the first `update` alike
  have hU : Upd st.lin S.st.kktsystem.kktsolver K1 := KSync.upd h.ksync hs1
  have hfit : S.st.kktsystem.kktsolver.map.sparse_maps.size ≤ nSp (setIdentityScaling S.st.cones) := by
    rw [nSp_setIdentityScaling, ← h.ksync.map, ← nSp_shape h.sh.cones]
    exact hb.fit
  have hB : QW1 (setIdentityScaling S.st.cones) st.lin S.st.kktsystem.kktsolver K1 :=
    update_forgets hU h.kinv.ldl _ hfit
  have hst : Stale (QW1 (setIdentityScaling S.st.cones) st.lin) S.st
      { freshSt (dataWith S.st.data pk ak) S0.st.cones K1 with data := S.st.data } :=
    Stale.of_sameShape hshape hws hwx hB
  -- the solution objects
  have hpm : presolveMap S.st.data = none := by
    unfold presolveMap; rw [h.frame.presolver, hnp]
  have hsol : SolShape ((presolveMap S.st.data).map (fun m => m.keep.size)) S.solution
      (Unscale.Solution.new S.st.data.n S.st.data.m) := by
    obtain ⟨s1, s2⟩ := hb.noPre hnp
    refine SolShape.of_sizes ?_ ?_ ?_ ?_
    · show S.solution.x.size = (Array.replicate S.st.data.n (0 : α)).size
      rw [h.solx, hb.solx, Array.size_replicate, hn]
    · show S.solution.s.size = (Array.replicate S.st.data.m (0 : α)).size
      rw [h.sols, s1, Array.size_replicate, hm]
    · show S.solution.z.size = (Array.replicate S.st.data.m (0 : α)).size
      rw [h.solz, s2, Array.size_replicate, hm]
    · intro n hn'
      rw [hpm] at hn'
      cases hn'
  exact solve_rel1_any hbeq st
    (S' := { st := { freshSt (dataWith S.st.data pk ak) S0.st.cones K1 with data := S.st.data },
             solution := Unscale.Solution.new S.st.data.n S.st.data.m }) hst hsol

end

end Clarabel.Solver
