/-
  Solving twice on the whole-solver model WITH NONSYMMETRIC CONES (`ClarabelModel/SolverNS/*`, C05) —
  INTERFACE of the files `SolverNSStale*.lean` / `SolverNSQw*.lean`: the relations that say what a
  `solve()` may read of the mutable state it starts from.  Same architecture as
  `SolverStaleRel.lean` / `SolverStalePass.lean` / `KktQwIdem.lean` for the symmetric model; what is
  new:

  * `ConeShape` for the nonsymmetric cones: of an exponential cone NOTHING is read before the first
    `update_scaling` of a solve overwrites it (`H_dual, Hs, grad, z`); of a power cone the exponent; of
    a generalised power cone the exponents, `dim2` and `ψ` (the work vectors `grad, p, q, r, d1, d2, μ,
    z` are dead);
  * the scaling strategy is a loop-carried local (`PRel.scaling`); the strategy checkpoints may
    `continue` WITHOUT `save_prev_iterate`, so "`prev_*` of this solve have been written" is no longer
    `1 ≤ iter` but `Late` (below);
  * with a nonsymmetric cone `default_start` makes no KKT call: the first `KKTSolver::update` that
    meets the object left by the previous solve is the one of the first pass, on the cone list
    `scale_cones` has just produced.  The linear solver object enters through `KktSimN k st Bw`:
    `Bw` relates the objects before an `update`, `QB` (same object up to the content of the four work
    vectors) after it.

  All structural ([S]).
-/
import ClarabelModel.SolverNS.Solve
import ClarabelProofs.Lemmas.SolverNSPrefix
import ClarabelProofs.Lemmas.KktQwIdem

namespace Clarabel.SolverNS
open Clarabel Info Residuals
open Clarabel.Solver (RelM SameFrom VarsShape StepShape ResidShape ListRel KRel KktSolver KktSys
  LinSettings QB Upd KInv LdlInv InfoEqv carryPrev PrevEq VarsXSZ SolShape)

set_option linter.unusedSectionVars false
set_option linter.unusedVariables false

variable {α : Type}

/-! ### cones -/

/-- two cone objects of the same shape: everything a `solve()` reads of a cone object before its
first `update_scaling` / `set_identity_scaling` has overwritten the rest -/
def ConeShape : ConeSt α → ConeSt α → Prop
  | .sym c, .sym c' => Solver.ConeShape c c'
  | .exp _, .exp _ => True
  | .pow a _, .pow a' _ => a = a'
  | .genpow al d2 ψ _, .genpow al' d2' ψ' _ => al = al' ∧ d2 = d2' ∧ ψ = ψ'
  | _, _ => False

/-- equal up to the content of `λ` of the symmetric cones (the state between `set_identity_scaling`
and the first successful `update_scaling`; only met when every cone is symmetric) and up to the
dead state of the nonsymmetric cones -/
def ConeEqvLam : ConeSt α → ConeSt α → Prop
  | .sym c, .sym c' => Solver.ConeEqvLam c c'
  | .exp _, .exp _ => True
  | .pow a _, .pow a' _ => a = a'
  | .genpow al d2 ψ _, .genpow al' d2' ψ' _ => al = al' ∧ d2 = d2' ∧ ψ = ψ'
  | _, _ => False

abbrev ConesShape (cs cs' : List (ConeSt α)) : Prop := ListRel ConeShape cs cs'
abbrev ConesEqvLam (cs cs' : List (ConeSt α)) : Prop := ListRel ConeEqvLam cs cs'

/-- number of cones that consume an expansion map in `KKTSolver::update` (sparse second-order
cones, generalised power cones) -/
def nSpN : List (ConeSt α) → Nat
  | [] => 0
  | .sym (.soc sc) :: cs => (if sc.sparse.isSome then 1 else 0) + nSpN cs
  | .genpow .. :: cs => 1 + nSpN cs
  | _ :: cs => nSpN cs

section
variable [Add α] [Sub α] [Mul α] [Div α] [Neg α] [LT α] [LE α] [DecidableLT α] [DecidableLE α]
  [BEq α] [OfNat α 0] [OfNat α 1] [OfNat α 2] [OfNat α 3] [OfNat α 4] [OfNat α 100] [OfNat α 1000]
  [OfScientific α] [FloatLike α]

/-! ### the linear solver, seen through `update` and `setrhs; solve` -/

/-- the two objects answer EVERY `update(cones, st)` of this model alike -/
def QWN (st : LinSettings α) (K K' : KktSolver α) : Prop :=
  ∀ cones : List (ConeSt α),
    RelM (fun r r' => r.1 = r'.1 ∧ QB r.2 r'.2) (kktSolverUpdate K cones st) (kktSolverUpdate K' cones st)

/-- A simulation for the KKT solver object under the settings `st`: `Bw` relates two objects before
an `update` with a cone list that has at least `k` map-consuming cones (`update` may forget
everything numeric); after it the objects are `QB`-related (`setrhs; solve` on `QB`-related objects:
`Solver.qdldl_kktSim.solve`); `QB` implies `Bw`. -/
structure KktSimN (k : Nat) (st : LinSettings α) (Bw : KktSolver α → KktSolver α → Prop) : Prop where
  update : ∀ {K K'} (cones : List (ConeSt α)), k ≤ nSpN cones → Bw K K' →
    RelM (fun r r' => r.1 = r'.1 ∧ QB r.2 r'.2) (kktSolverUpdate K cones st) (kktSolverUpdate K' cones st)
  weaken : ∀ {K K'}, QB K K' → Bw K K'

/-- an iterate of which only the lengths matter and — `unit_initialization` writes over `rng_cones`
only — the entries of `s`, `z` past the last cone -/
structure IterShape (n : Nat) (v v' : Vars α) : Prop where
  x : v.x.size = v'.x.size
  s : SameFrom n v.s v'.s
  z : SameFrom n v.z v'.z

theorem IterShape.shape {n : Nat} {v v' : Vars α} (h : IterShape n v v') : VarsShape v v' :=
  ⟨h.x, h.s.1, h.z.1⟩

/-- **What `solve()` may read of the state it starts from** (model with nonsymmetric cones): the
data, the lengths of every work vector, the shape of the cone objects, three vectors beyond the last
cone, `workx` beyond the length of `q`, the linear solver object up to `Bw`. -/
structure Stale (Bw : KktSolver α → KktSolver α → Prop) (S S' : SolverSt α) : Prop where
  data : S.data = S'.data
  «variables» : IterShape (numelAll S.cones) S.variables S'.variables
  residuals : ResidShape S.residuals S'.residuals
  kktsystem : KRel Bw (numelAll S.cones) S.data.q.size S.kktsystem S'.kktsystem
  cones : ConesShape S.cones S'.cones
  stepLhs : StepShape (numelAll S.cones) S.stepLhs S'.stepLhs
  stepRhs : StepShape (numelAll S.cones) S.stepRhs S'.stepRhs
  prevVars : VarsShape S.prevVars S'.prevVars

/-- the solver state with its `info` block replaced -/
def withInfo (S : SolverSt α) (i : InfoS α) (a b c : α) : SolverSt α :=
  { S with info := i, infoMu := a, infoSigma := b, infoStepLength := c }

/-- two pass records agree on everything but the `prev_*` fields of the `info` copy -/
def RecEqv (r r' : PassRec α) : Prop := ∃ p : InfoS α, r' = { r with info := carryPrev r.info p }

/-- "`save_prev_iterate` of THIS solve has run": at least one pass so far incremented `iter` without
being a strategy switch.  (A switching pass `continue`s after `iter += 1` without saving; there is
at most one, and only under `PrimalDual`.) -/
def Late (L : LoopSt α) : Prop := (1 ≤ L.iter ∧ L.scaling = .PrimalDual) ∨ 2 ≤ L.iter

/-- what a pass may read of the loop state -/
structure PRel (Bw : KktSolver α → KktSolver α → Prop) (L L' : LoopSt α) : Prop where
  iter : L.iter = L'.iter
  sigma : L.sigma = L'.sigma
  alpha : L.alpha = L'.alpha
  mu : L.mu = L'.mu
  scaling : L.scaling = L'.scaling
  traj : ListRel RecEqv L.traj L'.traj
  data : L.S.data = L'.S.data
  «variables» : L.S.variables = L'.S.variables
  status : L.S.info.status = .unsolved
  info : ∃ p : InfoS α, L'.S.info = carryPrev L.S.info p ∧ (Late L → PrevEq p L.S.info)
  prevVars : VarsShape L.S.prevVars L'.S.prevVars
  prevVarsLate : Late L → L.S.prevVars = L'.S.prevVars
  residuals : ResidShape L.S.residuals L'.S.residuals
  kktsystem : KRel Bw (numelAll L.S.cones) L.S.data.q.size L.S.kktsystem L'.S.kktsystem
  cones : ConesShape L.S.cones L'.S.cones
  stepLhs : StepShape (numelAll L.S.cones) L.S.stepLhs L'.S.stepLhs
  stepRhs : StepShape (numelAll L.S.cones) L.S.stepRhs L'.S.stepRhs

/-- what the code after the loop reads -/
structure FRel (L L' : LoopSt α) : Prop where
  iter : L.iter = L'.iter
  sigma : L.sigma = L'.sigma
  alpha : L.alpha = L'.alpha
  mu : L.mu = L'.mu
  traj : ListRel RecEqv L.traj L'.traj
  data : L.S.data = L'.S.data
  «variables» : L.S.variables = L'.S.variables
  info : InfoEqv L.S.info L'.S.info
  residuals : L.S.residuals = L'.S.residuals
  infoMu : L.S.infoMu = L'.S.infoMu
  infoSigma : L.S.infoSigma = L'.S.infoSigma
  infoStepLength : L.S.infoStepLength = L'.S.infoStepLength

/-- the pass-output relation: same `break`/continue flag; related loop states -/
def PassOut (Bw : KktSolver α → KktSolver α → Prop) (r r' : Bool × LoopSt α) : Prop :=
  r.1 = r'.1 ∧ (if r.1 = true then PRel Bw r.2 r'.2 else FRel r.2 r'.2)

/-- what a caller can observe of a `solve()`: the solution object, the recorded trajectory (up to
the private `prev_*` copies inside the `info` snapshots), the final iterate and the final `info`
block (again up to `prev_*`) -/
structure SolveObs (r r' : SolveResult α) : Prop where
  solution : r.S.solution = r'.S.solution
  traj : ListRel RecEqv r.traj r'.traj
  data : r.S.st.data = r'.S.st.data
  «variables» : r.S.st.variables = r'.S.st.variables
  info : InfoEqv r.S.st.info r'.S.st.info
  infoMu : r.S.st.infoMu = r'.S.st.infoMu
  infoSigma : r.S.st.infoSigma = r'.S.st.infoSigma
  infoStepLength : r.S.st.infoStepLength = r'.S.st.infoStepLength

/-- **(iii)** `solve_initial_point` succeeds on this state.  Only the symmetric branch of
`default_start` calls it: with a nonsymmetric cone in the composite the condition is void
(`InitPointOk.of_nonsymmetric`). -/
def InitPointOk (S : SolverSt α) (st : Settings α) : Prop :=
  isSymmetric S.cones = true → ∀ cs u v, setIdentityScaling S.cones = .ok cs →
    kktSysUpdate S.kktsystem S.data cs st.lin = .ok u →
    u.2.solveInitialPoint S.variables S.data st.lin = .ok v → v.1 = true

theorem InitPointOk.of_nonsymmetric {S : SolverSt α} (st : Settings α) (h : isSymmetric S.cones = false) :
    InitPointOk S st := fun hs => by rw [h] at hs; cases hs

/-- **structural invariant of the linear-solver object inside a solver object**: C12's history
invariant for the QDLDL engine, one common length for the four work vectors, and no more expansion
maps than the cone list has map-consuming cones -/
structure KktOk (S : SolverSt α) : Prop where
  inv : KInv S.kktsystem.kktsolver
  fit : S.kktsystem.kktsolver.map.sparse_maps.size ≤ nSpN S.cones

end

end Clarabel.SolverNS
