/-
  Solving twice on the whole-solver model WITH NONSYMMETRIC CONES (C05), the `info` part — the
  counterpart of `Lemmas/SolverModelIdem.lean` for `ClarabelModel/SolverNS/Solve.lean`: the whole
  `info` block of the solver object except the six `prev_*` fields is irrelevant for `solve()`
  (reset or overwritten before it is read), and `solve()` never writes the problem data.
  All structural ([S]).
-/
import ClarabelProofs.Lemmas.SolverNSStaleDefs

namespace Clarabel.SolverNS
open Clarabel Info Residuals
open Clarabel.Solver (bind_ok_inv carryPrev PrevEq carryPrev_prevEq update_congr)

set_option linter.unusedSectionVars false
set_option linter.unusedVariables false

variable {α : Type}

section
variable [Add α] [Sub α] [Mul α] [Div α] [Neg α] [LT α] [LE α] [DecidableLT α] [DecidableLE α]
  [BEq α] [OfNat α 0] [OfNat α 1] [OfNat α 2] [OfNat α 3] [OfNat α 4] [OfNat α 100] [OfNat α 1000]
  [OfScientific α] [FloatLike α]

/-! ### the `info` block is dead (up to `prev_*`) -/

theorem topNumerics_withInfo (S : SolverSt α) (i : InfoS α) (a b c : α) (iter : Nat)
    (hp : PrevEq i S.info) (hst : i.status = S.info.status) :
    topNumerics (withInfo S i a b c) iter = topNumerics S iter := by
  have key : ∀ eq nq nb v r, Info.update { i with iterations := iter } eq nq nb v r
      = Info.update { S.info with iterations := iter } eq nq nb v r :=
    fun eq nq nb v r => update_congr _ _ eq nq nb v r hp rfl hst
  unfold topNumerics
  dsimp only [withInfo]
  simp only [key]

/-- the rest of a pass overwrites the whole `info` block before reading it -/
theorem passRest_withInfo (st : Settings α) (L : LoopSt α) (i : InfoS α) (a b c : α)
    (r : Residuals.Resid α) (mu : α) (i1 : InfoS α) (ct : InfoS α × Bool) :
    passRest st { L with S := withInfo L.S i a b c } r mu i1 ct = passRest st L r mu i1 ct := rfl

/-- a pass reads of the `info` block only `prev_*` and `status` -/
theorem pass_withInfo (st : Settings α) (L : LoopSt α) (i : InfoS α) (a b c : α)
    (hp : PrevEq i L.S.info) (hst : i.status = L.S.info.status) :
    pass st { L with S := withInfo L.S i a b c } = pass st L := by
  rw [pass_eq, pass_eq]
  show (topNumerics (withInfo L.S i a b c) L.iter >>= _) = _
  rw [topNumerics_withInfo L.S i a b c L.iter hp hst]
  cases topNumerics L.S L.iter with
  | error e => rfl
  | ok t => exact passRest_withInfo st L i a b c _ _ _ _

/-- `default_start()` (either branch) carries the `info` block along untouched -/
theorem defaultStart_withInfo (S : SolverSt α) (st : Settings α) (i : InfoS α) (a b c : α) :
    (withInfo S i a b c).defaultStart st = (S.defaultStart st).map (fun S' => withInfo S' i a b c) := by
  unfold SolverSt.defaultStart
  dsimp only [withInfo]
  by_cases hs : isSymmetric S.cones = true
  · simp only [hs, ↓reduceIte]
    cases setIdentityScaling S.cones with
    | error e => rfl
    | ok cs =>
      dsimp only [bind, Except.bind]
      cases kktSysUpdate S.kktsystem S.data cs st.lin with
      | error e => rfl
      | ok p =>
        obtain ⟨ok1, ks⟩ := p
        dsimp only
        cases ks.solveInitialPoint S.variables S.data st.lin with
        | error e => rfl
        | ok q =>
          obtain ⟨ok2, v, ks2⟩ := q
          dsimp only
          cases symmetricInitialization v cs with
          | error e => rfl
          | ok v2 => rfl
  · simp only [hs]
    cases varsUnitInitialization S.variables S.cones with
    | error e => rfl
    | ok v => rfl

/-- `C05.full_solve_info_irrelevant` (loop level, model with nonsymmetric cones): `runSolve` reads
of the `info` block (`DefaultInfo`: the nine figures of the last `info.update`, `μ`, `σ`,
`step_length`, `iterations`, `status`) only the six `prev_*` fields — everything else is reset or
overwritten before it is read -/
theorem runSolve_withInfo (S : SolverSt α) (st : Settings α) (i : InfoS α) (a b c : α)
    (hp : PrevEq i S.info) : (withInfo S i a b c).runSolve st = S.runSolve st := by
  have e1 : (withInfo S i a b c).runSolve st =
      ((S.defaultStart st).map fun S0 => withInfo S0 { i with status := .unsolved, iterations := 0 } a b c)
        >>= fun S1 => runLoop st (st.info.max_iter + 3) (initLoopSt S1) := by
    unfold SolverSt.runSolve
    rw [← defaultStart_withInfo]
    rfl
  have e2 : S.runSolve st =
      ((S.defaultStart st).map fun S0 => withInfo S0 { S.info with status := .unsolved, iterations := 0 }
          S.infoMu S.infoSigma S.infoStepLength)
        >>= fun S1 => runLoop st (st.info.max_iter + 3) (initLoopSt S1) := by
    unfold SolverSt.runSolve
    rw [← defaultStart_withInfo]
    rfl
  rw [e1, e2]
  cases S.defaultStart st with
  | error e => rfl
  | ok S0 =>
    show runLoop st (st.info.max_iter + 2 + 1)
        (initLoopSt (withInfo S0 { i with status := .unsolved, iterations := 0 } a b c)) =
      runLoop st (st.info.max_iter + 2 + 1)
        (initLoopSt (withInfo S0 { S.info with status := .unsolved, iterations := 0 }
          S.infoMu S.infoSigma S.infoStepLength))
    have hpass : pass st (initLoopSt (withInfo S0 { i with status := .unsolved, iterations := 0 } a b c)) =
        pass st (initLoopSt (withInfo S0 { S.info with status := .unsolved, iterations := 0 }
          S.infoMu S.infoSigma S.infoStepLength)) :=
      pass_withInfo st (initLoopSt (withInfo S0 { S.info with status := .unsolved, iterations := 0 }
          S.infoMu S.infoSigma S.infoStepLength)) { i with status := .unsolved, iterations := 0 } a b c hp rfl
    unfold runLoop
    rw [hpass]

/-- `C05.full_solve_info_irrelevant` (model with nonsymmetric cones): `solve()` reads of the `info`
block only the `prev_*` fields -/
theorem solve_withInfo (S : Solver α) (st : Settings α) (i : InfoS α) (a b c : α)
    (hp : PrevEq i S.st.info) :
    ({ S with st := withInfo S.st i a b c } : Solver α).solve st = S.solve st := by
  unfold Solver.solve
  show ((withInfo S.st i a b c).runSolve st >>= _) = _
  rw [runSolve_withInfo S.st st i a b c hp]

/-- the solver object `S1` with the `info` block of `S0` (keeping `S1`'s own `prev_*`) -/
def withInfoOf (S0 S1 : Solver α) : Solver α :=
  { S1 with st := withInfo S1.st (carryPrev S0.st.info S1.st.info) S0.st.infoMu S0.st.infoSigma S0.st.infoStepLength }

theorem solve_withInfoOf (S0 S1 : Solver α) (st : Settings α) : (withInfoOf S0 S1).solve st = S1.solve st :=
  solve_withInfo S1 st _ _ _ _ (carryPrev_prevEq _ _)

/-! ### `solve()` never writes the problem data -/

/-- the KKT stage does not touch the problem data -/
theorem kktNumerics_data {st : Settings α} {S : SolverSt α} {cones : List (ConeSt α)} {mu : α}
    {iter : Nat} {sc : Loop.Scaling} {k : KktOut α} (h : kktNumerics st S cones mu iter sc = .ok k) :
    k.S.data = S.data := by
  unfold kktNumerics at h
  dsimp only at h
  repeat (first | (obtain ⟨_, _, h⟩ := bind_ok_inv h) | (split at h) | (dsimp only at h))
  all_goals (cases h; rfl)

/-- a pass never writes the problem data -/
theorem pass_data {st : Settings α} {L L' : LoopSt α} {c : Bool} (hp : pass st L = .ok (c, L')) :
    L'.S.data = L.S.data := by
  unfold pass at hp
  obtain ⟨⟨residuals, mu, info1⟩, _, hp⟩ := bind_ok_inv hp
  try dsimp only at hp
  split at hp
  · split at hp
    · cases hp; rfl
    · obtain ⟨vs, _, hp⟩ := bind_ok_inv hp
      try dsimp only at hp
      split at hp <;> (cases hp; rfl)
  · obtain ⟨sc, _, hp⟩ := bind_ok_inv hp
    try dsimp only at hp
    split at hp
    · cases hp; rfl
    · obtain ⟨k, hk, hp⟩ := bind_ok_inv hp
      have hkd := kktNumerics_data hk
      try dsimp only at hp
      split at hp
      · split at hp <;> (cases hp; exact hkd)
      · obtain ⟨⟨a, nbt⟩, _, hp⟩ := bind_ok_inv hp
        try dsimp only at hp
        split at hp
        · cases hp; exact hkd
        · split at hp
          · cases hp; exact hkd
          · obtain ⟨pv, _, hp⟩ := bind_ok_inv hp
            cases hp
            exact hkd

/-- the loop never writes the problem data -/
theorem runLoop_data {st : Settings α} : ∀ (fuel : Nat) (L Lf : LoopSt α),
    runLoop st fuel L = .ok Lf → Lf.S.data = L.S.data
  | 0, _, _, h => by cases h
  | fuel + 1, L, Lf, h => by
    unfold runLoop at h
    obtain ⟨r, hp, h⟩ := bind_ok_inv h
    obtain ⟨c, L'⟩ := r
    have hd : L'.S.data = L.S.data := pass_data hp
    cases c with
    | false =>
      cases h
      exact hd
    | true =>
      have := runLoop_data fuel L' Lf h
      rw [this, hd]

/-- `default_start()` never writes the problem data -/
theorem defaultStart_data {S S' : SolverSt α} {st : Settings α} (h : S.defaultStart st = .ok S') :
    S'.data = S.data := by
  unfold SolverSt.defaultStart at h
  split at h
  · obtain ⟨cs, _, h⟩ := bind_ok_inv h
    obtain ⟨⟨ok1, ks⟩, _, h⟩ := bind_ok_inv h
    obtain ⟨⟨ok2, v, ks2⟩, _, h⟩ := bind_ok_inv h
    obtain ⟨v2, _, h⟩ := bind_ok_inv h
    cases h
    rfl
  · obtain ⟨v, _, h⟩ := bind_ok_inv h
    cases h
    rfl

theorem runSolve_data {S : SolverSt α} {st : Settings α} {L : LoopSt α} (h : S.runSolve st = .ok L) :
    L.S.data = S.data := by
  unfold SolverSt.runSolve at h
  obtain ⟨S0, hds, h⟩ := bind_ok_inv h
  rw [runLoop_data _ _ _ h]
  show S0.data = _
  rw [defaultStart_data hds]

theorem finishInfo_data (st : Settings α) (L : LoopSt α) : (finishInfo st L).data = L.S.data := by
  unfold finishInfo
  dsimp only
  split <;> rfl

/-- the loop and `finish` of a `solve()` never write the (internal) problem data -/
theorem runSolve_finish_data {S : SolverSt α} {st : Settings α} {L : LoopSt α} {sol : Unscale.Solution α}
    {p : SolverSt α × Unscale.Solution α} (hL : S.runSolve st = .ok L) (hp : finish st L sol = .ok p) :
    p.1.data = S.data := by
  unfold finish at hp
  obtain ⟨u, hu, hp⟩ := bind_ok_inv hp
  cases hp
  show (finishInfo st L).data = _
  rw [finishInfo_data, runSolve_data hL]

/-- **what `solve()` does to the (internal) problem data**: nothing but FILL THE TWO NORM CACHES —
the data of the returned object is `get_normq(); get_normb()` (`Solver.fillNorms`) applied to the data
at entry -/
theorem solve_data {S : Solver α} {st : Settings α} {r : SolveResult α} (h : S.solve st = .ok r) :
    Solver.fillNorms S.st.data = .ok r.S.st.data := by
  unfold Solver.solve at h
  obtain ⟨L, hL, h⟩ := bind_ok_inv h
  obtain ⟨p, hp, h⟩ := bind_ok_inv h
  obtain ⟨dN, hdN, h⟩ := bind_ok_inv h
  cases h
  rw [runSolve_finish_data hL hp] at hdN
  exact hdN

/-- `solve_data`, spelled out: the caches become `some` of what `get_normq` / `get_normb` answer on
the data at entry; every other field of the data is unchanged -/
theorem solve_data_eq {S : Solver α} {st : Settings α} {r : SolveResult α} (h : S.solve st = .ok r) :
    ∃ nq nb, Info.getNormq S.st.data.normq S.st.data.q S.st.data.equilibration.dinv
        S.st.data.equilibration.c = .ok nq
      ∧ Info.getNormb S.st.data.normb S.st.data.b S.st.data.equilibration.einv = .ok nb
      ∧ r.S.st.data = { S.st.data with normq := some nq, normb := some nb } := by
  have h' := solve_data h
  unfold Solver.fillNorms at h'
  obtain ⟨nq, hq, h'⟩ := bind_ok_inv h'
  obtain ⟨nb, hb, h'⟩ := bind_ok_inv h'
  exact ⟨nq, nb, hq, hb, (Except.ok.inj h').symm⟩

end

end Clarabel.SolverNS
