/-
  Second-order cone: a point strictly between an interior point and a point of the cone is
  interior (helper lemmas for `C07.interior_preserved_soc`).
-/
import ClarabelProofs.Lemmas.ConesSoc

namespace Clarabel.Soc

theorem dotL_axpy_right (x y : List ℝ) (t : ℝ) (h : x.length = y.length) :
    dotL x (axpyL x t y) = dotL x x + t * dotL x y := by
  induction x generalizing y with
  | nil => simp [axpyL]
  | cons a u ih => cases y with
    | nil => simp at h
    | cons b v =>
      simp only [List.length_cons, add_left_inj] at h
      have := ih v h
      simp only [axpyL, List.zipWith_cons_cons, dotL_cons] at this ⊢
      rw [this]; ring

theorem axpyL_length (x y : List ℝ) (t : ℝ) (h : x.length = y.length) : (axpyL x t y).length = x.length := by
  simp [axpyL, h]

theorem axpyL_zero (x y : List ℝ) (h : x.length = y.length) : axpyL x 0 y = x := by
  induction x generalizing y with
  | nil => simp [axpyL]
  | cons a u ih => cases y with
    | nil => simp at h
    | cons b v =>
      simp only [List.length_cons, add_left_inj] at h
      have := ih v h
      simp only [axpyL, List.zipWith_cons_cons] at this ⊢
      rw [this]; simp

/-- Cauchy–Schwarz for list dot products of equal length -/
theorem dotL_cauchy (x y : List ℝ) (h : x.length = y.length) :
    dotL x y ^ 2 ≤ dotL x x * dotL y y := by
  have key : ∀ s : ℝ, 0 ≤ dotL x x + 2 * s * dotL x y + s ^ 2 * dotL y y := by
    intro s
    have := dotL_self_nonneg (axpyL x s y)
    rwa [dotL_axpy_self x y s h] at this
  by_cases hy : dotL y y = 0
  · -- then the linear function 2 s (x·y) + x·x is nonnegative for all s
    rw [hy]
    by_contra hc
    push_neg at hc
    have hne : dotL x y ≠ 0 := by
      intro h0; rw [h0] at hc; simp at hc
    have hk := key (-(dotL x x + 1) / (2 * dotL x y))
    rw [hy] at hk
    have e : dotL x x + 2 * (-(dotL x x + 1) / (2 * dotL x y)) * dotL x y
        + (-(dotL x x + 1) / (2 * dotL x y)) ^ 2 * 0 = -1 := by
      field_simp; ring
    rw [e] at hk
    linarith
  · have hpos : 0 < dotL y y := lt_of_le_of_ne (dotL_self_nonneg y) (Ne.symm hy)
    have := key (-(dotL x y) / dotL y y)
    have e : dotL x x + 2 * (-(dotL x y) / dotL y y) * dotL x y + (-(dotL x y) / dotL y y) ^ 2 * dotL y y
        = dotL x x - dotL x y ^ 2 / dotL y y := by
      field_simp; ring
    rw [e] at this
    have : dotL x y ^ 2 / dotL y y ≤ dotL x x := by linarith
    rwa [div_le_iff₀ hpos] at this

/-- the bilinear form `p₀q₀ − p₁·q₁` is nonnegative for an interior point and a point of the cone -/
theorem bilinear_nonneg (p0 : ℝ) (p1 : List ℝ) (q0 : ℝ) (q1 : List ℝ) (hp : Interior p0 p1)
    (hq : InCone q0 q1) (h : p1.length = q1.length) : dotL p1 q1 ≤ p0 * q0 := by
  have cs := dotL_cauchy p1 q1 h
  have h1 : dotL p1 q1 ^ 2 ≤ (p0 * q0) ^ 2 := by
    calc dotL p1 q1 ^ 2 ≤ dotL p1 p1 * dotL q1 q1 := cs
      _ ≤ p0 ^ 2 * q0 ^ 2 := mul_le_mul hp.2.le hq.2 (dotL_self_nonneg _) (sq_nonneg _)
      _ = (p0 * q0) ^ 2 := by ring
  have h2 : 0 ≤ p0 * q0 := mul_nonneg hp.1.le hq.1
  nlinarith [abs_le_of_sq_le_sq' h1 h2]

/-- strictly inside the segment from an interior point towards a point of the cone, the
ray stays in the interior -/
theorem interior_of_segment (x0 : ℝ) (x1 : List ℝ) (y0 : ℝ) (y1 : List ℝ) (t a : ℝ)
    (hx : Interior x0 x1) (hlen : x1.length = y1.length) (ht : InCone (x0 + t * y0) (axpyL x1 t y1))
    (ha0 : 0 ≤ a) (hat : a < t) : Interior (x0 + a * y0) (axpyL x1 a y1) := by
  have htpos : 0 < t := lt_of_le_of_lt ha0 hat
  -- λ = a / t ∈ [0,1)
  obtain ⟨lam, hl0, hl1, hal⟩ : ∃ lam : ℝ, 0 ≤ lam ∧ lam < 1 ∧ a = lam * t :=
    ⟨a / t, div_nonneg ha0 htpos.le, (div_lt_one htpos).mpr hat, by field_simp⟩
  have hB := bilinear_nonneg x0 x1 (x0 + t * y0) (axpyL x1 t y1) hx ht
    (by rw [axpyL_length x1 y1 t hlen])
  rw [dotL_axpy_right x1 y1 t hlen] at hB
  have hq2 := ht.2
  rw [dotL_axpy_self x1 y1 t hlen] at hq2
  constructor
  · -- first component: convex combination of a positive and a nonnegative number
    have : x0 + a * y0 = (1 - lam) * x0 + lam * (x0 + t * y0) := by rw [hal]; ring
    rw [this]
    have h1 : 0 < (1 - lam) * x0 := mul_pos (by linarith) hx.1
    have h2 : 0 ≤ lam * (x0 + t * y0) := mul_nonneg hl0 ht.1
    linarith
  · rw [dotL_axpy_self x1 y1 a hlen, hal]
    -- res((1-λ)p + λq) = (1-λ)² res p + λ² res q + 2λ(1-λ) B(p,q)
    have hxr := hx.2
    have e1 : 0 < (1 - lam) ^ 2 * (x0 ^ 2 - dotL x1 x1) := by
      apply mul_pos (by nlinarith) (by linarith)
    have e2 : 0 ≤ lam ^ 2 * ((x0 + t * y0) ^ 2 - (dotL x1 x1 + 2 * t * dotL x1 y1 + t ^ 2 * dotL y1 y1)) :=
      mul_nonneg (sq_nonneg _) (by linarith)
    have e3 : 0 ≤ 2 * lam * (1 - lam) * (x0 * (x0 + t * y0) - (dotL x1 x1 + t * dotL x1 y1)) :=
      mul_nonneg (mul_nonneg (by linarith) (by linarith)) (by linarith)
    nlinarith [e1, e2, e3]

end Clarabel.Soc
