/-
  Bridge between the executable, `Array`-based model of `DefaultKKTSystem::solve`
  (`KktSystem.solveAssemble`) and its dense reading `Lemmas.assembleDense`
  (`Fin n → α` vectors, `Matrix` operators) over a field.
-/
import ClarabelModel.KktSystem
import ClarabelProofs.Lemmas.StepNewton
import Mathlib.Algebra.BigOperators.Fin

namespace Clarabel.Lemmas
open Matrix Clarabel Clarabel.Step

set_option linter.unusedSectionVars false

variable {α : Type} [Field α] {n m : ℕ}

/-- an array read as a vector of length `n` -/
def toFn (a : Array α) (n : ℕ) : Fin n → α := fun i => a.getD i 0

theorem foldl_dot_eq (l : List (α × α)) (a : α) :
    l.foldl (fun acc p => acc + p.1 * p.2) a = a + (l.map fun p => p.1 * p.2).sum := by
  induction l generalizing a with
  | nil => simp
  | cons p t ih => simp only [List.foldl_cons, List.map_cons, List.sum_cons, ih]; ring

theorem zip_map_eq_ofFn (x y : Array α) (f : α → α → α) (hx : x.size = n) (hy : y.size = n) :
    (x.toList.zip y.toList).map (fun p => f p.1 p.2)
      = List.ofFn (fun i : Fin n => f (toFn x n i) (toFn y n i)) := by
  apply List.ext_getElem
  · simp [hx, hy]
  · intro i h1 h2
    have hi : i < n := by simpa using h2
    simp [toFn, Array.getD, hx, hy, hi]

theorem dot_toFn (x y : Array α) (hx : x.size = n) (hy : y.size = n) :
    Vec.dot x y = toFn x n ⬝ᵥ toFn y n := by
  unfold Vec.dot
  rw [foldl_dot_eq, zero_add, zip_map_eq_ofFn x y (· * ·) hx hy, List.sum_ofFn]
  rfl

theorem waxpby_size (a b : α) (x y : Array α) (hx : x.size = n) (hy : y.size = n) :
    (Vec.waxpby a x b y).size = n := by simp [Vec.waxpby, hx, hy]

theorem axpby_size (a b : α) (x y : Array α) (hx : x.size = n) (hy : y.size = n) :
    (Vec.axpby a x b y).size = n := by simp [Vec.axpby, hx, hy]

theorem toFn_of_list (l : List α) (g : Fin n → α) (h : l = List.ofFn g) :
    toFn l.toArray n = g := by
  funext i
  subst h
  simp [toFn, Array.getD]

theorem toFn_waxpby (a b : α) (x y : Array α) (hx : x.size = n) (hy : y.size = n) :
    toFn (Vec.waxpby a x b y) n = a • toFn x n + b • toFn y n := by
  unfold Vec.waxpby
  rw [toFn_of_list _ _ (zip_map_eq_ofFn x y (fun u v => a * u + b * v) hx hy)]
  funext i; simp

theorem toFn_axpby (a b : α) (x y : Array α) (hx : x.size = n) (hy : y.size = n) :
    toFn (Vec.axpby a x b y) n = a • toFn x n + b • toFn y n := by
  unfold Vec.axpby
  rw [toFn_of_list _ _ (zip_map_eq_ofFn y x (fun v u => a * u + b * v) hy hx)]
  funext i; simp

end Clarabel.Lemmas
