/-
  "The assembly does not panic": existence (success) lemmas for the fill engine and for the
  counting pass of the KKT assembly.

  * `place_run`, `placeAll_exists`, `placeAll_run`: a schedule whose closed-form destinations
    all exist and lie inside `rowval`/`nzval`, and whose map slots lie inside the index map,
    runs without error (and then satisfies `PlaceSpec`);
  * `colcount*_exists`: every counting utility succeeds when the counters it touches exist;
  * `kktAssembleColcounts_exists`: the whole counting pass succeeds on a counter array of
    `n + m + p + 1` entries for canonical `P`, `A` and a cone list with `Σ numel = m`.

  No arithmetic law of the scalar type is used.
-/
import ClarabelModel.Kkt
import ClarabelProofs.Lemmas.KktPlace
import ClarabelProofs.Lemmas.KktSchedule
import ClarabelProofs.Lemmas.KktCount
import ClarabelProofs.Lemmas.KktSorted

set_option linter.unusedSectionVars false
set_option linter.unusedVariables false

namespace Clarabel.Lemmas.KktRun
open Clarabel Clarabel.Csc Clarabel.Kkt Clarabel.Lemmas.KktPlace Clarabel.Lemmas.KktCount
open Clarabel.Lemmas.KktSorted (Canon IsTriu)

variable {α : Type}

-- ------------------------------------------------------------------ primitives

theorem getE_some {β : Type} {xs : Array β} {i : Nat} {s : String} {v : β} (h : xs[i]? = some v) :
    getE xs i s = .ok v := (getE_ok xs i s v).mpr h

theorem getE_lt {xs : Array Nat} {i : Nat} {s : String} (h : i < xs.size) :
    getE xs i s = .ok xs[i]! := by
  apply getE_some
  simp [getElem!_def, Array.getElem?_eq_getElem h]

theorem setE_lt {β : Type} {xs : Array β} {i : Nat} {v : β} {s : String} (h : i < xs.size) :
    setE xs i v s = .ok (xs.setIfInBounds i v) := (setE_ok xs i v s _).mpr ⟨h, rfl⟩

theorem addAt_some {xs : Array Nat} {i c v : Nat} {s : String} (h : xs[i]? = some v) :
    addAt xs i c s = .ok (xs.setIfInBounds i (v + c)) := (addAt_ok xs i c s _).mpr ⟨v, h, rfl⟩

theorem addAt_lt {xs : Array Nat} {i c : Nat} {s : String} (h : i < xs.size) :
    ∃ ys, addAt xs i c s = .ok ys ∧ ys.size = xs.size :=
  ⟨_, addAt_some (Array.getElem?_eq_getElem h), by simp⟩

/-- a monadic fold succeeds if every step succeeds on every state satisfying an invariant -/
theorem foldlM_exists {ι σ : Type} (step : σ → ι → MErr σ) (Inv : σ → Prop) :
    ∀ (l : List ι), (∀ k ∈ l, ∀ s, Inv s → ∃ s', step s k = .ok s' ∧ Inv s') →
      ∀ s0, Inv s0 → ∃ s', l.foldlM step s0 = .ok s' ∧ Inv s'
  | [], _, s0, h0 => ⟨s0, rfl, h0⟩
  | k :: rest, h, s0, h0 => by
    obtain ⟨s1, hs1, hi1⟩ := h k (by simp) s0 h0
    obtain ⟨s', hs', hi'⟩ := foldlM_exists step Inv rest (fun k' hk' => h k' (by simp [hk'])) s1 hi1
    refine ⟨s', ?_, hi'⟩
    rw [List.foldlM_cons, hs1]
    exact hs'

theorem mapM_exists {ι β : Type} (f : ι → MErr β) :
    ∀ (l : List ι), (∀ k ∈ l, ∃ y, f k = .ok y) → ∃ ys, l.mapM f = .ok ys
  | [], _ => ⟨[], rfl⟩
  | k :: rest, h => by
    obtain ⟨y, hy⟩ := h k (by simp)
    obtain ⟨ys, hys⟩ := mapM_exists f rest (fun k' hk' => h k' (by simp [hk']))
    refine ⟨y :: ys, ?_⟩
    rw [List.mapM_cons, hy]
    show (rest.mapM f >>= fun bs => pure (y :: bs)) = _
    rw [hys]
    rfl

-- ------------------------------------------------------------------ the fill engine

theorem place_run (st : Csc α × Array Nat) (e : Entry α) (d : Nat) (hreg : e.incCol = e.readCol)
    (hd : st.1.colptr[e.readCol]? = some d) (hr : d < st.1.rowval.size) (hn : d < st.1.nzval.size)
    (hk : ∀ k, e.k = some k → k < st.2.size) : place st e = .ok (placeNext st e d) := by
  unfold place
  cases hek : e.k with
  | none =>
    simp only [hreg, getE_some hd, bind, Except.bind, setE_lt hr, setE_lt hn, addAt_some hd,
      placeNext, hek, pure, Except.pure]
  | some k =>
    have hkk := hk k hek
    simp only [hreg, getE_some hd, bind, Except.bind, setE_lt hr, setE_lt hn, addAt_some hd,
      placeNext, hek, pure, Except.pure, setE_lt hkk]

theorem placeNext_sizes (st : Csc α × Array Nat) (e : Entry α) (d : Nat) :
    (placeNext st e d).1.rowval.size = st.1.rowval.size ∧
    (placeNext st e d).1.nzval.size = st.1.nzval.size ∧
    (placeNext st e d).2.size = st.2.size ∧
    (placeNext st e d).1.colptr = st.1.colptr.setIfInBounds e.readCol (d + 1) := by
  refine ⟨by simp [placeNext], by simp [placeNext], ?_, rfl⟩
  unfold placeNext
  cases e.k <;> simp

/-- a schedule runs without error if all its closed-form destinations exist and are inside
`rowval`/`nzval` and all its map slots are inside the index map -/
theorem placeAll_exists (l : List (Entry α)) : ∀ (st : Csc α × Array Nat), Regular l →
    (∀ i e, l[i]? = some e → ∃ d, destOf st.1.colptr l i = some d ∧
      d < st.1.rowval.size ∧ d < st.1.nzval.size) →
    (∀ e ∈ l, ∀ k, e.k = some k → k < st.2.size) →
    ∃ st', l.foldlM place st = .ok st' := by
  induction l with
  | nil => intro st _ _ _; exact ⟨st, rfl⟩
  | cons e rest ih =>
    intro st hreg hdest hk
    obtain ⟨d, hd, hr, hn⟩ := hdest 0 e (by simp)
    rw [destOf_zero] at hd
    have h1 := place_run st e d (hreg e (by simp)) hd hr hn (hk e (by simp))
    obtain ⟨s1, s2, s3, s4⟩ := placeNext_sizes st e d
    obtain ⟨st', hst'⟩ := ih (placeNext st e d) (fun x hx => hreg x (by simp [hx]))
      (by
        intro i e' he'
        obtain ⟨d', hd', hr', hn'⟩ := hdest (i + 1) e' (by simpa using he')
        rw [destOf_succ _ e rest i d hd] at hd'
        exact ⟨d', by rw [s4]; exact hd', by rw [s1]; exact hr', by rw [s2]; exact hn'⟩)
      (by
        intro e' he' k hk'
        rw [s3]
        exact hk e' (by simp [he']) k hk')
    refine ⟨st', ?_⟩
    rw [List.foldlM_cons, h1]
    exact hst'

/-- existence + specification of one run of the engine -/
theorem placeAll_run (K : Csc α) (map : Array Nat) (l : List (Entry α)) (hreg : Regular l)
    (hdis : RangesDisjoint K.colptr l)
    (hdest : ∀ i e, l[i]? = some e → ∃ d, destOf K.colptr l i = some d ∧
      d < K.rowval.size ∧ d < K.nzval.size)
    (hk : ∀ e ∈ l, ∀ k, e.k = some k → k < map.size) :
    ∃ K' map', placeAll K map l = .ok (K', map') ∧ PlaceSpec (K, map) (K', map') l := by
  obtain ⟨⟨K', map'⟩, h⟩ := placeAll_exists l (K, map) hreg hdest hk
  exact ⟨K', map', h, placeAll_spec l (K, map) (K', map') hreg hdis h⟩

-- ------------------------------------------------------------------ the counting utilities

theorem foldl_addAt_exists {ι : Type} (f g : ι → Nat) (site : String) (l : List ι) (cp0 : Array Nat)
    (h : ∀ k ∈ l, f k < cp0.size) :
    ∃ cp', l.foldlM (fun cp k => addAt cp (f k) (g k) site) cp0 = .ok cp' ∧ cp'.size = cp0.size :=
  foldlM_exists _ (fun cp => cp.size = cp0.size) l
    (by
      intro k hk cp hcp
      obtain ⟨ys, hys, hsz⟩ := addAt_lt (xs := cp) (i := f k) (c := g k) (s := site) (by rw [hcp]; exact h k hk)
      exact ⟨ys, hys, by rw [hsz, hcp]⟩) cp0 rfl

theorem checkRange_ok {xs : Array Nat} {lo len : Nat} {s : String} (h : lo + len ≤ xs.size) :
    checkRange xs lo len s = .ok () := by
  unfold checkRange
  rw [if_pos h]
  rfl

theorem colcountDiag_exists (K : Csc α) (off d : Nat) (h : off + d ≤ K.colptr.size) :
    ∃ K', colcountDiag K off d = .ok K' ∧ K'.colptr.size = K.colptr.size := by
  obtain ⟨cp, hcp, hsz⟩ := foldl_addAt_exists (fun k => off + k) (fun _ => 1) "colptr index"
    (List.range d) K.colptr (by intro k hk; simp at hk; omega)
  refine ⟨{ K with colptr := cp }, ?_, hsz⟩
  unfold colcountDiag
  rw [checkRange_ok h]
  show ((List.range d).foldlM (fun cp k => addAt cp (off + k) 1) K.colptr >>= _) = _
  rw [hcp]
  rfl

theorem colcountDenseTriangle_exists (K : Csc α) (off d : Nat) (shape : MatrixTriangle)
    (h : off + d ≤ K.colptr.size) :
    ∃ K', colcountDenseTriangle K off d shape = .ok K' ∧ K'.colptr.size = K.colptr.size := by
  cases shape with
  | triu =>
    obtain ⟨cp, hcp, hsz⟩ := foldl_addAt_exists (fun k => off + k) (fun k => k + 1) "colptr index"
      (List.range d) K.colptr (by intro k hk; simp at hk; omega)
    refine ⟨{ K with colptr := cp }, ?_, hsz⟩
    unfold colcountDenseTriangle
    simp only [checkRange_ok h, bind, Except.bind, hcp, pure, Except.pure]
  | tril =>
    obtain ⟨cp, hcp, hsz⟩ := foldl_addAt_exists (fun k => off + k) (fun k => d - k) "colptr index"
      (List.range d) K.colptr (by intro k hk; simp at hk; omega)
    refine ⟨{ K with colptr := cp }, ?_, hsz⟩
    unfold colcountDenseTriangle
    simp only [checkRange_ok h, bind, Except.bind, hcp, pure, Except.pure]

theorem colcountRowvec_exists (K : Csc α) (n r c : Nat) (h : c + n ≤ K.colptr.size) :
    ∃ K', colcountRowvec K n r c = .ok K' ∧ K'.colptr.size = K.colptr.size := by
  obtain ⟨cp, hcp, hsz⟩ := foldl_addAt_exists (fun k => c + k) (fun _ => 1) "colptr index"
    (List.range n) K.colptr (by intro k hk; simp at hk; omega)
  refine ⟨{ K with colptr := cp }, ?_, hsz⟩
  unfold colcountRowvec
  rw [checkRange_ok h]
  show ((List.range n).foldlM (fun cp k => addAt cp (c + k) 1) K.colptr >>= _) = _
  rw [hcp]
  rfl

theorem colcountColvec_exists (K : Csc α) (n r c : Nat) (h : c < K.colptr.size) :
    ∃ K', colcountColvec K n r c = .ok K' ∧ K'.colptr.size = K.colptr.size := by
  obtain ⟨cp, hcp, hsz⟩ := addAt_lt (xs := K.colptr) (i := c) (c := n) (s := "colptr index") h
  refine ⟨{ K with colptr := cp }, ?_, hsz⟩
  unfold colcountColvec
  rw [hcp]
  rfl

theorem canon_bang_le {M : Csc α} (hM : Canon M) (i : Nat) (hi : i ≤ M.n) :
    M.colptr[i]! ≤ M.rowval.size := hM.colptr_le_last i hi

theorem colcountBlock_N_exists (K M : Csc α) (c0 : Nat) (hM : Canon M)
    (h : c0 + M.n ≤ K.colptr.size) : ∃ K', colcountBlock K M c0 .N = .ok K' ∧ K'.colptr.size = K.colptr.size := by
  obtain ⟨cp, hcp, hsz⟩ := foldlM_exists
    (fun (cp : Array Nat) i => (do
        let lo ← getE M.colptr i "colcount_block: M.colptr"
        let hi ← getE M.colptr (i + 1) "colcount_block: M.colptr"
        if hi < lo then throw (.panic "colcount_block: subtraction underflows")
        addAt cp (c0 + i) (hi - lo) : MErr (Array Nat)))
    (fun cp => cp.size = K.colptr.size) (List.range M.n)
    (by
      intro i hi cp hcp
      simp only [List.mem_range] at hi
      have h1 : i < M.colptr.size := by rw [hM.colptr_size]; omega
      have h2 : i + 1 < M.colptr.size := by rw [hM.colptr_size]; omega
      have hmono := hM.colptr_mono i hi
      obtain ⟨ys, hys, hsz⟩ := addAt_lt (xs := cp) (i := c0 + i)
        (c := M.colptr[i + 1]! - M.colptr[i]!) (s := "colptr index") (by rw [hcp]; omega)
      refine ⟨ys, ?_, by rw [hsz, hcp]⟩
      show (getE M.colptr i "colcount_block: M.colptr" >>= _) = _
      rw [getE_lt h1]
      show (getE M.colptr (i + 1) "colcount_block: M.colptr" >>= _) = _
      rw [getE_lt h2]
      show (if M.colptr[i + 1]! < M.colptr[i]! then _ else _) = _
      rw [if_neg (by omega)]
      exact hys) K.colptr rfl
  refine ⟨{ K with colptr := cp }, ?_, hsz⟩
  unfold colcountBlock
  show ((List.range M.n).foldlM _ K.colptr >>= _) = _
  rw [hcp]
  rfl

theorem canon_rows_mem {M : Csc α} (hM : Canon M) : ∀ r ∈ M.rowval.toList, r < M.m := by
  intro r hr
  obtain ⟨j, hj, rfl⟩ := List.mem_iff_getElem.mp hr
  have hj' : j < M.rowval.size := by simpa using hj
  have := hM.rows_lt j hj'
  simpa [getElem!_def, Array.getElem?_eq_getElem hj'] using this

theorem colcountBlock_T_exists (K M : Csc α) (c0 : Nat) (hM : Canon M)
    (h : c0 + M.m ≤ K.colptr.size) : ∃ K', colcountBlock K M c0 .T = .ok K' ∧ K'.colptr.size = K.colptr.size := by
  obtain ⟨cp, hcp, hsz⟩ := foldl_addAt_exists (fun r => c0 + r) (fun _ => 1) "colptr index"
    M.rowval.toList K.colptr (by intro r hr; have := canon_rows_mem hM r hr; omega)
  refine ⟨{ K with colptr := cp }, ?_, hsz⟩
  unfold colcountBlock
  show (M.rowval.toList.foldlM (fun cp row => addAt cp (c0 + row) 1) K.colptr >>= _) = _
  rw [hcp]
  rfl

/-- `missing_diag` test on a canonical matrix never panics -/
theorem missingDiagAt_exists {M : Csc α} (hM : Canon M) (i : Nat) (hi : i < M.n) :
    ∃ b, missingDiagAt M i = .ok b := by
  have h1 : i < M.colptr.size := by rw [hM.colptr_size]; omega
  have h2 : i + 1 < M.colptr.size := by rw [hM.colptr_size]; omega
  have hmono := hM.colptr_mono i hi
  have hle := hM.colptr_le_last (i + 1) (by omega)
  unfold missingDiagAt
  rw [getE_lt h1]
  show ∃ b, (getE M.colptr (i + 1) "missing_diag: colptr" >>= _) = _
  rw [getE_lt h2]
  show ∃ b, (if (M.colptr[i]! == M.colptr[i + 1]!) = true then _ else _) = _
  by_cases e : M.colptr[i]! = M.colptr[i + 1]!
  · rw [if_pos (by simp [e])]
    exact ⟨true, rfl⟩
  · rw [if_neg (by simp [e])]
    have hne : ¬ ((M.colptr[i + 1]! == 0) = true) := by simp; omega
    rw [if_neg hne]
    have hlt : M.colptr[i + 1]! - 1 < M.rowval.size := by omega
    show ∃ b, (getE M.rowval (M.colptr[i + 1]! - 1) "missing_diag: rowval" >>= _) = _
    rw [getE_lt hlt]
    exact ⟨_, rfl⟩

theorem colcountMissingDiag_exists (K M : Csc α) (c0 : Nat) (hM : Canon M)
    (h : M.n + c0 ≤ K.colptr.size) : ∃ K', colcountMissingDiag K M c0 = .ok K' ∧ K'.colptr.size = K.colptr.size := by
  obtain ⟨cp, hcp, hsz⟩ := foldlM_exists
    (fun (cp : Array Nat) i => (do
        if (← missingDiagAt M i) then addAt cp (i + c0) 1 else pure cp : MErr (Array Nat)))
    (fun cp => cp.size = K.colptr.size) (List.range M.n)
    (by
      intro i hi cp hcp
      simp only [List.mem_range] at hi
      obtain ⟨b, hb⟩ := missingDiagAt_exists hM i hi
      show ∃ s', (missingDiagAt M i >>= _) = _ ∧ _
      rw [hb]
      cases b with
      | false => exact ⟨cp, rfl, hcp⟩
      | true =>
        obtain ⟨ys, hys, hsz⟩ := addAt_lt (xs := cp) (i := i + c0) (c := 1) (s := "colptr index")
          (by rw [hcp]; omega)
        exact ⟨ys, hys, by rw [hsz, hcp]⟩) K.colptr rfl
  refine ⟨{ K with colptr := cp }, ?_, hsz⟩
  unfold colcountMissingDiag
  rw [if_neg (by simp [hM.colptr_size]), if_neg (by simp; omega)]
  show ((List.range M.n).foldlM _ K.colptr >>= _) = _
  rw [hcp]
  rfl


-- ------------------------------------------------------------------ sparse cones, the cone loop

variable [OfNat α 0]

theorem colcountSparsecone_exists (c : ConeSpec) (K : Csc α) (row col : Nat) (shape : MatrixTriangle)
    (hsp : c.isSparseExpandable = true) (hrow : row + c.numel ≤ K.colptr.size)
    (hcol : col + conePdim c ≤ K.colptr.size) :
    ∃ K', colcountSparsecone c K row col shape = .ok K' ∧ K'.colptr.size = K.colptr.size := by
  cases c with
  | soc nvars =>
    have hp : conePdim (.soc nvars) = 2 := by simp [conePdim, hsp]
    rw [hp] at hcol
    simp only [ConeSpec.numel] at hrow
    cases shape with
    | triu =>
      obtain ⟨K1, h1, s1⟩ := colcountColvec_exists K nvars row col (by omega)
      obtain ⟨K2, h2, s2⟩ := colcountColvec_exists K1 nvars row (col + 1) (by omega)
      obtain ⟨K3, h3, s3⟩ := colcountDiag_exists K2 col 2 (by omega)
      refine ⟨K3, ?_, by omega⟩
      unfold colcountSparsecone
      simp only [bind, Except.bind, h1, h2, h3]
    | tril =>
      obtain ⟨K1, h1, s1⟩ := colcountRowvec_exists K nvars col row (by omega)
      obtain ⟨K2, h2, s2⟩ := colcountRowvec_exists K1 nvars (col + 1) row (by omega)
      obtain ⟨K3, h3, s3⟩ := colcountDiag_exists K2 col 2 (by omega)
      refine ⟨K3, ?_, by omega⟩
      unfold colcountSparsecone
      simp only [bind, Except.bind, h1, h2, h3]
  | genpow a b =>
    have hp : conePdim (.genpow a b) = 3 := by simp [conePdim, ConeSpec.isSparseExpandable]
    rw [hp] at hcol
    simp only [ConeSpec.numel] at hrow
    cases shape with
    | triu =>
      obtain ⟨K1, h1, s1⟩ := colcountColvec_exists K a row col (by omega)
      obtain ⟨K2, h2, s2⟩ := colcountColvec_exists K1 b (row + a) (col + 1) (by omega)
      obtain ⟨K3, h3, s3⟩ := colcountColvec_exists K2 (a + b) row (col + 2) (by omega)
      obtain ⟨K4, h4, s4⟩ := colcountDiag_exists K3 col 3 (by omega)
      refine ⟨K4, ?_, by omega⟩
      unfold colcountSparsecone
      simp only [bind, Except.bind, h1, h2, h3, h4]
    | tril =>
      obtain ⟨K1, h1, s1⟩ := colcountRowvec_exists K a col row (by omega)
      obtain ⟨K2, h2, s2⟩ := colcountRowvec_exists K1 b (col + 1) (row + a) (by omega)
      obtain ⟨K3, h3, s3⟩ := colcountRowvec_exists K2 (a + b) (col + 2) row (by omega)
      obtain ⟨K4, h4, s4⟩ := colcountDiag_exists K3 col 3 (by omega)
      refine ⟨K4, ?_, by omega⟩
      unfold colcountSparsecone
      simp only [bind, Except.bind, h1, h2, h3, h4]
  | zero d => simp [ConeSpec.isSparseExpandable] at hsp
  | nonneg d => simp [ConeSpec.isSparseExpandable] at hsp
  | exp => simp [ConeSpec.isSparseExpandable] at hsp
  | pow => simp [ConeSpec.isSparseExpandable] at hsp
  | psd n => simp [ConeSpec.isSparseExpandable] at hsp

theorem coneTail_exists (shape : MatrixTriangle) (c : ConeSpec) (row pcol : Nat) (K : Csc α)
    (hrow : row + c.numel ≤ K.colptr.size) (hcol : pcol + conePdim c ≤ K.colptr.size) :
    ∃ K' pcol', coneTail shape c row pcol K = .ok (K', pcol') := by
  unfold coneTail
  by_cases hsp : c.isSparseExpandable = true
  · obtain ⟨K1, h1, _⟩ := colcountSparsecone_exists c K row pcol shape hsp hrow hcol
    rw [if_pos hsp, h1]
    exact ⟨_, _, rfl⟩
  · rw [if_neg hsp]
    exact ⟨_, _, rfl⟩

theorem coneStep_exists {n : Nat} {shape : MatrixTriangle} (K : Csc α) (pcol : Nat) (c : ConeSpec)
    (start : Nat) (hrow : start + n + c.numel ≤ K.colptr.size)
    (hcol : pcol + conePdim c ≤ K.colptr.size) :
    ∃ K' pcol', coneStep n shape (K, pcol) (c, start) = .ok (K', pcol') := by
  unfold coneStep
  simp only []
  by_cases hd : c.hsIsDiagonal = true
  · obtain ⟨K1, h1, s1⟩ := colcountDiag_exists K (start + n) c.numel hrow
    obtain ⟨K2, p2, h2⟩ := coneTail_exists shape c (start + n) pcol K1 (by omega) (by omega)
    rw [if_pos hd, h1]
    exact ⟨K2, p2, h2⟩
  · obtain ⟨K1, h1, s1⟩ := colcountDenseTriangle_exists K (start + n) c.numel shape hrow
    obtain ⟨K2, p2, h2⟩ := coneTail_exists shape c (start + n) pcol K1 (by omega) (by omega)
    rw [if_neg hd, h1]
    exact ⟨K2, p2, h2⟩

theorem conesFold_exists {n : Nat} {shape : MatrixTriangle} :
    ∀ (cones : List ConeSpec) (starts : List Nat) (r : Nat), Starts r cones starts →
    ∀ (K : Csc α) (pcol : Nat),
      r + n + (cones.map ConeSpec.numel).sum ≤ K.colptr.size →
      pcol + (cones.map conePdim).sum ≤ K.colptr.size →
      ∃ K' pcol', (cones.zip starts).foldlM (coneStep n shape) (K, pcol) = .ok (K', pcol')
  | [], starts, r, _, K, pcol, _, _ => ⟨K, pcol, by simp [pure, Except.pure]⟩
  | c :: rest, starts, r, hst, K, pcol, hrow, hcol => by
    obtain ⟨s', rfl, hst'⟩ := hst
    simp only [List.map_cons, List.sum_cons] at hrow hcol
    obtain ⟨K1, p1, h1⟩ := coneStep_exists (n := n) (shape := shape) K pcol c r (by omega) (by omega)
    obtain ⟨hc, hp1⟩ := coneStep_spec h1
    have hsz := hc.colptr_size
    obtain ⟨K2, p2, h2⟩ := conesFold_exists (n := n) (shape := shape) rest s' (r + c.numel) hst' K1 p1
      (by rw [hsz]; omega) (by rw [hsz, hp1]; omega)
    refine ⟨K2, p2, ?_⟩
    rw [List.zip_cons_cons, List.foldlM_cons, h1]
    exact h2

/-- **the counting pass never panics** on a counter array with one slot per KKT column (+1) -/
theorem kktAssembleColcounts_exists (K P A : Csc α) (cones : List ConeSpec) (shape : MatrixTriangle)
    (hP : Canon P) (hPsq : P.m = P.n) (hA : Canon A) (hn : P.n = A.n)
    (hm : (cones.map ConeSpec.numel).sum = A.m)
    (hsz : K.colptr.size = A.n + A.m + (cones.map conePdim).sum + 1) :
    ∃ K', kktAssembleColcounts K P A cones shape = .ok K' := by
  rw [kktAssembleColcounts_eq]
  have hsz0 : ({ K with colptr := Array.replicate K.colptr.size 0 } : Csc α).colptr.size
      = A.n + A.m + (cones.map conePdim).sum + 1 := by simp [hsz]
  generalize ({ K with colptr := Array.replicate K.colptr.size 0 } : Csc α) = K0 at hsz0
  have loop : ∀ K1 : Csc α, K1.colptr.size = K0.colptr.size →
      ∃ K', ((cones.zip (rngConesStart cones)).foldlM (coneStep A.n shape) (K1, A.m + A.n)
        >>= fun r => (pure r.1 : MErr (Csc α))) = .ok K' := by
    intro K1 h1
    obtain ⟨K2, p2, h2⟩ := conesFold_exists (n := A.n) (shape := shape) cones _ 0
      (starts_rngConesStart cones) K1 (A.m + A.n) (by omega) (by omega)
    rw [h2]
    exact ⟨K2, rfl⟩
  cases shape with
  | triu =>
    obtain ⟨Ka, ha, sa⟩ := colcountBlock_N_exists K0 P 0 hP (by omega)
    obtain ⟨Kb, hb, sb⟩ := colcountMissingDiag_exists Ka P 0 hP (by omega)
    obtain ⟨Kc, hc, sc⟩ := colcountBlock_T_exists Kb A A.n hA (by omega)
    obtain ⟨K', h'⟩ := loop Kc (by omega)
    refine ⟨K', ?_⟩
    simp only [bind, Except.bind, ha, hb, hc]
    exact h'
  | tril =>
    obtain ⟨Ka, ha, sa⟩ := colcountMissingDiag_exists K0 P 0 hP (by omega)
    obtain ⟨Kb, hb, sb⟩ := colcountBlock_T_exists Ka P 0 hP (by omega)
    obtain ⟨Kc, hc, sc⟩ := colcountBlock_N_exists Kb A 0 hA (by omega)
    obtain ⟨K', h'⟩ := loop Kc (by omega)
    refine ⟨K', ?_⟩
    simp only [bind, Except.bind, ha, hb, hc]
    exact h'

end Clarabel.Lemmas.KktRun
