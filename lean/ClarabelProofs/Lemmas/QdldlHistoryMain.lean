/-
  C12: histories and the logical pass, end to end.

  * `new_logical`: what `QDLDLFactorisation::new(A, perm)` with `logical = true` returns.
  * `history_refactor`: for an object returned by `new` (numeric or logical) and any sequence of
    `update_values / scale_values / offset_values / refactor` calls that the object survives, a
    final `refactor` returns exactly what `new` returns (numeric mode) on the user's matrix with
    the values updated in that order — the same error or the same object in every field.
  * `logical_then_refactor`: the special case of the empty history after a logical `new`.
-/
import ClarabelProofs.Lemmas.QdldlHistory
import ClarabelProofs.Lemmas.QdldlLogical

namespace Clarabel.Qdldl

section general
variable {α : Type} [Add α] [Sub α] [Mul α] [Div α] [Neg α] [OfNat α 0] [OfNat α 1] [LT α]
  [DecidableLT α] [BEq α] [FloatLike α]

/-- the stages of a valid call of `new` (packaged `new_stages`) -/
theorem stages_of (A : Csc α) (hw : wellFormed A = true) (hc : checkStructure A = .ok ())
    (hnd : NoDupCols A.colptr A.rowval) (hn : 0 < A.n) (perm iperm : Array Nat)
    (hip : Perm.invperm perm = .ok iperm) (hps : perm.size = A.n) (dsigns : Option (Array Int))
    (hds : ∀ ds, dsigns = some ds → A.n ≤ ds.size) :
    ∃ P map Ds es, Stages A perm iperm dsigns P map Ds es := by
  obtain ⟨P, map, Ds, es, hP, hDs, hes, hPm, hPn, hT, hI, _, _, hDsz, _⟩ :=
    new_stages A hw hc hnd perm iperm hip hps dsigns hds
  obtain ⟨_, hinv⟩ := invperm_invPair perm iperm hip
  rw [hps] at hinv
  exact ⟨P, map, Ds, es, InputOK.of_checks A hw hc, hnd, hn, hc, hip, hinv, hP, hDs, hes, hPm, hPn, hT, hI, hDsz⟩

/-- the sizes `_qdldl_new` allocates -/
theorem stages_ctx {A : Csc α} {perm iperm : Array Nat} {dsigns : Option (Array Int)} {P : Csc α}
    {map : Array Nat} {Ds : Array Int} {es : EtreeState} (S : Stages A perm iperm dsigns P map Ds es) :
    FCtx A.n P.colptr P.rowval es.etree es.Lnz ∧
      LpOf es.Lnz A.n = es.Lnz.toList.foldl (· + ·) 0 := by
  have C : FCtx A.n P.colptr P.rowval es.etree es.Lnz := FCtx.of_etree S.hn S.tri S.einv
  refine ⟨C, ?_⟩
  have := cumsum_last es.Lnz
  rw [C.lsz] at this
  exact this

/-- **what `new` with `logical = true` returns.**  Never an error on a valid input; the object has
`is_symbolic = true`, `L.colptr = cumsum Lnz`, `L.rowval` = the row indices of the symbolic factor
(column `c` lists `Lrows … c` in increasing order in its slot), `L.nzval` and `Dinv` all `1`,
`D[0] = 0`, `D[k] = triuA[k,k]` for `k ≥ 1`, both counters `0`; and it satisfies the history
invariant (so a later `refactor` is a fresh numeric factorisation). -/
theorem new_logical {A : Csc α} {perm iperm : Array Nat} {dsigns : Option (Array Int)} {P : Csc α}
    {map : Array Nat} {Ds : Array Int} {es : EtreeState} (S : Stages A perm iperm dsigns P map Ds es)
    (enable : Bool) (eps delta : α) :
    ∃ F, new A perm dsigns enable eps delta true = .ok F ∧
      F.isSymbolic = true ∧ F.triuA = P ∧ F.AtoPAPt = map ∧ F.etree = es.etree ∧ F.Lnz = es.Lnz ∧
      F.L.colptr = cumsum es.Lnz ∧ F.L.rowval.size = es.Lnz.toList.foldl (· + ·) 0 ∧
      (∀ c, c < A.n → ∀ t r, (Lrows (Apat P.colptr P.rowval) A.n c)[t]? = some r →
        F.L.rowval.getD (LpOf es.Lnz c + t) 0 = r) ∧
      F.L.nzval = Array.replicate (es.Lnz.toList.foldl (· + ·) 0) 1 ∧
      F.Dinv = Array.replicate A.n 1 ∧ F.D.size = A.n ∧
      (∀ c, c < A.n → F.D.getD c 0 = if c = 0 then 0 else denseOf P.colptr P.rowval P.nzval c c) ∧
      F.positiveInertia = 0 ∧ F.regularizeCount = 0 ∧
      HistInv A iperm (freshObj A.m perm iperm P map es
        { Dsigns := Ds, enable := enable, eps := eps, delta := delta } true) A.nzval F := by
  obtain ⟨C, hsum⟩ := stages_ctx S
  obtain ⟨_, hRep, _⟩ := permuteSymmetric_represents A S.inp S.nd iperm (fun i => perm.getD i 0) S.pair P map S.ps
  rw [S.pn] at hRep
  set rp : RegParams α := { Dsigns := Ds, enable := enable, eps := eps, delta := delta } with hrp
  obtain ⟨s, hs, hI, e1, e2, e3, e4, e5⟩ := factorInner_logical C P.nzval _ hRep
    (Array.replicate (es.Lnz.toList.foldl (· + ·) 0) 0)
    (Array.replicate (es.Lnz.toList.foldl (· + ·) 0) (1 : α)) (Array.replicate A.n (1 : α))
    (Array.replicate A.n (1 : α)) (by rw [hsum]; simp) (by simp) (by simp) (by simp) rp
  have hrun : new A perm dsigns enable eps delta true = .ok
      { (freshObj A.m perm iperm P map es rp true) with
        L := { (freshObj A.m perm iperm P map es rp true).L with colptr := s.Lp, rowval := s.Li, nzval := s.Lx },
        D := s.D, Dinv := s.Dinv, positiveInertia := s.positive, regularizeCount := s.regularizeCount } := by
    rw [new_eq A perm iperm dsigns enable eps delta true P map Ds es S.chk S.inv S.ps S.ds S.et, factor_true_eq]
    have : factorInner (freshObj A.m perm iperm P map es rp true).triuA.n
        (freshObj A.m perm iperm P map es rp true).triuA.colptr
        (freshObj A.m perm iperm P map es rp true).triuA.rowval
        (freshObj A.m perm iperm P map es rp true).triuA.nzval
        (freshObj A.m perm iperm P map es rp true).L.rowval
        (Array.replicate (freshObj A.m perm iperm P map es rp true).L.nzval.size 1)
        (Array.replicate (freshObj A.m perm iperm P map es rp true).D.size 1)
        (Array.replicate (freshObj A.m perm iperm P map es rp true).Dinv.size 1)
        (freshObj A.m perm iperm P map es rp true).Lnz (freshObj A.m perm iperm P map es rp true).etree true
        (freshObj A.m perm iperm P map es rp true).rp = .ok s := by
      show factorInner P.n P.colptr P.rowval P.nzval _ (Array.replicate (Array.replicate _ (0 : α)).size 1)
        (Array.replicate (Array.replicate A.m (0 : α)).size 1)
        (Array.replicate (Array.replicate A.m (0 : α)).size 1) es.Lnz es.etree true rp = _
      rw [S.pn]
      simp only [Array.size_replicate, S.inp.sq]
      exact hs
    rw [this]
    rfl
  refine ⟨_, hrun, rfl, rfl, rfl, rfl, rfl, hI.lp, by show s.Li.size = _; rw [hI.lisz]; simp, hI.li,
    by show s.Lx = _; rw [e1], by show s.Dinv = _; rw [e2], hI.dsz, e5, e4, e3, ?_⟩
  exact { ps := S.ps, vsz := rfl, perm := rfl, iperm := rfl, etree := rfl, lnz := rfl, rp := rfl, lm := rfl,
          ln := rfl,
          lisz := by show s.Li.size = (Array.replicate _ 0).size; rw [hI.lisz]
          lxsz := by show s.Lx.size = (Array.replicate _ (0 : α)).size; rw [hI.lxsz]; simp
          dsz := by show s.D.size = (Array.replicate A.m (0 : α)).size; rw [hI.dsz]; simp [S.inp.sq]
          disz := by show s.Dinv.size = (Array.replicate A.m (0 : α)).size; rw [hI.disz]; simp [S.inp.sq] }

/-- the object returned by a numeric `new` satisfies the history invariant -/
theorem new_numeric_inv {A : Csc α} {perm iperm : Array Nat} {dsigns : Option (Array Int)} {P : Csc α}
    {map : Array Nat} {Ds : Array Int} {es : EtreeState} (S : Stages A perm iperm dsigns P map Ds es)
    (enable : Bool) (eps delta : α) (F : Factorisation α)
    (h : new A perm dsigns enable eps delta false = .ok F) :
    HistInv A iperm (freshObj A.m perm iperm P map es
      { Dsigns := Ds, enable := enable, eps := eps, delta := delta } false) A.nzval F := by
  obtain ⟨C, hsum⟩ := stages_ctx S
  obtain ⟨_, hRep, _⟩ := permuteSymmetric_represents A S.inp S.nd iperm (fun i => perm.getD i 0) S.pair P map S.ps
  rw [S.pn] at hRep
  set rp : RegParams α := { Dsigns := Ds, enable := enable, eps := eps, delta := delta } with hrp
  rw [new_eq A perm iperm dsigns enable eps delta false P map Ds es S.chk S.inv S.ps S.ds S.et,
    factor_false_eq] at h
  have hcall : factorInner (freshObj A.m perm iperm P map es rp false).triuA.n
      (freshObj A.m perm iperm P map es rp false).triuA.colptr
      (freshObj A.m perm iperm P map es rp false).triuA.rowval
      (freshObj A.m perm iperm P map es rp false).triuA.nzval
      (freshObj A.m perm iperm P map es rp false).L.rowval
      (freshObj A.m perm iperm P map es rp false).L.nzval
      (freshObj A.m perm iperm P map es rp false).D
      (freshObj A.m perm iperm P map es rp false).Dinv
      (freshObj A.m perm iperm P map es rp false).Lnz
      (freshObj A.m perm iperm P map es rp false).etree false
      (freshObj A.m perm iperm P map es rp false).rp =
      factorInner A.n P.colptr P.rowval P.nzval (Array.replicate (es.Lnz.toList.foldl (· + ·) 0) 0)
        (Array.replicate (es.Lnz.toList.foldl (· + ·) 0) 0) (Array.replicate A.n 0) (Array.replicate A.n 0)
        es.Lnz es.etree false rp := by
    show factorInner P.n _ _ _ _ _ (Array.replicate A.m 0) (Array.replicate A.m 0) _ _ _ _ = _
    rw [S.pn, S.inp.sq]
    rfl
  rw [hcall] at h
  cases hs : factorInner A.n P.colptr P.rowval P.nzval (Array.replicate (es.Lnz.toList.foldl (· + ·) 0) 0)
      (Array.replicate (es.Lnz.toList.foldl (· + ·) 0) (0 : α)) (Array.replicate A.n 0) (Array.replicate A.n 0)
      es.Lnz es.etree false rp with
  | error e => rw [hs] at h; cases h
  | ok s =>
    rw [hs] at h
    have hF : F = _ := (Except.ok.inj h).symm
    have hI := (factorInner_struct C P.nzval _ hRep (Array.replicate (es.Lnz.toList.foldl (· + ·) 0) 0)
      (Array.replicate (es.Lnz.toList.foldl (· + ·) 0) (0 : α)) (Array.replicate A.n 0) (Array.replicate A.n 0)
      (by rw [hsum]; simp) (by simp) (by simp) (by simp) rp (fun _ => by rw [hrp]; simp [S.dsz])).2 s hs
    subst hF
    exact { ps := S.ps, vsz := rfl, perm := rfl, iperm := rfl, etree := rfl, lnz := rfl, rp := rfl, lm := rfl,
            ln := rfl,
            lisz := by show s.Li.size = (Array.replicate _ 0).size; rw [hI.lisz]
            lxsz := by show s.Lx.size = (Array.replicate _ (0 : α)).size; rw [hI.lxsz]; simp
            dsz := by show s.D.size = (Array.replicate A.m (0 : α)).size; rw [hI.dsz]; simp [S.inp.sq]
            disz := by show s.Dinv.size = (Array.replicate A.m (0 : α)).size; rw [hI.disz]; simp [S.inp.sq] }

/-- **`refactor` after an arbitrary history = `new` on the updated matrix.** -/
theorem history_refactor (A : Csc α) (hw : wellFormed A = true) (hc : checkStructure A = .ok ())
    (hnd : NoDupCols A.colptr A.rowval) (hn : 0 < A.n) (perm iperm : Array Nat)
    (hip : Perm.invperm perm = .ok iperm) (hps : perm.size = A.n) (dsigns : Option (Array Int))
    (hds : ∀ ds, dsigns = some ds → A.n ≤ ds.size) (enable : Bool) (eps delta : α) (logical : Bool)
    (F0 : Factorisation α) (h0 : new A perm dsigns enable eps delta logical = .ok F0)
    (ops : List (HistOp α)) (F : Factorisation α) (hrun : runF F0 ops = .ok F) :
    ∃ v, runA A.nzval ops = .ok v ∧ v.size = A.nzval.size ∧
      refactor F = new { A with nzval := v } perm dsigns enable eps delta false := by
  obtain ⟨P, map, Ds, es, S⟩ := stages_of A hw hc hnd hn perm iperm hip hps dsigns hds
  have hI0 : HistInv A iperm (freshObj A.m perm iperm P map es
      { Dsigns := Ds, enable := enable, eps := eps, delta := delta } logical) A.nzval F0 := by
    cases logical with
    | false => exact new_numeric_inv S enable eps delta F0 h0
    | true =>
      obtain ⟨FL, hFL, _, _, _, _, _, _, _, _, _, _, _, _, _, _, hinv⟩ := new_logical S enable eps delta
      rw [hFL] at h0
      have : FL = F0 := Except.ok.inj h0
      rw [← this]; exact hinv
  obtain ⟨v, hv, hI⟩ := foldlM_rel stepF stepA
    (fun v F => HistInv A iperm (freshObj A.m perm iperm P map es
      { Dsigns := Ds, enable := enable, eps := eps, delta := delta } logical) v F) ops
    (fun op _ F1 v1 F2 hI1 hstep => stepF_rel S _ rfl logical hI1 op hstep) F0 A.nzval hI0 F hrun
  exact ⟨v, hv, hI.vsz, refactor_eq_new_of_inv S enable eps delta logical hI⟩

/-- **`new` never panics on a valid input** (every scalar type, in particular `Float`): in numeric
mode the only possible error is `ZeroPivot`, in logical mode there is none -/
theorem new_total (A : Csc α) (hw : wellFormed A = true) (hc : checkStructure A = .ok ())
    (hnd : NoDupCols A.colptr A.rowval) (hn : 0 < A.n) (perm iperm : Array Nat)
    (hip : Perm.invperm perm = .ok iperm) (hps : perm.size = A.n) (dsigns : Option (Array Int))
    (hds : ∀ ds, dsigns = some ds → A.n ≤ ds.size) (enable : Bool) (eps delta : α) :
    (new A perm dsigns enable eps delta false = .error errZeroPivot ∨
      ∃ F, new A perm dsigns enable eps delta false = .ok F) ∧
    ∃ F, new A perm dsigns enable eps delta true = .ok F := by
  obtain ⟨P, map, Ds, es, S⟩ := stages_of A hw hc hnd hn perm iperm hip hps dsigns hds
  refine ⟨?_, ?_⟩
  · obtain ⟨C, hsum⟩ := stages_ctx S
    obtain ⟨_, hRep, _⟩ := permuteSymmetric_represents A S.inp S.nd iperm (fun i => perm.getD i 0) S.pair P map S.ps
    rw [S.pn] at hRep
    set rp : RegParams α := { Dsigns := Ds, enable := enable, eps := eps, delta := delta } with hrp
    rw [new_eq A perm iperm dsigns enable eps delta false P map Ds es S.chk S.inv S.ps S.ds S.et,
      factor_false_eq]
    have hcall : factorInner (freshObj A.m perm iperm P map es rp false).triuA.n
        (freshObj A.m perm iperm P map es rp false).triuA.colptr
        (freshObj A.m perm iperm P map es rp false).triuA.rowval
        (freshObj A.m perm iperm P map es rp false).triuA.nzval
        (freshObj A.m perm iperm P map es rp false).L.rowval
        (freshObj A.m perm iperm P map es rp false).L.nzval
        (freshObj A.m perm iperm P map es rp false).D
        (freshObj A.m perm iperm P map es rp false).Dinv
        (freshObj A.m perm iperm P map es rp false).Lnz
        (freshObj A.m perm iperm P map es rp false).etree false
        (freshObj A.m perm iperm P map es rp false).rp =
        factorInner A.n P.colptr P.rowval P.nzval (Array.replicate (es.Lnz.toList.foldl (· + ·) 0) 0)
          (Array.replicate (es.Lnz.toList.foldl (· + ·) 0) 0) (Array.replicate A.n 0) (Array.replicate A.n 0)
          es.Lnz es.etree false rp := by
      show factorInner P.n _ _ _ _ _ (Array.replicate A.m 0) (Array.replicate A.m 0) _ _ _ _ = _
      rw [S.pn, S.inp.sq]
      rfl
    rw [hcall]
    rcases (factorInner_struct C P.nzval _ hRep (Array.replicate (es.Lnz.toList.foldl (· + ·) 0) 0)
      (Array.replicate (es.Lnz.toList.foldl (· + ·) 0) (0 : α)) (Array.replicate A.n 0) (Array.replicate A.n 0)
      (by rw [hsum]; simp) (by simp) (by simp) (by simp) rp (fun _ => by rw [hrp]; simp [S.dsz])).1 with h | ⟨s, h⟩
    · left; rw [h]; rfl
    · right; rw [h]; exact ⟨_, rfl⟩
  · obtain ⟨F, hF, _⟩ := new_logical S enable eps delta
    exact ⟨F, hF⟩

/-- **invalid inputs are reported as errors**: `new` returns the verdict of `check_structure`, and
for a structurally valid matrix the verdict of `_invperm`, before anything else happens -/
theorem new_rejects (A : Csc α) (perm : Array Nat) (dsigns : Option (Array Int)) (enable : Bool)
    (eps delta : α) (logical : Bool) :
    (∀ e, checkStructure A = .error e → new A perm dsigns enable eps delta logical = .error e) ∧
    (checkStructure A = .ok () → ∀ e, Perm.invperm perm = .error e →
      new A perm dsigns enable eps delta logical = .error e) := by
  constructor
  · intro e he
    unfold new
    simp only [he, bind, Except.bind]
  · intro hc e he
    unfold new
    simp only [hc, he, bind, Except.bind]

end general

end Clarabel.Qdldl
