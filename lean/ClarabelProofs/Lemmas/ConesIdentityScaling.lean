/-
  `set_identity_scaling` (C13): the scaling state it leaves behind depends only on the shape of
  the cone, never on what the cone held before — for the nonnegative, second-order and PSD cone
  models.  Structural ([S]): valid for every scalar type, `Float` included.
-/
import ClarabelModel.Cones.Nonneg
import ClarabelModel.Cones.Soc
import ClarabelModel.Cones.PsdTriangle

namespace Clarabel

section
variable {α : Type} [Add α] [Mul α] [Sub α] [Div α] [Neg α] [OfNat α 0] [OfNat α 1] [LT α]
  [DecidableLT α] [FloatLike α]

theorem map_const_eq {β : Type} (a b : Array β) (c : α) (h : a.size = b.size) :
    a.map (fun _ => c) = b.map (fun _ => c) := by
  apply Array.ext
  · simp [h]
  · intro i h1 h2; simp

/-- [S] NN -/
theorem _root_.Clarabel.Nonneg.setIdentityScaling_state (K1 K2 : Clarabel.Nonneg.Cone α) (h : K1.w.size = K2.w.size) :
    (Clarabel.Nonneg.setIdentityScaling K1).w = (Clarabel.Nonneg.setIdentityScaling K2).w :=
  map_const_eq K1.w K2.w 1 h

/-- the part of the SOC state that the scaling operators and the KKT block read -/
def Soc.scalingPart (K : Soc.Cone α) : Array α × α × Option (Array α × Array α × α) :=
  (K.w, K.eta, K.sparse.map (fun sp => (sp.u, sp.v, sp.d)))

/-- two cones of the same shape -/
def Soc.SameShape (K1 K2 : Soc.Cone α) : Prop :=
  K1.w.size = K2.w.size ∧
  match K1.sparse, K2.sparse with
  | none, none => True
  | some a, some b => a.u.size = b.u.size ∧ a.v.size = b.v.size
  | _, _ => False

theorem Soc.setIdentityScaling_state (K1 K2 : Soc.Cone α) (h : Soc.SameShape K1 K2) :
    (Soc.setIdentityScaling K1).map Soc.scalingPart = (Soc.setIdentityScaling K2).map Soc.scalingPart := by
  obtain ⟨hw, hsp⟩ := h
  have e1 := map_const_eq K1.w K2.w (0 : α) hw
  unfold Soc.setIdentityScaling
  rw [e1]
  cases h1 : K1.sparse <;> cases h2 : K2.sparse <;> simp only [h1, h2] at hsp
  · cases hs : setE (K2.w.map (fun _ => (0 : α))) 0 1 "w[0]" <;>
      simp [hs, bind, Except.bind, pure, Except.pure, Except.map, Soc.scalingPart]
  · rename_i a b
    simp only []
    rw [map_const_eq a.u b.u (0 : α) hsp.1, map_const_eq a.v b.v (0 : α) hsp.2]
    cases hs : setE (K2.w.map (fun _ => (0 : α))) 0 1 "w[0]" <;>
      cases hu : setE (b.u.map (fun _ => (0 : α))) 0 (sqrt (1 / (1 + 1))) "u[0]" <;>
      simp [hs, hu, bind, Except.bind, pure, Except.pure, Except.map, Soc.scalingPart]

theorem PsdTri.setIdentityScaling_state (K1 K2 : PsdTri.Cone α) (h : K1.n = K2.n) :
    (PsdTri.setIdentityScaling K1).R = (PsdTri.setIdentityScaling K2).R ∧
    (PsdTri.setIdentityScaling K1).Rinv = (PsdTri.setIdentityScaling K2).Rinv ∧
    (PsdTri.setIdentityScaling K1).Hs = (PsdTri.setIdentityScaling K2).Hs := by
  simp [PsdTri.setIdentityScaling, h]
end

end Clarabel
