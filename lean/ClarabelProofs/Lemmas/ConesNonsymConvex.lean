/-
  C15: the open exponential cone and its dual are convex, hence a back-tracking step that
  was accepted at `α` is also safe at every shorter step `t ∈ [0, α]` from an interior point
  (what the composite cone needs: it may shorten an accepted nonsymmetric step further).
-/
import ClarabelProofs.Props.C14
import Mathlib.Analysis.Convex.SpecificFunctions.Basic
import Mathlib.Analysis.MeanInequalities

namespace Clarabel.C15Convex
open Clarabel C14

/-- perspective of `exp` is jointly convex: `c₁·exp(c₀/c₁) ≤ μ·a₁·exp(a₀/a₁) + ν·b₁·exp(b₀/b₁)`
for `c = μa + νb`, `μ, ν ≥ 0`, `μ + ν = 1`, `a₁, b₁ > 0` -/
theorem exp_persp_convex {a0 a1 b0 b1 μ ν : ℝ} (ha : 0 < a1) (hb : 0 < b1) (hμ : 0 ≤ μ) (hν : 0 ≤ ν)
    (h1 : μ + ν = 1) :
    (μ * a1 + ν * b1) * Real.exp ((μ * a0 + ν * b0) / (μ * a1 + ν * b1))
      ≤ μ * (a1 * Real.exp (a0 / a1)) + ν * (b1 * Real.exp (b0 / b1)) := by
  have hc : 0 < μ * a1 + ν * b1 := by
    rcases eq_or_lt_of_le hμ with h | h
    · have : ν = 1 := by linarith
      rw [← h, this]; simpa using hb
    · have := mul_pos h ha
      have := mul_nonneg hν hb.le
      linarith
  set c1 := μ * a1 + ν * b1 with hc1
  have hw1 : 0 ≤ μ * a1 / c1 := div_nonneg (mul_nonneg hμ ha.le) hc.le
  have hw2 : 0 ≤ ν * b1 / c1 := div_nonneg (mul_nonneg hν hb.le) hc.le
  have hsum : μ * a1 / c1 + ν * b1 / c1 = 1 := by
    rw [← add_div, ← hc1]; exact div_self hc.ne'
  have key := convexOn_exp.2 (Set.mem_univ (a0 / a1)) (Set.mem_univ (b0 / b1)) hw1 hw2 hsum
  simp only [smul_eq_mul] at key
  have harg : μ * a1 / c1 * (a0 / a1) + ν * b1 / c1 * (b0 / b1) = (μ * a0 + ν * b0) / c1 := by
    field_simp
  rw [harg] at key
  have := mul_le_mul_of_nonneg_left key hc.le
  calc c1 * Real.exp ((μ * a0 + ν * b0) / c1)
      ≤ c1 * (μ * a1 / c1 * Real.exp (a0 / a1) + ν * b1 / c1 * Real.exp (b0 / b1)) := this
    _ = μ * (a1 * Real.exp (a0 / a1)) + ν * (b1 * Real.exp (b0 / b1)) := by
        field_simp

/-- the open exponential cone is convex -/
theorem expPrimalInterior_convex {a0 a1 a2 b0 b1 b2 μ ν : ℝ} (ha : ExpPrimalInterior a0 a1 a2)
    (hb : ExpPrimalInterior b0 b1 b2) (hμ : 0 ≤ μ) (hν : 0 ≤ ν) (h1 : μ + ν = 1) :
    ExpPrimalInterior (μ * a0 + ν * b0) (μ * a1 + ν * b1) (μ * a2 + ν * b2) := by
  obtain ⟨ha1, ha2, ha3⟩ := ha
  obtain ⟨hb1, hb2, hb3⟩ := hb
  have hpos : ∀ x y : ℝ, 0 < x → 0 < y → 0 < μ * x + ν * y := by
    intro x y hx hy
    rcases eq_or_lt_of_le hμ with h | h
    · have : ν = 1 := by linarith
      rw [← h, this]; simpa using hy
    · have := mul_pos h hx
      have := mul_nonneg hν hy.le
      linarith
  refine ⟨hpos _ _ ha1 hb1, hpos _ _ ha2 hb2, ?_⟩
  refine lt_of_le_of_lt (exp_persp_convex ha1 hb1 hμ hν h1) ?_
  have := hpos (a2 - a1 * Real.exp (a0 / a1)) (b2 - b1 * Real.exp (b0 / b1)) (by linarith) (by linarith)
  linarith

/-- the dual cone is the image of the primal one under `(z₀,z₁,z₂) ↦ (z₀−z₁, −z₀, z₂)` -/
theorem expDual_iff_primal (z0 z1 z2 : ℝ) :
    ExpDualInterior z0 z1 z2 ↔ ExpPrimalInterior (z0 - z1) (-z0) z2 := by
  unfold ExpDualInterior ExpPrimalInterior
  constructor
  · rintro ⟨h0, h2, h3⟩
    refine ⟨by linarith, h2, ?_⟩
    have : (z0 - z1) / -z0 = z1 / z0 - 1 := by
      have hne : z0 ≠ 0 := ne_of_lt h0
      field_simp; ring
    rw [this]; exact h3
  · rintro ⟨h0, h2, h3⟩
    have h0' : z0 < 0 := by linarith
    refine ⟨h0', h2, ?_⟩
    have : (z0 - z1) / -z0 = z1 / z0 - 1 := by
      have hne : z0 ≠ 0 := ne_of_lt h0'
      field_simp; ring
    rw [this] at h3; exact h3

/-- the open dual exponential cone is convex -/
theorem expDualInterior_convex {a0 a1 a2 b0 b1 b2 μ ν : ℝ} (ha : ExpDualInterior a0 a1 a2)
    (hb : ExpDualInterior b0 b1 b2) (hμ : 0 ≤ μ) (hν : 0 ≤ ν) (h1 : μ + ν = 1) :
    ExpDualInterior (μ * a0 + ν * b0) (μ * a1 + ν * b1) (μ * a2 + ν * b2) := by
  rw [expDual_iff_primal] at ha hb ⊢
  have := expPrimalInterior_convex ha hb hμ hν h1
  convert this using 1 <;> ring

/-- convex combination along a ray: `q + t·d = (1 − t/α)·q + (t/α)·(q + α·d)` -/
theorem ray_weights {α t : ℝ} (hα : 0 < α) (ht0 : 0 ≤ t) (ht : t ≤ α) :
    0 ≤ 1 - t / α ∧ 0 ≤ t / α ∧ (1 - t / α) + t / α = 1 := by
  refine ⟨?_, div_nonneg ht0 hα.le, by ring⟩
  have : t / α ≤ 1 := (div_le_one hα).mpr ht
  linarith

/-- [R] a primal step accepted at `α` from an interior point is safe at every `t ∈ [0, α]` -/
theorem expPrimal_ray {s0 s1 s2 d0 d1 d2 α t : ℝ} (hs : ExpPrimalInterior s0 s1 s2)
    (hα : ExpPrimalInterior (s0 + α * d0) (s1 + α * d1) (s2 + α * d2)) (ht0 : 0 ≤ t) (ht : t ≤ α) :
    ExpPrimalInterior (s0 + t * d0) (s1 + t * d1) (s2 + t * d2) := by
  rcases eq_or_lt_of_le (le_trans ht0 ht) with h | h
  · have : t = 0 := by linarith
    subst this; simpa using hs
  · obtain ⟨w1, w2, w3⟩ := ray_weights h ht0 ht
    have := expPrimalInterior_convex hs hα w1 w2 w3
    have hne : α ≠ 0 := h.ne'
    convert this using 1 <;> field_simp <;> ring

/-- [R] the same for the dual cone -/
theorem expDual_ray {z0 z1 z2 d0 d1 d2 α t : ℝ} (hz : ExpDualInterior z0 z1 z2)
    (hα : ExpDualInterior (z0 + α * d0) (z1 + α * d1) (z2 + α * d2)) (ht0 : 0 ≤ t) (ht : t ≤ α) :
    ExpDualInterior (z0 + t * d0) (z1 + t * d1) (z2 + t * d2) := by
  rcases eq_or_lt_of_le (le_trans ht0 ht) with h | h
  · have : t = 0 := by linarith
    subst this; simpa using hz
  · obtain ⟨w1, w2, w3⟩ := ray_weights h ht0 ht
    have := expDualInterior_convex hz hα w1 w2 w3
    have hne : α ≠ 0 := h.ne'
    convert this using 1 <;> field_simp <;> ring

end Clarabel.C15Convex

/-! ## power cone -/

namespace Clarabel.C15Convex
open Clarabel C14

/-- the weighted geometric mean `x^a·y^(1-a)` is jointly concave on the positive orthant -/
theorem geo_concave {a x1 y1 x2 y2 μ ν : ℝ} (ha0 : 0 < a) (ha1 : a < 1) (hx1 : 0 < x1) (hy1 : 0 < y1)
    (hx2 : 0 < x2) (hy2 : 0 < y2) (hμ : 0 ≤ μ) (hν : 0 ≤ ν) (h1 : μ + ν = 1) :
    μ * (x1 ^ a * y1 ^ (1 - a)) + ν * (x2 ^ a * y2 ^ (1 - a))
      ≤ (μ * x1 + ν * x2) ^ a * (μ * y1 + ν * y2) ^ (1 - a) := by
  have hpos : ∀ x y : ℝ, 0 < x → 0 < y → 0 < μ * x + ν * y := by
    intro x y hx hy
    rcases eq_or_lt_of_le hμ with h | h
    · have : ν = 1 := by linarith
      rw [← h, this]; simpa using hy
    · have := mul_pos h hx
      have := mul_nonneg hν hy.le
      linarith
  have hX := hpos x1 x2 hx1 hx2
  have hY := hpos y1 y2 hy1 hy2
  set X := μ * x1 + ν * x2 with hXd
  set Y := μ * y1 + ν * y2 with hYd
  have h1a : 0 ≤ 1 - a := by linarith
  have G : 0 < X ^ a * Y ^ (1 - a) := mul_pos (Real.rpow_pos_of_pos hX _) (Real.rpow_pos_of_pos hY _)
  have am : ∀ x y : ℝ, 0 < x → 0 < y →
      x ^ a * y ^ (1 - a) ≤ (a * (x / X) + (1 - a) * (y / Y)) * (X ^ a * Y ^ (1 - a)) := by
    intro x y hx hy
    have := Real.geom_mean_le_arith_mean2_weighted ha0.le h1a (div_pos hx hX).le (div_pos hy hY).le
      (by ring)
    rw [Real.div_rpow hx.le hX.le, Real.div_rpow hy.le hY.le] at this
    have hXa := Real.rpow_pos_of_pos hX a
    have hYa := Real.rpow_pos_of_pos hY (1 - a)
    have e : x ^ a / X ^ a * (y ^ (1 - a) / Y ^ (1 - a)) = x ^ a * y ^ (1 - a) / (X ^ a * Y ^ (1 - a)) := by
      field_simp
    rw [e, div_le_iff₀ G] at this
    exact this
  have e1 := mul_le_mul_of_nonneg_left (am x1 y1 hx1 hy1) hμ
  have e2 := mul_le_mul_of_nonneg_left (am x2 y2 hx2 hy2) hν
  have tot : μ * (a * (x1 / X) + (1 - a) * (y1 / Y)) + ν * (a * (x2 / X) + (1 - a) * (y2 / Y)) = 1 := by
    have : μ * (a * (x1 / X) + (1 - a) * (y1 / Y)) + ν * (a * (x2 / X) + (1 - a) * (y2 / Y))
        = a * ((μ * x1 + ν * x2) / X) + (1 - a) * ((μ * y1 + ν * y2) / Y) := by
      field_simp; ring
    rw [this, ← hXd, ← hYd, div_self hX.ne', div_self hY.ne']; ring
  calc μ * (x1 ^ a * y1 ^ (1 - a)) + ν * (x2 ^ a * y2 ^ (1 - a))
      ≤ μ * ((a * (x1 / X) + (1 - a) * (y1 / Y)) * (X ^ a * Y ^ (1 - a)))
        + ν * ((a * (x2 / X) + (1 - a) * (y2 / Y)) * (X ^ a * Y ^ (1 - a))) := add_le_add e1 e2
    _ = (μ * (a * (x1 / X) + (1 - a) * (y1 / Y)) + ν * (a * (x2 / X) + (1 - a) * (y2 / Y)))
          * (X ^ a * Y ^ (1 - a)) := by ring
    _ = X ^ a * Y ^ (1 - a) := by rw [tot, one_mul]

/-- the open power cone is convex -/
theorem powPrimalInterior_convex {a a0 a1 a2 b0 b1 b2 μ ν : ℝ} (ha0 : 0 < a) (ha1 : a < 1)
    (hA : PowPrimalInterior a a0 a1 a2) (hB : PowPrimalInterior a b0 b1 b2)
    (hμ : 0 ≤ μ) (hν : 0 ≤ ν) (h1 : μ + ν = 1) :
    PowPrimalInterior a (μ * a0 + ν * b0) (μ * a1 + ν * b1) (μ * a2 + ν * b2) := by
  obtain ⟨p0, p1, p2⟩ := hA
  obtain ⟨q0, q1, q2⟩ := hB
  have hpos : ∀ x y : ℝ, 0 < x → 0 < y → 0 < μ * x + ν * y := by
    intro x y hx hy
    rcases eq_or_lt_of_le hμ with h | h
    · have : ν = 1 := by linarith
      rw [← h, this]; simpa using hy
    · have := mul_pos h hx
      have := mul_nonneg hν hy.le
      linarith
  refine ⟨hpos _ _ p0 q0, hpos _ _ p1 q1, ?_⟩
  have habs : |μ * a2 + ν * b2| ≤ μ * |a2| + ν * |b2| := by
    calc |μ * a2 + ν * b2| ≤ |μ * a2| + |ν * b2| := abs_add_le _ _
      _ = μ * |a2| + ν * |b2| := by rw [abs_mul, abs_mul, abs_of_nonneg hμ, abs_of_nonneg hν]
  have hstrict := hpos (a0 ^ a * a1 ^ (1 - a) - |a2|) (b0 ^ a * b1 ^ (1 - a) - |b2|) (by linarith) (by linarith)
  have := geo_concave ha0 ha1 p0 p1 q0 q1 hμ hν h1
  linarith

/-- the dual power cone is the image of the primal one under `(z₀,z₁,z₂) ↦ (z₀/a, z₁/(1−a), z₂)` -/
theorem powDual_iff_primal {a : ℝ} (ha0 : 0 < a) (ha1 : a < 1) (z0 z1 z2 : ℝ) :
    PowDualInterior a z0 z1 z2 ↔ PowPrimalInterior a (z0 / a) (z1 / (1 - a)) z2 := by
  have h1a : 0 < 1 - a := by linarith
  unfold PowDualInterior PowPrimalInterior
  constructor
  · rintro ⟨h0, h1, h2⟩; exact ⟨div_pos h0 ha0, div_pos h1 h1a, h2⟩
  · rintro ⟨h0, h1, h2⟩
    exact ⟨by have := mul_pos h0 ha0; rwa [div_mul_cancel₀ _ ha0.ne'] at this,
      by have := mul_pos h1 h1a; rwa [div_mul_cancel₀ _ h1a.ne'] at this, h2⟩

/-- the open dual power cone is convex -/
theorem powDualInterior_convex {a a0 a1 a2 b0 b1 b2 μ ν : ℝ} (ha0 : 0 < a) (ha1 : a < 1)
    (hA : PowDualInterior a a0 a1 a2) (hB : PowDualInterior a b0 b1 b2)
    (hμ : 0 ≤ μ) (hν : 0 ≤ ν) (h1 : μ + ν = 1) :
    PowDualInterior a (μ * a0 + ν * b0) (μ * a1 + ν * b1) (μ * a2 + ν * b2) := by
  rw [powDual_iff_primal ha0 ha1] at hA hB ⊢
  have := powPrimalInterior_convex ha0 ha1 hA hB hμ hν h1
  convert this using 1 <;> ring

/-- [R] a primal power-cone step accepted at `α` from an interior point is safe on `[0, α]` -/
theorem powPrimal_ray {a s0 s1 s2 d0 d1 d2 α t : ℝ} (ha0 : 0 < a) (ha1 : a < 1)
    (hs : PowPrimalInterior a s0 s1 s2)
    (hα : PowPrimalInterior a (s0 + α * d0) (s1 + α * d1) (s2 + α * d2)) (ht0 : 0 ≤ t) (ht : t ≤ α) :
    PowPrimalInterior a (s0 + t * d0) (s1 + t * d1) (s2 + t * d2) := by
  rcases eq_or_lt_of_le (le_trans ht0 ht) with h | h
  · have : t = 0 := by linarith
    subst this; simpa using hs
  · obtain ⟨w1, w2, w3⟩ := ray_weights h ht0 ht
    have := powPrimalInterior_convex ha0 ha1 hs hα w1 w2 w3
    have hne : α ≠ 0 := h.ne'
    convert this using 1 <;> field_simp <;> ring

/-- [R] the same for the dual power cone -/
theorem powDual_ray {a z0 z1 z2 d0 d1 d2 α t : ℝ} (ha0 : 0 < a) (ha1 : a < 1)
    (hz : PowDualInterior a z0 z1 z2)
    (hα : PowDualInterior a (z0 + α * d0) (z1 + α * d1) (z2 + α * d2)) (ht0 : 0 ≤ t) (ht : t ≤ α) :
    PowDualInterior a (z0 + t * d0) (z1 + t * d1) (z2 + t * d2) := by
  rcases eq_or_lt_of_le (le_trans ht0 ht) with h | h
  · have : t = 0 := by linarith
    subst this; simpa using hz
  · obtain ⟨w1, w2, w3⟩ := ray_weights h ht0 ht
    have := powDualInterior_convex ha0 ha1 hz hα w1 w2 w3
    have hne : α ≠ 0 := h.ne'
    convert this using 1 <;> field_simp <;> ring

end Clarabel.C15Convex
