/-
  **The bordered block of a generalised power cone in `assembled_quasiDefGE`, from interior-ness.**

  `KktSymOfMain.assembled_quasiDefGE` (C11 `kkt_factorisation_signs_assembled`) asks, for every cone
  `i` of the list, for `0 ≤ expForm (HOf cones blocks i) (VOf cones scal i) (eOf cones scal i) y s`.
  `form_of_nonsparse` and `form_soc` supply it for cones without expansion and for sparse
  second-order cones.  This file supplies it for a GENERALISED POWER cone:

  * `form_genpow` [F]: transport of `KktInertiaCones.expForm_genpow` to the position `i` of a cone
    list (through `subst` on the dimension equations and `Fin.cast`, as `form_soc`), from
    `D − qqᵀ − rrᵀ ⪰ 0` in the `placeAt`/`genpowD` vocabulary and `√μ·√μ = μ`;
  * `form_genpow_interior` [R]: over `ℝ` the two hypotheses follow from interior-ness of the dual
    point alone (`KktInertiaGenPowReal.genpow_D_sub_qq_rr_nonneg`, built on C14's closed-form
    Hessian data `updateDualGradH_data`), `μ ≥ 0`;
  * `form_genpow_accepted` [R]: the same with the cone model's accepted `update_scaling` as the
    hypothesis (`GenPow.updateScaling … = .ok (true, st')`);
  * a non-vacuity example on the cone list `[.genpow 2 1]`.
-/
import ClarabelProofs.Lemmas.KktSymOfMain
import ClarabelProofs.Lemmas.KktInertiaGenPowReal
import ClarabelProofs.Lemmas.KktScalingFits
import ClarabelProofs.Lemmas.NonsymGenPowScaling
import ClarabelProofs.Lemmas.ScalarInst

set_option linter.unusedSectionVars false
set_option linter.unusedVariables false

namespace Clarabel.Lemmas.KktFormGenPow
open Clarabel Clarabel.Csc Clarabel.Kkt
open Clarabel.Lemmas.KktSymOfValues Clarabel.Lemmas.KktSymOfEntries Clarabel.Lemmas.KktSymOfMain
open Clarabel.Lemmas.KktInertia Clarabel.Lemmas.KktInertiaList Clarabel.Lemmas.KktInertiaCones
open Clarabel.Lemmas.KktUpdateAsm Clarabel.Lemmas.KktUpdateSchur Clarabel.Lemmas.KktExpansion

section field
variable {α : Type} [Field α] [LinearOrder α] [IsStrictOrderedRing α] [FloatLike α]
variable {cones : List ConeSpec}

/-- the `get_Hs` vector of a generalised power cone, entry by entry: `μ·D` -/
theorem genpow_block_getD (μ d2 : α) (d1 : Array α) (n : Nat) {m : ℕ} (k : Fin m)
    (hk : k.val < d1.size + n) :
    (d1.map (fun d => μ * d) ++ Array.replicate n (μ * d2)).getD k.val 0
      = μ * genpowD d1 d2 k := by
  unfold genpowD
  rw [Array.getD_eq_getD_getElem?]
  by_cases h : k.val < d1.size
  · rw [dif_pos h, Array.getElem?_append_left (by simpa using h)]
    simp [h]
  · rw [dif_neg h, Array.getElem?_append_right (by simpa using Nat.le_of_not_lt h)]
    have : k.val - d1.size < n := by omega
    simp [this]

/-- transport of `expForm_genpow` along the two dimension equations -/
theorem form_genpow_aux {μ sm : α} (hsm : sm * sm = μ) {m0 : ℕ} {D q r : Fin m0 → α}
    (hD : ∀ y : Fin m0 → α, dot q y ^ 2 + dot r y ^ 2 ≤ ∑ k, D k * y k ^ 2)
    (m na : Nat) (hm : m = m0) (hna : na = 2) (H : Fin m → Fin m → α)
    (V : Fin na → Fin m → α) (e : Fin na → α)
    (hH : ∀ a a', H a a' = genpowH μ D (Fin.cast hm a) (Fin.cast hm a'))
    (hV : ∀ c a, V c a = genpowVm sm q r (Fin.cast hna c) (Fin.cast hm a))
    (he : ∀ c, e c = 1) (y : Fin m → α) (s : Fin na → α) : 0 ≤ expForm H V e y s := by
  subst hm
  subst hna
  have e1 : H = genpowH μ D := by funext a a'; rw [hH]; rfl
  have e2 : V = genpowVm sm q r := by funext c a; rw [hV]; rfl
  have e3 : e = fun _ => (1 : α) := funext he
  rw [e1, e2, e3]
  exact expForm_genpow hsm hD y s

/-- [F] **the bordered block of a generalised power cone, in terms of the scaling data that
`update` reads**: for the cone `genpow a b` at position `i` of the cone list, with data
`μ, p, q, r, d1, d2` (`|q| = |d1|`, as `VecFits` says) such that `√μ·√μ = μ` and
`D − q̃q̃ᵀ − r̃r̃ᵀ ⪰ 0` (`D = genpowD d1 d2`, `q̃ = placeAt q 0`, `r̃ = placeAt r |d1|`: the vocabulary
of `C11.update_genpow_schur` / `C11.inertia_genpow_data`), the form
`expForm (H i) (V i) (e i)` of `assembled_symOf_eq_listKkt` is nonnegative — the hypothesis `hform`
of `assembled_quasiDefGE` at that cone. -/
theorem form_genpow (scal : List (ConeScaling α)) (hfits : LayoutFits scal cones)
    (blocks : List (Array α)) (hget : scal.mapM getHs = .ok blocks)
    (i : Fin cones.length) {a b : ℕ} (hci : cones[i] = .genpow a b)
    {μ d2 : α} {p q r d1 : Array α}
    (hsc : scalAt scal i.val = .genpow μ p q r d1 d2) (hq : q.size = d1.size)
    (hsm : sqrt μ * sqrt μ = μ)
    (hD : ∀ y : Fin (d1.size + r.size) → α,
      dot (placeAt q 0) y ^ 2 + dot (placeAt r d1.size) y ^ 2 ≤ ∑ k, genpowD d1 d2 k * y k ^ 2)
    (y : Fin (cones[i].numel) → α) (s : Fin (nMinus cones[i]) → α) :
    0 ≤ expForm (HOf cones blocks i) (VOf cones scal i) (eOf cones scal i) y s := by
  have hci' : cones[i.val]'i.isLt = .genpow a b := hci
  obtain ⟨hi', _, _, hf1, hsa⟩ := layout_at hfits i.val i.isLt
  rw [← hsa, hsc, hci'] at hf1
  obtain ⟨hd1, hr⟩ : d1.size = a ∧ r.size = b := hf1
  have hb : blockAt blocks i.val
      = d1.map (fun d => μ * d) ++ Array.replicate r.size (μ * d2) := by
    apply block_at hget i.val hi'
    rw [← hsa, hsc]
    exact getHs_genpow μ d2 p q r d1
  have hm : (cones[i.val]'i.isLt).numel = d1.size + r.size := by rw [hci', hd1, hr]; rfl
  have hna : nMinus (cones[i.val]'i.isLt) = 2 := by rw [hci', nMinus_genpow]
  have hdiag : (cones[i.val]'i.isLt).hsIsDiagonal = true := by rw [hci']; rfl
  refine form_genpow_aux hsm hD _ _ hm hna _ _ _ ?_ ?_ ?_ y s
  · intro x x'
    show coneH (cones[i.val]'i.isLt) (blockAt blocks i.val) x.val x'.val = _
    rw [hb]
    unfold coneH genpowH diagM
    rw [if_pos hdiag]
    by_cases hxx : x.val = x'.val
    · have : Fin.cast hm x = Fin.cast hm x' := Fin.ext hxx
      rw [if_pos hxx, if_pos this]
      exact genpow_block_getD μ d2 d1 r.size (Fin.cast hm x) (Fin.cast hm x).isLt
    · have : Fin.cast hm x ≠ Fin.cast hm x' := fun h => hxx (by simpa using congrArg Fin.val h)
      rw [if_neg hxx, if_neg this]
  · intro c x
    show coneV (scalAt scal i.val) c.val x.val = _
    rw [hsc]
    have hx : x.val < d1.size + r.size := by have := x.isLt; omega
    have hc : c.val < 2 := by have := c.isLt; omega
    unfold genpowVm
    simp only [coneV, placeAt, Fin.val_cast, Nat.zero_le, true_and, Nat.zero_add, Nat.sub_zero, hq]
    by_cases hc0 : c.val = 0
    · have : Fin.cast hna c = 0 := Fin.ext hc0
      rw [if_pos hc0, if_pos this]
      by_cases hlt : x.val < d1.size
      · rw [if_pos hlt, if_pos hlt]
      · rw [if_neg hlt, if_neg hlt, mul_zero]
    · have : Fin.cast hna c ≠ 0 := fun h => hc0 (by simpa using congrArg Fin.val h)
      rw [if_neg hc0, if_neg this]
      by_cases hge : d1.size ≤ x.val
      · rw [if_pos hge, if_pos ⟨hge, hx⟩]
      · rw [if_neg hge, if_neg (fun h => hge h.1), mul_zero]
  · intro c
    show coneE (scalAt scal i.val) = _
    rw [hsc]
    rfl

end field

-- ====================================================================================
-- over ℝ: the hypotheses of `form_genpow` from interior-ness of the dual point
-- ====================================================================================

section real
open Clarabel.GenPow Clarabel.Lemmas.KktScalingFits
variable {cones : List ConeSpec}

/-- [R] **the bordered block of a generalised power cone has a nonnegative form as soon as the dual
point the scaling was computed at is interior.**  The cone `genpow a b` sits at position `i`; its
scaling data are the Hessian data `D` that `GenPow.updateDualGradH` (model of
`genpowcone.rs::update_dual_grad_H`) writes at `z = (u, w)` for exponents `α`, together with any
`μ ≥ 0`.  Interior-ness only: `α > 0`, `Σα = 1`, `u > 0`, `ζ = Π(uᵢ/αᵢ)^{2αᵢ} − ‖w‖² > 0`.  Then
`hform` of `assembled_quasiDefGE` holds at that cone: `√μ·√μ = μ` is `Real.mul_self_sqrt`,
`|q| = |d1|` is `genpow_data_sizes`, and `D − q̃q̃ᵀ − r̃r̃ᵀ ⪰ 0` is
`genpow_D_sub_qq_rr_nonneg` (from C14's closed-form representation `updateDualGradH_data`). -/
theorem form_genpow_interior (scal : List (ConeScaling ℝ)) (hfits : LayoutFits scal cones)
    (blocks : List (Array ℝ)) (hget : scal.mapM getHs = .ok blocks)
    (i : Fin cones.length) {a b : ℕ} (hci : cones[i] = .genpow a b)
    {D : GenPow.Data ℝ} {mu : ℝ}
    (hsc : scalAt scal i.val = .genpow mu D.p D.q D.r D.d1 D.d2)
    (al u w : List ℝ) (hlen : al.length = u.length) (ha : ∀ x ∈ al, 0 < x) (hsum : al.sum = 1)
    (hu : ∀ x ∈ u, 0 < x) (hζ : 0 < prodPhi al u - sumSq w)
    (hDat : updateDualGradH al.toArray (u ++ w).toArray = .ok D) (hmu : 0 ≤ mu)
    (y : Fin (cones[i].numel) → ℝ) (s : Fin (nMinus cones[i]) → ℝ) :
    0 ≤ expForm (HOf cones blocks i) (VOf cones scal i) (eOf cones scal i) y s := by
  obtain ⟨_, h1, h2, _, _⟩ := genpow_data_sizes hDat
  exact form_genpow scal hfits blocks hget i hci hsc (by rw [h1, h2])
    (Real.mul_self_sqrt hmu)
    (Clarabel.Lemmas.KktInertiaGenPowReal.genpow_D_sub_qq_rr_nonneg al u w hlen ha hsum hu hζ D
      hDat) y s

/-- [R] … stated on the state of the cone model: `scalingOfGenPow ⟨D, μ, z⟩` -/
theorem form_genpow_interior_state (scal : List (ConeScaling ℝ)) (hfits : LayoutFits scal cones)
    (blocks : List (Array ℝ)) (hget : scal.mapM getHs = .ok blocks)
    (i : Fin cones.length) {a b : ℕ} (hci : cones[i] = .genpow a b)
    {D : GenPow.Data ℝ} {mu : ℝ} {z : Array ℝ}
    (hsc : scalAt scal i.val = scalingOfGenPow ⟨D, mu, z⟩)
    (al u w : List ℝ) (hlen : al.length = u.length) (ha : ∀ x ∈ al, 0 < x) (hsum : al.sum = 1)
    (hu : ∀ x ∈ u, 0 < x) (hζ : 0 < prodPhi al u - sumSq w)
    (hDat : updateDualGradH al.toArray (u ++ w).toArray = .ok D) (hmu : 0 ≤ mu)
    (y : Fin (cones[i].numel) → ℝ) (s : Fin (nMinus cones[i]) → ℝ) :
    0 ≤ expForm (HOf cones blocks i) (VOf cones scal i) (eOf cones scal i) y s :=
  form_genpow_interior scal hfits blocks hget i hci hsc al u w hlen ha hsum hu hζ hDat hmu y s

/-- [R] **… with the cone model's ACCEPTED `update_scaling` as the hypothesis.**  If
`GenPow.updateScaling` (model of `genpowcone.rs::update_scaling`) accepts the dual point `(u, w)`
(flag `true`) for exponents `α > 0`, `Σα = 1`, with `u > 0` and `μ ≥ 0`, and the scaling data at
position `i` are those of the state it returns, then `hform` of `assembled_quasiDefGE` holds at that
cone.  (`ζ > 0` is not a hypothesis: it is what the accept flag says, `updateScaling_flag`.) -/
theorem form_genpow_accepted (scal : List (ConeScaling ℝ)) (hfits : LayoutFits scal cones)
    (blocks : List (Array ℝ)) (hget : scal.mapM getHs = .ok blocks)
    (i : Fin cones.length) {a b : ℕ} (hci : cones[i] = .genpow a b)
    (al u w : List ℝ) (hlen : al.length = u.length) (ha : ∀ x ∈ al, 0 < x) (hsum : al.sum = 1)
    (hu : ∀ x ∈ u, 0 < x) {st st' : GenPow.State ℝ} {mu : ℝ} (hmu : 0 ≤ mu)
    (hacc : updateScaling al.toArray st (u ++ w).toArray mu = .ok (true, st'))
    (hsc : scalAt scal i.val = scalingOfGenPow st')
    (y : Fin (cones[i].numel) → ℝ) (s : Fin (nMinus cones[i]) → ℝ) :
    0 ≤ expForm (HOf cones blocks i) (VOf cones scal i) (eOf cones scal i) y s := by
  have hζ : 0 < prodPhi al u - sumSq w := (updateScaling_flag al u w hlen st mu).mp ⟨st', hacc⟩
  obtain ⟨D, hDat, hst⟩ := updateScaling_accept al u w hlen st mu hζ
  rw [hst] at hacc
  have hst' : st' = ⟨D, mu, (u ++ w).toArray⟩ := by
    have := Except.ok.inj hacc
    exact (Prod.mk.inj this).2.symm
  subst hst'
  exact form_genpow_interior scal hfits blocks hget i hci hsc al u w hlen ha hsum hu hζ hDat hmu y s

/-- non-vacuity of `form_genpow`, `form_genpow_interior`, `form_genpow_accepted`: the cone list
`[genpow 2 1]`, exponents `α = (½, ½)`, dual point `u = (1, 1)`, `w = (½)` (`φ = 4`, `ζ = 15/4`),
`μ = 1`.  `update_scaling` accepts, the data of the returned state fit the cone list, `get_Hs`
succeeds, all hypotheses hold — and so does the conclusion, for every `y, s`. -/
example : ∃ (st' : GenPow.State ℝ) (blocks : List (Array ℝ)),
    updateScaling ([1 / 2, 1 / 2] : List ℝ).toArray (State.init 2 1)
      (([1, 1] : List ℝ) ++ [1 / 2]).toArray 1 = .ok (true, st') ∧
    LayoutFits [scalingOfGenPow st'] [ConeSpec.genpow 2 1] ∧
    [scalingOfGenPow st'].mapM getHs = .ok blocks ∧
    scalAt [scalingOfGenPow st'] 0 = scalingOfGenPow st' ∧
    ([1 / 2, 1 / 2] : List ℝ).length = ([1, 1] : List ℝ).length ∧
    (∀ x ∈ ([1 / 2, 1 / 2] : List ℝ), 0 < x) ∧ ([1 / 2, 1 / 2] : List ℝ).sum = 1 ∧
    (∀ x ∈ ([1, 1] : List ℝ), 0 < x) ∧
    0 < prodPhi [1 / 2, 1 / 2] [1, 1] - sumSq [1 / 2] ∧
    updateDualGradH ([1 / 2, 1 / 2] : List ℝ).toArray (([1, 1] : List ℝ) ++ [1 / 2]).toArray
      = .ok st'.D ∧
    st'.D.q.size = st'.D.d1.size ∧ sqrt st'.mu * sqrt st'.mu = st'.mu ∧
    (∀ y : Fin (st'.D.d1.size + st'.D.r.size) → ℝ,
      dot (placeAt st'.D.q 0) y ^ 2 + dot (placeAt st'.D.r st'.D.d1.size) y ^ 2
        ≤ ∑ k, genpowD st'.D.d1 st'.D.d2 k * y k ^ 2) ∧
    ∀ (y : Fin (([ConeSpec.genpow 2 1])[(0 : Fin 1)].numel) → ℝ)
      (s : Fin (nMinus ([ConeSpec.genpow 2 1])[(0 : Fin 1)]) → ℝ),
      0 ≤ expForm (HOf [ConeSpec.genpow 2 1] blocks 0)
        (VOf [ConeSpec.genpow 2 1] [scalingOfGenPow st'] 0)
        (eOf [ConeSpec.genpow 2 1] [scalingOfGenPow st'] 0) y s := by
  have hζ : 0 < prodPhi [1 / 2, 1 / 2] [1, 1] - sumSq [1 / 2] := by
    unfold prodPhi sumSq
    norm_num
  have hlen : ([1 / 2, 1 / 2] : List ℝ).length = ([1, 1] : List ℝ).length := rfl
  have ha : ∀ x ∈ ([1 / 2, 1 / 2] : List ℝ), 0 < x := by
    intro x hx; simp at hx; subst hx; norm_num
  have hsum : ([1 / 2, 1 / 2] : List ℝ).sum = 1 := by norm_num
  have hu : ∀ x ∈ ([1, 1] : List ℝ), 0 < x := by
    intro x hx; simp at hx; subst hx; norm_num
  obtain ⟨D, hDat, hacc⟩ := updateScaling_accept [1 / 2, 1 / 2] [1, 1] [1 / 2] hlen
    (State.init 2 1) 1 hζ
  obtain ⟨hfit, _, hq⟩ := genpow_update_fits (dim2 := 1) (by rfl) hacc
  have hfits : LayoutFits [scalingOfGenPow ⟨D, 1, (([1, 1] : List ℝ) ++ [1 / 2]).toArray⟩]
      [ConeSpec.genpow 2 1] :=
    layoutFits_of_forall (List.Forall₂.cons hfit List.Forall₂.nil)
  have hget : [scalingOfGenPow ⟨D, 1, (([1, 1] : List ℝ) ++ [1 / 2]).toArray⟩].mapM getHs
      = .ok [GenPow.getHs D 1 D.r.size] := by
    simp only [List.mapM_cons, List.mapM_nil, genpow_getHs_eq]
    rfl
  have hsm : sqrt (1 : ℝ) * sqrt (1 : ℝ) = 1 := Real.mul_self_sqrt zero_le_one
  refine ⟨_, _, hacc, hfits, hget, rfl, hlen, ha, hsum, hu, hζ, hDat, hq, hsm, ?_, ?_⟩
  · exact Clarabel.Lemmas.KktInertiaGenPowReal.genpow_D_sub_qq_rr_nonneg _ _ _ hlen ha hsum hu hζ
      D hDat
  · exact form_genpow_accepted _ hfits _ hget 0 rfl _ _ _ hlen ha hsum hu zero_le_one hacc rfl

end real

end Clarabel.Lemmas.KktFormGenPow
