/-
  Exponential cone (C14): the hard-coded starting point of `unit_initialization` is
  (approximately) the central point with `μ = 1`, and the Wright-omega refinement step
  has the exact solution as a fixed point.
-/
import ClarabelProofs.Lemmas.NonsymExp

namespace Clarabel.Exp
open Clarabel Nonsym

/-! ## A3: the exact central-point equations force `μ = 1` -/

/-- log-homogeneity (degree 3) of the dual barrier, local copy: `⟨∇f*(z), z⟩ = -3`. -/
theorem gradDual_dot_self {z0 z1 z2 : ℝ} (h : DualInt z0 z1 z2) :
    (gradDual (z0, z1, z2)).1 * z0 + (gradDual (z0, z1, z2)).2.1 * z1
      + (gradDual (z0, z1, z2)).2.2 * z2 = -3 := by
  obtain ⟨h0, h2, hr⟩ := h
  have n0 : z0 ≠ 0 := ne_of_lt h0
  have n2 : z2 ≠ 0 := ne_of_gt h2
  have nr : dualR z0 z1 z2 ≠ 0 := ne_of_gt hr
  have hz1 : z1 = dualR z0 z1 z2 + z0 * dualL z0 z2 + z0 := by unfold dualR; ring
  simp only [gradDual, grad0, grad1, grad2, recip]
  generalize dualR z0 z1 z2 = r at *
  generalize dualL z0 z2 = L at *
  subst hz1
  field_simp
  ring

/-- Quantitative form of "central ⇒ `μ = 1`": at every interior `z`, the deviation of
`⟨z, z⟩` from `3` is the central-point residual `∇f*(z) + z` paired with `z`. -/
theorem central_residual_identity {z0 z1 z2 : ℝ} (h : DualInt z0 z1 z2) :
    z0 * z0 + z1 * z1 + z2 * z2 - 3
      = ((gradDual (z0, z1, z2)).1 + z0) * z0 + ((gradDual (z0, z1, z2)).2.1 + z1) * z1
        + ((gradDual (z0, z1, z2)).2.2 + z2) * z2 := by
  have hh := gradDual_dot_self h
  linarith

/-- "Central point with `μ = 1`": if `s = z = -∇f*(z)` for an interior `z` of the dual cone,
then `⟨s, z⟩ / 3 = 1`, i.e. `z₀² + z₁² + z₂² = 3`. -/
theorem central_point_mu_one {z0 z1 z2 : ℝ} (h : DualInt z0 z1 z2)
    (hc : gradDual (z0, z1, z2) = (-z0, -z1, -z2)) :
    z0 * z0 + z1 * z1 + z2 * z2 = 3 ∧ (z0 * z0 + z1 * z1 + z2 * z2) / 3 = 1 := by
  have hh := gradDual_dot_self h
  rw [hc] at hh
  simp only at hh
  have h3 : z0 * z0 + z1 * z1 + z2 * z2 = 3 := by linarith
  exact ⟨h3, by rw [h3]; norm_num⟩


/-! ## A1/A2: the hard-coded start point is approximately central -/
/-- interval-arithmetic enclosure of the only transcendental quantity,
`L = log(c₂ / -c₀) = log 1.19743875714…`, from 20 terms of the series of `-log(1 - x)`,
`x = 1 - (-c₀)/c₂ ≈ 0.165` (truncation error `x²¹/(1-x) < 5e-17`). -/
theorem startL_bounds :
    (0.1801849067358 : ℝ) ≤ Real.log (1258967884768947 / 1051383945322714) ∧
    Real.log (1258967884768947 / 1051383945322714) ≤ (0.1801849067359 : ℝ) := by
  have hx : |(207583939446233 / 1258967884768947 : ℝ)| < 1 := by
    rw [abs_of_pos (by norm_num)]; norm_num
  have h := Real.abs_log_sub_add_sum_range_le hx 20
  have e : (1 : ℝ) - 207583939446233 / 1258967884768947 = (1258967884768947 / 1051383945322714)⁻¹ := by
    norm_num
  rw [e, Real.log_inv, abs_of_pos (by norm_num : (0:ℝ) < 207583939446233 / 1258967884768947)] at h
  rw [abs_le] at h
  obtain ⟨h1, h2⟩ := h
  norm_num [Finset.sum_range_succ] at h1 h2
  constructor <;> linarith
/-- `unit_initialization` over ℝ, spelled out -/
theorem unitInit_eq : unitInitialization (α := ℝ)
    = (-(1.051383945322714 : ℝ), (0.556409619469370 : ℝ), (1.258967884768947 : ℝ)) := rfl

/-- `dualL` at the start point is `log(c₂ / -c₀)` (the `logsafe` guard is not taken) -/
theorem unitInit_dualL :
    dualL (-(1.051383945322714 : ℝ)) (1.258967884768947 : ℝ)
      = Real.log (1258967884768947 / 1051383945322714) := by
  unfold dualL
  have e : (-(1.258967884768947 : ℝ)) / (-(1.051383945322714 : ℝ))
      = 1258967884768947 / 1051383945322714 := by norm_num
  rw [e, logsafe_of_pos (by norm_num)]

/-- `dualR` at the start point, as an affine function of `L` -/
theorem unitInit_dualR :
    dualR (-(1.051383945322714 : ℝ)) (0.556409619469370 : ℝ) (1.258967884768947 : ℝ)
      = 1.051383945322714 * Real.log (1258967884768947 / 1051383945322714)
        + 1.051383945322714 + 0.556409619469370 := by
  unfold dualR
  rw [unitInit_dualL]
  ring

/-- rational enclosures of `r = dualR c`, `1/r` and `L/r` obtained from `startL_bounds`
by clearing the (positive) denominator `r`, which is affine in `L` -/
theorem unitInit_aux :
    let L := Real.log (1258967884768947 / 1051383945322714)
    let r := 1.051383945322714 * L + 1.051383945322714 + 0.556409619469370
    (1.79723708292357 : ℝ) ≤ r ∧ r ≤ 1.79723708292368 ∧
    (0.55640961868716 : ℝ) ≤ 1 / r ∧ 1 / r ≤ 0.55640961868720 ∧
    (0.10025661525005 : ℝ) ≤ L / r ∧ L / r ≤ 0.10025661525011 := by
  intro L r
  obtain ⟨hlo, hhi⟩ := startL_bounds
  have hr1 : (1.79723708292357 : ℝ) ≤ r := by
    show _ ≤ 1.051383945322714 * L + 1.051383945322714 + 0.556409619469370
    change _ ≤ L at hlo
    norm_num at hlo ⊢
    linarith
  have hr2 : r ≤ (1.79723708292368 : ℝ) := by
    show 1.051383945322714 * L + 1.051383945322714 + 0.556409619469370 ≤ _
    change L ≤ _ at hhi
    norm_num at hhi ⊢
    linarith
  have hr : 0 < r := lt_of_lt_of_le (by norm_num) hr1
  have hrdef : r = 1.051383945322714 * L + 1.051383945322714 + 0.556409619469370 := rfl
  change _ ≤ L at hlo
  change L ≤ _ at hhi
  refine ⟨hr1, hr2, ?_, ?_, ?_, ?_⟩
  · rw [le_div_iff₀ hr, hrdef]; norm_num at hhi ⊢; linarith
  · rw [div_le_iff₀ hr, hrdef]; norm_num at hlo ⊢; linarith
  · rw [le_div_iff₀ hr, hrdef]; norm_num at hlo ⊢; linarith
  · rw [div_le_iff₀ hr, hrdef]; norm_num at hhi ⊢; linarith
/-- A1 (dual side): the start point is in the interior of the dual cone
(`c₀ < 0`, `c₂ > 0`, `dualR c > 0`). -/
theorem unitInit_dualInt :
    DualInt (unitInitialization (α := ℝ)).1 (unitInitialization (α := ℝ)).2.1
      (unitInitialization (α := ℝ)).2.2 := by
  show DualInt (-(1.051383945322714 : ℝ)) (0.556409619469370 : ℝ) (1.258967884768947 : ℝ)
  refine ⟨by norm_num, by norm_num, ?_⟩
  rw [unitInit_dualR]
  exact lt_of_lt_of_le (by norm_num) unitInit_aux.1

/-- A1 (primal side): the start point is in the interior of the primal cone
(`c₁ > 0`, `c₂ > 0`, `c₁ e^{c₀/c₁} < c₂`; this is `C14.ExpPrimalInterior c₀ c₁ c₂`). -/
theorem unitInit_primalInt :
    0 < (unitInitialization (α := ℝ)).2.1 ∧ 0 < (unitInitialization (α := ℝ)).2.2 ∧
    (unitInitialization (α := ℝ)).2.1
        * Real.exp ((unitInitialization (α := ℝ)).1 / (unitInitialization (α := ℝ)).2.1)
      < (unitInitialization (α := ℝ)).2.2 := by
  show 0 < (0.556409619469370 : ℝ) ∧ 0 < (1.258967884768947 : ℝ) ∧
    (0.556409619469370 : ℝ) * Real.exp (-(1.051383945322714 : ℝ) / 0.556409619469370)
      < 1.258967884768947
  refine ⟨by norm_num, by norm_num, ?_⟩
  have h : Real.exp (-(1.051383945322714 : ℝ) / 0.556409619469370) < 1 := by
    rw [Real.exp_lt_one_iff]; norm_num
  have h1 : (0.556409619469370 : ℝ) * Real.exp (-(1.051383945322714 : ℝ) / 0.556409619469370)
      < 0.556409619469370 * 1 := mul_lt_mul_of_pos_left h (by norm_num)
  refine lt_trans h1 ?_
  norm_num

/-- A2: certified two-sided enclosures of the central-point residual `∇f*(c) + c` at the
start point `c = s = z`; the residual is small (`< 5e-9`) but provably non-zero. -/
theorem unitInit_residual_enclosure :
    let c := unitInitialization (α := ℝ)
    let g := gradDual c
    (-4.57e-9 ≤ g.1 + c.1 ∧ g.1 + c.1 ≤ -4.56e-9) ∧
    (7.8e-10 ≤ g.2.1 + c.2.1 ∧ g.2.1 + c.2.1 ≤ 7.9e-10) ∧
    (-4.16e-9 ≤ g.2.2 + c.2.2 ∧ g.2.2 + c.2.2 ≤ -4.15e-9) := by
  intro c g
  obtain ⟨-, -, hu1, hu2, hw1, hw2⟩ := unitInit_aux
  show (_ ≤ grad0 (-(1.051383945322714 : ℝ)) (0.556409619469370 : ℝ) (1.258967884768947 : ℝ)
          + -(1.051383945322714 : ℝ) ∧
        grad0 (-(1.051383945322714 : ℝ)) (0.556409619469370 : ℝ) (1.258967884768947 : ℝ)
          + -(1.051383945322714 : ℝ) ≤ _) ∧
      (_ ≤ grad1 (-(1.051383945322714 : ℝ)) (0.556409619469370 : ℝ) (1.258967884768947 : ℝ)
          + (0.556409619469370 : ℝ) ∧
        grad1 (-(1.051383945322714 : ℝ)) (0.556409619469370 : ℝ) (1.258967884768947 : ℝ)
          + (0.556409619469370 : ℝ) ≤ _) ∧
      (_ ≤ grad2 (-(1.051383945322714 : ℝ)) (0.556409619469370 : ℝ) (1.258967884768947 : ℝ)
          + (1.258967884768947 : ℝ) ∧
        grad2 (-(1.051383945322714 : ℝ)) (0.556409619469370 : ℝ) (1.258967884768947 : ℝ)
          + (1.258967884768947 : ℝ) ≤ _)
  rw [grad0_eq, grad1_eq, grad2_eq, unitInit_dualR, unitInit_dualL]
  generalize Real.log (1258967884768947 / 1051383945322714) = L at *
  generalize (1.051383945322714 * L + 1.051383945322714 + 0.556409619469370 : ℝ) = r at *
  have e : (-(1.051383945322714 : ℝ)) / r = -1.051383945322714 * (1 / r) := by ring
  rw [e]
  generalize 1 / r = u at *
  generalize L / r = w at *
  norm_num at hu1 hu2 hw1 hw2 ⊢
  refine ⟨⟨?_, ?_⟩, ⟨?_, ?_⟩, ?_, ?_⟩ <;> linarith

/-- A2: `‖∇f*(c) + c‖_∞ ≤ 5e-9`: the start point satisfies `s = z = -∇f*(z)` to `5e-9`. -/
theorem unitInit_residual_small :
    let c := unitInitialization (α := ℝ)
    let g := gradDual c
    |g.1 + c.1| ≤ 5e-9 ∧ |g.2.1 + c.2.1| ≤ 5e-9 ∧ |g.2.2 + c.2.2| ≤ 5e-9 := by
  intro c g
  obtain ⟨⟨a1, a2⟩, ⟨b1, b2⟩, c1, c2⟩ := unitInit_residual_enclosure
  refine ⟨abs_le.mpr ⟨?_, ?_⟩, abs_le.mpr ⟨?_, ?_⟩, abs_le.mpr ⟨?_, ?_⟩⟩ <;>
    norm_num at a1 a2 b1 b2 c1 c2 ⊢ <;> linarith

/-- A2: `μ = ⟨s, z⟩/3 = 1` to `5e-16` at the start point (pure rational arithmetic). -/
theorem unitInit_mu :
    let c := unitInitialization (α := ℝ)
    |(c.1 * c.1 + c.2.1 * c.2.1 + c.2.2 * c.2.2) / 3 - 1| ≤ 5e-16 := by
  intro c
  show |((-(1.051383945322714 : ℝ)) * (-(1.051383945322714 : ℝ))
      + (0.556409619469370 : ℝ) * (0.556409619469370 : ℝ)
      + (1.258967884768947 : ℝ) * (1.258967884768947 : ℝ)) / 3 - 1| ≤ 5e-16
  rw [abs_le]
  constructor <;> norm_num

/-- non-vacuity of `central_residual_identity` (its hypothesis holds at the start point) -/
example : (1.051383945322714 : ℝ) * 1.051383945322714 + 0.556409619469370 * 0.556409619469370
      + 1.258967884768947 * 1.258967884768947 - 3
    = ((gradDual (-(1.051383945322714 : ℝ), 0.556409619469370, 1.258967884768947)).1
          + -(1.051383945322714 : ℝ)) * -(1.051383945322714 : ℝ)
      + ((gradDual (-(1.051383945322714 : ℝ), 0.556409619469370, 1.258967884768947)).2.1
          + 0.556409619469370) * 0.556409619469370
      + ((gradDual (-(1.051383945322714 : ℝ), 0.556409619469370, 1.258967884768947)).2.2
          + 1.258967884768947) * 1.258967884768947 := by
  have h := central_residual_identity unitInit_dualInt
  simp only [unitInit_eq] at h
  linarith

/-! ## B: the Wright-omega refinement step -/

/-- the local `step` of `wrightOmega` (one Fritsch–Shafer–Crowley update of `(w, r)`) -/
noncomputable def wrightStep (wr : ℝ × ℝ) : ℝ × ℝ :=
  let w := wr.1; let r := wr.2
  let wp1 := w + 1
  let t := wp1 * (wp1 + (r * 2) / 3)
  let w := w * (1 + (r / wp1) * (t - r * (0.5 : ℝ)) / (t - r))
  let r4 := r * r * r * r
  let wp16 := wp1 * wp1 * wp1 * wp1 * wp1 * wp1
  let r := (w * w * 2 - w * FloatLike.ofNat 8 - 1) / (wp16 * FloatLike.ofNat 72) * r4
  (w, r)

/-- the series start value of `wrightOmega` -/
noncomputable def wrightStart (z : ℝ) : ℝ :=
  let ofN : Nat → ℝ := FloatLike.ofNat
  if z < 1 + (3.141592653589793 : ℝ) then
    let zm1 := z - 1
    let p := zm1
    let w := 1 + p * (0.5 : ℝ)
    let p := p * zm1
    let w := w + p * ((1 : ℝ) / ofN 16)
    let p := p * zm1
    let w := w - p * ((1 : ℝ) / ofN 192)
    let p := p * zm1
    let w := w - p * ((1 : ℝ) / ofN 3072)
    let p := p * zm1
    let w := w + p * (ofN 13 / ofN 61440)
    w
  else
    let logz := logsafe z
    let zinv := recip z
    let w := z - logz
    let q := logz * zinv
    let w := w + q
    let q := q * zinv
    let w := w + q * (logz / 2 - 1)
    let q := q * zinv
    let w := w + q * (logz * logz / 3 - logz * (1.5 : ℝ) + 1)
    w

/-- a zero residual is a fixed point of the refinement step (no side condition: `x / 0 = 0`) -/
theorem wrightStep_fixed (w : ℝ) : wrightStep (w, 0) = (w, 0) := by
  simp [wrightStep]

/-- the model of `_wright_omega` is "start value, then exactly two refinement steps" -/
theorem wrightOmega_eq {z : ℝ} (hz : 0 ≤ z) :
    wrightOmega z
      = .ok (wrightStep (wrightStep (wrightStart z,
          z - wrightStart z - logsafe (wrightStart z)))).1 := by
  unfold wrightOmega
  rw [if_neg (not_lt.mpr hz)]
  rfl

/-- if the start value solves `w + log w = z` exactly, the routine returns it unchanged -/
theorem wrightOmega_of_start_exact {z : ℝ} (hz : 0 ≤ z)
    (h : z - wrightStart z - logsafe (wrightStart z) = 0) :
    wrightOmega z = .ok (wrightStart z) := by
  rw [wrightOmega_eq hz, h, wrightStep_fixed, wrightStep_fixed]

/-- the series start value is exact at `z = 1` (`ω(1) = 1`) -/
theorem wrightStart_one : wrightStart 1 = 1 := by
  norm_num [wrightStart]

/-- non-vacuity of `wrightOmega_of_start_exact`: `ω(1) = 1` is returned exactly -/
theorem wrightOmega_one : wrightOmega (1 : ℝ) = .ok 1 := by
  have h := wrightOmega_of_start_exact (z := 1) (by norm_num)
  rw [wrightStart_one] at h
  exact h (by rw [logsafe_of_pos (by norm_num)]; simp)

/-- `wrightOmega` panics exactly on negative arguments -/
theorem wrightOmega_neg {z : ℝ} (hz : z < 0) :
    wrightOmega z = .error (.panic "argument not in supported range") := by
  unfold wrightOmega
  rw [if_pos hz]
  rfl

end Clarabel.Exp
