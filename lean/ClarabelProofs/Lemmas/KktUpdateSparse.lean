/-
  `Kkt.updateValues` (model of `DirectLDLKKTSolver::update` before the regularisation) for
  ARBITRARY cone lists, i.e. including the sparse-expandable cones (second-order cones in
  sparse form, generalised power cones):

  * A. `scaleValuesKKT` : size, frame, what is written;
  * B. `updateSparsecone_frame` : `csc_update_sparsecone` touches only its own index vectors;
  * C. `updateSparsecone_soc` / `updateSparsecone_genpow` : what it writes there;
  * D. `updateValues_frame_and_Hs` : the conclusion of `updateValues_nonsparse` for all cone
       lists (the sparse updates do not disturb the `Hs` positions nor anything outside the
       sparse maps);
  * E. `updateValues_sparse_entries` (+ `_soc` / `_genpow`) : the expansion entries after the
       whole `updateValues`.

  Structural: no law of the scalar type is used, everything holds for `Float` as well.
-/
import ClarabelProofs.Lemmas.KktRestore
import ClarabelProofs.Lemmas.KktUpdate

namespace Clarabel.Kkt
open Clarabel

variable {α : Type}

-- ------------------------------------------------------------------------------------
-- generalities

theorem getE_ok {β : Type} {xs : Array β} {i : Nat} {site : String} {v : β}
    (h : getE xs i site = .ok v) : xs[i]? = some v := by
  unfold getE at h
  split at h
  · rename_i w hw
    cases h
    exact hw
  · cases h

theorem zip_find_none_getElem_ne {β : Type} {l : List Nat} {vs : List β} {j : Nat}
    (h : (l.zip vs).reverse.find? (fun p => p.1 == j) = none)
    (k : Nat) (h1 : k < l.length) (h2 : k < vs.length) : l[k] ≠ j := by
  rw [List.find?_eq_none] at h
  intro hkj
  have hz : k < (l.zip vs).length := by simp [List.length_zip]; omega
  have hmem : (l.zip vs)[k] ∈ (l.zip vs).reverse := List.mem_reverse.2 (List.getElem_mem hz)
  have := h _ hmem
  simp [List.getElem_zip, hkj] at this

/-- `_update_values_KKT` : positions outside `index` are not touched -/
theorem updateValuesKKT_frame {nz nz' : Array α} {index : Array Nat} {values : Array α}
    (h : updateValuesKKT nz index values = .ok nz') (j : Nat) (hj : j ∉ index.toList) :
    nz'[j]? = nz[j]? := by
  rw [updateValuesKKT_getElem? h j, zip_find_none_of_not_mem hj]

/-- `_update_values_KKT` : without repeated index, position `index[k]` receives `values[k]` -/
theorem updateValuesKKT_write {nz nz' : Array α} {index : Array Nat} {values : Array α}
    (h : updateValuesKKT nz index values = .ok nz') (hnd : index.toList.Nodup)
    (k : Nat) (hk : k < index.size) (hk2 : k < values.size) :
    nz'[index[k]]? = some values[k] := by
  rw [updateValuesKKT_getElem? h]
  cases hf : (index.toList.zip values.toList).reverse.find? (fun p => p.1 == index[k]) with
  | none =>
    have := zip_find_none_getElem_ne hf k (by simpa using hk) (by simpa using hk2)
    simp at this
  | some q =>
    obtain ⟨k', hk1, hk2', hkj, hkq⟩ := zip_find_some hf
    have hkk : k' = k :=
      (List.getElem_inj (h₀ := hk1) (h₁ := by simpa using hk) hnd).1 (by simpa using hkj)
    subst hkk
    simp [← hkq]

-- ------------------------------------------------------------------------------------
-- A. `scaleValuesKKT`

section scale
variable [Mul α]

theorem foldlM_scale_ok (s : α) (site1 site2 : String) :
    ∀ (l : List Nat) (a a' : Array α),
      l.foldlM (fun (a : Array α) i => do
        let v ← getE a i site1
        setE a i (v * s) site2) a = .ok a' →
      a'.size = a.size ∧
      (∀ j, j ∉ l → a'[j]? = a[j]?) ∧
      (l.Nodup → ∀ j, j ∈ l → ∃ x, a[j]? = some x ∧ a'[j]? = some (x * s)) := by
  intro l
  induction l with
  | nil =>
    intro a a' h
    simp only [List.foldlM_nil] at h
    cases h
    simp
  | cons i l ih =>
    intro a a' h
    rw [List.foldlM_cons] at h
    obtain ⟨a1, h1, h⟩ := except_bind_eq_ok h
    obtain ⟨v, hv, h1⟩ := except_bind_eq_ok h1
    have hv' := getE_ok hv
    have hi : i < a.size := (Array.getElem?_eq_some_iff.1 hv').1
    unfold setE at h1
    rw [dif_pos hi] at h1
    cases h1
    obtain ⟨hs, hfr, hsc⟩ := ih _ _ h
    refine ⟨by simpa using hs, ?_, ?_⟩
    · intro j hj
      have hji : i ≠ j := fun e => hj (by simp [e])
      have hjl : j ∉ l := fun e => hj (by simp [e])
      rw [hfr j hjl, Array.getElem?_set_ne hi hji]
    · intro hnd j hj
      obtain ⟨hil, hndl⟩ := List.nodup_cons.1 hnd
      rcases List.mem_cons.1 hj with rfl | hjl
      · refine ⟨v, hv', ?_⟩
        rw [hfr j hil, Array.getElem?_set_self hi]
      · obtain ⟨x, hx1, hx2⟩ := hsc hndl j hjl
        have hne : i ≠ j := fun e => hil (e ▸ hjl)
        refine ⟨x, ?_, hx2⟩
        rw [← hx1, Array.getElem?_set_ne hi hne]

/-- `_scale_values_KKT` preserves the length of `nzval`. -/
theorem scaleValuesKKT_size {nz nz' : Array α} {index : Array Nat} {s : α}
    (h : scaleValuesKKT nz index s = .ok nz') : nz'.size = nz.size :=
  (foldlM_scale_ok _ _ _ _ _ _ h).1

/-- `_scale_values_KKT` : positions outside `index` are not touched -/
theorem scaleValuesKKT_frame {nz nz' : Array α} {index : Array Nat} {s : α}
    (h : scaleValuesKKT nz index s = .ok nz') (j : Nat) (hj : j ∉ index.toList) :
    nz'[j]? = nz[j]? :=
  (foldlM_scale_ok _ _ _ _ _ _ h).2.1 j hj

/-- `_scale_values_KKT` : without repeated index, position `index[k]` is multiplied (on the
right) by the scale -/
theorem scaleValuesKKT_scaled {nz nz' : Array α} {index : Array Nat} {s : α}
    (h : scaleValuesKKT nz index s = .ok nz') (hnd : index.toList.Nodup)
    (k : Nat) (hk : k < index.size) :
    ∃ x, nz[index[k]]? = some x ∧ nz'[index[k]]? = some (x * s) :=
  (foldlM_scale_ok _ _ _ _ _ _ h).2.2 hnd _ (by simp)

/-- write then scale: the combined effect on one position -/
theorem scaleValuesKKT_scaled_of {nz nz' : Array α} {index : Array Nat} {s x : α}
    (h : scaleValuesKKT nz index s = .ok nz') (hnd : index.toList.Nodup)
    (k : Nat) (hk : k < index.size) (hx : nz[index[k]]? = some x) :
    nz'[index[k]]? = some (x * s) := by
  obtain ⟨y, hy1, hy2⟩ := scaleValuesKKT_scaled h hnd k hk
  rw [hx] at hy1
  cases hy1
  exact hy2

end scale

-- ------------------------------------------------------------------------------------
-- B. frame of `updateSparsecone`

/-- all positions of `nzval` a sparse expansion map refers to -/
def SparseMap.indices : SparseMap → List Nat
  | .soc u v D => u.toList ++ v.toList ++ D.toList
  | .genpow p q r D => p.toList ++ q.toList ++ r.toList ++ D.toList

section sparsecone
variable [Mul α] [Neg α] [OfNat α 1] [FloatLike α]

theorem updateSparsecone_soc_inv {nz nz' : Array α} {mu mv mD : Array Nat} {dim : Nat}
    {η d : α} {u v : Array α}
    (h : updateSparsecone nz (.soc mu mv mD) (.socSparse dim η u v d) = .ok nz') :
    ∃ n1 n2 n3 n4,
      updateValuesKKT nz mu u = .ok n1 ∧
      updateValuesKKT n1 mv v = .ok n2 ∧
      scaleValuesKKT n2 mu (-(η * η)) = .ok n3 ∧
      scaleValuesKKT n3 mv (-(η * η)) = .ok n4 ∧
      updateValuesKKT n4 mD #[-(η * η), η * η] = .ok nz' := by
  unfold updateSparsecone at h
  simp only at h
  obtain ⟨n1, h1, h⟩ := except_bind_eq_ok h
  obtain ⟨n2, h2, h⟩ := except_bind_eq_ok h
  obtain ⟨n3, h3, h⟩ := except_bind_eq_ok h
  obtain ⟨n4, h4, h⟩ := except_bind_eq_ok h
  exact ⟨n1, n2, n3, n4, h1, h2, h3, h4, h⟩

theorem updateSparsecone_genpow_inv {nz nz' : Array α} {mp mq mr mD : Array Nat}
    {μ d2 : α} {p q r d1 : Array α}
    (h : updateSparsecone nz (.genpow mp mq mr mD) (.genpow μ p q r d1 d2) = .ok nz') :
    ∃ n1 n2 n3 n4 n5 n6,
      updateValuesKKT nz mq q = .ok n1 ∧
      updateValuesKKT n1 mr r = .ok n2 ∧
      updateValuesKKT n2 mp p = .ok n3 ∧
      scaleValuesKKT n3 mq (-(sqrt μ)) = .ok n4 ∧
      scaleValuesKKT n4 mr (-(sqrt μ)) = .ok n5 ∧
      scaleValuesKKT n5 mp (-(sqrt μ)) = .ok n6 ∧
      updateValuesKKT n6 mD #[-1, -1, 1] = .ok nz' := by
  unfold updateSparsecone at h
  simp only at h
  obtain ⟨n1, h1, h⟩ := except_bind_eq_ok h
  obtain ⟨n2, h2, h⟩ := except_bind_eq_ok h
  obtain ⟨n3, h3, h⟩ := except_bind_eq_ok h
  obtain ⟨n4, h4, h⟩ := except_bind_eq_ok h
  obtain ⟨n5, h5, h⟩ := except_bind_eq_ok h
  obtain ⟨n6, h6, h⟩ := except_bind_eq_ok h
  exact ⟨n1, n2, n3, n4, n5, n6, h1, h2, h3, h4, h5, h6, h⟩

/-- a successful `csc_update_sparsecone` pairs an SOC map with a sparse SOC scaling or a
generalised-power map with a generalised-power scaling -/
theorem updateSparsecone_shape {nz nz' : Array α} {mp : SparseMap} {c : ConeScaling α}
    (h : updateSparsecone nz mp c = .ok nz') :
    (∃ mu mv mD dim η u v d, mp = .soc mu mv mD ∧ c = .socSparse dim η u v d) ∨
    (∃ mp' mq mr mD μ p q r d1 d2, mp = .genpow mp' mq mr mD ∧ c = .genpow μ p q r d1 d2) := by
  cases mp with
  | soc mu mv mD =>
    cases c with
    | socSparse dim η u v d => exact .inl ⟨_, _, _, _, _, _, _, _, rfl, rfl⟩
    | _ => exact absurd h (by simp [updateSparsecone])
  | genpow mp' mq mr mD =>
    cases c with
    | genpow μ p q r d1 d2 => exact .inr ⟨_, _, _, _, _, _, _, _, _, _, rfl, rfl⟩
    | _ => exact absurd h (by simp [updateSparsecone])

/-- **frame**: `csc_update_sparsecone` preserves the length of `nzval` and touches only the
positions listed in its own expansion map. -/
theorem updateSparsecone_frame {nz nz' : Array α} {mp : SparseMap} {c : ConeScaling α}
    (h : updateSparsecone nz mp c = .ok nz') :
    nz'.size = nz.size ∧ ∀ j, j ∉ mp.indices → nz'[j]? = nz[j]? := by
  rcases updateSparsecone_shape h with
    ⟨mu, mv, mD, dim, η, u, v, d, rfl, rfl⟩ | ⟨mp', mq, mr, mD, μ, p, q, r, d1, d2, rfl, rfl⟩
  · obtain ⟨n1, n2, n3, n4, h1, h2, h3, h4, h5⟩ := updateSparsecone_soc_inv h
    refine ⟨?_, fun j hj => ?_⟩
    · rw [updateValuesKKT_size h5, scaleValuesKKT_size h4, scaleValuesKKT_size h3,
        updateValuesKKT_size h2, updateValuesKKT_size h1]
    · simp only [SparseMap.indices, List.mem_append, not_or] at hj
      rw [updateValuesKKT_frame h5 j hj.2, scaleValuesKKT_frame h4 j hj.1.2,
        scaleValuesKKT_frame h3 j hj.1.1, updateValuesKKT_frame h2 j hj.1.2,
        updateValuesKKT_frame h1 j hj.1.1]
  · obtain ⟨n1, n2, n3, n4, n5, n6, h1, h2, h3, h4, h5, h6, h7⟩ :=
      updateSparsecone_genpow_inv h
    refine ⟨?_, fun j hj => ?_⟩
    · rw [updateValuesKKT_size h7, scaleValuesKKT_size h6, scaleValuesKKT_size h5,
        scaleValuesKKT_size h4, updateValuesKKT_size h3, updateValuesKKT_size h2,
        updateValuesKKT_size h1]
    · simp only [SparseMap.indices, List.mem_append, not_or] at hj
      rw [updateValuesKKT_frame h7 j hj.2, scaleValuesKKT_frame h6 j hj.1.1.1,
        scaleValuesKKT_frame h5 j hj.1.2, scaleValuesKKT_frame h4 j hj.1.1.2,
        updateValuesKKT_frame h3 j hj.1.1.1, updateValuesKKT_frame h2 j hj.1.2,
        updateValuesKKT_frame h1 j hj.1.1.2]

-- ------------------------------------------------------------------------------------
-- C. what `updateSparsecone` writes

/-- **SOC expansion entries**: `u`, `v` scaled (on the right) by `-(η·η)` and the diagonal
`[-(η·η), η·η]`. -/
theorem updateSparsecone_soc {nz nz' : Array α} {mu mv mD : Array Nat} {dim : Nat}
    {η d : α} {u v : Array α}
    (h : updateSparsecone nz (.soc mu mv mD) (.socSparse dim η u v d) = .ok nz')
    (hnd : (SparseMap.soc mu mv mD).indices.Nodup)
    (hu : mu.size = u.size) (hv : mv.size = v.size) (hD : mD.size = 2) :
    (∀ k (hk : k < mu.size), nz'[mu[k]]? = some (u[k]'(by omega) * -(η * η))) ∧
    (∀ k (hk : k < mv.size), nz'[mv[k]]? = some (v[k]'(by omega) * -(η * η))) ∧
    nz'[mD[0]'(by omega)]? = some (-(η * η)) ∧
    nz'[mD[1]'(by omega)]? = some (η * η) := by
  obtain ⟨n1, n2, n3, n4, h1, h2, h3, h4, h5⟩ := updateSparsecone_soc_inv h
  simp only [SparseMap.indices, List.nodup_append, List.mem_append] at hnd
  obtain ⟨⟨hndu, hndv, huv⟩, hndD, huvD⟩ := hnd
  refine ⟨fun k hk => ?_, fun k hk => ?_, ?_, ?_⟩
  · have hm : mu[k] ∈ mu.toList := by simp
    have hnv : mu[k] ∉ mv.toList := fun e => huv _ hm _ e rfl
    have hnD : mu[k] ∉ mD.toList := fun e => huvD _ (.inl hm) _ e rfl
    rw [updateValuesKKT_frame h5 _ hnD, scaleValuesKKT_frame h4 _ hnv]
    apply scaleValuesKKT_scaled_of h3 hndu k hk
    rw [updateValuesKKT_frame h2 _ hnv]
    exact updateValuesKKT_write h1 hndu k hk (by omega)
  · have hm : mv[k] ∈ mv.toList := by simp
    have hnu : mv[k] ∉ mu.toList := fun e => huv _ e _ hm rfl
    have hnD : mv[k] ∉ mD.toList := fun e => huvD _ (.inr hm) _ e rfl
    rw [updateValuesKKT_frame h5 _ hnD]
    apply scaleValuesKKT_scaled_of h4 hndv k hk
    rw [scaleValuesKKT_frame h3 _ hnu]
    exact updateValuesKKT_write h2 hndv k hk (by omega)
  · have := updateValuesKKT_write h5 hndD 0 (by omega) (by simp)
    simpa using this
  · have := updateValuesKKT_write h5 hndD 1 (by omega) (by simp)
    simpa using this

/-- **generalised-power expansion entries**: `q`, `r`, `p` scaled (on the right) by `-(√μ)`
and the diagonal `[-1, -1, 1]`. -/
theorem updateSparsecone_genpow {nz nz' : Array α} {mp mq mr mD : Array Nat}
    {μ d2 : α} {p q r d1 : Array α}
    (h : updateSparsecone nz (.genpow mp mq mr mD) (.genpow μ p q r d1 d2) = .ok nz')
    (hnd : (SparseMap.genpow mp mq mr mD).indices.Nodup)
    (hp : mp.size = p.size) (hq : mq.size = q.size) (hr : mr.size = r.size)
    (hD : mD.size = 3) :
    (∀ k (hk : k < mq.size), nz'[mq[k]]? = some (q[k]'(by omega) * -(sqrt μ))) ∧
    (∀ k (hk : k < mr.size), nz'[mr[k]]? = some (r[k]'(by omega) * -(sqrt μ))) ∧
    (∀ k (hk : k < mp.size), nz'[mp[k]]? = some (p[k]'(by omega) * -(sqrt μ))) ∧
    nz'[mD[0]'(by omega)]? = some (-1) ∧
    nz'[mD[1]'(by omega)]? = some (-1) ∧
    nz'[mD[2]'(by omega)]? = some 1 := by
  obtain ⟨n1, n2, n3, n4, n5, n6, h1, h2, h3, h4, h5, h6, h7⟩ :=
    updateSparsecone_genpow_inv h
  simp only [SparseMap.indices, List.nodup_append, List.mem_append] at hnd
  obtain ⟨⟨⟨hndp, hndq, hpq⟩, hndr, hpqr⟩, hndD, hpqrD⟩ := hnd
  refine ⟨fun k hk => ?_, fun k hk => ?_, fun k hk => ?_, ?_, ?_, ?_⟩
  · have hm : mq[k] ∈ mq.toList := by simp
    have hnp : mq[k] ∉ mp.toList := fun e => hpq _ e _ hm rfl
    have hnr : mq[k] ∉ mr.toList := fun e => hpqr _ (.inr hm) _ e rfl
    have hnD : mq[k] ∉ mD.toList := fun e => hpqrD _ (.inl (.inr hm)) _ e rfl
    rw [updateValuesKKT_frame h7 _ hnD, scaleValuesKKT_frame h6 _ hnp,
      scaleValuesKKT_frame h5 _ hnr]
    apply scaleValuesKKT_scaled_of h4 hndq k hk
    rw [updateValuesKKT_frame h3 _ hnp, updateValuesKKT_frame h2 _ hnr]
    exact updateValuesKKT_write h1 hndq k hk (by omega)
  · have hm : mr[k] ∈ mr.toList := by simp
    have hnp : mr[k] ∉ mp.toList := fun e => hpqr _ (.inl e) _ hm rfl
    have hnq : mr[k] ∉ mq.toList := fun e => hpqr _ (.inr e) _ hm rfl
    have hnD : mr[k] ∉ mD.toList := fun e => hpqrD _ (.inr hm) _ e rfl
    rw [updateValuesKKT_frame h7 _ hnD, scaleValuesKKT_frame h6 _ hnp]
    apply scaleValuesKKT_scaled_of h5 hndr k hk
    rw [scaleValuesKKT_frame h4 _ hnq, updateValuesKKT_frame h3 _ hnp]
    exact updateValuesKKT_write h2 hndr k hk (by omega)
  · have hm : mp[k] ∈ mp.toList := by simp
    have hnq : mp[k] ∉ mq.toList := fun e => hpq _ hm _ e rfl
    have hnr : mp[k] ∉ mr.toList := fun e => hpqr _ (.inl hm) _ e rfl
    have hnD : mp[k] ∉ mD.toList := fun e => hpqrD _ (.inl (.inl hm)) _ e rfl
    rw [updateValuesKKT_frame h7 _ hnD]
    apply scaleValuesKKT_scaled_of h6 hndp k hk
    rw [scaleValuesKKT_frame h5 _ hnr, scaleValuesKKT_frame h4 _ hnq]
    exact updateValuesKKT_write h3 hndp k hk (by omega)
  · have := updateValuesKKT_write h7 hndD 0 (by omega) (by simp)
    simpa using this
  · have := updateValuesKKT_write h7 hndD 1 (by omega) (by simp)
    simpa using this
  · have := updateValuesKKT_write h7 hndD 2 (by omega) (by simp)
    simpa using this

-- ------------------------------------------------------------------------------------
-- D. the fold of `updateValues` over the cones

/-- one step of the fold of `updateValues` over the cones -/
def sparseStep (map : LDLDataMap) (st : Array α × Nat) (c : ConeScaling α) :
    MErr (Array α × Nat) := do
  if c.isSparse then
    let thismap ← getE map.sparse_maps st.2 "sparse_map_iter.next().unwrap()"
    let nz ← updateSparsecone st.1 thismap c
    pure (nz, st.2 + 1)
  else pure st

theorem sparseStep_inv {map : LDLDataMap} {st st1 : Array α × Nat} {c : ConeScaling α}
    (h : sparseStep map st c = .ok st1) :
    (c.isSparse = false ∧ st1 = st) ∨
    (c.isSparse = true ∧ ∃ mp nz2, map.sparse_maps[st.2]? = some mp ∧
      updateSparsecone st.1 mp c = .ok nz2 ∧ st1 = (nz2, st.2 + 1)) := by
  unfold sparseStep at h
  cases hc : c.isSparse with
  | false =>
    simp only [hc, Bool.false_eq_true, ↓reduceIte] at h
    cases h
    exact .inl ⟨rfl, rfl⟩
  | true =>
    simp only [hc, ↓reduceIte] at h
    obtain ⟨mp, hmp, h⟩ := except_bind_eq_ok h
    obtain ⟨nz2, hnz2, h⟩ := except_bind_eq_ok h
    cases h
    exact .inr ⟨rfl, mp, nz2, getE_ok hmp, hnz2, rfl⟩

/-- **fold frame**: the fold started at sparse-map index `st.2` preserves the length and
touches only positions listed in a sparse map of index `≥ st.2`. -/
theorem foldlM_sparseStep_frame (map : LDLDataMap) :
    ∀ (cones : List (ConeScaling α)) (st r : Array α × Nat),
      cones.foldlM (sparseStep map) st = .ok r →
      r.1.size = st.1.size ∧
      ∀ j, (∀ m mp, st.2 ≤ m → map.sparse_maps[m]? = some mp → j ∉ mp.indices) →
        r.1[j]? = st.1[j]? := by
  intro cones
  induction cones with
  | nil =>
    intro st r h
    simp only [List.foldlM_nil] at h
    cases h
    exact ⟨rfl, fun _ _ => rfl⟩
  | cons c t ih =>
    intro st r h
    rw [List.foldlM_cons] at h
    obtain ⟨st1, hst1, h⟩ := except_bind_eq_ok h
    obtain ⟨hs, hf⟩ := ih _ _ h
    rcases sparseStep_inv hst1 with ⟨_, rfl⟩ | ⟨_, mp, nz2, hmp, hnz2, rfl⟩
    · exact ⟨hs, hf⟩
    · obtain ⟨hs2, hf2⟩ := updateSparsecone_frame hnz2
      refine ⟨by rw [hs, hs2], fun j hj => ?_⟩
      rw [hf j (fun m mp' hm hmp' => hj m mp' (by simp only at hm; omega) hmp'),
        hf2 j (hj _ _ (Nat.le_refl _) hmp)]

/-- the sparse maps of different index refer to disjoint sets of positions -/
abbrev SparseMapsDisjoint (maps : Array SparseMap) : Prop :=
  ∀ (m1 m2 : Nat) (mp1 mp2 : SparseMap), m1 ≠ m2 → maps[m1]? = some mp1 → maps[m2]? = some mp2 →
    ∀ j ∈ mp1.indices, j ∉ mp2.indices

theorem sparseMapsDisjoint_of_pairwise (maps : Array SparseMap)
    (h : maps.toList.Pairwise (fun a b => ∀ j ∈ a.indices, j ∉ b.indices)) :
    SparseMapsDisjoint maps := by
  intro m1 m2 mp1 mp2 hne h1 h2 j hj1 hj2
  obtain ⟨l1, e1⟩ := Array.getElem?_eq_some_iff.1 h1
  obtain ⟨l2, e2⟩ := Array.getElem?_eq_some_iff.1 h2
  rw [List.pairwise_iff_getElem] at h
  rcases Nat.lt_or_gt_of_ne hne with hlt | hgt
  · have := h m1 m2 (by simpa using l1) (by simpa using l2) hlt
    simp only [Array.getElem_toList, e1, e2] at this
    exact this j hj1 hj2
  · have := h m2 m1 (by simpa using l2) (by simpa using l1) hgt
    simp only [Array.getElem_toList, e1, e2] at this
    exact this j hj2 hj1

/-- **fold entries**: on the positions of the sparse map consumed by the `i`-th sparse cone
the final array is what `csc_update_sparsecone` of that cone produced. -/
theorem foldlM_sparseStep_entries (map : LDLDataMap)
    (hdisj : SparseMapsDisjoint map.sparse_maps) :
    ∀ (cones : List (ConeScaling α)) (st r : Array α × Nat),
      cones.foldlM (sparseStep map) st = .ok r →
      ∀ (i : Nat) (c : ConeScaling α), (cones.filter (fun c => c.isSparse))[i]? = some c →
        ∃ mp a0 b0, map.sparse_maps[st.2 + i]? = some mp ∧
          updateSparsecone a0 mp c = .ok b0 ∧ a0.size = st.1.size ∧
          ∀ j ∈ mp.indices, r.1[j]? = b0[j]? := by
  intro cones
  induction cones with
  | nil =>
    intro st r _ i c hc
    simp at hc
  | cons c0 t ih =>
    intro st r h i c hc
    rw [List.foldlM_cons] at h
    obtain ⟨st1, hst1, ht⟩ := except_bind_eq_ok h
    rcases sparseStep_inv hst1 with ⟨hc0, rfl⟩ | ⟨hc0, mp, nz2, hmp, hnz2, rfl⟩
    · rw [List.filter_cons_of_neg (by simp [hc0])] at hc
      exact ih _ _ ht i c hc
    · rw [List.filter_cons_of_pos (by simp [hc0])] at hc
      cases i with
      | zero =>
        simp only [List.getElem?_cons_zero, Option.some.injEq] at hc
        subst hc
        refine ⟨mp, st.1, nz2, by simpa using hmp, hnz2, rfl, fun j hj => ?_⟩
        refine (foldlM_sparseStep_frame map t _ _ ht).2 j (fun m mp' hm hmp' => ?_)
        simp only at hm
        exact hdisj st.2 m mp mp' (by omega) hmp hmp' j hj
      | succ i =>
        simp only [List.getElem?_cons_succ] at hc
        obtain ⟨mp', a0, b0, h1, h2, h3, h4⟩ := ih _ _ ht i c hc
        have hidx : st.2 + 1 + i = st.2 + (i + 1) := by omega
        simp only [hidx] at h1
        exact ⟨mp', a0, b0, h1, h2, by rw [h3, (updateSparsecone_frame hnz2).1], h4⟩

end sparsecone

section values
variable [Add α] [Sub α] [Mul α] [Neg α] [OfNat α 0] [OfNat α 1] [FloatLike α]

/-- inversion of a successful `updateValues` -/
theorem updateValues_inv {nz nz' : Array α} {map : LDLDataMap} {cones : List (ConeScaling α)}
    (h : updateValues nz map cones = .ok nz') :
    ∃ blocks nz1 r, cones.mapM getHs = .ok blocks ∧
      updateValuesKKT nz map.Hsblocks
        ((blocks.map Array.toList).flatten.toArray.map (fun v => -v)) = .ok nz1 ∧
      cones.foldlM (sparseStep map) (nz1, 0) = .ok r ∧ r.1 = nz' := by
  unfold updateValues at h
  obtain ⟨blocks, hb, h⟩ := except_bind_eq_ok h
  obtain ⟨nz1, h1, h⟩ := except_bind_eq_ok h
  obtain ⟨r, hr, h⟩ := except_bind_eq_ok h
  cases h
  exact ⟨blocks, nz1, r, hb, h1, hr, rfl⟩

/-- **`update` for arbitrary cone lists**: the `Hs` positions receive `−get_Hs` entry for
entry, and nothing outside the `Hs` positions and the sparse expansion maps moves. -/
theorem updateValues_frame_and_Hs (nz nz' : Array α) (map : LDLDataMap)
    (cones : List (ConeScaling α))
    (hnd : map.Hsblocks.toList.Nodup)
    (hdisj : ∀ mp ∈ map.sparse_maps.toList, ∀ j ∈ mp.indices, j ∉ map.Hsblocks.toList)
    (h : updateValues nz map cones = .ok nz') :
    ∃ blocks, cones.mapM getHs = .ok blocks ∧
      nz'.size = nz.size ∧
      (∀ j, j ∉ map.Hsblocks.toList → (∀ mp ∈ map.sparse_maps.toList, j ∉ mp.indices) →
        nz'[j]? = nz[j]?) ∧
      (∀ k (hk : k < map.Hsblocks.size)
         (_ : map.Hsblocks.size ≤ ((blocks.map Array.toList).flatten).length)
         (hk2 : k < ((blocks.map Array.toList).flatten).length),
        nz'[map.Hsblocks[k]]? = some (-((blocks.map Array.toList).flatten)[k])) := by
  obtain ⟨blocks, nz1, r, hb, h1, hr, rfl⟩ := updateValues_inv h
  obtain ⟨hs, hf⟩ := foldlM_sparseStep_frame map cones _ _ hr
  have hmem : ∀ (m : Nat) (mp : SparseMap), map.sparse_maps[m]? = some mp →
      mp ∈ map.sparse_maps.toList := by
    intro m mp hm
    obtain ⟨hlt, he⟩ := Array.getElem?_eq_some_iff.1 hm
    rw [← he]
    simp
  refine ⟨blocks, hb, by rw [hs]; exact updateValuesKKT_size h1, ?_, ?_⟩
  · intro j hj hjs
    rw [hf j (fun m mp _ hm => hjs mp (hmem m mp hm))]
    exact updateValuesKKT_frame h1 j hj
  · intro k hk _ hk2
    have hkm : map.Hsblocks[k] ∈ map.Hsblocks.toList := by simp
    rw [hf _ (fun m mp _ hm hin => hdisj mp (hmem m mp hm) _ hin hkm)]
    generalize (List.map Array.toList blocks).flatten = vals at h1 hk2 ⊢
    have := updateValuesKKT_write h1 hnd k hk (by simpa using hk2)
    rw [this]
    simp

/-- **expansion entries after the whole `update`** (generic form): if the sparse maps refer
to pairwise disjoint sets of positions, then on the positions of the `i`-th sparse map the
result agrees with the output `b0` of `csc_update_sparsecone` run with the `i`-th sparse cone
(on some intermediate array `a0` of the same length). -/
theorem updateValues_sparse_entries (nz nz' : Array α) (map : LDLDataMap)
    (cones : List (ConeScaling α))
    (hdisj : SparseMapsDisjoint map.sparse_maps)
    (h : updateValues nz map cones = .ok nz') :
    ∀ (i : Nat) (c : ConeScaling α), (cones.filter (fun c => c.isSparse))[i]? = some c →
      ∃ mp a0 b0, map.sparse_maps[i]? = some mp ∧
        updateSparsecone a0 mp c = .ok b0 ∧ a0.size = nz.size ∧
        ∀ j ∈ mp.indices, nz'[j]? = b0[j]? := by
  obtain ⟨blocks, nz1, r, hb, h1, hr, rfl⟩ := updateValues_inv h
  intro i c hc
  obtain ⟨mp, a0, b0, h2, h3, h4, h5⟩ :=
    foldlM_sparseStep_entries map hdisj cones _ _ hr i c hc
  exact ⟨mp, a0, b0, by simpa using h2, h3, by rw [h4]; exact updateValuesKKT_size h1, h5⟩

/-- **SOC expansion entries after the whole `update`** -/
theorem updateValues_sparse_entries_soc (nz nz' : Array α) (map : LDLDataMap)
    (cones : List (ConeScaling α))
    (hdisj : SparseMapsDisjoint map.sparse_maps)
    (h : updateValues nz map cones = .ok nz')
    {i dim : Nat} {η d : α} {u v : Array α} {mu mv mD : Array Nat}
    (hc : (cones.filter (fun c => c.isSparse))[i]? = some (.socSparse dim η u v d))
    (hm : map.sparse_maps[i]? = some (.soc mu mv mD))
    (hnd : (SparseMap.soc mu mv mD).indices.Nodup)
    (hu : mu.size = u.size) (hv : mv.size = v.size) (hD : mD.size = 2) :
    (∀ k (hk : k < mu.size), nz'[mu[k]]? = some (u[k]'(by omega) * -(η * η))) ∧
    (∀ k (hk : k < mv.size), nz'[mv[k]]? = some (v[k]'(by omega) * -(η * η))) ∧
    nz'[mD[0]'(by omega)]? = some (-(η * η)) ∧
    nz'[mD[1]'(by omega)]? = some (η * η) := by
  obtain ⟨mp, a0, b0, h2, h3, _, h5⟩ := updateValues_sparse_entries nz nz' map cones hdisj h i _ hc
  rw [hm] at h2
  cases h2
  obtain ⟨c1, c2, c3, c4⟩ := updateSparsecone_soc h3 hnd hu hv hD
  refine ⟨fun k hk => ?_, fun k hk => ?_, ?_, ?_⟩
  · rw [h5 _ (by simp [SparseMap.indices])]; exact c1 k hk
  · rw [h5 _ (by simp [SparseMap.indices])]; exact c2 k hk
  · rw [h5 _ (by simp [SparseMap.indices])]; exact c3
  · rw [h5 _ (by simp [SparseMap.indices])]; exact c4

/-- **generalised-power expansion entries after the whole `update`** -/
theorem updateValues_sparse_entries_genpow (nz nz' : Array α) (map : LDLDataMap)
    (cones : List (ConeScaling α))
    (hdisj : SparseMapsDisjoint map.sparse_maps)
    (h : updateValues nz map cones = .ok nz')
    {i : Nat} {μ d2 : α} {p q r d1 : Array α} {mp mq mr mD : Array Nat}
    (hc : (cones.filter (fun c => c.isSparse))[i]? = some (.genpow μ p q r d1 d2))
    (hm : map.sparse_maps[i]? = some (.genpow mp mq mr mD))
    (hnd : (SparseMap.genpow mp mq mr mD).indices.Nodup)
    (hp : mp.size = p.size) (hq : mq.size = q.size) (hr : mr.size = r.size)
    (hD : mD.size = 3) :
    (∀ k (hk : k < mq.size), nz'[mq[k]]? = some (q[k]'(by omega) * -(sqrt μ))) ∧
    (∀ k (hk : k < mr.size), nz'[mr[k]]? = some (r[k]'(by omega) * -(sqrt μ))) ∧
    (∀ k (hk : k < mp.size), nz'[mp[k]]? = some (p[k]'(by omega) * -(sqrt μ))) ∧
    nz'[mD[0]'(by omega)]? = some (-1) ∧
    nz'[mD[1]'(by omega)]? = some (-1) ∧
    nz'[mD[2]'(by omega)]? = some 1 := by
  obtain ⟨mp0, a0, b0, h2, h3, _, h5⟩ :=
    updateValues_sparse_entries nz nz' map cones hdisj h i _ hc
  rw [hm] at h2
  cases h2
  obtain ⟨c1, c2, c3, c4, c5, c6⟩ := updateSparsecone_genpow h3 hnd hp hq hr hD
  refine ⟨fun k hk => ?_, fun k hk => ?_, fun k hk => ?_, ?_, ?_, ?_⟩
  · rw [h5 _ (by simp [SparseMap.indices])]; exact c1 k hk
  · rw [h5 _ (by simp [SparseMap.indices])]; exact c2 k hk
  · rw [h5 _ (by simp [SparseMap.indices])]; exact c3 k hk
  · rw [h5 _ (by simp [SparseMap.indices])]; exact c4
  · rw [h5 _ (by simp [SparseMap.indices])]; exact c5
  · rw [h5 _ (by simp [SparseMap.indices])]; exact c6

end values

-- non-vacuity / sanity: a toy scalar instance, only to show that the hypotheses of the
-- theorems above are satisfiable (success, `Nodup`, disjointness) on a cone list with a
-- sparse second-order cone and a generalised power cone
@[reducible] private def toyFloatLike' : FloatLike Int where
  sqrt := id
  exp := id
  log := id
  powf := fun a _ => a
  fmax := max
  fmin := min
  fabs := fun a => (a.natAbs : Int)
  isNaN := fun _ => false
  isFinite := fun _ => true
  eps := 0
  ofNat := Int.ofNat

private def toyMap : LDLDataMap :=
  { P := #[], A := #[], Hsblocks := #[0, 1, 2, 3, 4, 5, 6],
    sparse_maps := #[.soc #[7, 8, 9] #[10, 11, 12] #[13, 14],
                     .genpow #[15, 16, 17] #[18, 19] #[20] #[21, 22, 23]],
    diagP := #[], diag_full := #[] }

private def toyCones : List (ConeScaling Int) :=
  [.socSparse 3 2 #[1, 2, 3] #[4, 5, 6] 7, .nonneg #[3],
   .genpow 5 #[1, 2, 3] #[4, 5] #[6] #[7, 8] 9]

example :
    (match @updateValues Int _ _ _ _ _ _ toyFloatLike' (Array.replicate 24 0) toyMap toyCones with
     | .ok nz' => some nz'
     | .error _ => none)
      = some #[-28, -4, -4, -9, -35, -40, -45, -4, -8, -12, -16, -20, -24, -4, 4,
               -5, -10, -15, -20, -25, -30, -1, -1, 1] := by
  decide +kernel

example : toyMap.Hsblocks.toList.Nodup ∧
    (∀ mp ∈ toyMap.sparse_maps.toList, ∀ j ∈ mp.indices, j ∉ toyMap.Hsblocks.toList) ∧
    (∀ mp ∈ toyMap.sparse_maps.toList, mp.indices.Nodup) ∧
    SparseMapsDisjoint toyMap.sparse_maps :=
  ⟨by decide, by decide, by decide, sparseMapsDisjoint_of_pairwise _ (by decide)⟩

end Clarabel.Kkt
