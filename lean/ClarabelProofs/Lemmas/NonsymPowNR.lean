/-
  Power cone (C14): the scalar solve `_newton_raphson_powcone`.

  * closed form of the target:  f0(x) = 2a·log(A/a) + 2(1-a)·log(B/(1-a)) - log φ - log(x² + 2x/s)
    with  A = a·xs + 1 + a,  B = (1-a)·xs + 2 - a;
  * `f1 < 0` on `x > 0` (the target is strictly decreasing);
  * the family of start points  x_ψ = -1/s + (ψs + √((φ/s² + ψ² - 1)φ))/(φ - s²)  solves
    φ·(x² + 2x/s) = (xs + 1 + ψ)²;  the code used ψ = 2 before /repo 54b486f and uses ψ = 1/(a²+(1-a)²) since;
  * weighted AM–GM:  f0(x₂) ≤ 0 for every a ∈ (0,1): the PRE-FIX start (before /repo 54b486f) is
    never left of the root (finding NR-START-RIGHT-OF-ROOT), so the loop returned it unrefined;
  * ψ = 1 (x₁ = 2s/(φ - s²)) gives f0(x₁) ≥ 0: a start that is provably left of the root.
-/
import ClarabelProofs.Lemmas.NonsymPowConj
import Mathlib.Analysis.MeanInequalities

namespace Clarabel.Pow
open Clarabel Nonsym

/-- the start-point family; `ψ = 2` is the PRE-FIX start `nrX0Old`, `ψ = 1/(a²+(1-a)²)` the code's `nrX0` -/
noncomputable def nrStart (ψ s3 phi : ℝ) : ℝ :=
  (-(1 / s3)) + (ψ * s3 + Real.sqrt ((phi / s3 / s3 + ψ * ψ - 1) * phi)) / (phi - s3 * s3)

theorem nrX0Old_eq_start (s3 phi : ℝ) : nrX0Old s3 phi = nrStart 2 s3 phi := by
  unfold nrX0Old nrStart
  simp only [recip, real_sqrt_eq]
  have e : phi * phi / (s3 * s3) + phi * 3 = (phi / s3 / s3 + 2 * 2 - 1) * phi := by
    by_cases h : s3 = 0
    · subst h; simp; ring
    · field_simp; ring
  rw [e]
  ring

/-- the start `x_ψ` is positive and solves `φ (x² + 2x/s) = (xs + 1 + ψ)²` -/
theorem nrStart_spec {ψ s3 phi : ℝ} (hψ : 1 ≤ ψ) (h3 : 0 < s3) (hphi : s3 * s3 < phi) :
    0 < nrStart ψ s3 phi ∧
    phi * (nrStart ψ s3 phi * nrStart ψ s3 phi + nrStart ψ s3 phi * 2 / s3)
      = (nrStart ψ s3 phi * s3 + 1 + ψ) ^ 2 := by
  have hφ : 0 < phi := lt_trans (mul_pos h3 h3) hphi
  have hD : 0 < phi - s3 * s3 := by linarith
  have hX : 0 ≤ (phi / s3 / s3 + ψ * ψ - 1) * phi := by
    have : 0 ≤ phi / s3 / s3 := by positivity
    have : 0 ≤ ψ * ψ - 1 := by nlinarith
    exact mul_nonneg (by linarith) hφ.le
  have hR2 := Real.mul_self_sqrt hX
  have hRlow : phi / s3 ≤ Real.sqrt ((phi / s3 / s3 + ψ * ψ - 1) * phi) := by
    apply Real.le_sqrt_of_sq_le
    have e : (phi / s3) ^ 2 = phi / s3 / s3 * phi := by field_simp
    rw [e]
    have : 0 ≤ (ψ * ψ - 1) * phi := mul_nonneg (by nlinarith) hφ.le
    nlinarith
  unfold nrStart
  generalize Real.sqrt ((phi / s3 / s3 + ψ * ψ - 1) * phi) = R at *
  have n3 : s3 ≠ 0 := ne_of_gt h3
  have nD : phi - s3 * s3 ≠ 0 := ne_of_gt hD
  have hsR : phi ≤ s3 * R := by
    have := mul_le_mul_of_nonneg_left hRlow h3.le
    have e : s3 * (phi / s3) = phi := by field_simp
    linarith
  have hR2' : s3 * s3 * (R * R) = phi * phi + (ψ * ψ - 1) * phi * (s3 * s3) := by
    rw [hR2]; field_simp; ring
  constructor
  · have : 1 / s3 < (ψ * s3 + R) / (phi - s3 * s3) := by
      rw [div_lt_div_iff₀ h3 hD]
      nlinarith
    linarith
  · obtain ⟨D, rfl⟩ : ∃ D, phi = D + s3 * s3 := ⟨phi - s3 * s3, by ring⟩
    have eD : D + s3 * s3 - s3 * s3 = D := by ring
    rw [eD] at hD nD ⊢
    field_simp
    linear_combination D * hR2'

/-! ### closed form of the target -/

/-- `f0` on `x > 0`, logs combined -/
theorem nrF0_eq {a s3 phi x : ℝ} (ha0 : 0 < a) (ha1 : a < 1) (h3 : 0 < s3) (hphi : 0 < phi) (hx : 0 < x) :
    nrF0 s3 phi a x =
      2 * a * Real.log ((a * (x * s3) + 1 + a) / a)
        + 2 * (1 - a) * Real.log (((1 - a) * (x * s3) + 2 - a) / (1 - a))
        - Real.log phi - Real.log (x * x + x * 2 / s3) := by
  have h1a : 0 < 1 - a := by linarith
  have hy : 0 < x * s3 := mul_pos hx h3
  have hA : 0 < a * (x * s3) + 1 + a := by positivity
  have hB : 0 < (1 - a) * (x * s3) + 2 - a := by nlinarith
  have ht2 : 0 < x * 2 / s3 := by positivity
  have ht1 : 0 < x * x := by positivity
  have n3 : s3 ≠ 0 := ne_of_gt h3
  have E1 : 2 * a * (x * x) + (1 + a) * (x * 2 / s3) = (x * 2 / s3) * (a * (x * s3) + 1 + a) := by
    field_simp; ring
  have E2 : 2 * (1 - a) * (x * x) + (2 - a) * (x * 2 / s3) = (x * 2 / s3) * ((1 - a) * (x * s3) + 2 - a) := by
    field_simp; ring
  unfold nrF0 nrT0
  simp only
  rw [E1, E2, logsafe_of_pos (mul_pos ht2 hA), logsafe_of_pos (mul_pos ht2 hB),
    logsafe_of_pos hphi, logsafe_of_pos (add_pos ht1 ht2), logsafe_of_pos ht2,
    logsafe_of_pos ha0, logsafe_of_pos h1a,
    Real.log_mul (ne_of_gt ht2) (ne_of_gt hA), Real.log_mul (ne_of_gt ht2) (ne_of_gt hB),
    Real.log_div (ne_of_gt hA) (ne_of_gt ha0), Real.log_div (ne_of_gt hB) (ne_of_gt h1a)]
  ring

/-- weighted AM–GM in logarithmic form -/
theorem log_amgm {a p q : ℝ} (ha0 : 0 < a) (ha1 : a < 1) (hp : 0 < p) (hq : 0 < q) :
    a * Real.log p + (1 - a) * Real.log q ≤ Real.log (a * p + (1 - a) * q) := by
  have h1a : 0 < 1 - a := by linarith
  have h := Real.geom_mean_le_arith_mean2_weighted ha0.le h1a.le hp.le hq.le (by ring)
  have hpos : 0 < p ^ a * q ^ (1 - a) := mul_pos (Real.rpow_pos_of_pos hp _) (Real.rpow_pos_of_pos hq _)
  have := Real.log_le_log hpos h
  rw [Real.log_mul (ne_of_gt (Real.rpow_pos_of_pos hp _)) (ne_of_gt (Real.rpow_pos_of_pos hq _)),
    Real.log_rpow hp, Real.log_rpow hq] at this
  exact this

/-- upper bound (weighted AM–GM, equality iff `a = 1/2`): `f0(x) ≤ 2 log(xs+3) - log φ - log(x²+2x/s)` -/
theorem nrF0_le {a s3 phi x : ℝ} (ha0 : 0 < a) (ha1 : a < 1) (h3 : 0 < s3) (hphi : 0 < phi) (hx : 0 < x) :
    nrF0 s3 phi a x ≤ 2 * Real.log (x * s3 + 3) - Real.log phi - Real.log (x * x + x * 2 / s3) := by
  have h1a : 0 < 1 - a := by linarith
  have hy : 0 < x * s3 := mul_pos hx h3
  have hA : 0 < a * (x * s3) + 1 + a := by positivity
  have hB : 0 < (1 - a) * (x * s3) + 2 - a := by nlinarith
  rw [nrF0_eq ha0 ha1 h3 hphi hx]
  have h := log_amgm ha0 ha1 (div_pos hA ha0) (div_pos hB h1a)
  have e : a * ((a * (x * s3) + 1 + a) / a) + (1 - a) * (((1 - a) * (x * s3) + 2 - a) / (1 - a)) = x * s3 + 3 := by
    have : a ≠ 0 := ne_of_gt ha0
    have : 1 - a ≠ 0 := ne_of_gt h1a
    field_simp; ring
  rw [e] at h
  linarith

/-- lower bound (both arguments exceed `xs + 2`): `f0(x) ≥ 2 log(xs+2) - log φ - log(x²+2x/s)` -/
theorem nrF0_ge {a s3 phi x : ℝ} (ha0 : 0 < a) (ha1 : a < 1) (h3 : 0 < s3) (hphi : 0 < phi) (hx : 0 < x) :
    2 * Real.log (x * s3 + 2) - Real.log phi - Real.log (x * x + x * 2 / s3) ≤ nrF0 s3 phi a x := by
  have h1a : 0 < 1 - a := by linarith
  have hy : 0 < x * s3 := mul_pos hx h3
  have hy2 : 0 < x * s3 + 2 := by linarith
  rw [nrF0_eq ha0 ha1 h3 hphi hx]
  have l1 : Real.log (x * s3 + 2) ≤ Real.log ((a * (x * s3) + 1 + a) / a) := by
    apply Real.log_le_log hy2
    rw [le_div_iff₀ ha0]; nlinarith
  have l2 : Real.log (x * s3 + 2) ≤ Real.log (((1 - a) * (x * s3) + 2 - a) / (1 - a)) := by
    apply Real.log_le_log hy2
    rw [le_div_iff₀ h1a]; nlinarith
  have m1 := mul_le_mul_of_nonneg_left l1 (by linarith : 0 ≤ 2 * a)
  have m2 := mul_le_mul_of_nonneg_left l2 (by linarith : 0 ≤ 2 * (1 - a))
  linarith

/-- value of `log φ + log(x²+2x/s)` at the start `x_ψ` -/
theorem log_at_start {ψ s3 phi : ℝ} (hψ : 1 ≤ ψ) (h3 : 0 < s3) (hphi : s3 * s3 < phi) :
    Real.log phi + Real.log (nrStart ψ s3 phi * nrStart ψ s3 phi + nrStart ψ s3 phi * 2 / s3)
      = 2 * Real.log (nrStart ψ s3 phi * s3 + 1 + ψ) := by
  obtain ⟨hx, hq⟩ := nrStart_spec hψ h3 hphi
  have hφ : 0 < phi := lt_trans (mul_pos h3 h3) hphi
  have hpos : 0 < nrStart ψ s3 phi * nrStart ψ s3 phi + nrStart ψ s3 phi * 2 / s3 := by positivity
  rw [← Real.log_mul (ne_of_gt hφ) (ne_of_gt hpos), hq, Real.log_pow]
  norm_num

/-- **NR-START-RIGHT-OF-ROOT** (all parameters): at the code's start `x0 = nrX0Old s₃ φ` the target is
non-positive, for every exponent `a ∈ (0,1)` and every interior point (`0 < s₃`, `s₃² < φ`). -/
theorem nrF0_start_nonpos {a s3 phi : ℝ} (ha0 : 0 < a) (ha1 : a < 1) (h3 : 0 < s3) (hphi : s3 * s3 < phi) :
    0 < nrX0Old s3 phi ∧ nrF0 s3 phi a (nrX0Old s3 phi) ≤ 0 := by
  rw [nrX0Old_eq_start]
  have hφ : 0 < phi := lt_trans (mul_pos h3 h3) hphi
  obtain ⟨hx, -⟩ := nrStart_spec (by norm_num : (1 : ℝ) ≤ 2) h3 hphi
  refine ⟨hx, ?_⟩
  have h := nrF0_le ha0 ha1 h3 hφ hx
  have hl := log_at_start (by norm_num : (1 : ℝ) ≤ 2) h3 hphi
  have e : nrStart 2 s3 phi * s3 + 1 + 2 = nrStart 2 s3 phi * s3 + 3 := by ring
  rw [e] at hl
  linarith

/-- the simple start `x₁ = 2s₃/(φ - s₃²)` -/
theorem nrStart_one (s3 phi : ℝ) (h3 : 0 < s3) (hphi : s3 * s3 < phi) :
    nrStart 1 s3 phi = 2 * s3 / (phi - s3 * s3) := by
  have hφ : 0 < phi := lt_trans (mul_pos h3 h3) hphi
  unfold nrStart
  have e : (phi / s3 / s3 + 1 * 1 - 1) * phi = (phi / s3) * (phi / s3) := by
    field_simp; ring
  rw [e, Real.sqrt_mul_self (by positivity)]
  have n3 : s3 ≠ 0 := ne_of_gt h3
  obtain ⟨D, rfl⟩ : ∃ D, phi = D + s3 * s3 := ⟨phi - s3 * s3, by ring⟩
  have eD : D + s3 * s3 - s3 * s3 = D := by ring
  rw [eD]
  have nD : D ≠ 0 := by
    have : 0 < D := by linarith
    exact ne_of_gt this
  field_simp
  ring

/-- a provably one-sided start: at `x₁ = 2s₃/(φ - s₃²)` the target is non-negative for every
`a ∈ (0,1)`, so (the target being strictly decreasing) `x₁` is left of the root. -/
theorem nrF0_left_start_nonneg {a s3 phi : ℝ} (ha0 : 0 < a) (ha1 : a < 1) (h3 : 0 < s3) (hphi : s3 * s3 < phi) :
    0 < 2 * s3 / (phi - s3 * s3) ∧ 0 ≤ nrF0 s3 phi a (2 * s3 / (phi - s3 * s3)) := by
  rw [← nrStart_one s3 phi h3 hphi]
  have hφ : 0 < phi := lt_trans (mul_pos h3 h3) hphi
  obtain ⟨hx, -⟩ := nrStart_spec (le_refl (1 : ℝ)) h3 hphi
  refine ⟨hx, ?_⟩
  have h := nrF0_ge ha0 ha1 h3 hφ hx
  have hl := log_at_start (le_refl (1 : ℝ)) h3 hphi
  have e : nrStart 1 s3 phi * s3 + 1 + 1 = nrStart 1 s3 phi * s3 + 2 := by ring
  rw [e] at hl
  linarith

/-! ### the derivative `f1` is negative -/

theorem nrF1_neg {a s3 x : ℝ} (ha0 : 0 < a) (ha1 : a < 1) (h3 : 0 < s3) (hx : 0 < x) :
    nrF1 s3 a x < 0 := by
  have h1a : 0 < 1 - a := by linarith
  have hy : 0 < x * s3 := mul_pos hx h3
  have n3 : s3 ≠ 0 := ne_of_gt h3
  have hA : 0 < a * x + (1 + a) / s3 := by positivity
  have hB : 0 < (1 - a) * x + (2 - a) / s3 := by
    have : 0 < (2 - a) / s3 := div_pos (by linarith) h3
    have : 0 < (1 - a) * x := mul_pos h1a hx
    linarith
  have hC : 0 < x * x + 2 * x / s3 := by positivity
  have hy2 : 0 < x * s3 + 2 := by linarith
  unfold nrF1
  simp only [recip]
  have t1 : a * a * 2 / (a * x + (1 + a) / s3) ≤ 2 * a * s3 / (x * s3 + 2) := by
    rw [div_le_div_iff₀ hA hy2]
    have e : 2 * a * s3 * (a * x + (1 + a) / s3) = 2 * a * (a * (x * s3) + 1 + a) := by
      field_simp; ring
    rw [e]
    nlinarith
  have t2 : (1 - a) * 2 * (1 - a) / ((1 - a) * x + (2 - a) / s3) ≤ 2 * (1 - a) * s3 / (x * s3 + 2) := by
    rw [div_le_div_iff₀ hB hy2]
    have e : 2 * (1 - a) * s3 * ((1 - a) * x + (2 - a) / s3) = 2 * (1 - a) * ((1 - a) * (x * s3) + 2 - a) := by
      field_simp; ring
    rw [e]
    nlinarith
  have t3 : 2 * s3 / (x * s3 + 2) < (x + 1 / s3) * 2 / (x * x + 2 * x / s3) := by
    rw [div_lt_div_iff₀ hy2 hC]
    have e1 : 2 * s3 * (x * x + 2 * x / s3) = 2 * (x * (x * s3) + 2 * x) := by field_simp
    have e2 : (x + 1 / s3) * 2 * (x * s3 + 2) = 2 * (x * (x * s3) + 3 * x + 2 / s3) := by
      field_simp; ring
    rw [e1, e2]
    have : 0 < 2 / s3 := by positivity
    nlinarith
  have e : 2 * a * s3 / (x * s3 + 2) + 2 * (1 - a) * s3 / (x * s3 + 2) = 2 * s3 / (x * s3 + 2) := by
    rw [← add_div]; congr 1; ring
  linarith

/-- `f1` is the derivative of `f0` on `x > 0` -/
theorem nrF0_hasDerivAt {a s3 phi x : ℝ} (ha0 : 0 < a) (ha1 : a < 1) (h3 : 0 < s3) (hx : 0 < x) :
    HasDerivAt (nrF0 s3 phi a) (nrF1 s3 a x) x := by
  have h1a : 0 < 1 - a := by linarith
  have n3 : s3 ≠ 0 := ne_of_gt h3
  have nx : x ≠ 0 := ne_of_gt hx
  have hT1 : HasDerivAt (fun t : ℝ => t * t) (2 * x) x := by
    have := (hasDerivAt_id x).mul (hasDerivAt_id x)
    refine this.congr_deriv ?_
    simp only [id_eq]; ring
  have hT2 : HasDerivAt (fun t : ℝ => t * 2 / s3) (2 / s3) x := by
    have := ((hasDerivAt_id x).mul_const (2 : ℝ)).div_const s3
    refine this.congr_deriv ?_
    simp
  have p2 : 0 < x * 2 / s3 := by positivity
  have p1 : 0 < x * x := by positivity
  have pA : 0 < 2 * a * (x * x) + (1 + a) * (x * 2 / s3) := by positivity
  have pB : 0 < 2 * (1 - a) * (x * x) + (2 - a) * (x * 2 / s3) := by
    have : 0 < 2 - a := by linarith
    positivity
  have pC : 0 < x * x + x * 2 / s3 := by positivity
  have dA := ((hT1.const_mul (2 * a)).add (hT2.const_mul (1 + a))).logsafe pA
  have dB := ((hT1.const_mul (2 * (1 - a))).add (hT2.const_mul (2 - a))).logsafe pB
  have dC := (hT1.add hT2).logsafe pC
  have dT := hT2.logsafe p2
  have hd := (((((dA.const_mul (2 * a)).add (dB.const_mul (2 * (1 - a)))).sub_const (logsafe phi)).sub dC).sub
    (dT.const_mul 2)).add_const (nrT0 a)
  unfold nrF0
  refine hd.congr_deriv ?_
  unfold nrF1
  simp only [recip, Pi.add_apply]
  have hA : a * x + (1 + a) / s3 ≠ 0 := by
    have : 0 < a * x + (1 + a) / s3 := by positivity
    exact ne_of_gt this
  have hB : (1 - a) * x + (2 - a) / s3 ≠ 0 := by
    have : 0 < (2 - a) / s3 := div_pos (by linarith) h3
    have : 0 < (1 - a) * x := mul_pos h1a hx
    have : 0 < (1 - a) * x + (2 - a) / s3 := by linarith
    exact ne_of_gt this
  have e1 : (2 * a * (2 * x) + (1 + a) * (2 / s3)) / (2 * a * (x * x) + (1 + a) * (x * 2 / s3))
      = 1 / x + a / (a * x + (1 + a) / s3) := by
    have : 2 * a * (x * x) + (1 + a) * (x * 2 / s3) = 2 * x * (a * x + (1 + a) / s3) := by ring
    rw [this, div_add_div _ _ nx hA, div_eq_div_iff (by positivity) (mul_ne_zero nx hA)]
    ring
  have e2 : (2 * (1 - a) * (2 * x) + (2 - a) * (2 / s3)) / (2 * (1 - a) * (x * x) + (2 - a) * (x * 2 / s3))
      = 1 / x + (1 - a) / ((1 - a) * x + (2 - a) / s3) := by
    have : 2 * (1 - a) * (x * x) + (2 - a) * (x * 2 / s3) = 2 * x * ((1 - a) * x + (2 - a) / s3) := by ring
    rw [this, div_add_div _ _ nx hB, div_eq_div_iff (mul_ne_zero (by positivity) hB) (mul_ne_zero nx hB)]
    ring
  have e3 : 2 / s3 / (x * 2 / s3) = 1 / x := by field_simp
  have e4 : (2 * x + 2 / s3) / (x * x + x * 2 / s3) = (x + 1 / s3) * 2 / (x * x + 2 * x / s3) := by
    congr 1 <;> ring
  rw [e1, e2, e3, e4]
  ring

end Clarabel.Pow
