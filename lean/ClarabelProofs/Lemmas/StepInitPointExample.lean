/-
  A concrete run of `default_start()` / `solve_initial_point` of the whole-solver model that the
  kernel can evaluate (scalar type `Int`, as in `SolverModelExample.lean`): non-vacuity of the
  structural theorems of `StepInitPoint.lean`, and the evidence that the success hypotheses of the
  exactness theorems are satisfiable (QDLDL with the ordering `[1, 0]` pivots on `−1` then `1`, so
  the integer solves are exact).

  minimise `3x` subject to `x + s = 4`, `s ≥ 0`:  first solve `[0 1; 1 −1][x; y] = [0; 4]` gives
  `x = 4`, `y = 0`, `s = −y = 0`; second solve `[0 1; 1 −1][x'; z] = [−3; 0]` gives `z = −3`.
-/
import ClarabelProofs.Lemmas.StepInitPoint
import ClarabelProofs.Lemmas.SolverModelExample

namespace Clarabel.Solver.InitExample
open Clarabel Clarabel.Solver Clarabel.Solver.Example

attribute [local instance] intFloatLike

def A1 : Csc Int := { m := 1, n := 1, colptr := #[0, 1], rowval := #[0], nzval := #[1] }

/-- `DefaultSolver::new` on the example (AMD ordering `[1, 0]`) -/
def newSolver : MErr (Solver Int) := Solver.new Example.P #[3] A1 #[4] [.nonneg 1] (st 3) #[1, 0]

/-- the KKT system after `set_identity_scaling` + `kktsystem.update` -/
def kk1 : MErr (SolverSt Int × Bool × KktSys Int) := do
  let S ← newSolver
  let r ← S.st.kktsystem.update S.st.data (setIdentityScaling S.st.cones) (st 3).lin
  pure (S.st, r)

/-- `solve_initial_point` on it -/
def ip : MErr (Bool × Residuals.Vars Int × KktSys Int) := do
  let r ← kk1
  r.2.2.solveInitialPoint r.1.variables r.1.data (st 3).lin

/-- `default_start()` -/
def ds : MErr (SolverSt Int) := do
  let S ← newSolver
  S.st.defaultStart (st 3)

/-- both solves succeed; `x = 4`, `s = 0`, `z = −3`; `P` stores nothing (LP branch) -/
theorem ip_val : ip.toOption.map (fun r => (r.1, r.2.1.x, r.2.1.s, r.2.1.z, r.2.1.τ, r.2.1.κ))
    = some (true, #[4], #[0], #[-3], 1, 1) := by decide +kernel

theorem lp_branch : kk1.toOption.map (fun r => r.1.data.P.nnz == 0) = some true := by decide +kernel

/-- `default_start()` shifts `(s, z)` into the cone and sets `τ = κ = 1` -/
theorem ds_val : ds.toOption.map (fun S => (S.variables.x, S.variables.s, S.variables.z, S.variables.τ,
    S.variables.κ)) = some (#[4], #[1], #[1], 1, 1) := by decide +kernel

/-- the run as an existence statement: a KKT system, variables and data on which the LP branch of
`solve_initial_point` returns `true` with `x = 4`, `s = 0`, `z = −3` -/
theorem ip_exists : ∃ (S : KktSys Int) (vars : Residuals.Vars Int) (data : ProblemData Int)
    (v' : Residuals.Vars Int) (S' : KktSys Int), (data.P.nnz == 0) = true
      ∧ S.solveInitialPoint vars data (st 3).lin = .ok (true, v', S')
      ∧ v'.x = #[4] ∧ v'.s = #[0] ∧ v'.z = #[-3] := by
  have h := ip_val
  have hb := lp_branch
  unfold ip at h
  cases hk : kk1 with
  | error e => rw [hk] at h; cases h
  | ok r0 =>
    rw [hk] at h hb
    simp only [bind, Except.bind] at h
    cases hr : r0.2.2.solveInitialPoint r0.1.variables r0.1.data (st 3).lin with
    | error e => rw [hr] at h; cases h
    | ok r =>
      rw [hr] at h
      simp only [Except.toOption, Option.map_some, Option.some.injEq, Prod.mk.injEq] at h hb
      obtain ⟨h1, h2, h3, h4, _, _⟩ := h
      obtain ⟨ok, v', S'⟩ := r
      dsimp only at h1 h2 h3 h4
      subst h1
      exact ⟨r0.2.2, r0.1.variables, r0.1.data, v', S', hb, hr, h2, h3, h4⟩

/-- `default_start()` returns on the example -/
theorem ds_exists : ∃ (S S0 : SolverSt Int), S.defaultStart (st 3) = .ok S0 ∧ S0.variables.τ = 1 := by
  have h := ds_val
  unfold ds at h
  cases hk : newSolver with
  | error e => rw [hk] at h; cases h
  | ok S =>
    rw [hk] at h
    simp only [bind, Except.bind] at h
    cases hr : S.st.defaultStart (st 3) with
    | error e => rw [hr] at h; cases h
    | ok S0 =>
      rw [hr] at h
      simp only [Except.toOption, Option.map_some, Option.some.injEq, Prod.mk.injEq] at h
      exact ⟨S.st, S0, hr, h.2.2.2.1⟩

/-- the first pass of the loop after `default_start()` -/
def p1 : MErr (Bool × LoopSt Int) := do
  let S0 ← ds
  pass (st 3) { S := S0, iter := 0, sigma := 1, alpha := 0, mu := 0, traj := [] }

/-- it is accepted (falls through to `add_step`) -/
theorem p1_val : p1.toOption.map (fun r => r.1) = some true := by decide +kernel

theorem pass_exists : ∃ (L L' : LoopSt Int), pass (st 3) L = .ok (true, L') := by
  have h := p1_val
  unfold p1 at h
  cases hk : ds with
  | error e => rw [hk] at h; cases h
  | ok S0 =>
    rw [hk] at h
    simp only [bind, Except.bind] at h
    cases hr : pass (st 3) { S := S0, iter := 0, sigma := 1, alpha := 0, mu := 0, traj := [] } with
    | error e => rw [hr] at h; cases h
    | ok r =>
      rw [hr] at h
      simp only [Except.toOption, Option.map_some, Option.some.injEq] at h
      obtain ⟨c, L'⟩ := r
      dsimp only at h
      subst h
      exact ⟨_, L', hr⟩

end Clarabel.Solver.InitExample
