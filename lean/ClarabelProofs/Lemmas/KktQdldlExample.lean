/-
  Non-vacuity data for `C11.kkt_factorisation_signs`: `K = [[2, 1], [1, −3]]` (upper triangle in
  CSC), the regularised KKT matrix `[[P+ε, A],[A, −(H+ε)]]` with `P = A = 1`, `H = 2`, `ε = 1`,
  `dsigns = [+1, −1]`, the reversed ordering `perm = [1, 0]`.
-/
import ClarabelProofs.Lemmas.KktQdldlSigns
import Mathlib.Tactic.FinCases

namespace Clarabel.Lemmas.KktQdldlExample
open Clarabel Clarabel.Qdldl
open Clarabel.Lemmas.KktInertia Clarabel.Lemmas.KktInertiaList

/-- `[[2, 1], [·, −3]]` -/
noncomputable def exK2 : Csc ℝ := ⟨2, 2, #[0, 1, 3], #[0, 0, 1], #[2, 1, -3]⟩

def exS2 : Fin 2 → Bool := fun i => decide (i.val = 0)

theorem exK2_nodup : NoDupCols (#[0, 1, 3] : Array Nat) #[0, 0, 1] := by
  intro k t t' h1 h2 h1' h2' heq
  rcases Nat.lt_or_ge k 2 with hk | hk
  · rcases (by omega : k = 0 ∨ k = 1) with rfl | rfl
    · have a2 : t < 1 := h2
      have b2 : t' < 1 := h2'
      omega
    · have a1 : 1 ≤ t := h1
      have a2 : t < 3 := h2
      have b1 : 1 ≤ t' := h1'
      have b2 : t' < 3 := h2'
      rcases (by omega : t = 1 ∨ t = 2) with rfl | rfl <;>
        rcases (by omega : t' = 1 ∨ t' = 2) with rfl | rfl
      · rfl
      · exact absurd heq (by decide)
      · exact absurd heq (by decide)
      · rfl
  · have : (#[0, 1, 3] : Array Nat).getD (k + 1) 0 = 0 := by
      rw [Array.getD_eq_getD_getElem?, Array.getElem?_eq_none (by simp; omega)]; rfl
    omega

theorem exK2_wellFormed : wellFormed exK2 = true := by
  unfold exK2; decide

theorem exK2_checkStructure : checkStructure exK2 = .ok () := by
  unfold exK2; rfl

theorem exK2_represents :
    Represents 2 #[0, 1, 3] #[0, 0, 1] (#[2, 1, -3] : Array ℝ)
      (denseOf #[0, 1, 3] #[0, 0, 1] (#[2, 1, -3] : Array ℝ)) :=
  represents_denseOf 2 _ _ _ rfl exK2_nodup

theorem exK2_00 : symOf exK2 0 0 = 2 :=
  (exK2_represents.stored 0 (by omega) 0 (by decide) (by decide)).symm

theorem exK2_01 : symOf exK2 0 1 = 1 :=
  (exK2_represents.stored 1 (by omega) 1 (by decide) (by decide)).symm

theorem exK2_10 : symOf exK2 1 0 = 1 := by rw [symOf_comm]; exact exK2_01

theorem exK2_11 : symOf exK2 1 1 = -3 :=
  (exK2_represents.stored 1 (by omega) 2 (by decide) (by decide)).symm

theorem exK2_quasiDefGE :
    QuasiDefGE (fun i j : Fin 2 => symOf exK2 i.val j.val) exS2 Finset.univ 1 := by
  refine ⟨fun i j => symOf_comm _ _ _, ?_, ?_⟩
  · intro x hx
    have h1 : x 1 = 0 := by
      by_contra hne; have := (hx 1 hne).2; simp [exS2] at this
    simp only [qf, nsq, Fin.sum_univ_two, Fin.val_zero, Fin.val_one, exK2_00, exK2_01, exK2_10,
      exK2_11, h1]
    nlinarith [sq_nonneg (x 0)]
  · intro x hx
    have h0 : x 0 = 0 := by
      by_contra hne; have := (hx 0 hne).2; simp [exS2] at this
    simp only [qf, nsq, Fin.sum_univ_two, Fin.val_zero, Fin.val_one, exK2_00, exK2_01, exK2_10,
      exK2_11, h0]
    nlinarith [sq_nonneg (x 1)]

theorem exK2_dsigns (i : Fin 2) : (#[1, -1] : Array Int).getD i.val 0 = if exS2 i then 1 else -1 := by
  fin_cases i <;> rfl

theorem exK2_invperm : Perm.invperm #[1, 0] = .ok #[1, 0] := by rfl

end Clarabel.Lemmas.KktQdldlExample
