/-
  Panic-freedom of the whole-solver model (C04) — `DefaultSolver::new` establishes the invariant
  of `solve()`, and the end-to-end statements.

  The linear-solver stage enters through two explicit interfaces (discharged for the QDLDL
  backend in `SolverModelNoPanicKkt*.lean`):
  * `KktNew KIw st perm`   : `KktSolver.new` on well-formed internal data returns `.ok` and
                             establishes `KIw specs n m`;
  * `KktTotal2 (KIw …) (KIs …) …` : `update`, `setrhs; solve` are total and keep the invariants.

  All structural ([S]).
-/
import ClarabelProofs.Lemmas.SolverModelNoPanicAll
import ClarabelProofs.Lemmas.SolverModelNoPanicNew

namespace Clarabel.Solver
open Clarabel Info Residuals

set_option linter.unusedSectionVars false
set_option linter.unusedVariables false

variable {α : Type}

section
variable [Add α] [Sub α] [Mul α] [Div α] [Neg α] [OfNat α 0] [OfNat α 1] [OfNat α 2]
  [OfNat α 100] [OfNat α 1000] [LT α] [DecidableLT α] [LE α] [DecidableLE α] [BEq α] [FloatLike α]

/-- the construction stage of the linear solver object: on well-formed internal data `d` and a
consistently sized composite cone `K` covering its `m` rows, `KktSolver.new` (KKT assembly,
signs, symbolic LDL with the ordering `perm`) returns `.ok` and establishes the invariant -/
def KktNew (KIw : List Kkt.ConeSpec → Nat → Nat → KktSolver α → Prop) (st : LinSettings α)
    (perm : Array Nat) (d : ProblemData α) (K : List (ConeSt α)) : Prop :=
  ∃ Ks, KktSolver.new d.P d.A K d.m d.n st perm = .ok Ks ∧ KIw (K.map ConeSt.kktSpec) d.n d.m Ks

/-- [S] `DefaultSolver::new` never panics on well-formed input, provided `KktSolver.new` does
not on the internal data (`hk`; see `KktNew`).  (It may return `.err`: unsupported cone type.) -/
theorem solverNew_noPanic {P : Csc α} {q : Array α} {A : Csc α} {b : Array α} {cones : List (ConeT α)}
    {st : Settings α} {perm : Array Nat} (hin : InputOK P q A b cones)
    (hk : ∀ d K, internalData P q A b cones st = .ok d → makeCones d.cones = .ok K → DataOK d →
      ConesFull K → numelAll K = d.m → NoPanic (KktSolver.new d.P d.A K d.m d.n st.lin perm)) :
    NoPanic (Solver.new P q A b cones st perm) := by
  unfold Solver.new
  rw [bind_ok_of (checkDimensions_ok hin)]
  refine NoPanic.bind ?_ fun S _ => NoPanic.ok _
  unfold SolverSt.new
  refine NoPanic.bind (internalData_noPanic hin) fun d hd => ?_
  obtain ⟨hdok, _, K, hK, hnum⟩ := internalData_dataOK hin hd
  rw [bind_ok_of hK]
  refine NoPanic.bind ?_ fun ks _ => NoPanic.ok _
  unfold KktSys.new
  dsimp only
  exact NoPanic.bind (hk d K hd hK hdok (makeCones_full hK) hnum) fun Ks _ => NoPanic.ok _

/-- [S] **`DefaultSolver::new` establishes the invariant of `solve()`**: whatever solver object it
returns satisfies `SolverInv` (shapes of every vector, consistently sized cones covering `m` rows,
well-formed data, solution object sized for the user's problem), with the linear solver object
in the state `KIw` that `KktSolver.new` establishes (`hk`). -/
theorem solverNew_inv {KIw : List Kkt.ConeSpec → Nat → Nat → KktSolver α → Prop}
    {P : Csc α} {q : Array α} {A : Csc α} {b : Array α} {cones : List (ConeT α)}
    {st : Settings α} {perm : Array Nat} (hin : InputOK P q A b cones)
    (hk : ∀ d K Ks, internalData P q A b cones st = .ok d → makeCones d.cones = .ok K → DataOK d →
      ConesFull K → numelAll K = d.m →
      KktSolver.new d.P d.A K d.m d.n st.lin perm = .ok Ks → KIw (K.map ConeSt.kktSpec) d.n d.m Ks)
    {S : Solver α} (h : Solver.new P q A b cones st perm = .ok S) :
    SolverInv (KIw (S.st.cones.map ConeSt.kktSpec) S.st.data.n S.st.data.m) S.st.data
      (S.st.cones.map ConeSt.kktSpec) S := by
  unfold Solver.new at h
  obtain ⟨_, _, h⟩ := bind_ok_inv h
  obtain ⟨S0, hS0, h⟩ := bind_ok_inv h
  cases h
  unfold SolverSt.new at hS0
  obtain ⟨d, hd, hS0⟩ := bind_ok_inv hS0
  obtain ⟨K, hK, hS0⟩ := bind_ok_inv hS0
  obtain ⟨ks, hks, hS0⟩ := bind_ok_inv hS0
  cases hS0
  unfold KktSys.new at hks
  dsimp only at hks
  obtain ⟨Ks, hKs, hks⟩ := bind_ok_inv hks
  cases hks
  obtain ⟨hdok, hn, K', hK', hnum⟩ := internalData_dataOK hin hd
  rw [hK] at hK'
  cases hK'
  obtain ⟨hrow1, hrow2⟩ := internalData_rows hin hd
  have hfull := makeCones_full hK
  have hv : VarsSized d.n d.m (varsNew d.n d.m : Vars α) :=
    ⟨Array.size_replicate .., Array.size_replicate .., Array.size_replicate ..⟩
  refine ⟨⟨⟨hdok, hv, ⟨Array.size_replicate .., Array.size_replicate .., Array.size_replicate ..,
    Array.size_replicate .., Array.size_replicate ..⟩, hv, hv, hv, hfull, hnum,
    Array.size_replicate .., Array.size_replicate .., Array.size_replicate .., Array.size_replicate ..,
    Array.size_replicate .., Array.size_replicate .., Array.size_replicate ..,
    hk d K Ks hd hK hdok hfull hnum hKs⟩, rfl, rfl⟩, ?_⟩
  refine ⟨?_, ?_, ?_, ?_, ?_⟩
  · show (Array.replicate A.n (0 : α)).size = d.n
    rw [Array.size_replicate, hn]
  · intro hp
    show (Array.replicate A.m (0 : α)).size = d.m
    rw [Array.size_replicate, hrow1 hp]
  · intro hp
    show (Array.replicate A.m (0 : α)).size = d.m
    rw [Array.size_replicate, hrow1 hp]
  · intro p hp
    show (Array.replicate A.m (0 : α)).size = p.keep.size
    rw [Array.size_replicate, hrow2 p hp]
  · intro p hp
    show (Array.replicate A.m (0 : α)).size = p.keep.size
    rw [Array.size_replicate, hrow2 p hp]

/-- [S] **every `solve()` on a solver object built by `DefaultSolver::new` returns without
panicking** — relative to the linear-solver stage (`hnew`: what `KktSolver.new` establishes;
`htot`: `update` / `setrhs; solve` are total on it).  The returned solver object satisfies the
invariant again, so the statement applies to every later `solve()` as well. -/
theorem solve_ok_of_new {KIw KIs : List Kkt.ConeSpec → Nat → Nat → KktSolver α → Prop}
    {P : Csc α} {q : Array α} {A : Csc α} {b : Array α} {cones : List (ConeT α)}
    {st : Settings α} {perm : Array Nat} (hf : FmaxOK α) (hin : InputOK P q A b cones)
    (hnew : ∀ d K Ks, internalData P q A b cones st = .ok d → makeCones d.cones = .ok K → DataOK d →
      ConesFull K → numelAll K = d.m →
      KktSolver.new d.P d.A K d.m d.n st.lin perm = .ok Ks → KIw (K.map ConeSt.kktSpec) d.n d.m Ks)
    (htot : ∀ specs n m, KktTotal2 (KIw specs n m) (KIs specs n m) specs n m st.lin)
    {S : Solver α} (h : Solver.new P q A b cones st perm = .ok S) :
    OkAnd (S.solve st) (fun r => fillNorms S.st.data = .ok r.S.st.data
      ∧ SolverInv (KIw (S.st.cones.map ConeSt.kktSpec) S.st.data.n S.st.data.m)
        r.S.st.data (S.st.cones.map ConeSt.kktSpec) r.S) :=
  (solve_ok (Stages.of_kkt hf (htot _ _ _)) (solverNew_inv hin hnew h)).mono fun _ hr => ⟨hr.2.1, hr.2.2⟩

/-- the invariant is kept by any number of `solve()` calls: `n` successive solves all return `.ok`
(the data the invariant is anchored at changes in the two norm caches only, which the first solve
fills: same `n`, `m`) -/
theorem solve_iterate_ok {KIw KIs : KktSolver α → Prop} {specs : List Kkt.ConeSpec}
    {st : Settings α} : ∀ (k : Nat) {d : ProblemData α} (G : Stages KIw KIs d specs st) {S : Solver α},
    SolverInv KIw d specs S → ∃ S' d', d'.n = d.n ∧ d'.m = d.m ∧ SolverInv KIw d' specs S' ∧
      (Nat.rec (motive := fun _ => MErr (Solver α)) (pure S)
        (fun _ acc => acc >>= fun T => (T.solve st).map (·.S)) k) = .ok S'
  | 0, d, _, S, h => ⟨S, d, rfl, rfl, h, rfl⟩
  | k + 1, d, G, S, h => by
    obtain ⟨S1, d1, en, em, h1, e1⟩ := solve_iterate_ok k G h
    have G1 : Stages KIw KIs d1 specs st := ⟨G.cone, G.top, by rw [en, em]; exact G.kkt⟩
    obtain ⟨r, hr, ⟨nq, nb, hd⟩, _, h2⟩ := solve_ok G1 h1
    refine ⟨r.S, r.S.st.data, by rw [hd]; exact en, by rw [hd]; exact em, h2, ?_⟩
    show ((Nat.rec (motive := fun _ => MErr (Solver α)) (pure S)
        (fun _ acc => acc >>= fun T => (T.solve st).map (·.S)) k) >>= fun T => (T.solve st).map (·.S)) = _
    rw [e1]
    show (S1.solve st).map (·.S) = _
    rw [hr]
    rfl

end

end Clarabel.Solver
