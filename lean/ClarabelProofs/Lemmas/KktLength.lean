/-
  Existence (no panic) and length of the global fill schedule of the KKT assembly.

  (A) for canonical `P`, `A` every schedule of `_kkt_assemble_fill` exists
      (`blockSchedule_exists`, `missingDiagSchedule_exists`, `countDiagonalEntries_exists`,
      `kktSchedule_exists`);
  (B) `count_diagonal_entries(P, Triu)` and `fill_missing_diag(P)` partition the columns of `P`
      (`missingDiag_count`);
  (C) the number of scheduled writes is the allocation formula `Kkt.nnzKKT`
      (`conesSchedule_length`, `kktSchedule_length`).
-/
import ClarabelProofs.Lemmas.KktSorted
import ClarabelProofs.Lemmas.KktFillBlock

namespace Clarabel.Lemmas.KktLength
open Clarabel Clarabel.Csc Clarabel.Kkt
open Clarabel.Lemmas.KktSorted Clarabel.Lemmas.KktPlace Clarabel.Lemmas.KktFillBlock

-- ------------------------------------------------------------------ generic helpers

theorem bind_exists {ε β γ : Type} {x : Except ε β} {f : β → Except ε γ} {b : β}
    (hx : x = .ok b) (hf : ∃ c, f b = .ok c) : ∃ c, (x >>= f) = .ok c := by
  subst hx
  exact hf

theorem bind_exists' {ε β γ : Type} {x : Except ε β} {f : β → Except ε γ}
    (hx : ∃ b, x = .ok b) (hf : ∀ b, ∃ c, f b = .ok c) : ∃ c, (x >>= f) = .ok c := by
  obtain ⟨b, hb⟩ := hx
  exact bind_exists hb (hf b)

theorem mapM_exists {ε β γ : Type} (f : β → Except ε γ) :
    ∀ l : List β, (∀ x ∈ l, ∃ y, f x = .ok y) → ∃ ys, l.mapM f = .ok ys := by
  intro l
  induction l with
  | nil => intro _; exact ⟨[], by simp [pure, Except.pure]⟩
  | cons a t ih =>
    intro h
    obtain ⟨y, hy⟩ := h a (by simp)
    obtain ⟨ys, hys⟩ := ih (fun x hx => h x (by simp [hx]))
    refine ⟨y :: ys, ?_⟩
    rw [List.mapM_cons, hy, hys]
    rfl

theorem foldlM_exists {ε β σ : Type} (f : σ → β → Except ε σ) :
    ∀ l : List β, (∀ s, ∀ x ∈ l, ∃ s', f s x = .ok s') → ∀ s, ∃ s', l.foldlM f s = .ok s' := by
  intro l
  induction l with
  | nil => intro _ s; exact ⟨s, by simp [pure, Except.pure]⟩
  | cons a t ih =>
    intro h s
    obtain ⟨s1, hs1⟩ := h s a (by simp)
    rw [List.foldlM_cons, hs1]
    exact ih (fun s x hx => h s x (by simp [hx])) s1

theorem getE_nat {xs : Array Nat} {i : Nat} (site : String) (h : i < xs.size) :
    getE xs i site = .ok xs[i]! := by
  rw [getE_ok]
  simp [h]

theorem getE_exists {β : Type} {xs : Array β} {i : Nat} (site : String) (h : i < xs.size) :
    ∃ v, getE xs i site = .ok v :=
  ⟨xs[i], by rw [getE_ok]; simp [h]⟩

variable {α : Type} [OfNat α 0]

-- ------------------------------------------------------------------ (A) existence

omit [OfNat α 0] in
theorem Canon.last_eq {M : Csc α} (hM : Canon M) : M.colptr[M.n]! = M.rowval.size := by
  simp [getElem!_def, hM.colptr_last]

omit [OfNat α 0] in
theorem blockSchedule_exists {M : Csc α} (hM : Canon M) (r0 c0 : Nat) (shape : MatrixShape) :
    ∃ s, blockSchedule M r0 c0 shape = .ok s := by
  unfold blockSchedule
  refine bind_exists' ?_ (fun cols => ⟨_, rfl⟩)
  apply mapM_exists
  intro i hi
  simp only [List.mem_range] at hi
  refine bind_exists (getE_nat _ (by rw [hM.colptr_size]; omega)) ?_
  refine bind_exists (getE_nat _ (by rw [hM.colptr_size]; omega)) ?_
  apply mapM_exists
  intro j hj
  simp only [List.mem_range'_1] at hj
  have hle := hM.colptr_le_last (i + 1) (by omega)
  have hj' : j < M.rowval.size := by omega
  refine bind_exists' (getE_exists _ hj') (fun r => ?_)
  refine bind_exists' (getE_exists _ (by rw [hM.nzval_size]; exact hj')) (fun v => ?_)
  exact ⟨_, rfl⟩

omit [OfNat α 0] in
theorem missingDiagAt_exists' {M : Csc α} (hM : Canon M) (i : Nat) (hi : i < M.n) :
    ∃ b, missingDiagAt M i = .ok b := by
  unfold missingDiagAt
  refine bind_exists (getE_nat _ (by rw [hM.colptr_size]; omega)) ?_
  refine bind_exists (getE_nat _ (by rw [hM.colptr_size]; omega)) ?_
  have hmono := hM.colptr_mono i hi
  have hle := hM.colptr_le_last (i + 1) (by omega)
  split
  · exact ⟨_, rfl⟩
  · next hne =>
    split
    · next h0 =>
      exfalso
      simp only [beq_iff_eq] at hne h0
      omega
    · next h0 =>
      simp only [beq_iff_eq] at h0
      exact bind_exists' (getE_exists _ (by omega)) (fun r => ⟨_, rfl⟩)

omit [OfNat α 0] in
theorem missingDiagAt_exists {M : Csc α} (hM : Canon M) (hsq : M.m = M.n) (i : Nat) (hi : i < M.n) :
    ∃ b, missingDiagAt M i = .ok b :=
  have _ := hsq
  missingDiagAt_exists' hM i hi

theorem missingDiagSchedule_exists {M : Csc α} (hM : Canon M) (c0 : Nat) :
    ∃ s, missingDiagSchedule M c0 = .ok s := by
  unfold missingDiagSchedule
  refine bind_exists' ?_ (fun es => ⟨_, rfl⟩)
  apply mapM_exists
  intro i hi
  simp only [List.mem_range] at hi
  refine bind_exists' (missingDiagAt_exists' hM i hi) (fun b => ?_)
  cases b <;> exact ⟨_, rfl⟩

omit [OfNat α 0] in
theorem countDiagonalEntries_exists {M : Csc α} (hM : Canon M) :
    ∃ nd, countDiagonalEntries M .triu = .ok nd := by
  unfold countDiagonalEntries
  apply foldlM_exists
  intro count i hi
  simp only [List.mem_range] at hi
  refine bind_exists (getE_nat _ (by rw [hM.colptr_size]; omega)) ?_
  refine bind_exists (getE_nat _ (by rw [hM.colptr_size]; omega)) ?_
  have hmono := hM.colptr_mono i hi
  have hle := hM.colptr_le_last (i + 1) (by omega)
  split
  · exact ⟨_, rfl⟩
  · next hne =>
    simp only [beq_iff_eq] at hne
    have h0 : ¬ (M.colptr[i + 1]! == 0) = true := by
      simp only [beq_iff_eq]; omega
    simp only [if_neg h0]
    exact bind_exists' (getE_exists _ (by omega)) (fun r => ⟨_, rfl⟩)

theorem kktSchedule_exists (P A : Csc α) (cones : List ConeSpec) (shape : MatrixTriangle)
    (hP : Canon P) (hA : Canon A) :
    ∃ sched, kktSchedule P A cones shape = .ok sched := by
  unfold kktSchedule
  dsimp only
  cases shape with
  | triu =>
    dsimp only
    refine bind_exists' (blockSchedule_exists hP _ _ _) (fun sP => ?_)
    refine bind_exists' (missingDiagSchedule_exists hP _) (fun sD => ?_)
    refine bind_exists' (blockSchedule_exists hA _ _ _) (fun sA => ?_)
    exact ⟨_, rfl⟩
  | tril =>
    dsimp only
    refine bind_exists' (missingDiagSchedule_exists hP _) (fun sD => ?_)
    refine bind_exists' (blockSchedule_exists hP _ _ _) (fun sP => ?_)
    refine bind_exists' (blockSchedule_exists hA _ _ _) (fun sA => ?_)
    exact ⟨_, rfl⟩

-- ------------------------------------------------------------------ (B) the diagonal count

theorem foldlM_count {ε β : Type} (f : Nat → β → Except ε Nat) (p : β → Bool)
    (hf : ∀ acc x acc', f acc x = .ok acc' → acc' = acc + if p x then 1 else 0) :
    ∀ (l : List β) (acc nd : Nat), l.foldlM f acc = .ok nd → nd = acc + l.countP p := by
  intro l
  induction l with
  | nil =>
    intro acc nd h
    simp only [List.foldlM_nil, pure, Except.pure] at h
    cases h
    simp
  | cons a t ih =>
    intro acc nd h
    rw [List.foldlM_cons] at h
    obtain ⟨acc1, h1, h⟩ := bind_eq_ok h
    rw [ih acc1 nd h, hf acc a acc1 h1, List.countP_cons]
    omega

theorem flatMap_if_length {β γ : Type} (p : β → Bool) (g : β → γ) (l : List β) :
    (l.flatMap (fun i => if p i then [g i] else [])).length = l.countP p := by
  induction l with
  | nil => rfl
  | cons a t ih =>
    rw [List.flatMap_cons, List.length_append, ih, List.countP_cons]
    cases p a <;> simp <;> omega

theorem countP_add_countP_not {β : Type} (p : β → Bool) (l : List β) :
    l.countP p + l.countP (fun x => !p x) = l.length := by
  induction l with
  | nil => rfl
  | cons a t ih =>
    rw [List.countP_cons, List.countP_cons, List.length_cons]
    cases p a <;> simp <;> omega

omit [OfNat α 0] in
/-- `count_diagonal_entries(M, Triu)` counts the columns whose diagonal entry is *not* missing -/
theorem countDiagonalEntries_ok {M : Csc α} {nd : Nat} (h : countDiagonalEntries M .triu = .ok nd) :
    nd = (List.range M.n).countP (fun i => !missingDiag M i) := by
  unfold countDiagonalEntries at h
  have := foldlM_count _ (fun i => !missingDiag M i) ?_ _ _ _ h
  · simpa using this
  intro count i acc' h
  obtain ⟨hi, hhi, h⟩ := bind_eq_ok h
  obtain ⟨lo, hlo, h⟩ := bind_eq_ok h
  unfold missingDiag
  rw [getE_eq_ok_nat hlo, getE_eq_ok_nat hhi]
  split at h
  · next heq =>
    cases h
    simp only [beq_iff_eq] at heq
    simp [heq]
  · next hne =>
    simp only [beq_iff_eq] at hne
    dsimp only at h
    split at h
    · cases h
    · obtain ⟨r, hr, h⟩ := bind_eq_ok h
      cases h
      rw [getE_eq_ok_nat hr]
      have hne' : ¬ lo = hi := fun e => hne e.symm
      by_cases hr : r = i <;> simp [hr, hne']

/-- the missing-diagonal fill and the diagonal count partition the columns -/
theorem missingDiag_count {P : Csc α} {nd : Nat} {sD : List (Entry α)}
    (hd : countDiagonalEntries P .triu = .ok nd) (hs : missingDiagSchedule P 0 = .ok sD) :
    sD.length + nd = P.n := by
  rw [missingDiagSchedule_ok hs, countDiagonalEntries_ok hd, flatMap_if_length,
    countP_add_countP_not, List.length_range]

-- ------------------------------------------------------------------ (C) lengths

theorem diagSchedule_length (off d : Nat) : (diagSchedule (α := α) off d).length = d := by
  simp [diagSchedule]

theorem colvecSchedule_length (len r c : Nat) : (colvecSchedule (α := α) len r c).length = len := by
  simp [colvecSchedule]

theorem rowvecSchedule_length (len r c : Nat) : (rowvecSchedule (α := α) len r c).length = len := by
  simp [rowvecSchedule]

theorem flatMap_triangle_twice {β : Type} (f : Nat → List β) (hf : ∀ c, (f c).length = c + 1) (d : Nat) :
    2 * ((List.range d).flatMap f).length = d * (d + 1) := by
  induction d with
  | zero => simp
  | succ d ih =>
    rw [List.range_succ, List.flatMap_append, List.length_append]
    simp only [List.flatMap_cons, List.flatMap_nil, List.append_nil, hf]
    rw [Nat.mul_add, ih]
    simp only [Nat.mul_add, Nat.add_mul]
    omega

theorem flatMap_triangle {β : Type} (f : Nat → List β) (hf : ∀ c, (f c).length = c + 1) (d : Nat) :
    ((List.range d).flatMap f).length = d * (d + 1) / 2 := by
  have := flatMap_triangle_twice f hf d
  omega

theorem denseTriuSchedule_length (off d : Nat) :
    (denseTriuSchedule (α := α) off d).length = d * (d + 1) / 2 := by
  unfold denseTriuSchedule
  simp only [List.length_map, List.length_zipIdx]
  exact flatMap_triangle _ (fun c => by simp) d

theorem denseTrilSchedule_length (off d : Nat) :
    (denseTrilSchedule (α := α) off d).length = d * (d + 1) / 2 := by
  unfold denseTrilSchedule
  simp only [List.length_map, List.length_zipIdx]
  exact flatMap_triangle _ (fun c => by simp) d

/-- `nnz_vec` of the expansion of a cone (0 if the cone has none) -/
def spNnz (c : ConeSpec) : Nat :=
  match expansionMap c with
  | some mp => mp.nnzVec
  | none => 0

/-- `pdim` of the expansion of a cone (0 if the cone has none) -/
def spPdim (c : ConeSpec) : Nat :=
  match expansionMap c with
  | some mp => mp.pdim
  | none => 0

theorem sparse_length (c : ConeSpec) (row pcol : Nat) (shape : MatrixTriangle) :
    (if c.isSparseExpandable then (sparseSchedule c row pcol shape : List (Entry α)) else []).length
      = spNnz c + spPdim c := by
  cases c with
  | soc d =>
    by_cases hd : d > socNoExpansionMaxSize
    · cases shape <;>
        simp [ConeSpec.isSparseExpandable, sparseSchedule, spNnz, spPdim, expansionMap, hd,
          SparseMap.nnzVec, SparseMap.pdim, diagSchedule_length, colvecSchedule_length,
          rowvecSchedule_length] <;> omega
    · simp [ConeSpec.isSparseExpandable, spNnz, spPdim, expansionMap, hd]
  | genpow a b =>
    cases shape <;>
      simp [ConeSpec.isSparseExpandable, sparseSchedule, spNnz, spPdim, expansionMap,
        SparseMap.nnzVec, SparseMap.pdim, diagSchedule_length, colvecSchedule_length,
        rowvecSchedule_length] <;> omega
  | zero d => simp [ConeSpec.isSparseExpandable, spNnz, spPdim, expansionMap]
  | nonneg d => simp [ConeSpec.isSparseExpandable, spNnz, spPdim, expansionMap]
  | exp => simp [ConeSpec.isSparseExpandable, spNnz, spPdim, expansionMap]
  | pow => simp [ConeSpec.isSparseExpandable, spNnz, spPdim, expansionMap]
  | psd d => simp [ConeSpec.isSparseExpandable, spNnz, spPdim, expansionMap]

theorem coneSchedule_length (c : ConeSpec) (row pcol : Nat) (shape : MatrixTriangle) :
    (coneSchedule c row pcol shape : List (Entry α)).length = c.blockLen + spNnz c + spPdim c := by
  unfold coneSchedule
  dsimp only
  rw [List.length_append, sparse_length, ConeSpec.blockLen]
  by_cases h : c.hsIsDiagonal = true
  · simp only [h, if_true, diagSchedule_length]; omega
  · have h' : c.hsIsDiagonal = false := by simpa using h
    simp only [h', Bool.false_eq_true, if_false]
    cases shape
    · simp only [denseTriuSchedule_length]; omega
    · simp only [denseTrilSchedule_length]; omega

theorem foldl_add_sum (l : List Nat) (acc : Nat) : l.foldl (· + ·) acc = acc + l.sum := by
  induction l generalizing acc with
  | nil => simp
  | cons a t ih => rw [List.foldl_cons, ih, List.sum_cons]; omega

theorem foldl_filterMap_sum (g : SparseMap → Nat) (l : List ConeSpec) (acc : Nat) :
    (l.filterMap expansionMap).foldl (fun a mp => a + g mp) acc
      = acc + (l.map (fun c => match expansionMap c with
                                | some mp => g mp
                                | none => 0)).sum := by
  induction l generalizing acc with
  | nil => simp
  | cons c t ih =>
    rw [List.filterMap_cons, List.map_cons, List.sum_cons]
    cases h : expansionMap c with
    | none => simp only [ih]; omega
    | some mp => simp only [List.foldl_cons, ih]; omega

theorem hsblocksLen_eq_sum (cones : List ConeSpec) :
    hsblocksLen cones = (cones.map ConeSpec.blockLen).sum := by
  unfold hsblocksLen
  rw [foldl_add_sum]; omega

theorem nnzVecAll_eq_sum (cones : List ConeSpec) :
    nnzVecAll (cones.filterMap expansionMap).toArray = (cones.map spNnz).sum := by
  unfold nnzVecAll
  rw [List.toList_toArray, foldl_filterMap_sum]
  simp only [Nat.zero_add]
  rfl

theorem pdimAll_eq_sum (cones : List ConeSpec) :
    pdimAll (cones.filterMap expansionMap).toArray = (cones.map spPdim).sum := by
  unfold pdimAll
  rw [List.toList_toArray, foldl_filterMap_sum]
  simp only [Nat.zero_add]
  rfl

theorem conesSchedule_length (cones : List ConeSpec) (row pcol : Nat) (shape : MatrixTriangle) :
    (conesSchedule (α := α) cones row pcol shape).length
      = hsblocksLen cones + nnzVecAll (cones.filterMap expansionMap).toArray
          + pdimAll (cones.filterMap expansionMap).toArray := by
  rw [hsblocksLen_eq_sum, nnzVecAll_eq_sum, pdimAll_eq_sum]
  induction cones generalizing row pcol with
  | nil => simp [conesSchedule]
  | cons c rest ih =>
    simp only [conesSchedule, List.length_append, coneSchedule_length, ih, List.map_cons,
      List.sum_cons]
    omega

omit [OfNat α 0] in
theorem blockWF_of_canon {M : Csc α} (h : Canon M) : BlockWF M := by
  refine ⟨h.colptr_size, h.colptr_zero, ?_, h.colptr_last, h.nzval_size⟩
  intro i hi
  have := h.colptr_mono i hi
  simpa [Array.getElem!_eq_getD] using this

omit [OfNat α 0] in
theorem nnz_of_canon {M : Csc α} (h : Canon M) : M.nnz = M.rowval.size := by
  unfold Csc.nnz
  simp [Array.getD_eq_getD_getElem?, h.colptr_last]

/-- the three head blocks of the schedule, for either target triangle -/
theorem kktSchedule_parts {P A : Csc α} {cones : List ConeSpec} {shape : MatrixTriangle}
    {sched : List (Entry α)} (hs : kktSchedule P A cones shape = .ok sched) :
    ∃ (sP sD sA : List (Entry α)) (rP cP rA cA : Nat) (shP shA : MatrixShape),
      blockSchedule P rP cP shP = .ok sP ∧ missingDiagSchedule P 0 = .ok sD ∧
      blockSchedule A rA cA shA = .ok sA ∧
      sched.length = sP.length + sD.length + sA.length
        + (conesSchedule (α := α) cones A.n (A.m + A.n) shape).length := by
  unfold kktSchedule at hs
  dsimp only at hs
  cases shape with
  | triu =>
    dsimp only at hs
    obtain ⟨sP, hsP, hs⟩ := bind_eq_ok hs
    obtain ⟨sD, hsD, hs⟩ := bind_eq_ok hs
    obtain ⟨sA, hsA, hs⟩ := bind_eq_ok hs
    obtain ⟨head, hhead, hs⟩ := bind_eq_ok hs
    cases hhead
    cases hs
    refine ⟨sP, sD, sA, _, _, _, _, _, _, hsP, hsD, hsA, ?_⟩
    simp only [List.length_append]
  | tril =>
    dsimp only at hs
    obtain ⟨sD, hsD, hs⟩ := bind_eq_ok hs
    obtain ⟨sP, hsP, hs⟩ := bind_eq_ok hs
    obtain ⟨sA, hsA, hs⟩ := bind_eq_ok hs
    obtain ⟨head, hhead, hs⟩ := bind_eq_ok hs
    cases hhead
    cases hs
    refine ⟨sP, sD, sA, _, _, _, _, _, _, hsP, hsD, hsA, ?_⟩
    simp only [List.length_append]
    omega

/-- **the allocation formula**: the schedule of `_kkt_assemble_fill` has exactly
`nnzKKT P A cones nd` writes, `nd = count_diagonal_entries(P)`. -/
theorem kktSchedule_length (P A : Csc α) (cones : List ConeSpec) (shape : MatrixTriangle)
    (sched : List (Entry α)) (nd : Nat)
    (hP : Canon P) (hA : Canon A) (hn : P.n = A.n)
    (hs : kktSchedule P A cones shape = .ok sched) (hd : P.countDiagonalEntries .triu = .ok nd) :
    nd ≤ P.n ∧ sched.length = nnzKKT P A cones nd ∧ P.nnz = P.rowval.size ∧
      A.nnz = A.rowval.size := by
  obtain ⟨sP, sD, sA, rP, cP, rA, cA, shP, shA, hsP, hsD, hsA, hlen⟩ := kktSchedule_parts hs
  have hcnt := missingDiag_count hd hsD
  have hlP := blockSchedule_length (blockWF_of_canon hP) rP cP shP sP hsP
  have hlA := blockSchedule_length (blockWF_of_canon hA) rA cA shA sA hsA
  have hnP := nnz_of_canon hP
  have hnA := nnz_of_canon hA
  refine ⟨by omega, ?_, hnP, hnA⟩
  rw [hlen, conesSchedule_length, hlP, hlA]
  unfold nnzKKT
  dsimp only
  rw [hnP, hnA]
  omega

end Clarabel.Lemmas.KktLength
