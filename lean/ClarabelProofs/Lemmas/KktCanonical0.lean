/-
  The assembled KKT matrix is a canonical encoding in the strict sense of property C16
  (`Clarabel.C16.Canonical0` = `Canonical` ∧ `colptr[0] = 0`), i.e. the model's `check_format`
  (the one that also tests `colptr[0] = 0`, /repo 190e6c4) returns `Ok` on it — and still does
  after `update` has overwritten the values (the pattern is untouched).
-/
import ClarabelModel.Kkt
import ClarabelProofs.Lemmas.KktCanonical
import ClarabelProofs.Lemmas.CscFormat

set_option linter.unusedSectionVars false
set_option linter.unusedVariables false

namespace Clarabel.Lemmas.KktCanonical0
open Clarabel Clarabel.Csc Clarabel.Kkt
open Clarabel.Lemmas.KktTotal Clarabel.Lemmas.KktFinal Clarabel.Lemmas.KktSpec
open Clarabel.Lemmas.KktSorted (Canon IsTriu)

variable {α : Type} [OfNat α 0]

/-- [S] the assembled matrix is `Canonical0` -/
theorem asmRun_canonical0 {P A : Csc α} {cones : List ConeSpec}
    {shape : MatrixTriangle} {K : Csc α} {map : LDLDataMap} {sched : List (Entry α)} {Kc : Csc α}
    {nd : Nat} (R : AsmRun P A cones shape K map sched Kc nd)
    (hP : Canon P) (hPt : IsTriu P) (hPsq : P.m = P.n) (hA : Canon A) (hn : P.n = A.n)
    (hm : (cones.map ConeSpec.numel).sum = A.m) : Clarabel.C16.Canonical0 K := by
  refine ⟨R.canonical hP hPt hPsq hA hn hm, ?_⟩
  have h0 := R.mat.colptr_zero
  simp [Array.getD_eq_getD_getElem?, h0]

/-- `Canonical` does not look at the values: replacing `nzval` by an array of the same length
keeps the encoding canonical -/
theorem canonical_with_nzval {K : Csc α} (h : Clarabel.C16.Canonical K) (nz : Array α)
    (hsz : nz.size = K.nzval.size) : Clarabel.C16.Canonical { K with nzval := nz } :=
  ⟨by show K.rowval.size = nz.size; rw [hsz]; exact h.len_eq, h.colptr_size, h.colptr_last,
    h.colptr_mono, h.rows_sorted, h.rows_bound⟩

theorem canonical0_with_nzval {K : Csc α} (h : Clarabel.C16.Canonical0 K) (nz : Array α)
    (hsz : nz.size = K.nzval.size) : Clarabel.C16.Canonical0 { K with nzval := nz } :=
  ⟨canonical_with_nzval h.canon nz hsz, h.colptr_zero⟩

end Clarabel.Lemmas.KktCanonical0
