/-
  The whole-solver model refines the control skeleton, at the level of the whole loop
  (`solve_refines_loop`), what `solve()` returns in terms of the final loop state, and the
  agreement of the two post-processing steps.  All structural ([S]).
-/
import ClarabelProofs.Lemmas.SolverModelRun
import ClarabelProofs.Lemmas.InfoLengths
namespace Clarabel.Solver
open Clarabel Info
set_option linter.unusedSectionVars false
set_option linter.unusedVariables false
variable {α : Type}
section
variable [Add α] [Sub α] [Mul α] [Div α] [Neg α] [OfNat α 0] [OfNat α 1] [OfNat α 2]
  [OfNat α 100] [OfNat α 1000] [LT α] [DecidableLT α] [LE α] [DecidableLE α] [BEq α] [FloatLike α]

/-- `DefaultSolution::post_process` on any solution object: the vectors keep their lengths,
`status` / `iterations` are copies of the `info` fields -/
theorem unscale_postProcess_fields {sol : Unscale.Solution α} {eq : Info.Equil α}
    {pm : Option (Unscale.PresolveMap α)} {v : Residuals.Vars α} {i : InfoS α}
    {r : Unscale.Solution α × Residuals.Vars α} (h : Unscale.postProcess sol eq pm v i = .ok r) :
    r.1.x.size = sol.x.size ∧ r.1.s.size = sol.s.size ∧ r.1.z.size = sol.z.size
      ∧ r.1.status = i.status ∧ r.1.iterations = i.iterations := by
  unfold Unscale.postProcess at h
  cases pm with
  | some p =>
    dsimp only at h
    obtain ⟨sol', hs, h⟩ := bind_ok_inv h
    cases h
    unfold Unscale.reversePresolve at hs
    obtain ⟨x', hx, hs⟩ := bind_ok_inv hs
    obtain ⟨⟨s', z'⟩, hsz, hs⟩ := bind_ok_inv hs
    cases hs
    have h1 := Unscale.copyFrom_size _ _ _ hx
    have h2 := Unscale.reverseLoop_size _ _ _ _ _ _ _ _ _ _ hsz
    exact ⟨h1, h2.1, h2.2, rfl, rfl⟩
  | none =>
    dsimp only at h
    obtain ⟨x', hx, h⟩ := bind_ok_inv h
    obtain ⟨z', hz, h⟩ := bind_ok_inv h
    obtain ⟨s', hs, h⟩ := bind_ok_inv h
    cases h
    exact ⟨Unscale.copyFrom_size _ _ _ hx, Unscale.copyFrom_size _ _ _ hs, Unscale.copyFrom_size _ _ _ hz,
      rfl, rfl⟩

/-- what a whole `solve()` returns, in terms of the loop state its loop ended in -/
theorem solve_inv {S : Solver α} {st : Settings α} {r : SolveResult α} (h : S.solve st = .ok r) :
    ∃ L, S.st.runSolve st = .ok L ∧ r.traj = L.traj
      ∧ r.S.st.info = (finishInfo st L).info
      ∧ r.S.solution.status = (finishInfo st L).info.status
      ∧ r.S.solution.iterations = (finishInfo st L).info.iterations
      ∧ r.S.solution.x.size = S.solution.x.size ∧ r.S.solution.s.size = S.solution.s.size
      ∧ r.S.solution.z.size = S.solution.z.size := by
  unfold Solver.solve at h
  obtain ⟨L, hL, h⟩ := bind_ok_inv h
  obtain ⟨p, hp, h⟩ := bind_ok_inv h
  obtain ⟨dN, hdN, h⟩ := bind_ok_inv h
  cases h
  unfold finish at hp
  obtain ⟨u, hu, hp⟩ := bind_ok_inv hp
  cases hp
  obtain ⟨h1, h2, h3, h4, h5⟩ := unscale_postProcess_fields hu
  exact ⟨L, hL, rfl, rfl, h4, h5, h1, h2, h3⟩

/-- the anatomy of a `solve()` that returned: the loop, `finish`, and the norm caches `Info.update`
filled (`fillNorms` on the data, which nothing else in `solve()` writes) -/
theorem solve_ok_inv {S : Solver α} {st : Settings α} {r : SolveResult α} (h : S.solve st = .ok r) :
    ∃ L p d, S.st.runSolve st = .ok L ∧ finish st L S.solution = .ok p ∧ fillNorms p.1.data = .ok d
      ∧ r = { S := { st := { p.1 with data := d }, solution := p.2 }, traj := L.traj } := by
  unfold Solver.solve at h
  obtain ⟨L, hL, h⟩ := bind_ok_inv h
  obtain ⟨p, hp, h⟩ := bind_ok_inv h
  obtain ⟨dN, hdN, h⟩ := bind_ok_inv h
  cases h
  exact ⟨L, p, dN, hL, hp, hdN, rfl⟩

/-- what `fillNorms` returns: the same data, both caches `some` of what `get_normq` / `get_normb`
answer on it -/
theorem fillNorms_ok_inv {d d' : ProblemData α} (h : fillNorms d = .ok d') :
    ∃ nq nb, Info.getNormq d.normq d.q d.equilibration.dinv d.equilibration.c = .ok nq
      ∧ Info.getNormb d.normb d.b d.equilibration.einv = .ok nb
      ∧ d' = { d with normq := some nq, normb := some nb } := by
  unfold fillNorms at h
  obtain ⟨nq, hq, h⟩ := bind_ok_inv h
  obtain ⟨nb, hb, h⟩ := bind_ok_inv h
  cases h
  exact ⟨nq, nb, hq, hb, rfl⟩


/-- the loop of the model is the loop of the skeleton on the oracle answers recorded in the
trajectory: same number of passes, same way of ending, `Sim`-related final states -/
theorem runLoopO_sim (st : Settings α) (tl t0 : α)
    (h100 : (100 : α) = FloatLike.ofNat 100) (h1000 : (1000 : α) = FloatLike.ofNat 1000)
    (htl : ¬ tl < t0) (sc : Loop.Scaling) : ∀ (fuel : Nat) (L : LoopSt α) (s : Loop.State α),
    Sim sc t0 L s →
    match runLoopO st fuel L with
    | .ok (some Lf) => ∃ recs sf, Lf.traj = L.traj ++ recs ∧ recs.length ≤ fuel
        ∧ Loop.loop (cfgOf st tl) (recs.map (oracleOf t0)) s = .done sf ∧ Sim sc t0 Lf sf
    | .ok none => ∃ (recs : List (PassRec α)) (sf : Loop.State α), recs.length = fuel
        ∧ Loop.loop (cfgOf st tl) (recs.map (oracleOf t0)) s = .exhausted sf
    | .error _ => True
  | 0, L, s, hs => ⟨[], s, rfl, rfl⟩
  | fuel + 1, L, s, hs => by
    unfold runLoopO
    cases hp : pass st L with
    | error e => trivial
    | ok r =>
      obtain ⟨c, L'⟩ := r
      obtain ⟨rec, s', htr, hps, hs'⟩ := pass_sim st tl t0 h100 h1000 htl sc hs hp
      cases c with
      | false =>
        refine ⟨[rec], s', htr, by simp, ?_, hs'⟩
        show Loop.loop (cfgOf st tl) [oracleOf t0 rec] s = .done s'
        unfold Loop.loop
        rw [hps]; rfl
      | true =>
        have ih := runLoopO_sim st tl t0 h100 h1000 htl sc fuel L' s' hs'
        show match runLoopO st fuel L' with
          | .ok (some Lf) => ∃ recs sf, Lf.traj = L.traj ++ recs ∧ recs.length ≤ fuel + 1
              ∧ Loop.loop (cfgOf st tl) (recs.map (oracleOf t0)) s = .done sf ∧ Sim sc t0 Lf sf
          | .ok none => ∃ (recs : List (PassRec α)) (sf : Loop.State α), recs.length = fuel + 1
              ∧ Loop.loop (cfgOf st tl) (recs.map (oracleOf t0)) s = .exhausted sf
          | .error _ => True
        have hl : ∀ os, Loop.loop (cfgOf st tl) (oracleOf t0 rec :: os) s = Loop.loop (cfgOf st tl) os s' := by
          intro os
          conv => lhs; unfold Loop.loop
          rw [hps]; rfl
        cases hr : runLoopO st fuel L' with
        | error e => trivial
        | ok o =>
          rw [hr] at ih
          cases o with
          | none =>
            obtain ⟨recs, sf, h1, h2⟩ := ih
            exact ⟨rec :: recs, sf, by simp [h1], by rw [List.map_cons, hl]; exact h2⟩
          | some Lf =>
            obtain ⟨recs, sf, h1, h2, h3, h4⟩ := ih
            refine ⟨rec :: recs, sf, ?_, by simp; omega, by rw [List.map_cons, hl]; exact h3, h4⟩
            rw [h1, htr]; simp

/-- the skeleton state `runSolve` enters its loop with -/
def absInit (sc : Loop.Scaling) (t0 : α) (S : SolverSt α) : Loop.State α :=
  { iter := 0, scaling := sc, alpha := 0, sigma := 1, mu := 0,
    info := absInfo t0 S.infoMu S.infoSigma S.infoStepLength S.info,
    dots := ⟨S.residuals.dot_bz, S.residuals.dot_qx⟩, vars := .start, prevVars := .blank,
    saved := false, staleReset := false, rows := [], passes := 0, rollbackLines := 0, log := [] }

theorem absInit_sim (sc : Loop.Scaling) (t0 : α) (S : SolverSt α) :
    Sim sc t0 (initLoopSt S) (absInit sc t0 S) := ⟨rfl, rfl, rfl, rfl, rfl, rfl, rfl, rfl⟩

/-- `solve_refines_loop`: the loop of `SolverSt.runSolve` is an instance of the skeleton
`Loop.loop` for the oracle sequence read off the model's own trajectory -/
theorem runSolve_refines_loop (S : SolverSt α) (st : Settings α) (tl t0 : α)
    (h100 : (100 : α) = FloatLike.ofNat 100) (h1000 : (1000 : α) = FloatLike.ofNat 1000)
    (htl : ¬ tl < t0) (sc : Loop.Scaling) {S' : SolverSt α} {L : LoopSt α}
    (hds : (resetInfo S).defaultStart st = .ok S') (hL : S.runSolve st = .ok L) :
    ∃ sf, Loop.loop (cfgOf st tl) (L.traj.map (oracleOf t0)) (absInit sc t0 S') = .done sf
      ∧ Sim sc t0 L sf := by
  rw [runSolve_eq_runSolveO] at hL
  obtain ⟨o, ho, hl⟩ := bind_ok_inv hL
  unfold SolverSt.runSolveO at ho
  rw [hds] at ho
  have hsim := runLoopO_sim st tl t0 h100 h1000 htl sc (st.info.max_iter + 2) (initLoopSt S')
    (absInit sc t0 S') (absInit_sim sc t0 S')
  have ho' : runLoopO st (st.info.max_iter + 2) (initLoopSt S') = .ok o := ho
  rw [ho'] at hsim
  cases o with
  | none => cases hl
  | some Lf =>
    cases hl
    obtain ⟨recs, sf, h1, _, h3, h4⟩ := hsim
    have : L.traj = recs := by rw [h1]; rfl
    rw [this]
    exact ⟨sf, h3, h4⟩

theorem postProcess_cond_abs (a : SolverStatus) :
    ((absStatus a).isErrored || absStatus a == .MaxIterations || absStatus a == .MaxTime)
      = (a.isErrored || a == .maxIterations || a == .maxTime) := by
  cases a <;> rfl

/-- the two models of `Info::post_process` agree -/
theorem postProcess_abs (t0 m sg sl : α) (i : InfoS α) (dbz dqx : α) (s : Info.Settings α)
    (cfg : Loop.Config α) (h1000 : (1000 : α) = FloatLike.ofNat 1000)
    (hred : cfg.reduced = absTols s.reduced) :
    absStatus (Info.postProcess i dbz dqx s).status =
      Loop.postProcess (absInfo t0 m sg sl i) ⟨dbz, dqx⟩ cfg := by
  unfold Info.postProcess Loop.postProcess
  have hc := postProcess_cond_abs i.status
  by_cases h : (i.status.isErrored || i.status == .maxIterations || i.status == .maxTime) = true
  · rw [if_pos h, if_pos (show ((absInfo t0 m sg sl i).status.isErrored
        || (absInfo t0 m sg sl i).status == .MaxIterations || (absInfo t0 m sg sl i).status == .MaxTime) = true
        from hc.trans h), hred]
    exact checkConvergence_abs t0 m sg sl i dbz dqx s.reduced .almostSolved .almostPrimalInfeasible
      .almostDualInfeasible h1000
  · rw [if_neg h, if_neg (show ¬ ((absInfo t0 m sg sl i).status.isErrored
        || (absInfo t0 m sg sl i).status == .MaxIterations || (absInfo t0 m sg sl i).status == .MaxTime) = true
        from fun h' => h (hc.symm.trans h'))]
    rfl

/-- what the skeleton reports after its loop is what the model reports (`finishInfo`) -/
theorem finish_sim (st : Settings α) (tl t0 : α) (h1000 : (1000 : α) = FloatLike.ofNat 1000)
    (sc : Loop.Scaling) {L : LoopSt α} {sf : Loop.State α} (hs : Sim sc t0 L sf) :
    (Loop.finish (cfgOf st tl) sf).status = absStatus (finishInfo st L).info.status
      ∧ (Loop.finish (cfgOf st tl) sf).iterations = (finishInfo st L).info.iterations
      ∧ (Loop.finish (cfgOf st tl) sf).passes = L.traj.length := by
  unfold Loop.finish finishInfo
  dsimp only
  rw [hs.alpha, hs.info, hs.dots, hs.mu, hs.sigma, hs.iter, hs.passes]
  refine ⟨?_, ?_, rfl⟩
  · by_cases ha : (L.alpha == 0) = true
    · rw [if_pos ha, if_pos ha]
      exact (postProcess_abs t0 L.mu L.sigma L.alpha { L.S.info with iterations := L.iter }
        L.S.residuals.dot_bz L.S.residuals.dot_qx st.info (cfgOf st tl) h1000 rfl).symm
    · rw [if_neg ha, if_neg ha]
      exact (postProcess_abs t0 L.S.infoMu L.S.infoSigma L.S.infoStepLength L.S.info
        L.S.residuals.dot_bz L.S.residuals.dot_qx st.info (cfgOf st tl) h1000 rfl).symm
  · by_cases ha : (L.alpha == 0) = true
    · rw [if_pos ha, if_pos ha]
      rw [(postProcess_frame _ _ _ _).1]
      rfl
    · rw [if_neg ha, if_neg ha]
      rw [(postProcess_frame _ _ _ _).1]
      rfl
end
end Clarabel.Solver
