/-
  Scalar instances used by the theorems.

  * `LawfulFloatLike α`: an ordered field whose `FloatLike` extras are the exact ones
    (`fmax = max`, `fabs = |·|`, nothing is NaN, `ofNat = Nat.cast`).  Class-F theorems
    are stated for any such `α`.
  * `FloatLike ℝ` / `LawfulRealLike`: additionally `sqrt = Real.sqrt`, `exp`, `log`,
    `powf = rpow`.  Class-R theorems are stated over `ℝ`.
-/
import ClarabelModel.Scalar
import Mathlib.Analysis.SpecialFunctions.Pow.Real
import Mathlib.Analysis.SpecialFunctions.Sqrt

namespace Clarabel

class LawfulFloatLike (α : Type) [Field α] [LinearOrder α] [FloatLike α] : Prop where
  fmax_eq : ∀ a b : α, fmax a b = max a b
  fmin_eq : ∀ a b : α, fmin a b = min a b
  fabs_eq : ∀ a : α, fabs a = |a|
  isNaN_eq : ∀ a : α, FloatLike.isNaN a = false
  isFinite_eq : ∀ a : α, FloatLike.isFinite a = true
  ofNat_eq : ∀ n : Nat, (FloatLike.ofNat n : α) = (n : α)
  eps_pos : (0 : α) < FloatLike.eps
  eps_lt_one : (FloatLike.eps : α) < 1

noncomputable instance : FloatLike ℝ where
  sqrt := Real.sqrt
  exp := Real.exp
  log := Real.log
  powf := fun a b => a ^ b
  fmax := max
  fmin := min
  fabs := fun a => |a|
  isNaN := fun _ => false
  isFinite := fun _ => true
  eps := 2⁻¹ ^ 52
  ofNat := fun n => (n : ℝ)

instance : LawfulFloatLike ℝ where
  fmax_eq _ _ := rfl
  fmin_eq _ _ := rfl
  fabs_eq _ := rfl
  isNaN_eq _ := rfl
  isFinite_eq _ := rfl
  ofNat_eq _ := rfl
  eps_pos := by
    show (0:ℝ) < 2⁻¹ ^ 52
    positivity
  eps_lt_one := by
    show (2⁻¹:ℝ) ^ 52 < 1
    exact pow_lt_one₀ (by norm_num) (by norm_num) (by norm_num)

@[simp] theorem real_sqrt_eq (x : ℝ) : (sqrt x : ℝ) = Real.sqrt x := rfl
@[simp] theorem real_exp_eq (x : ℝ) : (exp x : ℝ) = Real.exp x := rfl
@[simp] theorem real_log_eq (x : ℝ) : (log x : ℝ) = Real.log x := rfl
@[simp] theorem real_fmax_eq (x y : ℝ) : (fmax x y : ℝ) = max x y := rfl
@[simp] theorem real_fmin_eq (x y : ℝ) : (fmin x y : ℝ) = min x y := rfl
@[simp] theorem real_fabs_eq (x : ℝ) : (fabs x : ℝ) = |x| := rfl

end Clarabel
