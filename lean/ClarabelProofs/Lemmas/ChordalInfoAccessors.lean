/-
  The named accessors / helpers of `chordal_info.rs` and `decomp/*.rs`
  (`ClarabelModel/Chordal/InfoAccessors.lean`) tied to the code that the older model files
  (`AugStd.lean`, `AugCompact.lean`, `Reverse.lean`) inline, and their meaning:

  * the cone counters (`final_psd_cones_added`, `premerge_psd_cones_added`, `final_cone_count`,
    the four header counters) never underflow on patterns with at least one clique and equal
    `Σ (n_cliques − 1)` resp. `Σ (snode.len() − 1)`;
  * `largest_nblk` does not panic when every stored pattern carries `nblk`, its value bounds every
    block size, and `decompReverseCompactFull = decompReverseCompact` then;
  * `alternating_sequence`, `extra_columns` (closed forms = the expressions inlined in
    `findCompactTriplets`), `find_A_dimension`, `find_H_col_dimension`, `decompose_with_cone`,
    `get_rows_mat`, `get_rows_vec`, `row_sums` / `number_of_overlaps_in_rows` of `H`;
  * `get_clique_by_index`, `add_blocks_with_cone`, `final_cone_count` = number of new cones;
  * `ChordalInfo::new` ⇒ `FromAnalysis`.
-/
import ClarabelModel.Chordal.InfoAccessors
import ClarabelProofs.Lemmas.ChordalFromAnalysis
import ClarabelProofs.Lemmas.ChordalCompactMain
import ClarabelProofs.Lemmas.ChordalCompactExample
import Mathlib.Data.List.Perm.Subperm
import Mathlib.Data.List.Nodup

namespace Clarabel.Chordal
variable {α : Type}

/-! ## 1–2. the cone counters -/

theorem foldl_add_eq_sum_acc {β : Type} (f : β → Nat) (l : List β) (a : Nat) :
    l.foldl (fun acc p => acc + f p) a = a + (l.map f).sum := by
  induction l generalizing a with
  | nil => simp
  | cons x t ih =>
    rw [List.foldl_cons, ih, List.map_cons, List.sum_cons]
    omega

theorem sum_sub_length_acc {β : Type} (f : β → Nat) (l : List β) (h : ∀ p ∈ l, 1 ≤ f p) :
    l.length ≤ (l.map f).sum ∧ (l.map f).sum - l.length = (l.map (fun p => f p - 1)).sum := by
  induction l with
  | nil => simp
  | cons x t ih =>
    obtain ⟨h1, h2⟩ := ih (fun p hp => h p (List.mem_cons_of_mem _ hp))
    have hx := h x List.mem_cons_self
    simp only [List.map_cons, List.sum_cons, List.length_cons]
    omega

theorem usizeSub_ok_acc (a b : Nat) (s : String) (h : b ≤ a) : usizeSub a b s = .ok (a - b) := by
  unfold usizeSub
  rw [if_neg (by omega)]
  rfl

theorem usizeSub_panic_acc (a b : Nat) (s : String) (h : a < b) : usizeSub a b s = .error (.panic s) := by
  unfold usizeSub
  rw [if_pos h]
  rfl

namespace ChordalInfo

/-- [S] `final_psd_cones_added` does not underflow and is `Σ (n_cliques − 1)` when every stored
pattern has at least one clique -/
theorem finalPsdConesAdded_eq (ci : ChordalInfo)
    (h : ∀ p ∈ ci.spatterns.toList, 1 ≤ p.sntree.nCliques) :
    ci.finalPsdConesAdded = .ok ((ci.spatterns.toList.map (fun p => p.sntree.nCliques - 1)).sum) := by
  obtain ⟨h1, h2⟩ := sum_sub_length_acc (fun p : SPattern => p.sntree.nCliques) _ h
  unfold finalPsdConesAdded decomposableConeCount
  rw [foldl_add_eq_sum_acc (fun p : SPattern => p.sntree.nCliques), Nat.zero_add,
    ← Array.length_toList, usizeSub_ok_acc _ _ _ h1, h2]

/-- [S] `premerge_psd_cones_added` does not underflow and is `Σ (snode.len() − 1)` when every
stored pattern has at least one clique slot -/
theorem premergePsdConesAdded_eq (ci : ChordalInfo)
    (h : ∀ p ∈ ci.spatterns.toList, 1 ≤ p.sntree.snode.size) :
    ci.premergePsdConesAdded = .ok ((ci.spatterns.toList.map (fun p => p.sntree.snode.size - 1)).sum) := by
  obtain ⟨h1, h2⟩ := sum_sub_length_acc (fun p : SPattern => p.sntree.snode.size) _ h
  unfold premergePsdConesAdded decomposableConeCount
  rw [foldl_add_eq_sum_acc (fun p : SPattern => p.sntree.snode.size), Nat.zero_add,
    ← Array.length_toList, usizeSub_ok_acc _ _ _ h1, h2]

/-- [S] the subtraction of `final_psd_cones_added` DOES underflow (debug-build panic) when the
patterns hold fewer cliques than there are patterns -/
theorem finalPsdConesAdded_panic (ci : ChordalInfo)
    (h : (ci.spatterns.toList.map (fun p => p.sntree.nCliques)).sum < ci.spatterns.size) :
    ci.finalPsdConesAdded = .error (.panic "final_psd_cones_added: attempt to subtract with overflow") := by
  unfold finalPsdConesAdded decomposableConeCount
  rw [foldl_add_eq_sum_acc (fun p : SPattern => p.sntree.nCliques), Nat.zero_add]
  exact usizeSub_panic_acc _ _ _ h

/-- [S] `final_cone_count` -/
theorem finalConeCount_eq (ci : ChordalInfo)
    (h : ∀ p ∈ ci.spatterns.toList, 1 ≤ p.sntree.nCliques) :
    ci.finalConeCount =
      .ok (ci.initCones.size + (ci.spatterns.toList.map (fun p => p.sntree.nCliques - 1)).sum) := by
  unfold finalConeCount
  rw [finalPsdConesAdded_eq ci h]
  rfl

/-- [S] `final_psd_cone_count` -/
theorem finalPsdConeCount_eq (ci : ChordalInfo)
    (h : ∀ p ∈ ci.spatterns.toList, 1 ≤ p.sntree.nCliques) :
    ci.finalPsdConeCount = .ok ((ci.initCones.toList.filter Cone.isPsd).length +
      (ci.spatterns.toList.map (fun p => p.sntree.nCliques - 1)).sum) := by
  unfold finalPsdConeCount
  rw [finalPsdConesAdded_eq ci h]
  rfl

/-- [S] `premerge_psd_cone_count` -/
theorem premergePsdConeCount_eq (ci : ChordalInfo)
    (h : ∀ p ∈ ci.spatterns.toList, 1 ≤ p.sntree.snode.size) :
    ci.premergePsdConeCount = .ok ((ci.initCones.toList.filter Cone.isPsd).length +
      (ci.spatterns.toList.map (fun p => p.sntree.snode.size - 1)).sum) := by
  unfold premergePsdConeCount
  rw [premergePsdConesAdded_eq ci h]
  rfl

/-- [S] **the four counters of the configuration header**: no underflow, and their values -/
theorem headerCounts_eq (ci : ChordalInfo)
    (h1 : ∀ p ∈ ci.spatterns.toList, 1 ≤ p.sntree.nCliques)
    (h2 : ∀ p ∈ ci.spatterns.toList, 1 ≤ p.sntree.snode.size) :
    ci.headerCounts = .ok
      { initPsd := (ci.initCones.toList.filter Cone.isPsd).length,
        decomposable := ci.spatterns.size,
        premerge := (ci.initCones.toList.filter Cone.isPsd).length +
          (ci.spatterns.toList.map (fun p => p.sntree.snode.size - 1)).sum,
        final := (ci.initCones.toList.filter Cone.isPsd).length +
          (ci.spatterns.toList.map (fun p => p.sntree.nCliques - 1)).sum } := by
  unfold headerCounts
  rw [premergePsdConeCount_eq ci h2, finalPsdConeCount_eq ci h1]
  rfl

end ChordalInfo

/-- every stored pattern of an analysis result is a `ValidPattern` -/
theorem FromAnalysis.validPattern_acc {ci : ChordalInfo} {E : Nat → List (Nat × Nat)}
    (h : FromAnalysis ci E) (p : SPattern) (hp : p ∈ ci.spatterns.toList) : ValidPattern p := by
  obtain ⟨k, hk, hkp⟩ := List.getElem_of_mem hp
  have hk' : ci.spatterns[k]? = some p := by
    rw [Array.length_toList] at hk
    rw [Array.getElem?_eq_getElem hk, ← hkp, Array.getElem_toList]
  obtain ⟨d, _, hr⟩ := h.ready k p hk'
  exact hr.1

theorem ValidTree.snode_size_pos_acc {t : SuperNodeTree} {n : Nat} (h : ValidTree t n) :
    1 ≤ t.snode.size := by
  have := h.post_lt 0 h.ncl_pos
  omega

/-- [S] the header counters on the result of the analysis -/
theorem FromAnalysis.headerCounts_eq {ci : ChordalInfo} {E : Nat → List (Nat × Nat)}
    (h : FromAnalysis ci E) :
    ci.headerCounts = .ok
      { initPsd := (ci.initCones.toList.filter Cone.isPsd).length,
        decomposable := ci.spatterns.size,
        premerge := (ci.initCones.toList.filter Cone.isPsd).length +
          (ci.spatterns.toList.map (fun p => p.sntree.snode.size - 1)).sum,
        final := (ci.initCones.toList.filter Cone.isPsd).length +
          (ci.spatterns.toList.map (fun p => p.sntree.nCliques - 1)).sum } ∧
    ci.finalConeCount =
      .ok (ci.initCones.size + (ci.spatterns.toList.map (fun p => p.sntree.nCliques - 1)).sum) := by
  have h1 : ∀ p ∈ ci.spatterns.toList, 1 ≤ p.sntree.nCliques :=
    fun p hp => (h.validPattern_acc p hp).tree.ncl_pos
  have h2 : ∀ p ∈ ci.spatterns.toList, 1 ≤ p.sntree.snode.size :=
    fun p hp => (h.validPattern_acc p hp).tree.snode_size_pos_acc
  exact ⟨ci.headerCounts_eq h1 h2, ci.finalConeCount_eq h1⟩

/-! ## 3. `largest_nblk` -/

theorem le_foldl_max_acc (l : List Nat) (a : Nat) : a ≤ l.foldl max a := by
  induction l generalizing a with
  | nil => exact Nat.le_refl _
  | cons x t ih => exact Nat.le_trans (Nat.le_max_left a x) (ih (max a x))

theorem mem_le_foldl_max_acc (l : List Nat) (a x : Nat) (hx : x ∈ l) : x ≤ l.foldl max a := by
  induction l generalizing a with
  | nil => cases hx
  | cons y t ih =>
    rw [List.foldl_cons]
    rcases List.mem_cons.1 hx with h | h
    · subst h
      exact Nat.le_trans (Nat.le_max_right a x) (le_foldl_max_acc t (max a x))
    · exact ih (max a y) h

/-- the body of the loop of `largest_nblk` -/
def largestNblkStep (maxBlock : Nat) (sp : SPattern) : MErr Nat :=
  match sp.sntree.nblk with
  | none => throw (.panic "largest_nblk: nblk.unwrap()")
  | some nb => pure (max maxBlock (nb.toList.foldl max 0))

theorem largestNblk_eq_foldlM_acc (ci : ChordalInfo) :
    ci.largestNblk = ci.spatterns.toList.foldlM largestNblkStep 0 := rfl

theorem largestNblk_loop_acc (l : List SPattern) (a : Nat)
    (h : ∀ p ∈ l, ∃ nb, p.sntree.nblk = some nb) :
    ∃ v, l.foldlM largestNblkStep a = .ok v ∧ a ≤ v ∧
      ∀ p ∈ l, ∀ nb, p.sntree.nblk = some nb → ∀ x ∈ nb.toList, x ≤ v := by
  induction l generalizing a with
  | nil => exact ⟨a, rfl, Nat.le_refl _, fun p hp => by cases hp⟩
  | cons q t ih =>
    obtain ⟨nbq, hq⟩ := h q List.mem_cons_self
    obtain ⟨v, hv, hav, hall⟩ := ih (max a (nbq.toList.foldl max 0))
      (fun p hp => h p (List.mem_cons_of_mem _ hp))
    refine ⟨v, ?_, Nat.le_trans (Nat.le_max_left _ _) hav, ?_⟩
    · rw [List.foldlM_cons]
      have : largestNblkStep a q = .ok (max a (nbq.toList.foldl max 0)) := by
        unfold largestNblkStep; rw [hq]; rfl
      rw [this]
      exact hv
    · intro p hp nb hnb x hx
      rcases List.mem_cons.1 hp with e | e
      · subst e
        rw [hq] at hnb
        cases hnb
        exact Nat.le_trans (mem_le_foldl_max_acc _ 0 x hx)
          (Nat.le_trans (Nat.le_max_right _ _) hav)
      · exact hall p e nb hnb x hx

/-- [S] **`largest_nblk` does not panic** when every stored pattern carries its block sizes, and
the clique buffer it sizes is large enough for every block of every pattern -/
theorem ChordalInfo.largestNblk_ok (ci : ChordalInfo)
    (h : ∀ p ∈ ci.spatterns.toList, ∃ nb, p.sntree.nblk = some nb) :
    ∃ v, ci.largestNblk = .ok v ∧
      ∀ p ∈ ci.spatterns.toList, ∀ nb, p.sntree.nblk = some nb → ∀ x ∈ nb.toList, x ≤ v := by
  obtain ⟨v, h1, _, h3⟩ := largestNblk_loop_acc ci.spatterns.toList 0 h
  exact ⟨v, by rw [largestNblk_eq_foldlM_acc]; exact h1, h3⟩

/-- [S] `largest_nblk` DOES panic when some stored pattern has `nblk = None`
(`nblk.as_ref().unwrap()`) -/
theorem largestNblk_loop_panic_acc (l : List SPattern) (a : Nat)
    (h : ∃ p ∈ l, p.sntree.nblk = none) :
    l.foldlM largestNblkStep a = .error (.panic "largest_nblk: nblk.unwrap()") := by
  induction l generalizing a with
  | nil => obtain ⟨p, hp, _⟩ := h; cases hp
  | cons q t ih =>
    rw [List.foldlM_cons]
    cases hq : q.sntree.nblk with
    | none =>
      have : largestNblkStep a q = .error (.panic "largest_nblk: nblk.unwrap()") := by
        unfold largestNblkStep; rw [hq]; rfl
      rw [this]; rfl
    | some nb =>
      have : largestNblkStep a q = .ok (max a (nb.toList.foldl max 0)) := by
        unfold largestNblkStep; rw [hq]; rfl
      rw [this]
      obtain ⟨p, hp, hpn⟩ := h
      rcases List.mem_cons.1 hp with e | e
      · subst e; rw [hq] at hpn; cases hpn
      · exact ih _ ⟨p, e, hpn⟩

theorem ChordalInfo.largestNblk_panic (ci : ChordalInfo)
    (h : ∃ p ∈ ci.spatterns.toList, p.sntree.nblk = none) :
    ci.largestNblk = .error (.panic "largest_nblk: nblk.unwrap()") := by
  rw [largestNblk_eq_foldlM_acc]; exact largestNblk_loop_panic_acc _ 0 h

/-- [S] with the clique buffer allocated (`largest_nblk`), `decomp_reverse_compact` is the older
model, which leaves the allocation out -/
theorem decompReverseCompactFull_eq [Add α] [OfNat α 0] (ci : ChordalInfo)
    (h : ∀ p ∈ ci.spatterns.toList, ∃ nb, p.sntree.nblk = some nb)
    (cm : Array ConeMapEntry) (oc : Array Cone) (s z : Array α) :
    decompReverseCompactFull ci cm oc s z = decompReverseCompact ci cm oc s z := by
  obtain ⟨v, hv, _⟩ := ci.largestNblk_ok h
  unfold decompReverseCompactFull
  rw [hv]
  rfl

/-- every stored pattern of an analysis result carries `nblk` -/
theorem FromAnalysis.nblk_some {ci : ChordalInfo} {E : Nat → List (Nat × Nat)}
    (h : FromAnalysis ci E) : ∀ p ∈ ci.spatterns.toList, ∃ nb, p.sntree.nblk = some nb := by
  intro p hp
  obtain ⟨nb, hnb, _⟩ := (h.validPattern_acc p hp).tree.nblk
  exact ⟨nb, hnb⟩

/-- [S] on an analysis result `largest_nblk` does not panic and the full reversal is the older
model -/
theorem FromAnalysis.decompReverseCompactFull_eq [Add α] [OfNat α 0] {ci : ChordalInfo}
    {E : Nat → List (Nat × Nat)} (h : FromAnalysis ci E)
    (cm : Array ConeMapEntry) (oc : Array Cone) (s z : Array α) :
    (∃ v, ci.largestNblk = .ok v ∧
      ∀ p ∈ ci.spatterns.toList, ∀ nb, p.sntree.nblk = some nb → ∀ x ∈ nb.toList, x ≤ v) ∧
    decompReverseCompactFull ci cm oc s z = decompReverseCompact ci cm oc s z :=
  ⟨ci.largestNblk_ok h.nblk_some, Clarabel.Chordal.decompReverseCompactFull_eq ci h.nblk_some cm oc s z⟩

/-! ## 4. `alternating_sequence` -/

theorem foldl_setIfInBounds_size_acc {β γ : Type} (l : List γ) (pos : γ → Nat) (val : γ → β)
    (v : Array β) :
    (l.foldl (fun (v : Array β) k => v.setIfInBounds (pos k) (val k)) v).size = v.size := by
  induction l generalizing v with
  | nil => rfl
  | cons x t ih => rw [List.foldl_cons, ih, Array.size_setIfInBounds]

theorem alternatingSequence_size [OfNat α 1] [Neg α] (total nStart : Nat) :
    (alternatingSequence (α := α) total nStart).size = total := by
  unfold alternatingSequence
  rw [foldl_setIfInBounds_size_acc _ (fun k => nStart + 1 + 2 * k) (fun _ => (-1 : α)), Array.size_replicate]

theorem alternatingSequence_loop_acc [OfNat α 1] [Neg α] (total nStart m i : Nat) (hi : i < total) :
    ((List.range m).foldl (fun (v : Array α) k => v.setIfInBounds (nStart + 1 + 2 * k) (-1))
      (Array.replicate total 1))[i]? =
      some (if nStart < i ∧ (i - nStart) % 2 = 1 ∧ (i - nStart) / 2 < m then -1 else 1) := by
  induction m with
  | zero => simp [hi]
  | succ m ih =>
    rw [List.range_succ, List.foldl_append, List.foldl_cons, List.foldl_nil,
      Array.getElem?_setIfInBounds, ih,
      foldl_setIfInBounds_size_acc _ (fun k => nStart + 1 + 2 * k) (fun _ => (-1 : α)),
      Array.size_replicate]
    by_cases hpos : nStart + 1 + 2 * m = i
    · rw [if_pos hpos, if_pos (by omega), if_pos (by omega)]
    · rw [if_neg hpos]
      by_cases hc : nStart < i ∧ (i - nStart) % 2 = 1 ∧ (i - nStart) / 2 < m
      · rw [if_pos hc, if_pos (by omega)]
      · rw [if_neg hc, if_neg (by omega)]

/-- [S] **`alternating_sequence`**: ones, except `-1` at `n_start + 1, n_start + 3, …` -/
theorem alternatingSequence_getElem? [OfNat α 1] [Neg α] (total nStart i : Nat) (hi : i < total) :
    (alternatingSequence (α := α) total nStart)[i]? =
      some (if nStart < i ∧ (i - nStart) % 2 = 1 then -1 else 1) := by
  unfold alternatingSequence
  rw [alternatingSequence_loop_acc total nStart _ i hi]
  by_cases hc : nStart < i ∧ (i - nStart) % 2 = 1
  · rw [if_pos hc, if_pos (by omega)]
  · rw [if_neg hc, if_neg (by omega)]

theorem alternatingSequence_getD [OfNat α 1] [Neg α] (total nStart i : Nat) (hi : i < total) (d : α) :
    (alternatingSequence (α := α) total nStart).getD i d =
      if nStart < i ∧ (i - nStart) % 2 = 1 then -1 else 1 := by
  rw [Array.getD_eq_getD_getElem?, alternatingSequence_getElem? total nStart i hi, Option.getD_some]

/-- the `j`-th entry of `[f 0, g 0, f 1, g 1, …, f (k-1), g (k-1)]` -/
theorem pairs_getElem?_acc {β : Type} (f g : Nat → β) (k j : Nat) (hj : j < 2 * k) :
    ((List.range k).flatMap (fun o => [f o, g o]))[j]? =
      some (if j % 2 = 0 then f (j / 2) else g (j / 2)) := by
  induction k with
  | zero => omega
  | succ k ih =>
    rw [List.range_succ, List.flatMap_append]
    have hlen : ((List.range k).flatMap (fun o => [f o, g o])).length = 2 * k :=
      pairs_length k _ (fun _ => rfl)
    by_cases hjk : j < 2 * k
    · rw [List.getElem?_append_left (by rw [hlen]; exact hjk)]
      exact ih hjk
    · rw [List.getElem?_append_right (by rw [hlen]; omega), hlen]
      simp only [List.flatMap_cons, List.flatMap_nil, List.append_nil]
      rcases (by omega : j = 2 * k ∨ j = 2 * k + 1) with e | e
      · subst e
        rw [Nat.sub_self, if_pos (by omega), show 2 * k / 2 = k by omega]
        rfl
      · subst e
        rw [show 2 * k + 1 - 2 * k = 1 by omega, if_neg (by omega), show (2 * k + 1) / 2 = k by omega]
        rfl

/-- [S] the closed form of `alternating_sequence(nnz + 2 k, nnz)` — the expression inlined in
`findCompactTriplets` (before `findnz` overwrites the first `nnz` ones with `A.nzval`) -/
theorem alternatingSequence_eq_pairs [OfNat α 1] [Neg α] (nnz k : Nat) :
    alternatingSequence (α := α) (nnz + 2 * k) nnz =
      Array.replicate nnz 1 ++ ((List.range k).flatMap (fun _ => [(1 : α), -1])).toArray := by
  have hlen : ((List.range k).flatMap (fun _ => [(1 : α), -1])).length = 2 * k :=
    pairs_length k _ (fun _ => rfl)
  apply Array.ext_getElem?
  intro i
  by_cases hi : i < nnz + 2 * k
  · rw [alternatingSequence_getElem? _ _ i hi]
    by_cases h1 : i < nnz
    · rw [Array.getElem?_append_left (by rw [Array.size_replicate]; exact h1), if_neg (by omega)]
      simp [h1]
    · rw [Array.getElem?_append_right (by rw [Array.size_replicate]; omega), Array.size_replicate,
        List.getElem?_toArray, pairs_getElem?_acc (fun _ => (1 : α)) (fun _ => -1) k _ (by omega)]
      by_cases hc : nnz < i ∧ (i - nnz) % 2 = 1
      · rw [if_pos hc, if_neg (by omega)]
      · rw [if_neg hc, if_pos (by omega)]
  · rw [Array.getElem?_eq_none (by rw [alternatingSequence_size]; omega),
      Array.getElem?_eq_none (by rw [Array.size_append, Array.size_replicate, List.size_toArray, hlen]; omega)]

/-! ## 5. `extra_columns` -/

theorem extraColumns_zero (nStart sv : Nat) :
    extraColumns 0 nStart sv = .error (.panic "extra_columns: underflow") := rfl

theorem extraColumns_loop_acc (total nStart sv m i : Nat) (hm : nStart + 2 * m ≤ total) :
    ((List.range m).foldl (fun (v : Array Nat) k =>
        (v.setIfInBounds (nStart + 2 * k) (sv + k)).setIfInBounds (nStart + 2 * k + 1) (sv + k))
      (Array.replicate total 0))[i]? =
      if i < total then some (if nStart ≤ i ∧ (i - nStart) / 2 < m then sv + (i - nStart) / 2 else 0)
      else none := by
  induction m with
  | zero => by_cases hit : i < total <;> simp [hit]
  | succ m ih =>
    have hsz : ∀ m', ((List.range m').foldl (fun (v : Array Nat) k =>
        (v.setIfInBounds (nStart + 2 * k) (sv + k)).setIfInBounds (nStart + 2 * k + 1) (sv + k))
        (Array.replicate total 0)).size = total := by
      intro m'
      induction m' with
      | zero => simp
      | succ m' ih' =>
        rw [List.range_succ, List.foldl_append, List.foldl_cons, List.foldl_nil,
          Array.size_setIfInBounds, Array.size_setIfInBounds, ih']
    rw [List.range_succ, List.foldl_append, List.foldl_cons, List.foldl_nil,
      Array.getElem?_setIfInBounds, Array.getElem?_setIfInBounds, ih (by omega),
      Array.size_setIfInBounds, hsz]
    by_cases h1 : nStart + 2 * m + 1 = i
    · rw [if_pos h1, if_pos (by omega), if_pos (by omega), if_pos (by omega),
        show (i - nStart) / 2 = m by omega]
    · rw [if_neg h1]
      by_cases h0 : nStart + 2 * m = i
      · rw [if_pos h0, if_pos (by omega), if_pos (by omega), if_pos (by omega),
          show (i - nStart) / 2 = m by omega]
      · rw [if_neg h0]
        by_cases hit : i < total
        · rw [if_pos hit, if_pos hit]
          by_cases hc : nStart ≤ i ∧ (i - nStart) / 2 < m
          · rw [if_pos hc, if_pos (by omega)]
          · rw [if_neg hc, if_neg (by omega)]
        · rw [if_neg hit, if_neg hit]

/-- [S] **`extra_columns`**: the closed form of `extra_columns(n_start + 2 k, n_start, start_val)` —
the expression inlined in `findCompactTriplets` (before `findnz` overwrites the first `n_start`
zeros with the column indices of `A`) -/
theorem extraColumns_eq_pairs (nStart k sv : Nat) (hpos : 0 < nStart + 2 * k) :
    extraColumns (nStart + 2 * k) nStart sv =
      .ok (Array.replicate nStart 0 ++ ((List.range k).flatMap (fun o => [sv + o, sv + o])).toArray) := by
  have hlen : ((List.range k).flatMap (fun o => [sv + o, sv + o])).length = 2 * k :=
    pairs_length k _ (fun _ => rfl)
  unfold extraColumns
  rw [if_neg (by omega)]
  show Except.ok _ = Except.ok _
  congr 1
  have hk : (nStart + 2 * k - 1 - nStart + 1) / 2 = k := by omega
  rw [hk]
  apply Array.ext_getElem?
  intro i
  rw [extraColumns_loop_acc (nStart + 2 * k) nStart sv k i (Nat.le_refl _)]
  by_cases hi : i < nStart + 2 * k
  · rw [if_pos hi]
    by_cases h1 : i < nStart
    · rw [Array.getElem?_append_left (by rw [Array.size_replicate]; exact h1), if_neg (by omega)]
      simp [h1]
    · rw [Array.getElem?_append_right (by rw [Array.size_replicate]; omega), Array.size_replicate,
        List.getElem?_toArray, pairs_getElem?_acc (fun o => sv + o) (fun o => sv + o) k _ (by omega),
        if_pos (by omega)]
      simp
  · rw [if_neg hi, Array.getElem?_eq_none
      (by rw [Array.size_append, Array.size_replicate, List.size_toArray, hlen]; omega)]


theorem foldlM_congr_acc {σ β : Type} (f g : σ → β → MErr σ) (l : List β) (s0 : σ)
    (h : ∀ s x, x ∈ l → f s x = g s x) : l.foldlM f s0 = l.foldlM g s0 := by
  induction l generalizing s0 with
  | nil => rfl
  | cons x t ih =>
    rw [List.foldlM_cons, List.foldlM_cons, h s0 x List.mem_cons_self]
    cases g s0 x with
    | error e => rfl
    | ok s1 => exact ih s1 (fun s y hy => h s y (List.mem_cons_of_mem _ hy))

/-! ## 6. `find_A_dimension`, `find_H_col_dimension` -/

/-- [S] `find_A_dimension` returns the dimensions that `find_compact_A_b_and_cones` hands to
`new_from_triplets` -/
theorem findADimension_of_triplets [Neg α] [OfNat α 0] [OfNat α 1] [BEq α] (ci : ChordalInfo) (A : Csc α)
    (b : Array α) (tr : CompactTriplets α) (hok : findCompactTriplets ci A b = .ok tr) :
    ci.findADimension A = .ok (tr.dim, A.n + tr.nOverlaps, tr.nOverlaps) := by
  unfold findCompactTriplets at hok
  unfold ChordalInfo.findADimension
  cases hdd : ci.getDecomposedDimAndOverlaps with
  | error e => rw [hdd] at hok; simp [bind, Except.bind] at hok
  | ok dn =>
    obtain ⟨dim, nov⟩ := dn
    rw [hdd] at hok
    simp only [bind, Except.bind] at hok ⊢
    split at hok
    · cases hok
    · split at hok
      · cases hok
      · obtain ⟨r, _, hr⟩ := bind_ok_inv' _ _ _ hok
        obtain ⟨st, k⟩ := r
        have := Except.ok.inj hr
        subst this
        rfl

/-- [S] `find_H_col_dimension` returns the number of columns of the `H` that
`find_standard_H_and_cones` builds -/
theorem findHColDimension_of_stdH (ci : ChordalInfo) (h : ChordalInfo.StdH)
    (hok : ci.findStandardHAndCones = .ok h) : ci.findHColDimension = .ok h.lenH := by
  unfold ChordalInfo.findStandardHAndCones at hok
  unfold ChordalInfo.findHColDimension
  cases hdd : ci.getDecomposedDimAndOverlaps with
  | error e => rw [hdd] at hok; simp [bind, Except.bind] at hok
  | ok dn =>
    obtain ⟨lenH, nov⟩ := dn
    rw [hdd] at hok
    simp only [bind, Except.bind] at hok ⊢
    obtain ⟨r, _, hr⟩ := bind_ok_inv' _ _ _ hok
    obtain ⟨HI, cn, row, k⟩ := r
    simp only at hr
    split at hr
    · cases hr
    · have := Except.ok.inj hr
      subst this
      rfl

/-- [S] both are the first / both components of `get_decomposed_dim_and_overlaps` -/
theorem findADimension_eq (ci : ChordalInfo) (A : Csc α) (d o : Nat)
    (h : ci.getDecomposedDimAndOverlaps = .ok (d, o)) :
    ci.findADimension A = .ok (d, A.n + o, o) ∧ ci.findHColDimension = .ok d := by
  unfold ChordalInfo.findADimension ChordalInfo.findHColDimension
  rw [h]
  exact ⟨rfl, rfl⟩

/-! ## 7. `decompose_with_cone` -/

theorem foldl_push_range_acc (row n : Nat) (a : Array Nat) :
    (List.range n).foldl (fun (a : Array Nat) i => a.push (row + i)) a =
      a ++ (List.range' row n).toArray := by
  induction n with
  | zero => simp
  | succ n ih =>
    rw [List.range_succ, List.foldl_append, List.foldl_cons, List.foldl_nil, ih]
    apply Array.toList_inj.1
    rw [Array.toList_push, Array.toList_append, Array.toList_append, List.toList_toArray,
      List.toList_toArray, List.append_assoc, ← List.range'_append (s := row) (m := n) (n := 1)]
    simp

/-- [S] **`decompose_with_cone`** appends the identity block `row .. row + nvars` and the cone — the
`none` branch of the loop of `findStandardHAndCones` -/
theorem decomposeWithCone_eq (HI : Array Nat) (cn : Array Cone) (cone : Cone) (row : Nat) :
    ChordalInfo.decomposeWithCone HI cn cone row =
      (HI ++ (List.range' row cone.nvars).toArray, cn.push cone) := by
  unfold ChordalInfo.decomposeWithCone
  rw [foldl_push_range_acc]

/-! ## 8. `get_rows_mat`, `get_rows_vec` -/

/-- [S] `get_rows_vec` is `get_rows_subset` on the whole index vector (what `shiftSeg` /
`addCliqueCols` are called with for `b`) -/
theorem getRowsVec_eq (bInd : Array Nat) (rs re : Nat) :
    getRowsVec bInd rs re = getRowsSubset bInd 0 bInd.size rs re := rfl

/-- [S] **`get_rows_mat`** on a well formed matrix does not panic and is the `get_rows_subset`
expression that the loops `addEntriesWithCone` / `addCliqueCols` inline -/
theorem getRowsMat_eq (A : Csc α) (hA : CscWF A) (col : Nat) (hcol : col < A.n) (rs re : Nat) :
    getRowsMat A col rs re =
      .ok (getRowsSubset A.rowval (A.colptr.getD col 0) (A.colptr.getD (col + 1) 0) rs re) := by
  unfold getRowsMat
  rw [getE_ok A.colptr col _ 0 (by rw [hA.cp_size]; omega),
    getE_ok A.colptr (col + 1) _ 0 (by rw [hA.cp_size]; omega)]
  simp only [bind, Except.bind]
  have h1 := hA.cp_mono col hcol
  have h2 := hA.cp_le_nnz (col + 1) (by omega)
  have h3 := hA.nnz_le
  rw [if_neg (by omega)]
  rfl

/-- [S] the loop `for col in 0..n` of `add_entries_with_cone` written with `get_rows_mat` -/
theorem addEntriesWithCone_cols_eq (A : Csc α) (hA : CscWF A) (rs re rowPtr : Nat) (AaI0 : Array Nat) :
    (List.range A.n).foldlM (fun (AaI : Array Nat) col => do
        let lo ← getE A.colptr col "get_rows_mat"
        let hi ← getE A.colptr (col + 1) "get_rows_mat"
        shiftSeg AaI A.rowval lo hi rs re rowPtr) AaI0 =
    (List.range A.n).foldlM (fun (AaI : Array Nat) col => do
        let r ← getRowsMat A col rs re
        match r with
        | some (s, e) => shiftRows AaI A.rowval s (e - s) rowPtr rs
        | none => pure AaI) AaI0 := by
  apply foldlM_congr_acc
  intro AaI col hcol
  rw [List.mem_range] at hcol
  rw [getRowsMat_eq A hA col hcol,
    getE_ok A.colptr col _ 0 (by rw [hA.cp_size]; omega),
    getE_ok A.colptr (col + 1) _ 0 (by rw [hA.cp_size]; omega)]
  rfl


/-- [S] the `b` part of `add_entries_with_cone` written with `get_rows_vec` -/
theorem shiftSeg_b_eq_named (v bInd : Array Nat) (rs re rowPtr : Nat) :
    shiftSeg v bInd 0 bInd.size rs re rowPtr =
      (match getRowsVec bInd rs re with
        | some (s, e) => shiftRows v bInd s (e - s) rowPtr rs
        | none => pure v) := rfl

/-- [S] the loop `for col in 0..n` of `add_entries_with_sparsity_pattern` written with `get_rows_mat` /
`get_rows_vec` (and their `unwrap_or(0..0)`) -/
theorem addCliqueCols_eq_named (A : Csc α) (hA : CscWF A) (bInd : Array Nat) (rs re : Nat)
    (blockIndices : List (Nat × Nat × Bool)) (parentClique : Array Nat) (parentStart rowPtr : Nat)
    (AaI baI : Array Nat) (overlapPtr : Nat) :
    addCliqueCols A bInd rs re blockIndices parentClique parentStart rowPtr AaI baI overlapPtr =
    (List.range A.n).foldlM (fun (acc : Array Nat × Array Nat × Nat) col => do
      let r ← getRowsMat A col rs re
      let rangeCol := r.getD (0, 0)
      let rangeB := if col == 0 then (getRowsVec bInd rs re).getD (0, 0) else (0, 0)
      addCliqueEntries A.rowval bInd parentClique parentStart col rowPtr rs rangeCol rangeB blockIndices
        acc.1 acc.2.1 acc.2.2) (AaI, baI, overlapPtr) := by
  unfold addCliqueCols
  apply foldlM_congr_acc
  intro acc col hcol
  rw [List.mem_range] at hcol
  rw [getRowsMat_eq A hA col hcol,
    getE_ok A.colptr col _ 0 (by rw [hA.cp_size]; omega),
    getE_ok A.colptr (col + 1) _ 0 (by rw [hA.cp_size]; omega)]
  rfl

/-! ## 9. `row_sums` / `number_of_overlaps_in_rows` of `H` -/

theorem zip_replicate_acc {β γ : Type} (l : List β) (c : γ) (n : Nat) (h : l.length = n) :
    l.zip (List.replicate n c) = l.map (fun r => (r, c)) := by
  subst h
  induction l with
  | nil => rfl
  | cons x t ih => rw [List.length_cons, List.replicate_succ, List.zip_cons_cons, ih, List.map_cons]

/-- [S] `row_sums` of the CSC form of `H` is the older model's `hRowSums` (all stored values are
`1`) -/
theorem cscRowSums_toCsc [Add α] [OfNat α 0] [OfNat α 1] (h : ChordalInfo.StdH)
    (hsz : h.HI.size = h.lenH) :
    cscRowSums (h.toCsc (α := α)) = hRowSums h.rows h.HI := by
  unfold cscRowSums hRowSums ChordalInfo.StdH.toCsc
  simp only
  rw [Array.toList_replicate, zip_replicate_acc _ _ _ (by rw [Array.length_toList]; exact hsz),
    List.foldlM_map]

/-- [S] **`number_of_overlaps_in_rows(H)`**: the rows whose count of ones exceeds one, with those
counts -/
theorem numberOfOverlapsInRows_toCsc [Add α] [OfNat α 0] [OfNat α 1] [LT α] [DecidableLT α]
    (h : ChordalInfo.StdH) (hsz : h.HI.size = h.lenH) (y : Array α)
    (hy : hRowSums h.rows h.HI = .ok y) :
    numberOfOverlapsInRows (h.toCsc (α := α)) =
      .ok (((List.range y.size).filter (fun i => decide ((1 : α) < y.getD i 0))).toArray,
           (((List.range y.size).filter (fun i => decide ((1 : α) < y.getD i 0))).map
              (fun i => y.getD i 0)).toArray) := by
  unfold numberOfOverlapsInRows
  rw [cscRowSums_toCsc h hsz, hy]
  rfl

/-- the loop `for (ri, nnz) in zip(rows, nnzs) { z[ri] /= nnz }` of `decomp_reverse_standard` -/
def divideRows [Div α] (z : Array α) (rows : Array Nat) (nnzs : Array α) : Array α :=
  (rows.toList.zip nnzs.toList).foldl (fun (z : Array α) e =>
    match z[e.1]? with
    | some zr => z.setIfInBounds e.1 (zr / e.2)
    | none => z) z

theorem zip_map_self_acc {β γ : Type} (l : List β) (f : β → γ) :
    l.zip (l.map f) = l.map (fun x => (x, f x)) := by
  induction l with
  | nil => rfl
  | cons x t ih => rw [List.map_cons, List.zip_cons_cons, ih, List.map_cons]

/-- [S] the averaging loop that `decompReverseStandard` inlines (over all rows, guarded by
`1 < count`) is the loop over exactly the rows / counts that `number_of_overlaps_in_rows` returns -/
theorem reverseStandard_loop_eq_divideRows [Div α] [OfNat α 0] [OfNat α 1] [LT α] [DecidableLT α]
    (y z : Array α) :
    (List.range y.size).foldl (fun (z : Array α) ri =>
      match y[ri]?, z[ri]? with
      | some c, some zr => if (1 : α) < c then z.setIfInBounds ri (zr / c) else z
      | _, _ => z) z =
    divideRows z ((List.range y.size).filter (fun i => decide ((1 : α) < y.getD i 0))).toArray
      (((List.range y.size).filter (fun i => decide ((1 : α) < y.getD i 0))).map
        (fun i => y.getD i 0)).toArray := by
  unfold divideRows
  rw [List.toList_toArray, List.toList_toArray, zip_map_self_acc, List.foldl_map, List.foldl_filter]
  have key : ∀ (l : List Nat) (z : Array α), (∀ i ∈ l, i < y.size) →
      l.foldl (fun (z : Array α) ri =>
        match y[ri]?, z[ri]? with
        | some c, some zr => if (1 : α) < c then z.setIfInBounds ri (zr / c) else z
        | _, _ => z) z =
      l.foldl (fun (x : Array α) i => if decide ((1 : α) < y.getD i 0) = true then
        (match x[i]? with
          | some zr => x.setIfInBounds i (zr / y.getD i 0)
          | none => x) else x) z := by
    intro l
    induction l with
    | nil => intro z _; rfl
    | cons i t ih =>
      intro z hl
      rw [List.foldl_cons, List.foldl_cons]
      have hi : i < y.size := hl i List.mem_cons_self
      have hyi : y[i]? = some (y.getD i 0) := by
        rw [Array.getD_eq_getD_getElem?, Array.getElem?_eq_getElem hi, Option.getD_some]
      have hstep : (match y[i]?, z[i]? with
          | some c, some zr => if (1 : α) < c then z.setIfInBounds i (zr / c) else z
          | _, _ => z) =
          (if decide ((1 : α) < y.getD i 0) = true then
            (match z[i]? with
              | some zr => z.setIfInBounds i (zr / y.getD i 0)
              | none => z) else z) := by
        rw [hyi]
        cases hz : z[i]? with
        | none => simp
        | some zr => simp
      rw [hstep]
      exact ih _ (fun j hj => hl j (List.mem_cons_of_mem _ hj))
  exact key _ z (fun i hi => List.mem_range.1 hi)


/-- [S] **`decomp_reverse_standard` written with `number_of_overlaps_in_rows(H)`** as in the Rust
code — two `gemv`s, then `z[ri] /= nnz` over the returned rows — is the older model -/
theorem decompReverseStandard_eq_named [Add α] [Mul α] [Div α] [OfNat α 0] [OfNat α 1] [LT α]
    [DecidableLT α] (h : ChordalInfo.StdH) (hsz : h.HI.size = h.lenH) (m : Nat) (oldS oldZ : Array α) :
    decompReverseStandard h m oldS oldZ =
      (if oldS.size < m ∨ oldZ.size < m then throw (.panic "slice") else do
        let s ← hGemv m h.HI (oldS.extract m oldS.size)
        let z ← hGemv m h.HI (oldZ.extract m oldZ.size)
        let r ← numberOfOverlapsInRows (h.toCsc (α := α))
        pure (s, divideRows z r.1 r.2)) := by
  unfold decompReverseStandard
  by_cases hc : oldS.size < m ∨ oldZ.size < m
  · rw [if_pos hc, if_pos hc]
  · rw [if_neg hc, if_neg hc]
    cases hs : hGemv m h.HI (oldS.extract m oldS.size) with
    | error e => rfl
    | ok s =>
      cases hz : hGemv m h.HI (oldZ.extract m oldZ.size) with
      | error e => rfl
      | ok z =>
        cases hy : hRowSums (α := α) h.rows h.HI with
        | error e =>
          have : numberOfOverlapsInRows (h.toCsc (α := α)) = .error e := by
            unfold numberOfOverlapsInRows
            rw [cscRowSums_toCsc h hsz, hy]
            rfl
          rw [this]
          rfl
        | ok y =>
          rw [numberOfOverlapsInRows_toCsc h hsz y hy]
          simp only [bind, Except.bind, pure, Except.pure]
          exact congrArg (fun w => Except.ok (s, w)) (reverseStandard_loop_eq_divideRows y z)


/-! ## non-vacuity of 1–9 -/

/-- the hypotheses of `finalPsdConesAdded_eq`, `premergePsdConesAdded_eq`, `headerCounts_eq`,
`largestNblk_ok`, `decompReverseCompactFull_eq` hold for `exCi` (one `3 × 3` PSD cone, cliques
`{0,1}`, `{1,2}`) -/
theorem exCi_counts_hyp_acc : ∀ p ∈ exCi.spatterns.toList,
    1 ≤ p.sntree.nCliques ∧ 1 ≤ p.sntree.snode.size ∧ ∃ nb, p.sntree.nblk = some nb := by
  intro p hp
  have : p = exPattern := by simpa [exCi] using hp
  subst this
  exact ⟨by decide, by decide, _, rfl⟩

example : exCi.finalPsdConesAdded = .ok 1 ∧ exCi.premergePsdConesAdded = .ok 1 ∧
    exCi.finalConeCount = .ok 2 := by
  rw [exCi.finalPsdConesAdded_eq (fun p hp => (exCi_counts_hyp_acc p hp).1),
    exCi.premergePsdConesAdded_eq (fun p hp => (exCi_counts_hyp_acc p hp).2.1),
    exCi.finalConeCount_eq (fun p hp => (exCi_counts_hyp_acc p hp).1)]
  exact ⟨rfl, rfl, rfl⟩

example : exCi.headerCounts = .ok { initPsd := 1, decomposable := 1, premerge := 2, final := 2 } := by
  rw [exCi.headerCounts_eq (fun p hp => (exCi_counts_hyp_acc p hp).1)
    (fun p hp => (exCi_counts_hyp_acc p hp).2.1)]
  rfl

/-- the underflow of `final_psd_cones_added` is reachable in the model (a stored pattern with no
clique — never produced by the analysis) -/
example : ({ initDims := (0, 0), initCones := #[], spatterns := #[{ exPattern with
      sntree := { exPattern.sntree with nCliques := 0 } }] } : ChordalInfo).finalPsdConesAdded =
    .error (.panic "final_psd_cones_added: attempt to subtract with overflow") :=
  ChordalInfo.finalPsdConesAdded_panic _ (by decide)

example : ∃ v, exCi.largestNblk = .ok v ∧ v = 2 := by
  obtain ⟨v, hv, _⟩ := exCi.largestNblk_ok (fun p hp => (exCi_counts_hyp_acc p hp).2.2)
  refine ⟨v, hv, ?_⟩
  have : exCi.largestNblk = .ok 2 := rfl
  rw [this] at hv
  exact (Except.ok.inj hv).symm

example (cm : Array ConeMapEntry) (oc : Array Cone) (s z : Array Int) :
    decompReverseCompactFull exCi cm oc s z = decompReverseCompact exCi cm oc s z :=
  decompReverseCompactFull_eq exCi (fun p hp => (exCi_counts_hyp_acc p hp).2.2) cm oc s z

/-- `largest_nblk` panics on a pattern without `nblk` -/
example : ({ initDims := (0, 0), initCones := #[], spatterns := #[{ exPattern with
      sntree := { exPattern.sntree with nblk := none } }] } : ChordalInfo).largestNblk =
    .error (.panic "largest_nblk: nblk.unwrap()") :=
  ChordalInfo.largestNblk_panic _ ⟨_, List.mem_cons_self, rfl⟩

/-- the unit test `test_alternating_sequence` of `augment_compact.rs` -/
example : alternatingSequence (α := Int) 6 2 = #[1, 1, 1, -1, 1, -1] := by
  rw [show 6 = 2 + 2 * 2 from rfl, alternatingSequence_eq_pairs]
  rfl

example : extraColumns 6 2 10 = .ok #[0, 0, 10, 10, 11, 11] := by
  rw [show 6 = 2 + 2 * 2 from rfl, extraColumns_eq_pairs 2 2 10 (by decide)]
  rfl

/-- the hypothesis of `findADimension_of_triplets` holds for `exCi`, `exA`, `exb` -/
example : ∃ tr, findCompactTriplets exCi exA exb = .ok tr ∧
    exCi.findADimension exA = .ok (tr.dim, exA.n + tr.nOverlaps, tr.nOverlaps) := by
  obtain ⟨tr, htr, _⟩ := findCompactTriplets_spec exCi exA exb exHyp ex_hnz ex_hpos
  exact ⟨tr, htr, findADimension_of_triplets exCi exA exb tr htr⟩

example : exStdCi.findHColDimension = .ok 7 :=
  findHColDimension_of_stdH exStdCi exStdH exStd_ok

example (rs re : Nat) : getRowsMat exA 0 rs re = .ok (getRowsSubset #[0, 2, 5] 0 3 rs re) :=
  getRowsMat_eq exA exA_wf 0 (by decide) rs re

/-- the hypothesis `HI.size = lenH` of `cscRowSums_toCsc`, … holds for every successful
`find_standard_H_and_cones` -/
theorem stdH_size_acc (ci : ChordalInfo) (h : ChordalInfo.StdH) (hok : ci.findStandardHAndCones = .ok h) :
    h.HI.size = h.lenH :=
  (find_standard_H_and_cones_spec ci h hok).2.2.2.1.symm

example : cscRowSums (exStdH.toCsc (α := Int)) = hRowSums exStdH.rows exStdH.HI :=
  cscRowSums_toCsc exStdH (stdH_size_acc exStdCi exStdH exStd_ok)

/-- row 3 (the entry `(1,1)` shared by the two cliques) is the only overlap, with count 2 -/
example : numberOfOverlapsInRows (exStdH.toCsc (α := Int)) = .ok (#[3], #[2]) := by
  rw [numberOfOverlapsInRows_toCsc exStdH (stdH_size_acc exStdCi exStdH exStd_ok)
    #[1, 1, 1, 2, 0, 1, 1] (by decide)]
  decide


/-! ## 10. `get_clique_by_index` -/

/-- [S] `parentInfo` (the parent part of `add_entries_with_sparsity_pattern`) written with
`get_clique_by_index` as in the Rust code -/
theorem parentInfo_eq_named (p : SPattern) (cliqueToRows : List (Nat × Nat)) (i : Nat) :
    parentInfo p cliqueToRows i =
      (if i + 1 != p.sntree.nCliques then do
        let pi ← p.sntree.getCliqueParent i
        let parentStart ← (match cliqueToRows.find? (fun e => e.1 == pi) with
          | some e => pure e.2
          | none => throw (.panic "clique_to_rows: unwrap") : MErr Nat)
        let pc ← getCliqueByIndex p.sntree pi
        let parentClique ← mapSorted p.ordering pc
        pure (parentStart, parentClique)
      else pure (0, #[])) := by
  unfold parentInfo getCliqueByIndex
  simp only
  by_cases hc : (i + 1 != p.sntree.nCliques) = true
  · rw [if_pos hc, if_pos hc]
    cases p.sntree.getCliqueParent i with
    | error e => rfl
    | ok pi =>
      simp only [bind, Except.bind]
      cases cliqueToRows.find? (fun e => e.1 == pi) with
      | none => rfl
      | some e =>
        simp only [pure, Except.pure]
        cases getE p.sntree.snode pi "get_clique_by_index" with
        | error e => rfl
        | ok sn =>
          simp only
          cases getE p.sntree.separators pi "get_clique_by_index" with
          | error e => rfl
          | ok sp => rfl
  · rw [if_neg hc, if_neg hc]

/-- [S] `get_clique_by_index` at the tree index of the clique with post-order index `j` is
`get_clique(j)` (both succeed; on an out-of-range tree index both panic, with different messages) -/
theorem getCliqueByIndex_postIdx (t : SuperNodeTree) (j : Nat) (hj : j < t.snodePost.size)
    (h1 : t.postIdx j < t.snode.size) (h2 : t.postIdx j < t.separators.size) :
    getCliqueByIndex t (t.postIdx j) = t.getClique j ∧
    t.getClique j = .ok ((t.snode.getD (t.postIdx j) #[]).extend (t.separators.getD (t.postIdx j) #[]).toList) := by
  unfold getCliqueByIndex SuperNodeTree.getClique SuperNodeTree.getSnode SuperNodeTree.getSeparators
  unfold SuperNodeTree.postIdx at h1 h2 ⊢
  rw [getE_ok t.snodePost j "get_snode" 0 hj, getE_ok t.snodePost j "get_separators" 0 hj]
  simp only [bind, Except.bind]
  rw [getE_ok t.snode _ "get_clique_by_index" #[] h1, getE_ok t.snode _ "get_snode" #[] h1,
    getE_ok t.separators _ "get_clique_by_index" #[] h2, getE_ok t.separators _ "get_separators" #[] h2]
  exact ⟨rfl, rfl⟩

theorem ValidTree.getCliqueByIndex_postIdx {t : SuperNodeTree} {n : Nat} (h : ValidTree t n) (j : Nat)
    (hj : j < t.nCliques) : getCliqueByIndex t (t.postIdx j) = t.getClique j :=
  (Clarabel.Chordal.getCliqueByIndex_postIdx t j (by rw [h.post_size]; exact hj) (h.post_lt j hj)
    (by rw [h.sep_size]; exact h.post_lt j hj)).1

/-- [S] the parent clique that `add_entries_with_sparsity_pattern` loads with
`get_clique_by_index(sntree, get_clique_parent(i))` is `get_clique(j)` of the parent's post-order
index `j` -/
theorem ValidTree.getCliqueByIndex_parent {t : SuperNodeTree} {n : Nat} (h : ValidTree t n) (i j : Nat)
    (hi : i < t.nCliques) (hpar : t.IsParent i j) :
    ∃ pi, t.getCliqueParent i = .ok pi ∧ getCliqueByIndex t pi = t.getClique j := by
  refine ⟨t.postIdx j, ?_, h.getCliqueByIndex_postIdx j hpar.1⟩
  unfold SuperNodeTree.getCliqueParent
  rw [getE_ok t.snodePost i _ 0 (by rw [h.post_size]; exact hi)]
  simp only [bind, Except.bind]
  rw [getE_ok t.snodeParent _ _ 0 (by rw [h.par_size]; exact h.post_lt i hi)]
  exact congrArg Except.ok hpar.2

example : ∃ pi, exPattern.sntree.getCliqueParent 0 = .ok pi ∧
    getCliqueByIndex exPattern.sntree pi = exPattern.sntree.getClique 1 :=
  exTreeV_valid.getCliqueByIndex_parent 0 1 (by decide) ⟨by decide, by decide⟩


/-! ## 11. `add_blocks_with_cone` -/

/-- [S] **`add_blocks_with_cone`** returns iff the two slices exist and the lengths agree, and then
it copies the block of `old_s`, `old_z` at `row_ptr` into the rows of the original cone -/
theorem addBlocksWithCone_ok_iff [OfNat α 0] (newS oldS newZ oldZ : Array α) (rs re : Nat) (cone : Cone)
    (rowPtr : Nat) (r : Array α × Array α × Nat) :
    addBlocksWithCone newS oldS newZ oldZ rs re cone rowPtr = .ok r ↔
      (rs ≤ re ∧ re ≤ newS.size ∧ rowPtr + cone.nvars ≤ oldS.size ∧ re - rs = cone.nvars ∧
        re ≤ newZ.size ∧ rowPtr + cone.nvars ≤ oldZ.size) ∧
      r = (copyRange newS oldS rs rowPtr cone.nvars, copyRange newZ oldZ rs rowPtr cone.nvars,
           rowPtr + cone.nvars) := by
  unfold addBlocksWithCone
  simp only
  by_cases h1 : re < rs ∨ newS.size < re ∨ oldS.size < rowPtr + cone.nvars
  · rw [if_pos h1]
    constructor
    · intro h; cases h
    · rintro ⟨h, _⟩; omega
  · rw [if_neg h1]
    by_cases h2 : re - rs = cone.nvars
    · rw [if_neg (by simp [h2])]
      by_cases h3 : newZ.size < re ∨ oldZ.size < rowPtr + cone.nvars
      · rw [if_pos h3]
        constructor
        · intro h; cases h
        · rintro ⟨h, _⟩; omega
      · rw [if_neg h3]
        constructor
        · intro h
          exact ⟨by omega, (Except.ok.inj h).symm⟩
        · rintro ⟨_, h⟩; rw [h]; rfl
    · rw [if_pos (by simp [h2])]
      constructor
      · intro h; cases h
      · rintro ⟨h, _⟩; omega

/-- the `none` branch of `reverseConeStep` returns iff … -/
theorem reverseConeStep_none_ok_iff [Add α] [OfNat α 0] (ci : ChordalInfo) (oldS oldZ : Array α)
    (starts : Array Nat) (acc : Array α × Array α × Nat) (e : Cone × ConeMapEntry)
    (he : e.2.treeAndClique = none) (r : Array α × Array α × Nat) :
    reverseConeStep ci oldS oldZ starts acc e = .ok r ↔
      ∃ start oc, starts[e.2.origIndex]? = some start ∧ ci.initCones[e.2.origIndex]? = some oc ∧
        (oc.nvars = e.1.nvars ∧ acc.2.2 + e.1.nvars ≤ oldS.size ∧ acc.2.2 + e.1.nvars ≤ oldZ.size ∧
          start + e.1.nvars ≤ acc.1.size) ∧
        r = (copyRange acc.1 oldS start acc.2.2 e.1.nvars, copyRange acc.2.1 oldZ start acc.2.2 e.1.nvars,
             acc.2.2 + e.1.nvars) := by
  unfold reverseConeStep getE
  cases hs : starts[e.2.origIndex]? with
  | none =>
    constructor
    · intro h; cases h
    · rintro ⟨_, _, h, _⟩; cases h
  | some start =>
    cases ho : ci.initCones[e.2.origIndex]? with
    | none =>
      constructor
      · intro h; cases h
      · rintro ⟨_, _, _, h, _⟩; cases h
    | some oc =>
      simp only [bind, Except.bind, pure, Except.pure, he]
      by_cases h1 : oc.nvars = e.1.nvars
      · rw [if_neg (by simp [h1])]
        by_cases h2 : acc.2.2 + e.1.nvars > oldS.size ∨ acc.2.2 + e.1.nvars > oldZ.size ∨
            start + e.1.nvars > acc.1.size
        · rw [if_pos h2]
          constructor
          · intro h; cases h
          · rintro ⟨s', oc', hs', ho', h, _⟩
            cases hs'; cases ho'; omega
        · rw [if_neg h2]
          constructor
          · intro h
            exact ⟨start, oc, rfl, rfl, ⟨h1, by omega, by omega, by omega⟩, (Except.ok.inj h).symm⟩
          · rintro ⟨s', oc', hs', ho', _, h⟩
            cases hs'; cases ho'; rw [h]
      · rw [if_pos (by simp [h1])]
        constructor
        · intro h; cases h
        · rintro ⟨s', oc', hs', ho', h, _⟩
          cases hs'; cases ho'; exact absurd h.1 h1

/-- [S] **the `none` branch of the loop of `decomp_reverse_compact` is `add_blocks_with_cone`** on
the row range `start .. start + nvars` of the original cone `orig_index` (`new_s`, `new_z` have the
same length `m`): the older model's inlined branch and the named function return the same values -/
theorem reverseConeStep_none_eq_addBlocksWithCone [Add α] [OfNat α 0] (ci : ChordalInfo)
    (oldS oldZ : Array α) (starts : Array Nat) (acc : Array α × Array α × Nat) (e : Cone × ConeMapEntry)
    (he : e.2.treeAndClique = none) (hsz : acc.1.size = acc.2.1.size) (r : Array α × Array α × Nat) :
    reverseConeStep ci oldS oldZ starts acc e = .ok r ↔
      ∃ start oc, starts[e.2.origIndex]? = some start ∧ ci.initCones[e.2.origIndex]? = some oc ∧
        addBlocksWithCone acc.1 oldS acc.2.1 oldZ start (start + oc.nvars) e.1 acc.2.2 = .ok r := by
  rw [reverseConeStep_none_ok_iff ci oldS oldZ starts acc e he r]
  constructor
  · rintro ⟨start, oc, h1, h2, h3, h4⟩
    refine ⟨start, oc, h1, h2, ?_⟩
    rw [addBlocksWithCone_ok_iff]
    exact ⟨by omega, h4⟩
  · rintro ⟨start, oc, h1, h2, h3⟩
    rw [addBlocksWithCone_ok_iff] at h3
    exact ⟨start, oc, h1, h2, by omega, h3.2⟩

example : addBlocksWithCone (α := Int) #[0, 0, 0] #[7, 8, 9] #[0, 0, 0] #[4, 5, 6] 1 3 (.nonneg 2) 1 =
    .ok (#[0, 8, 9], #[0, 5, 6], 3) := by
  rw [addBlocksWithCone_ok_iff]
  exact ⟨by decide, rfl⟩

/-! ## 12. `final_cone_count` is the number of cones of the decomposed problem -/

theorem finalConeCount_inv_acc (ci : ChordalInfo) (c : Nat) :
    (ci.layoutAt c).1 ≤ ci.spatterns.size ∧
    ((List.range c).flatMap ci.conesOf).length + (ci.layoutAt c).1 =
      c + ((ci.spatterns.toList.take (ci.layoutAt c).1).map (fun p => p.sntree.nCliques)).sum := by
  induction c with
  | zero => exact ⟨Nat.zero_le _, rfl⟩
  | succ c ih =>
    obtain ⟨ih1, ih2⟩ := ih
    rw [ci.layoutAt_succ c, List.range_succ, List.flatMap_append, List.length_append]
    simp only [List.flatMap_cons, List.flatMap_nil, List.append_nil]
    unfold ChordalInfo.layoutStep
    cases hp : ci.nextPattern? (ci.layoutAt c).1 c with
    | none =>
      have hco : (ci.conesOf c).length = 1 := by
        unfold ChordalInfo.conesOf ChordalInfo.patAt; rw [hp]; rfl
      rw [hco]
      simp only
      exact ⟨ih1, by omega⟩
    | some p =>
      have hco : (ci.conesOf c).length = p.sntree.nCliques := by
        unfold ChordalInfo.conesOf ChordalInfo.patAt; rw [hp]; simp
      rw [hco]
      obtain ⟨hk, _⟩ := nextPattern?_some ci _ c p hp
      have hlt : (ci.layoutAt c).1 < ci.spatterns.size := by
        rcases Nat.lt_or_ge (ci.layoutAt c).1 ci.spatterns.size with h | h
        · exact h
        · rw [Array.getElem?_eq_none h] at hk; cases hk
      have hk' : ci.spatterns.toList[(ci.layoutAt c).1]? = some p := by
        rw [Array.getElem?_toList]; exact hk
      refine ⟨hlt, ?_⟩
      simp only
      rw [List.take_add_one, hk', List.map_append, List.sum_append]
      simp only [Option.toList_some, List.map_cons, List.map_nil, List.sum_cons, List.sum_nil]
      omega

/-- [S] **`final_cone_count` is exact**: when the loop over the cones consumes every stored pattern
(the `orig_index` are increasing indices of cones), `final_cone_count()` — the capacity reserved for
`cones_new` and `cone_maps` — is the number of cones `find_compact_A_b_and_cones` produces -/
theorem finalConeCount_eq_conesNew (ci : ChordalInfo)
    (hall : (ci.layoutAt ci.initCones.size).1 = ci.spatterns.size)
    (h : ∀ p ∈ ci.spatterns.toList, 1 ≤ p.sntree.nCliques) :
    ci.finalConeCount = .ok ((List.range ci.initCones.size).flatMap ci.conesOf).length := by
  rw [ci.finalConeCount_eq h]
  obtain ⟨_, h2⟩ := finalConeCount_inv_acc ci ci.initCones.size
  rw [hall, ← Array.length_toList (xs := ci.spatterns), List.take_length] at h2
  obtain ⟨h3, h4⟩ := sum_sub_length_acc (fun p : SPattern => p.sntree.nCliques) _ h
  congr 1
  omega

/-- [S] … hence `tr.conesNew.size` and `tr.coneMaps.size` of the triplet form -/
theorem finalConeCount_eq_triplets [Neg α] [OfNat α 0] [OfNat α 1] [BEq α] (ci : ChordalInfo) (A : Csc α)
    (b : Array α) (H : CompactHyp ci A (bIndOf b)) (hnz : A.colptr.getD A.n 0 ≤ A.nzval.size)
    (hpos : A.colptr.getD A.n 0 + 2 * ci.ovBefore ci.initCones.size ≠ 0)
    (hall : (ci.layoutAt ci.initCones.size).1 = ci.spatterns.size)
    (h : ∀ p ∈ ci.spatterns.toList, 1 ≤ p.sntree.nCliques) :
    ∃ tr, findCompactTriplets ci A b = .ok tr ∧ ci.finalConeCount = .ok tr.conesNew.size := by
  obtain ⟨tr, htr, _, _, _, _, _, _, _, _, _, _, _, hcn, _⟩ := findCompactTriplets_spec ci A b H hnz hpos
  refine ⟨tr, htr, ?_⟩
  rw [finalConeCount_eq_conesNew ci hall h, ← hcn, Array.length_toList]

example : ∃ tr, findCompactTriplets exCi exA exb = .ok tr ∧ exCi.finalConeCount = .ok tr.conesNew.size :=
  finalConeCount_eq_triplets exCi exA exb exHyp ex_hnz ex_hpos (by decide)
    (fun p hp => (exCi_counts_hyp_acc p hp).1)


/-! ## 13. `ChordalInfo::new` ⇒ `FromAnalysis` -/

/-- inversion rule for a successful `foldlM` in `MErr` -/
theorem foldlM_ok_inv_acc {σ β : Type} (f : σ → β → MErr σ) (l : List β) (I : Nat → σ → Prop) (s0 s : σ)
    (h0 : I 0 s0) (hfold : l.foldlM f s0 = .ok s)
    (hstep : ∀ i (hi : i < l.length) s1 s2, I i s1 → f s1 l[i] = .ok s2 → I (i + 1) s2) :
    I l.length s := by
  induction l generalizing I s0 with
  | nil =>
    have : s0 = s := Except.ok.inj hfold
    subst this
    exact h0
  | cons x t ih =>
    rw [List.foldlM_cons] at hfold
    obtain ⟨s1, h1, h2⟩ := bind_ok_inv' _ _ _ hfold
    have := ih (fun i s => I (i + 1) s) s1 (hstep 0 (by simp) s0 s1 h0 h1) h2
      (fun i hi a b' ha hb => by
        have := hstep (i + 1) (by simpa using hi) a b' ha (by simpa using hb)
        exact this)
    simpa using this

theorem triangularNumber_strict_acc {a b : Nat} (h : a < b) : triangularNumber a < triangularNumber b := by
  have h1 := triangularNumber_succ a
  have h2 := triangularNumber_mono (show a + 1 ≤ b from h)
  omega

theorem triangularNumber_inj_acc {a b : Nat} (h : triangularNumber a = triangularNumber b) : a = b := by
  rcases Nat.lt_trichotomy a b with h' | h' | h'
  · have := triangularNumber_strict_acc h'; omega
  · exact h'
  · have := triangularNumber_strict_acc h'; omega

/-- the OFF-DIAGONAL pattern entries (row, column) marked in a packed-triangle mask (the symbolic
factor `L` is strictly lower triangular: a diagonal entry is never an entry of `L`, and the vertices
are covered by the cliques anyway) -/
def maskEdges (mask : Array Bool) : List (Nat × Nat) :=
  (((List.range mask.size).filter (fun k => mask.getD k false)).map upperTriangularIndexToCoord).filter
    (fun e => e.1 != e.2)

/-- the loop `nz_mask[triangular_index(i)] = true` of `analyse_psdtriangle_sparsity_pattern` -/
def forceDiag (mask : Array Bool) (dim : Nat) : Array Bool :=
  (List.range dim).foldl (fun (m : Array Bool) i => m.setIfInBounds (triangularIndex i) true) mask

/-- the pattern entries of cone `c` handed to `find_graph`: the slice of the aggregate sparsity mask
on the cone's rows, diagonal forced -/
def coneEdges (cones : Array Cone) (nzMask : Array Bool) (c : Nat) : List (Nat × Nat) :=
  match cones.getD c (.zero 0) with
  | .psd dim => maskEdges (forceDiag (nzMask.extract ((coneStarts cones).getD c 0)
      ((coneStarts cones).getD c 0 + triangularNumber dim)) dim)
  | _ => []

/-- what `find_graph` guarantees for every mask it accepts (C17's run-time channel `hyp.analysis`
checks exactly this on the real `find_graph`): the symbolic factor is filled, the ordering is a
permutation, the dimension matches the mask, and every marked entry is an entry of `L` -/
def FindGraphOK (findGraph : Array Bool → MErr (LPat × Array Nat)) : Prop :=
  ∀ mask L o, findGraph mask = .ok (L, o) → L.Filled ∧ o.toList.Perm (List.range L.n) ∧
    triangularNumber L.n = mask.size ∧ EdgesIn L o (maskEdges mask)

theorem forceDiag_size_acc (mask : Array Bool) (dim : Nat) : (forceDiag mask dim).size = mask.size := by
  unfold forceDiag
  exact foldl_setIfInBounds_size_acc _ (fun i => triangularIndex i) (fun _ => true) mask

theorem forceDiag_loop_ok_inv_acc (l : List Nat) (mask m' : Array Bool)
    (h : l.foldlM (fun (m : Array Bool) i =>
      setE m (triangularIndex i) true "nz_mask[triangular_index(i)]") mask = .ok m') :
    m' = l.foldl (fun (m : Array Bool) i => m.setIfInBounds (triangularIndex i) true) mask := by
  induction l generalizing mask with
  | nil => exact (Except.ok.inj h).symm
  | cons x t ih =>
    rw [List.foldlM_cons] at h
    obtain ⟨m1, h1, h2⟩ := bind_ok_inv' _ _ _ h
    obtain ⟨_, rfl⟩ := setE_ok_inv _ _ _ _ _ h1
    exact ih _ h2

/-- the stored patterns after the loop has passed the cones `< c` -/
structure PatInv (cones : Array Cone) (nzMask : Array Bool) (mm : String) (c : Nat)
    (sp : Array SPattern) : Prop where
  each : ∀ (j : Nat) (p : SPattern), sp[j]? = some p → p.origIndex < c ∧ p.sntree.nCliques ≠ 1 ∧
    ∃ (L : LPat) (ordering : Array Nat), L.Filled ∧ ordering.toList.Perm (List.range L.n) ∧
      EdgesIn L ordering (coneEdges cones nzMask p.origIndex) ∧
      sparsityPatternNewAll L ordering mm = .ok (p.sntree, p.ordering) ∧
      cones[p.origIndex]? = some (.psd L.n)
  incr : ∀ (j1 j2 : Nat) (p1 p2 : SPattern), j1 < j2 → sp[j1]? = some p1 → sp[j2]? = some p2 → p1.origIndex < p2.origIndex

theorem PatInv.mono_acc {cones : Array Cone} {nzMask : Array Bool} {mm : String} {c : Nat}
    {sp : Array SPattern} (h : PatInv cones nzMask mm c sp) : PatInv cones nzMask mm (c + 1) sp :=
  ⟨fun j p hp => by
      obtain ⟨h1, h2⟩ := h.each j p hp
      exact ⟨by omega, h2⟩, h.incr⟩

/-- one call of `analyse_psdtriangle_sparsity_pattern` for the PSD cone `c` -/
theorem analyse_step_acc (findGraph : Array Bool → MErr (LPat × Array Nat)) (hfg : FindGraphOK findGraph)
    (cones : Array Cone) (nzMask : Array Bool) (mm : String) (c dim : Nat) (sp sp' : Array SPattern)
    (hcone : cones[c]? = some (.psd dim))
    (hsz : (coneStarts cones).getD c 0 + triangularNumber dim ≤ nzMask.size)
    (I : PatInv cones nzMask mm c sp)
    (h : analysePsdtriangleSparsityPattern findGraph sp
      (nzMask.extract ((coneStarts cones).getD c 0) ((coneStarts cones).getD c 0 + triangularNumber dim))
      dim c mm = .ok sp') :
    PatInv cones nzMask mm (c + 1) sp' := by
  unfold analysePsdtriangleSparsityPattern at h
  obtain ⟨m', hm', h⟩ := bind_ok_inv' _ _ _ h
  have hm := forceDiag_loop_ok_inv_acc _ _ _ hm'
  have hmd : m' = forceDiag (nzMask.extract ((coneStarts cones).getD c 0)
      ((coneStarts cones).getD c 0 + triangularNumber dim)) dim := hm
  by_cases hall : m'.all id = true
  · rw [if_pos hall] at h
    have : sp = sp' := Except.ok.inj h
    subst this
    exact I.mono_acc
  · rw [if_neg hall] at h
    obtain ⟨Lo, hLo, h⟩ := bind_ok_inv' _ _ _ h
    obtain ⟨L, o⟩ := Lo
    simp only at h
    obtain ⟨tord, hto, h⟩ := bind_ok_inv' _ _ _ h
    obtain ⟨t, ord⟩ := tord
    simp only at h
    by_cases h1 : (t.nCliques == 1) = true
    · rw [if_pos h1] at h
      have : sp = sp' := Except.ok.inj h
      subst this
      exact I.mono_acc
    · rw [if_neg h1] at h
      have : sp.push { sntree := t, ordering := ord, origIndex := c } = sp' := Except.ok.inj h
      subst this
      obtain ⟨hF, hP, hT, hE⟩ := hfg m' L o hLo
      have hLn : L.n = dim := by
        apply triangularNumber_inj_acc
        rw [hT, hmd, forceDiag_size_acc, Array.size_extract]
        omega
      have hedges : coneEdges cones nzMask c = maskEdges m' := by
        unfold coneEdges
        rw [Array.getD_eq_getD_getElem?, hcone, Option.getD_some, hmd]
      have hne : t.nCliques ≠ 1 := by simpa using h1
      constructor
      · intro j p hp
        rw [Array.getElem?_push] at hp
        by_cases hj : j = sp.size
        · rw [if_pos hj] at hp
          have : p = { sntree := t, ordering := ord, origIndex := c } := (Option.some.inj hp).symm
          subst this
          refine ⟨Nat.lt_succ_self c, hne, L, o, hF, hP, ?_, hto, ?_⟩
          · show EdgesIn L o (coneEdges cones nzMask c)
            rw [hedges]; exact hE
          · show cones[c]? = some (.psd L.n)
            rw [hLn]; exact hcone
        · rw [if_neg hj] at hp
          obtain ⟨h2, h3⟩ := I.each j p hp
          exact ⟨by omega, h3⟩
      · intro j1 j2 p1 p2 hj hp1 hp2
        rw [Array.getElem?_push] at hp1 hp2
        by_cases hj2 : j2 = sp.size
        · rw [if_pos hj2] at hp2
          have : p2 = { sntree := t, ordering := ord, origIndex := c } := (Option.some.inj hp2).symm
          subst this
          rw [if_neg (by omega)] at hp1
          exact (I.each j1 p1 hp1).1
        · rw [if_neg hj2] at hp2
          have hj2' : j2 < sp.size := by
            rcases Nat.lt_or_ge j2 sp.size with h' | h'
            · exact h'
            · rw [Array.getElem?_eq_none h'] at hp2; cases hp2
          rw [if_neg (by omega)] at hp1
          exact I.incr j1 j2 p1 p2 hj hp1 hp2

/-- [S] **`find_sparsity_patterns`**: every stored pattern is the analysis of the diagonal-forced
slice of the aggregate mask on the rows of a PSD cone, has more than one clique, and the
`orig_index` are strictly increasing cone indices -/
theorem findSparsityPatterns_inv_acc [BEq α] [OfNat α 0] (findGraph : Array Bool → MErr (LPat × Array Nat))
    (hfg : FindGraphOK findGraph) (A : Csc α) (b : Array α) (cones : Array Cone) (mm : String)
    (sp : Array SPattern) (h : findSparsityPatterns findGraph A b cones mm = .ok sp) :
    ∃ nzMask, findAggregateSparsityMask A b = .ok nzMask ∧ PatInv cones nzMask mm cones.size sp := by
  unfold findSparsityPatterns at h
  obtain ⟨nzMask, hmask, h⟩ := bind_ok_inv' _ _ _ h
  refine ⟨nzMask, hmask, ?_⟩
  have := foldlM_ok_inv_acc _ (List.range cones.size) (fun c sp => PatInv cones nzMask mm c sp) #[] sp
    ⟨fun j p hp => by simp at hp, fun j1 j2 p1 p2 _ hp => by simp at hp⟩ h
    (by
      intro c hc s1 s2 I hstep
      simp only [List.length_range] at hc
      simp only [List.getElem_range] at hstep
      obtain ⟨cone, hcone, hstep⟩ := bind_ok_inv' _ _ _ hstep
      have hc' : cones[c]? = some cone := by
        obtain ⟨_, hd⟩ := getE_ok_inv' _ _ _ _ hcone
        rw [Array.getElem?_eq_getElem hc]
        have := hd (.zero 0)
        rw [Array.getD_eq_getD_getElem?, Array.getElem?_eq_getElem hc, Option.getD_some] at this
        rw [this]
      cases cone with
      | psd dim =>
        simp only at hstep
        by_cases hsz : nzMask.size < (coneStarts cones).getD c 0 + (Cone.psd dim).nvars
        · rw [if_pos hsz] at hstep; cases hstep
        · rw [if_neg hsz] at hstep
          exact analyse_step_acc findGraph hfg cones nzMask mm c dim s1 s2 hc'
            (by have : (Cone.psd dim).nvars = triangularNumber dim := rfl
                omega) I hstep
      | zero n => have : s1 = s2 := Except.ok.inj hstep
                  subst this; exact I.mono_acc
      | nonneg n => have : s1 = s2 := Except.ok.inj hstep
                    subst this; exact I.mono_acc
      | soc n => have : s1 = s2 := Except.ok.inj hstep
                 subst this; exact I.mono_acc
      | exp => have : s1 = s2 := Except.ok.inj hstep
               subst this; exact I.mono_acc)
  simpa using this


/-- [S] **every stored pattern is consumed by the loops over the cones** (`find_compact_A_b_and_cones`,
`find_standard_H_and_cones`, `get_decomposed_dim_and_overlaps`) when the `orig_index` are strictly
increasing indices of cones -/
theorem layoutAt_consumes_all_acc (ci : ChordalInfo)
    (hlt : ∀ (j : Nat) (p : SPattern), ci.spatterns[j]? = some p → p.origIndex < ci.initCones.size)
    (hincr : ∀ (j1 j2 : Nat) (p1 p2 : SPattern), j1 < j2 → ci.spatterns[j1]? = some p1 →
      ci.spatterns[j2]? = some p2 → p1.origIndex < p2.origIndex) :
    (ci.layoutAt ci.initCones.size).1 = ci.spatterns.size := by
  have key : ∀ c, (ci.layoutAt c).1 ≤ ci.spatterns.size ∧
      (∀ (j : Nat) (p : SPattern), j < (ci.layoutAt c).1 → ci.spatterns[j]? = some p → p.origIndex < c) ∧
      (∀ (j : Nat) (p : SPattern), (ci.layoutAt c).1 ≤ j → ci.spatterns[j]? = some p → c ≤ p.origIndex) := by
    intro c
    induction c with
    | zero => exact ⟨Nat.zero_le _, fun j p hj => absurd hj (Nat.not_lt_zero _), fun j p _ _ => Nat.zero_le _⟩
    | succ c ih =>
      obtain ⟨ih1, ih2, ih3⟩ := ih
      rw [ci.layoutAt_succ c]
      unfold ChordalInfo.layoutStep
      cases hp : ci.nextPattern? (ci.layoutAt c).1 c with
      | some q =>
        simp only
        obtain ⟨hk, hoi⟩ := nextPattern?_some ci _ c q hp
        have hklt : (ci.layoutAt c).1 < ci.spatterns.size := by
          rcases Nat.lt_or_ge (ci.layoutAt c).1 ci.spatterns.size with h | h
          · exact h
          · rw [Array.getElem?_eq_none h] at hk; cases hk
        refine ⟨hklt, ?_, ?_⟩
        · intro j p hj hjp
          rcases Nat.lt_succ_iff_lt_or_eq.1 hj with h | h
          · have := ih2 j p h hjp; omega
          · subst h
            rw [hk] at hjp
            cases hjp
            omega
        · intro j p hj hjp
          have := hincr _ j q p (by omega) hk hjp
          omega
      | none =>
        simp only
        refine ⟨ih1, fun j p hj hjp => by have := ih2 j p hj hjp; omega, ?_⟩
        intro j p hj hjp
        have h0 := ih3 j p hj hjp
        rcases Nat.lt_or_ge c p.origIndex with h | h
        · exact h
        · exfalso
          have hpc : p.origIndex = c := by omega
          -- the pattern at position `k` has `orig_index ≥ c`, and `≤` that of `p`
          rcases Nat.lt_or_ge (ci.layoutAt c).1 j with hjk | hjk
          · have hklt : (ci.layoutAt c).1 < ci.spatterns.size := by
              rcases Nat.lt_or_ge j ci.spatterns.size with h' | h'
              · omega
              · rw [Array.getElem?_eq_none h'] at hjp; cases hjp
            have hq : ci.spatterns[(ci.layoutAt c).1]? = some ci.spatterns[(ci.layoutAt c).1] :=
              Array.getElem?_eq_getElem hklt
            have h1 := ih3 _ _ (Nat.le_refl _) hq
            have h2 := hincr _ j _ p hjk hq hjp
            omega
          · have hjeq : j = (ci.layoutAt c).1 := by omega
            subst hjeq
            unfold ChordalInfo.nextPattern? at hp
            rw [hjp] at hp
            simp only at hp
            rw [if_pos (by simpa using hpc)] at hp
            cases hp
  obtain ⟨h1, _, h3⟩ := key ci.initCones.size
  rcases Nat.lt_or_ge (ci.layoutAt ci.initCones.size).1 ci.spatterns.size with h | h
  · exfalso
    have hq := Array.getElem?_eq_getElem h
    have := h3 _ _ (Nat.le_refl _) hq
    have := hlt _ _ hq
    omega
  · omega

/-- [S] **`ChordalInfo::new` ⇒ `FromAnalysis`** (the closing link C17 → C18): if `find_graph`
satisfies its contract (`FindGraphOK`: what C17's run-time channel checks on the real `find_graph`)
and the merge method is one of the three, every successful `ChordalInfo::new` returns a record with
`init_dims = (A.n, A.m)`; when something was decomposed, `init_cones` are the cones handed in, every
stored pattern is an analysis result for a PSD cone of those (`FromAnalysis`, with the pattern
entries of cone `c` = the marked entries of the diagonal-forced slice of the aggregate sparsity mask),
the `orig_index` are strictly increasing indices of cones, and every pattern is consumed by the loops
over the cones -/
theorem ChordalInfo.new_fromAnalysis [BEq α] [OfNat α 0]
    (findGraph : Array Bool → MErr (LPat × Array Nat)) (hfg : FindGraphOK findGraph)
    (A : Csc α) (b : Array α) (cones : Array Cone) (mm : String) (hmm : MergeMethodOK mm)
    (ci : ChordalInfo) (hnew : ChordalInfo.new findGraph A b cones mm = .ok ci) :
    ∃ nzMask, findAggregateSparsityMask A b = .ok nzMask ∧
      ci.initDims = (A.n, A.m) ∧
      findSparsityPatterns findGraph A b cones mm = .ok ci.spatterns ∧
      (ci.isDecomposed = false → ci.initCones = #[]) ∧
      (ci.isDecomposed = true →
        ci.initCones = cones ∧ FromAnalysis ci (coneEdges cones nzMask) ∧
        (ci.layoutAt ci.initCones.size).1 = ci.spatterns.size) ∧
      (∀ (j : Nat) (p : SPattern), ci.spatterns[j]? = some p →
        p.origIndex < cones.size ∧ p.sntree.nCliques ≠ 1 ∧ ∃ d, cones[p.origIndex]? = some (.psd d)) ∧
      (∀ (j1 j2 : Nat) (p1 p2 : SPattern), j1 < j2 → ci.spatterns[j1]? = some p1 →
        ci.spatterns[j2]? = some p2 → p1.origIndex < p2.origIndex) := by
  unfold ChordalInfo.new at hnew
  obtain ⟨sp, hsp, hnew⟩ := bind_ok_inv' _ _ _ hnew
  obtain ⟨nzMask, hmask, I⟩ := findSparsityPatterns_inv_acc findGraph hfg A b cones mm sp hsp
  have hci := (Except.ok.inj hnew).symm
  simp only at hci
  have hsp' : ci.spatterns = sp := by
    rw [hci]; split <;> rfl
  have hdims : ci.initDims = (A.n, A.m) := by
    rw [hci]; split <;> rfl
  have hdec : ci.isDecomposed = (!sp.isEmpty) := by
    unfold ChordalInfo.isDecomposed; rw [hsp']
  refine ⟨nzMask, hmask, hdims, by rw [hsp']; exact hsp, ?_, ?_, ?_, ?_⟩
  · intro hd
    rw [hdec] at hd
    rw [hci]
    unfold ChordalInfo.isDecomposed
    simp only
    rw [if_neg (by rw [hd]; decide)]
  · intro hd
    rw [hdec] at hd
    have hic : ci.initCones = cones := by
      rw [hci]
      unfold ChordalInfo.isDecomposed
      simp only
      rw [if_pos hd]
    refine ⟨hic, ?_, ?_⟩
    · intro k p hk
      rw [hsp'] at hk
      obtain ⟨_, h2, L, o, hF, hP, hE, hN, hC⟩ := I.each k p hk
      exact ⟨h2, L, o, mm, hmm, hF, hP, hE, hN, by rw [hic]; exact hC⟩
    · apply layoutAt_consumes_all_acc
      · intro j p hj
        rw [hsp'] at hj
        rw [hic]
        exact (I.each j p hj).1
      · intro j1 j2 p1 p2 hj h1 h2
        rw [hsp'] at h1 h2
        exact I.incr j1 j2 p1 p2 hj h1 h2
  · intro j p hj
    rw [hsp'] at hj
    obtain ⟨h1, h2, L, o, _, _, _, _, hC⟩ := I.each j p hj
    exact ⟨h1, h2, L.n, hC⟩
  · intro j1 j2 p1 p2 hj h1 h2
    rw [hsp'] at h1 h2
    exact I.incr j1 j2 p1 p2 hj h1 h2


/-! ### `ChordalInfo::new` does not panic -/

theorem aggregateMask_loop_ok_acc (l : List Nat) (act : Array Bool) (h : ∀ r ∈ l, r < act.size) :
    ∃ act', l.foldlM (fun (act : Array Bool) r => setE act r true "find_aggregate_sparsity_mask") act
      = .ok act' ∧ act'.size = act.size := by
  induction l generalizing act with
  | nil => exact ⟨act, rfl, rfl⟩
  | cons x t ih =>
    rw [List.foldlM_cons, setE_ok act x true _ (h x List.mem_cons_self)]
    obtain ⟨act', h1, h2⟩ := ih (act.setIfInBounds x true) (fun r hr => by
      rw [Array.size_setIfInBounds]; exact h r (List.mem_cons_of_mem _ hr))
    exact ⟨act', h1, by rw [h2, Array.size_setIfInBounds]⟩

/-- [S] `find_aggregate_sparsity_mask` does not panic when the stored rows of `A` are rows of `b`,
and returns a mask with one flag per row -/
theorem findAggregateSparsityMask_ok [BEq α] [OfNat α 0] (A : Csc α) (b : Array α)
    (hrows : ∀ r ∈ A.rowval.toList, r < b.size) :
    ∃ m, findAggregateSparsityMask A b = .ok m ∧ m.size = b.size := by
  obtain ⟨act, h1, h2⟩ := aggregateMask_loop_ok_acc A.rowval.toList (Array.replicate b.size false)
    (by rw [Array.size_replicate]; exact hrows)
  refine ⟨_, by unfold findAggregateSparsityMask; rw [h1]; rfl, ?_⟩
  rw [Array.size_replicate] at h2
  have : ∀ (l : List Nat) (a : Array Bool), (l.foldl (fun (act : Array Bool) i =>
      if !(b.getD i 0 == 0) then act.setIfInBounds i true else act) a).size = a.size := by
    intro l
    induction l with
    | nil => intro a; rfl
    | cons x t ih =>
      intro a
      rw [List.foldl_cons, ih]
      split
      · rw [Array.size_setIfInBounds]
      · rfl
  rw [this, h2]

theorem findAggregateSparsityMask_size_acc [BEq α] [OfNat α 0] (A : Csc α) (b : Array α) (m : Array Bool)
    (h : findAggregateSparsityMask A b = .ok m) : m.size = b.size := by
  unfold findAggregateSparsityMask at h
  obtain ⟨act, h1, h2⟩ := bind_ok_inv' _ _ _ h
  have hact : ∀ (l : List Nat) (a a' : Array Bool),
      l.foldlM (fun (act : Array Bool) r => setE act r true "find_aggregate_sparsity_mask") a = .ok a' →
      a'.size = a.size := by
    intro l
    induction l with
    | nil => intro a a' h; rw [← Except.ok.inj h]
    | cons x t ih =>
      intro a a' h
      rw [List.foldlM_cons] at h
      obtain ⟨a1, h3, h4⟩ := bind_ok_inv' _ _ _ h
      obtain ⟨_, rfl⟩ := setE_ok_inv _ _ _ _ _ h3
      rw [ih _ _ h4, Array.size_setIfInBounds]
  have h3 := hact _ _ _ h1
  rw [Array.size_replicate] at h3
  have : ∀ (l : List Nat) (a : Array Bool), (l.foldl (fun (act : Array Bool) i =>
      if !(b.getD i 0 == 0) then act.setIfInBounds i true else act) a).size = a.size := by
    intro l
    induction l with
    | nil => intro a; rfl
    | cons x t ih =>
      intro a
      rw [List.foldl_cons, ih]
      split
      · rw [Array.size_setIfInBounds]
      · rfl
  rw [← Except.ok.inj h2, this, h3]

theorem forceDiag_loop_ok_acc (l : List Nat) (mask : Array Bool)
    (h : ∀ i ∈ l, triangularIndex i < mask.size) :
    l.foldlM (fun (m : Array Bool) i =>
      setE m (triangularIndex i) true "nz_mask[triangular_index(i)]") mask =
    .ok (l.foldl (fun (m : Array Bool) i => m.setIfInBounds (triangularIndex i) true) mask) := by
  induction l generalizing mask with
  | nil => rfl
  | cons x t ih =>
    rw [List.foldlM_cons, setE_ok mask _ true _ (h x List.mem_cons_self), List.foldl_cons]
    exact ih _ (fun i hi => by
      rw [Array.size_setIfInBounds]; exact h i (List.mem_cons_of_mem _ hi))

/-- one call of `analyse_psdtriangle_sparsity_pattern` does not panic -/
theorem analyse_ok_acc (findGraph : Array Bool → MErr (LPat × Array Nat)) (hfg : FindGraphOK findGraph)
    (mm : String) (hmm : MergeMethodOK mm) (sp : Array SPattern) (mask : Array Bool) (dim c : Nat)
    (hsz : mask.size = triangularNumber dim)
    (htot : (forceDiag mask dim).all id = false → ∃ L o, findGraph (forceDiag mask dim) = .ok (L, o)) :
    ∃ sp', analysePsdtriangleSparsityPattern findGraph sp mask dim c mm = .ok sp' := by
  unfold analysePsdtriangleSparsityPattern
  rw [forceDiag_loop_ok_acc (List.range dim) mask (by
    intro i hi
    rw [List.mem_range] at hi
    have h1 := triangularIndex_eq i
    have h2 := triangularNumber_mono (show i + 1 ≤ dim from hi)
    omega)]
  simp only [bind, Except.bind]
  have hfd : (List.range dim).foldl (fun (m : Array Bool) i => m.setIfInBounds (triangularIndex i) true) mask
      = forceDiag mask dim := rfl
  rw [hfd]
  by_cases hall : (forceDiag mask dim).all id = true
  · rw [if_pos hall]; exact ⟨sp, rfl⟩
  · rw [if_neg hall]
    obtain ⟨L, o, hLo⟩ := htot (by simpa using hall)
    rw [hLo]
    simp only
    obtain ⟨hF, hP, _, hE⟩ := hfg _ L o hLo
    obtain ⟨tf, ord', hnew, _⟩ := analysis_all_valid hF o hP _ hE mm hmm
    rw [hnew]
    simp only
    split
    · exact ⟨_, rfl⟩
    · exact ⟨_, rfl⟩

/-- `find_sparsity_patterns` does not panic -/
theorem findSparsityPatterns_ok [BEq α] [OfNat α 0]
    (findGraph : Array Bool → MErr (LPat × Array Nat)) (hfg : FindGraphOK findGraph)
    (A : Csc α) (b : Array α) (cones : Array Cone) (mm : String) (hmm : MergeMethodOK mm)
    (hrows : ∀ r ∈ A.rowval.toList, r < b.size)
    (hfit : ∀ c dim, cones[c]? = some (.psd dim) →
      (coneStarts cones).getD c 0 + triangularNumber dim ≤ b.size)
    (htot : ∀ nzMask, findAggregateSparsityMask A b = .ok nzMask → ∀ c dim, cones[c]? = some (.psd dim) →
      (forceDiag (nzMask.extract ((coneStarts cones).getD c 0)
        ((coneStarts cones).getD c 0 + triangularNumber dim)) dim).all id = false →
      ∃ L o, findGraph (forceDiag (nzMask.extract ((coneStarts cones).getD c 0)
        ((coneStarts cones).getD c 0 + triangularNumber dim)) dim) = .ok (L, o)) :
    ∃ sp, findSparsityPatterns findGraph A b cones mm = .ok sp := by
  obtain ⟨nzMask, hmask, hmsz⟩ := findAggregateSparsityMask_ok A b hrows
  unfold findSparsityPatterns
  rw [hmask]
  show ∃ sp : Array SPattern, List.foldlM (m := MErr) _ #[] (List.range cones.size) = Except.ok sp
  refine (fun ⟨sp, hsp, _⟩ => ⟨sp, hsp⟩)
    (foldlM_inv _ (List.range cones.size) (fun _ _ => True) #[] trivial ?_)
  intro c hc s _
  simp only [List.length_range] at hc
  simp only [List.getElem_range]
  rw [getE_ok cones c _ (.zero 0) hc]
  simp only [bind, Except.bind]
  have hc' : cones[c]? = some (cones.getD c (.zero 0)) := by
    rw [Array.getD_eq_getD_getElem?, Array.getElem?_eq_getElem hc, Option.getD_some]
  cases hcone : cones.getD c (.zero 0) with
  | psd dim =>
    rw [hcone] at hc'
    simp only
    have hf := hfit c dim hc'
    have hnv : (Cone.psd dim).nvars = triangularNumber dim := rfl
    rw [hnv, if_neg (by omega)]
    obtain ⟨sp', h⟩ := analyse_ok_acc findGraph hfg mm hmm s
      (nzMask.extract ((coneStarts cones).getD c 0) ((coneStarts cones).getD c 0 + triangularNumber dim))
      dim c (by rw [Array.size_extract]; omega) (htot nzMask hmask c dim hc')
    exact ⟨sp', h, trivial⟩
  | zero n => exact ⟨s, rfl, trivial⟩
  | nonneg n => exact ⟨s, rfl, trivial⟩
  | soc n => exact ⟨s, rfl, trivial⟩
  | exp => exact ⟨s, rfl, trivial⟩

/-- [S] **`ChordalInfo::new` does not panic** when the stored rows of `A` are rows of `b`, the PSD
cones fit into `b`, `find_graph` satisfies its contract and returns on the (non-dense,
diagonal-forced) slices it is called on, and the merge method is one of the three -/
theorem ChordalInfo.new_ok [BEq α] [OfNat α 0]
    (findGraph : Array Bool → MErr (LPat × Array Nat)) (hfg : FindGraphOK findGraph)
    (A : Csc α) (b : Array α) (cones : Array Cone) (mm : String) (hmm : MergeMethodOK mm)
    (hrows : ∀ r ∈ A.rowval.toList, r < b.size)
    (hfit : ∀ c dim, cones[c]? = some (.psd dim) →
      (coneStarts cones).getD c 0 + triangularNumber dim ≤ b.size)
    (htot : ∀ nzMask, findAggregateSparsityMask A b = .ok nzMask → ∀ c dim, cones[c]? = some (.psd dim) →
      (forceDiag (nzMask.extract ((coneStarts cones).getD c 0)
        ((coneStarts cones).getD c 0 + triangularNumber dim)) dim).all id = false →
      ∃ L o, findGraph (forceDiag (nzMask.extract ((coneStarts cones).getD c 0)
        ((coneStarts cones).getD c 0 + triangularNumber dim)) dim) = .ok (L, o)) :
    ∃ ci, ChordalInfo.new findGraph A b cones mm = .ok ci := by
  obtain ⟨sp, hsp⟩ := findSparsityPatterns_ok findGraph hfg A b cones mm hmm hrows hfit htot
  unfold ChordalInfo.new
  rw [hsp]
  exact ⟨_, rfl⟩


/-! ### non-vacuity of `ChordalInfo.new_fromAnalysis` / `ChordalInfo.new_ok`: one `3 × 3` PSD cone
with the pattern of the path `0 – 1 – 2` (rows `1 = (0,1)` and `4 = (1,2)` of the packed triangle are
stored in `A`; the diagonal is forced) -/

def exPathL2 : LPat := { n := 3, colptr := #[0, 1, 2, 2], rowval := #[2, 2] }
def exMask2 : Array Bool := #[true, true, true, false, true, true]
/-- a stand-in for `find_graph` that knows the symbolic factor of the path graph only -/
def exFindGraph : Array Bool → MErr (LPat × Array Nat) := fun mask =>
  if mask = exMask2 then .ok (exPathL2, #[2, 0, 1]) else .error (.panic "find_graph")
def exA2 : Csc Int := { m := 6, n := 1, colptr := #[0, 2], rowval := #[1, 4], nzval := #[1, 1] }
def exb2 : Array Int := #[0, 0, 0, 0, 0, 0]

theorem exMask2_edges : maskEdges exMask2 = [(0, 1), (1, 2)] := by
  unfold maskEdges
  have h : (List.range exMask2.size).filter (fun k => exMask2.getD k false) = [0, 1, 2, 4, 5] := by decide
  have c0 : upperTriangularIndexToCoord 0 = (0, 0) := rfl
  have c1 : upperTriangularIndexToCoord 1 = (0, 1) := index_to_coord_of_column (c := 1) (by decide) (by decide)
  have c2 : upperTriangularIndexToCoord 2 = (1, 1) := index_to_coord_of_column (c := 1) (by decide) (by decide)
  have c4 : upperTriangularIndexToCoord 4 = (1, 2) := index_to_coord_of_column (c := 2) (by decide) (by decide)
  have c5 : upperTriangularIndexToCoord 5 = (2, 2) := index_to_coord_of_column (c := 2) (by decide) (by decide)
  rw [h]
  simp only [List.map_cons, List.map_nil, c0, c1, c2, c4, c5]
  decide

theorem exFindGraph_ok : FindGraphOK exFindGraph := by
  intro mask L o h
  unfold exFindGraph at h
  by_cases hm : mask = exMask2
  · rw [if_pos hm] at h
    obtain ⟨rfl, rfl⟩ := Prod.mk.inj (Except.ok.inj h)
    subst hm
    refine ⟨(LPat.filledB_iff _).1 (by decide), by decide, by decide, ?_⟩
    rw [exMask2_edges]
    exact LPat.edgesInB_sound exPathL2 #[2, 0, 1] [(0, 1), (1, 2)] (by decide)
  · rw [if_neg hm] at h; cases h

theorem exNew_hyps :
    (∀ r ∈ exA2.rowval.toList, r < exb2.size) ∧
    (∀ c dim, (#[Cone.psd 3] : Array Cone)[c]? = some (.psd dim) →
      (coneStarts #[Cone.psd 3]).getD c 0 + triangularNumber dim ≤ exb2.size) ∧
    (∀ nzMask, findAggregateSparsityMask exA2 exb2 = .ok nzMask → ∀ c dim,
      (#[Cone.psd 3] : Array Cone)[c]? = some (.psd dim) →
      (forceDiag (nzMask.extract ((coneStarts #[Cone.psd 3]).getD c 0)
        ((coneStarts #[Cone.psd 3]).getD c 0 + triangularNumber dim)) dim).all id = false →
      ∃ L o, exFindGraph (forceDiag (nzMask.extract ((coneStarts #[Cone.psd 3]).getD c 0)
        ((coneStarts #[Cone.psd 3]).getD c 0 + triangularNumber dim)) dim) = .ok (L, o)) := by
  have hc : ∀ c dim, (#[Cone.psd 3] : Array Cone)[c]? = some (.psd dim) → c = 0 ∧ dim = 3 := by
    intro c dim h
    rcases Nat.eq_zero_or_pos c with h0 | h0
    · subst h0
      have : (#[Cone.psd 3] : Array Cone)[0]? = some (.psd 3) := rfl
      rw [this] at h
      have := Option.some.inj h
      injection this with h'
      exact ⟨rfl, h'.symm⟩
    · have : (#[Cone.psd 3] : Array Cone)[c]? = none := by
        rw [Array.getElem?_eq_none]; simp; omega
      rw [this] at h; cases h
  refine ⟨by decide, ?_, ?_⟩
  · intro c dim h
    obtain ⟨rfl, rfl⟩ := hc c dim h
    decide
  · intro nzMask hm c dim h _
    obtain ⟨rfl, rfl⟩ := hc c dim h
    have : findAggregateSparsityMask exA2 exb2 = .ok #[false, true, false, false, true, false] := by decide
    rw [this] at hm
    have hm' := Except.ok.inj hm
    subst hm'
    have hmask : forceDiag ((#[false, true, false, false, true, false] : Array Bool).extract
        ((coneStarts #[Cone.psd 3]).getD 0 0) ((coneStarts #[Cone.psd 3]).getD 0 0 + triangularNumber 3)) 3
        = exMask2 := by decide
    rw [hmask]
    exact ⟨exPathL2, #[2, 0, 1], by unfold exFindGraph; rw [if_pos rfl]⟩

/-- `ChordalInfo::new` returns on this problem, and its result satisfies every conclusion of
`ChordalInfo.new_fromAnalysis` -/
example : ∃ ci, ChordalInfo.new exFindGraph exA2 exb2 #[.psd 3] "none" = .ok ci ∧
    ci.initDims = (1, 6) ∧
    (ci.isDecomposed = true → ci.initCones = #[.psd 3] ∧
      (ci.layoutAt ci.initCones.size).1 = ci.spatterns.size ∧
      ∃ E, FromAnalysis ci E) := by
  obtain ⟨h1, h2, h3⟩ := exNew_hyps
  obtain ⟨ci, hci⟩ := ChordalInfo.new_ok exFindGraph exFindGraph_ok exA2 exb2 #[.psd 3] "none"
    (Or.inl rfl) h1 h2 h3
  obtain ⟨nzMask, _, hd, _, _, hdec, _⟩ := ChordalInfo.new_fromAnalysis exFindGraph exFindGraph_ok
    exA2 exb2 #[.psd 3] "none" (Or.inl rfl) ci hci
  exact ⟨ci, hci, hd, fun h => ⟨(hdec h).1, (hdec h).2.2, _, (hdec h).2.1⟩⟩


/-! ### the cliques of a decomposed cone cover every marked entry — diagonal included — hence every
stored row of `A` and non-zero of `b` (`Covered`, the last clauses of `CompactHyp`) -/

/-- an injective map of `0..n-1` into itself is onto -/
theorem ValidPattern.ord_surj_acc {p : SPattern} (hp : ValidPattern p) (v : Nat) (hv : v < p.ordering.size) :
    ∃ u, u < p.ordering.size ∧ p.ordering.getD u 0 = v := by
  have hnd : ((List.range p.ordering.size).map (fun u => p.ordering.getD u 0)).Nodup := by
    apply List.Nodup.map_on _ List.nodup_range
    intro x hx y hy hxy
    exact hp.ord_inj x y (List.mem_range.1 hx) (List.mem_range.1 hy) hxy
  have hsub : (List.range p.ordering.size).map (fun u => p.ordering.getD u 0) ⊆
      List.range p.ordering.size := by
    intro x hx
    obtain ⟨u, hu, rfl⟩ := List.mem_map.1 hx
    exact List.mem_range.2 (hp.ord_lt u (List.mem_range.1 hu))
  have hperm := (List.subperm_of_subset hnd hsub).perm_of_length_le (by simp)
  have : v ∈ (List.range p.ordering.size).map (fun u => p.ordering.getD u 0) :=
    hperm.mem_iff.2 (List.mem_range.2 hv)
  obtain ⟨u, hu, rfl⟩ := List.mem_map.1 this
  exact ⟨u, List.mem_range.1 hu, rfl⟩

/-- [S] every vertex (original coordinates) of a valid pattern lies in some clique: the diagonal
entries need no pattern edge to be covered -/
theorem ValidPattern.vertex_covered_acc {p : SPattern} (hp : ValidPattern p) (v : Nat)
    (hv : v < p.ordering.size) : ∃ i, i < p.sntree.nCliques ∧ v ∈ p.cliqueO i := by
  obtain ⟨u, hu, huv⟩ := hp.ord_surj_acc v hv
  obtain ⟨i, hi, hmem⟩ := hp.tree.snode_cover u hu
  refine ⟨i, hi, ?_⟩
  unfold SPattern.cliqueO
  rw [p.mem_sortO]
  exact ⟨u, ValidTree.snode_sub_clique i u hmem, huv⟩

theorem coord_col_lt_acc (k d : Nat) (h : k < triangularNumber d) :
    (upperTriangularIndexToCoord k).1 ≤ (upperTriangularIndexToCoord k).2 ∧
    (upperTriangularIndexToCoord k).2 < d := by
  obtain ⟨c, h1, h2⟩ := exists_column k
  rw [index_to_coord_of_column h1 h2]
  have h3 := triangularNumber_succ c
  refine ⟨by simp only; omega, ?_⟩
  simp only
  rcases Nat.lt_or_ge c d with hc | hc
  · exact hc
  · have := triangularNumber_mono hc; omega

/-- setting flags never clears one -/
theorem forceDiag_mono_acc (mask : Array Bool) (dim k : Nat) (h : mask.getD k false = true) :
    (forceDiag mask dim).getD k false = true := by
  unfold forceDiag
  have : ∀ (l : List Nat) (m : Array Bool), m.getD k false = true →
      (l.foldl (fun (m : Array Bool) i => m.setIfInBounds (triangularIndex i) true) m).getD k false = true := by
    intro l
    induction l with
    | nil => intro m hm; exact hm
    | cons x t ih =>
      intro m hm
      rw [List.foldl_cons]
      apply ih
      rw [getD_setIfInBounds']
      split
      · rfl
      · exact hm
  exact this _ mask h

theorem getD_true_lt_acc (m : Array Bool) (k : Nat) (h : m.getD k false = true) : k < m.size := by
  rcases Nat.lt_or_ge k m.size with h' | h'
  · exact h'
  · rw [Array.getD_eq_getD_getElem?, Array.getElem?_eq_none h'] at h; cases h

theorem mem_maskEdges_acc (mask : Array Bool) (k : Nat) (h : mask.getD k false = true)
    (hne : (upperTriangularIndexToCoord k).1 ≠ (upperTriangularIndexToCoord k).2) :
    upperTriangularIndexToCoord k ∈ maskEdges mask := by
  unfold maskEdges
  rw [List.mem_filter]
  refine ⟨List.mem_map.2 ⟨k, List.mem_filter.2 ⟨List.mem_range.2 (getD_true_lt_acc mask k h), h⟩, rfl⟩, ?_⟩
  simpa using hne

/-- [S] in the result of `ChordalInfo::new`, every flag of the aggregate mask inside a decomposed
cone — off-diagonal (a pattern edge handed to `find_graph`) or diagonal — is an entry of some clique
block of that cone's pattern -/
theorem mask_entry_covered_acc {ci : ChordalInfo} {cones : Array Cone} {nzMask : Array Bool}
    (hic : ci.initCones = cones) (hA : FromAnalysis ci (coneEdges cones nzMask))
    (c : Nat) (hc : c < ci.initCones.size) (p : SPattern) (hp : ci.patAt c = some p)
    (r : Nat) (h1 : ci.rs c ≤ r) (h2 : r < ci.rs c + ci.nv c) (hr : nzMask.getD r false = true) :
    ∃ i, i < p.sntree.nCliques ∧
      (upperTriangularIndexToCoord (r - ci.rs c)).1 ∈ p.cliqueO i ∧
      (upperTriangularIndexToCoord (r - ci.rs c)).2 ∈ p.cliqueO i := by
  obtain ⟨_, hv, hcov⟩ := info_of_analysis hA
  obtain ⟨hvp, hcone⟩ := hv.pat c hc p hp
  have hnv : ci.nv c = triangularNumber p.ordering.size := by
    unfold ChordalInfo.nv; rw [hcone]; rfl
  rw [hnv] at h2
  have hk : r - ci.rs c < triangularNumber p.ordering.size := by omega
  obtain ⟨hle, hcol⟩ := coord_col_lt_acc _ _ hk
  by_cases hd : (upperTriangularIndexToCoord (r - ci.rs c)).1 = (upperTriangularIndexToCoord (r - ci.rs c)).2
  · obtain ⟨i, hi, hm⟩ := hvp.vertex_covered_acc _ hcol
    exact ⟨i, hi, by rw [hd]; exact hm, hm⟩
  · apply hcov c hc p hp
    unfold coneEdges
    rw [← hic, hcone]
    simp only
    apply mem_maskEdges_acc _ _ _ hd
    apply forceDiag_mono_acc
    have hrs : (coneStarts ci.initCones).getD c 0 = ci.rs c := rfl
    rw [hrs, Array.getD_eq_getD_getElem?, Array.getElem?_extract]
    have hrlt := getD_true_lt_acc nzMask r hr
    rw [if_pos (by omega), show ci.rs c + (r - ci.rs c) = r by omega, ← Array.getD_eq_getD_getElem?]
    exact hr

theorem aggregateMask_loop_inv_acc (l : List Nat) (a a' : Array Bool)
    (h : l.foldlM (fun (act : Array Bool) r => setE act r true "find_aggregate_sparsity_mask") a = .ok a') :
    (∀ i, a.getD i false = true → a'.getD i false = true) ∧ ∀ r ∈ l, a'.getD r false = true := by
  induction l generalizing a with
  | nil =>
    rw [← Except.ok.inj h]
    exact ⟨fun i hi => hi, fun r hr => by cases hr⟩
  | cons x t ih =>
    rw [List.foldlM_cons] at h
    obtain ⟨a1, h1, h2⟩ := bind_ok_inv' _ _ _ h
    obtain ⟨hx, rfl⟩ := setE_ok_inv _ _ _ _ _ h1
    obtain ⟨ih1, ih2⟩ := ih _ h2
    refine ⟨fun i hi => ih1 i (by rw [getD_setIfInBounds']; split <;> [rfl; exact hi]), ?_⟩
    intro r hr
    rcases List.mem_cons.1 hr with e | e
    · subst e
      exact ih1 r (by rw [getD_setIfInBounds', if_pos ⟨rfl, hx⟩])
    · exact ih2 r e

/-- [S] **`find_aggregate_sparsity_mask`**: every stored row of `A` and every row with `b ≠ 0` is
flagged -/
theorem findAggregateSparsityMask_marks [BEq α] [OfNat α 0] (A : Csc α) (b : Array α) (m : Array Bool)
    (h : findAggregateSparsityMask A b = .ok m) :
    (∀ r ∈ A.rowval.toList, m.getD r false = true) ∧
    (∀ i, i < b.size → (b.getD i 0 == 0) = false → m.getD i false = true) := by
  have hsz := findAggregateSparsityMask_size_acc A b m h
  unfold findAggregateSparsityMask at h
  obtain ⟨act, h1, h2⟩ := bind_ok_inv' _ _ _ h
  obtain ⟨_, hrows⟩ := aggregateMask_loop_inv_acc _ _ _ h1
  have hm := (Except.ok.inj h2).symm
  have key : ∀ (n : Nat) (a : Array Bool),
      (∀ i, a.getD i false = true → ((List.range n).foldl (fun (act : Array Bool) i =>
        if !(b.getD i 0 == 0) then act.setIfInBounds i true else act) a).getD i false = true) ∧
      (∀ i, i < n → i < a.size → (b.getD i 0 == 0) = false → ((List.range n).foldl
        (fun (act : Array Bool) i => if !(b.getD i 0 == 0) then act.setIfInBounds i true else act) a).getD i false
          = true) ∧
      ((List.range n).foldl (fun (act : Array Bool) i =>
        if !(b.getD i 0 == 0) then act.setIfInBounds i true else act) a).size = a.size := by
    intro n a
    induction n with
    | zero => exact ⟨fun i hi => hi, fun i hi => absurd hi (Nat.not_lt_zero _), rfl⟩
    | succ n ih =>
      obtain ⟨ih1, ih2, ih3⟩ := ih
      rw [List.range_succ, List.foldl_append, List.foldl_cons, List.foldl_nil]
      by_cases hb : (!(b.getD n 0 == 0)) = true
      · rw [if_pos hb]
        refine ⟨?_, ?_, by rw [Array.size_setIfInBounds, ih3]⟩
        · intro i hi
          rw [getD_setIfInBounds']
          split
          · rfl
          · exact ih1 i hi
        · intro i hi hia hbi
          rw [getD_setIfInBounds']
          by_cases hin : n = i
          · rw [if_pos ⟨hin, by rw [ih3]; exact hia⟩]
          · rw [if_neg (fun hh => hin hh.1)]
            exact ih2 i (by omega) hia hbi
      · rw [if_neg hb]
        refine ⟨ih1, ?_, ih3⟩
        intro i hi hia hbi
        rcases Nat.lt_succ_iff_lt_or_eq.1 hi with h' | h'
        · exact ih2 i h' hia hbi
        · subst h'
          rw [hbi] at hb
          exact absurd rfl hb
  obtain ⟨k1, k2, k3⟩ := key b.size act
  rw [hm]
  refine ⟨fun r hr => k1 r (hrows r hr), fun i hi hbi => k2 i hi ?_ hbi⟩
  rw [hm, k3] at hsz
  omega

/-- [S] **`Covered` from `ChordalInfo::new`**: in the record returned by `ChordalInfo::new(A, b, cones)`
(when something was decomposed) every stored row of `A` and every non-zero of `b` that lies in a
decomposed cone is an entry of some clique block — the two coverage clauses of `CompactHyp`, with no
hypothesis left on the pattern -/
theorem ChordalInfo.new_covered [BEq α] [OfNat α 0]
    (findGraph : Array Bool → MErr (LPat × Array Nat)) (hfg : FindGraphOK findGraph)
    (A : Csc α) (b : Array α) (cones : Array Cone) (mm : String) (hmm : MergeMethodOK mm)
    (ci : ChordalInfo) (hnew : ChordalInfo.new findGraph A b cones mm = .ok ci)
    (hdec : ci.isDecomposed = true) (n : Nat) (hn : n ≤ A.rowval.size) :
    Covered ci A.rowval n ∧ Covered ci (bIndOf b) (bIndOf b).size := by
  obtain ⟨nzMask, hmask, _, _, _, hd, _⟩ := ChordalInfo.new_fromAnalysis findGraph hfg A b cones mm hmm ci hnew
  obtain ⟨hic, hA, _⟩ := hd hdec
  obtain ⟨hmA, hmB⟩ := findAggregateSparsityMask_marks A b nzMask hmask
  constructor
  · intro slot hs c hc p hp h1 h2
    apply mask_entry_covered_acc hic hA c hc p hp _ h1 h2
    apply hmA
    have hlt : slot < A.rowval.size := by omega
    rw [Array.getD_eq_getD_getElem?, Array.getElem?_eq_getElem hlt, Option.getD_some]
    exact Array.getElem_mem_toList hlt
  · intro slot hs c hc p hp h1 h2
    apply mask_entry_covered_acc hic hA c hc p hp _ h1 h2
    have hmem : (bIndOf b).getD slot 0 ∈ (bIndOf b).toList := by
      rw [Array.getD_eq_getD_getElem?, Array.getElem?_eq_getElem hs, Option.getD_some]
      exact Array.getElem_mem_toList hs
    have hall : ∀ x, x ∈ (bIndOf b).toList → x < b.size ∧ (b.getD x 0 == 0) = false := by
      intro x hx
      unfold bIndOf at hx
      rw [List.toList_toArray, List.mem_filter, List.mem_range] at hx
      exact ⟨hx.1, by simpa using hx.2⟩
    exact hmB _ (hall _ hmem).1 (hall _ hmem).2

/-- [S] **`CompactHyp` from `ChordalInfo::new`**: the whole hypothesis bundle of the theorems about
the compact transformation holds for the record returned by `ChordalInfo::new(A, b, cones)` as soon
as the DATA are well formed: `A` a CSC matrix with sorted columns and at least one column, every
stored row of `A` and non-zero of `b` inside the cones -/
theorem ChordalInfo.new_compactHyp [BEq α] [OfNat α 0]
    (findGraph : Array Bool → MErr (LPat × Array Nat)) (hfg : FindGraphOK findGraph)
    (A : Csc α) (b : Array α) (cones : Array Cone) (mm : String) (hmm : MergeMethodOK mm)
    (ci : ChordalInfo) (hnew : ChordalInfo.new findGraph A b cones mm = .ok ci)
    (hdec : ci.isDecomposed = true) (wf : CscWF A) (ncols : 0 < A.n)
    (rowsA : ∀ slot, slot < A.colptr.getD A.n 0 →
      ∃ c, c < ci.initCones.size ∧ ci.rs c ≤ A.rowval.getD slot 0 ∧ A.rowval.getD slot 0 < ci.rs c + ci.nv c)
    (rowsB : ∀ slot, slot < (bIndOf b).size →
      ∃ c, c < ci.initCones.size ∧ ci.rs c ≤ (bIndOf b).getD slot 0 ∧
        (bIndOf b).getD slot 0 < ci.rs c + ci.nv c) :
    CompactHyp ci A (bIndOf b) := by
  obtain ⟨nzMask, _, _, _, _, hd, _⟩ := ChordalInfo.new_fromAnalysis findGraph hfg A b cones mm hmm ci hnew
  obtain ⟨_, hA, _⟩ := hd hdec
  obtain ⟨_, hv, _⟩ := info_of_analysis hA
  obtain ⟨cA, cB⟩ := ChordalInfo.new_covered findGraph hfg A b cones mm hmm ci hnew hdec
    (A.colptr.getD A.n 0) wf.nnz_le
  exact ⟨hv, wf, ncols, bIndOf_strict b, rowsA, rowsB, cA, cB⟩


theorem exA2_wf : CscWF exA2 where
  cp_size := rfl
  cp_zero := rfl
  cp_mono := by
    intro c hc
    have : c = 0 := by
      have : c < 1 := hc
      omega
    subst this; decide
  nnz_le := by decide
  sorted := by
    intro c hc
    have : c = 0 := by
      have : c < 1 := hc
      omega
    subst this
    intro x y _ hxy hy
    have hy' : y < 2 := hy
    have : x = 0 ∧ y = 1 := by omega
    obtain ⟨rfl, rfl⟩ := this
    decide

/-- non-vacuity of `ChordalInfo.new_covered`, `ChordalInfo.new_compactHyp`, `FromAnalysis.headerCounts_eq`,
`FromAnalysis.decompReverseCompactFull_eq`: `ChordalInfo::new` returns on the path-graph problem; when
its result is decomposed (it is: the driver evaluates the model to two cliques; the kernel cannot
unfold the merge sort inside `SparsityPattern::new`) all hypotheses hold -/
example : ∃ ci, ChordalInfo.new exFindGraph exA2 exb2 #[.psd 3] "none" = .ok ci ∧
    (ci.isDecomposed = true →
      CompactHyp ci exA2 (bIndOf exb2) ∧
      (∃ hc, ci.headerCounts = .ok hc ∧ hc.initPsd = 1) ∧
      ∀ (cm : Array ConeMapEntry) (oc : Array Cone) (s z : Array Int),
        decompReverseCompactFull ci cm oc s z = decompReverseCompact ci cm oc s z) := by
  obtain ⟨h1, h2, h3⟩ := exNew_hyps
  obtain ⟨ci, hci⟩ := ChordalInfo.new_ok exFindGraph exFindGraph_ok exA2 exb2 #[.psd 3] "none"
    (Or.inl rfl) h1 h2 h3
  refine ⟨ci, hci, fun hdec => ?_⟩
  obtain ⟨nzMask, _, _, _, _, hd, _⟩ := ChordalInfo.new_fromAnalysis exFindGraph exFindGraph_ok
    exA2 exb2 #[.psd 3] "none" (Or.inl rfl) ci hci
  obtain ⟨hic, hA, _⟩ := hd hdec
  have hrs : ci.rs 0 = 0 := by unfold ChordalInfo.rs; rw [hic]; rfl
  have hnv : ci.nv 0 = 6 := by unfold ChordalInfo.nv; rw [hic]; rfl
  have hb : bIndOf exb2 = #[] := by decide
  refine ⟨?_, ?_, fun cm oc s z => (hA.decompReverseCompactFull_eq cm oc s z).2⟩
  · apply ChordalInfo.new_compactHyp exFindGraph exFindGraph_ok exA2 exb2 #[.psd 3] "none" (Or.inl rfl)
      ci hci hdec exA2_wf (by decide)
    · intro slot hs
      have hs' : slot < 2 := hs
      refine ⟨0, by rw [hic]; decide, ?_⟩
      rw [hrs, hnv]
      rcases (by omega : slot = 0 ∨ slot = 1) with rfl | rfl <;> decide
    · intro slot hs
      rw [hb] at hs
      exact absurd hs (Nat.not_lt_zero _)
  · refine ⟨_, hA.headerCounts_eq.1, ?_⟩
    simp only
    rw [hic]
    rfl


end Clarabel.Chordal
