/-
  Lemmas for the BLAS-wrapper part of the dense matrix model (`ClarabelModel/Dense.lean`,
  section "BLAS wrappers": `blasElem`, `dotN`, `axpbyBlas`, `mul`, `gemv`, `symElem`, `symv`,
  `syrk`, `syr2k`), C16.

  * [S] structural facts (any scalar type, `Float` included): the panic / quick-return paths,
    "C is not read when beta = 0", which triangle is referenced / written;
  * [F] exact-arithmetic facts (commutative ring with a lawful `==`): every entry of the result
    as `alpha * Σ_l … + beta * c`.
-/
import ClarabelProofs.Lemmas.DenseBasic
import Mathlib.Algebra.BigOperators.Group.Finset.Basic
import Mathlib.Algebra.BigOperators.Ring.Finset
import Mathlib.Tactic.Ring

namespace Clarabel.Dense
open Clarabel

variable {α : Type}
set_option linter.unusedSectionVars false

/-! ### `dotN`, `axpbyBlas`, `blasElem` -/

/-- [S] `dotN` only looks at `f 0 … f (k-1)` -/
theorem dotN_congr [Add α] [OfNat α 0] (k : Nat) (f g : Nat → α) (h : ∀ l, l < k → f l = g l) :
    dotN k f = dotN k g := by
  unfold dotN
  induction k with
  | zero => rfl
  | succ k ih =>
    rw [List.range_succ, List.foldl_append, List.foldl_append, ih (fun l hl => h l (by omega))]
    simp only [List.foldl_cons, List.foldl_nil]
    rw [h k (by omega)]

example : dotN 2 (fun l => if l < 2 then (l : Int) else 7) = dotN 2 (fun l => (l : Int)) :=
  dotN_congr 2 _ _ (fun l hl => by simp [hl])

/-- [F] (additive commutative monoid) the reference accumulation loop is the finite sum -/
theorem dotN_eq_sum [AddCommMonoid α] (k : Nat) (f : Nat → α) :
    dotN k f = ∑ l ∈ Finset.range k, f l := by
  unfold dotN
  induction k with
  | zero => simp
  | succ k ih =>
    rw [List.range_succ, List.foldl_append, ih, Finset.sum_range_succ]
    rfl

/-- [F] (commutative ring, lawful `==`) `alpha * acc + beta * c`, whichever branch is taken -/
theorem axpbyBlas_eq [CommRing α] [BEq α] [LawfulBEq α] (a acc b c : α) :
    axpbyBlas a acc b c = a * acc + b * c := by
  unfold axpbyBlas
  split
  · rename_i h
    have hb : b = 0 := eq_of_beq h
    rw [hb]
    ring
  · rfl

/-- [S] `c` is not read when `beta == 0` -/
theorem axpbyBlas_beta_zero [Add α] [Mul α] [OfNat α 0] [BEq α] (a acc b c : α)
    (h : (b == 0) = true) : axpbyBlas a acc b c = a * acc := by
  unfold axpbyBlas
  rw [if_pos h]

example : axpbyBlas (2 : Int) 3 0 5 = 2 * 3 := axpbyBlas_beta_zero 2 3 0 5 (by decide)

/-- [S] what BLAS reads from the buffer is the entry of `op(A)` (for `A` itself and `t()`),
whether or not the index is in range (`0` stands for an out-of-range read) -/
theorem blasElem_eq_atV [OfNat α 0] (v : DView) (A : Dense α) (i l : Nat) (hv : v = .N ∨ v = .T) :
    blasElem v A i l = (atV? v A i l).getD 0 := by
  rcases hv with rfl | rfl <;> simp [blasElem, atV?, indexLinear, Array.getD_eq_getD_getElem?]

example : blasElem .T (⟨2, 2, #[1, 2, 3, 4]⟩ : Dense Int) 0 1 = (atV? .T ⟨2, 2, #[1, 2, 3, 4]⟩ 0 1).getD 0 :=
  blasElem_eq_atV _ _ _ _ (Or.inr rfl)

/-- [S] on a well-formed matrix the in-range entries of `op(A)` are exactly what BLAS reads -/
theorem atV_eq_blasElem [OfNat α 0] (v : DView) (A : Dense α) (hA : WF A) (hv : v = .N ∨ v = .T)
    {i l : Nat} (hi : i < nrowsV v A) (hl : l < ncolsV v A) :
    atV? v A i l = some (blasElem v A i l) := by
  have hlt := indexLinear_lt v A hA (by rcases hv with rfl | rfl <;> simp) hi hl
  rw [blasElem_eq_atV v A i l hv, atV?, Array.getElem?_eq_getElem hlt]
  rfl

example : atV? .T (⟨2, 2, #[1, 2, 3, 4]⟩ : Dense Int) 0 1 = some (blasElem .T ⟨2, 2, #[1, 2, 3, 4]⟩ 0 1) :=
  atV_eq_blasElem .T ⟨2, 2, #[1, 2, 3, 4]⟩ rfl (Or.inr rfl) (by decide) (by decide)

/-- [S] a `sym()` view of a square matrix is handed to BLAS as the plain buffer -/
theorem blasElem_S_eq_N [OfNat α 0] (A : Dense α) (h : A.m = A.n) : blasElem .S A = blasElem .N A := by
  funext i l
  simp [blasElem, h]

example : blasElem .S (⟨2, 2, #[1, 2, 3, 4]⟩ : Dense Int) = blasElem .N ⟨2, 2, #[1, 2, 3, 4]⟩ :=
  blasElem_S_eq_N _ rfl

/-- [S] the symmetric matrix `?symv` sees is the `sym()` view -/
theorem symElem_eq_atV [OfNat α 0] (A : Dense α) (i l : Nat) :
    symElem A A.m i l = (atV? .S A i l).getD 0 := by
  unfold symElem atV? indexLinear
  split <;> simp [Array.getD_eq_getD_getElem?]

/-- [S] the matrix `?symv` sees is symmetric whatever the buffer holds -/
theorem symElem_symm [OfNat α 0] (A : Dense α) (n i l : Nat) : symElem A n i l = symElem A n l i := by
  unfold symElem
  by_cases h1 : i ≤ l <;> by_cases h2 : l ≤ i
  · have : i = l := by omega
    subst this; rfl
  · rw [if_pos h1, if_neg h2]
  · rw [if_neg h1, if_pos h2]
  · omega

/-! ### `mul` (gemm) -/

section mulS
variable [Add α] [Mul α] [OfNat α 0] [BEq α]

/-- [S] the asserts of `mul` fail -/
theorem mul_panic (C : Dense α) (va : DView) (A : Dense α) (vb : DView) (B : Dense α) (a b : α)
    (h : ¬ (ncolsV va A = nrowsV vb B ∧ C.m = nrowsV va A ∧ C.n = ncolsV vb B)) :
    mul C va A vb B a b = .error (.panic "gemm: assert dims") := by
  unfold mul
  have : (ncolsV va A == nrowsV vb B && C.m == nrowsV va A && C.n == ncolsV vb B) = false := by
    rw [Bool.eq_false_iff]
    intro hc
    simp only [Bool.and_eq_true, beq_iff_eq] at hc
    exact h ⟨hc.1.1, hc.1.2, hc.2⟩
  simp only [this]
  rfl

example : mul (⟨2, 2, #[0, 0, 0, 0]⟩ : Dense Int) .N ⟨2, 1, #[1, 2]⟩ .N ⟨2, 2, #[1, 2, 3, 4]⟩ 1 1 =
    .error (.panic "gemm: assert dims") :=
  mul_panic _ _ _ _ _ _ _ (by decide)

/-- [S] empty result: quick return, nothing is read -/
theorem mul_empty (C : Dense α) (va : DView) (A : Dense α) (vb : DView) (B : Dense α) (a b : α)
    (h1 : ncolsV va A = nrowsV vb B) (h2 : C.m = nrowsV va A) (h3 : C.n = ncolsV vb B)
    (h0 : C.m = 0 ∨ C.n = 0) : mul C va A vb B a b = .ok C := by
  unfold mul
  have hd : (ncolsV va A == nrowsV vb B && C.m == nrowsV va A && C.n == ncolsV vb B) = true := by
    simp [h1, ← h2, ← h3]
  have he : (C.m == 0 || C.n == 0) = true := by
    rcases h0 with h | h <;> simp [h]
  simp only [hd, he]
  rfl

example : mul (⟨0, 2, #[]⟩ : Dense Int) .N ⟨0, 1, #[]⟩ .N ⟨1, 2, #[3, 4]⟩ 1 1 = .ok ⟨0, 2, #[]⟩ :=
  mul_empty _ _ _ _ _ _ _ rfl rfl rfl (Or.inl rfl)

/-- [S] the non-empty, well-formed case: the table that `mul` writes -/
theorem mul_eq (C : Dense α) (va : DView) (A : Dense α) (vb : DView) (B : Dense α) (a b : α)
    (hC : WF C) (hA : WF A) (hB : WF B)
    (h1 : ncolsV va A = nrowsV vb B) (h2 : C.m = nrowsV va A) (h3 : C.n = ncolsV vb B)
    (hm : 0 < C.m) (hn : 0 < C.n) :
    mul C va A vb B a b = .ok { C with data := tab C.m C.n (fun i j =>
      axpbyBlas a (dotN (ncolsV va A) (fun l => blasElem va A i l * blasElem vb B l j)) b
        (C.data.getD (i + C.m * j) 0)) } := by
  unfold mul
  have hd : (ncolsV va A == nrowsV vb B && C.m == nrowsV va A && C.n == ncolsV vb B) = true := by
    simp [h1, ← h2, ← h3]
  have he : (C.m == 0 || C.n == 0) = false := by
    simp only [Bool.or_eq_false_iff, beq_eq_false_iff_ne]
    omega
  have hw : (wf A && wf B && wf C) = true := by
    simp only [Bool.and_eq_true, wf_iff]
    exact ⟨⟨hA, hB⟩, hC⟩
  simp only [hd, he, hw]
  rfl

example : ∃ R, mul (⟨2, 1, #[5, 6]⟩ : Dense Int) .N ⟨2, 2, #[1, 2, 3, 4]⟩ .N ⟨2, 1, #[1, 1]⟩ 2 3 = .ok R :=
  ⟨_, mul_eq (⟨2, 1, #[5, 6]⟩ : Dense Int) .N ⟨2, 2, #[1, 2, 3, 4]⟩ .N ⟨2, 1, #[1, 1]⟩ 2 3
    rfl rfl rfl rfl rfl rfl (by decide) (by decide)⟩

/-- [S] BLAS does not read `C` when `beta == 0`: two well-formed targets of the same shape
(any contents) give the same outcome -/
theorem mul_beta_zero (C C' : Dense α) (va : DView) (A : Dense α) (vb : DView) (B : Dense α) (a b : α)
    (hb : (b == 0) = true) (hm : C.m = C'.m) (hn : C.n = C'.n) (hC : WF C) (hC' : WF C') :
    mul C va A vb B a b = mul C' va A vb B a b := by
  obtain ⟨m, n, d⟩ := C
  obtain ⟨m', n', d'⟩ := C'
  simp only at hm hn
  subst hm hn
  by_cases hdim : ncolsV va A = nrowsV vb B ∧ m = nrowsV va A ∧ n = ncolsV vb B
  · by_cases h0 : m = 0 ∨ n = 0
    · have hs : d.size = 0 := by
        have : d.size = m * n := hC
        rcases h0 with h | h <;> simp [this, h]
      have hs' : d'.size = 0 := by
        have : d'.size = m * n := hC'
        rcases h0 with h | h <;> simp [this, h]
      have e : d = d' := by
        rw [Array.eq_empty_of_size_eq_zero hs, Array.eq_empty_of_size_eq_zero hs']
      rw [e]
    · by_cases hAB : WF A ∧ WF B
      · rw [mul_eq _ va A vb B a b hC hAB.1 hAB.2 hdim.1 hdim.2.1 hdim.2.2 (by simp only; omega)
            (by simp only; omega),
          mul_eq _ va A vb B a b hC' hAB.1 hAB.2 hdim.1 hdim.2.1 hdim.2.2 (by simp only; omega)
            (by simp only; omega)]
        simp only [axpbyBlas_beta_zero _ _ _ _ hb]
      · unfold mul
        have hw : ∀ (X : Dense α), (wf A && wf B && wf X) = false := by
          intro X
          rw [Bool.eq_false_iff]
          intro hc
          simp only [Bool.and_eq_true, wf_iff] at hc
          exact hAB hc.1
        simp only [hw]
        have hd : (ncolsV va A == nrowsV vb B && m == nrowsV va A && n == ncolsV vb B) = true := by
          simp [hdim.1, ← hdim.2.1, ← hdim.2.2]
        have he : (m == 0 || n == 0) = false := by
          simp only [Bool.or_eq_false_iff, beq_eq_false_iff_ne]
          omega
        simp only [hd, he]
        rfl
  · rw [mul_panic _ va A vb B a b hdim, mul_panic _ va A vb B a b hdim]

example : mul (⟨2, 1, #[5, 6]⟩ : Dense Int) .N ⟨2, 2, #[1, 2, 3, 4]⟩ .N ⟨2, 1, #[1, 1]⟩ 2 0 =
    mul (⟨2, 1, #[-7, 9]⟩ : Dense Int) .N ⟨2, 2, #[1, 2, 3, 4]⟩ .N ⟨2, 1, #[1, 1]⟩ 2 0 :=
  mul_beta_zero _ _ _ _ _ _ _ _ (by decide) rfl rfl rfl rfl

end mulS

/-- [F] (commutative ring, lawful `==`) `C.mul(A, B, α, β)` on well-formed operands of
matching, non-empty result shape: `C ← α·op(A)·op(B) + β·C`, entry by entry. -/
theorem mul_spec [CommRing α] [BEq α] [LawfulBEq α] (C : Dense α) (va : DView) (A : Dense α)
    (vb : DView) (B : Dense α) (a b : α) (hC : WF C) (hA : WF A) (hB : WF B)
    (h1 : ncolsV va A = nrowsV vb B) (h2 : C.m = nrowsV va A) (h3 : C.n = ncolsV vb B)
    (hm : 0 < C.m) (hn : 0 < C.n) :
    ∃ R, mul C va A vb B a b = .ok R ∧ R.m = C.m ∧ R.n = C.n ∧ WF R ∧
      ∀ i j, i < C.m → j < C.n → at? R i j =
        some (a * (∑ l ∈ Finset.range (ncolsV va A), blasElem va A i l * blasElem vb B l j)
          + b * C.data.getD (i + C.m * j) 0) := by
  refine ⟨_, mul_eq C va A vb B a b hC hA hB h1 h2 h3 hm hn, rfl, rfl, ?_, ?_⟩
  · simp [WF]
  · intro i j hi hj
    simp only [at?]
    rw [tab_at _ _ _ hi hj, axpbyBlas_eq, dotN_eq_sum]

example : ∃ R, mul (⟨2, 1, #[5, 6]⟩ : Dense Int) .N ⟨2, 2, #[1, 2, 3, 4]⟩ .N ⟨2, 1, #[1, 1]⟩ 2 3 = .ok R ∧
    at? R 1 0 = some (2 * (∑ l ∈ Finset.range 2, blasElem .N (⟨2, 2, #[1, 2, 3, 4]⟩ : Dense Int) 1 l *
      blasElem .N (⟨2, 1, #[1, 1]⟩ : Dense Int) l 0) + 3 * 6) := by
  obtain ⟨R, h, _, _, _, he⟩ := mul_spec (⟨2, 1, #[5, 6]⟩ : Dense Int) .N ⟨2, 2, #[1, 2, 3, 4]⟩ .N
    ⟨2, 1, #[1, 1]⟩ 2 3 rfl rfl rfl rfl rfl rfl (by decide) (by decide)
  exact ⟨R, h, he 1 0 (by decide) (by decide)⟩

/-! ### `gemv`, `symv` -/

theorem zipIdx_map_size {β : Type} (y : Array α) (F : α × Nat → β) :
    ((y.toList.zipIdx).map F).toArray.size = y.size := by
  simp

theorem zipIdx_map_get {β : Type} (y : Array α) (F : α × Nat → β) (i : Nat) (hi : i < y.size) :
    ((y.toList.zipIdx).map F).toArray[i]? = some (F (y[i], i)) := by
  simp [hi]

theorem zipIdx_map_congr {β : Type} (y : Array α) (F G : α × Nat → β)
    (h : ∀ e : α × Nat, e.2 < y.size → F e = G e) :
    (y.toList.zipIdx).map F = (y.toList.zipIdx).map G := by
  apply List.map_congr_left
  intro e he
  have := List.snd_lt_of_mem_zipIdx he
  exact h e (by simpa using this)

example : ((#[5, 6] : Array Int).toList.zipIdx.map (fun e => e.1 + (e.2 : Int))).toArray[1]? =
    some (6 + 1) :=
  zipIdx_map_get (#[5, 6] : Array Int) (fun e => e.1 + (e.2 : Int)) 1 (by decide)

example : (#[5, 6] : Array Int).toList.zipIdx.map (fun e => if e.2 < 2 then e.1 else 0) =
    (#[5, 6] : Array Int).toList.zipIdx.map (fun e => e.1) :=
  zipIdx_map_congr (#[5, 6] : Array Int) _ _ (fun e he => by
    have he' : e.2 < 2 := he
    simp [he'])

section gemvS
variable [Add α] [Mul α] [OfNat α 0] [BEq α]

/-- [S] BLAS `?gemv` returns at once on an empty matrix: `y` is NOT scaled by `beta` -/
theorem gemv_empty_unscaled (v : DView) (A : Dense α) (x y : Array α) (a b : α)
    (hv : v = .N ∨ v = .T) (hx : ncolsV v A = x.size) (hy : nrowsV v A = y.size)
    (h0 : A.m = 0 ∨ A.n = 0) : gemv v A x y a b = .ok y := by
  have he : (A.m == 0 || A.n == 0) = true := by
    rcases h0 with h | h <;> simp [h]
  rcases hv with rfl | rfl
  · simp only [nrowsV, ncolsV] at hx hy
    have e1 : (A.n == x.size && A.m == y.size) = true := by simp [hx, hy]
    unfold gemv
    simp only [shapeIsT, e1, he, Bool.not_true, Bool.and_false, Bool.false_and,
      Bool.false_eq_true, ↓reduceIte]
    rfl
  · simp only [nrowsV, ncolsV] at hx hy
    have e1 : (A.m == x.size && A.n == y.size) = true := by simp [hx, hy]
    unfold gemv
    simp only [shapeIsT, e1, he, Bool.not_true, Bool.and_false, Bool.false_and,
      Bool.false_eq_true, ↓reduceIte]
    rfl

example : gemv .N (⟨0, 2, #[]⟩ : Dense Int) #[1, 1] #[] 1 5 = .ok #[] :=
  gemv_empty_unscaled .N ⟨0, 2, #[]⟩ _ _ _ _ (Or.inl rfl) rfl rfl (Or.inl rfl)

example : gemv .T (⟨0, 2, #[]⟩ : Dense Int) #[] #[7, 8] 1 0 = .ok #[7, 8] :=
  gemv_empty_unscaled .T ⟨0, 2, #[]⟩ _ _ _ _ (Or.inr rfl) rfl rfl (Or.inl rfl)

/-- [S] the non-empty well-formed case of `gemv` -/
theorem gemv_eq (v : DView) (A : Dense α) (x y : Array α) (a b : α)
    (hv : v = .N ∨ v = .T) (hA : WF A) (hx : ncolsV v A = x.size) (hy : nrowsV v A = y.size)
    (hm : 0 < A.m) (hn : 0 < A.n) :
    gemv v A x y a b = .ok ((y.toList.zipIdx).map (fun e =>
      axpbyBlas a (dotN (ncolsV v A) (fun l => blasElem v A e.2 l * x.getD l 0)) b e.1)).toArray := by
  have he : (A.m == 0 || A.n == 0) = false := by
    simp only [Bool.or_eq_false_iff, beq_eq_false_iff_ne]
    omega
  have hw : wf A = true := (wf_iff A).mpr hA
  rcases hv with rfl | rfl
  · simp only [nrowsV, ncolsV] at hx hy
    have e1 : (A.n == x.size && A.m == y.size) = true := by simp [hx, hy]
    unfold gemv
    simp only [shapeIsT, e1, he, hw, Bool.not_true, Bool.and_false, Bool.false_and,
      Bool.false_eq_true, ↓reduceIte]
    rfl
  · simp only [nrowsV, ncolsV] at hx hy
    have e1 : (A.m == x.size && A.n == y.size) = true := by simp [hx, hy]
    unfold gemv
    simp only [shapeIsT, e1, he, hw, Bool.not_true, Bool.and_false, Bool.false_and,
      Bool.false_eq_true, ↓reduceIte]
    rfl

example : ∃ y', gemv .N (⟨2, 2, #[1, 2, 3, 4]⟩ : Dense Int) #[1, 1] #[5, 6] 2 3 = .ok y' :=
  ⟨_, gemv_eq .N (⟨2, 2, #[1, 2, 3, 4]⟩ : Dense Int) #[1, 1] #[5, 6] 2 3 (Or.inl rfl) rfl rfl rfl
    (by decide) (by decide)⟩

end gemvS

/-- [F] (commutative ring, lawful `==`) `gemv` on a well-formed non-empty matrix (`A` itself or
`t()`) and vectors of the right lengths: `y ← α·op(A)·x + β·y` with the true entries of `op(A)`. -/
theorem gemv_spec [CommRing α] [BEq α] [LawfulBEq α] (v : DView) (A : Dense α) (x y : Array α) (a b : α)
    (hv : v = .N ∨ v = .T) (hA : WF A) (hx : ncolsV v A = x.size) (hy : nrowsV v A = y.size)
    (hm : 0 < A.m) (hn : 0 < A.n) :
    ∃ y', gemv v A x y a b = .ok y' ∧ y'.size = y.size ∧
      ∀ i, i < y.size → y'[i]? =
        some (a * (∑ l ∈ Finset.range x.size, (atV? v A i l).getD 0 * x.getD l 0) + b * y.getD i 0) := by
  refine ⟨_, gemv_eq v A x y a b hv hA hx hy hm hn, zipIdx_map_size _ _, ?_⟩
  intro i hi
  rw [zipIdx_map_get _ _ _ hi, axpbyBlas_eq, dotN_eq_sum, hx]
  simp only [blasElem_eq_atV v A _ _ hv, Array.getD_eq_getD_getElem?, Array.getElem?_eq_getElem hi,
    Option.getD_some]

example : ∃ y', gemv .T (⟨2, 2, #[1, 2, 3, 4]⟩ : Dense Int) #[1, 1] #[5, 6] 2 3 = .ok y' ∧
    y'[1]? = some (2 * (∑ l ∈ Finset.range 2, (atV? .T (⟨2, 2, #[1, 2, 3, 4]⟩ : Dense Int) 1 l).getD 0 *
      (#[1, 1] : Array Int).getD l 0) + 3 * (#[5, 6] : Array Int).getD 1 0) := by
  obtain ⟨y', h, _, he⟩ := gemv_spec .T (⟨2, 2, #[1, 2, 3, 4]⟩ : Dense Int) #[1, 1] #[5, 6] 2 3
    (Or.inr rfl) rfl rfl rfl (by decide) (by decide)
  exact ⟨y', h, he 1 (by decide)⟩

section symvS
variable [Add α] [Mul α] [OfNat α 0] [BEq α]

/-- [S] `symv` on an empty matrix: quick return -/
theorem symv_empty (A : Dense α) (x y : Array α) (a b : α) (hsq : A.m = A.n) (h0 : A.m = 0) :
    symv A x y a b = .ok y := by
  unfold symv
  simp only [← hsq, h0, bne_self_eq_false, Bool.false_eq_true, ↓reduceIte, beq_self_eq_true]
  rfl

example : symv (⟨0, 0, #[]⟩ : Dense Int) #[1] #[5, 6] 2 3 = .ok #[5, 6] :=
  symv_empty ⟨0, 0, #[]⟩ _ _ _ _ rfl rfl

/-- [S] `symv` with a buffer or a vector of the wrong length: undefined behaviour in the code -/
theorem symv_ub (A : Dense α) (x y : Array α) (a b : α) (hsq : A.m = A.n) (h0 : 0 < A.m)
    (h : ¬ (WF A ∧ x.size = A.m ∧ y.size = A.m)) : symv A x y a b = .error (.err "ub") := by
  unfold symv
  have hc : (!(wf A) || x.size != A.m || y.size != A.m) = true := by
    by_contra hc
    apply h
    simp only [Bool.or_eq_true, Bool.not_eq_true', bne_iff_ne, ne_eq, not_or, Bool.not_eq_false,
      Decidable.not_not, wf_iff] at hc
    exact ⟨hc.1.1, hc.1.2, hc.2⟩
  have hz : (A.m == 0) = false := by
    simp only [beq_eq_false_iff_ne]; omega
  simp only [← hsq, bne_self_eq_false, Bool.false_eq_true, ↓reduceIte, hz, hc]
  rfl

example : symv (⟨2, 2, #[1, 2, 3, 4]⟩ : Dense Int) #[1] #[5, 6] 2 3 = .error (.err "ub") :=
  symv_ub ⟨2, 2, #[1, 2, 3, 4]⟩ #[1] #[5, 6] 2 3 rfl (by decide) (fun h => absurd h.2.1 (by decide))

/-- [S] the non-empty well-formed case of `symv` -/
theorem symv_eq (A : Dense α) (x y : Array α) (a b : α) (hA : WF A) (hsq : A.m = A.n) (h0 : 0 < A.m)
    (hx : x.size = A.m) (hy : y.size = A.m) :
    symv A x y a b = .ok ((y.toList.zipIdx).map (fun e =>
      axpbyBlas a (dotN A.m (fun l => symElem A A.m e.2 l * x.getD l 0)) b e.1)).toArray := by
  unfold symv
  have hc : (!(wf A) || x.size != A.m || y.size != A.m) = false := by
    simp [(wf_iff A).mpr hA, hx, hy]
  have hz : (A.m == 0) = false := by
    simp only [beq_eq_false_iff_ne]; omega
  simp only [← hsq, bne_self_eq_false, Bool.false_eq_true, ↓reduceIte, hz, hc]
  rfl

example : ∃ y', symv (⟨2, 2, #[1, 2, 3, 4]⟩ : Dense Int) #[1, 1] #[5, 6] 2 3 = .ok y' :=
  ⟨_, symv_eq (⟨2, 2, #[1, 2, 3, 4]⟩ : Dense Int) #[1, 1] #[5, 6] 2 3 rfl rfl (by decide) rfl rfl⟩

/-- [S] `?symv('U')` references the upper triangle only: two square well-formed matrices that
agree there give the same outcome -/
theorem symv_upper_only (A A' : Dense α) (x y : Array α) (a b : α) (hm : A.m = A'.m) (hn : A.n = A'.n)
    (hsq : A.m = A.n) (hA : WF A) (hA' : WF A')
    (hup : ∀ i l, i ≤ l → l < A.m → A.data[i + A.m * l]? = A'.data[i + A.m * l]?) :
    symv A x y a b = symv A' x y a b := by
  have hsq' : A'.m = A'.n := by omega
  by_cases h0 : A.m = 0
  · rw [symv_empty A x y a b hsq h0, symv_empty A' x y a b hsq' (by omega)]
  · by_cases hs : x.size = A.m ∧ y.size = A.m
    · rw [symv_eq A x y a b hA hsq (by omega) hs.1 hs.2,
        symv_eq A' x y a b hA' hsq' (by omega) (by omega) (by omega), ← hm]
      congr 2
      apply zipIdx_map_congr
      intro e he
      congr 1
      apply dotN_congr
      intro l hl
      congr 1
      unfold symElem
      split
      · rename_i hle
        simp only [Array.getD_eq_getD_getElem?, hup _ _ hle hl]
      · rename_i hle
        simp only [Array.getD_eq_getD_getElem?, hup l e.2 (by omega) (by omega)]
    · rw [symv_ub A x y a b hsq (by omega) (fun h => hs h.2),
        symv_ub A' x y a b hsq' (by omega) (fun h => hs ⟨by omega, by omega⟩)]

example : symv (⟨2, 2, #[1, 100, 3, 4]⟩ : Dense Int) #[1, 1] #[5, 6] 2 3 =
    symv (⟨2, 2, #[1, -100, 3, 4]⟩ : Dense Int) #[1, 1] #[5, 6] 2 3 :=
  symv_upper_only ⟨2, 2, #[1, 100, 3, 4]⟩ ⟨2, 2, #[1, -100, 3, 4]⟩ _ _ _ _ rfl rfl rfl rfl rfl (by
    intro i l hil hl
    have hl' : l < 2 := hl
    have : (i = 0 ∧ l = 0) ∨ (i = 0 ∧ l = 1) ∨ (i = 1 ∧ l = 1) := by omega
    rcases this with ⟨rfl, rfl⟩ | ⟨rfl, rfl⟩ | ⟨rfl, rfl⟩ <;> rfl)

end symvS

/-- [F] (commutative ring, lawful `==`) `A.sym().symv(x, y, α, β)` on a well-formed non-empty
square matrix: `y ← α·sym(A)·x + β·y`, `sym(A)` read from the upper triangle. -/
theorem symv_spec [CommRing α] [BEq α] [LawfulBEq α] (A : Dense α) (x y : Array α) (a b : α) (n : Nat)
    (hA : WF A) (hm : A.m = n) (hn : A.n = n) (h0 : 0 < n) (hx : x.size = n) (hy : y.size = n) :
    ∃ y', symv A x y a b = .ok y' ∧ y'.size = n ∧
      ∀ i, i < n → y'[i]? =
        some (a * (∑ l ∈ Finset.range n, symElem A n i l * x.getD l 0) + b * y.getD i 0) := by
  subst hm
  refine ⟨_, symv_eq A x y a b hA hn.symm h0 hx hy, (zipIdx_map_size _ _).trans hy, ?_⟩
  intro i hi
  have hi' : i < y.size := by omega
  rw [zipIdx_map_get _ _ _ hi', axpbyBlas_eq, dotN_eq_sum]
  simp only [Array.getD_eq_getD_getElem?, Array.getElem?_eq_getElem hi', Option.getD_some]

example : ∃ y', symv (⟨2, 2, #[1, 100, 3, 4]⟩ : Dense Int) #[1, 1] #[5, 6] 2 3 = .ok y' ∧
    y'[1]? = some (2 * (∑ l ∈ Finset.range 2, symElem (⟨2, 2, #[1, 100, 3, 4]⟩ : Dense Int) 2 1 l *
      (#[1, 1] : Array Int).getD l 0) + 3 * (#[5, 6] : Array Int).getD 1 0) := by
  obtain ⟨y', h, _, he⟩ := symv_spec (⟨2, 2, #[1, 100, 3, 4]⟩ : Dense Int) #[1, 1] #[5, 6] 2 3 2
    rfl rfl rfl (by decide) rfl rfl
  exact ⟨y', h, he 1 (by decide)⟩

/-! ### `syrk`, `syr2k` -/

section syrkS
variable [Add α] [Mul α] [OfNat α 0] [BEq α]

/-- [S] (finding) `C.syrk(A.t(), α, β)` with `A` having no rows (`k = 0`): the wrapper passes
`lda = 0`, BLAS rejects the call, `C` is returned as it was — `beta` is NOT applied. -/
theorem syrk_adjoint_k0 (C A : Dense α) (a b : α) (h1 : C.m = nrowsV .T A) (h2 : C.n = nrowsV .T A)
    (hm : 0 < C.m) (hk : ncolsV .T A = 0) : syrk C .T A a b = .ok C := by
  unfold syrk
  have hz : (C.m == 0) = false := by
    simp only [beq_eq_false_iff_ne]; omega
  have e1 : (C.m != nrowsV .T A) = false := by simp [h1]
  have e2 : (C.n != nrowsV .T A) = false := by simp [h2]
  simp only [e1, e2, Bool.false_eq_true, ↓reduceIte, hz, shapeIsT, hk, beq_self_eq_true, Bool.and_self]
  rfl

example : syrk (⟨2, 2, #[1, 2, 3, 4]⟩ : Dense Int) .T ⟨0, 2, #[]⟩ 1 5 = .ok ⟨2, 2, #[1, 2, 3, 4]⟩ :=
  syrk_adjoint_k0 ⟨2, 2, #[1, 2, 3, 4]⟩ ⟨0, 2, #[]⟩ 1 5 rfl rfl (by decide) rfl

/-- [S] `syrk` on an empty `C`: quick return -/
theorem syrk_empty (C : Dense α) (va : DView) (A : Dense α) (a b : α) (h1 : C.m = nrowsV va A)
    (h2 : C.n = nrowsV va A) (h0 : C.m = 0) : syrk C va A a b = .ok C := by
  unfold syrk
  have e1 : (C.m != nrowsV va A) = false := by simp [h1]
  have e2 : (C.n != nrowsV va A) = false := by simp [h2]
  have hz : (C.m == 0) = true := by simp [h0]
  simp only [e1, e2, Bool.false_eq_true, ↓reduceIte, hz]
  rfl

example : syrk (⟨0, 0, #[]⟩ : Dense Int) .N ⟨0, 3, #[]⟩ 1 5 = .ok ⟨0, 0, #[]⟩ :=
  syrk_empty ⟨0, 0, #[]⟩ .N ⟨0, 3, #[]⟩ 1 5 rfl rfl rfl

/-- [S] the non-empty well-formed case of `syrk` -/
theorem syrk_eq (C : Dense α) (va : DView) (A : Dense α) (a b : α) (hC : WF C) (hA : WF A)
    (h1 : C.m = nrowsV va A) (h2 : C.n = nrowsV va A) (hm : 0 < C.m)
    (hk : ¬ (shapeIsT va = true ∧ ncolsV va A = 0)) :
    syrk C va A a b = .ok { C with data := tab C.m C.n (fun i j =>
      if i ≤ j then axpbyBlas a (dotN (ncolsV va A) (fun l => blasElem va A i l * blasElem va A j l)) b
        (C.data.getD (i + C.m * j) 0) else C.data.getD (i + C.m * j) 0) } := by
  unfold syrk
  have hz : (C.m == 0) = false := by
    simp only [beq_eq_false_iff_ne]; omega
  have hq : (shapeIsT va && ncolsV va A == 0) = false := by
    rw [Bool.eq_false_iff]
    intro hc
    simp only [Bool.and_eq_true, beq_iff_eq] at hc
    exact hk hc
  have hw : (wf A && wf C) = true := by
    simp only [Bool.and_eq_true, wf_iff]
    exact ⟨hA, hC⟩
  have e1 : (C.m != nrowsV va A) = false := by simp [h1]
  have e2 : (C.n != nrowsV va A) = false := by simp [h2]
  simp only [e1, e2, Bool.false_eq_true, ↓reduceIte, hz, hq, hw, Bool.not_true]
  rfl

example : ∃ R, syrk (⟨2, 2, #[1, 2, 3, 4]⟩ : Dense Int) .T ⟨1, 2, #[5, 6]⟩ 2 3 = .ok R :=
  ⟨_, syrk_eq (⟨2, 2, #[1, 2, 3, 4]⟩ : Dense Int) .T ⟨1, 2, #[5, 6]⟩ 2 3 rfl rfl rfl rfl (by decide)
    (by decide)⟩

end syrkS

/-- [F] (commutative ring, lawful `==`) `C.syrk(A, α, β)`: the upper triangle of `C` becomes
`α·op(A)·op(A)ᵀ + β·C`, the strictly lower triangle is left untouched. -/
theorem syrk_spec [CommRing α] [BEq α] [LawfulBEq α] (C : Dense α) (va : DView) (A : Dense α) (a b : α)
    (hC : WF C) (hA : WF A) (h1 : C.m = nrowsV va A) (h2 : C.n = nrowsV va A) (hm : 0 < C.m)
    (hk : ¬ (shapeIsT va = true ∧ ncolsV va A = 0)) :
    ∃ R, syrk C va A a b = .ok R ∧ R.m = C.m ∧ R.n = C.n ∧ WF R ∧
      (∀ i j, i ≤ j → j < C.m → at? R i j =
        some (a * (∑ l ∈ Finset.range (ncolsV va A), blasElem va A i l * blasElem va A j l)
          + b * C.data.getD (i + C.m * j) 0)) ∧
      (∀ i j, j < i → i < C.m → at? R i j = at? C i j) := by
  have hmn : C.n = C.m := by omega
  refine ⟨_, syrk_eq C va A a b hC hA h1 h2 hm hk, rfl, rfl, ?_, ?_, ?_⟩
  · simp [WF]
  · intro i j hij hj
    simp only [at?]
    rw [tab_at _ _ _ (by omega) (by omega), if_pos hij, axpbyBlas_eq, dotN_eq_sum]
  · intro i j hji hi
    simp only [at?]
    have hlt : i + C.m * j < C.data.size := by
      rw [hC]; exact lin_lt hi (by omega)
    rw [tab_at _ _ _ hi (by omega), if_neg (by omega), Array.getD_eq_getD_getElem?,
      Array.getElem?_eq_getElem hlt]
    rfl

example : ∃ R, syrk (⟨2, 2, #[1, 2, 3, 4]⟩ : Dense Int) .N ⟨2, 1, #[5, 6]⟩ 2 3 = .ok R ∧
    at? R 0 1 = some (2 * (∑ l ∈ Finset.range 1, blasElem .N (⟨2, 1, #[5, 6]⟩ : Dense Int) 0 l *
      blasElem .N (⟨2, 1, #[5, 6]⟩ : Dense Int) 1 l) + 3 * 3) ∧
    at? R 1 0 = some 2 := by
  obtain ⟨R, h, _, _, _, hu, hl⟩ := syrk_spec (⟨2, 2, #[1, 2, 3, 4]⟩ : Dense Int) .N ⟨2, 1, #[5, 6]⟩ 2 3
    rfl rfl rfl rfl (by decide) (by decide)
  exact ⟨R, h, hu 0 1 (by decide) (by decide), (hl 1 0 (by decide) (by decide)).trans rfl⟩

section syr2kS
variable [Add α] [Mul α] [OfNat α 0] [BEq α]

/-- [S] `syr2k` on an empty `C`: quick return -/
theorem syr2k_empty (C A B : Dense α) (a b : α) (h1 : C.m = A.m) (h2 : C.m = B.m) (h3 : C.n = B.m)
    (h4 : A.n = B.n) (h0 : C.m = 0) : syr2k C A B a b = .ok C := by
  unfold syr2k
  have e1 : (C.m != A.m) = false := by simp [h1]
  have e2 : (C.m != B.m) = false := by simp [h2]
  have e3 : (C.n != B.m) = false := by simp [h3]
  have e4 : (A.n != B.n) = false := by simp [h4]
  have hz : (C.m == 0) = true := by simp [h0]
  simp only [e1, e2, e3, e4, Bool.false_eq_true, ↓reduceIte, hz]
  rfl

example : syr2k (⟨0, 0, #[]⟩ : Dense Int) ⟨0, 3, #[]⟩ ⟨0, 3, #[]⟩ 1 5 = .ok ⟨0, 0, #[]⟩ :=
  syr2k_empty ⟨0, 0, #[]⟩ ⟨0, 3, #[]⟩ ⟨0, 3, #[]⟩ 1 5 rfl rfl rfl rfl rfl

/-- [S] the non-empty well-formed case of `syr2k` -/
theorem syr2k_eq (C A B : Dense α) (a b : α) (hC : WF C) (hA : WF A) (hB : WF B)
    (h1 : C.m = A.m) (h2 : C.m = B.m) (h3 : C.n = B.m) (h4 : A.n = B.n) (hm : 0 < C.m) :
    syr2k C A B a b = .ok { C with data := tab C.m C.n (fun i j =>
      if i ≤ j then axpbyBlas a (dotN A.n (fun l =>
          blasElem .N A i l * blasElem .N B j l + blasElem .N B i l * blasElem .N A j l)) b
        (C.data.getD (i + C.m * j) 0) else C.data.getD (i + C.m * j) 0) } := by
  unfold syr2k
  have hz : (C.m == 0) = false := by
    simp only [beq_eq_false_iff_ne]; omega
  have hw : (wf A && wf B && wf C) = true := by
    simp only [Bool.and_eq_true, wf_iff]
    exact ⟨⟨hA, hB⟩, hC⟩
  have e1 : (C.m != A.m) = false := by simp [h1]
  have e2 : (C.m != B.m) = false := by simp [h2]
  have e3 : (C.n != B.m) = false := by simp [h3]
  have e4 : (A.n != B.n) = false := by simp [h4]
  simp only [e1, e2, e3, e4, Bool.false_eq_true, ↓reduceIte, hz, hw, Bool.not_true]
  rfl

example : ∃ R, syr2k (⟨2, 2, #[1, 2, 3, 4]⟩ : Dense Int) ⟨2, 1, #[5, 6]⟩ ⟨2, 1, #[7, 8]⟩ 2 3 = .ok R :=
  ⟨_, syr2k_eq (⟨2, 2, #[1, 2, 3, 4]⟩ : Dense Int) ⟨2, 1, #[5, 6]⟩ ⟨2, 1, #[7, 8]⟩ 2 3
    rfl rfl rfl rfl rfl rfl rfl (by decide)⟩

end syr2kS

/-- [F] (commutative ring, lawful `==`) `C.syr2k(A, B, α, β)`: the upper triangle of `C` becomes
`α·(A·Bᵀ + B·Aᵀ) + β·C`, the strictly lower triangle is left untouched. -/
theorem syr2k_spec [CommRing α] [BEq α] [LawfulBEq α] (C A B : Dense α) (a b : α)
    (hC : WF C) (hA : WF A) (hB : WF B)
    (h1 : C.m = A.m) (h2 : C.m = B.m) (h3 : C.n = B.m) (h4 : A.n = B.n) (hm : 0 < C.m) :
    ∃ R, syr2k C A B a b = .ok R ∧ R.m = C.m ∧ R.n = C.n ∧ WF R ∧
      (∀ i j, i ≤ j → j < C.m → at? R i j =
        some (a * (∑ l ∈ Finset.range A.n,
            (blasElem .N A i l * blasElem .N B j l + blasElem .N B i l * blasElem .N A j l))
          + b * C.data.getD (i + C.m * j) 0)) ∧
      (∀ i j, j < i → i < C.m → at? R i j = at? C i j) := by
  have hmn : C.n = C.m := by omega
  refine ⟨_, syr2k_eq C A B a b hC hA hB h1 h2 h3 h4 hm, rfl, rfl, ?_, ?_, ?_⟩
  · simp [WF]
  · intro i j hij hj
    simp only [at?]
    rw [tab_at _ _ _ (by omega) (by omega), if_pos hij, axpbyBlas_eq, dotN_eq_sum]
  · intro i j hji hi
    simp only [at?]
    have hlt : i + C.m * j < C.data.size := by
      rw [hC]; exact lin_lt hi (by omega)
    rw [tab_at _ _ _ hi (by omega), if_neg (by omega), Array.getD_eq_getD_getElem?,
      Array.getElem?_eq_getElem hlt]
    rfl

example : ∃ R, syr2k (⟨2, 2, #[1, 2, 3, 4]⟩ : Dense Int) ⟨2, 1, #[5, 6]⟩ ⟨2, 1, #[7, 8]⟩ 2 3 = .ok R ∧
    at? R 0 1 = some (2 * (∑ l ∈ Finset.range 1,
      (blasElem .N (⟨2, 1, #[5, 6]⟩ : Dense Int) 0 l * blasElem .N (⟨2, 1, #[7, 8]⟩ : Dense Int) 1 l +
       blasElem .N (⟨2, 1, #[7, 8]⟩ : Dense Int) 0 l * blasElem .N (⟨2, 1, #[5, 6]⟩ : Dense Int) 1 l))
      + 3 * 3) ∧
    at? R 1 0 = some 2 := by
  obtain ⟨R, h, _, _, _, hu, hl⟩ := syr2k_spec (⟨2, 2, #[1, 2, 3, 4]⟩ : Dense Int) ⟨2, 1, #[5, 6]⟩
    ⟨2, 1, #[7, 8]⟩ 2 3 rfl rfl rfl rfl rfl rfl rfl (by decide)
  exact ⟨R, h, hu 0 1 (by decide) (by decide), (hl 1 0 (by decide) (by decide)).trans rfl⟩

end Clarabel.Dense
