/-
  C06, round 6 — the dense matrix of the composite `mul_Hs` of the whole-solver model
  (`Solver.mulHs`, `ClarabelModel/Solver/Cones.lean`).  Interface: `StepPassDefs.lean`.
  Scalar type ℝ.
-/
import ClarabelProofs.Lemmas.StepPassDefs
import ClarabelProofs.Lemmas.SolverModelNoPanicConesA
import ClarabelProofs.Lemmas.StepKBridge
import Mathlib.Tactic.Ring
import Mathlib.Tactic.LinearCombination

namespace Clarabel.Solver
open Clarabel Clarabel.Lemmas Matrix

/-! ## the list-level reading of `mul_Hs` -/

/-- dot product of two lists -/
def hsDotL (u v : List ℝ) : ℝ := (List.zipWith (· * ·) u v).sum

/-- `η²(2wwᵀ − J)x` on lists -/
def socHsL (eta w0 : ℝ) (w1 : List ℝ) (x0 : ℝ) (x1 : List ℝ) : List ℝ :=
  ((2 * (w0 * x0 + hsDotL w1 x1) * w0 - x0) * (eta * eta)) ::
    List.zipWith (fun wi xi => (2 * (w0 * x0 + hsDotL w1 x1) * wi + xi) * (eta * eta)) w1 x1

/-- `mul_Hs` of one cone on its rows -/
def hs1L : ConeSt ℝ → List ℝ → List ℝ
  | .zero _, l => l.map (fun _ => 0)
  | .nonneg K, l => List.zipWith (fun wi xi => wi * (wi * xi)) K.w.toList l
  | .soc K, l =>
    match K.w.toList, l with
    | w0 :: w1, x0 :: x1 => socHsL K.eta w0 w1 x0 x1
    | _, _ => []

/-- the composite `mul_Hs` on lists: cone by cone on `take`/`drop` -/
def mulHsL : List (ConeSt ℝ) → List ℝ → List ℝ
  | [], _ => []
  | c :: cs, l => hs1L c (l.take c.numel) ++ mulHsL cs (l.drop c.numel)

/-- the per-cone results as arrays -/
def partsL : List (ConeSt ℝ) → List ℝ → List (Array ℝ)
  | [], _ => []
  | c :: cs, l => (hs1L c (l.take c.numel)).toArray :: partsL cs (l.drop c.numel)

theorem vecDot_join (w0 : ℝ) (w1 : List ℝ) (x0 : ℝ) (x1 : List ℝ) :
    Vec.dot (Soc.join w0 w1) (Soc.join x0 x1) = w0 * x0 + hsDotL w1 x1 := by
  unfold Vec.dot Soc.join hsDotL
  rw [foldl_dot_eq]
  simp only [List.zip_cons_cons, List.map_cons, List.sum_cons, zero_add]
  congr 1
  unfold List.zip
  rw [List.map_zipWith]

theorem soc_core_eq (x0 : ℝ) (x1 : List ℝ) (w0 : ℝ) (w1 : List ℝ) (eta : ℝ) :
    (Soc.mulHsCore x0 x1 w0 w1 eta).1 :: (Soc.mulHsCore x0 x1 w0 w1 eta).2
      = socHsL eta w0 w1 x0 x1 := by
  unfold Soc.mulHsCore socHsL
  simp only [vecDot_join, Soc.two]
  congr 1
  · ring
  · rw [List.zipWith_comm]
    congr 1
    funext wi xi
    ring

theorem zero_mulHs_eq (l : List ℝ) (d : Nat) :
    (pure (Zero.mulHs l.toArray) : MErr (Array ℝ)) = .ok (hs1L (.zero d) l).toArray := by
  unfold Zero.mulHs hs1L
  rw [List.map_toArray]; rfl

theorem nonneg_mulHs_eq (K : Nonneg.Cone ℝ) (l : List ℝ) (hl : l.length = K.w.size) :
    Nonneg.mulHs K l.toArray = .ok (hs1L (.nonneg K) l).toArray := by
  unfold Nonneg.mulHs Nonneg.sizeGuard hs1L
  have e : (l.toArray.size == K.w.size) = true := by simp [hl]
  rw [e]
  show Except.ok _ = _
  congr 1
  apply Array.ext'
  simp

theorem soc_mulHs_eq (K : Soc.Cone ℝ) (hc : ConeFull (.soc K)) (l : List ℝ) (hl : l.length = K.dim) :
    Soc.mulHs K l.toArray = .ok (hs1L (.soc K) l).toArray := by
  obtain ⟨h2, hw, -⟩ := hc
  obtain ⟨x0, x1, rfl⟩ : ∃ x0 x1, l = x0 :: x1 := by
    cases l with
    | nil => simp at hl; omega
    | cons a t => exact ⟨a, t, rfl⟩
  obtain ⟨w0, w1, hwl⟩ : ∃ w0 w1, K.w.toList = w0 :: w1 := by
    cases h : K.w.toList with
    | nil =>
      have e : K.w.toList.length = 0 := by rw [h]; rfl
      rw [Array.length_toList] at e
      have hl2 : (x0 :: x1).length = x1.length + 1 := rfl
      omega
    | cons a t => exact ⟨a, t, rfl⟩
  unfold Soc.mulHs Soc.split hs1L
  simp only [hwl]
  show (if (x0 :: x1).toArray.size ≠ K.dim then _ else _) = _
  rw [if_neg (by simpa using hl)]
  show Except.ok (Soc.join _ _) = _
  unfold Soc.join
  rw [soc_core_eq]

/-! ## the composite: `mulHs` is `mulHsL` on sized input -/

theorem mapM_parts {f : ConeSt ℝ × Array ℝ → MErr (Array ℝ)}
    (hf : ∀ c l, ConeFull c → l.length = c.numel → f (c, l.toArray) = .ok (hs1L c l).toArray) :
    ∀ (cones : List (ConeSt ℝ)), ConesFull cones → ∀ l : List ℝ, l.length = numelAll cones →
      (cones.zip (Bridge.cutList cones l)).mapM f = .ok (partsL cones l)
  | [], _, _, _ => rfl
  | c :: cs, hc, l, hl => by
    rw [numelAll_cons] at hl
    simp only [Bridge.cutList, partsL, List.zip_cons_cons, List.mapM_cons]
    rw [hf c _ hc.head (by rw [List.length_take]; omega),
      mapM_parts hf cs hc.tail _ (by rw [List.length_drop]; omega)]
    rfl

theorem foldl_append_acc (ps : List (Array ℝ)) (acc : Array ℝ) :
    ps.foldl (· ++ ·) acc = acc ++ ps.foldl (· ++ ·) #[] := by
  induction ps generalizing acc with
  | nil => simp
  | cons p t ih =>
    simp only [List.foldl_cons]
    rw [ih (acc ++ p), ih (#[] ++ p)]
    simp [Array.append_assoc]

theorem partsL_fold (cones : List (ConeSt ℝ)) (l : List ℝ) :
    (partsL cones l).foldl (· ++ ·) #[] = (mulHsL cones l).toArray := by
  induction cones generalizing l with
  | nil => rfl
  | cons c cs ih =>
    simp only [partsL, mulHsL, List.foldl_cons]
    rw [foldl_append_acc, ih]
    simp

theorem hs1L_length (c : ConeSt ℝ) (hc : ConeFull c) (l : List ℝ) (hl : l.length = c.numel) :
    (hs1L c l).length = c.numel := by
  cases c with
  | zero d => simpa [hs1L] using hl
  | nonneg K =>
    have hl' : l.length = K.w.size := hl
    show (List.zipWith _ K.w.toList l).length = K.w.size
    simp [hl']
  | soc K =>
    obtain ⟨h2, hw, -⟩ := hc
    have hl' : l.length = K.dim := hl
    show (hs1L (.soc K) l).length = K.dim
    unfold hs1L
    have hwl : K.w.toList.length = K.dim := by rw [Array.length_toList]; exact hw
    cases hwt : K.w.toList with
    | nil => rw [hwt] at hwl; simp at hwl; omega
    | cons w0 w1 =>
      rw [hwt] at hwl
      cases l with
      | nil => simp at hl'; omega
      | cons x0 x1 =>
        simp only [hwt, socHsL, List.length_cons, List.length_zipWith] at hwl hl' ⊢
        show _ = K.dim
        omega

theorem mulHsL_length : ∀ (cones : List (ConeSt ℝ)), ConesFull cones → ∀ l : List ℝ,
    l.length = numelAll cones → (mulHsL cones l).length = numelAll cones
  | [], _, _, _ => rfl
  | c :: cs, hc, l, hl => by
    rw [numelAll_cons] at hl ⊢
    rw [mulHsL, List.length_append, hs1L_length c hc.head _ (by rw [List.length_take]; omega),
      mulHsL_length cs hc.tail _ (by rw [List.length_drop]; omega)]

/-- on sized input the composite `mul_Hs` of the model is total, forgets the previous content of
its output and is the list-level `mulHsL` -/
theorem mulHs_eq_list {cones : List (ConeSt ℝ)} (hc : ConesFull cones) (y x : Array ℝ)
    (hy : y.size = numelAll cones) (hx : x.size = numelAll cones) :
    mulHs cones y x = .ok (mulHsL cones x.toList).toArray := by
  obtain ⟨xs, hxs⟩ := cutE_ok (cones := cones) (v := x) "mul_Hs x" (by omega)
  obtain ⟨ys, hys⟩ := cutE_ok (cones := cones) (v := y) "mul_Hs y" (by omega)
  unfold mulHs
  rw [bind_ok_of hxs, bind_ok_of hys, Bridge.cutE_eq hxs]
  rw [bind_ok_of (mapM_parts (f := _) ?_ cones hc x.toList (by rw [Array.length_toList]; exact hx))]
  · show Except.ok (pasteBack cones y (partsL cones x.toList)) = _
    unfold pasteBack
    rw [partsL_fold, hy]
    congr 1
    simp
  · intro c l hcf hl
    cases c with
    | zero d => exact zero_mulHs_eq l d
    | nonneg K => exact nonneg_mulHs_eq K l hl
    | soc K => exact soc_mulHs_eq K hcf l hl

/-! ## linearity of `mulHsL` -/

/-- `a·u + v` on lists -/
def linL (a : ℝ) (u v : List ℝ) : List ℝ := List.zipWith (fun x y => a * x + y) u v

theorem linL_length (a : ℝ) (u v : List ℝ) (h : u.length = v.length) :
    (linL a u v).length = u.length := by
  simp [linL, h]

theorem hsDotL_nil_left (v : List ℝ) : hsDotL [] v = 0 := by simp [hsDotL]
theorem hsDotL_nil_right (u : List ℝ) : hsDotL u [] = 0 := by simp [hsDotL]
theorem hsDotL_cons (a b : ℝ) (u v : List ℝ) : hsDotL (a :: u) (b :: v) = a * b + hsDotL u v := by
  simp [hsDotL]

theorem hsDotL_comm (u v : List ℝ) : hsDotL u v = hsDotL v u := by
  unfold hsDotL
  rw [List.zipWith_comm]
  congr 2
  funext a b
  exact mul_comm b a

theorem hsDotL_linL (a : ℝ) : ∀ (w u v : List ℝ), u.length = v.length →
    hsDotL w (linL a u v) = a * hsDotL w u + hsDotL w v
  | [], u, v, _ => by simp [hsDotL_nil_left]
  | w0 :: w, [], [], _ => by simp [linL, hsDotL_nil_right]
  | w0 :: w, u0 :: u, v0 :: v, h => by
    have h' : u.length = v.length := by simpa using h
    have ih := hsDotL_linL a w u v h'
    unfold linL at ih ⊢
    rw [List.zipWith_cons_cons, hsDotL_cons, hsDotL_cons, hsDotL_cons, ih]
    ring
  | w0 :: w, [], v0 :: v, h => by simp at h
  | w0 :: w, u0 :: u, [], h => by simp at h

theorem socHsL_lin (eta w0 : ℝ) (w1 : List ℝ) (a u0 v0 : ℝ) (u1 v1 : List ℝ)
    (h : u1.length = v1.length) (hw : w1.length = u1.length) :
    socHsL eta w0 w1 (a * u0 + v0) (linL a u1 v1)
      = linL a (socHsL eta w0 w1 u0 u1) (socHsL eta w0 w1 v0 v1) := by
  unfold socHsL
  rw [hsDotL_linL a w1 u1 v1 h]
  unfold linL
  rw [List.zipWith_cons_cons]
  congr 1
  · ring
  · apply List.ext_getElem
    · simp [h, hw]
    · intro i h1 h2
      simp only [List.getElem_zipWith]
      ring

theorem hs1L_lin (c : ConeSt ℝ) (hc : ConeFull c) (a : ℝ) (u v : List ℝ)
    (hu : u.length = c.numel) (hv : v.length = c.numel) :
    hs1L c (linL a u v) = linL a (hs1L c u) (hs1L c v) := by
  cases c with
  | zero d =>
    unfold hs1L linL
    apply List.ext_getElem
    · simp
    · intro i h1 h2
      simp
  | nonneg K =>
    unfold hs1L linL
    apply List.ext_getElem
    · simp only [List.length_zipWith]; omega
    · intro i h1 h2
      simp only [List.getElem_zipWith]
      ring
  | soc K =>
    obtain ⟨h2, hw, -⟩ := hc
    have hu' : u.length = K.dim := hu
    have hv' : v.length = K.dim := hv
    have hwl : K.w.toList.length = K.dim := by rw [Array.length_toList]; exact hw
    cases hwt : K.w.toList with
    | nil => rw [hwt] at hwl; simp at hwl; omega
    | cons w0 w1 =>
      rw [hwt] at hwl
      cases u with
      | nil => simp at hu'; omega
      | cons u0 u1 =>
        cases v with
        | nil => simp at hv'; omega
        | cons v0 v1 =>
          simp only [List.length_cons] at hwl hu' hv'
          have e : linL a (u0 :: u1) (v0 :: v1) = (a * u0 + v0) :: linL a u1 v1 := rfl
          rw [e]
          unfold hs1L
          simp only [hwt]
          exact socHsL_lin K.eta w0 w1 a u0 v0 u1 v1 (by omega) (by omega)

theorem linL_take (a : ℝ) (u v : List ℝ) (k : Nat) :
    (linL a u v).take k = linL a (u.take k) (v.take k) := by
  unfold linL; rw [List.take_zipWith]

theorem linL_drop (a : ℝ) (u v : List ℝ) (k : Nat) :
    (linL a u v).drop k = linL a (u.drop k) (v.drop k) := by
  unfold linL; rw [List.drop_zipWith]

theorem linL_append (a : ℝ) (u1 u2 v1 v2 : List ℝ) (h : u1.length = v1.length) :
    linL a (u1 ++ u2) (v1 ++ v2) = linL a u1 v1 ++ linL a u2 v2 := by
  unfold linL; rw [List.zipWith_append h]

/-- the composite `mul_Hs` is linear (in the form `f (a·u + v) = a·f u + f v`) -/
theorem mulHsL_lin (a : ℝ) : ∀ (cones : List (ConeSt ℝ)), ConesFull cones → ∀ u v : List ℝ,
    u.length = numelAll cones → v.length = numelAll cones →
    mulHsL cones (linL a u v) = linL a (mulHsL cones u) (mulHsL cones v)
  | [], _, _, _, _, _ => rfl
  | c :: cs, hc, u, v, hu, hv => by
    rw [numelAll_cons] at hu hv
    have hu1 : (u.take c.numel).length = c.numel := by rw [List.length_take]; omega
    have hv1 : (v.take c.numel).length = c.numel := by rw [List.length_take]; omega
    have hu2 : (u.drop c.numel).length = numelAll cs := by rw [List.length_drop]; omega
    have hv2 : (v.drop c.numel).length = numelAll cs := by rw [List.length_drop]; omega
    simp only [mulHsL]
    rw [linL_take, linL_drop, hs1L_lin c hc.head a _ _ hu1 hv1, mulHsL_lin a cs hc.tail _ _ hu2 hv2,
      linL_append]
    rw [hs1L_length c hc.head _ hu1, hs1L_length c hc.head _ hv1]

/-! ## from lists to `Fin m → ℝ` and the dense matrix -/

/-- `mulHsL` read on `Fin m → ℝ` -/
def hsG (cones : List (ConeSt ℝ)) (m : ℕ) (v : Fin m → ℝ) : Fin m → ℝ :=
  fun i => (mulHsL cones (List.ofFn v)).getD i 0

theorem toFn_toArray (l : List ℝ) (m : ℕ) : toFn l.toArray m = fun i : Fin m => l.getD i 0 := by
  funext i
  unfold toFn
  by_cases h : (i : ℕ) < l.length <;> simp [Array.getD, List.getD_eq_getElem?_getD, h]

theorem toList_eq_ofFn (x : Array ℝ) {m : ℕ} (hx : x.size = m) : x.toList = List.ofFn (toFn x m) := by
  subst hx
  apply List.ext_getElem
  · simp
  · intro i h1 h2
    have hi : i < x.size := by simpa using h1
    simp [toFn, Array.getD, hi]

theorem hsFun_eq {cones : List (ConeSt ℝ)} {m : ℕ} (hc : ConesFull cones) (hm : numelAll cones = m)
    (v : Fin m → ℝ) : hsFun cones m v = hsG cones m v := by
  unfold hsFun mulHsT
  rw [mulHs_eq_list hc _ _ (by rw [Array.size_replicate, hm]) (by rw [Array.size_ofFn, hm])]
  show toFn (mulHsL cones (Array.ofFn v).toList).toArray m = _
  rw [toFn_toArray, Array.toList_ofFn]
  rfl

theorem ofFn_lin {m : ℕ} (a : ℝ) (u v : Fin m → ℝ) :
    List.ofFn (a • u + v) = linL a (List.ofFn u) (List.ofFn v) := by
  unfold linL
  apply List.ext_getElem
  · simp
  · intro i h1 h2
    simp

theorem linL_getD (a : ℝ) (u v : List ℝ) (h : u.length = v.length) (i : Nat) :
    (linL a u v).getD i 0 = a * u.getD i 0 + v.getD i 0 := by
  unfold linL
  by_cases hi : i < u.length
  · have hi' : i < v.length := by omega
    simp [List.getD_eq_getElem?_getD, hi, hi']
  · have hi' : ¬ i < v.length := by omega
    simp [List.getD_eq_getElem?_getD, hi, hi']

theorem hsG_lin {cones : List (ConeSt ℝ)} {m : ℕ} (hc : ConesFull cones) (hm : numelAll cones = m)
    (a : ℝ) (u v : Fin m → ℝ) : hsG cones m (a • u + v) = a • hsG cones m u + hsG cones m v := by
  funext i
  unfold hsG
  have hu : (List.ofFn u).length = numelAll cones := by rw [List.length_ofFn, hm]
  have hv : (List.ofFn v).length = numelAll cones := by rw [List.length_ofFn, hm]
  rw [ofFn_lin, mulHsL_lin a cones hc _ _ hu hv, linL_getD]
  · rfl
  · rw [mulHsL_length cones hc _ hu, mulHsL_length cones hc _ hv]

/-- a map on `Fin m → ℝ` with `f (a·u + v) = a·f u + f v` is the matrix of its values on the
unit vectors -/
theorem lin_eq_mulVec {m : ℕ} (f : (Fin m → ℝ) → (Fin m → ℝ))
    (hf : ∀ (a : ℝ) (u v : Fin m → ℝ), f (a • u + v) = a • f u + f v) (v : Fin m → ℝ) :
    f v = (Matrix.of fun i j => f (Pi.single j 1) i) *ᵥ v := by
  have h0 : f 0 = 0 := by
    have := hf (-1) 0 0
    simp only [smul_zero, zero_add, neg_smul, one_smul] at this
    rw [this]; simp
  have hsum : ∀ s : Finset (Fin m), f (∑ j ∈ s, v j • Pi.single j (1 : ℝ)) = ∑ j ∈ s, v j • f (Pi.single j 1) := by
    intro s
    induction s using Finset.induction_on with
    | empty => simpa using h0
    | insert j s hj ih =>
      rw [Finset.sum_insert hj, Finset.sum_insert hj, hf, ih]
  have hv : v = ∑ j, v j • Pi.single j (1 : ℝ) := by
    funext i
    simp [Finset.sum_apply, Pi.single_apply]
  conv_lhs => rw [hv]
  rw [hsum]
  funext i
  simp only [Finset.sum_apply, Pi.smul_apply, smul_eq_mul, Matrix.mulVec, dotProduct, Matrix.of_apply]
  exact Finset.sum_congr rfl (fun j _ => mul_comm _ _)

theorem hsMat_eq {cones : List (ConeSt ℝ)} {m : ℕ} (hc : ConesFull cones) (hm : numelAll cones = m) :
    hsMat cones m = Matrix.of fun i j => hsG cones m (Pi.single j 1) i := by
  unfold hsMat
  congr 1
  funext i j
  rw [hsFun_eq hc hm]

/-- **[F] the composite `mul_Hs` is the dense matrix `hsMat`**: on sized input the model's composite
`mul_Hs` does not panic, does not depend on the previous content `y` of its output, and reads as
`hsMat cones m *ᵥ x`. -/
theorem mulHs_hsMat {cones : List (ConeSt ℝ)} {m : ℕ} (hc : ConesFull cones) (hm : numelAll cones = m)
    (y x : Array ℝ) (hy : y.size = m) (hx : x.size = m) :
    ∃ r, mulHs cones y x = .ok r ∧ r.size = m ∧ toFn r m = hsMat cones m *ᵥ toFn x m := by
  refine ⟨_, mulHs_eq_list hc y x (by omega) (by omega), ?_, ?_⟩
  · show (mulHsL cones x.toList).length = m
    rw [mulHsL_length cones hc _ (by rw [Array.length_toList]; omega), hm]
  · rw [hsMat_eq hc hm, ← lin_eq_mulVec (hsG cones m) (hsG_lin hc hm), toFn_toArray,
      toList_eq_ofFn x hx]
    rfl

/-! ## after `set_identity_scaling` -/

/-- the block of `idDiag` of one cone -/
def idDiag1 (c : ConeSt ℝ) : List ℝ :=
  match c with
  | .zero d => List.replicate d 0
  | c => List.replicate c.numel 1

theorem idDiag_cons (c : ConeSt ℝ) (cs : List (ConeSt ℝ)) : idDiag (c :: cs) = idDiag1 c ++ idDiag cs := by
  unfold idDiag
  rw [List.flatMap_cons]
  rfl

theorem idDiag1_length (c : ConeSt ℝ) : (idDiag1 c).length = c.numel := by
  cases c <;> simp [idDiag1, ConeSt.numel]

theorem idDiag_length : ∀ cones : List (ConeSt ℝ), (idDiag cones).length = numelAll cones
  | [] => rfl
  | c :: cs => by rw [idDiag_cons, numelAll_cons, List.length_append, idDiag1_length, idDiag_length cs]

theorem hsDotL_zeros (w x : List ℝ) : hsDotL (w.map fun _ => (0 : ℝ)) x = 0 := by
  induction w generalizing x with
  | nil => exact hsDotL_nil_left _
  | cons a t ih =>
    cases x with
    | nil => exact hsDotL_nil_right _
    | cons b x => rw [List.map_cons, hsDotL_cons, ih]; ring

theorem hs1L_identity (c : ConeSt ℝ) (hc : ConeFull c) (l : List ℝ) (hl : l.length = c.numel) :
    hs1L (setIdentityScaling1 c) l = List.zipWith (· * ·) (idDiag1 c) l := by
  cases c with
  | zero d =>
    have hl' : l.length = d := hl
    show l.map (fun _ => (0 : ℝ)) = List.zipWith (· * ·) (List.replicate d 0) l
    apply List.ext_getElem
    · simp [hl']
    · intro i h1 h2
      simp
  | nonneg K =>
    have hl' : l.length = K.w.size := hl
    show List.zipWith (fun wi xi => wi * (wi * xi)) (K.w.map fun _ => (1 : ℝ)).toList l
      = List.zipWith (· * ·) (List.replicate K.w.size 1) l
    apply List.ext_getElem
    · simp
    · intro i h1 h2
      simp
  | soc K =>
    obtain ⟨h2, hw, -⟩ := hc
    have hl' : l.length = K.dim := hl
    have hwl : K.w.toList.length = K.dim := by rw [Array.length_toList]; exact hw
    cases hwt : K.w.toList with
    | nil => rw [hwt] at hwl; simp at hwl; omega
    | cons w0 w1 =>
      rw [hwt] at hwl
      cases l with
      | nil => simp at hl'; omega
      | cons x0 x1 =>
        simp only [List.length_cons] at hwl hl'
        have e : ((K.w.map fun _ => (0 : ℝ)).setIfInBounds 0 1).toList = 1 :: w1.map fun _ => (0 : ℝ) := by
          rw [Array.toList_setIfInBounds, Array.toList_map, hwt]
          rfl
        show hs1L (setIdentityScaling1 (.soc K)) (x0 :: x1)
          = List.zipWith (· * ·) (List.replicate K.dim 1) (x0 :: x1)
        unfold setIdentityScaling1 hs1L
        simp only [e]
        unfold socHsL
        rw [hsDotL_zeros]
        have hd : K.dim = x1.length + 1 := by omega
        rw [hd, List.replicate_succ, List.zipWith_cons_cons]
        congr 1
        · ring
        · apply List.ext_getElem
          · simp; omega
          · intro i h1 h2
            simp

theorem mulHsL_identity : ∀ (cones : List (ConeSt ℝ)), ConesFull cones → ∀ l : List ℝ,
    l.length = numelAll cones →
    mulHsL (setIdentityScaling cones) l = List.zipWith (· * ·) (idDiag cones) l
  | [], _, _, _ => rfl
  | c :: cs, hc, l, hl => by
    rw [numelAll_cons] at hl
    have hn : (setIdentityScaling1 c).numel = c.numel := (setIdentityScaling1_full c hc.head).2.2.2
    show mulHsL (setIdentityScaling1 c :: setIdentityScaling cs) l = _
    rw [mulHsL, hn, hs1L_identity c hc.head _ (by rw [List.length_take]; omega),
      mulHsL_identity cs hc.tail _ (by rw [List.length_drop]; omega), idDiag_cons]
    conv_rhs => rw [← List.take_append_drop c.numel l]
    rw [List.zipWith_append]
    rw [idDiag1_length, List.length_take]; omega

theorem zipWith_mul_getD (d l : List ℝ) (h : d.length = l.length) (i : Nat) :
    (List.zipWith (· * ·) d l).getD i 0 = d.getD i 0 * l.getD i 0 := by
  by_cases hi : i < d.length
  · have hi' : i < l.length := by omega
    simp [List.getD_eq_getElem?_getD, hi, hi']
  · have hi' : ¬ i < l.length := by omega
    simp [List.getD_eq_getElem?_getD, hi, hi']

/-- **[F] after `set_identity_scaling` the `Hs` block is diagonal**, `0` on the rows of a zero cone
and `1` elsewhere -/
theorem hsMat_identity {cones : List (ConeSt ℝ)} {m : ℕ} (hc : ConesFull cones)
    (hm : numelAll cones = m) :
    hsMat (setIdentityScaling cones) m = Matrix.diagonal (idDiagFn cones m) := by
  obtain ⟨hc', -, -, hn'⟩ := setIdentityScaling_full hc
  rw [hsMat_eq hc' (hn'.trans hm)]
  ext i j
  rw [Matrix.of_apply, Matrix.diagonal_apply]
  unfold hsG idDiagFn
  rw [mulHsL_identity cones hc _ (by rw [List.length_ofFn, hm]),
    zipWith_mul_getD _ _ (by rw [idDiag_length, List.length_ofFn, hm])]
  have e : (List.ofFn (Pi.single j (1 : ℝ) : Fin m → ℝ)).getD i 0 = if i = j then 1 else 0 := by
    simp [List.getD_eq_getElem?_getD, Pi.single_apply]
  rw [e]
  split <;> simp

theorem idDiag_mem_nonneg : ∀ (cones : List (ConeSt ℝ)) (x : ℝ), x ∈ idDiag cones → 0 ≤ x
  | [], x, h => by cases h
  | c :: cs, x, h => by
    rw [idDiag_cons, List.mem_append] at h
    rcases h with h | h
    · cases c with
      | zero d => rw [List.eq_of_mem_replicate h]
      | nonneg K => rw [List.eq_of_mem_replicate h]; exact zero_le_one
      | soc K => rw [List.eq_of_mem_replicate h]; exact zero_le_one
    · exact idDiag_mem_nonneg cs x h

/-- [F] the identity-scaling diagonal is nonnegative -/
theorem idDiagFn_nonneg (cones : List (ConeSt ℝ)) (m : ℕ) (i : Fin m) : 0 ≤ idDiagFn cones m i := by
  unfold idDiagFn
  by_cases hi : (i : ℕ) < (idDiag cones).length
  · rw [List.getD_eq_getElem?_getD, List.getElem?_eq_getElem hi]
    exact idDiag_mem_nonneg cones _ (List.getElem_mem hi)
  · rw [List.getD_eq_getElem?_getD, List.getElem?_eq_none (by omega)]
    exact le_refl _

/-- non-vacuity: a zero cone and a nonnegative cone; `ConesFull` and `numelAll = 2` hold, so the
theorems of this file apply -/
example : ConesFull [ConeSt.zero 1, ConeSt.nonneg (⟨#[2], #[1]⟩ : Nonneg.Cone ℝ)]
    ∧ numelAll [ConeSt.zero 1, ConeSt.nonneg (⟨#[2], #[1]⟩ : Nonneg.Cone ℝ)] = 2 := by
  refine ⟨?_, rfl⟩
  intro c hc
  simp only [List.mem_cons, List.not_mem_nil, or_false] at hc
  rcases hc with rfl | rfl
  · trivial
  · show (#[1] : Array ℝ).size = (#[2] : Array ℝ).size
    rfl

/-! ## symmetry -/

theorem hsDotL_append (u1 u2 v1 v2 : List ℝ) (h : u1.length = v1.length) :
    hsDotL (u1 ++ u2) (v1 ++ v2) = hsDotL u1 v1 + hsDotL u2 v2 := by
  unfold hsDotL
  rw [List.zipWith_append h, List.sum_append]

theorem hsDotL_split (k : Nat) (u a b : List ℝ) (ha : a.length = k) (hu : k ≤ u.length) :
    hsDotL u (a ++ b) = hsDotL (u.take k) a + hsDotL (u.drop k) b := by
  have := hsDotL_append (u.take k) (u.drop k) a b (by rw [List.length_take, ha]; omega)
  rwa [List.take_append_drop] at this

theorem hsDotL_nonneg_sym : ∀ (w u v : List ℝ),
    hsDotL u (List.zipWith (fun wi xi => wi * (wi * xi)) w v)
      = hsDotL (List.zipWith (fun wi xi => wi * (wi * xi)) w u) v
  | [], u, v => by simp [hsDotL_nil_left, hsDotL_nil_right]
  | w0 :: w, [], v => by simp [hsDotL_nil_left]
  | w0 :: w, u0 :: u, [] => by simp [hsDotL_nil_right]
  | w0 :: w, u0 :: u, v0 :: v => by
    rw [List.zipWith_cons_cons, List.zipWith_cons_cons, hsDotL_cons, hsDotL_cons, hsDotL_nonneg_sym w u v]
    ring

theorem hsDotL_soc_tail (c e : ℝ) : ∀ (w u v : List ℝ), w.length = u.length → u.length = v.length →
    hsDotL u (List.zipWith (fun wi xi => (c * wi + xi) * e) w v) = (c * hsDotL w u + hsDotL u v) * e
  | [], [], v, _, _ => by simp [hsDotL_nil_left]
  | w0 :: w, u0 :: u, v0 :: v, h1, h2 => by
    rw [List.zipWith_cons_cons, hsDotL_cons, hsDotL_cons, hsDotL_cons,
      hsDotL_soc_tail c e w u v (by simpa using h1) (by simpa using h2)]
    ring
  | [], u0 :: u, v, h, _ => by simp at h
  | w0 :: w, [], v, h, _ => by simp at h
  | w0 :: w, u0 :: u, [], _, h => by simp at h

theorem hsDotL_soc_sym (eta w0 : ℝ) (w1 : List ℝ) (u0 v0 : ℝ) (u1 v1 : List ℝ)
    (hw : w1.length = u1.length) (h : u1.length = v1.length) :
    hsDotL (u0 :: u1) (socHsL eta w0 w1 v0 v1) = hsDotL (socHsL eta w0 w1 u0 u1) (v0 :: v1) := by
  rw [hsDotL_comm (socHsL eta w0 w1 u0 u1)]
  unfold socHsL
  rw [hsDotL_cons, hsDotL_cons, hsDotL_soc_tail _ _ w1 u1 v1 hw h,
    hsDotL_soc_tail _ _ w1 v1 u1 (by omega) h.symm, hsDotL_comm v1 u1]
  ring

theorem hs1L_sym (c : ConeSt ℝ) (hc : ConeFull c) (u v : List ℝ)
    (hu : u.length = c.numel) (hv : v.length = c.numel) :
    hsDotL u (hs1L c v) = hsDotL (hs1L c u) v := by
  cases c with
  | zero d =>
    unfold hs1L
    rw [hsDotL_zeros, hsDotL_comm, hsDotL_zeros]
  | nonneg K => exact hsDotL_nonneg_sym K.w.toList u v
  | soc K =>
    obtain ⟨h2, hw, -⟩ := hc
    have hu' : u.length = K.dim := hu
    have hv' : v.length = K.dim := hv
    have hwl : K.w.toList.length = K.dim := by rw [Array.length_toList]; exact hw
    cases hwt : K.w.toList with
    | nil => rw [hwt] at hwl; simp at hwl; omega
    | cons w0 w1 =>
      rw [hwt] at hwl
      cases u with
      | nil => simp at hu'; omega
      | cons u0 u1 =>
        cases v with
        | nil => simp at hv'; omega
        | cons v0 v1 =>
          simp only [List.length_cons] at hwl hu' hv'
          unfold hs1L
          simp only [hwt]
          exact hsDotL_soc_sym K.eta w0 w1 u0 v0 u1 v1 (by omega) (by omega)

/-- the composite `mul_Hs` is self-adjoint for the list dot product -/
theorem mulHsL_sym : ∀ (cones : List (ConeSt ℝ)), ConesFull cones → ∀ u v : List ℝ,
    u.length = numelAll cones → v.length = numelAll cones →
    hsDotL u (mulHsL cones v) = hsDotL (mulHsL cones u) v
  | [], _, _, _, _, _ => by simp [mulHsL, hsDotL_nil_left, hsDotL_nil_right]
  | c :: cs, hc, u, v, hu, hv => by
    rw [numelAll_cons] at hu hv
    have hu1 : (u.take c.numel).length = c.numel := by rw [List.length_take]; omega
    have hv1 : (v.take c.numel).length = c.numel := by rw [List.length_take]; omega
    have hu2 : (u.drop c.numel).length = numelAll cs := by rw [List.length_drop]; omega
    have hv2 : (v.drop c.numel).length = numelAll cs := by rw [List.length_drop]; omega
    simp only [mulHsL]
    rw [hsDotL_split c.numel u _ _ (hs1L_length c hc.head _ hv1) (by omega),
      hsDotL_comm (hs1L c _ ++ _) v,
      hsDotL_split c.numel v _ _ (hs1L_length c hc.head _ hu1) (by omega),
      hs1L_sym c hc.head _ _ hu1 hv1, mulHsL_sym cs hc.tail _ _ hu2 hv2,
      hsDotL_comm (v.take c.numel), hsDotL_comm (v.drop c.numel)]

theorem hsDotL_ofFn {m : ℕ} (f g : Fin m → ℝ) : hsDotL (List.ofFn f) (List.ofFn g) = ∑ i, f i * g i := by
  unfold hsDotL
  have e : List.zipWith (· * ·) (List.ofFn f) (List.ofFn g) = List.ofFn (fun i => f i * g i) := by
    apply List.ext_getElem
    · simp
    · intro i h1 h2
      simp
  rw [e, List.sum_ofFn]

theorem mulHsL_eq_ofFn {cones : List (ConeSt ℝ)} {m : ℕ} (hc : ConesFull cones)
    (hm : numelAll cones = m) (v : Fin m → ℝ) :
    mulHsL cones (List.ofFn v) = List.ofFn (hsG cones m v) := by
  have hl : (mulHsL cones (List.ofFn v)).length = m := by
    rw [mulHsL_length cones hc _ (by rw [List.length_ofFn, hm]), hm]
  have := toList_eq_ofFn (mulHsL cones (List.ofFn v)).toArray (m := m) hl
  rw [toFn_toArray] at this
  exact this

/-- **[F] `Hs` is symmetric** (diagonal for the nonnegative cone, `η²(2wwᵀ − J)` for the
second-order cone, block diagonal overall) -/
theorem hsMat_transpose {cones : List (ConeSt ℝ)} {m : ℕ} (hc : ConesFull cones)
    (hm : numelAll cones = m) : (hsMat cones m)ᵀ = hsMat cones m := by
  rw [hsMat_eq hc hm]
  ext i j
  rw [Matrix.transpose_apply, Matrix.of_apply, Matrix.of_apply]
  have key : ∀ a b : Fin m, hsG cones m (Pi.single b 1) a
      = hsDotL (List.ofFn (Pi.single a (1 : ℝ) : Fin m → ℝ)) (mulHsL cones (List.ofFn (Pi.single b (1 : ℝ) : Fin m → ℝ))) := by
    intro a b
    rw [mulHsL_eq_ofFn hc hm, hsDotL_ofFn]
    simp [Pi.single_apply]
  have hlen : ∀ a : Fin m, (List.ofFn (Pi.single a (1 : ℝ) : Fin m → ℝ)).length = numelAll cones := by
    intro a; rw [List.length_ofFn, hm]
  rw [key j i, key i j, mulHsL_sym cones hc _ _ (hlen j) (hlen i), hsDotL_comm]

end Clarabel.Solver
