/-
  C08, norm part: the values `get_normq` / `get_normb` recompute from the internal
  (equilibrated) data are the ∞-norms of the *user-level* vectors `q`, `b`
  (`State.abs`), in exact arithmetic.
-/
import ClarabelModel.Update
import ClarabelProofs.Lemmas.ScalarInst
import Mathlib.Algebra.Order.Field.Basic
import Mathlib.Algebra.Order.AbsoluteValue.Basic
import Mathlib.Tactic.FieldSimp
import Mathlib.Tactic.Ring
import Mathlib.Tactic.NormNum
import Mathlib.Data.Rat.Defs

namespace Clarabel.Update

section main
variable {α : Type} [Field α] [LinearOrder α] [IsStrictOrderedRing α] [FloatLike α] [LawfulFloatLike α]

/-! ### the two norms on a lawful carrier -/

omit [IsStrictOrderedRing α] in
/-- on a lawful carrier the NaN branches of `norm_inf` vanish -/
theorem normInf_lawful (x : Array α) :
    Vec.normInf x = x.toList.foldl (fun acc v => max acc |v|) 0 := by
  unfold Vec.normInf
  simp only [LawfulFloatLike.isNaN_eq, LawfulFloatLike.fmax_eq, LawfulFloatLike.fabs_eq,
    Bool.false_eq_true, if_false]

omit [IsStrictOrderedRing α] in
theorem normInfScaled_lawful (x v : Array α) :
    Vec.normInfScaled x v
      = (x.toList.zip v.toList).foldl (fun acc p => max acc |p.1 * p.2|) 0 := by
  unfold Vec.normInfScaled
  simp only [LawfulFloatLike.fmax_eq, LawfulFloatLike.fabs_eq]

/-! ### list lemmas -/

omit [FloatLike α] [LawfulFloatLike α] in
/-- a non-negative factor moves inside a running maximum -/
theorem foldl_max_mul {β : Type} (f : β → α) (k : α) (hk : 0 ≤ k) (l : List β) (a : α) :
    (l.foldl (fun acc x => max acc (f x)) a) * k
      = l.foldl (fun acc x => max acc (f x * k)) (a * k) := by
  induction l generalizing a with
  | nil => rfl
  | cons x rest ih =>
    simp only [List.foldl_cons]
    rw [ih, max_mul_of_nonneg _ _ hk]

omit [Field α] [IsStrictOrderedRing α] [FloatLike α] [LawfulFloatLike α] in
theorem foldl_max_map {β : Type} (f : β → α) (l : List β) (a : α) :
    l.foldl (fun acc x => max acc (f x)) a = (l.map f).foldl max a := by
  rw [List.foldl_map]

omit [IsStrictOrderedRing α] [FloatLike α] [LawfulFloatLike α] in
/-- index-wise: the zipped products, scaled, are the entries of the `mapIdx` -/
theorem zip_map_eq_mapIdx (x v : Array α) (g : Nat → α → α) (k : α)
    (hsz : v.size = x.size)
    (hg : ∀ i (hi : i < x.size), |x[i] * v.getD i 0| * k = |g i x[i]|) :
    (x.toList.zip v.toList).map (fun p => |p.1 * p.2| * k)
      = (x.mapIdx g).toList.map (fun y => |y|) := by
  apply List.ext_getElem
  · simp only [List.length_map, List.length_zip, Array.length_toList, Array.size_mapIdx, hsz,
      Nat.min_self]
  · intro i h1 h2
    have hi : i < x.size := by
      simpa only [List.length_map, Array.length_toList, Array.size_mapIdx] using h2
    have hiv : i < v.size := hsz ▸ hi
    simp only [List.getElem_map, List.getElem_zip, Array.getElem_toList, Array.getElem_mapIdx]
    have := hg i hi
    rw [Array.getD_eq_getD_getElem?, Array.getElem?_eq_getElem hiv, Option.getD_some] at this
    exact this

/-! ### the theorems -/

omit [FloatLike α] [LawfulFloatLike α] in
/-- entry-wise identity behind `get_normq` (no non-zero hypothesis on `d`: `0⁻¹ = 0`) -/
theorem abs_mul_inv_mul (a d c : α) (hc : 0 < c) :
    |a * d⁻¹| * (1 / c) = |a / (d * c)| := by
  rw [div_eq_mul_inv a, mul_inv, ← mul_assoc, abs_mul (a * d⁻¹), abs_of_pos (inv_pos.mpr hc),
    one_div]

/-- [F] the value `get_normq` recomputes, `‖q̂ ∘ dinv‖∞ · (1/c)`, is the ∞-norm of the
user-level vector `q̂/(d·c)` -/
theorem freshNormq_eq_user_norm (st : State α)
    (hsz : st.dinv.size = st.q.size)
    (hdinv : ∀ i, i < st.q.size → st.dinv.getD i 0 = (st.d.getD i 0)⁻¹)
    (hc : 0 < st.c) :
    freshNormq st = Vec.normInf st.abs.q := by
  have hk : (0 : α) ≤ 1 / st.c := le_of_lt (one_div_pos.mpr hc)
  show Vec.normInfScaled st.q st.dinv * (1 / st.c)
    = Vec.normInf (st.q.mapIdx (fun k x => x / (st.d.getD k 0 * st.c)))
  rw [normInfScaled_lawful, normInf_lawful, foldl_max_mul _ _ hk, zero_mul,
    foldl_max_map (fun v : α => |v|), foldl_max_map (fun p : α × α => |p.1 * p.2| * (1 / st.c))]
  rw [zip_map_eq_mapIdx st.q st.dinv _ (1 / st.c) hsz]
  intro i hi
  rw [hdinv i hi]
  exact abs_mul_inv_mul _ _ _ hc

omit [IsStrictOrderedRing α] in
/-- [F] the value `get_normb` recomputes, `‖b̂ ∘ einv‖∞`, is the ∞-norm of the user-level
vector `b̂/e` -/
theorem freshNormb_eq_user_norm (st : State α)
    (hsz : st.einv.size = st.b.size)
    (heinv : ∀ i, i < st.b.size → st.einv.getD i 0 = (st.e.getD i 0)⁻¹) :
    freshNormb st = Vec.normInf st.abs.b := by
  show Vec.normInfScaled st.b st.einv
    = Vec.normInf (st.b.mapIdx (fun k x => x / st.e.getD k 0))
  rw [normInfScaled_lawful, normInf_lawful, foldl_max_map (fun v : α => |v|),
    foldl_max_map (fun p : α × α => |p.1 * p.2|)]
  have h := zip_map_eq_mapIdx st.b st.einv (fun k x => x / st.e.getD k 0) 1 hsz (by
    intro i hi
    rw [heinv i hi, mul_one, div_eq_mul_inv])
  simp only [mul_one] at h
  rw [h]

end main

/-! ### non-vacuity over `ℚ` -/

section example_

/-- exact `FloatLike` extras on `ℚ` (local: nothing leaks) -/
local instance instFloatLikeRatEx : FloatLike ℚ :=
  ⟨id, id, id, fun a _ => a, max, min, abs, fun _ => false, fun _ => true, 1 / 2, fun n => n⟩

local instance instLawfulRatEx : LawfulFloatLike ℚ where
  fmax_eq _ _ := rfl
  fmin_eq _ _ := rfl
  fabs_eq _ := rfl
  isNaN_eq _ := rfl
  isFinite_eq _ := rfl
  ofNat_eq _ := rfl
  eps_pos := by show (0 : ℚ) < 1 / 2; norm_num
  eps_lt_one := by show (1 / 2 : ℚ) < 1; norm_num

/-- internal `q̂ = (4, -12)`, `b̂ = (3)` with `d = (2, 3)`, `e = (3)`, `c = 2`:
user-level `q = (1, -2)`, `b = (1)` -/
def exNormQ : State ℚ :=
  { P := ⟨2, 2, #[0, 0, 0], #[], #[]⟩, q := #[4, -12], A := ⟨1, 2, #[0, 0, 0], #[], #[]⟩,
    b := #[3], d := #[2, 3], dinv := #[1/2, 1/3], e := #[3], einv := #[1/3], c := 2,
    normq := none, normb := none, presolved := false, decomposed := false,
    kkt := #[], mapP := #[], mapA := #[], diagFull := #[],
    ldl := #[], atoPAPt := #[], ldlDiagShifted := false }

/-- the hypotheses of both theorems hold for `exNormQ`; the norms are those of the user data
`q = (1,-2)`, `b = (1)` -/
example : freshNormq exNormQ = Vec.normInf exNormQ.abs.q ∧ freshNormq exNormQ = 2 ∧
    freshNormb exNormQ = Vec.normInf exNormQ.abs.b ∧ freshNormb exNormQ = 1 := by
  refine ⟨freshNormq_eq_user_norm exNormQ rfl ?_ (by decide), ?_,
    freshNormb_eq_user_norm exNormQ rfl ?_, ?_⟩
  · intro i hi
    have hi' : i < 2 := hi
    obtain rfl | rfl : i = 0 ∨ i = 1 := by omega
    all_goals simp [exNormQ]
  · simp [freshNormq, Vec.normInfScaled, exNormQ, fmax, fabs]
    norm_num
  · intro i hi
    have hi' : i < 1 := hi
    obtain rfl : i = 0 := by omega
    simp [exNormQ]
  · simp [freshNormb, Vec.normInfScaled, exNormQ, fmax, fabs]

end example_

end Clarabel.Update
