/-
  C03 round 3 — the six FIGURES of the report and who may write them (structural, any scalar
  type; no Mathlib).

  `cost_primal, cost_dual, res_primal, res_dual, gap_abs, gap_rel` are written by `Info.update`
  and by `reset_to_prev_iterate` only.  `check_termination`, `check_convergence_*`,
  `Info::post_process` and `set_status` change `status` alone (`SameFigures`);
  `save_prev_iterate` copies the six into `prev_*` (`PrevIs`), `reset_to_prev_iterate` copies
  them back.  `Solution.post_process` copies the first four into the solution and overwrites
  every scalar of the solution object.
-/
import ClarabelModel.Info
import ClarabelModel.Unscale
import ClarabelProofs.Lemmas.InfoConv

set_option linter.unusedSectionVars false
set_option linter.unusedVariables false

namespace Clarabel.InfoReport
open Clarabel Residuals Info

/-- the six figures `save_prev_iterate` saves, `reset_to_prev_iterate` restores, and (the first
four) `Solution.post_process` copies into the solution -/
structure SameFigures {α : Type} (a b : InfoS α) : Prop where
  cp : a.cost_primal = b.cost_primal
  cd : a.cost_dual = b.cost_dual
  rp : a.res_primal = b.res_primal
  rd : a.res_dual = b.res_dual
  ga : a.gap_abs = b.gap_abs
  gr : a.gap_rel = b.gap_rel

theorem SameFigures.rfl' {α : Type} (a : InfoS α) : SameFigures a a := ⟨rfl, rfl, rfl, rfl, rfl, rfl⟩

theorem SameFigures.symm {α : Type} {a b : InfoS α} (h : SameFigures a b) : SameFigures b a :=
  ⟨h.cp.symm, h.cd.symm, h.rp.symm, h.rd.symm, h.ga.symm, h.gr.symm⟩

theorem SameFigures.trans {α : Type} {a b c : InfoS α} (h : SameFigures a b) (g : SameFigures b c) :
    SameFigures a c :=
  ⟨h.cp.trans g.cp, h.cd.trans g.cd, h.rp.trans g.rp, h.rd.trans g.rd, h.ga.trans g.ga, h.gr.trans g.gr⟩

/-- a change of `status` keeps the figures -/
theorem sameFigures_status {α : Type} (i : InfoS α) (st : SolverStatus) :
    SameFigures { i with status := st } i := ⟨rfl, rfl, rfl, rfl, rfl, rfl⟩

/-- the `prev_*` fields of `j` are the current figures of `i` -/
structure PrevIs {α : Type} (j i : InfoS α) : Prop where
  cp : j.prev_cost_primal = i.cost_primal
  cd : j.prev_cost_dual = i.cost_dual
  rp : j.prev_res_primal = i.res_primal
  rd : j.prev_res_dual = i.res_dual
  ga : j.prev_gap_abs = i.gap_abs
  gr : j.prev_gap_rel = i.gap_rel

theorem prevIs_savePrev {α : Type} (i : InfoS α) : PrevIs (savePrev i) i := ⟨rfl, rfl, rfl, rfl, rfl, rfl⟩

theorem sameFigures_resetToPrev {α : Type} {j i : InfoS α} (h : PrevIs j i) :
    SameFigures (resetToPrev j) i := ⟨h.cp, h.cd, h.rp, h.rd, h.ga, h.gr⟩

section generic
variable {α : Type} [Mul α] [Div α] [Neg α] [OfNat α 1] [OfNat α 100] [OfNat α 1000]
  [LT α] [DecidableLT α] [LE α] [DecidableLE α]

theorem sameFigures_checkConvergence (i : InfoS α) (bz qx : α) (t : Tols α) (a b c : SolverStatus) :
    SameFigures (checkConvergence i bz qx t a b c) i := by
  obtain ⟨st, h⟩ := checkConvergence_fields i bz qx t a b c
  rw [h]; exact sameFigures_status i st

/-- `Info::post_process` keeps the figures (it can only change the status) -/
theorem sameFigures_postProcess (i : InfoS α) (bz qx : α) (s : Settings α) :
    SameFigures (Info.postProcess i bz qx s) i := by
  unfold Info.postProcess
  split
  · exact sameFigures_checkConvergence i bz qx s.reduced _ _ _
  · exact SameFigures.rfl' i

/-- `Info::post_process` keeps `prev_*`, `ktratio`, the infeasibility residuals, `iterations` -/
theorem postProcess_eq_status (i : InfoS α) (bz qx : α) (s : Settings α) :
    ∃ st, Info.postProcess i bz qx s = { i with status := st } := by
  unfold Info.postProcess
  split
  · exact checkConvergence_fields i bz qx s.reduced _ _ _
  · exact ⟨i.status, rfl⟩

/-- `check_termination` keeps everything but the status -/
theorem checkTermination_frame' [FloatLike α] (i : InfoS α) (bz qx : α) (s : Settings α) (iter : Nat)
    (tov : Bool) : (checkTermination i bz qx s iter tov).1
      = { i with status := (checkTermination i bz qx s iter tov).1.status } := by
  obtain ⟨st0, h0⟩ := checkConvergence_fields i bz qx s.full .solved .primalInfeasible .dualInfeasible
  unfold checkTermination checkConvergenceFull
  rw [h0]
  dsimp only
  repeat' split
  all_goals rfl

theorem checkTermination_eq_status [FloatLike α] (i : InfoS α) (bz qx : α) (s : Settings α) (iter : Nat)
    (tov : Bool) : ∃ st, (checkTermination i bz qx s iter tov).1 = { i with status := st } :=
  ⟨_, checkTermination_frame' i bz qx s iter tov⟩

theorem sameFigures_checkTermination [FloatLike α] (i : InfoS α) (bz qx : α) (s : Settings α) (iter : Nat)
    (tov : Bool) : SameFigures (checkTermination i bz qx s iter tov).1 i := by
  obtain ⟨st, h⟩ := checkTermination_eq_status i bz qx s iter tov
  rw [h]; exact sameFigures_status i st

/-- a verdict `AlmostSolved` that `Info::post_process` newly assigns means `is_solved` with the
REDUCED tolerances on the figures of the info it was given -/
theorem postProcess_almostSolved (i : InfoS α) (bz qx : α) (s : Settings α)
    (h0 : i.status ≠ .almostSolved) (h : (Info.postProcess i bz qx s).status = .almostSolved) :
    i.ktratio ≤ 1
    ∧ (i.gap_abs < s.reduced.gap_abs ∨ i.gap_rel < s.reduced.gap_rel)
    ∧ i.res_primal < s.reduced.feas ∧ i.res_dual < s.reduced.feas := by
  unfold Info.postProcess at h
  split at h
  · unfold checkConvergenceAlmost at h
    rcases checkConvergence_cases i bz qx s.reduced .almostSolved .almostPrimalInfeasible
        .almostDualInfeasible with hc | hc | hc | hc
    · exact ⟨hc.2.1, (isSolved_iff i _ _ _).mp hc.2.2⟩
    · rw [hc.1] at h; cases h
    · rw [hc.1] at h; cases h
    · rw [hc] at h; exact absurd h h0
  · exact absurd h h0

end generic

section post
variable {β : Type} [Mul β] [Div β] [OfNat β 0] [OfNat β 1]

/-- `copy_from` returns its source -/
theorem copyFrom_eq (dst src r : Array β) (h : Unscale.copyFrom dst src = .ok r) : r = src := by
  unfold Unscale.copyFrom at h
  split at h
  · cases h
  · cases h; rfl

/-- `Solution.post_process` without presolver: the three vectors are those of
`Variables.unscale`, the six scalars are copies of `info` fields (NaN objectives exactly for an
infeasibility status) -/
theorem postProcess_none (sol : Unscale.Solution β) (eq : Equil β) (v : Vars β) (i : InfoS β)
    (r : Unscale.Solution β × Vars β) (h : Unscale.postProcess sol eq none v i = .ok r) :
    r.1.x = (Unscale.unscale v eq i.status.isInfeasible).x
    ∧ r.1.s = (Unscale.unscale v eq i.status.isInfeasible).s
    ∧ r.1.z = (Unscale.unscale v eq i.status.isInfeasible).z
    ∧ r.1.obj_val = (if i.status.isInfeasible then none else some i.cost_primal)
    ∧ r.1.obj_val_dual = (if i.status.isInfeasible then none else some i.cost_dual)
    ∧ r.1.r_prim = some i.res_primal ∧ r.1.r_dual = some i.res_dual
    ∧ r.1.status = i.status ∧ r.1.iterations = i.iterations := by
  unfold Unscale.postProcess at h
  simp only [bind, Except.bind, pure, Except.pure] at h
  split at h
  · cases h
  · rename_i x' hx
    split at h
    · cases h
    · rename_i z' hz
      split at h
      · cases h
      · rename_i s' hs
        have e1 := copyFrom_eq _ _ _ hx
        have e2 := copyFrom_eq _ _ _ hz
        have e3 := copyFrom_eq _ _ _ hs
        cases h
        exact ⟨e1, e3, e2, rfl, rfl, rfl, rfl, rfl, rfl⟩

/-- `Solution.post_process`, any presolver: the six scalars of the report -/
theorem postProcess_scalars (sol : Unscale.Solution β) (eq : Equil β) (pm : Option (Unscale.PresolveMap β))
    (v : Vars β) (i : InfoS β) (r : Unscale.Solution β × Vars β)
    (h : Unscale.postProcess sol eq pm v i = .ok r) :
    r.1.obj_val = (if i.status.isInfeasible then none else some i.cost_primal)
    ∧ r.1.obj_val_dual = (if i.status.isInfeasible then none else some i.cost_dual)
    ∧ r.1.r_prim = some i.res_primal ∧ r.1.r_dual = some i.res_dual
    ∧ r.1.status = i.status ∧ r.1.iterations = i.iterations := by
  cases pm with
  | none =>
    obtain ⟨-, -, -, a, b, c, d, e, f⟩ := postProcess_none sol eq v i r h
    exact ⟨a, b, c, d, e, f⟩
  | some p =>
    unfold Unscale.postProcess at h
    simp only [bind, Except.bind, pure, Except.pure] at h
    split at h
    · cases h
    · rename_i sol' hs
      unfold Unscale.reversePresolve at hs
      simp only [bind, Except.bind, pure, Except.pure] at hs
      split at hs
      · cases hs
      · split at hs
        · cases hs
        · cases hs; cases h; exact ⟨rfl, rfl, rfl, rfl, rfl, rfl⟩

/-- the un-scaled variables `Solution.post_process` hands back -/
theorem postProcess_vars (sol : Unscale.Solution β) (eq : Equil β) (pm : Option (Unscale.PresolveMap β))
    (v : Vars β) (i : InfoS β) (r : Unscale.Solution β × Vars β)
    (h : Unscale.postProcess sol eq pm v i = .ok r) :
    r.2 = Unscale.unscale v eq i.status.isInfeasible := by
  unfold Unscale.postProcess at h
  cases pm with
  | some p =>
    simp only [bind, Except.bind, pure, Except.pure] at h
    split at h
    · cases h
    · cases h; rfl
  | none =>
    simp only [bind, Except.bind, pure, Except.pure] at h
    repeat' split at h
    all_goals first | (cases h; rfl) | cases h

/-- the report scalars do not depend on what the solution object held before (a second
`solve()` on the same object): every one of the six is overwritten -/
theorem postProcess_overwrites (sol : Unscale.Solution β) (eq : Equil β)
    (pm : Option (Unscale.PresolveMap β)) (v : Vars β) (i : InfoS β)
    (st : SolverStatus) (o1 o2 r1 r2 : Option β) (k : Nat) :
    Unscale.postProcess { sol with status := st, obj_val := o1, obj_val_dual := o2, iterations := k,
                                   r_prim := r1, r_dual := r2 } eq pm v i
      = Unscale.postProcess sol eq pm v i := rfl

end post

end Clarabel.InfoReport
