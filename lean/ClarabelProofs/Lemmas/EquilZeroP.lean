/-
  C10, zero rows / columns — the interplay of `P` and `A` in the KKT column norm
  `max(‖P_sym[:,j]‖∞, ‖A[:,j]‖∞)`:  an all-zero column of `A` does NOT protect `dⱼ` when the
  `P` column is nonzero — the norm (hence the step `1/√norm`) is then the one of `P` alone;
  symmetrically an all-zero row/column `j` of the triangle `P` leaves the norm of `A[:,j]`.
-/
import ClarabelProofs.Lemmas.Equil
import ClarabelProofs.Lemmas.EquilZero

namespace Clarabel.Equil
variable {α : Type} [Field α] [LinearOrder α] [IsStrictOrderedRing α] [FloatLike α] [LawfulFloatLike α]

omit [IsStrictOrderedRing α] in
/-- `bump` at another index, or with value `|0|` on a nonnegative entry, keeps the entry -/
theorem getD_bump_keep (ns : Array α) (k i : Nat) (v : α) (h0 : 0 ≤ ns.getD i 0) (hv : k = i → v = 0) :
    (bump ns k v).getD i 0 = ns.getD i 0 := by
  unfold bump
  by_cases hi : i < ns.size
  · by_cases hk : k = i
    · subst hk
      have h0' : 0 ≤ ns[k] := by simpa [Array.getD, hi] using h0
      simp [Array.getD, hi, Array.getElem_modify, hv rfl, LawfulFloatLike.fmax_eq, h0']
    · simp [Array.getD, hi, Array.getElem_modify, hk]
  · simp [Array.getD, hi]

/-- a fold of `bump`s whose entries aimed at `i` are all zero keeps a nonnegative entry `i` -/
theorem foldl_bump_keep (L : List (Nat × Nat × α)) (g : Nat × Nat × α → Nat) (ns : Array α) (i : Nat)
    (hL : ∀ e ∈ L, g e = i → e.2.2 = 0) (h0 : 0 ≤ ns.getD i 0) :
    (L.foldl (fun ns e => bump ns (g e) (fabs e.2.2)) ns).getD i 0 = ns.getD i 0 := by
  induction L generalizing ns with
  | nil => rfl
  | cons e r ih =>
    simp only [List.foldl_cons]
    have hk : (bump ns (g e) (fabs e.2.2)).getD i 0 = ns.getD i 0 := by
      apply getD_bump_keep _ _ _ _ h0
      intro hk
      rw [hL e (by simp) hk, LawfulFloatLike.fabs_eq, abs_zero]
    rw [ih _ (fun e' he' => hL e' (by simp [he'])) (by rw [hk]; exact h0), hk]

omit [IsStrictOrderedRing α] in
theorem getD_bump_nonneg (ns : Array α) (k i : Nat) (v : α) (h0 : 0 ≤ ns.getD i 0) :
    0 ≤ (bump ns k v).getD i 0 := by
  unfold bump
  by_cases hi : i < ns.size
  · have h0' : 0 ≤ ns[i] := by simpa [Array.getD, hi] using h0
    by_cases hk : k = i
    · subst hk
      simp [Array.getD, hi, Array.getElem_modify, LawfulFloatLike.fmax_eq, h0']
    · simp [Array.getD, hi, Array.getElem_modify, hk, h0']
  · simp [Array.getD, hi]

/-- the symmetric column norms are nonnegative -/
theorem colNormsSym_nonneg (P : Csc α) (w : Array α) (i : Nat) : 0 ≤ (colNormsSym P w).getD i 0 := by
  unfold colNormsSym
  have : ∀ (L : List (Nat × Nat × α)) (ns : Array α), 0 ≤ ns.getD i 0 →
      0 ≤ (L.foldl (fun ns e => bump (bump ns e.2.1 (fabs e.2.2)) e.1 (fabs e.2.2)) ns).getD i 0 := by
    intro L
    induction L with
    | nil => intro ns h; exact h
    | cons e r ih =>
      intro ns h
      simp only [List.foldl_cons]
      exact ih _ (getD_bump_nonneg _ _ _ _ (getD_bump_nonneg _ _ _ _ h))
  apply this
  by_cases hi : i < w.size <;> simp [Array.getD, hi]

/-- [F] **zero column of `A`, nonzero column of `P`**: the KKT column norm of column `j` is the
norm of column `j` of the symmetric `P` alone — so `dⱼ` IS scaled (by `P`), an all-zero column
of `A` alone is not "left unscaled". -/
theorem kktColNorms_zeroA (P A : Csc α) (w w' : Array α) (j : Nat)
    (hA : ZeroWhere A (fun _ c => c = j)) :
    (kktColNorms P A w w').1.getD j 0 = (colNormsSym P w).getD j 0 := by
  unfold kktColNorms colNormsNoReset
  exact foldl_bump_keep _ (fun e => e.2.1) _ _ hA (colNormsSym_nonneg P w j)

/-- the step scaling of such a column is computed from `P` alone -/
theorem stepScalings_zeroA (s : Settings α) (dt : ProblemData α) (j : Nat)
    (hA : ZeroWhere dt.A (fun _ c => c = j)) (hjd : j < dt.equilibration.d.size)
    (hjw : j < dt.equilibration.dinv.size) :
    (stepScalings s dt).1.getD j 1 =
      Vec.clip ((Vec.rsqrt (unzero (colNormsSym dt.P dt.equilibration.dinv))).getD j 1)
        (s.minScaling / dt.equilibration.d.getD j 1) (s.maxScaling / dt.equilibration.d.getD j 1) := by
  have hk := kktColNorms_zeroA dt.P dt.A dt.equilibration.dinv dt.equilibration.einv j hA
  have hsz1 : (kktColNorms dt.P dt.A dt.equilibration.dinv dt.equilibration.einv).1.size =
      dt.equilibration.dinv.size := by
    simp [kktColNorms, size_colNormsNoReset, size_colNormsSym]
  have hsz2 : (colNormsSym dt.P dt.equilibration.dinv).size = dt.equilibration.dinv.size :=
    size_colNormsSym _ _
  have hk' : (kktColNorms dt.P dt.A dt.equilibration.dinv dt.equilibration.einv).1[j]'(by omega) =
      (colNormsSym dt.P dt.equilibration.dinv)[j]'(by omega) := by
    have h1 : j < (kktColNorms dt.P dt.A dt.equilibration.dinv dt.equilibration.einv).1.size := by omega
    have h2 : j < (colNormsSym dt.P dt.equilibration.dinv).size := by omega
    simpa [Array.getD, h1, h2] using hk
  have h1 : j < (kktColNorms dt.P dt.A dt.equilibration.dinv dt.equilibration.einv).1.size := by omega
  have h2 : j < (colNormsSym dt.P dt.equilibration.dinv).size := by omega
  simp [stepScalings, clipWork, Vec.rsqrt, unzero, Array.getD, h1, h2, hjd, hk']

end Clarabel.Equil
