/-
  Panic-freedom of the whole-solver model (C04) — stage "linear solver object", part 3:
  `KktSolver.new` (`DirectLDLKKTSolver::new`) is total on well-formed data and establishes
  `KktInvW`.  [S]
-/
import ClarabelProofs.Lemmas.SolverModelNoPanicKkt
import ClarabelProofs.Props.C11
import ClarabelProofs.Props.C12
import ClarabelProofs.Lemmas.QdldlHistoryMain
import ClarabelProofs.Lemmas.KktQdldlInput

set_option linter.unusedSectionVars false
set_option linter.unusedVariables false

namespace Clarabel.Solver
open Clarabel Qdldl Residuals Clarabel.Csc Clarabel.Kkt
open Clarabel.Lemmas.KktRun Clarabel.Lemmas.KktSlots Clarabel.Lemmas.KktFillMaps
open Clarabel.Lemmas.KktFillRun Clarabel.Lemmas.KktTotal
open Clarabel.Lemmas.KktFinal Clarabel.Lemmas.KktSpec Clarabel.Lemmas.KktDistinct
open Clarabel.Lemmas.KktUpdateAsm Clarabel.Lemmas.KktUpdateTotal Clarabel.Lemmas.KktSorted

variable {α : Type}

section
variable [Add α] [Sub α] [Mul α] [Div α] [Neg α] [OfNat α 0] [OfNat α 1] [OfNat α 2]
  [OfNat α 100] [OfNat α 1000] [LT α] [DecidableLT α] [LE α] [DecidableLE α] [BEq α] [FloatLike α]

/-- the cone list of the whole-solver model has no generalised power cones -/
def NoGenpow (specs : List ConeSpec) : Prop := ∀ c ∈ specs, ∀ a b, c ≠ ConeSpec.genpow a b

theorem noGenpow_kktSpec (K : List (ConeSt α)) : NoGenpow (K.map ConeSt.kktSpec) := by
  intro c hc a b
  obtain ⟨k, _, rfl⟩ := List.mem_map.mp hc
  cases k <;> simp [ConeSt.kktSpec]

theorem expansionMap_none_of_not_sparse {c : ConeSpec} (h : ¬ c.isSparseExpandable = true) :
    expansionMap c = none := by
  cases c <;> simp_all [expansionMap, ConeSpec.isSparseExpandable]

/-- the expansion maps of the assembly against the templates, with all indices in range -/
theorem asm_maps_forall₂ {P A : Csc α} {cones : List ConeSpec} {shape : MatrixTriangle} {K : Csc α}
    {map : LDLDataMap} {sched : List (Entry α)} {Kc : Csc α} {nd : Nat}
    (R : AsmRun P A cones shape K map sched Kc nd) (hm : (cones.map ConeSpec.numel).sum = A.m)
    (hng : NoGenpow cones) :
    ∀ (restS preS : List ConeSpec), cones = preS ++ restS →
      List.Forall₂ (SparseMapOK K.nzval.size) (map.sparse_maps.toList.drop (nSparse preS))
        (restS.filterMap expansionMap) := by
  intro restS
  induction restS with
  | nil =>
    intro preS hdec
    have : map.sparse_maps.toList.drop (nSparse preS) = [] := by
      rw [List.drop_eq_nil_iff, Array.length_toList, R.sizes.2.2.2, filterMap_expansion_length]
      rw [hdec]; simp
    rw [this]; exact List.Forall₂.nil
  | cons cS restS' ih =>
    intro preS hdec
    have hdec' : cones = (preS ++ [cS]) ++ restS' := by rw [hdec]; simp
    have hns : nSparse (preS ++ [cS]) = nSparse preS + (if cS.isSparseExpandable = true then 1 else 0) := by
      unfold nSparse
      rw [List.countP_append, List.countP_cons]
      simp
    have ih' := ih (preS ++ [cS]) hdec'
    rw [hns] at ih'
    by_cases hsp : cS.isSparseExpandable = true
    · rw [if_pos hsp] at ih'
      obtain ⟨mp', hget, hss⟩ := (R.fill.cone_slots preS cS restS' hdec).2 hsp
      have hrow : (A.n + (preS.map ConeSpec.numel).sum) + cS.numel
          ≤ A.m + A.n + (preS.map conePdim).sum := by
        have : ((preS ++ cS :: restS').map ConeSpec.numel).sum = A.m := by rw [← hdec]; exact hm
        simp only [List.map_append, List.map_cons, List.sum_append, List.sum_cons] at this
        omega
      have hb : ∀ j ∈ mp'.indices, j < K.nzval.size := located_lt R (sp_located R.dis hsp hrow hss).1
      have hfit := hss.fits
      have hlt : nSparse preS < map.sparse_maps.toList.length := by
        rw [Array.length_toList]; exact (Array.getElem?_eq_some_iff.mp hget).1
      have hge : map.sparse_maps.toList[nSparse preS] = mp' := by
        have := hget
        rw [← Array.getElem?_toList, List.getElem?_eq_getElem hlt] at this
        exact Option.some.inj this
      rw [List.drop_eq_getElem_cons hlt, hge]
      have hcmem : cS ∈ cones := by rw [hdec]; simp
      cases cS with
      | zero d => simp [ConeSpec.isSparseExpandable] at hsp
      | nonneg d => simp [ConeSpec.isSparseExpandable] at hsp
      | exp => simp [ConeSpec.isSparseExpandable] at hsp
      | pow => simp [ConeSpec.isSparseExpandable] at hsp
      | psd d => simp [ConeSpec.isSparseExpandable] at hsp
      | genpow a b => exact absurd rfl (hng _ hcmem a b)
      | soc d =>
        have hd : d > socNoExpansionMaxSize := by
          simpa [ConeSpec.isSparseExpandable] using hsp
        simp only [List.filterMap_cons, expansionMap, hd, ↓reduceIte]
        refine List.Forall₂.cons ?_ ih'
        cases mp' with
        | genpow p q r D => simp [MapFitsD] at hfit
        | soc u v D =>
          obtain ⟨h1, h2, h3⟩ := hfit
          refine ⟨by simp [h1], by simp [h2], h3, ?_, ?_, ?_⟩
          · intro i hi; exact hb i (by simp [SparseMap.indices, hi])
          · intro i hi; exact hb i (by simp [SparseMap.indices, hi])
          · intro i hi; exact hb i (by simp [SparseMap.indices, hi])
    · rw [if_neg hsp, Nat.add_zero] at ih'
      rw [List.filterMap_cons, expansionMap_none_of_not_sparse hsp]
      exact ih'

/-- [S] what `assemble_kkt_matrix` (triu) delivers for `KktSolver.new`: the matrix is a canonical
square encoding of order `n + m + p`, every index vector of the map is in range and the expansion
maps match the sparse cones -/
theorem assembly_facts {P A : Csc α} {specs : List ConeSpec} (hin : KktInputs P A specs)
    (hng : NoGenpow specs) :
    ∃ K map, assembleKktMatrix P A specs .triu = .ok (K, map) ∧
      K.m = A.n + A.m + pdimAll map.sparse_maps ∧ K.n = A.n + A.m + pdimAll map.sparse_maps ∧
      C16.Canonical0 K ∧
      map.Hsblocks.size = hsblocksLen specs ∧ (∀ i ∈ map.Hsblocks.toList, i < K.nzval.size) ∧
      map.diag_full.size = A.n + A.m + pdimAll map.sparse_maps ∧
      (∀ i ∈ map.diag_full.toList, i < K.nzval.size) ∧
      List.Forall₂ (SparseMapOK K.nzval.size) map.sparse_maps.toList (specs.filterMap expansionMap) ∧
      (∀ c, c < K.n → (∃ p q, K.colptr[c]? = some p ∧ K.colptr[c + 1]? = some q ∧ p < q) ∧
        (K.colRows c).Pairwise (· < ·) ∧ (K.colRows c).getLast? = some c) := by
  obtain ⟨K, map, nd, hasm, _, hKm, hKn, _, _, _, _, _⟩ := C11.assembly_total P A specs .triu hin
  obtain ⟨sched, Kc, nd', R⟩ := asmRun_of_ok hin hasm
  have hcan := (C11.assembly_check_format hin hasm).1
  have M := C11.assembly_maps hin hasm
  -- the order of the matrix
  obtain ⟨ds, hds, hdss, _⟩ := R.signs_at
  have hdim : kktDim A specs = A.n + A.m + pdimAll map.sparse_maps := by
    rw [fillSigns_eq] at hds
    have := Except.ok.inj hds
    rw [← this] at hdss
    rw [← hdss, pdimAll_eq]
    simp only [List.size_toArray, List.length_append, List.length_replicate]
  refine ⟨K, map, hasm, by rw [hKm, hdim], by rw [hKn, hdim], hcan, R.sizes.2.2.1,
    located_lt R (hs_located R hin.m_eq), by rw [M.diag_full.1, hdim], ?_, ?_, ?_⟩
  · intro i hi
    obtain ⟨c, hc, rfl⟩ := List.mem_iff_getElem.mp hi
    have hc' : c < map.diag_full.size := by simpa using hc
    obtain ⟨v, d, hd, p, q, _, _, _, _, _, hv⟩ := M.diag_full.2 c (by rw [← M.diag_full.1]; exact hc')
    rw [Array.getElem?_eq_getElem hc'] at hd
    have : map.diag_full.toList[c] = d := by
      rw [Array.getElem_toList]; exact Option.some.inj hd
    rw [this]
    exact (Array.getElem?_eq_some_iff.mp hv).1
  · exact asm_maps_forall₂ R hin.m_eq hng specs [] rfl
  · intro c hc
    rw [hKn] at hc
    obtain ⟨h1, h2, _, h4⟩ := C11.assembly_canonical hin hasm c hc
    exact ⟨h1, h2, h4⟩


/-! ### `QDLDLFactorisation::new` (logical mode) -/

/-- [S] **`QDLDLFactorisation::new` in logical mode is total** on a canonical square matrix whose
columns end with their diagonal entry, for a permutation `perm` and `±1` signs; the object it
returns satisfies `QInv` -/
theorem qdldl_new_ok (A : Csc α) (hcan : C16.Canonical0 A) (hsq : A.m = A.n) (hpos : 0 < A.n)
    (hcols : ∀ c, c < A.n → (∃ p q, A.colptr[c]? = some p ∧ A.colptr[c + 1]? = some q ∧ p < q) ∧
      (A.colRows c).Pairwise (· < ·) ∧ (A.colRows c).getLast? = some c)
    (perm : Array Nat) (hperm : C12.IsPerm perm) (hps : perm.size = A.n) (ds : Array Int)
    (hds : ds.size = A.n) (hsg : ∀ sg ∈ ds.toList, sg = 1 ∨ sg = -1) (eps delta : α)
    (hp : PivotOKrp eps delta) :
    ∃ F, Qdldl.new A perm (some ds) true eps delta true = .ok F ∧ QInv A.n A.nzval.size F := by
  obtain ⟨hw, hc, hnd⟩ := Clarabel.Lemmas.KktQdldlInput.qdldl_input_of_canonical A hcan hsq hcols
  obtain ⟨iperm, hip⟩ := (C12.invperm_ok_iff perm).mpr hperm
  obtain ⟨P, map, Ds, es, S⟩ := stages_of A hw hc hnd hpos perm iperm hip hps (some ds)
    (fun ds' h => by cases h; omega)
  obtain ⟨F, hF, _, hT, hM, hE, hL, _, hLi, _, hLx, hDi, hD, _, _, _, hH⟩ := new_logical S true eps delta
  refine ⟨F, hF, ?_⟩
  obtain ⟨hnd', hRep, _⟩ := permuteSymmetric_represents A S.inp S.nd iperm (fun i => perm.getD i 0) S.pair
    P map S.ps
  obtain ⟨hms, _, _, hmv⟩ := C12.permute_symmetric A iperm P map S.ps
  have hlsz : es.Lnz.size = A.n := S.einv.2.1
  have hrp : F.rp = { Dsigns := Ds, enable := true, eps := eps, delta := delta } := hH.rp
  have hDs : ∀ sg ∈ Ds.toList, sg = 1 ∨ sg = -1 := by
    have h := S.ds
    unfold dsignsOf Perm.permute at h
    simp only at h
    split at h
    · have := Except.ok.inj h
      rw [← this]
      intro sg hsgm
      simp only [List.toList_toArray, List.mem_append, List.mem_filterMap] at hsgm
      rcases hsgm with ⟨j, _, hj⟩ | hdrop
      · exact hsg sg (by
          obtain ⟨hj1, hj2⟩ := Array.getElem?_eq_some_iff.mp hj
          rw [← hj2]; simp)
      · have := List.mem_of_mem_drop hdrop
        simp only [Array.toList_replicate, List.mem_replicate] at this
        exact Or.inl this.2
    · cases h
  exact
    { npos := hpos
      triu_n := by rw [hT]; exact S.pn
      tri := by rw [hT]; exact S.tri
      nodup := by rw [hT]; exact hnd'
      nzsz := by rw [hT]; exact hRep.axs
      map_size := by rw [hM]; exact hms
      map_lt := by
        intro k hk
        rw [hM] at hk
        rw [hT]
        obtain ⟨i, hi, rfl⟩ := List.mem_iff_getElem.mp hk
        have hi' : i < map.size := by simpa using hi
        obtain ⟨p, hp1, hp2, _⟩ := hmv i (by rw [← hms]; exact hi')
        rw [Array.getElem?_eq_getElem hi'] at hp1
        have : map.toList[i] = p := by rw [Array.getElem_toList]; exact Option.some.inj hp1
        rw [this]; exact hp2
      etree := ⟨es, by rw [hT, ← S.pm]; exact S.et, hE, hL⟩
      Lrow := by
        rw [hL, hLi, ← hlsz, cumsum_last]
      Lval := by rw [hLx, hLi]; simp
      D := hD
      Dinv := by rw [hDi]; simp
      perm_size := by rw [hH.perm]; exact hps
      perm_nodup := by rw [hH.perm]; exact hperm.1
      perm_lt := by rw [hH.perm]; intro j hj; rw [← hps]; exact hperm.2 j hj
      enable := by rw [hrp]
      signs_size := by rw [hrp]; exact S.dsz
      signs := by rw [hrp]; exact hDs
      pivot := by rw [hrp]; exact hp }


/-! ### `DirectLDLKKTSolver::new` -/

theorem pdim_foldl_of_forall₂ {nnz : Nat} : ∀ {l1 l2 : List SparseMap},
    List.Forall₂ (SparseMapOK nnz) l1 l2 → ∀ acc : Nat,
      l1.foldl (fun acc mp => acc + mp.pdim) acc = l2.foldl (fun acc mp => acc + mp.pdim) acc := by
  intro l1 l2 h
  induction h with
  | nil => intro acc; rfl
  | @cons a b _ _ hab _ ih =>
    intro acc
    have : a.pdim = b.pdim := by
      cases a <;> cases b <;> first | rfl | exact absurd hab id
    simp only [List.foldl_cons, this]
    exact ih _

/-- the ordering handed to QDLDL is a permutation of the KKT dimension -/
def PermOK (perm : Array Nat) (d : ProblemData α) (K : List (ConeSt α)) : Prop :=
  C12.IsPerm perm ∧
    perm.size = d.n + d.m + Kkt.pdimAll (((K.map ConeSt.kktSpec).filterMap Kkt.expansionMap).toArray)

/-- [S] `DirectLDLKKTSolver::new` is total and establishes `KktInvW`, from C11's input hypothesis
`KktInputs` (discharged from `DataOK` in `kktSolverNew_ok` below) -/
theorem kktSolverNew_ok_of_inputs {d : ProblemData α} {K : List (ConeSt α)} {st : LinSettings α}
    {perm : Array Nat} (hin : KktInputs d.P d.A (K.map ConeSt.kktSpec)) (hd : DataOK d)
    (hperm : PermOK perm d K) (hpos : 0 < d.n + d.m) (hpiv : PivotOK st) :
    ∃ Ks, KktSolver.new d.P d.A K d.m d.n st perm = .ok Ks ∧ KktInvW (K.map ConeSt.kktSpec) d.n d.m Ks := by
  obtain ⟨KK, map, hasm, hKm, hKn, hcan, hhs, hhslt, hdg, hdglt, hmaps, hcols⟩ :=
    assembly_facts hin (noGenpow_kktSpec K)
  rw [hd.A_n, hd.A_m] at hKm hKn hdg
  have hpd : pdimAll map.sparse_maps =
      pdimAll (((K.map ConeSt.kktSpec).filterMap expansionMap).toArray) := by
    unfold pdimAll
    exact pdim_foldl_of_forall₂ hmaps 0
  have hsigns := fillSigns_eq d.m d.n map.sparse_maps
  generalize hdsg : (List.replicate d.n (1 : Int) ++ List.replicate d.m (-1)
      ++ (map.sparse_maps.toList.map SparseMap.dsigns).flatten).toArray = dsg at hsigns
  have hdsz : dsg.size = d.n + d.m + pdimAll map.sparse_maps := by
    rw [← hdsg, pdimAll_eq]
    simp only [List.size_toArray, List.length_append, List.length_replicate]
  have hdpm : ∀ sg ∈ dsg.toList, sg = 1 ∨ sg = -1 := by
    rw [← hdsg]
    intro sg hsgm
    simp only [List.mem_append, List.mem_replicate, List.mem_flatten, List.mem_map] at hsgm
    rcases hsgm with (⟨_, h⟩ | ⟨_, h⟩) | ⟨l, ⟨mp, _, rfl⟩, hl⟩
    · exact Or.inl h
    · exact Or.inr h
    · cases mp <;> simp [SparseMap.dsigns] at hl <;> omega
  obtain ⟨F, hF, hFI⟩ := qdldl_new_ok KK hcan (by rw [hKm, hKn]) (by rw [hKn]; omega) hcols perm hperm.1
    (by rw [hperm.2, hKn, hpd]) dsg (by rw [hdsz, hKn]) hdpm st.dynRegEps st.dynRegDelta hpiv
  rw [hKn] at hFI
  refine ⟨{ m := d.m, n := d.n, p := pdimAll map.sparse_maps
            x := Array.replicate (d.n + d.m + pdimAll map.sparse_maps) 0
            b := Array.replicate (d.n + d.m + pdimAll map.sparse_maps) 0
            work1 := Array.replicate (d.n + d.m + pdimAll map.sparse_maps) 0
            work2 := Array.replicate (d.n + d.m + pdimAll map.sparse_maps) 0
            map := map, dsigns := dsg
            Hsblocks := Array.replicate (hsblocksLen (K.map ConeSt.kktSpec)) 0
            KKT := KK, ldl := F, diagonalRegularizer := 0 }, ?_, ?_⟩
  · unfold KktSolver.new
    have c : (KK.m != KK.n) = false := by simp [hKm, hKn]
    simp only [hasm, hsigns, hF, c, unwrapQdldl, bind, Except.bind, pure, Except.pure, Bool.false_eq_true,
      ↓reduceIte]
  · exact
      { n_eq := rfl, m_eq := rfl, p_eq := rfl
        x := by simp, b := by simp, work1 := by simp, work2 := by simp
        dsigns := hdsz
        hs := by simp
        hsmap := hhs, hsmap_lt := hhslt, diag_size := hdg, diag_lt := hdglt, maps := hmaps
        kkt_m := hKm, kkt_n := hKn, canon := hcan.canon, ldl := hFI }


/-! ### `DataOK` gives C11's input hypothesis -/

open Clarabel.Lemmas.KktQdldlInput (mono_of_noBad getD_eq_toList_getElem colRows_get) in
/-- [S] C16's canonical encodings are C11's (`Canon`) -/
theorem canon_of_canonical0 {M : Csc α} (h : C16.Canonical0 M) : Canon M := by
  have hC := h.canon
  have hsz := hC.colptr_size
  have hlen : M.colptr.toList.length = M.n + 1 := by simpa using hsz
  have hmono := mono_of_noBad M.colptr.toList hC.colptr_mono
  have gd : ∀ (a : Array Nat) k, k < a.size → a[k]! = a.getD k 0 := by
    intro a k hk
    rw [getElem!_pos a k hk, Array.getD_eq_getD_getElem?, Array.getElem?_eq_getElem hk]; rfl
  have hm : ∀ i j, i ≤ j → j ≤ M.n → M.colptr.getD i 0 ≤ M.colptr.getD j 0 := by
    intro i j hij hj
    rw [getD_eq_toList_getElem _ i (by omega), getD_eq_toList_getElem _ j (by omega)]
    exact hmono i j hij (by omega)
  have hlast := hC.colptr_last
  have hle : ∀ i, i ≤ M.n → M.colptr.getD i 0 ≤ M.rowval.size := by
    intro i hi; rw [← hlast]; exact hm i M.n hi (Nat.le_refl _)
  refine ⟨hsz, ?_, ?_, ?_, hC.len_eq.symm, ?_, ?_⟩
  · have h0 : 0 < M.colptr.size := by omega
    have := h.colptr_zero
    rw [Array.getD_eq_getD_getElem?, Array.getElem?_eq_getElem h0] at this
    rw [Array.getElem?_eq_getElem h0]
    exact congrArg some this
  · intro i hi
    rw [gd _ i (by omega), gd _ (i + 1) (by omega)]
    exact hm i (i + 1) (by omega) (by omega)
  · have hn : M.n < M.colptr.size := by omega
    rw [Array.getD_eq_getD_getElem?, Array.getElem?_eq_getElem hn] at hlast
    rw [Array.getElem?_eq_getElem hn]
    exact congrArg some hlast
  · intro j hj
    rw [getElem!_pos M.rowval j hj]
    exact hC.rows_bound _ (by simp)
  · intro i hi j h1 h2
    rw [gd _ i (by omega)] at h1
    rw [gd _ (i + 1) (by omega)] at h2
    have hl := hle (i + 1) (by omega)
    have hs := (noBadAdjacent_iff_getElem _ _).mp (hC.rows_sorted i hi)
    have g1 := colRows_get M i j h1 (by omega) hl
    have g2 := colRows_get M i (j + 1) (by omega) h2 hl
    rw [show j + 1 - M.colptr.getD i 0 = (j - M.colptr.getD i 0) + 1 by omega] at g2
    obtain ⟨k1, e1⟩ := List.getElem?_eq_some_iff.mp g1
    obtain ⟨k2, e2⟩ := List.getElem?_eq_some_iff.mp g2
    have := hs (j - M.colptr.getD i 0) k2
    rw [e1, e2] at this
    rw [gd _ j (by omega), gd _ (j + 1) (by omega)]
    omega

open Clarabel.Lemmas.KktQdldlInput (colRows_get) in
/-- [S] the model's `isTriu` test is C11's `IsTriu` on a canonical encoding -/
theorem isTriu_of_flag {M : Csc α} (h : C16.Canonical0 M) (ht : M.isTriu = true) : IsTriu M := by
  have hcn := canon_of_canonical0 h
  have gd : ∀ (a : Array Nat) k, k < a.size → a[k]! = a.getD k 0 := by
    intro a k hk
    rw [getElem!_pos a k hk, Array.getD_eq_getD_getElem?, Array.getElem?_eq_getElem hk]; rfl
  intro i hi j h1 h2
  have hsz := hcn.colptr_size
  have hl := hcn.colptr_le_last (i + 1) (by omega)
  rw [gd _ (i + 1) (by omega)] at hl
  rw [gd _ i (by omega)] at h1
  rw [gd _ (i + 1) (by omega)] at h2
  have g := colRows_get M i j h1 h2 hl
  have hmem : M.rowval.getD j 0 ∈ M.colRows i := List.mem_of_getElem? g
  unfold Csc.isTriu at ht
  rw [List.all_eq_true] at ht
  have := ht i (List.mem_range.mpr hi)
  rw [List.all_eq_true] at this
  have := this _ hmem
  rw [gd _ j (by omega)]
  simpa using this

theorem sum_numel_kktSpec : ∀ (K : List (ConeSt α)),
    ((K.map ConeSt.kktSpec).map ConeSpec.numel).sum = numelAll K := by
  intro K
  induction K with
  | nil => rfl
  | cons c rest ih =>
    rw [numelAll_cons, List.map_cons, List.map_cons, List.sum_cons, ih]
    cases c <;> rfl

/-- [S] `DataOK` (and the cones covering `m` rows) gives C11's `KktInputs` -/
theorem kktInputs_of_dataOK {d : ProblemData α} {K : List (ConeSt α)} (hd : DataOK d)
    (hnum : numelAll K = d.m) : KktInputs d.P d.A (K.map ConeSt.kktSpec) :=
  { P_canon := canon_of_canonical0 hd.P_canon
    P_triu := isTriu_of_flag hd.P_canon hd.P_triu
    P_square := by rw [hd.P_m, hd.P_n]
    A_canon := canon_of_canonical0 hd.A_canon
    n_eq := by rw [hd.P_n, hd.A_n]
    m_eq := by rw [sum_numel_kktSpec, hnum, hd.A_m] }

/-- [S] **`DirectLDLKKTSolver::new` is total on well-formed data and establishes `KktInvW`** -/
theorem kktSolverNew_ok {d : ProblemData α} {K : List (ConeSt α)} {st : LinSettings α} {perm : Array Nat}
    (hd : DataOK d) (hK : ConesFull K) (hnum : numelAll K = d.m) (hperm : PermOK perm d K)
    (hpos : 0 < d.n + d.m) (hpiv : PivotOK st) :
    ∃ Ks, KktSolver.new d.P d.A K d.m d.n st perm = .ok Ks ∧ KktInvW (K.map ConeSt.kktSpec) d.n d.m Ks :=
  kktSolverNew_ok_of_inputs (kktInputs_of_dataOK hd hnum) hd hperm hpos hpiv

end

end Clarabel.Solver
