/-
  C16, dense matrix model: the pseudo-inverse meaning of `SVDEngine::solve`
  (`src/algebra/dense/blas/svd.rs`, model `Clarabel.Dense.svdSolve`) relative to the SVD contract.

  The code computes, for a square engine (`U`, `Vt` : `n × n`, `s` : `n` singular values) and a
  right-hand side `B : n × nrhs`

      tol     = eps · |s[0]| · n
      C       = Uᵀ · B                          (gemm, β = 0)
      sinv[l] = if tol < |s[l]| then 1 / |s[l]| else 0
      C       ← diag(sinv) · C                  (lscale)
      B       ← Vtᵀ · C                         (gemm, β = 0)

  i.e. `X = V · Σ⁺ · Uᵀ · B`, where a singular value is inverted iff it is STRICTLY larger (in
  absolute value) than `eps · |s[0]| · n`, and is replaced by `0` otherwise.

  * `svdSolve_entry`            [R] every entry of the result, as the double sum above;
  * `svdSolve_normal_equations` [R] with the SVD contract `A = U·diag(s)·Vt`, `UᵀU = I`,
    `Vt·Vtᵀ = I`, `s ≥ 0` and "no nonzero singular value is cut off": `AᵀA·X = AᵀB`;
  * `svdSolve_full_rank`        [R] if every singular value is above the cutoff: `A·X = B`.
-/
import ClarabelProofs.Lemmas.DenseBlas
import ClarabelProofs.Lemmas.DenseMath
import ClarabelProofs.Lemmas.ScalarInst
import Mathlib.Algebra.BigOperators.Fin
import Mathlib.Data.Matrix.Mul
import Mathlib.Data.Matrix.Diagonal
import Mathlib.LinearAlgebra.Matrix.NonsingularInverse

namespace Clarabel.Dense
open Clarabel Finset

/-! ### the cutoff rule -/

/-- the tolerance of `SVDEngine::solve`, in the multiplication order of the code:
`(T::epsilon() * s[0].abs()) * T::from(k)` (a missing `s[0]` reads as `0`) -/
noncomputable def svdTol (s : Array ℝ) (n : Nat) : ℝ := FloatLike.eps * |s.getD 0 0| * (n : ℝ)

/-- the inverted singular value `l` as coded: `1 / |s[l]|` iff `tol < |s[l]|` (strict), else `0` -/
noncomputable def svdSinv (s : Array ℝ) (n : Nat) (l : Nat) : ℝ :=
  if svdTol s n < |s.getD l 0| then 1 / |s.getD l 0| else 0

theorem svdTol_nonneg (s : Array ℝ) (n : Nat) : 0 ≤ svdTol s n := by
  unfold svdTol
  have h1 : (0 : ℝ) ≤ FloatLike.eps := le_of_lt LawfulFloatLike.eps_pos
  have h2 : (0 : ℝ) ≤ |s.getD 0 0| := abs_nonneg _
  have h3 : (0 : ℝ) ≤ (n : ℝ) := Nat.cast_nonneg n
  exact mul_nonneg (mul_nonneg h1 h2) h3

/-! ### `svdSolve` as the three calls -/

/-- the array of inverted singular values that `solve` builds -/
noncomputable def svdSinvArr (s : Array ℝ) (n : Nat) : Array ℝ :=
  ((s.toList.take n).map (fun x => if svdTol s n < fabs x then 1 / fabs x else 0)).toArray

theorem svdSinvArr_size (s : Array ℝ) (n : Nat) (hs : s.size = n) : (svdSinvArr s n).size = n := by
  simp [svdSinvArr, hs]

theorem svdSinvArr_get (s : Array ℝ) (n : Nat) (hs : s.size = n) (l : Nat)
    (hl : l < (svdSinvArr s n).size) : (svdSinvArr s n)[l] = svdSinv s n l := by
  have hl' : l < s.size := by rw [svdSinvArr_size s n hs] at hl; omega
  have hln : l < n := by omega
  simp only [svdSinvArr, List.getElem_toArray, List.getElem_map, List.getElem_take,
    Array.getElem_toList, svdSinv, Array.getD_eq_getD_getElem?, Array.getElem?_eq_getElem hl',
    Option.getD_some]
  rfl

/-- [S]-style unfolding over `ℝ`: with a square engine of order `n > 0` holding `n` singular
values and a right-hand side of `n` rows, `solve` is `gemm`, `lscale`, `gemm`. -/
theorem svdSolve_eq (E : SvdEngine ℝ) (B : Dense ℝ) (n : Nat) (hUm : E.U.m = n) (hVn : E.Vt.n = n)
    (hs : E.s.size = n) (hn : 0 < n) (hBm : B.m = n) :
    svdSolve E B =
      (mul ⟨n, B.n, Array.replicate (n * B.n) 0⟩ .T E.U .N B 1 0 >>= fun C =>
        lscale C (svdSinvArr E.s n) >>= fun C => mul B .T E.Vt .N C 1 0) := by
  unfold svdSolve
  have e1 : (E.U.m != E.Vt.n) = false := by simp [hUm, hVn]
  have e2 : (B.m != E.U.m) = false := by simp [hUm, hBm]
  have e3 : (E.s.size != min E.U.m E.Vt.n) = false := by simp [hUm, hVn, hs]
  have h0 : 0 < E.s.size := by omega
  have e4 : E.s.getD 0 0 = E.s[0] := by
    simp [Array.getD_eq_getD_getElem?, Array.getElem?_eq_getElem h0]
  simp only [e1, e2, e3, Bool.false_eq_true, ↓reduceIte, getE_ok E.s 0 "s[0]" h0]
  simp only [hUm, hVn, Nat.min_self]
  unfold svdSinvArr svdTol
  rw [e4]
  rfl

theorem getD_of_at? (A : Dense ℝ) (i j : Nat) (v : ℝ) (h : at? A i j = some v) :
    A.data.getD (i + A.m * j) 0 = v := by
  unfold at? at h
  rw [Array.getD_eq_getD_getElem?, h]
  rfl

/-- [R] **what `SVDEngine::solve` computes.**  Square engine of order `n > 0` (`U`, `Vt` both
`n × n`, well formed, `n` singular values), well-formed right-hand side with `n` rows (any
number of columns, `nrhs = 0` included: both `gemm` calls return at once and `B` is handed back
unchanged).  The call succeeds, the result has the shape of `B` and its entry `(i, j)` is

  `Σ_l Vt[l,i] · ( sinv l · Σ_p U[p,l] · B[p,j] )`      (= `(V · Σ⁺ · Uᵀ · B)[i,j]`)

with `sinv l = if eps·|s[0]|·n < |s[l]| then 1/|s[l]| else 0` (`svdSinv`; the tolerance is
multiplied in the order of the code, `(eps·|s[0]|)·n`, the comparison is strict). -/
theorem svdSolve_entry (E : SvdEngine ℝ) (B : Dense ℝ) (n : Nat)
    (hU : WF E.U) (hVt : WF E.Vt) (hB : WF B) (hUm : E.U.m = n) (hUn : E.U.n = n)
    (hVm : E.Vt.m = n) (hVn : E.Vt.n = n) (hs : E.s.size = n) (hn : 0 < n) (hBm : B.m = n) :
    ∃ X, svdSolve E B = .ok X ∧ X.m = n ∧ X.n = B.n ∧ WF X ∧
      ∀ i j, i < n → j < B.n → at? X i j =
        some (∑ l ∈ range n, E.Vt.data.getD (l + n * i) 0 *
          (svdSinv E.s n l * ∑ p ∈ range n, E.U.data.getD (p + n * l) 0 * B.data.getD (p + n * j) 0)) := by
  rw [svdSolve_eq E B n hUm hVn hs hn hBm]
  have hC0 : WF (⟨n, B.n, Array.replicate (n * B.n) 0⟩ : Dense ℝ) := by simp [WF]
  by_cases hr : B.n = 0
  · -- no right-hand side: quick returns
    rw [mul_empty _ .T E.U .N B 1 0 (by simp [ncolsV, nrowsV, hUm, hBm])
      (by simp [nrowsV, hUn]) (by simp [ncolsV]) (Or.inr (by simp [hr]))]
    obtain ⟨C2, h2, h2m, h2n, _, _⟩ := lscale_spec (⟨n, B.n, Array.replicate (n * B.n) 0⟩ : Dense ℝ)
      (svdSinvArr E.s n) hC0 (svdSinvArr_size E.s n hs)
    have h2' : (Except.ok (⟨n, B.n, Array.replicate (n * B.n) 0⟩ : Dense ℝ) >>= fun C =>
        lscale C (svdSinvArr E.s n) >>= fun C => mul B .T E.Vt .N C 1 0)
        = mul B .T E.Vt .N C2 1 0 := by
      show (lscale _ (svdSinvArr E.s n) >>= fun C => mul B .T E.Vt .N C 1 0) = _
      rw [h2]; rfl
    rw [h2', mul_empty B .T E.Vt .N C2 1 0 (by simp [ncolsV, nrowsV, hVm, h2m])
      (by simp [nrowsV, hVn, hBm]) (by simp [ncolsV, h2n]) (Or.inr hr)]
    exact ⟨B, rfl, hBm, rfl, hB, fun i j _ hj => absurd hj (by omega)⟩
  · have hr' : 0 < B.n := Nat.pos_of_ne_zero hr
    obtain ⟨C1, h1, h1m, h1n, h1w, h1e⟩ := mul_spec (⟨n, B.n, Array.replicate (n * B.n) 0⟩ : Dense ℝ)
      .T E.U .N B 1 0 hC0 hU hB (by simp [ncolsV, nrowsV, hUm, hBm]) (by simp [nrowsV, hUn])
      (by simp [ncolsV]) hn hr'
    simp only at h1m h1n
    obtain ⟨C2, h2, h2m, h2n, h2w, h2e⟩ := lscale_spec C1 (svdSinvArr E.s n) h1w
      (by rw [svdSinvArr_size E.s n hs, h1m])
    obtain ⟨X, h3, h3m, h3n, h3w, h3e⟩ := mul_spec B .T E.Vt .N C2 1 0 hB hVt h2w
      (by simp [ncolsV, nrowsV, hVm, h2m, h1m]) (by simp [nrowsV, hVn, hBm])
      (by simp [ncolsV, h2n, h1n]) (by omega) hr'
    refine ⟨X, ?_, by rw [h3m, hBm], h3n, h3w, ?_⟩
    · rw [h1]
      show (lscale C1 (svdSinvArr E.s n) >>= fun C => mul B .T E.Vt .N C 1 0) = _
      rw [h2]
      exact h3
    · intro i j hi hj
      rw [h3e i j (by omega) hj]
      congr 1
      simp only [ncolsV, hVm, one_mul, zero_mul, add_zero]
      apply Finset.sum_congr rfl
      intro l hl
      have hl' : l < n := Finset.mem_range.mp hl
      have hC1 := h1e l j hl' hj
      simp only [ncolsV, hUm, one_mul, zero_mul, add_zero] at hC1
      have hC2 := h2e l j (by omega) (by omega)
      rw [hC1, Option.map_some] at hC2
      have hv := getD_of_at? C2 l j _ hC2
      rw [svdSinvArr_get E.s n hs] at hv
      show E.Vt.data.getD (l + E.Vt.m * i) 0 * C2.data.getD (l + C2.m * j) 0 = _
      rw [hv, hVm]
      congr 1
      rw [mul_comm]
      congr 1
      apply Finset.sum_congr rfl
      intro p _
      show E.U.data.getD (p + E.U.m * l) 0 * B.data.getD (p + B.m * j) 0 = _
      rw [hUm, hBm]

/-! ### the linear algebra, on Mathlib matrices -/

section linalg
open Matrix

/-- `X = Vᵀ·diag(sinv)·Uᵀ·B` solves the normal equations of `A = U·diag(s)·V` when `UᵀU = I`,
`V·Vᵀ = I` and `s·s·sinv = s` entry by entry -/
theorem pinv_normal_matrix {n r : Nat} (U V : Matrix (Fin n) (Fin n) ℝ) (s sinv : Fin n → ℝ)
    (B : Matrix (Fin n) (Fin r) ℝ) (hU : Uᵀ * U = 1) (hV : V * Vᵀ = 1)
    (hss : ∀ l, s l * (s l * sinv l) = s l) :
    (U * diagonal s * V)ᵀ * (U * diagonal s * V) * (Vᵀ * (diagonal sinv * (Uᵀ * B)))
      = (U * diagonal s * V)ᵀ * B := by
  have h1 : ∀ M : Matrix (Fin n) (Fin r) ℝ, Uᵀ * (U * M) = M := fun M => by
    rw [← Matrix.mul_assoc, hU, Matrix.one_mul]
  have h2 : ∀ M : Matrix (Fin n) (Fin r) ℝ, V * (Vᵀ * M) = M := fun M => by
    rw [← Matrix.mul_assoc, hV, Matrix.one_mul]
  have h3 : ∀ M : Matrix (Fin n) (Fin r) ℝ,
      diagonal s * (diagonal s * (diagonal sinv * M)) = diagonal s * M := fun M => by
    rw [← Matrix.mul_assoc (diagonal s) (diagonal sinv), diagonal_mul_diagonal,
      ← Matrix.mul_assoc, diagonal_mul_diagonal]
    congr 2
    funext l
    exact hss l
  simp only [Matrix.transpose_mul, Matrix.diagonal_transpose, Matrix.mul_assoc, h1, h2, h3]

/-- with all singular values inverted (`s·sinv = 1`) and `U·Uᵀ = I` as well: `A·X = B` -/
theorem pinv_solve_matrix {n r : Nat} (U V : Matrix (Fin n) (Fin n) ℝ) (s sinv : Fin n → ℝ)
    (B : Matrix (Fin n) (Fin r) ℝ) (hU : U * Uᵀ = 1) (hV : V * Vᵀ = 1)
    (hss : ∀ l, s l * sinv l = 1) :
    (U * diagonal s * V) * (Vᵀ * (diagonal sinv * (Uᵀ * B))) = B := by
  have h1 : ∀ M : Matrix (Fin n) (Fin r) ℝ, U * (Uᵀ * M) = M := fun M => by
    rw [← Matrix.mul_assoc, hU, Matrix.one_mul]
  have h2 : ∀ M : Matrix (Fin n) (Fin r) ℝ, V * (Vᵀ * M) = M := fun M => by
    rw [← Matrix.mul_assoc, hV, Matrix.one_mul]
  have h3 : ∀ M : Matrix (Fin n) (Fin r) ℝ, diagonal s * (diagonal sinv * M) = M := fun M => by
    rw [← Matrix.mul_assoc, diagonal_mul_diagonal]
    have : (fun i => s i * sinv i) = fun _ => (1 : ℝ) := funext hss
    rw [this, Matrix.diagonal_one, Matrix.one_mul]
  simp only [Matrix.mul_assoc, h1, h2, h3]

/-- the `n × r` Mathlib matrix with entries `f i j` -/
def matOf (n r : Nat) (f : Nat → Nat → ℝ) : Matrix (Fin n) (Fin r) ℝ := fun i j => f i.1 j.1

theorem matOf_apply (n r : Nat) (f : Nat → Nat → ℝ) (i : Fin n) (j : Fin r) :
    matOf n r f i j = f i.1 j.1 := rfl

theorem sum_range_fin' (n : Nat) (f : Nat → ℝ) : ∑ k ∈ range n, f k = ∑ k : Fin n, f k.1 :=
  (Fin.sum_univ_eq_sum_range f n).symm

/-- a Gram-type identity on `range` sums is `Mᵀ·M = 1` (for `M` stored by `f p a`) -/
theorem matOf_gram_left (n : Nat) (f : Nat → Nat → ℝ)
    (h : ∀ a b, a < n → b < n → ∑ p ∈ range n, f p a * f p b = if a = b then 1 else 0) :
    (matOf n n f)ᵀ * matOf n n f = 1 := by
  ext a b
  rw [Matrix.mul_apply]
  simp only [Matrix.transpose_apply, matOf_apply]
  rw [← sum_range_fin' n (fun p => f p a.1 * f p b.1), h a.1 b.1 a.2 b.2, Matrix.one_apply]
  simp only [Fin.ext_iff]

/-- `M·Mᵀ = 1` from the row Gram identity -/
theorem matOf_gram_right (n : Nat) (f : Nat → Nat → ℝ)
    (h : ∀ a b, a < n → b < n → ∑ q ∈ range n, f a q * f b q = if a = b then 1 else 0) :
    matOf n n f * (matOf n n f)ᵀ = 1 := by
  ext a b
  rw [Matrix.mul_apply]
  simp only [Matrix.transpose_apply, matOf_apply]
  rw [← sum_range_fin' n (fun q => f a.1 q * f b.1 q), h a.1 b.1 a.2 b.2, Matrix.one_apply]
  simp only [Fin.ext_iff]

/-- the SVD contract `A[i,j] = Σ_l U[i,l]·s[l]·Vt[l,j]` as `A = U·diag(s)·Vt` -/
theorem matOf_svd (n : Nat) (A U V : Nat → Nat → ℝ) (s : Nat → ℝ)
    (h : ∀ i j, i < n → j < n → A i j = ∑ l ∈ range n, U i l * s l * V l j) :
    matOf n n A = matOf n n U * diagonal (fun l : Fin n => s l.1) * matOf n n V := by
  ext i j
  rw [Matrix.mul_apply]
  simp only [Matrix.mul_diagonal, matOf_apply]
  rw [h i.1 j.1 i.2 j.2, sum_range_fin' n (fun l => U i.1 l * s l * V l j.1)]

/-- the entries of the result of `solve` as `X = Vtᵀ·diag(sinv)·Uᵀ·B` -/
theorem matOf_pinv (n r : Nat) (X U V B : Nat → Nat → ℝ) (sinv : Nat → ℝ)
    (h : ∀ i j, i < n → j < r → X i j =
      ∑ l ∈ range n, V l i * (sinv l * ∑ p ∈ range n, U p l * B p j)) :
    matOf n r X = (matOf n n V)ᵀ * (diagonal (fun l : Fin n => sinv l.1) *
      ((matOf n n U)ᵀ * matOf n r B)) := by
  ext i j
  rw [Matrix.mul_apply]
  simp only [Matrix.diagonal_mul, Matrix.transpose_apply]
  simp only [Matrix.mul_apply, Matrix.transpose_apply, matOf_apply]
  rw [h i.1 j.1 i.2 j.2, sum_range_fin' n]
  apply Finset.sum_congr rfl
  intro l _
  rw [sum_range_fin' n]

end linalg

/-! ### the cutoff arithmetic -/

/-- a non-negative singular value that is zero or above the cutoff satisfies `s·(s·sinv) = s` -/
theorem svdSinv_mul_sq (s : Array ℝ) (n l : Nat) (h0 : 0 ≤ s.getD l 0)
    (hcut : s.getD l 0 = 0 ∨ svdTol s n < |s.getD l 0|) :
    s.getD l 0 * (s.getD l 0 * svdSinv s n l) = s.getD l 0 := by
  rcases hcut with h | h
  · rw [h, zero_mul]
  · have hpos : 0 < |s.getD l 0| := lt_of_le_of_lt (svdTol_nonneg s n) h
    rw [abs_of_nonneg h0] at hpos
    unfold svdSinv
    rw [if_pos h, abs_of_nonneg h0]
    field_simp

/-- a singular value above the cutoff is inverted: `s·sinv = 1` -/
theorem svdSinv_mul_one (s : Array ℝ) (n l : Nat) (h : svdTol s n < s.getD l 0) :
    s.getD l 0 * svdSinv s n l = 1 := by
  have hpos : 0 < s.getD l 0 := lt_of_le_of_lt (svdTol_nonneg s n) h
  unfold svdSinv
  rw [abs_of_pos hpos, if_pos h]
  field_simp

/-! ### normal equations, full rank -/

/-- [R] **`solve` returns a least-squares solution (the pseudo-inverse applied to `B`).**
Relative to the SVD contract for a matrix `A` (`n × n`, as a function of its indices):
`A[i,j] = Σ_l U[i,l]·s[l]·Vt[l,j]`, `UᵀU = I`, `Vt·Vtᵀ = I`, `s[l] ≥ 0`, and provided no nonzero
singular value is cut off (`s[l] = 0` or `eps·|s[0]|·n < |s[l]|` — under the LAPACK contract
`s` is sorted decreasingly, so `s[0] = σ_max` and the cutoff is relative to the largest singular
value; sortedness itself is not needed here), the result `X` of `solve` satisfies the normal
equations `AᵀA·X = AᵀB` entry by entry. -/
theorem svdSolve_normal_equations (E : SvdEngine ℝ) (B : Dense ℝ) (n : Nat) (A : Nat → Nat → ℝ)
    (hU : WF E.U) (hVt : WF E.Vt) (hB : WF B) (hUm : E.U.m = n) (hUn : E.U.n = n)
    (hVm : E.Vt.m = n) (hVn : E.Vt.n = n) (hs : E.s.size = n) (hn : 0 < n) (hBm : B.m = n)
    (hA : ∀ i j, i < n → j < n → A i j =
      ∑ l ∈ range n, E.U.data.getD (i + n * l) 0 * E.s.getD l 0 * E.Vt.data.getD (l + n * j) 0)
    (hUU : ∀ a b, a < n → b < n →
      ∑ p ∈ range n, E.U.data.getD (p + n * a) 0 * E.U.data.getD (p + n * b) 0 = if a = b then 1 else 0)
    (hVV : ∀ a b, a < n → b < n →
      ∑ q ∈ range n, E.Vt.data.getD (a + n * q) 0 * E.Vt.data.getD (b + n * q) 0 = if a = b then 1 else 0)
    (hs0 : ∀ l, l < n → 0 ≤ E.s.getD l 0)
    (hcut : ∀ l, l < n → E.s.getD l 0 = 0 ∨
      FloatLike.eps * |E.s.getD 0 0| * (n : ℝ) < |E.s.getD l 0|) :
    ∃ X, svdSolve E B = .ok X ∧ X.m = n ∧ X.n = B.n ∧ WF X ∧
      ∀ i j, i < n → j < B.n →
        ∑ a ∈ range n, (∑ p ∈ range n, A p i * A p a) * X.data.getD (a + n * j) 0
          = ∑ p ∈ range n, A p i * B.data.getD (p + n * j) 0 := by
  obtain ⟨X, hX, hXm, hXn, hXw, hXe⟩ := svdSolve_entry E B n hU hVt hB hUm hUn hVm hVn hs hn hBm
  refine ⟨X, hX, hXm, hXn, hXw, ?_⟩
  intro i j hi hj
  have hAm := matOf_svd n A (fun p l => E.U.data.getD (p + n * l) 0)
    (fun l q => E.Vt.data.getD (l + n * q) 0) (fun l => E.s.getD l 0) hA
  have hXmat := matOf_pinv n B.n (fun a c => X.data.getD (a + n * c) 0)
    (fun p l => E.U.data.getD (p + n * l) 0) (fun l q => E.Vt.data.getD (l + n * q) 0)
    (fun p c => B.data.getD (p + n * c) 0) (svdSinv E.s n) (fun a c ha hc => by
      have := getD_of_at? X a c _ (hXe a c ha hc)
      rw [hXm] at this
      exact this)
  have key := pinv_normal_matrix (matOf n n (fun p l => E.U.data.getD (p + n * l) 0))
    (matOf n n (fun l q => E.Vt.data.getD (l + n * q) 0)) (fun l : Fin n => E.s.getD l.1 0)
    (fun l : Fin n => svdSinv E.s n l.1) (matOf n B.n (fun p c => B.data.getD (p + n * c) 0))
    (matOf_gram_left n _ hUU) (matOf_gram_right n _ hVV)
    (fun l => svdSinv_mul_sq E.s n l.1 (hs0 l.1 l.2) (hcut l.1 l.2))
  rw [← hAm, ← hXmat] at key
  have key' := congrFun (congrFun key ⟨i, hi⟩) ⟨j, hj⟩
  simp only [Matrix.mul_apply, Matrix.transpose_apply, matOf_apply] at key'
  simp only [sum_range_fin' n]
  exact key'

/-- [R] **`solve` solves the system when nothing is cut off.**  With the SVD contract of
`svdSolve_normal_equations` and every singular value strictly above the cutoff
(`eps·|s[0]|·n < s[l]` for all `l < n`; in particular `A` is non-singular), `A·X = B` entry by
entry.  (`U·Uᵀ = I` is derived from `UᵀU = I`, `U` being square.) -/
theorem svdSolve_full_rank (E : SvdEngine ℝ) (B : Dense ℝ) (n : Nat) (A : Nat → Nat → ℝ)
    (hU : WF E.U) (hVt : WF E.Vt) (hB : WF B) (hUm : E.U.m = n) (hUn : E.U.n = n)
    (hVm : E.Vt.m = n) (hVn : E.Vt.n = n) (hs : E.s.size = n) (hn : 0 < n) (hBm : B.m = n)
    (hA : ∀ i j, i < n → j < n → A i j =
      ∑ l ∈ range n, E.U.data.getD (i + n * l) 0 * E.s.getD l 0 * E.Vt.data.getD (l + n * j) 0)
    (hUU : ∀ a b, a < n → b < n →
      ∑ p ∈ range n, E.U.data.getD (p + n * a) 0 * E.U.data.getD (p + n * b) 0 = if a = b then 1 else 0)
    (hVV : ∀ a b, a < n → b < n →
      ∑ q ∈ range n, E.Vt.data.getD (a + n * q) 0 * E.Vt.data.getD (b + n * q) 0 = if a = b then 1 else 0)
    (hfull : ∀ l, l < n → FloatLike.eps * |E.s.getD 0 0| * (n : ℝ) < E.s.getD l 0) :
    ∃ X, svdSolve E B = .ok X ∧ X.m = n ∧ X.n = B.n ∧ WF X ∧
      ∀ i j, i < n → j < B.n →
        ∑ a ∈ range n, A i a * X.data.getD (a + n * j) 0 = B.data.getD (i + n * j) 0 := by
  obtain ⟨X, hX, hXm, hXn, hXw, hXe⟩ := svdSolve_entry E B n hU hVt hB hUm hUn hVm hVn hs hn hBm
  refine ⟨X, hX, hXm, hXn, hXw, ?_⟩
  intro i j hi hj
  have hAm := matOf_svd n A (fun p l => E.U.data.getD (p + n * l) 0)
    (fun l q => E.Vt.data.getD (l + n * q) 0) (fun l => E.s.getD l 0) hA
  have hXmat := matOf_pinv n B.n (fun a c => X.data.getD (a + n * c) 0)
    (fun p l => E.U.data.getD (p + n * l) 0) (fun l q => E.Vt.data.getD (l + n * q) 0)
    (fun p c => B.data.getD (p + n * c) 0) (svdSinv E.s n) (fun a c ha hc => by
      have := getD_of_at? X a c _ (hXe a c ha hc)
      rw [hXm] at this
      exact this)
  have hUUt : matOf n n (fun p l => E.U.data.getD (p + n * l) 0) *
      Matrix.transpose (matOf n n (fun p l => E.U.data.getD (p + n * l) 0)) = 1 :=
    mul_eq_one_comm.mp (matOf_gram_left n _ hUU)
  have key := pinv_solve_matrix (matOf n n (fun p l => E.U.data.getD (p + n * l) 0))
    (matOf n n (fun l q => E.Vt.data.getD (l + n * q) 0)) (fun l : Fin n => E.s.getD l.1 0)
    (fun l : Fin n => svdSinv E.s n l.1) (matOf n B.n (fun p c => B.data.getD (p + n * c) 0))
    hUUt (matOf_gram_right n _ hVV)
    (fun l => svdSinv_mul_one E.s n l.1 (hfull l.1 l.2))
  rw [← hAm, ← hXmat] at key
  have key' := congrFun (congrFun key ⟨i, hi⟩) ⟨j, hj⟩
  simp only [Matrix.mul_apply, matOf_apply] at key'
  simp only [sum_range_fin' n]
  exact key'

/-! ### a concrete rank-deficient instance (non-vacuity)

`n = 2`, `U = Vt = I`, `s = (2, 0)`: `A = diag(2, 0)`.  The singular value `0` is cut off, `2` is
kept (`2⁻⁵²·|2|·2 < 2`).  With `B = (4, 6)ᵀ` the result is `X = A⁺B = (2, 0)ᵀ`. -/

/-- the engine after factoring `diag(2, 0)` -/
noncomputable def pinvExE : SvdEngine ℝ :=
  ⟨#[2, 0], ⟨2, 2, #[1, 0, 0, 1]⟩, ⟨2, 2, #[1, 0, 0, 1]⟩, false, 1, 1⟩

/-- the right-hand side `(4, 6)ᵀ` -/
noncomputable def pinvExB : Dense ℝ := ⟨2, 1, #[4, 6]⟩

/-- `diag(2, 0)` -/
noncomputable def pinvExA : Nat → Nat → ℝ := fun i j => if i = 0 ∧ j = 0 then 2 else 0

theorem pinvEx_two_cases {a : Nat} (ha : a < 2) : a = 0 ∨ a = 1 := by omega

theorem pinvEx_svd : ∀ i j, i < 2 → j < 2 → pinvExA i j =
    ∑ l ∈ range 2, pinvExE.U.data.getD (i + 2 * l) 0 * pinvExE.s.getD l 0 *
      pinvExE.Vt.data.getD (l + 2 * j) 0 := by
  intro i j hi hj
  rcases pinvEx_two_cases hi with rfl | rfl <;> rcases pinvEx_two_cases hj with rfl | rfl <;>
    simp [Finset.sum_range_succ, pinvExA, pinvExE]

theorem pinvEx_UU : ∀ a b, a < 2 → b < 2 →
    ∑ p ∈ range 2, pinvExE.U.data.getD (p + 2 * a) 0 * pinvExE.U.data.getD (p + 2 * b) 0
      = if a = b then 1 else 0 := by
  intro a b ha hb
  rcases pinvEx_two_cases ha with rfl | rfl <;> rcases pinvEx_two_cases hb with rfl | rfl <;>
    simp [Finset.sum_range_succ, pinvExE]

theorem pinvEx_VV : ∀ a b, a < 2 → b < 2 →
    ∑ q ∈ range 2, pinvExE.Vt.data.getD (a + 2 * q) 0 * pinvExE.Vt.data.getD (b + 2 * q) 0
      = if a = b then 1 else 0 := by
  intro a b ha hb
  rcases pinvEx_two_cases ha with rfl | rfl <;> rcases pinvEx_two_cases hb with rfl | rfl <;>
    simp [Finset.sum_range_succ, pinvExE]

theorem pinvEx_nonneg : ∀ l, l < 2 → 0 ≤ pinvExE.s.getD l 0 := by
  intro l hl
  rcases pinvEx_two_cases hl with rfl | rfl <;> simp [pinvExE]

/-- `2` is above the cutoff `2⁻⁵²·|2|·2` -/
theorem pinvEx_keep : (FloatLike.eps : ℝ) * |pinvExE.s.getD 0 0| * ((2 : Nat) : ℝ) < |pinvExE.s.getD 0 0| := by
  show (2⁻¹ : ℝ) ^ 52 * |(#[2, 0] : Array ℝ).getD 0 0| * ((2 : Nat) : ℝ) < |(#[2, 0] : Array ℝ).getD 0 0|
  norm_num

theorem pinvEx_cut : ∀ l, l < 2 → pinvExE.s.getD l 0 = 0 ∨
    (FloatLike.eps : ℝ) * |pinvExE.s.getD 0 0| * ((2 : Nat) : ℝ) < |pinvExE.s.getD l 0| := by
  intro l hl
  rcases pinvEx_two_cases hl with rfl | rfl
  · exact Or.inr pinvEx_keep
  · exact Or.inl (by simp [pinvExE])

/-- non-vacuity of `svdSolve_entry`, and the value: `X = (2, 0)ᵀ` (the singular value `0` is
replaced by `0`, not inverted) -/
example : ∃ X, svdSolve pinvExE pinvExB = .ok X ∧ at? X 0 0 = some 2 ∧ at? X 1 0 = some 0 := by
  obtain ⟨X, hX, _, _, _, he⟩ := svdSolve_entry pinvExE pinvExB 2 rfl rfl rfl rfl rfl rfl rfl rfl
    (by decide) rfl
  have hs0 : svdSinv pinvExE.s 2 0 = 1 / 2 := by
    unfold svdSinv svdTol
    rw [if_pos pinvEx_keep]
    simp [pinvExE]
  have hs1 : svdSinv pinvExE.s 2 1 = 0 := by
    unfold svdSinv
    have h0 : pinvExE.s.getD 1 0 = 0 := by simp [pinvExE]
    rw [h0, abs_zero, if_neg (not_lt.mpr (svdTol_nonneg _ _))]
  refine ⟨X, hX, ?_, ?_⟩
  · rw [he 0 0 (by decide) (by decide : 0 < pinvExB.n)]
    congr 1
    simp only [Finset.sum_range_succ, Finset.sum_range_zero, hs0, hs1]
    simp [pinvExE, pinvExB]
    norm_num
  · rw [he 1 0 (by decide) (by decide : 0 < pinvExB.n)]
    congr 1
    simp only [Finset.sum_range_succ, Finset.sum_range_zero, hs0, hs1]
    simp [pinvExE, pinvExB]

/-- non-vacuity of `svdSolve_normal_equations` (rank-deficient `A = diag(2, 0)`) -/
example : ∃ X, svdSolve pinvExE pinvExB = .ok X ∧ X.m = 2 ∧ X.n = pinvExB.n ∧ WF X ∧
    ∀ i j, i < 2 → j < pinvExB.n →
      ∑ a ∈ range 2, (∑ p ∈ range 2, pinvExA p i * pinvExA p a) * X.data.getD (a + 2 * j) 0
        = ∑ p ∈ range 2, pinvExA p i * pinvExB.data.getD (p + 2 * j) 0 :=
  svdSolve_normal_equations pinvExE pinvExB 2 pinvExA rfl rfl rfl rfl rfl rfl rfl rfl (by decide) rfl
    pinvEx_svd pinvEx_UU pinvEx_VV pinvEx_nonneg pinvEx_cut

/-- a full-rank engine: `U = Vt = I`, `s = (2, 1)`, `A = diag(2, 1)` -/
noncomputable def pinvExE' : SvdEngine ℝ :=
  ⟨#[2, 1], ⟨2, 2, #[1, 0, 0, 1]⟩, ⟨2, 2, #[1, 0, 0, 1]⟩, false, 1, 1⟩

/-- `diag(2, 1)` -/
noncomputable def pinvExA' : Nat → Nat → ℝ :=
  fun i j => if i = 0 ∧ j = 0 then 2 else if i = 1 ∧ j = 1 then 1 else 0

theorem pinvEx_svd' : ∀ i j, i < 2 → j < 2 → pinvExA' i j =
    ∑ l ∈ range 2, pinvExE'.U.data.getD (i + 2 * l) 0 * pinvExE'.s.getD l 0 *
      pinvExE'.Vt.data.getD (l + 2 * j) 0 := by
  intro i j hi hj
  rcases pinvEx_two_cases hi with rfl | rfl <;> rcases pinvEx_two_cases hj with rfl | rfl <;>
    simp [Finset.sum_range_succ, pinvExA', pinvExE']

theorem pinvEx_full' : ∀ l, l < 2 →
    (FloatLike.eps : ℝ) * |pinvExE'.s.getD 0 0| * ((2 : Nat) : ℝ) < pinvExE'.s.getD l 0 := by
  intro l hl
  rcases pinvEx_two_cases hl with rfl | rfl
  · show (2⁻¹ : ℝ) ^ 52 * |(#[2, 1] : Array ℝ).getD 0 0| * ((2 : Nat) : ℝ) < (#[2, 1] : Array ℝ).getD 0 0
    norm_num
  · show (2⁻¹ : ℝ) ^ 52 * |(#[2, 1] : Array ℝ).getD 0 0| * ((2 : Nat) : ℝ) < (#[2, 1] : Array ℝ).getD 1 0
    norm_num

/-- non-vacuity of `svdSolve_full_rank` -/
example : ∃ X, svdSolve pinvExE' pinvExB = .ok X ∧ X.m = 2 ∧ X.n = pinvExB.n ∧ WF X ∧
    ∀ i j, i < 2 → j < pinvExB.n →
      ∑ a ∈ range 2, pinvExA' i a * X.data.getD (a + 2 * j) 0 = pinvExB.data.getD (i + 2 * j) 0 :=
  svdSolve_full_rank pinvExE' pinvExB 2 pinvExA' rfl rfl rfl rfl rfl rfl rfl rfl (by decide) rfl
    pinvEx_svd' pinvEx_UU pinvEx_VV pinvEx_full'

end Clarabel.Dense
