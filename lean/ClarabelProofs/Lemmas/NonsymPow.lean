/-
  Power cone (C14): partial derivatives of the model's dual barrier / gradient entries.
-/
import ClarabelModel.Cones.Pow
import ClarabelProofs.Lemmas.NonsymCalc

namespace Clarabel.Pow
open Clarabel Nonsym

/-- interior of the dual power cone in the coordinates of the model:
`z₀, z₁ > 0`, `ψ = (z₀/a)^{2a}(z₁/(1-a))^{2-2a} - z₂² > 0`. -/
structure DualInt (a z0 z1 z2 : ℝ) : Prop where
  ha0 : 0 < a
  ha1 : a < 1
  h0 : 0 < z0
  h1 : 0 < z1
  hψ : 0 < psiDual a z0 z1 z2

theorem phiDual_pos {a z0 z1 : ℝ} (ha0 : 0 < a) (ha1 : a < 1) (h0 : 0 < z0) (h1 : 0 < z1) :
    0 < phiDual a z0 z1 := by
  unfold phiDual
  simp only [real_powf_eq]
  exact mul_pos (Real.rpow_pos_of_pos (div_pos h0 ha0) _)
    (Real.rpow_pos_of_pos (div_pos h1 (by linarith)) _)

theorem phi_d0 {a z0 : ℝ} (z1 : ℝ) (ha0 : 0 < a) (h0 : 0 < z0) :
    HasDerivAt (fun t => phiDual a t z1) (2 * a * phiDual a z0 z1 / z0) z0 := by
  unfold phiDual
  simp only [real_powf_eq]
  have hb : z0 / a ≠ 0 := ne_of_gt (div_pos h0 ha0)
  have h1' : HasDerivAt (fun t : ℝ => t / a) (1 / a) z0 := (hasDerivAt_id z0).div_const a
  have h2 := (h1'.rpow_const (p := 2 * a) (Or.inl hb)).mul_const ((z1 / (1 - a)) ^ (2 - 2 * a))
  refine h2.congr_deriv ?_
  rw [Real.rpow_sub_one hb]
  have : a ≠ 0 := ne_of_gt ha0
  have : z0 ≠ 0 := ne_of_gt h0
  field_simp

theorem phi_d1 {a z1 : ℝ} (z0 : ℝ) (ha1 : a < 1) (h1 : 0 < z1) :
    HasDerivAt (fun t => phiDual a z0 t) (2 * (1 - a) * phiDual a z0 z1 / z1) z1 := by
  unfold phiDual
  simp only [real_powf_eq]
  have h1a : 0 < 1 - a := by linarith
  have hb : z1 / (1 - a) ≠ 0 := ne_of_gt (div_pos h1 h1a)
  have h1' : HasDerivAt (fun t : ℝ => t / (1 - a)) (1 / (1 - a)) z1 := (hasDerivAt_id z1).div_const (1 - a)
  have h2 := (h1'.rpow_const (p := 2 - 2 * a) (Or.inl hb)).const_mul ((z0 / a) ^ (2 * a))
  refine h2.congr_deriv ?_
  rw [Real.rpow_sub_one hb]
  have : 1 - a ≠ 0 := ne_of_gt h1a
  have : z1 ≠ 0 := ne_of_gt h1
  field_simp

theorem psi_d0 {a z0 : ℝ} (z1 z2 : ℝ) (ha0 : 0 < a) (h0 : 0 < z0) :
    HasDerivAt (fun t => psiDual a t z1 z2) (2 * a * phiDual a z0 z1 / z0) z0 :=
  (phi_d0 z1 ha0 h0).sub_const (z2 * z2)

theorem psi_d1 {a z1 : ℝ} (z0 z2 : ℝ) (ha1 : a < 1) (h1 : 0 < z1) :
    HasDerivAt (fun t => psiDual a z0 t z2) (2 * (1 - a) * phiDual a z0 z1 / z1) z1 :=
  (phi_d1 z0 ha1 h1).sub_const (z2 * z2)

theorem psi_d2 (a z0 z1 z2 : ℝ) : HasDerivAt (fun t => psiDual a z0 z1 t) (-(2 * z2)) z2 := by
  have h := ((hasDerivAt_id z2).mul (hasDerivAt_id z2)).const_sub (phiDual a z0 z1)
  refine h.congr_deriv ?_
  simp only [id_eq]; ring

/-! ### the barrier along each coordinate -/

section
variable {a z0 z1 z2 : ℝ} (h : DualInt a z0 z1 z2)
include h

theorem barrier_d0 : HasDerivAt (fun t => barrierDual a t z1 z2) (grad0 a z0 z1 z2) z0 := by
  obtain ⟨ha0, ha1, h0, h1, hψ⟩ := h
  unfold barrierDual
  have hd := ((((psi_d0 z1 z2 ha0 h0).logsafe hψ).neg).sub
    (((hasDerivAt_id z0).logsafe h0).const_mul (1 - a))).sub_const (a * logsafe z1)
  refine hd.congr_deriv ?_
  unfold grad0
  have : z0 ≠ 0 := ne_of_gt h0
  have : psiDual a z0 z1 z2 ≠ 0 := ne_of_gt hψ
  simp only [id_eq]
  field_simp

theorem barrier_d1 : HasDerivAt (fun t => barrierDual a z0 t z2) (grad1 a z0 z1 z2) z1 := by
  obtain ⟨ha0, ha1, h0, h1, hψ⟩ := h
  unfold barrierDual
  have hd := ((((psi_d1 z0 z2 ha1 h1).logsafe hψ).neg).sub_const ((1 - a) * logsafe z0)).sub
    (((hasDerivAt_id z1).logsafe h1).const_mul a)
  refine hd.congr_deriv ?_
  unfold grad1
  have : z1 ≠ 0 := ne_of_gt h1
  have : psiDual a z0 z1 z2 ≠ 0 := ne_of_gt hψ
  simp only [id_eq]
  field_simp

theorem barrier_d2 : HasDerivAt (fun t => barrierDual a z0 z1 t) (grad2 a z0 z1 z2) z2 := by
  obtain ⟨ha0, ha1, h0, h1, hψ⟩ := h
  unfold barrierDual
  have hd := ((((psi_d2 a z0 z1 z2).logsafe hψ).neg).sub_const ((1 - a) * logsafe z0)).sub_const
    (a * logsafe z1)
  refine hd.congr_deriv ?_
  unfold grad2
  have : psiDual a z0 z1 z2 ≠ 0 := ne_of_gt hψ
  field_simp

end

/-! ### the gradient entries along each coordinate (rows of the Hessian) -/

section
variable {a z0 z1 z2 : ℝ} (h : DualInt a z0 z1 z2)
include h

local macro "pow_finish" : tactic => `(tactic| (
  simp only [h00, h01, h11, h02, h12, h22, gpsi0, gpsi1, gpsi2, psiDual, id_eq, Pi.inv_apply,
    Pi.mul_apply, Pi.div_apply] at *
  generalize phiDual a z0 z1 = φ at *
  field_simp
  ring))

theorem grad0_d0 : HasDerivAt (fun t => grad0 a t z1 z2) (h00 a z0 z1 z2) z0 := by
  obtain ⟨ha0, ha1, h0, h1, hψ⟩ := h
  have n0 : z0 ≠ 0 := ne_of_gt h0
  have nψ : psiDual a z0 z1 z2 ≠ 0 := ne_of_gt hψ
  have nd : z0 * psiDual a z0 z1 z2 ≠ 0 := mul_ne_zero n0 nψ
  unfold grad0
  have hd := (((phi_d0 z1 ha0 h0).const_mul ((-2) * a)).div
      ((hasDerivAt_id z0).mul (psi_d0 z1 z2 ha0 h0)) nd).sub
    ((hasDerivAt_const z0 (1 - a)).div (hasDerivAt_id z0) n0)
  refine hd.congr_deriv ?_
  pow_finish

theorem grad0_d1 : HasDerivAt (fun t => grad0 a z0 t z2) (h01 a z0 z1 z2) z1 := by
  obtain ⟨ha0, ha1, h0, h1, hψ⟩ := h
  have n0 : z0 ≠ 0 := ne_of_gt h0
  have n1 : z1 ≠ 0 := ne_of_gt h1
  have nψ : psiDual a z0 z1 z2 ≠ 0 := ne_of_gt hψ
  have nd : z0 * psiDual a z0 z1 z2 ≠ 0 := mul_ne_zero n0 nψ
  unfold grad0
  have hd := (((phi_d1 z0 ha1 h1).const_mul ((-2) * a)).div
      ((psi_d1 z0 z2 ha1 h1).const_mul z0) nd).sub_const ((1 - a) / z0)
  refine hd.congr_deriv ?_
  pow_finish

theorem grad0_d2 : HasDerivAt (fun t => grad0 a z0 z1 t) (h02 a z0 z1 z2) z2 := by
  obtain ⟨ha0, ha1, h0, h1, hψ⟩ := h
  have n0 : z0 ≠ 0 := ne_of_gt h0
  have nψ : psiDual a z0 z1 z2 ≠ 0 := ne_of_gt hψ
  have nd : z0 * psiDual a z0 z1 z2 ≠ 0 := mul_ne_zero n0 nψ
  unfold grad0
  have hd := ((hasDerivAt_const z2 ((-2) * a * phiDual a z0 z1)).div
      ((psi_d2 a z0 z1 z2).const_mul z0) nd).sub_const ((1 - a) / z0)
  refine hd.congr_deriv ?_
  pow_finish

theorem grad1_d0 : HasDerivAt (fun t => grad1 a t z1 z2) (h01 a z0 z1 z2) z0 := by
  obtain ⟨ha0, ha1, h0, h1, hψ⟩ := h
  have n0 : z0 ≠ 0 := ne_of_gt h0
  have n1 : z1 ≠ 0 := ne_of_gt h1
  have nψ : psiDual a z0 z1 z2 ≠ 0 := ne_of_gt hψ
  have nd : z1 * psiDual a z0 z1 z2 ≠ 0 := mul_ne_zero n1 nψ
  unfold grad1
  have hd := (((phi_d0 z1 ha0 h0).const_mul ((-2) * (1 - a))).div
      ((psi_d0 z1 z2 ha0 h0).const_mul z1) nd).sub_const (a / z1)
  refine hd.congr_deriv ?_
  pow_finish

theorem grad1_d1 : HasDerivAt (fun t => grad1 a z0 t z2) (h11 a z0 z1 z2) z1 := by
  obtain ⟨ha0, ha1, h0, h1, hψ⟩ := h
  have n1 : z1 ≠ 0 := ne_of_gt h1
  have nψ : psiDual a z0 z1 z2 ≠ 0 := ne_of_gt hψ
  have nd : z1 * psiDual a z0 z1 z2 ≠ 0 := mul_ne_zero n1 nψ
  unfold grad1
  have hd := (((phi_d1 z0 ha1 h1).const_mul ((-2) * (1 - a))).div
      ((hasDerivAt_id z1).mul (psi_d1 z0 z2 ha1 h1)) nd).sub
    ((hasDerivAt_const z1 a).div (hasDerivAt_id z1) n1)
  refine hd.congr_deriv ?_
  pow_finish

theorem grad1_d2 : HasDerivAt (fun t => grad1 a z0 z1 t) (h12 a z0 z1 z2) z2 := by
  obtain ⟨ha0, ha1, h0, h1, hψ⟩ := h
  have n1 : z1 ≠ 0 := ne_of_gt h1
  have nψ : psiDual a z0 z1 z2 ≠ 0 := ne_of_gt hψ
  have nd : z1 * psiDual a z0 z1 z2 ≠ 0 := mul_ne_zero n1 nψ
  unfold grad1
  have hd := ((hasDerivAt_const z2 ((-2) * (1 - a) * phiDual a z0 z1)).div
      ((psi_d2 a z0 z1 z2).const_mul z1) nd).sub_const (a / z1)
  refine hd.congr_deriv ?_
  pow_finish

theorem grad2_d0 : HasDerivAt (fun t => grad2 a t z1 z2) (h02 a z0 z1 z2) z0 := by
  obtain ⟨ha0, ha1, h0, h1, hψ⟩ := h
  have n0 : z0 ≠ 0 := ne_of_gt h0
  have nψ : psiDual a z0 z1 z2 ≠ 0 := ne_of_gt hψ
  unfold grad2
  have hd := (hasDerivAt_const z0 (2 * z2)).div (psi_d0 z1 z2 ha0 h0) nψ
  refine hd.congr_deriv ?_
  pow_finish

theorem grad2_d1 : HasDerivAt (fun t => grad2 a z0 t z2) (h12 a z0 z1 z2) z1 := by
  obtain ⟨ha0, ha1, h0, h1, hψ⟩ := h
  have n1 : z1 ≠ 0 := ne_of_gt h1
  have nψ : psiDual a z0 z1 z2 ≠ 0 := ne_of_gt hψ
  unfold grad2
  have hd := (hasDerivAt_const z1 (2 * z2)).div (psi_d1 z0 z2 ha1 h1) nψ
  refine hd.congr_deriv ?_
  pow_finish

theorem grad2_d2 : HasDerivAt (fun t => grad2 a z0 z1 t) (h22 a z0 z1 z2) z2 := by
  obtain ⟨ha0, ha1, h0, h1, hψ⟩ := h
  have nψ : psiDual a z0 z1 z2 ≠ 0 := ne_of_gt hψ
  unfold grad2
  have hd := ((hasDerivAt_id z2).const_mul 2).div (psi_d2 a z0 z1 z2) nψ
  refine hd.congr_deriv ?_
  pow_finish

end

/-! ### products of powers -/

theorem exp_two_geo {x y : ℝ} (hx : 0 < x) (hy : 0 < y) (a : ℝ) :
    Real.exp (2 * a * Real.log x + 2 * (1 - a) * Real.log y) = (x ^ a * y ^ (1 - a)) ^ 2 := by
  rw [Real.rpow_def_of_pos hx, Real.rpow_def_of_pos hy, ← Real.exp_add, sq, ← Real.exp_add]
  congr 1; ring

theorem rpow_two_mul {x : ℝ} (hx : 0 < x) (a : ℝ) : x ^ (2 * a) = (x ^ a) ^ 2 := by
  rw [mul_comm, Real.rpow_mul hx.le, Real.rpow_two]

theorem phiDual_eq_sq {a z0 z1 : ℝ} (ha0 : 0 < a) (ha1 : a < 1) (h0 : 0 < z0) (h1 : 0 < z1) :
    phiDual a z0 z1 = ((z0 / a) ^ a * (z1 / (1 - a)) ^ (1 - a)) ^ 2 := by
  unfold phiDual
  simp only [real_powf_eq]
  have e : (2 : ℝ) - 2 * a = 2 * (1 - a) := by ring
  rw [e, rpow_two_mul (div_pos h0 ha0), rpow_two_mul (div_pos h1 (by linarith)), mul_pow]

end Clarabel.Pow
