/-
  A concrete instance satisfying the hypotheses of the compact-transformation theorems
  (non-vacuity): the 3×3 PSD cone with aggregate pattern `0 — 1 — 2` (cliques `{0,1}`, `{1,2}`),
  one variable whose column has the diagonal entries, `b` with one non-zero.
-/
import ClarabelProofs.Lemmas.ChordalCompactUnique

namespace Clarabel.Chordal

def exCi : ChordalInfo := { initDims := (1, 6), initCones := #[.psd 3], spatterns := #[exPattern] }
def exA : Csc Int := { m := 6, n := 1, colptr := #[0, 3], rowval := #[0, 2, 5], nzval := #[1, 2, 3] }
def exb : Array Int := #[0, 0, 7, 0, 0, 0]

theorem exCi_patAt : exCi.patAt 0 = some exPattern := by
  rfl

theorem exb_bInd : bIndOf exb = #[2] := by
  rfl

theorem exCi_valid : ValidInfo exCi where
  pat := by
    intro c hc p hp
    have : c = 0 := by
      have : c < 1 := hc
      omega
    subst this
    rw [exCi_patAt] at hp
    cases hp
    exact ⟨exPattern_valid, rfl⟩

theorem exA_wf : CscWF exA where
  cp_size := rfl
  cp_zero := rfl
  cp_mono := by
    intro c hc
    have : c = 0 := by
      have : c < 1 := hc
      omega
    subst this; decide
  nnz_le := by decide
  sorted := by
    intro c hc
    have : c = 0 := by
      have : c < 1 := hc
      omega
    subst this
    intro x y _ hxy hy
    have hy' : y < 3 := hy
    have : (x = 0 ∧ y = 1) ∨ (x = 0 ∧ y = 2) ∨ (x = 1 ∧ y = 2) := by omega
    rcases this with ⟨rfl, rfl⟩ | ⟨rfl, rfl⟩ | ⟨rfl, rfl⟩ <;> decide

private theorem ex_rs : exCi.rs 0 = 0 := rfl
private theorem ex_nv : exCi.nv 0 = 6 := rfl

private theorem ex_mem (i a : Nat) (hi : i < 2) (h : a ∈ exPattern.sntree.cliqueAt i) :
    a ∈ exPattern.cliqueO i := by
  unfold SPattern.cliqueO
  rw [exPattern.mem_sortO]
  refine ⟨a, h, ?_⟩
  have : a < 3 := exTreeV_valid.clique_lt i hi a h
  have : a = 0 ∨ a = 1 ∨ a = 2 := by omega
  rcases this with rfl | rfl | rfl <;> rfl

private theorem ex_coord0 : upperTriangularIndexToCoord 0 = (0, 0) := rfl
private theorem ex_coord2 : upperTriangularIndexToCoord 2 = (1, 1) :=
  index_to_coord_of_column (c := 1) (by decide) (by decide)
private theorem ex_coord5 : upperTriangularIndexToCoord 5 = (2, 2) :=
  index_to_coord_of_column (c := 2) (by decide) (by decide)

theorem exHyp : CompactHyp exCi exA (bIndOf exb) where
  valid := exCi_valid
  wf := exA_wf
  ncols := by decide
  bsorted := bIndOf_strict exb
  rowsA := by
    intro slot hs
    have hs' : slot < 3 := hs
    refine ⟨0, by decide, ?_, ?_⟩
    · rw [ex_rs]; exact Nat.zero_le _
    · rw [ex_rs, ex_nv]
      have : slot = 0 ∨ slot = 1 ∨ slot = 2 := by omega
      rcases this with rfl | rfl | rfl <;> decide
  rowsB := by
    intro slot hs
    rw [exb_bInd] at hs ⊢
    have : slot = 0 := by
      have : slot < 1 := hs
      omega
    subst this
    exact ⟨0, by decide, by rw [ex_rs]; exact Nat.zero_le _, by rw [ex_rs, ex_nv]; decide⟩
  covA := by
    intro slot hs c hc p hp _ _
    have hs' : slot < 3 := hs
    have : c = 0 := by
      have : c < 1 := hc
      omega
    subst this
    rw [exCi_patAt] at hp
    cases hp
    rw [ex_rs]
    have : slot = 0 ∨ slot = 1 ∨ slot = 2 := by omega
    rcases this with rfl | rfl | rfl
    · refine ⟨0, by decide, ?_, ?_⟩
      · show (upperTriangularIndexToCoord 0).1 ∈ _
        rw [ex_coord0]; exact ex_mem 0 0 (by decide) (by decide)
      · show (upperTriangularIndexToCoord 0).2 ∈ _
        rw [ex_coord0]; exact ex_mem 0 0 (by decide) (by decide)
    · refine ⟨0, by decide, ?_, ?_⟩
      · show (upperTriangularIndexToCoord 2).1 ∈ _
        rw [ex_coord2]; exact ex_mem 0 1 (by decide) (by decide)
      · show (upperTriangularIndexToCoord 2).2 ∈ _
        rw [ex_coord2]; exact ex_mem 0 1 (by decide) (by decide)
    · refine ⟨1, by decide, ?_, ?_⟩
      · show (upperTriangularIndexToCoord 5).1 ∈ _
        rw [ex_coord5]; exact ex_mem 1 2 (by decide) (by decide)
      · show (upperTriangularIndexToCoord 5).2 ∈ _
        rw [ex_coord5]; exact ex_mem 1 2 (by decide) (by decide)
  covB := by
    intro slot hs c hc p hp _ _
    rw [exb_bInd] at hs ⊢
    have : slot = 0 := by
      have : slot < 1 := hs
      omega
    subst this
    have : c = 0 := by
      have : c < 1 := hc
      omega
    subst this
    rw [exCi_patAt] at hp
    cases hp
    rw [ex_rs]
    refine ⟨0, by decide, ?_, ?_⟩
    · show (upperTriangularIndexToCoord 2).1 ∈ _
      rw [ex_coord2]; exact ex_mem 0 1 (by decide) (by decide)
    · show (upperTriangularIndexToCoord 2).2 ∈ _
      rw [ex_coord2]; exact ex_mem 0 1 (by decide) (by decide)

theorem ex_hnz : exA.colptr.getD exA.n 0 ≤ exA.nzval.size := by decide
theorem ex_hpos : exA.colptr.getD exA.n 0 + 2 * exCi.ovBefore exCi.initCones.size ≠ 0 := by
  have : exA.colptr.getD exA.n 0 = 3 := rfl
  omega

end Clarabel.Chordal
