/-
  Exponential cone (C14): conjugacy of `gradient_primal` given an exact Wright-omega value.
-/
import ClarabelProofs.Lemmas.NonsymExp

namespace Clarabel.Exp
open Clarabel Nonsym

/-- the facts about `z = -g(s)` from which conjugacy follows -/
theorem conj_core {s0 s1 s2 w : ℝ} (h1 : 0 < s1) (h2 : 0 < s2) (hw : 1 < w)
    (heq : w + Real.log w = omegaArg s0 s1 s2) :
    let g := gradientPrimalOf w s0 s1 s2
    dualL (-g.1) (-g.2.2) = Real.log (w * s1 / s2) ∧ dualR (-g.1) (-g.2.1) (-g.2.2) = 1 / s1 ∧
    -g.1 < 0 ∧ 0 < -g.2.2 ∧ s0 = -(s1 * (Real.log (w * s1 / s2) + w - 1)) := by
  have hw0 : 0 < w := by linarith
  have hw1 : w - 1 ≠ 0 := by linarith
  have hw1' : 1 - w ≠ 0 := by linarith
  have n1 : s1 ≠ 0 := ne_of_gt h1
  have n2 : s2 ≠ 0 := ne_of_gt h2
  have hpos : 0 < w * s1 / s2 := div_pos (mul_pos hw0 h1) h2
  simp only [gradientPrimalOf]
  rw [logsafe_of_pos hpos]
  have hL : dualL (-(1 / ((w - 1) * s1))) (-(w / ((1 - w) * s2))) = Real.log (w * s1 / s2) := by
    unfold dualL
    have : -(-(w / ((1 - w) * s2))) / -(1 / ((w - 1) * s1)) = w * s1 / s2 := by
      field_simp
      ring
    rw [this, logsafe_of_pos hpos]
  refine ⟨hL, ?_, ?_, ?_, ?_⟩
  · unfold dualR
    rw [hL]
    field_simp
    ring
  · have : 0 < 1 / ((w - 1) * s1) := by
      apply div_pos one_pos (mul_pos (by linarith) h1)
    linarith
  · have : w / ((1 - w) * s2) < 0 := by
      apply div_neg_of_pos_of_neg hw0
      exact mul_neg_of_neg_of_pos (by linarith) h2
    linarith
  · unfold omegaArg at heq
    rw [logsafe_of_pos (div_pos h1 h2)] at heq
    have e : Real.log (w * s1 / s2) = Real.log w + Real.log (s1 / s2) := by
      rw [mul_div_assoc, Real.log_mul (ne_of_gt hw0) (ne_of_gt (div_pos h1 h2))]
    rw [e]
    have : s0 / s1 = 1 - Real.log (s1 / s2) - w - Real.log w := by linarith
    field_simp at this
    linarith

/-- `ω + log ω > 1` forces `ω > 1` -/
theorem one_lt_of_omega {w c : ℝ} (hw0 : 0 < w) (hc : 1 < c) (heq : w + Real.log w = c) : 1 < w := by
  by_contra hle
  rw [not_lt] at hle
  have : Real.log w ≤ 0 := Real.log_nonpos hw0.le hle
  linarith

/-- conjugacy at an exact Wright-omega value: `z = -g(s)` is an interior point of the dual
cone (in the model's coordinates) and `∇f*(z) = -s`. -/
theorem conj_main {s0 s1 s2 w : ℝ} (h1 : 0 < s1) (h2 : 0 < s2) (hw : 1 < w)
    (heq : w + Real.log w = omegaArg s0 s1 s2) :
    let g := gradientPrimalOf w s0 s1 s2
    DualInt (-g.1) (-g.2.1) (-g.2.2) ∧ gradDual (-g.1, -g.2.1, -g.2.2) = (-s0, -s1, -s2) := by
  obtain ⟨hL, hR, hz0, hz2, hs0⟩ := conj_core h1 h2 hw heq
  simp only at hL hR hz0 hz2 hs0 ⊢
  refine ⟨⟨hz0, hz2, by rw [hR]; positivity⟩, ?_⟩
  simp only [gradDual, grad0, grad1, grad2, recip, Prod.mk.injEq]
  rw [hL, hR]
  have n1 : s1 ≠ 0 := ne_of_gt h1
  have n2 : s2 ≠ 0 := ne_of_gt h2
  have hw1 : w - 1 ≠ 0 := by linarith
  have hw1' : 1 - w ≠ 0 := by linarith
  have hw0 : w ≠ 0 := by linarith
  simp only [gradientPrimalOf]
  refine ⟨?_, ?_, ?_⟩
  · rw [hs0]; field_simp; ring
  · field_simp
  · field_simp; ring

end Clarabel.Exp
