/-
  C12: a (re)factorisation does not depend on the previous contents of the `L / D / Dinv` buffers
  (every scalar type, in particular `Float`: bit-identical results).

  Two runs of `_factor_inner` on the same matrix, elimination tree and settings but different
  incoming `Li, Lx, D, Dinv` proceed in lock-step: all fields other than `Li, Lx, Dinv` are equal,
  `Li, Lx` agree on every slot written so far and `Dinv` on every pivot computed so far; the
  algorithm only ever reads those.  At the end every slot has been written.
-/
import ClarabelProofs.Lemmas.QdldlFactor

namespace Clarabel.Qdldl

variable {α : Type} [Add α] [Sub α] [Mul α] [Div α] [Neg α] [OfNat α 0] [OfNat α 1] [LT α]
  [DecidableLT α] [BEq α] [FloatLike α]
variable {n : Nat} {Ap Ai : Array Nat} {etree : Array (Option Nat)} {Lnz : Array Nat}

/-- replace the three buffers -/
def swapBuf (s : FState α) (Li : Array Nat) (Lx Dinv : Array α) : FState α :=
  { s with Li := Li, Lx := Lx, Dinv := Dinv }

/-- the first loop neither reads nor writes `Li, Lx, Dinv` -/
theorem rowPattern_swap (n : Nat) (Ai : Array Nat) (Ax : Array α) (etree : Array (Option Nat)) (k : Nat)
    (s : FState α) (y : List Nat) (i : Nat) (Li' : Array Nat) (Lx' Dinv' : Array α) :
    rowPattern n Ai Ax etree k (swapBuf s Li' Lx' Dinv', y) i =
      (rowPattern n Ai Ax etree k (s, y) i).map (fun p => (swapBuf p.1 Li' Lx' Dinv', p.2)) := by
  unfold rowPattern swapBuf
  simp only [bind, Except.bind, Except.map, pure, Except.pure]
  cases getE Ai i "_factor_inner: Ai[i]" with
  | error e => rfl
  | ok bidx =>
    cases getE Ax i "_factor_inner: Ax[i]" with
    | error e => rfl
    | ok axi =>
      simp only
      split
      · cases setE s.D k axi "_factor_inner: D[k]" <;> rfl
      · cases setE s.yVals bidx axi "_factor_inner: y_vals[bidx]" with
        | error e => rfl
        | ok yv =>
          cases getE s.yMarkers bidx "_factor_inner: y_markers[bidx]" with
          | error e => rfl
          | ok used =>
            simp only
            split
            · rfl
            · cases setE s.yMarkers bidx true "_factor_inner: y_markers[bidx]" with
              | error e => rfl
              | ok mk =>
                cases getE etree bidx "_factor_inner: etree[bidx]" with
                | error e => rfl
                | ok nxt =>
                  simp only
                  cases elimPath etree k (n + 1) nxt mk [bidx] with
                  | error e => rfl
                  | ok r =>
                    simp only
                    split <;> rfl

theorem foldlM_map_comm {σ β : Type} (f : σ → β → MErr σ) (φ : σ → σ)
    (h : ∀ s x, f (φ s) x = (f s x).map φ) (l : List β) (s : σ) :
    l.foldlM f (φ s) = (l.foldlM f s).map φ := by
  induction l generalizing s with
  | nil => rfl
  | cons x t ih =>
    rw [List.foldlM_cons, List.foldlM_cons, h]
    cases f s x with
    | error e => rfl
    | ok s1 => exact ih s1

theorem colSubP_congr (Li Li' : Array Nat) (Lx Lx' : Array α) (yc : α) (js : List Nat) (yv : Array α)
    (h : ∀ j ∈ js, Li'.getD j 0 = Li.getD j 0 ∧ Lx'.getD j 0 = Lx.getD j 0) :
    colSubP Li' Lx' yc js yv = colSubP Li Lx yc js yv := by
  unfold colSubP
  induction js generalizing yv with
  | nil => rfl
  | cons j t ih =>
    rw [List.foldl_cons, List.foldl_cons, (h j (by simp)).1, (h j (by simp)).2]
    exact ih _ (fun j' hj' => h j' (List.mem_cons_of_mem _ hj'))

/-- the two runs agree on everything the algorithm can still read -/
structure BufRel (Lnz : Array Nat) (n k : Nat) (s s' : FState α) : Prop where
  same : s' = swapBuf s s'.Li s'.Lx s'.Dinv
  lisz : s'.Li.size = s.Li.size
  lxsz : s'.Lx.size = s.Lx.size
  disz : s'.Dinv.size = s.Dinv.size
  live : ∀ c, c < n → ∀ p, LpOf Lnz c ≤ p → p < s.nextColspace.getD c 0 →
    s'.Li.getD p 0 = s.Li.getD p 0 ∧ s'.Lx.getD p 0 = s.Lx.getD p 0
  dinv : ∀ c, c < k → s'.Dinv.getD c 0 = s.Dinv.getD c 0

/-- one step of the second loop preserves the relation -/
theorem rowElimP_rel (k c : Nat) (hck : c < k) (hcn : c < n) (t t' : FState α)
    (hlp : t.Lp.getD c 0 = LpOf Lnz c) (ht1 : t.nextColspace.getD c 0 < t.Li.size)
    (ht2 : t.nextColspace.getD c 0 < t.Lx.size) (hR : BufRel Lnz n k t t') :
    BufRel Lnz n k (rowElimP k t c) (rowElimP k t' c) := by
  have hs := hR.same
  have eLp : t'.Lp = t.Lp := by rw [hs]; rfl
  have eD : t'.D = t.D := by rw [hs]; rfl
  have eM : t'.yMarkers = t.yMarkers := by rw [hs]; rfl
  have eN : t'.nextColspace = t.nextColspace := by rw [hs]; rfl
  have eY : t'.yVals = t.yVals := by rw [hs]; rfl
  have eR : t'.regularizeCount = t.regularizeCount := by rw [hs]; rfl
  have eP : t'.positive = t.positive := by rw [hs]; rfl
  have eDi : t'.Dinv.getD c 0 = t.Dinv.getD c 0 := hR.dinv c hck
  have hsub : colSubP t'.Li t'.Lx (t.yVals.getD c 0)
      (List.range' (t.Lp.getD c 0) (t.nextColspace.getD c 0 - t.Lp.getD c 0)) t.yVals =
      colSubP t.Li t.Lx (t.yVals.getD c 0)
      (List.range' (t.Lp.getD c 0) (t.nextColspace.getD c 0 - t.Lp.getD c 0)) t.yVals := by
    apply colSubP_congr
    intro j hj
    rw [List.mem_range'_1, hlp] at hj
    exact hR.live c hcn j hj.1 (by omega)
  refine ⟨?_, ?_, ?_, hR.disz, ?_, hR.dinv⟩
  · unfold rowElimP swapBuf
    simp only [eLp, eD, eM, eN, eY, eR, eP, eDi, hsub]
  · show (t'.Li.setIfInBounds _ _).size = (t.Li.setIfInBounds _ _).size
    simp [hR.lisz]
  · show (t'.Lx.setIfInBounds _ _).size = (t.Lx.setIfInBounds _ _).size
    simp [hR.lxsz]
  · intro c' hc' p hp1 hp2
    change p < (t.nextColspace.setIfInBounds c (t.nextColspace.getD c 0 + 1)).getD c' 0 at hp2
    show (t'.Li.setIfInBounds (t'.nextColspace.getD c 0) k).getD p 0 =
        (t.Li.setIfInBounds (t.nextColspace.getD c 0) k).getD p 0 ∧
      (t'.Lx.setIfInBounds (t'.nextColspace.getD c 0) (t'.yVals.getD c 0 * t'.Dinv.getD c 0)).getD p 0 =
        (t.Lx.setIfInBounds (t.nextColspace.getD c 0) (t.yVals.getD c 0 * t.Dinv.getD c 0)).getD p 0
    rw [eN, eY, eDi, getD_setIfInBounds, getD_setIfInBounds, getD_setIfInBounds, getD_setIfInBounds,
      hR.lisz, hR.lxsz]
    by_cases hpt : p = t.nextColspace.getD c 0
    · rw [if_pos ⟨hpt, ht1⟩, if_pos ⟨hpt, ht1⟩, if_pos ⟨hpt, ht2⟩, if_pos ⟨hpt, ht2⟩]
      exact ⟨rfl, rfl⟩
    · rw [if_neg (fun h => hpt h.1), if_neg (fun h => hpt h.1), if_neg (fun h => hpt h.1), if_neg (fun h => hpt h.1)]
      rw [getD_setIfInBounds] at hp2
      by_cases hcc : c' = c
      · subst hcc
        by_cases hsz : c' < t.nextColspace.size
        · rw [if_pos ⟨rfl, hsz⟩] at hp2
          exact hR.live c' hc' p hp1 (by omega)
        · rw [if_neg (fun h => hsz h.2)] at hp2
          exact hR.live c' hc' p hp1 hp2
      · rw [if_neg (fun h => hcc h.1)] at hp2
        exact hR.live c' hc' p hp1 hp2

theorem foldl_rel {β σ : Type} (g : σ → β → σ) (Q : List β → σ → σ → Prop) (l : List β) (s s' : σ)
    (h0 : Q [] s s')
    (hstep : ∀ pre x post, l = pre ++ x :: post → ∀ t t', Q pre t t' → Q (pre ++ [x]) (g t x) (g t' x)) :
    Q l (l.foldl g s) (l.foldl g s') := by
  have key : ∀ post pre t t', l = pre ++ post → Q pre t t' → Q l (post.foldl g t) (post.foldl g t') := by
    intro post
    induction post with
    | nil => intro pre t t' hl hQ; rw [hl]; simpa using hQ
    | cons x r ih =>
      intro pre t t' hl hQ
      rw [List.foldl_cons, List.foldl_cons]
      exact ih (pre ++ [x]) (g t x) (g t' x) (by rw [hl]; simp) (hstep pre x r hl t t' hQ)
  exact key l [] s s' rfl h0

theorem swapBuf_self (s : FState α) : swapBuf s s.Li s.Lx s.Dinv = s := by
  cases s; rfl

/-- the pivot step preserves the relation -/
theorem pivotState_rel (rp : RegParams α) (k : Nat) (t t' : FState α)
    (hk1 : k < t.Dinv.size) (hR : BufRel Lnz n k t t') :
    BufRel Lnz n (k + 1) (pivotState rp k t) (pivotState rp k t') := by
  have hs := hR.same
  have eD : t'.D = t.D := by rw [hs]; rfl
  have eR : t'.regularizeCount = t.regularizeCount := by rw [hs]; rfl
  have eP : t'.positive = t.positive := by rw [hs]; rfl
  have eLp : t'.Lp = t.Lp := by rw [hs]; rfl
  have eM : t'.yMarkers = t.yMarkers := by rw [hs]; rfl
  have eN : t'.nextColspace = t.nextColspace := by rw [hs]; rfl
  have eY : t'.yVals = t.yVals := by rw [hs]; rfl
  refine ⟨?_, hR.lisz, hR.lxsz, ?_, hR.live, ?_⟩
  · unfold pivotState swapBuf
    simp only [eD, eR, eP, eLp, eM, eN, eY]
  · show (t'.Dinv.setIfInBounds _ _).size = (t.Dinv.setIfInBounds _ _).size
    simp [hR.disz]
  · intro c hc
    show (t'.Dinv.setIfInBounds k _).getD c 0 = (t.Dinv.setIfInBounds k _).getD c 0
    rw [eD, getD_setIfInBounds, getD_setIfInBounds, hR.disz]
    by_cases hck : c = k
    · rw [if_pos ⟨hck, hk1⟩, if_pos ⟨hck, hk1⟩]
    · rw [if_neg (fun h => hck h.1), if_neg (fun h => hck h.1)]
      exact hR.dinv c (by omega)

/-- **one iteration of the main loop on two runs in lock-step** -/
theorem factorRow_rel (C : FCtx n Ap Ai etree Lnz) (Ax : Array α) (a : Nat → Nat → α)
    (hR : Represents n Ap Ai Ax a) (LiSz : Nat) (hLi : LpOf Lnz n ≤ LiSz) (rp : RegParams α)
    (hsg : rp.enable = true → n ≤ rp.Dsigns.size) (k : Nat) (hk : k < n) (s s' : FState α)
    (hI : RowInv Ap Ai Lnz n k LiSz s) (hI' : RowInv Ap Ai Lnz n k LiSz s') (hB : BufRel Lnz n k s s') :
    (factorRow n Ap Ai Ax etree false rp s k = .error errZeroPivot ∧
      factorRow n Ap Ai Ax etree false rp s' k = .error errZeroPivot) ∨
    ∃ t t', factorRow n Ap Ai Ax etree false rp s k = .ok t ∧
      factorRow n Ap Ai Ax etree false rp s' k = .ok t' ∧
      RowInv Ap Ai Lnz n (k + 1) LiSz t ∧ RowInv Ap Ai Lnz n (k + 1) LiSz t' ∧ BufRel Lnz n (k + 1) t t' := by
  obtain ⟨s1, yIdx, hO, hP, hM0, hM2, hrun, hfold1⟩ := factorRow_eq' C Ax a hR LiSz hLi rp k hk s hI
  obtain ⟨s1', yIdx', hO', hP', hM0', hM2', hrun', hfold1'⟩ := factorRow_eq' C Ax a hR LiSz hLi rp k hk s' hI'
  -- the first loop is the same computation
  have hcomm := foldlM_map_comm (rowPattern n Ai Ax etree k)
    (fun p : FState α × List Nat => (swapBuf p.1 s'.Li s'.Lx s'.Dinv, p.2))
    (fun p x => rowPattern_swap n Ai Ax etree k p.1 p.2 x s'.Li s'.Lx s'.Dinv)
    (List.range' (Ap.getD k 0) (Ap.getD (k + 1) 0 - Ap.getD k 0)) (s, [])
  simp only at hcomm
  rw [← hB.same, hfold1', hfold1] at hcomm
  have hpair : (s1', yIdx') = (swapBuf s1 s'.Li s'.Lx s'.Dinv, yIdx) := Except.ok.inj hcomm
  have hs1' : s1' = swapBuf s1 s'.Li s'.Lx s'.Dinv := congrArg Prod.fst hpair
  have hy : yIdx = yIdx' := (congrArg Prod.snd hpair).symm
  subst hy
  have e2 := hP.fLi; have e3 := hP.fLx; have e4 := hP.fDinv; have e5 := hP.fnc
  simp only at e2 e3 e4 e5
  have hB1 : BufRel Lnz n k s1 s1' := by
    have l1 : s1'.Li = s'.Li := by rw [hs1']; rfl
    have l2 : s1'.Lx = s'.Lx := by rw [hs1']; rfl
    have l3 : s1'.Dinv = s'.Dinv := by rw [hs1']; rfl
    refine ⟨by rw [l1, l2, l3]; exact hs1', by rw [l1, e2]; exact hB.lisz, by rw [l2, e3]; exact hB.lxsz,
      by rw [l3, e4]; exact hB.disz, ?_, ?_⟩
    · intro c hc p hp1 hp2
      rw [l1, l2, e2, e3]
      rw [e5] at hp2
      exact hB.live c hc p hp1 hp2
    · intro c hc; rw [l3, e4]; exact hB.dinv c hc
  -- the second loop
  have hfold2 := foldl_rel (rowElimP k)
    (fun pre t t' => Mid Ap Ai Lnz n k LiSz yIdx.reverse s1 pre t ∧ BufRel Lnz n k t t')
    yIdx.reverse s1 s1' ⟨hM0, hB1⟩ (by
      intro pre c post hl t t' ⟨hMt, hBt⟩
      obtain ⟨hcn, hck, _, _, hlpc, hncc, _, hslot, _⟩ :=
        mid_facts C LiSz hLi k hk yIdx.reverse hO s1 pre c post hl t hMt
      refine ⟨(mid_step C LiSz hLi k hk yIdx.reverse hO s1 pre c post hl t hMt).2, ?_⟩
      exact rowElimP_rel k c hck hcn t t' hlpc (by rw [hncc, hMt.lisz]; exact hslot)
        (by rw [hncc, hMt.lxsz]; exact hslot) hBt)
  obtain ⟨_, hB2⟩ := hfold2
  generalize yIdx.reverse.foldl (rowElimP k) s1 = s2 at *
  generalize yIdx.reverse.foldl (rowElimP k) s1' = s2' at *
  -- the pivot
  have eD : s2'.D = s2.D := by rw [hB2.same]; rfl
  have hd : k < s2.D.size := by rw [hM2.dsz]; exact hk
  have hd' : k < s2'.D.size := by rw [hM2'.dsz]; exact hk
  have hdi : k < s2.Dinv.size := by rw [hM2.disz]; exact hk
  have hdi' : k < s2'.Dinv.size := by rw [hM2'.disz]; exact hk
  have hS : rp.enable = true → k < rp.Dsigns.size := fun h => by have := hsg h; omega
  rw [hrun, hrun']
  rcases finishPivot_cases rp k s2 hd hS hdi with h | ⟨h, hz⟩
  · left
    refine ⟨h, ?_⟩
    rw [finishPivot_eq rp k s2 hd hS hdi] at h
    rw [finishPivot_eq rp k s2' hd' hS hdi', eD]
    by_cases hzz : ((regularizePivot rp.enable rp.eps rp.delta (rp.Dsigns.getD k 0) (s2.D.getD k 0)).1 == (0 : α)) = true
    · simp only [hzz, ↓reduceIte]
    · simp only [hzz, Bool.false_eq_true, ↓reduceIte] at h
      cases h
  · right
    refine ⟨_, _, h, ?_, ?_, ?_, pivotState_rel rp k s2 s2' hdi hB2⟩
    · rw [finishPivot_eq rp k s2' hd' hS hdi', eD]
      simp only [hz, Bool.false_eq_true, ↓reduceIte]
      unfold pivotState
      rw [eD]
    · exact rowInv_next (a := a) (etree := etree) LiSz k hk s hI s1 yIdx _ hO hP _ hM2 _ _ _ _
    · exact rowInv_next (a := a) (etree := etree) LiSz k hk s' hI' s1' yIdx _ hO' hP' _ hM2' _ _ _ _

theorem foldlM_range_rel {β : Type} (f : β → Nat → MErr β) (R : Nat → β → β → Prop) (e : ModelErr)
    (n : Nat) (x0 x0' : β) (h0 : R 0 x0 x0')
    (hstep : ∀ i, i < n → ∀ x x', R i x x' → (f x i = .error e ∧ f x' i = .error e) ∨
      ∃ y y', f x i = .ok y ∧ f x' i = .ok y' ∧ R (i + 1) y y') :
    ((List.range n).foldlM f x0 = .error e ∧ (List.range n).foldlM f x0' = .error e) ∨
      ∃ y y', (List.range n).foldlM f x0 = .ok y ∧ (List.range n).foldlM f x0' = .ok y' ∧ R n y y' := by
  induction n with
  | zero => exact Or.inr ⟨x0, x0', rfl, rfl, h0⟩
  | succ m ih =>
    rw [List.range_succ, List.foldlM_append, List.foldlM_append]
    rcases ih (fun i hi x x' hx => hstep i (by omega) x x' hx) with ⟨h, h'⟩ | ⟨y, y', hy, hy', hR⟩
    · left; rw [h, h']; exact ⟨rfl, rfl⟩
    · rw [hy, hy']
      rcases hstep m (by omega) y y' hR with ⟨h, h'⟩ | ⟨z, z', hz, hz', hR'⟩
      · left; simp [bind, Except.bind, h, h']
      · right; exact ⟨z, z', by simp [bind, Except.bind, hz, pure, Except.pure],
          by simp [bind, Except.bind, hz', pure, Except.pure], hR'⟩

/-- every position below `Lp[n]` lies in exactly one column slot -/
theorem slot_find (Lnz : Array Nat) (m : Nat) (hm : m ≤ Lnz.size) (p : Nat) (hp : p < LpOf Lnz m) :
    ∃ c, c < m ∧ LpOf Lnz c ≤ p ∧ p < LpOf Lnz (c + 1) := by
  induction m with
  | zero =>
    have : LpOf Lnz 0 = 0 := (cumsum_spec Lnz).2.1
    omega
  | succ m ih =>
    by_cases h : p < LpOf Lnz m
    · obtain ⟨c, hc, h1, h2⟩ := ih (by omega) h
      exact ⟨c, by omega, h1, h2⟩
    · exact ⟨m, by omega, by omega, hp⟩

/-- at the end of the loop two related states are equal -/
theorem bufRel_final (C : FCtx n Ap Ai etree Lnz) (s s' : FState α)
    (hI : RowInv Ap Ai Lnz n n (LpOf Lnz n) s) (hB : BufRel Lnz n n s s') : s' = s := by
  have hLi : s'.Li = s.Li := by
    apply Array.ext hB.lisz
    intro p hp' hp
    rw [hI.lisz] at hp
    obtain ⟨c, hc, h1, h2⟩ := slot_find Lnz n (by rw [C.lsz]) p hp
    have hnc := hI.nc c hc
    rw [← C.cnt c hc, ← LpOf_succ Lnz c (by rw [C.lsz]; exact hc)] at hnc
    have := (hB.live c hc p h1 (by omega)).1
    simpa [Array.getD_eq_getD_getElem?, hp', show p < s.Li.size by rw [hI.lisz]; exact hp] using this
  have hLx : s'.Lx = s.Lx := by
    apply Array.ext hB.lxsz
    intro p hp' hp
    rw [hI.lxsz] at hp
    obtain ⟨c, hc, h1, h2⟩ := slot_find Lnz n (by rw [C.lsz]) p hp
    have hnc := hI.nc c hc
    rw [← C.cnt c hc, ← LpOf_succ Lnz c (by rw [C.lsz]; exact hc)] at hnc
    have := (hB.live c hc p h1 (by omega)).2
    simpa [Array.getD_eq_getD_getElem?, hp', show p < s.Lx.size by rw [hI.lxsz]; exact hp] using this
  have hDi : s'.Dinv = s.Dinv := by
    apply Array.ext hB.disz
    intro c hc' hc
    have := hB.dinv c (by rw [hI.disz] at hc; exact hc)
    simpa [Array.getD_eq_getD_getElem?, hc', hc] using this
  rw [hB.same, hLi, hLx, hDi]
  exact swapBuf_self s

/-- **`_factor_inner` is a function of the matrix, the elimination tree and the settings only**:
the previous contents of `Li, Lx, D, Dinv` do not influence the result (`Ok` state or error). -/
theorem factorInner_buffers_irrelevant (C : FCtx n Ap Ai etree Lnz) (Ax : Array α) (a : Nat → Nat → α)
    (hR : Represents n Ap Ai Ax a) (Li Li' : Array Nat) (Lx Lx' D D' Dinv Dinv' : Array α)
    (hLi : Li.size = LpOf Lnz n) (hLi' : Li'.size = Li.size) (hLx : Lx.size = Li.size)
    (hLx' : Lx'.size = Li.size) (hDs : D.size = n) (hDs' : D'.size = n) (hDi : Dinv.size = n)
    (hDi' : Dinv'.size = n) (rp : RegParams α) (hsg : rp.enable = true → n ≤ rp.Dsigns.size) :
    factorInner n Ap Ai Ax Li' Lx' D' Dinv' Lnz etree false rp =
      factorInner n Ap Ai Ax Li Lx D Dinv Lnz etree false rp := by
  have hn := C.hn
  rw [factorInner_unfold C Ax a hR Li Lx D Dinv hDs hDi rp,
    factorInner_unfold C Ax a hR Li' Lx' D' Dinv' hDs' hDi' rp]
  have hsz0 : ∀ (Li : Array Nat) (Lx Dinv : Array α), 0 < (initState Lnz n Li Lx Dinv (a 0 0)).D.size := by
    intro Li Lx Dinv
    show 0 < ((Array.replicate n (0 : α)).setIfInBounds 0 (a 0 0)).size
    simpa using hn
  have hS0 : rp.enable = true → 0 < rp.Dsigns.size := fun h => by have := hsg h; omega
  have hfp := finishPivot_eq rp 0 (initState Lnz n Li Lx Dinv (a 0 0)) (hsz0 _ _ _) hS0
    (by show 0 < Dinv.size; omega)
  have hfp' := finishPivot_eq rp 0 (initState Lnz n Li' Lx' Dinv' (a 0 0)) (hsz0 _ _ _) hS0
    (by show 0 < Dinv'.size; omega)
  have eD0 : (initState Lnz n Li' Lx' Dinv' (a 0 0)).D = (initState Lnz n Li Lx Dinv (a 0 0)).D := rfl
  by_cases hz : ((regularizePivot rp.enable rp.eps rp.delta (rp.Dsigns.getD 0 0)
      ((initState Lnz n Li Lx Dinv (a 0 0)).D.getD 0 0)).1 == (0 : α)) = true
  · have h : finishPivot rp 0 (initState Lnz n Li Lx Dinv (a 0 0)) = .error errZeroPivot := by
      rw [hfp]; simp only [hz, ↓reduceIte]
    have h' : finishPivot rp 0 (initState Lnz n Li' Lx' Dinv' (a 0 0)) = .error errZeroPivot := by
      rw [hfp', eD0]; simp only [hz, ↓reduceIte]
    rw [h, h']
  · have h : finishPivot rp 0 (initState Lnz n Li Lx Dinv (a 0 0)) =
        .ok (pivotState rp 0 (initState Lnz n Li Lx Dinv (a 0 0))) := by
      rw [hfp]; simp only [hz, Bool.false_eq_true, ↓reduceIte]; rfl
    have h' : finishPivot rp 0 (initState Lnz n Li' Lx' Dinv' (a 0 0)) =
        .ok (pivotState rp 0 (initState Lnz n Li' Lx' Dinv' (a 0 0))) := by
      rw [hfp', eD0]; simp only [hz, Bool.false_eq_true, ↓reduceIte]; rfl
    rw [h, h']
    simp only [bind, Except.bind]
    have hI1 := rowInv_init C Li Lx Dinv hLx hDi rp (a 0 0)
    have hI1' := rowInv_init C Li' Lx' Dinv' (by rw [hLx', hLi']) hDi' rp (a 0 0)
    rw [hLi'] at hI1'
    have hB1 : BufRel Lnz n 1 (pivotState rp 0 (initState Lnz n Li Lx Dinv (a 0 0)))
        (pivotState rp 0 (initState Lnz n Li' Lx' Dinv' (a 0 0))) := by
      refine ⟨rfl, hLi', by show Lx'.size = Lx.size; rw [hLx', hLx], ?_, ?_, ?_⟩
      · show (Dinv'.setIfInBounds _ _).size = (Dinv.setIfInBounds _ _).size
        simp [hDi, hDi']
      · intro c hc p hp1 hp2
        have := hI1.nc c hc
        have hl1 : Lrows (Apat Ap Ai) 1 c = [] := by
          rw [Lrows_succ]
          have : ¬ Lpat (Apat Ap Ai) 0 c := fun h => by have := h.lt; omega
          simp [this, Lrows]
        rw [hl1] at this
        simp only [List.length_nil, Nat.add_zero] at this
        omega
      · intro c hc
        have : c = 0 := by omega
        subst this
        show (Dinv'.setIfInBounds 0 _).getD 0 0 = (Dinv.setIfInBounds 0 _).getD 0 0
        rw [getD_setIfInBounds, getD_setIfInBounds, if_pos ⟨rfl, by omega⟩, if_pos ⟨rfl, by omega⟩]
        rfl
    have hloop := foldlM_range_rel (fun s i => factorRow n Ap Ai Ax etree false rp s (1 + i))
      (fun i x x' => RowInv Ap Ai Lnz n (1 + i) Li.size x ∧ RowInv Ap Ai Lnz n (1 + i) Li.size x' ∧
        BufRel Lnz n (1 + i) x x') errZeroPivot (n - 1) _ _ ⟨hI1, hI1', hB1⟩ (by
        intro i hi x x' ⟨hx, hx', hb⟩
        rcases factorRow_rel C Ax a hR Li.size (by omega) rp hsg (1 + i) (by omega) x x' hx hx' hb with
          h | ⟨t, t', h1, h2, h3, h4, h5⟩
        · exact Or.inl h
        · refine Or.inr ⟨t, t', h1, h2, ?_⟩
          rw [show 1 + (i + 1) = 1 + i + 1 by omega]
          exact ⟨h3, h4, h5⟩)
    rcases hloop with ⟨h, h'⟩ | ⟨y, y', hy, hy', hIy, _, hBy⟩
    · show (List.range (n - 1)).foldlM _ _ = (List.range (n - 1)).foldlM _ _
      rw [h, h']
    · show (List.range (n - 1)).foldlM _ _ = (List.range (n - 1)).foldlM _ _
      rw [hy, hy']
      rw [show 1 + (n - 1) = n by omega] at hIy hBy
      rw [hLi] at hIy
      rw [bufRel_final C y y' hIy hBy]

/-- `_factor` (numeric mode) on a workspace: the `L.colptr / L.rowval / L.nzval / D / Dinv` buffers
and the two counters of the incoming object do not influence the result -/
theorem factor_buffers_irrelevant (F : Factorisation α) (a : Nat → Nat → α)
    (C : FCtx F.triuA.n F.triuA.colptr F.triuA.rowval F.etree F.Lnz)
    (hR : Represents F.triuA.n F.triuA.colptr F.triuA.rowval F.triuA.nzval a)
    (Lp' Li' : Array Nat) (Lx' D' Dinv' : Array α) (pi' rc' : Nat)
    (hLi : F.L.rowval.size = LpOf F.Lnz F.triuA.n) (hLx : F.L.nzval.size = F.L.rowval.size)
    (hDs : F.D.size = F.triuA.n) (hDi : F.Dinv.size = F.triuA.n)
    (hLi' : Li'.size = F.L.rowval.size) (hLx' : Lx'.size = F.L.rowval.size)
    (hDs' : D'.size = F.triuA.n) (hDi' : Dinv'.size = F.triuA.n)
    (hsg : F.rp.enable = true → F.triuA.n ≤ F.rp.Dsigns.size) :
    factor { F with L := { F.L with colptr := Lp', rowval := Li', nzval := Lx' }, D := D', Dinv := Dinv',
                    positiveInertia := pi', regularizeCount := rc' } false = factor F false := by
  unfold factor
  simp only [Bool.false_eq_true, ↓reduceIte]
  rw [factorInner_buffers_irrelevant C F.triuA.nzval a hR F.L.rowval Li' F.L.nzval Lx' F.D D' F.Dinv Dinv'
    hLi hLi' hLx hLx' hDs hDs' hDi hDi' F.rp hsg]

/-- the last entry of `cumsum` is the total -/
theorem cumsum_last (counts : Array Nat) :
    (cumsum counts).getD counts.size 0 = counts.toList.foldl (· + ·) 0 := by
  have key : ∀ m, m ≤ counts.size → (cumsum counts).getD m 0 = (counts.toList.take m).foldl (· + ·) 0 := by
    intro m
    induction m with
    | zero => intro _; simpa using (cumsum_spec counts).2.1
    | succ m ih =>
      intro hm
      have hm' : m < counts.toList.length := by simp only [Array.length_toList]; omega
      rw [(cumsum_spec counts).2.2 m (by omega), ih (by omega), List.take_succ_eq_append_getElem hm',
        List.foldl_append]
      simp [Array.getD_eq_getD_getElem?, show m < counts.size by omega]
  have := key counts.size (Nat.le_refl _)
  rw [this]
  congr 1
  rw [List.take_of_length_le (by simp)]

end Clarabel.Qdldl
