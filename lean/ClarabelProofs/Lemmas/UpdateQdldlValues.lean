/-
  C08 / C05 — the LOGICAL `QDLDLFactorisation::new` (`Qdldl.new … (logical := true)`) depends on the
  VALUES of its input matrix only through the value array of the permuted copy `triuA.nzval` (and the
  CONTENT — never the sizes — of `D`): replacing the value array of the input by another one of the
  same length gives the same error, or an object with the same symbolic data (`LS (fun _ => False)`,
  `Lemmas/KktQwLdl.lean`).

  Method: a relational walk (`RelM`, `Lemmas/SolverStaleRel.lean`) through `permute_symmetric`
  (`wellFormed` reads sizes only, `isTriu` / `permutePattern` the pattern only, the values are
  `scatter`ed), `_etree` (pattern only) and `_factor_inner` in logical mode, with the simulation
  relation `FS` on `FState`: every field equal except the CONTENT of `D` and `yVals` (`rowPattern`
  copies the values there; with `logical = true` `rowEliminate` skips the arithmetic and `finishPivot`
  is not called, so they never flow anywhere else, and every read `Ax[i]` succeeds iff `i < |Ax|`).
  In fact `L.colptr, L.rowval, L.nzval, Dinv`, both counters and the flag are EQUAL (`FS`), more than
  `LS` records.

  Lift: `kktSolver_new_values_of_asm` for `DirectLDLKKTSolver::new` (`Solver.KktSolver.new`).
  All statements are class [S]: no arithmetic law of the scalar type is used.
-/
import ClarabelProofs.Lemmas.KktQwLdl
import ClarabelProofs.Lemmas.UpdateOwnMaps

namespace Clarabel.Update
open Clarabel Clarabel.Qdldl Clarabel.Solver

set_option linter.unusedSectionVars false
set_option linter.unusedVariables false

variable {α : Type}

/-- reads at the same index of two arrays of the same length fail or succeed together -/
theorem getE_relTrue {β : Type} {a a' : Array β} (h : a.size = a'.size) (i : Nat) (site : String) :
    RelM (fun _ _ => True) (getE a i site) (getE a' i site) := by
  by_cases hi : i < a.size
  · rw [getE_ok_of_lt a i site hi, getE_ok_of_lt a' i site (h ▸ hi)]
    trivial
  · rw [getE_err_of_not_lt a i site hi, getE_err_of_not_lt a' i site (h ▸ hi)]
    rfl

/-- writes at the same index of two arrays of the same length fail or succeed together and keep the
lengths equal -/
theorem setE_relSize {β : Type} {a a' : Array β} (h : a.size = a'.size) (k : Nat) (v v' : β) (site : String) :
    RelM (fun b b' => b.size = b'.size) (setE a k v site) (setE a' k v' site) := by
  unfold setE
  by_cases hk : k < a.size
  · have hk' : k < a'.size := h ▸ hk
    simp only [hk, hk', dif_pos]
    show (a.set k v hk).size = (a'.set k v' hk').size
    simp [h]
  · have hk' : ¬ k < a'.size := h ▸ hk
    simp only [hk, hk', dif_neg, not_false_eq_true]
    rfl

/-- the simulation relation of the logical `_factor_inner` on two value arrays: every field equal
except the CONTENT of `D` and `yVals` -/
structure FS (s s' : FState α) : Prop where
  Lp : s.Lp = s'.Lp
  Li : s.Li = s'.Li
  Lx : s.Lx = s'.Lx
  D : s.D.size = s'.D.size
  Dinv : s.Dinv = s'.Dinv
  yMarkers : s.yMarkers = s'.yMarkers
  nextColspace : s.nextColspace = s'.nextColspace
  yVals : s.yVals.size = s'.yVals.size
  regularizeCount : s.regularizeCount = s'.regularizeCount
  positive : s.positive = s'.positive

theorem FS.rfl' (s : FState α) : FS s s := ⟨rfl, rfl, rfl, rfl, rfl, rfl, rfl, rfl, rfl, rfl⟩

theorem checkStructure_values (K : Csc α) (v : Array α) :
    checkStructure { K with nzval := v } = checkStructure K := rfl

section numeric
variable [Add α] [Sub α] [Mul α] [Div α] [Neg α] [OfNat α 0] [OfNat α 1] [LT α] [DecidableLT α]
  [BEq α] [FloatLike α]

theorem rowPattern_fs (n : Nat) (Ai : Array Nat) {Ax Ax' : Array α} (hA : Ax.size = Ax'.size)
    (etree : Array (Option Nat)) (k : Nat) (sy sy' : FState α × List Nat)
    (h : FS sy.1 sy'.1 ∧ sy.2 = sy'.2) (i : Nat) :
    RelM (fun r r' => FS r.1 r'.1 ∧ r.2 = r'.2)
      (rowPattern n Ai Ax etree k sy i) (rowPattern n Ai Ax' etree k sy' i) := by
  obtain ⟨⟨Lp, Li, Lx, D, Dinv, yM, nc, yV, rc, pos⟩, yIdx⟩ := sy
  obtain ⟨⟨Lp', Li', Lx', D', Dinv', yM', nc', yV', rc', pos'⟩, yIdx'⟩ := sy'
  obtain ⟨⟨h1, h2, h3, h4, h5, h6, h7, h8, h9, h10⟩, h11⟩ := h
  dsimp only at h1 h2 h3 h4 h5 h6 h7 h8 h9 h10 h11
  subst h1 h2 h3 h5 h6 h7 h9 h10 h11
  unfold rowPattern
  dsimp only
  refine RelM.bind (RelM.refl_eq _) ?_
  rintro bidx _ rfl
  refine RelM.bind (getE_relTrue hA i _) ?_
  intro axi axi' _
  refine RelM.ite (fun _ => ?_) (fun _ => ?_)
  · refine RelM.bind (setE_relSize h4 k axi axi' _) ?_
    intro E E' hE
    exact ⟨⟨rfl, rfl, rfl, hE, rfl, rfl, rfl, h8, rfl, rfl⟩, rfl⟩
  · refine RelM.bind (setE_relSize h8 bidx axi axi' _) ?_
    intro W W' hW
    refine RelM.bind (RelM.refl_eq _) ?_
    rintro used _ rfl
    refine RelM.ite (fun _ => ?_) (fun _ => ?_)
    · exact ⟨⟨rfl, rfl, rfl, h4, rfl, rfl, rfl, hW, rfl, rfl⟩, rfl⟩
    · refine RelM.bind (RelM.refl_eq _) ?_
      rintro mk _ rfl
      refine RelM.bind (RelM.refl_eq _) ?_
      rintro nxt _ rfl
      refine RelM.bind (RelM.refl_eq _) ?_
      rintro x _ rfl
      refine RelM.ite (fun _ => ?_) (fun _ => ?_)
      · rfl
      · exact ⟨⟨rfl, rfl, rfl, h4, rfl, rfl, rfl, hW, rfl, rfl⟩, rfl⟩

theorem rowEliminate_fs (k : Nat) (s s' : FState α) (h : FS s s') (c : Nat) :
    RelM FS (rowEliminate true k s c) (rowEliminate true k s' c) := by
  obtain ⟨Lp, Li, Lx, D, Dinv, yM, nc, yV, rc, pos⟩ := s
  obtain ⟨Lp', Li', Lx', D', Dinv', yM', nc', yV', rc', pos'⟩ := s'
  obtain ⟨h1, h2, h3, h4, h5, h6, h7, h8, h9, h10⟩ := h
  dsimp only at h1 h2 h3 h4 h5 h6 h7 h8 h9 h10
  subst h1 h2 h3 h5 h6 h7 h9 h10
  unfold rowEliminate
  simp only [Bool.not_true, Bool.false_eq_true, ↓reduceIte, pure_bind]
  refine RelM.bind (RelM.refl_eq _) ?_
  rintro tmp _ rfl
  refine RelM.bind (RelM.refl_eq _) ?_
  rintro Li1 _ rfl
  refine RelM.bind (RelM.refl_eq _) ?_
  rintro nc1 _ rfl
  refine RelM.bind (setE_relSize h8 c 0 0 _) ?_
  intro W W' hW
  refine RelM.bind (RelM.refl_eq _) ?_
  rintro mk _ rfl
  exact ⟨rfl, rfl, rfl, h4, rfl, rfl, rfl, hW, rfl, rfl⟩

theorem factorRow_fs (n : Nat) (Ap Ai : Array Nat) {Ax Ax' : Array α} (hA : Ax.size = Ax'.size)
    (etree : Array (Option Nat)) (rp : RegParams α) (s s' : FState α) (h : FS s s') (k : Nat) :
    RelM FS (factorRow n Ap Ai Ax etree true rp s k) (factorRow n Ap Ai Ax' etree true rp s' k) := by
  unfold factorRow
  simp only [Bool.not_true, Bool.false_eq_true, ↓reduceIte]
  refine RelM.bind (RelM.refl_eq _) ?_
  rintro lo _ rfl
  refine RelM.bind (RelM.refl_eq _) ?_
  rintro hi _ rfl
  refine RelM.bind (foldlM_relM (R := fun r r' => FS r.1 r'.1 ∧ r.2 = r'.2) _ _
    (fun sy sy' a hsy => rowPattern_fs n Ai hA etree k sy sy' hsy a) _ (s, []) (s', []) ⟨h, rfl⟩) ?_
  rintro ⟨t, yIdx⟩ ⟨t', yIdx'⟩ ⟨ht, hy⟩
  dsimp only at ht hy
  subst hy
  dsimp only
  refine RelM.bind (foldlM_relM _ _ (fun a a' c haa => rowEliminate_fs k a a' haa c) _ t t' ht) ?_
  intro u u' hu
  exact hu

theorem factorInner_fs (n : Nat) (Ap Ai : Array Nat) {Ax Ax' : Array α} (hA : Ax.size = Ax'.size)
    (Li : Array Nat) (Lx D Dinv : Array α) (Lnz : Array Nat) (etree : Array (Option Nat))
    (rp : RegParams α) :
    RelM FS (factorInner n Ap Ai Ax Li Lx D Dinv Lnz etree true rp)
      (factorInner n Ap Ai Ax' Li Lx D Dinv Lnz etree true rp) := by
  unfold factorInner
  simp only [Bool.not_true, Bool.false_eq_true, ↓reduceIte, pure_bind]
  refine RelM.ite (fun _ => rfl) (fun _ => ?_)
  refine RelM.ite (fun _ => FS.rfl' _) (fun _ => ?_)
  exact foldlM_relM _ _ (fun s s' k hs => factorRow_fs n Ap Ai hA etree rp s s' hs k) _ _ _ (FS.rfl' _)

/-- the relation between the two objects: `LS` with no agreeing slot, the same mode flag, and —
beyond what `LS` records — the same `L` (pattern AND the all-ones value buffer), `Dinv`, counters -/
def FR (F F' : Factorisation α) : Prop :=
  LS (fun _ => False) F F' ∧ F'.isSymbolic = F.isSymbolic ∧ F'.L = F.L ∧ F'.Dinv = F.Dinv ∧
    F'.positiveInertia = F.positiveInertia ∧ F'.regularizeCount = F.regularizeCount

theorem factor_true_fs (F : Factorisation α) (nz' : Array α) (hnz : nz'.size = F.triuA.nzval.size) :
    RelM FR (factor F true) (factor { F with triuA := { F.triuA with nzval := nz' } } true) := by
  unfold factor
  simp only [↓reduceIte]
  refine RelM.bind (factorInner_fs _ _ _ hnz.symm _ _ _ _ _ _ _) ?_
  intro s s' hs
  refine ⟨⟨rfl, rfl, rfl, rfl, rfl, rfl, rfl, rfl, rfl, rfl, rfl, rfl, ⟨hnz.symm, fun _ h => h.elim⟩,
    congrArg Array.size hs.Li, congrArg Array.size hs.Lx, hs.D, congrArg Array.size hs.Dinv⟩, rfl, ?_,
    hs.Dinv.symm, hs.positive.symm, hs.regularizeCount.symm⟩
  show ({ F.L with colptr := s'.Lp, rowval := s'.Li, nzval := s'.Lx } : Csc α) =
    { F.L with colptr := s.Lp, rowval := s.Li, nzval := s.Lx }
  rw [hs.Lp, hs.Li, hs.Lx]

theorem permuteSymmetric_values (K : Csc α) (iperm : Array Nat) (v : Array α) (hv : v.size = K.nzval.size) :
    RelM (fun r r' => r'.1.m = r.1.m ∧ r'.1.n = r.1.n ∧ r'.1.colptr = r.1.colptr ∧
        r'.1.rowval = r.1.rowval ∧ r'.1.nzval.size = r.1.nzval.size ∧ r'.2 = r.2)
      (permuteSymmetric K iperm) (permuteSymmetric { K with nzval := v } iperm) := by
  unfold permuteSymmetric
  have hw : wellFormed { K with nzval := v } = wellFormed K := by
    unfold wellFormed
    dsimp only
    rw [hv]
  have ht : ({ K with nzval := v } : Csc α).isTriu = K.isTriu := rfl
  rw [hw, ht]
  dsimp only
  refine RelM.ite (fun _ => rfl) (fun _ => ?_)
  refine RelM.ite (fun _ => rfl) (fun _ => ?_)
  refine RelM.bind (RelM.refl_eq _) ?_
  rintro ⟨Pc, Pr, pos⟩ _ rfl
  exact ⟨rfl, rfl, rfl, rfl, by simp only [scatter_size, Array.size_replicate, hv], rfl⟩

theorem newWithOrdering_values (K : Csc α) (perm iperm : Array Nat) (ds : Option (Array Int))
    (enable : Bool) (eps delta : α) (v : Array α) (hv : v.size = K.nzval.size) :
    RelM FR (newWithOrdering K perm iperm ds enable eps delta true)
      (newWithOrdering { K with nzval := v } perm iperm ds enable eps delta true) := by
  unfold newWithOrdering
  dsimp only
  refine RelM.bind (permuteSymmetric_values K iperm v hv) ?_
  rintro ⟨⟨Tm, Tn, Tc, Tr, Tv⟩, atop⟩ ⟨⟨Tm', Tn', Tc', Tr', Tv'⟩, atop'⟩ ⟨h1, h2, h3, h4, h5, h6⟩
  dsimp only at h1 h2 h3 h4 h5 h6
  subst h1 h2 h3 h4 h6
  dsimp only
  cases ds with
  | none =>
    dsimp only
    refine RelM.bind (RelM.refl_eq _) ?_
    rintro Ds _ rfl
    refine RelM.bind (RelM.refl_eq _) ?_
    rintro es _ rfl
    exact factor_true_fs _ Tv' h5
  | some d =>
    dsimp only
    refine RelM.bind (RelM.refl_eq _) ?_
    rintro Ds _ rfl
    refine RelM.bind (RelM.refl_eq _) ?_
    rintro es _ rfl
    exact factor_true_fs _ Tv' h5

/-- `QDLDLFactorisation::new` (logical) on two matrices that differ in the values only: the same
error, or two objects with the same symbolic data -/
theorem qdldl_new_values_rel (K : Csc α) (perm : Array Nat) (ds : Option (Array Int))
    (enable : Bool) (eps delta : α) (v : Array α) (hv : v.size = K.nzval.size) :
    RelM FR (Qdldl.new K perm ds enable eps delta true)
      (Qdldl.new { K with nzval := v } perm ds enable eps delta true) := by
  unfold Qdldl.new
  rw [checkStructure_values]
  refine RelM.bind (RelM.refl_eq _) ?_
  rintro _ _ rfl
  refine RelM.bind (RelM.refl_eq _) ?_
  rintro iperm _ rfl
  exact newWithOrdering_values K perm iperm ds enable eps delta v hv

/-- [S] **value-independence of the logical `new`** -/
theorem qdldl_new_values {K : Csc α} {perm : Array Nat} {ds : Option (Array Int)} {enable : Bool} {eps delta : α}
    {F : Factorisation α} (h : Qdldl.new K perm ds enable eps delta true = .ok F)
    (v : Array α) (hv : v.size = K.nzval.size) :
    ∃ F', Qdldl.new { K with nzval := v } perm ds enable eps delta true = .ok F' ∧
      LS (fun _ => False) F F' ∧ F'.isSymbolic = F.isSymbolic ∧
      (∀ k, k < v.size → F'.triuA.nzval[F'.AtoPAPt.getD k 0]? = v[k]?) := by
  obtain ⟨F', hF', hls, hsym, _⟩ := (qdldl_new_values_rel K perm ds enable eps delta v hv).ok_left h
  refine ⟨F', hF', hls, hsym, ?_⟩
  obtain ⟨iperm, hp⟩ := qdldl_new_parts_own hF'
  exact (permute_atop_own hp).2.2.2.2

/-- [S] the same with everything the walk gives: besides `LS`, the two objects have the same `L`
(`colptr`, `rowval` and the all-ones `nzval`), `Dinv`, counters and flag; only `triuA.nzval` and the
content of `D` (the diagonal of the permuted copy) can differ. -/
theorem qdldl_new_values_strong {K : Csc α} {perm : Array Nat} {ds : Option (Array Int)} {enable : Bool}
    {eps delta : α} {F : Factorisation α} (h : Qdldl.new K perm ds enable eps delta true = .ok F)
    (v : Array α) (hv : v.size = K.nzval.size) :
    ∃ F', Qdldl.new { K with nzval := v } perm ds enable eps delta true = .ok F' ∧
      LS (fun _ => False) F F' ∧ F'.isSymbolic = F.isSymbolic ∧ F'.L = F.L ∧ F'.Dinv = F.Dinv ∧
      F'.positiveInertia = F.positiveInertia ∧ F'.regularizeCount = F.regularizeCount ∧
      (∀ k, k < v.size → F'.triuA.nzval[F'.AtoPAPt.getD k 0]? = v[k]?) := by
  obtain ⟨F', hF', hls, hsym, hL, hDi, hpi, hrc⟩ :=
    (qdldl_new_values_rel K perm ds enable eps delta v hv).ok_left h
  refine ⟨F', hF', hls, hsym, hL, hDi, hpi, hrc, ?_⟩
  obtain ⟨iperm, hp⟩ := qdldl_new_parts_own hF'
  exact (permute_atop_own hp).2.2.2.2

/-- [S] failure is value-independent too: the logical `new` on the two matrices fails with the same
error -/
theorem qdldl_new_values_error {K : Csc α} {perm : Array Nat} {ds : Option (Array Int)} {enable : Bool}
    {eps delta : α} {e : ModelErr} (h : Qdldl.new K perm ds enable eps delta true = .error e)
    (v : Array α) (hv : v.size = K.nzval.size) :
    Qdldl.new { K with nzval := v } perm ds enable eps delta true = .error e := by
  have r := qdldl_new_values_rel K perm ds enable eps delta v hv
  rw [h] at r
  cases h' : Qdldl.new { K with nzval := v } perm ds enable eps delta true with
  | ok F' => rw [h'] at r; exact r.elim
  | error e' => rw [h'] at r; exact congrArg _ (Eq.symm r)

/-- [S] **the lift to `DirectLDLKKTSolver::new`**: two assemblies that differ in the KKT values only
give two solver objects that differ in `KKT.nzval` and, inside the engine, in `triuA.nzval` (and
the content of `D`) only. -/
theorem kktSolver_new_values_of_asm {P A P' A' : Csc α} {cones : List (ConeSt α)} {m n : Nat} {lin : LinSettings α}
    {perm : Array Nat} {K0 : KktSolver α}
    (h : KktSolver.new P A cones m n lin perm = .ok K0)
    (nz : Array α) (hnz : nz.size = K0.KKT.nzval.size)
    (hasm' : Kkt.assembleKktMatrix P' A' (cones.map ConeSt.kktSpec) .triu = .ok ({ K0.KKT with nzval := nz }, K0.map)) :
    ∃ K1, KktSolver.new P' A' cones m n lin perm = .ok K1 ∧
      K1.m = K0.m ∧ K1.n = K0.n ∧ K1.p = K0.p ∧ K1.map = K0.map ∧ K1.dsigns = K0.dsigns ∧
      K1.Hsblocks = K0.Hsblocks ∧ K1.KKT = { K0.KKT with nzval := nz } ∧
      LS (fun _ => False) K0.ldl K1.ldl ∧
      K1.x = K0.x ∧ K1.b = K0.b ∧ K1.work1 = K0.work1 ∧ K1.work2 = K0.work2 ∧
      K1.diagonalRegularizer = K0.diagonalRegularizer ∧
      (∀ k, k < nz.size → K1.ldl.triuA.nzval[K1.ldl.AtoPAPt.getD k 0]? = nz[k]?) := by
  unfold KktSolver.new at h
  obtain ⟨⟨KKT, map⟩, hasm, h⟩ := Clarabel.Lemmas.KktSorted.bind_eq_ok h
  simp only at h
  obtain ⟨ds, hds, h⟩ := Clarabel.Lemmas.KktSorted.bind_eq_ok h
  split at h
  · cases h
  · rename_i hsq
    obtain ⟨ldl, hldl, h⟩ := Clarabel.Lemmas.KktSorted.bind_eq_ok h
    cases h
    dsimp only at hnz hasm' ⊢
    obtain ⟨F', hF', hLS, hsym, hval⟩ := qdldl_new_values (unwrapQdldl_ok_own hldl) nz hnz
    have hnew : KktSolver.new P' A' cones m n lin perm = .ok
        { m := m, n := n, p := Kkt.pdimAll map.sparse_maps,
          x := Array.replicate (n + m + Kkt.pdimAll map.sparse_maps) 0,
          b := Array.replicate (n + m + Kkt.pdimAll map.sparse_maps) 0,
          work1 := Array.replicate (n + m + Kkt.pdimAll map.sparse_maps) 0,
          work2 := Array.replicate (n + m + Kkt.pdimAll map.sparse_maps) 0,
          map := map, dsigns := ds,
          Hsblocks := Array.replicate (Kkt.hsblocksLen (cones.map ConeSt.kktSpec)) 0,
          KKT := { KKT with nzval := nz }, ldl := F', diagonalRegularizer := 0 } := by
      unfold KktSolver.new
      dsimp only
      rw [hasm']
      dsimp only [bind, Except.bind]
      rw [hds]
      dsimp only
      rw [if_neg hsq, hF']
      rfl
    exact ⟨_, hnew, rfl, rfl, rfl, rfl, rfl, rfl, rfl, hLS, rfl, rfl, rfl, rfl, rfl, hval⟩

end numeric

/-! ### non-vacuity -/

section examples
attribute [local instance] intFloatLikeOwn

/-- the expected assembly result on the 1×1 pattern, with KKT values `nz` -/
def asmEx (nz : List Int) : Csc Int × Kkt.LDLDataMap :=
  (⟨2, 2, #[0, 1, 3], #[0, 0, 1], nz.toArray⟩, ⟨#[0], #[1], #[2], #[], #[0], #[0, 2]⟩)

/-- field-by-field comparison with `asmEx nz` (a `Bool`, so that the kernel can evaluate it) -/
def chkAsmEx (r : Csc Int × Kkt.LDLDataMap) (nz : List Int) : Bool :=
  r.1.m == 2 && r.1.n == 2 && r.1.colptr.toList == [0, 1, 3] && r.1.rowval.toList == [0, 0, 1] &&
  r.1.nzval.toList == nz && r.2.P.toList == [0] && r.2.A.toList == [1] && r.2.Hsblocks.toList == [2] &&
  r.2.sparse_maps.toList.length == 0 && r.2.diagP.toList == [0] && r.2.diag_full.toList == [0, 2]

theorem chkAsmEx_spec {r : Csc Int × Kkt.LDLDataMap} {nz : List Int} (h : chkAsmEx r nz = true) :
    r = asmEx nz := by
  obtain ⟨⟨a1, a2, a3, a4, a5⟩, ⟨c1, c2, c3, c4, c5, c6⟩⟩ := r
  simp only [chkAsmEx, Bool.and_eq_true, beq_iff_eq] at h
  obtain ⟨⟨⟨⟨⟨⟨⟨⟨⟨⟨h1, h2⟩, h3⟩, h4⟩, h5⟩, h6⟩, h7⟩, h8⟩, h9⟩, h10⟩, h11⟩ := h
  have e3 : a3 = #[0, 1, 3] := Array.toList_inj.mp h3
  have e4 : a4 = #[0, 0, 1] := Array.toList_inj.mp h4
  have e5 : a5 = nz.toArray := Array.toList_inj.mp h5
  have e6 : c1 = #[0] := Array.toList_inj.mp h6
  have e7 : c2 = #[1] := Array.toList_inj.mp h7
  have e8 : c3 = #[2] := Array.toList_inj.mp h8
  have e9 : c4 = #[] := Array.toList_inj.mp (List.eq_nil_of_length_eq_zero h9)
  have e10 : c5 = #[0] := Array.toList_inj.mp h10
  have e11 : c6 = #[0, 2] := Array.toList_inj.mp h11
  subst h1 h2 e3 e4 e5 e6 e7 e8 e9 e10 e11
  rfl

/-- the KKT matrix and the maps of the example of `exDataOwn_new` (`P = [5]`, `A = [7]`) -/
theorem exValues_new :
    (KktSolver.new exDataOwn.P exDataOwn.A [ConeSt.zero 1] exDataOwn.m exDataOwn.n
        exLinOwn #[1, 0]).toOption.map (fun K => chkAsmEx (K.KKT, K.map) [5, 7, 0])
      = some true := by decide +kernel

/-- the assembly for other values on the same pattern (`P' = [9]`, `A' = [-4]`) -/
theorem exValues_asm' :
    (Kkt.assembleKktMatrix (⟨1, 1, #[0, 1], #[0], #[9]⟩ : Csc Int) ⟨1, 1, #[0, 1], #[0], #[-4]⟩
        ([ConeSt.zero (α := Int) 1].map ConeSt.kktSpec) .triu).toOption.map (fun r => chkAsmEx r [9, -4, 0])
      = some true := by decide +kernel

/-- non-vacuity of `kktSolver_new_values_of_asm` (hence of `qdldl_new_values`): the hypotheses hold
on `P = [5], A = [7]` versus `P' = [9], A' = [-4]`, one zero cone, reversed ordering; the second
object carries the new values `[9, -4, 0]` through the SAME entry map. -/
example : ∃ (P A P' A' : Csc Int) (cones : List (ConeSt Int)) (m n : Nat) (lin : LinSettings Int)
    (perm : Array Nat) (K0 K1 : KktSolver Int) (nz : Array Int),
    KktSolver.new P A cones m n lin perm = .ok K0 ∧ nz.size = K0.KKT.nzval.size ∧
    Kkt.assembleKktMatrix P' A' (cones.map ConeSt.kktSpec) .triu = .ok ({ K0.KKT with nzval := nz }, K0.map) ∧
    KktSolver.new P' A' cones m n lin perm = .ok K1 ∧ LS (fun _ => False) K0.ldl K1.ldl ∧
    K1.KKT.nzval = #[9, -4, 0] ∧ K0.KKT.nzval = #[5, 7, 0] ∧
    (∀ k, k < 3 → K1.ldl.triuA.nzval[K1.ldl.AtoPAPt.getD k 0]? = (#[9, -4, 0] : Array Int)[k]?) := by
  have h := exValues_new
  have h' := exValues_asm'
  cases hn : KktSolver.new exDataOwn.P exDataOwn.A [ConeSt.zero 1] exDataOwn.m exDataOwn.n exLinOwn #[1, 0] with
  | error e => rw [hn] at h; cases h
  | ok K0 =>
    rw [hn] at h
    simp only [Except.toOption, Option.map_some, Option.some.injEq] at h
    cases ha : Kkt.assembleKktMatrix (⟨1, 1, #[0, 1], #[0], #[9]⟩ : Csc Int) ⟨1, 1, #[0, 1], #[0], #[-4]⟩
        ([ConeSt.zero (α := Int) 1].map ConeSt.kktSpec) .triu with
    | error e => rw [ha] at h'; cases h'
    | ok r =>
      rw [ha] at h'
      simp only [Except.toOption, Option.map_some, Option.some.injEq] at h'
      have e0 := chkAsmEx_spec h
      have e1 := chkAsmEx_spec h'
      have eK : K0.KKT = (asmEx [5, 7, 0]).1 := congrArg Prod.fst e0
      have eM : K0.map = (asmEx [5, 7, 0]).2 := congrArg Prod.snd e0
      have hr : r = ({ K0.KKT with nzval := #[9, -4, 0] }, K0.map) := by
        rw [e1, eK, eM]
        rfl
      have hsz : (#[9, -4, 0] : Array Int).size = K0.KKT.nzval.size := by
        rw [eK]
        rfl
      rw [hr] at ha
      obtain ⟨K1, hK1, _, _, _, _, _, _, hkkt, hls, _, _, _, _, _, hval⟩ :=
        kktSolver_new_values_of_asm hn #[9, -4, 0] hsz ha
      refine ⟨_, _, _, _, _, _, _, _, _, K0, K1, #[9, -4, 0], hn, hsz, ha, hK1, hls, ?_, ?_, hval⟩
      · rw [hkkt]
      · rw [eK]
        rfl

end examples

end Clarabel.Update
