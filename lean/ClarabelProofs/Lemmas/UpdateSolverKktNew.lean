/-
  C08 on the whole-solver model: `DirectLDLKKTSolver::new` establishes `KInv` (C12's history invariant
  for the QDLDL object, one common length of the work vectors) and has one expansion map per sparse
  second-order cone.

  These are `nSp_eq_expansion` / `kktSolverNew_kinv` of `Lemmas/KktQwNew.lean` (C05), restated here under
  other names because that file imports C04's no-panic chain (`SolverModelNoPanicPass.lean`), which
  cannot be imported together with `Lemmas/SolverReport.lean` (both declare `Clarabel.Solver.PInv`) —
  and `Props/C08.lean` reaches `SolverReport.lean` through `Props/C01.lean`.  The proofs are the same.
-/
import ClarabelProofs.Lemmas.KktQwIdem
import ClarabelProofs.Lemmas.SolverModelNoPanicKktNew

namespace Clarabel.Solver
open Clarabel Clarabel.Qdldl Clarabel.Kkt
open Clarabel.Lemmas.KktSpec (KktInputs)

set_option linter.unusedSectionVars false
set_option linter.unusedVariables false

variable {α : Type}

section
variable [Add α] [Sub α] [Mul α] [Div α] [Neg α] [OfNat α 0] [OfNat α 1] [OfNat α 2]
  [OfNat α 100] [OfNat α 1000] [LT α] [DecidableLT α] [LE α] [DecidableLE α] [BEq α] [FloatLike α]

/-- one expansion map per sparse second-order cone -/
theorem nSp_eq_expansionU : ∀ {K : List (ConeSt α)}, ConesFull K →
    ((K.map ConeSt.kktSpec).filterMap expansionMap).length = nSp K
  | [], _ => rfl
  | c :: cs, h => by
    have ih := nSp_eq_expansionU (ConesFull.tail h)
    have hc := ConesFull.head h
    cases c with
    | zero d =>
      show ((ConeSpec.zero d :: cs.map ConeSt.kktSpec).filterMap expansionMap).length = nSp cs
      rw [List.filterMap_cons_none (by rfl)]
      exact ih
    | nonneg Kn =>
      show ((ConeSpec.nonneg Kn.w.size :: cs.map ConeSt.kktSpec).filterMap expansionMap).length = nSp cs
      rw [List.filterMap_cons_none (by rfl)]
      exact ih
    | soc Ks =>
      obtain ⟨_, _, _, hsp, _⟩ := hc
      show ((ConeSpec.soc Ks.dim :: cs.map ConeSt.kktSpec).filterMap expansionMap).length =
        (if Ks.sparse.isSome then 1 else 0) + nSp cs
      by_cases hd : Ks.dim > socNoExpansionMaxSize
      · have hs : Ks.sparse.isSome = true := by
          rw [hsp]; exact decide_eq_true hd
        have he : expansionMap (ConeSpec.soc Ks.dim) = some (.soc (Array.replicate Ks.dim 0)
            (Array.replicate Ks.dim 0) (Array.replicate 2 0)) := by
          simp only [expansionMap, hd, if_true]
        rw [List.filterMap_cons_some he, List.length_cons, ih, hs]
        simp only [if_true]
        omega
      · have hs : Ks.sparse.isSome = false := by
          rw [hsp]; exact decide_eq_false hd
        have he : expansionMap (ConeSpec.soc Ks.dim) = none := by
          simp only [expansionMap, hd, if_false]
        rw [List.filterMap_cons_none he, ih, hs]
        simp

/-- the invariant that `DirectLDLKKTSolver::new` establishes, as a family over `(specs, n, m)`
(the format of `solverNew_inv`) -/
def KNewInvU (specs : List ConeSpec) (n m : Nat) (Ks : KktSolver α) : Prop :=
  KInv Ks ∧ Ks.map.sparse_maps.size = (specs.filterMap expansionMap).length

theorem unwrapQdldl_okU {β : Type} {site : String} {x : MErr β} {v : β} (h : unwrapQdldl site x = .ok v) :
    x = .ok v := by
  cases x with
  | error e => cases e <;> cases h
  | ok w => cases h; rfl

/-- **`DirectLDLKKTSolver::new` establishes `KInv`** -/
theorem kktSolverNew_kinvU {d : ProblemData α} {K : List (ConeSt α)} {st : LinSettings α}
    {perm : Array Nat} {Ks : KktSolver α} (hin : KktInputs d.P d.A (K.map ConeSt.kktSpec)) (hd : DataOK d)
    (hps : perm.size = d.n + d.m + pdimAll (((K.map ConeSt.kktSpec).filterMap expansionMap).toArray))
    (hpos : 0 < d.n + d.m) (h : KktSolver.new d.P d.A K d.m d.n st perm = .ok Ks) :
    KNewInvU (K.map ConeSt.kktSpec) d.n d.m Ks := by
  obtain ⟨KK, map, hasm, hKm, hKn, hcan, hhs, hhslt, hdg, hdglt, hmaps, hcols⟩ :=
    assembly_facts hin (noGenpow_kktSpec K)
  rw [hd.A_n, hd.A_m] at hKm hKn
  have hpd : pdimAll map.sparse_maps =
      pdimAll (((K.map ConeSt.kktSpec).filterMap expansionMap).toArray) := by
    unfold pdimAll
    exact pdim_foldl_of_forall₂ hmaps 0
  have hsigns := fillSigns_eq d.m d.n map.sparse_maps
  generalize hdsg : (List.replicate d.n (1 : Int) ++ List.replicate d.m (-1)
      ++ (map.sparse_maps.toList.map SparseMap.dsigns).flatten).toArray = dsg at hsigns
  have hdsz : dsg.size = d.n + d.m + pdimAll map.sparse_maps := by
    rw [← hdsg, pdimAll_eq]
    simp only [List.size_toArray, List.length_append, List.length_replicate]
  unfold KktSolver.new at h
  dsimp only at h
  rw [hasm] at h
  obtain ⟨x, hx, h⟩ := bind_ok_inv h
  cases hx
  dsimp only at h
  obtain ⟨ds, hds, h⟩ := bind_ok_inv h
  rw [hsigns] at hds
  cases hds
  split at h
  · obtain ⟨_, ht, _⟩ := bind_ok_inv h
    cases ht
  obtain ⟨F, hF, h⟩ := bind_ok_inv h
  cases h
  have hF' := unwrapQdldl_okU hF
  obtain ⟨hw, hc, hnd⟩ := Clarabel.Lemmas.KktQdldlInput.qdldl_input_of_canonical KK hcan (by rw [hKm, hKn]) hcols
  have hnew := hF'
  unfold Qdldl.new at hnew
  obtain ⟨_, _, hnew⟩ := bind_ok_inv hnew
  obtain ⟨iperm, hip, _⟩ := bind_ok_inv hnew
  obtain ⟨P, mp, Ds, es, S⟩ := stages_of KK hw hc hnd (by rw [hKn]; omega) perm iperm hip
    (by rw [hps, hKn, hpd]) (some dsg) (fun ds' h => by cases h; rw [hdsz, hKn])
  obtain ⟨F', hF'', _, _, _, _, _, _, _, _, _, _, _, _, _, _, hH⟩ := new_logical S true st.dynRegEps st.dynRegDelta
  rw [hF'] at hF''
  cases hF''
  refine ⟨⟨⟨KK, perm, iperm, some dsg, P, mp, Ds, es, _, true, KK.nzval, S, rfl, hH⟩, rfl, rfl, rfl⟩, ?_⟩
  show map.sparse_maps.size = _
  rw [← hmaps.length_eq]
  simp


end

end Clarabel.Solver
