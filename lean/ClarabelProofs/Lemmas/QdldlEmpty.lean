/-
  C12: the empty (`0 × 0`) matrix.

  Since /repo 6c94e42 `_factor_inner` returns right after the workspace set-up when `n == 0`
  (before that it read `Ap[1]`, `D[0]`, `Dsigns[0]`: index out of bounds, known finding
  C12-empty-matrix-panic).  The only well-formed `0 × 0` CSC matrix is `⟨0,0,#[0],#[],#[]⟩`, the
  only ordering of length `0` is `#[]`, and on them `new`, `solve`, `refactor` compute by
  definitional unfolding.  With these facts the user-level theorems lose their `0 < n` hypothesis.
-/
import ClarabelProofs.Lemmas.QdldlHistoryMain
import ClarabelProofs.Lemmas.QdldlNewZeroPivot

namespace Clarabel.Qdldl

/-- the `0 × 0` matrix -/
def emptyCsc (α : Type) : Csc α := ⟨0, 0, #[0], #[], #[]⟩

theorem array_eq_empty {β : Type} (a : Array β) (h : a.size = 0) : a = #[] := by
  apply Array.ext
  · simpa using h
  · intro i h1 _; omega

/-- a well-formed square matrix without columns is the empty matrix -/
theorem eq_empty_of_n0 {α : Type} (A : Csc α) (hw : wellFormed A = true) (hc : checkStructure A = .ok ())
    (h0 : A.n = 0) : A = emptyCsc α := by
  have hA := InputOK.of_checks A hw hc
  have hsz := hA.tri.ap_size
  have hp0 := hA.p0
  have hpl := hA.plast
  have hv := hA.vsz
  have hm := hA.sq
  obtain ⟨m, n, cp, rv, nz⟩ := A
  simp only at h0 hsz hp0 hpl hv hm
  subst h0
  subst hm
  have hrv : rv.size = 0 := by rw [← hpl]; exact hp0
  have e1 : rv = #[] := array_eq_empty rv hrv
  have e2 : nz = #[] := array_eq_empty nz (by rw [← hv]; exact hrv)
  have e3 : cp = #[0] := by
    apply Array.ext
    · simpa using hsz
    · intro i h1 _
      have hi : i = 0 := by omega
      subst hi
      have : cp.getD 0 0 = cp[0] := by simp [Array.getD_eq_getD_getElem?, h1]
      rw [← this, hp0]; rfl
  subst e1 e2 e3
  rfl

section general
variable {α : Type} [Add α] [Sub α] [Mul α] [Div α] [Neg α] [OfNat α 0] [OfNat α 1] [LT α]
  [DecidableLT α] [BEq α] [FloatLike α]

/-- the factorisation object of the empty matrix -/
def emptyF (enable : Bool) (eps delta : α) (lg : Bool) : Factorisation α :=
  { perm := #[], iperm := #[], L := ⟨0, 0, #[0], #[], #[]⟩, D := #[], Dinv := #[], etree := #[], Lnz := #[],
    triuA := ⟨0, 0, #[0], #[], #[]⟩, AtoPAPt := #[], rp := ⟨#[], enable, eps, delta⟩,
    positiveInertia := 0, regularizeCount := 0, isSymbolic := lg }

/-- **`new` on the empty matrix returns `Ok`** with empty factors, numeric and logical -/
theorem new_empty (dsigns : Option (Array Int)) (enable : Bool) (eps delta : α) (lg : Bool) :
    new (emptyCsc α) #[] dsigns enable eps delta lg = .ok (emptyF enable eps delta lg) := by
  cases dsigns <;> cases lg <;> rfl

theorem solve_empty (enable : Bool) (eps delta : α) :
    solve (emptyF enable eps delta false) #[] = .ok #[] := rfl

theorem refactor_empty (enable : Bool) (eps delta : α) (lg : Bool) :
    refactor (emptyF enable eps delta lg) = .ok (emptyF enable eps delta false) := by
  cases lg <;> rfl

/-- `new` never panics on a valid input, `n = 0` included -/
theorem new_total' (A : Csc α) (hw : wellFormed A = true) (hc : checkStructure A = .ok ())
    (hnd : NoDupCols A.colptr A.rowval) (perm iperm : Array Nat)
    (hip : Perm.invperm perm = .ok iperm) (hps : perm.size = A.n) (dsigns : Option (Array Int))
    (hds : ∀ ds, dsigns = some ds → A.n ≤ ds.size) (enable : Bool) (eps delta : α) :
    (new A perm dsigns enable eps delta false = .error errZeroPivot ∨
      ∃ F, new A perm dsigns enable eps delta false = .ok F) ∧
    ∃ F, new A perm dsigns enable eps delta true = .ok F := by
  by_cases hn : 0 < A.n
  · exact new_total A hw hc hnd hn perm iperm hip hps dsigns hds enable eps delta
  · have h0 : A.n = 0 := by omega
    have hA := eq_empty_of_n0 A hw hc h0
    have hp : perm = #[] := array_eq_empty perm (by rw [hps, h0])
    subst hA hp
    exact ⟨Or.inr ⟨_, new_empty dsigns enable eps delta false⟩, _, new_empty dsigns enable eps delta true⟩

/-- a logical factorisation followed by `refactor` is a numeric `new`, `n = 0` included -/
theorem logical_then_refactor' (A : Csc α) (hw : wellFormed A = true) (hc : checkStructure A = .ok ())
    (hnd : NoDupCols A.colptr A.rowval) (perm iperm : Array Nat)
    (hip : Perm.invperm perm = .ok iperm) (hps : perm.size = A.n) (dsigns : Option (Array Int))
    (hds : ∀ ds, dsigns = some ds → A.n ≤ ds.size) (enable : Bool) (eps delta : α)
    (FL : Factorisation α) (hL : new A perm dsigns enable eps delta true = .ok FL) :
    refactor FL = new A perm dsigns enable eps delta false := by
  by_cases hn : 0 < A.n
  · obtain ⟨v, hv, _, h⟩ := history_refactor A hw hc hnd hn perm iperm hip hps dsigns hds enable eps delta
      true FL hL [] FL rfl
    have : v = A.nzval := (Except.ok.inj hv).symm
    subst this
    exact h
  · have h0 : A.n = 0 := by omega
    have hA := eq_empty_of_n0 A hw hc h0
    have hp : perm = #[] := array_eq_empty perm (by rw [hps, h0])
    subst hA hp
    rw [new_empty] at hL
    have : FL = emptyF enable eps delta true := (Except.ok.inj hL).symm
    subst this
    rw [refactor_empty, new_empty]

end general

section field
variable {α : Type} [Field α] [DecidableEq α] [LT α] [DecidableLT α] [FloatLike α]
open BigOperators Matrix

theorem newSpec_empty (dsigns : Option (Array Int)) (enable : Bool) (eps delta : α) :
    NewSpec (emptyCsc α) #[] dsigns enable eps delta (emptyF enable eps delta false) := by
  refine { perm_eq := rfl, numeric := rfl, triu_n := rfl, dsz := rfl, disz := rfl, lower := ?_,
           offdiag := ?_, diag := ?_, nz := ?_, inertia := rfl, regcount := rfl }
  · refine ⟨rfl, ?_, ?_, rfl, ?_⟩
    · intro c hc; exact absurd hc (Nat.not_lt_zero c)
    · intro c hc
      have : c = 0 := Nat.le_zero.mp hc
      subst this; exact Nat.le_refl _
    · intro c hc; exact absurd hc (Nat.not_lt_zero c)
  · intro r hr; exact absurd hr (Nat.not_lt_zero r)
  · intro r hr; exact absurd hr (Nat.not_lt_zero r)
  · intro c hc; exact absurd hc (Nat.not_lt_zero c)

/-- `new_correct` without `0 < n` -/
theorem new_correct' (A : Csc α) (hw : wellFormed A = true) (hc : checkStructure A = .ok ())
    (hnd : NoDupCols A.colptr A.rowval) (perm iperm : Array Nat)
    (hip : Perm.invperm perm = .ok iperm) (hps : perm.size = A.n) (dsigns : Option (Array Int))
    (hds : ∀ ds, dsigns = some ds → A.n ≤ ds.size) (enable : Bool) (eps delta : α) :
    (new A perm dsigns enable eps delta false = .error errZeroPivot ∨
      ∃ F, new A perm dsigns enable eps delta false = .ok F) ∧
    ∀ F, new A perm dsigns enable eps delta false = .ok F → NewSpec A perm dsigns enable eps delta F := by
  by_cases hn : 0 < A.n
  · exact new_correct A hw hc hnd hn perm iperm hip hps dsigns hds enable eps delta
  · have h0 : A.n = 0 := by omega
    have hA := eq_empty_of_n0 A hw hc h0
    have hp : perm = #[] := array_eq_empty perm (by rw [hps, h0])
    subst hA hp
    refine ⟨Or.inr ⟨_, new_empty dsigns enable eps delta false⟩, ?_⟩
    intro F hF
    rw [new_empty] at hF
    have : F = emptyF enable eps delta false := (Except.ok.inj hF).symm
    subst this
    exact newSpec_empty dsigns enable eps delta

/-- `new_solve` without `0 < n` -/
theorem new_solve' (A : Csc α) (hw : wellFormed A = true) (hc : checkStructure A = .ok ())
    (hnd : NoDupCols A.colptr A.rowval) (perm iperm : Array Nat)
    (hip : Perm.invperm perm = .ok iperm) (hps : perm.size = A.n) (dsigns : Option (Array Int))
    (hds : ∀ ds, dsigns = some ds → A.n ≤ ds.size) (eps delta : α) (F : Factorisation α)
    (hF : new A perm dsigns false eps delta false = .ok F) (b : Array α) (hb : b.size = A.n) :
    ∃ x, solve F b = .ok x ∧ x.size = A.n ∧
      Matrix.mulVec (Matrix.of fun i j : Fin A.n => symOf A i.val j.val) (fun j => x.getD j.val 0) =
        fun i => b.getD i.val 0 := by
  by_cases hn : 0 < A.n
  · exact new_solve A hw hc hnd hn perm iperm hip hps dsigns hds eps delta F hF b hb
  · have h0 : A.n = 0 := by omega
    have hA := eq_empty_of_n0 A hw hc h0
    have hp : perm = #[] := array_eq_empty perm (by rw [hps, h0])
    have hbe : b = #[] := array_eq_empty b (by rw [hb, h0])
    subst hA hp hbe
    rw [new_empty] at hF
    have : F = emptyF false eps delta false := (Except.ok.inj hF).symm
    subst this
    refine ⟨#[], solve_empty false eps delta, rfl, ?_⟩
    funext i
    exact absurd i.isLt (Nat.not_lt_zero _)

/-- `new_zeroPivot_iff` without `0 < n` -/
theorem new_zeroPivot_iff' (A : Csc α) (hw : wellFormed A = true) (hc : checkStructure A = .ok ())
    (hnd : NoDupCols A.colptr A.rowval) (perm iperm : Array Nat)
    (hip : Perm.invperm perm = .ok iperm) (hps : perm.size = A.n) (dsigns : Option (Array Int))
    (hds : ∀ ds, dsigns = some ds → A.n ≤ ds.size) (eps delta : α) :
    (new A perm dsigns false eps delta false = .error errZeroPivot ↔
      ∃ k, k < A.n ∧ refPivot (permSym A perm) k = 0) ∧
    ((∀ k, k < A.n → refPivot (permSym A perm) k ≠ 0) →
      ∃ F, new A perm dsigns false eps delta false = .ok F) ∧
    (∀ F, new A perm dsigns false eps delta false = .ok F →
      ∀ k, k < A.n → F.D.getD k 0 = refPivot (permSym A perm) k ∧ refPivot (permSym A perm) k ≠ 0) := by
  by_cases hn : 0 < A.n
  · exact new_zeroPivot_iff A hw hc hnd hn perm iperm hip hps dsigns hds eps delta
  · have h0 : A.n = 0 := by omega
    have hA := eq_empty_of_n0 A hw hc h0
    have hp : perm = #[] := array_eq_empty perm (by rw [hps, h0])
    subst hA hp
    refine ⟨⟨?_, ?_⟩, fun _ => ⟨_, new_empty dsigns false eps delta false⟩, ?_⟩
    · intro h; rw [new_empty] at h; cases h
    · rintro ⟨k, hk, _⟩; exact absurd hk (Nat.not_lt_zero k)
    · intro F _ k hk; exact absurd hk (Nat.not_lt_zero k)

end field

end Clarabel.Qdldl
