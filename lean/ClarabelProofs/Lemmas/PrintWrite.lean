/-
  Lemmas about the model of `impl Write for PrintTarget` (`ClarabelModel/PrintWrite.lean`):
  `write_all` over a sink that may accept short counts / answer `Interrupted` delivers every
  byte exactly once and in order.
-/
import ClarabelModel.PrintWrite

namespace Clarabel.Print

/-- the sink variant -/
def Target.isSink : Target → Bool
  | .sink => true
  | _ => false

/-- same variant of the enum -/
def Target.sameKind : Target → Target → Prop
  | .stdout _, .stdout _ => True
  | .file _, .file _ => True
  | .buffer _, .buffer _ => True
  | .stream _, .stream _ => True
  | .sink, .sink => True
  | _, _ => False

theorem Target.sameKind_refl (t : Target) : t.sameKind t := by cases t <;> trivial

theorem Target.sameKind_trans {a b c : Target} (h1 : a.sameKind b) (h2 : b.sameKind c) : a.sameKind c := by
  cases a <;> cases b <;> cases c <;> simp_all [Target.sameKind]

theorem Target.sameKind_isSink {a b : Target} (h : a.sameKind b) : a.isSink = b.isSink := by
  cases a <;> cases b <;> simp_all [Target.sameKind, Target.isSink]

/-- what one `write` on a device does, by the next scripted answer -/
theorem Dev.write_nil (d : Dev) (buf : Bytes) (h : d.script = []) :
    (d.write buf).1 = .ok buf.length ∧ (d.write buf).2.got = d.got ++ buf ∧ (d.write buf).2.script = [] := by
  unfold Dev.write; rw [h]; simp

theorem Dev.write_ok (d : Dev) (buf : Bytes) (k : Nat) (s : List WriteRes) (h : d.script = .ok k :: s) :
    (d.write buf).1 = .ok (min k buf.length) ∧ (d.write buf).2.got = d.got ++ buf.take k
      ∧ (d.write buf).2.script = s := by
  unfold Dev.write; rw [h]; simp

theorem Dev.write_interrupted (d : Dev) (buf : Bytes) (s : List WriteRes) (h : d.script = .interrupted :: s) :
    (d.write buf).1 = .error .interrupted ∧ (d.write buf).2.got = d.got ∧ (d.write buf).2.script = s := by
  unfold Dev.write; rw [h]; simp

theorem Dev.write_err (d : Dev) (buf : Bytes) (s : List WriteRes) (h : d.script = .err :: s) :
    (d.write buf).1 = .error .other ∧ (d.write buf).2.got = d.got ∧ (d.write buf).2.script = s := by
  unfold Dev.write; rw [h]; simp

/-- `PrintTarget::write`, summarised: the variant is kept; on `Ok(k)`, `k ≤ len` and exactly
the first `k` bytes are appended to what the sink holds (nothing for `Sink`); on an error
nothing is delivered; one scripted answer is used up. -/
theorem Target.write_spec (t : Target) (buf : Bytes) :
    t.sameKind (t.write buf).2
      ∧ (t.write buf).2.pending = t.pending.tail
      ∧ (match (t.write buf).1 with
         | .ok k => k ≤ buf.length
             ∧ (t.write buf).2.delivered = (if t.isSink then [] else t.delivered ++ buf.take k)
         | .error e => (t.write buf).2.delivered = t.delivered ∧ e ≠ .writeZero ∧ e ≠ .fuel) := by
  have hdev : ∀ d : Dev,
      (d.write buf).2.script = d.script.tail
        ∧ (match (d.write buf).1 with
           | .ok k => k ≤ buf.length ∧ (d.write buf).2.got = d.got ++ buf.take k
           | .error e => (d.write buf).2.got = d.got ∧ e ≠ .writeZero ∧ e ≠ .fuel) := by
    intro d
    cases hs : d.script with
    | nil =>
      obtain ⟨h1, h2, h3⟩ := Dev.write_nil d buf hs
      rw [h1, h2, h3]; simp
    | cons r s =>
      cases r with
      | ok k =>
        obtain ⟨h1, h2, h3⟩ := Dev.write_ok d buf k s hs
        rw [h1, h2, h3]; simp; omega
      | interrupted =>
        obtain ⟨h1, h2, h3⟩ := Dev.write_interrupted d buf s hs
        rw [h1, h2, h3]; simp
      | err =>
        obtain ⟨h1, h2, h3⟩ := Dev.write_err d buf s hs
        rw [h1, h2, h3]; simp
  cases t with
  | stdout d => exact ⟨trivial, (hdev d).1, by simpa [Target.write, Target.delivered, Target.isSink] using (hdev d).2⟩
  | file d => exact ⟨trivial, (hdev d).1, by simpa [Target.write, Target.delivered, Target.isSink] using (hdev d).2⟩
  | stream d => exact ⟨trivial, (hdev d).1, by simpa [Target.write, Target.delivered, Target.isSink] using (hdev d).2⟩
  | buffer b => simp [Target.write, Target.sameKind, Target.pending, Target.delivered, Target.isSink]
  | sink => simp [Target.write, Target.sameKind, Target.pending, Target.delivered, Target.isSink]

/-- the first answer decides the result of `write` -/
theorem Target.write_result (t : Target) (buf : Bytes) :
    (t.write buf).1 =
      (match t.pending with
       | [] => .ok buf.length
       | .ok k :: _ => .ok (min k buf.length)
       | .interrupted :: _ => .error .interrupted
       | .err :: _ => .error .other) := by
  have hdev : ∀ d : Dev, (d.write buf).1 =
      (match d.script with
       | [] => .ok buf.length
       | .ok k :: _ => .ok (min k buf.length)
       | .interrupted :: _ => .error .interrupted
       | .err :: _ => .error .other) := by
    intro d
    cases hs : d.script with
    | nil => exact (Dev.write_nil d buf hs).1
    | cons r s =>
      cases r with
      | ok k => exact (Dev.write_ok d buf k s hs).1
      | interrupted => exact (Dev.write_interrupted d buf s hs).1
      | err => exact (Dev.write_err d buf s hs).1
  cases t with
  | stdout d => exact hdev d
  | file d => exact hdev d
  | stream d => exact hdev d
  | buffer b => rfl
  | sink => rfl

/-- **no byte is lost, duplicated, reordered or invented**: whatever the sink answers, after
`write_all(buf)` it holds what it held before followed by a prefix of `buf`, and the whole of
`buf` when `write_all` returns `Ok`. -/
theorem Target.writeAllFuel_prefix (fuel : Nat) (t : Target) (buf : Bytes) :
    t.sameKind (t.writeAllFuel fuel buf).2
      ∧ ∃ k, k ≤ buf.length
          ∧ (t.writeAllFuel fuel buf).2.delivered = (if t.isSink then [] else t.delivered ++ buf.take k)
          ∧ ((t.writeAllFuel fuel buf).1 = .ok () → k = buf.length) := by
  induction fuel generalizing t buf with
  | zero =>
    unfold Target.writeAllFuel
    by_cases hb : buf.isEmpty = true
    · have : buf = [] := by simpa using hb
      subst this
      refine ⟨by simp [Target.sameKind_refl], 0, by simp, ?_, by simp⟩
      cases t <;> simp [Target.isSink, Target.delivered]
    · refine ⟨by simp [hb, Target.sameKind_refl], 0, by simp, ?_, by simp [hb]⟩
      cases t <;> simp [hb, Target.isSink, Target.delivered]
  | succ fuel ih =>
    unfold Target.writeAllFuel
    by_cases hb : buf.isEmpty = true
    · have : buf = [] := by simpa using hb
      subst this
      refine ⟨by simp [Target.sameKind_refl], 0, by simp, ?_, by simp⟩
      cases t <;> simp [Target.isSink, Target.delivered]
    · rw [if_neg hb]
      obtain ⟨hk, _, hw⟩ := Target.write_spec t buf
      have hsink := Target.sameKind_isSink hk
      -- split on the answer of the forwarded `write`
      rcases hres : t.write buf with ⟨res, t1⟩
      rw [hres] at hk hw hsink
      simp only at hk hw hsink
      cases res with
      | ok n =>
        obtain ⟨hn, hd⟩ := hw
        cases n with
        | zero =>
          refine ⟨hk, 0, by simp, ?_, by simp⟩
          simpa using hd
        | succ n =>
          obtain ⟨hk2, k', hk', hd', hok'⟩ := ih t1 (buf.drop (n + 1))
          refine ⟨Target.sameKind_trans hk hk2, n + 1 + k', ?_, ?_, ?_⟩
          · simp at hk'; omega
          · show (t1.writeAllFuel fuel (buf.drop (n + 1))).2.delivered = _
            rw [hd', ← hsink, hd]
            by_cases hs : t.isSink = true
            · simp [hs]
            · have hta : List.take (n + 1 + k') buf
                  = List.take (n + 1) buf ++ List.take k' (List.drop (n + 1) buf) := List.take_add
              simp only [hs, Bool.false_eq_true, ↓reduceIte, List.append_assoc]
              rw [hta]
          · intro hok
            have := hok' hok
            simp at this; omega
      | error e =>
        obtain ⟨hd, _, _⟩ := hw
        cases e with
        | interrupted =>
          obtain ⟨hk2, k', hk', hd', hok'⟩ := ih t1 buf
          refine ⟨Target.sameKind_trans hk hk2, k', hk', ?_, hok'⟩
          show (t1.writeAllFuel fuel buf).2.delivered = _
          rw [hd', ← hsink, hd]
        | other =>
          refine ⟨hk, 0, by simp, ?_, by simp⟩
          cases t <;> simp_all [Target.isSink, Target.delivered]
        | writeZero =>
          refine ⟨hk, 0, by simp, ?_, by simp⟩
          cases t <;> simp_all [Target.isSink, Target.delivered]
        | fuel =>
          refine ⟨hk, 0, by simp, ?_, by simp⟩
          cases t <;> simp_all [Target.isSink, Target.delivered]

/-- a sink that only ever answers short (non-zero) counts or `Interrupted` cannot make
`write_all` fail: with the fuel `writeAll` supplies the loop ends with `Ok(())`. -/
theorem Target.writeAllFuel_ok (fuel : Nat) (t : Target) (buf : Bytes)
    (hw : WellBehaved t.pending) (hf : t.pending.length < fuel ∨ buf = []) :
    (t.writeAllFuel fuel buf).1 = .ok ()
      ∧ WellBehaved (t.writeAllFuel fuel buf).2.pending := by
  induction fuel generalizing t buf with
  | zero =>
    rcases hf with hf | hf
    · omega
    · subst hf; simp [Target.writeAllFuel, hw]
  | succ fuel ih =>
    unfold Target.writeAllFuel
    by_cases hb : buf.isEmpty = true
    · simp [hb, hw]
    · rw [if_neg hb]
      have hne : buf ≠ [] := by simpa using hb
      have hlen : 0 < buf.length := List.length_pos_iff.mpr hne
      have hf : t.pending.length < fuel + 1 := by
        rcases hf with hf | hf
        · exact hf
        · exact absurd hf hne
      obtain ⟨_, hp, _⟩ := Target.write_spec t buf
      have hr := Target.write_result t buf
      rcases hres : t.write buf with ⟨res, t1⟩
      rw [hres] at hp hr
      simp only at hp hr
      have hw1 : WellBehaved t1.pending := by
        rw [hp]; intro r hr'; exact hw r (List.mem_of_mem_tail hr')
      cases hs : t.pending with
      | nil =>
        rw [hs] at hr hp
        simp only at hr
        subst hr
        -- everything is accepted; the rest is empty
        have hd : buf.drop buf.length = [] := List.drop_length
        cases hbl : buf.length with
        | zero => omega
        | succ n =>
          simp only
          have := ih t1 (buf.drop (n + 1)) hw1 (Or.inr (by rw [← hbl]; exact hd))
          exact this
      | cons r s =>
        rw [hs] at hr hp hf
        have hr0 := hw r (by rw [hs]; simp)
        have hf1 : t1.pending.length < fuel := by rw [hp]; simp at hf ⊢; omega
        cases r with
        | ok k =>
          simp only at hr
          subst hr
          have hk : k ≠ 0 := fun h => hr0.2 (by rw [h])
          cases hm : min k buf.length with
          | zero => omega
          | succ n =>
            simp only
            exact ih t1 (buf.drop (n + 1)) hw1 (Or.inl hf1)
        | interrupted =>
          simp only at hr
          subst hr
          simp only
          exact ih t1 buf hw1 (Or.inl hf1)
        | err => exact absurd rfl hr0.1

/-- `write_all` on a well-behaved sink: `Ok(())`, and the sink holds the old bytes followed by
the whole slice -/
theorem Target.writeAll_delivered (t : Target) (buf : Bytes) (hw : WellBehaved t.pending) :
    (t.writeAll buf).1 = .ok ()
      ∧ (t.writeAll buf).2.delivered = (if t.isSink then [] else t.delivered ++ buf)
      ∧ t.sameKind (t.writeAll buf).2
      ∧ WellBehaved (t.writeAll buf).2.pending := by
  unfold Target.writeAll
  obtain ⟨hok, hwb⟩ := Target.writeAllFuel_ok (t.pending.length + 1) t buf hw (Or.inl (by omega))
  obtain ⟨hk, k, _, hd, hfull⟩ := Target.writeAllFuel_prefix (t.pending.length + 1) t buf
  refine ⟨hok, ?_, hk, hwb⟩
  rw [hd, hfull hok, List.take_length]

/-- a print function (`write_all` for every piece, `?` after each) on a well-behaved sink -/
theorem Target.writePieces_delivered (t : Target) (ps : List Bytes) (hw : WellBehaved t.pending) :
    (t.writePieces ps).1 = .ok ()
      ∧ (t.writePieces ps).2.delivered = (if t.isSink then [] else t.delivered ++ ps.flatten)
      ∧ t.sameKind (t.writePieces ps).2
      ∧ WellBehaved (t.writePieces ps).2.pending := by
  induction ps generalizing t with
  | nil =>
    refine ⟨rfl, ?_, Target.sameKind_refl t, hw⟩
    cases t <;> simp [Target.writePieces, Target.isSink, Target.delivered]
  | cons p ps ih =>
    obtain ⟨h1, h2, h3, h4⟩ := Target.writeAll_delivered t p hw
    unfold Target.writePieces
    rcases hres : t.writeAll p with ⟨res, t1⟩
    rw [hres] at h1 h2 h3 h4
    simp only at h1 h2 h3 h4
    subst h1
    simp only
    obtain ⟨i1, i2, i3, i4⟩ := ih t1 h4
    refine ⟨i1, ?_, Target.sameKind_trans h3 i3, i4⟩
    rw [i2, ← Target.sameKind_isSink h3, h2]
    by_cases hs : t.isSink = true
    · simp [hs]
    · simp [hs]

/-- on failure the pieces already written stay, followed by a prefix of the piece that failed:
the sink always holds a prefix of the intended output -/
theorem Target.writePieces_prefix (t : Target) (ps : List Bytes) (ht : t.isSink = false) :
    ∃ rest, (t.writePieces ps).2.delivered ++ rest = t.delivered ++ ps.flatten := by
  induction ps generalizing t with
  | nil => exact ⟨[], by simp [Target.writePieces]⟩
  | cons p ps ih =>
    obtain ⟨hk, k, hk', hd, hfull⟩ := Target.writeAllFuel_prefix (t.pending.length + 1) t p
    unfold Target.writePieces
    have hw : t.writeAll p = t.writeAllFuel (t.pending.length + 1) p := rfl
    rcases hres : t.writeAll p with ⟨res, t1⟩
    rw [hw.symm.trans hres] at hk hd hfull
    simp only [ht, Bool.false_eq_true, ↓reduceIte] at hk hd hfull
    cases res with
    | ok u =>
      simp only
      have hs1 : t1.isSink = false := by rw [← Target.sameKind_isSink hk]; exact ht
      obtain ⟨rest, hr⟩ := ih t1 hs1
      refine ⟨rest, ?_⟩
      rw [hr, hd, hfull rfl, List.take_length]; simp
    | error e =>
      simp only
      refine ⟨p.drop k ++ ps.flatten, ?_⟩
      rw [hd, List.append_assoc, ← List.append_assoc (List.take k p), List.take_append_drop]
      simp

/-- forgetting the sink: a successful `write_all` is the coarse `PrintTarget.write` of
`Print.lean` (the model the older theorems are stated on) -/
theorem Target.writeAll_abs (t : Target) (buf : Bytes) (hw : WellBehaved t.pending) :
    ((t.writeAll buf).2.abs).delivered = (t.abs.write buf).delivered
      ∧ ((t.writeAll buf).2.abs = .sink ↔ t.abs = .sink) := by
  obtain ⟨_, h2, h3, _⟩ := Target.writeAll_delivered t buf hw
  have habs : ∀ u : Target, u.abs.delivered = u.delivered := by
    intro u; cases u <;> rfl
  have hsinkabs : ∀ u : Target, u.abs = .sink ↔ u.isSink = true := by
    intro u; cases u <;> simp [Target.abs, Target.isSink]
  refine ⟨?_, ?_⟩
  · rw [habs, h2]
    cases t <;> simp [Target.abs, PrintTarget.write, PrintTarget.delivered, Target.isSink, Target.delivered]
  · rw [hsinkabs, hsinkabs, Target.sameKind_isSink h3]

end Clarabel.Print
