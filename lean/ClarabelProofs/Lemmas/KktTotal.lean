/-
  `assemble_kkt_matrix` END TO END: for canonical upper-triangular `P` (n×n), canonical `A`
  (m×n) and every cone list with `Σ numel = m`, in either triangle layout, the model's
  `assembleKktMatrix` returns WITHOUT ERROR, and the result is the run of the fill engine over
  `kktSchedule` from counters that are exactly the column counts (`assembleKktMatrix_run`).
-/
import ClarabelModel.Kkt
import ClarabelProofs.Lemmas.KktFillRun
import ClarabelProofs.Lemmas.KktAssembly
import ClarabelProofs.Lemmas.KktSortedTril

set_option linter.unusedSectionVars false
set_option linter.unusedVariables false

namespace Clarabel.Lemmas.KktTotal
open Clarabel Clarabel.Csc Clarabel.Kkt Clarabel.Lemmas.KktPlace Clarabel.Lemmas.KktFillLink
open Clarabel.Lemmas.KktRun Clarabel.Lemmas.KktSlots Clarabel.Lemmas.KktFillMaps
open Clarabel.Lemmas.KktFillRun Clarabel.Lemmas.KktCount Clarabel.Lemmas.KktAssembly
open Clarabel.Lemmas.KktSorted Clarabel.Lemmas.KktSortedTril Clarabel.Lemmas.KktLength

variable {α : Type} [OfNat α 0]

/-- order of the KKT matrix -/
def kktDim (A : Csc α) (cones : List ConeSpec) : Nat := A.n + A.m + (cones.map conePdim).sum

/-- counters that are exactly the column counts of `sched` make `sched` runnable -/
theorem ready_of_counts (Kc : Csc α) (sched : List (Entry α)) (N : Nat)
    (hsz : Kc.colptr.size = N + 1)
    (hget : ∀ c, c < N + 1 → Kc.colptr[c]? = some (cnt c sched))
    (hcols : ∀ e ∈ sched, e.readCol < N)
    (hsum : Kc.colptr.toList.sum = sched.length)
    (hr : Kc.rowval.size = sched.length) (hz : Kc.nzval.size = sched.length) :
    Ready (colcountToColptr Kc) sched := by
  have hcap : ∀ c x, Kc.colptr.toList[c]? = some x → cnt c sched ≤ x := by
    intro c x hx
    have hc' : c < N + 1 := by
      rcases List.getElem?_eq_some_iff.mp hx with ⟨h, _⟩
      simpa [hsz] using h
    have := hget c hc'
    rw [← Array.getElem?_toList, hx] at this
    cases this; exact Nat.le_refl _
  have hlen : Kc.colptr.toList.length = N + 1 := by simpa using hsz
  refine ⟨rangesDisjoint_cumsum Kc.colptr.toList sched hcap, ?_⟩
  intro i e he
  have hcol := hcols e (List.mem_of_getElem? he)
  have hx : Kc.colptr.toList[e.readCol]? = some (cnt e.readCol sched) := by
    rw [Array.getElem?_toList]; exact hget _ (by omega)
  have hp : (colcountToColptr Kc).colptr[e.readCol]?
      = some ((Kc.colptr.toList.take e.readCol).sum) := by
    show (exclusiveCumsum Kc.colptr.toList).toArray[e.readCol]? = _
    rw [exclusiveCumsum_eq]
    simp only [List.getElem?_toArray, List.getElem?_map]
    rw [List.getElem?_range (by omega)]
    rfl
  refine ⟨(Kc.colptr.toList.take e.readCol).sum + cnt e.readCol (sched.take i), ?_, ?_⟩
  · unfold destOf
    rw [he]
    simp only [Option.bind_some, hp, Option.map_some]
  · have h1 := cnt_take_lt sched i e he
    have h2 := sum_take_succ_le Kc.colptr.toList e.readCol (N + 1) _ (by omega) hx
    rw [← hlen, List.take_length, hsum] at h2
    show _ < min (colcountToColptr Kc).rowval.size (colcountToColptr Kc).nzval.size
    show _ < min Kc.rowval.size Kc.nzval.size
    omega

/-- every column of the upper-triangular schedule is non-empty (it ends with its diagonal) -/
theorem cnt_pos_triu (P A : Csc α) (cones : List ConeSpec) (sched : List (Entry α))
    (hP : Canon P) (hPt : IsTriu P) (hPsq : P.m = P.n) (hA : Canon A) (hn : P.n = A.n)
    (hm : (cones.map ConeSpec.numel).sum = A.m)
    (hs : kktSchedule P A cones .triu = .ok sched) (c : Nat) (hc : c < kktDim A cones) :
    0 < cnt c sched := by
  obtain ⟨_, hlast⟩ := kktSchedule_triu_sorted P A cones sched hP hPt hPsq hA hn hm hs c hc
  have hlen : (colRowsOf sched c).length = cnt c sched := by
    unfold colRowsOf cnt
    rw [List.length_map, List.countP_eq_length_filter]
  rw [← hlen]
  cases hl : colRowsOf sched c with
  | nil => rw [hl] at hlast; simp at hlast
  | cons x xs => simp

/-- what the two passes of `assemble_kkt_matrix` achieve together -/
structure AsmRun (P A : Csc α) (cones : List ConeSpec) (shape : MatrixTriangle)
    (K : Csc α) (map : LDLDataMap) (sched : List (Entry α)) (Kc : Csc α) (nd : Nat) : Prop where
  ok : assembleKktMatrix P A cones shape = .ok (K, map)
  sched_ok : kktSchedule P A cones shape = .ok sched
  nd_ok : P.countDiagonalEntries .triu = .ok nd
  len : sched.length = nnzKKT P A cones nd
  kc_size : Kc.colptr.size = kktDim A cones + 1
  kc_get : ∀ c, c < kktDim A cones + 1 → Kc.colptr[c]? = some (cnt c sched)
  kc_rowval : Kc.rowval.size = sched.length
  kc_nzval : Kc.nzval.size = sched.length
  kc_m : Kc.m = kktDim A cones
  kc_n : Kc.n = kktDim A cones
  cols : ∀ e ∈ sched, e.readCol < kktDim A cones ∧ e.row < kktDim A cones ∧ e.incCol = e.readCol
  fill : FillOut Kc P A cones shape sched K map
  sizes : map.P.size = P.nnz ∧ map.A.size = A.nnz ∧ map.Hsblocks.size = hsblocksLen cones ∧
    map.sparse_maps.size = (cones.filterMap expansionMap).length

/-- **`assemble_kkt_matrix` never panics** on canonical data, and is one run of the fill engine
over `kktSchedule` from exact column counts. -/
theorem assembleKktMatrix_run (P A : Csc α) (cones : List ConeSpec) (shape : MatrixTriangle)
    (hP : Canon P) (hPt : IsTriu P) (hPsq : P.m = P.n) (hA : Canon A) (hn : P.n = A.n)
    (hm : (cones.map ConeSpec.numel).sum = A.m) :
    ∃ K map sched Kc nd, AsmRun P A cones shape K map sched Kc nd := by
  obtain ⟨nd, hnd⟩ := countDiagonalEntries_exists hP
  obtain ⟨sched, hs⟩ := kktSchedule_exists P A cones shape hP hA
  obtain ⟨hndle, hlen, hPnnz, hAnnz⟩ := kktSchedule_length P A cones shape sched nd hP hA hn hs hnd
  have hcols := kktSchedule_cols_lt P A cones shape sched hP hPt hPsq hA hn hm hs
  have hp : pdimAll (LDLDataMap.new P A cones).sparse_maps = (cones.map conePdim).sum :=
    pdim_filterMap cones
  have hN : A.m + A.n + pdimAll (LDLDataMap.new P A cones).sparse_maps = kktDim A cones := by
    unfold kktDim; omega
  have hK0sz : (spalloc (A.m + A.n + pdimAll (LDLDataMap.new P A cones).sparse_maps)
      (A.m + A.n + pdimAll (LDLDataMap.new P A cones).sparse_maps)
      (nnzKKT P A cones nd) : Csc α).colptr.size = kktDim A cones + 1 := by
    simp [spalloc, hN]
  obtain ⟨Kc, hKc⟩ := kktAssembleColcounts_exists _ P A cones shape hP hPsq hA hn hm
    (by rw [hK0sz]; rfl)
  have hcnt := kktAssembleColcounts_counts _ Kc P A cones shape sched (wf_of_canon hP)
    (wf_of_canon hA) hKc hs
  have hfr := kktAssembleColcounts_frame _ Kc P A cones shape sched (wf_of_canon hP)
    (wf_of_canon hA) hKc hs
  have hsum := kktAssembleColcounts_nnz _ Kc P A cones shape sched (wf_of_canon hP)
    (wf_of_canon hA) hKc hs (by
      intro e he
      rw [hK0sz]
      have := (hcols e he).1
      unfold kktDim; omega)
  rw [hK0sz] at hcnt
  obtain ⟨hKcsz, hKcget⟩ := hcnt
  have hKr : Kc.rowval.size = sched.length := by rw [hfr.2.2.1, hlen]; simp [spalloc]
  have hKz : Kc.nzval.size = sched.length := by rw [hfr.2.2.2, hlen]; simp [spalloc]
  have hready := ready_of_counts Kc sched (kktDim A cones) hKcsz hKcget
    (fun e he => (hcols e he).1) hsum hKr hKz
  obtain ⟨K, map, hfill, hout, z1, z2, z3, z4⟩ := kktAssembleFill_run Kc P A cones (LDLDataMap.new P A cones)
    shape sched (kktDim A cones) hP hA hs hready
    (by show P.rowval.size ≤ (Array.replicate P.nnz 0).size; simp [hPnnz])
    (by show A.rowval.size ≤ (Array.replicate A.nnz 0).size; simp [hAnnz])
    (by show _ ≤ (Array.replicate (hsblocksLen cones) 0).size; simp [hsblocksLen_eq_sum])
    (by show MapsFitD cones (cones.filterMap expansionMap).toArray.toList
        exact mapsFitD_filterMap cones)
    hKcsz
    (by show (Array.replicate (A.m + P.m + pdimAll (LDLDataMap.new P A cones).sparse_maps) 0).size = _
        simp; unfold kktDim; omega)
    (by show (Array.replicate P.m 0).size = _; simp; omega)
    (by unfold kktDim; omega)
    (by
      intro htri c hc
      subst htri
      exact cnt_pos_triu P A cones sched hP hPt hPsq hA hn hm hs c hc)
  refine ⟨K, map, sched, Kc, nd, ?_, hs, hnd, hlen, hKcsz, hKcget, hKr, hKz, ?_, ?_, hcols, hout,
    ⟨by rw [z1]; simp [LDLDataMap.new], by rw [z2]; simp [LDLDataMap.new],
     by rw [z3]; simp [LDLDataMap.new], by rw [z4]; simp [LDLDataMap.new]⟩⟩
  · unfold assembleKktMatrix
    have g1 : getE P.colptr P.n "P.nnz()" = .ok P.colptr[P.n]! :=
      getE_lt (by rw [hP.colptr_size]; omega)
    have g2 : getE A.colptr A.n "A.nnz()" = .ok A.colptr[A.n]! :=
      getE_lt (by rw [hA.colptr_size]; omega)
    have g3 : ¬ (P.nnz + A.n < nd) := by omega
    simp only [hnd, g1, g2, bind, Except.bind, if_neg g3, hKc]
    exact hfill
  · rw [hfr.1]; simp [spalloc, hN]
  · rw [hfr.2.1]; simp [spalloc, hN]

end Clarabel.Lemmas.KktTotal
