/-
  C07, round 7: non-vacuity of `StepKPsdLapack.lean` / `StepKPsdInit.lean` — a `1 × 1` PSD block
  next to a nonnegative block, from `unit_initialization` through one accepted pass whose LAPACK
  results meet their contracts.
-/
import ClarabelProofs.Lemmas.StepKPsdInit
import ClarabelProofs.Lemmas.StepKPsdEig

namespace Clarabel.StepK
open Clarabel Nonsym Loop.Step PsdStep PsdTri Matrix

section example_lapack

/-- the scaling `update_scaling` assembles at `s = z = (1)` from `L₁ = L₂ = U = Vt = σ = (1)` -/
def exKL : PsdTri.Cone ℝ := ⟨1, #[1], #[1], #[1], #[1], #[1]⟩

theorem exKL_assemble :
    assembleScaling 1 (#[1] : Array ℝ) #[1] #[1] #[1] #[1] = .ok (exKL, #[1]) := by
  simp [assembleScaling, sizeGuard, exKL, colMajor, matOf, sumN, skronPacked, packed, symView,
    skronEntry, unpack, unpackGo, PsdIndex.triangularNumber, bind, Except.bind, pure, Except.pure]

/-- `update_scaling` at `s = z = (1)` with those LAPACK results succeeds and leaves `exKL` -/
theorem exKL_update :
    updateScaling exKL (#[1] : Array ℝ) #[1] ⟨some #[1], some #[1], some (#[1], #[1], #[1])⟩
      = .ok (true, exKL) := by
  rw [updateScaling_success exKL #[1] #[1] #[1] #[1] #[1] #[1] #[1] rfl ⟨rfl, rfl⟩]
  show (assembleScaling 1 (#[1] : Array ℝ) #[1] #[1] #[1] #[1]).map _ = _
  rw [exKL_assemble]
  rfl

/-- the LAPACK contracts hold for `mat s = mat z = (1)`: `1 = 1·1ᵀ`, `1ᵀ·1 = 1·diag(1)·1`,
`1ᵀ·1 = I`, `σ = 1 > 0` -/
theorem exKL_lapack : ScalingLapackOk 1 (#[1] : Array ℝ) #[1] #[1] #[1] #[1] #[1] #[1] := by
  have e : ∀ (P Q : Matrix (Fin 1) (Fin 1) ℝ), P 0 0 = Q 0 0 → P = Q := by
    intro P Q h
    ext i j
    have hi : i = 0 := Subsingleton.elim _ _
    have hj : j = 0 := Subsingleton.elim _ _
    subst hi hj
    exact h
  refine ⟨e _ _ ?_, e _ _ ?_, e _ _ ?_, e _ _ ?_, e _ _ ?_, ?_⟩
  · simp [Matrix.mul_apply, toM, matOf, svecToMat, PsdIndex.triangularNumber]
  · simp [Matrix.mul_apply, toM, matOf, svecToMat, PsdIndex.triangularNumber]
  · simp [Matrix.mul_apply, toM, matOf]
  · simp [Matrix.mul_apply, toM, matOf]
  · simp [Matrix.mul_apply, toM, matOf]
  · intro i hi
    have : i = 0 := by omega
    subst this
    simp

/-- the PSD block of the pass: scaling `exKL`, `z = s = (1)`, `Δz = Δs = (−2)`, both `?syevr`
answers `−2` — it meets `Blk.LapackOk` -/
theorem lapackOk_example : (Blk.psd exKL (some (-2)) (some (-2)) #[1] #[1] #[-2] #[-2]).LapackOk := by
  refine ⟨rfl, ⟨exKL, #[1], #[1], #[1], #[1], #[1], exKL_update, exKL_lapack⟩, -2, -2, rfl, rfl, ?_, ?_⟩
  · intro d h
    simp [exKL, PsdTri.mulW, PsdTri.mulWx, PsdTri.sizeGuard, PsdIndex.triangularNumber,
      PsdTri.mulWxInner, PsdTri.matToSvec, PsdTri.packed, PsdTri.gemm, PsdTri.mm, PsdTri.tr,
      PsdTri.matOf, PsdTri.svecToMat, PsdTri.sumN, PsdTri.isZero, bind, Except.bind, pure,
      Except.pure] at h
    subst h
    refine ⟨?_, fun _ => 1, ?_, ?_⟩
    · intro v
      simp [exKL, PsdStep.nrm2, PsdStep.qform, PsdStep.scaledDir, PsdTri.svecToMat,
        PsdIndex.triangularNumber]
      linarith
    · simp [exKL, PsdStep.nrm2]
    · simp [exKL, PsdStep.nrm2, PsdStep.qform, PsdStep.scaledDir, PsdTri.svecToMat,
        PsdIndex.triangularNumber]
  · intro d h
    simp [exKL, PsdTri.mulWinv, PsdTri.mulWx, PsdTri.sizeGuard, PsdIndex.triangularNumber,
      PsdTri.mulWxInner, PsdTri.matToSvec, PsdTri.packed, PsdTri.gemm, PsdTri.mm, PsdTri.tr,
      PsdTri.matOf, PsdTri.svecToMat, PsdTri.sumN, PsdTri.isZero, bind, Except.bind, pure,
      Except.pure] at h
    subst h
    refine ⟨?_, fun _ => 1, ?_, ?_⟩
    · intro v
      simp [exKL, PsdStep.nrm2, PsdStep.qform, PsdStep.scaledDir, PsdTri.svecToMat,
        PsdIndex.triangularNumber]
      linarith
    · simp [exKL, PsdStep.nrm2]
    · simp [exKL, PsdStep.nrm2, PsdStep.qform, PsdStep.scaledDir, PsdTri.svecToMat,
        PsdIndex.triangularNumber]

/-- the problem before initialisation: a nonnegative and a `1 × 1` PSD block, everything zero -/
def exInitL : Pt ℝ :=
  { x := #[], dx := #[],
    blks := [.nn #[0] #[0] #[] #[], .psd exKL none none #[0] #[0] #[] #[]],
    τ := 0, κ := 0, dτ := 0, dκ := 0 }

/-- the iterate after `unit_initialization`: `z = s = 1` on the nonnegative block, `svec(I) = (1)`
on the PSD block, `τ = κ = 1` -/
def exStartL : Pt ℝ :=
  { x := #[], dx := #[],
    blks := [.nn #[1] #[1] #[] #[], .psd exKL none none #[1] #[1] #[] #[]],
    τ := 1, κ := 1, dτ := 0, dκ := 0 }

theorem exInitL_shape : ∀ b ∈ exInitL.blks, b.UnitShapeAll := by
  intro b hb
  simp only [exInitL, List.mem_cons, List.not_mem_nil, or_false] at hb
  rcases hb with rfl | rfl
  · rfl
  · exact ⟨rfl, rfl⟩

theorem exInitL_unit : unitInitialization exInitL = .ok exStartL := by
  simp [unitInitialization, exInitL, exStartL, Blk.unitInit, Nonneg.unitInitialization,
    PsdIndex.unitInitialization, PsdIndex.scaledUnitShift, PsdIndex.triangularIndex, getE, setE, exKL,
    bind, Except.bind, pure, Except.pure]

/-- the first pass: same point as `exStartL`, direction `Δz = Δs = −1` (nonnegative block),
`(−2)` (PSD block), the scaling and eigenvalue answers of `lapackOk_example` -/
def exPassL : Pt ℝ :=
  { x := #[], dx := #[],
    blks := [.nn #[1] #[1] #[-1] #[-1],
             .psd exKL (some (-2)) (some (-2)) #[1] #[1] #[-2] #[-2]],
    τ := 1, κ := 1, dτ := 0, dκ := 0 }

theorem exPassL_lapack : LapackPassOk exPassL := by
  intro b hb
  simp only [exPassL, List.mem_cons, List.not_mem_nil, or_false] at hb
  rcases hb with rfl | rfl
  · trivial
  · exact lapackOk_example

theorem exPassL_dirOk : exPassL.DirOk := by
  intro b hb
  simp only [exPassL, List.mem_cons, List.not_mem_nil, or_false] at hb
  rcases hb with rfl | rfl
  · exact ⟨rfl, rfl⟩
  · exact ⟨rfl, rfl⟩

theorem exPassL_samePoint : Pt.SamePoint exStartL exPassL :=
  ⟨rfl, rfl, rfl, List.Forall₂.cons (Blk.SamePoint.nn _ _ _ _ _ _)
    (List.Forall₂.cons (Blk.SamePoint.psd _ _ _ _ _ _ _ _ _ _ _ _) List.Forall₂.nil)⟩

/-- `calc_step_length` on `exPassL`: the nonnegative block allows `1`, the PSD block
`min(−1/γ, 1) = 1/2`, the combined step is `0.99 · 1/2` -/
theorem exPassL_calc : calcStepLength (100 : ℝ) ⟨4 / 5, 1 / 10000, 100⟩ exPassL true (99 / 100)
    = .ok (99 / 200) := by
  simp only [calcStepLength, exPassL, coneStep, alphaMax, ratio, Composite.stepLength,
    Composite.inner, List.map_cons, List.map_nil, Blk.coneFn, List.foldlM_cons, List.foldlM_nil,
    Nonneg.stepLength, Nonneg.stepComponent, Nonneg.ratio, List.all_cons, List.all_nil, bind,
    Except.bind, pure, Except.pure]
  simp [exKL, PsdStep.stepLength, PsdStep.stepLengthPsdComponent, PsdTri.mulWx, PsdTri.sizeGuard,
    PsdIndex.triangularNumber, PsdTri.mulWxInner, PsdTri.matToSvec, PsdTri.packed, PsdTri.gemm,
    PsdTri.mm, PsdTri.tr, PsdTri.matOf, PsdTri.svecToMat, PsdTri.sumN, PsdTri.isZero, bind,
    Except.bind, pure, Except.pure]
  norm_num [FloatLike.fmin]

/-- an accepted pass from the iterate `unit_initialization` produced, its LAPACK calls meeting their
contracts -/
theorem exPassL_accepted : ∃ cfg : Loop.Config ℝ, ∃ p',
    AcceptedPassL ⟨100, ⟨4 / 5, 1 / 10000, 100⟩, 99 / 100, 4 / 5⟩ cfg .PrimalDual exStartL p' := by
  let t : Loop.Tols ℝ := ⟨0, 0, 0, 0, 0, 0⟩
  refine ⟨⟨10, 0, false, t, t, 1 / 10, 1 / 10000, true, true, true⟩, addStep exPassL (99 / 200),
    exPassL, 99 / 200, 99 / 200, exPassL_samePoint, exPassL_dirOk, exPassL_lapack, exPassL_calc,
    Or.inl rfl, ?_⟩
  simp only [acceptStep, Loop.cpSmallStep]
  norm_num [FloatLike.fmax]

/-- the hypotheses of `accepted_eigvals_answered` on that pass -/
theorem exPassL_accept_parts : ∃ cfg : Loop.Config ℝ, ∃ p',
    calcStepLength (100 : ℝ) ⟨4 / 5, 1 / 10000, 100⟩ exPassL true (99 / 100) = .ok (99 / 200) ∧
    Backtracked (4 / 5) (99 / 200) (99 / 200) ∧
    acceptStep cfg .PrimalDual exPassL (99 / 200) = some p' ∧
    Blk.psd exKL (some (-2)) (some (-2)) #[1] #[1] #[-2] #[-2] ∈ exPassL.blks ∧ 0 < exKL.n := by
  let t : Loop.Tols ℝ := ⟨0, 0, 0, 0, 0, 0⟩
  refine ⟨⟨10, 0, false, t, t, 1 / 10, 1 / 10000, true, true, true⟩, addStep exPassL (99 / 200),
    exPassL_calc, Or.inl rfl, ?_, by simp [exPassL], by decide⟩
  simp only [acceptStep, Loop.cpSmallStep]
  norm_num [FloatLike.fmax]

/-- a two-point trajectory from `unit_initialization`, all hypotheses of `TrajL.interiorAllP_unit`
met -/
theorem exTrajL_unit : ∃ (cfg : Loop.Config ℝ) (p' : Pt ℝ),
    (∀ b ∈ exInitL.blks, b.UnitShapeAll) ∧ unitInitialization exInitL = .ok exStartL ∧
    TrajL ⟨100, ⟨4 / 5, 1 / 10000, 100⟩, 99 / 100, 4 / 5⟩ cfg exStartL [p', exStartL] := by
  obtain ⟨cfg, p', h⟩ := exPassL_accepted
  exact ⟨cfg, p', exInitL_shape, exInitL_unit, .step _ .start h⟩

/-! ### `symmetric_initialization` with a PSD block -/

/-- an NN cone and a `1 × 1` PSD cone, `z = (−1, 2 | −3)` with eigenvalue list `(−3)`,
`s = (1, 1 | 5)` with eigenvalue list `(5)`: the hypotheses of `symmetric_init_interiorAllP` -/
theorem exSymInit_hyps :
    (∀ sp ∈ [Composite.Spec.nonneg 2, .psd 1], Composite.SymSpecE sp) ∧
    Composite.totalNumel [.nonneg 2, .psd 1] ≤ (#[-1, 2, -3] : Array ℝ).size ∧
    Composite.totalNumel [.nonneg 2, .psd 1] ≤ (#[1, 1, 5] : Array ℝ).size ∧
    Composite.EigContracts [.nonneg 2, .psd 1] (#[-1, 2, -3] : Array ℝ) [none, some #[-3]] ∧
    Composite.EigContracts [.nonneg 2, .psd 1] (#[1, 1, 5] : Array ℝ) [none, some #[5]] := by
  refine ⟨?_, by simp [Composite.totalNumel, Composite.Spec.numel, PsdIndex.triangularNumber],
    by simp [Composite.totalNumel, Composite.Spec.numel, PsdIndex.triangularNumber], ⟨rfl, ?_⟩,
    ⟨rfl, ?_⟩⟩
  · intro sp hsp
    simp only [List.mem_cons, List.not_mem_nil, or_false] at hsp
    rcases hsp with rfl | rfl <;> simp [Composite.SymSpecE]
  · intro parts hparts pe hpe
    simp [Composite.cut, Composite.cutL, Composite.Spec.numel, PsdIndex.triangularNumber, bind,
      Except.bind, pure, Except.pure] at hparts
    subst hparts
    simp only [List.zip_cons_cons, List.zip_nil_right, List.mem_cons, List.not_mem_nil,
      or_false] at hpe
    rcases hpe with rfl | rfl
    · trivial
    · intro _
      refine ⟨#[-3], rfl, by simp, -3, by simp, by simp, ?_⟩
      intro v
      simp [PsdStep.nrm2, PsdStep.qform, PsdTri.svecToMat, PsdIndex.triangularNumber]
      linarith
  · intro parts hparts pe hpe
    simp [Composite.cut, Composite.cutL, Composite.Spec.numel, PsdIndex.triangularNumber, bind,
      Except.bind, pure, Except.pure] at hparts
    subst hparts
    simp only [List.zip_cons_cons, List.zip_nil_right, List.mem_cons, List.not_mem_nil,
      or_false] at hpe
    rcases hpe with rfl | rfl
    · trivial
    · intro _
      refine ⟨#[5], rfl, by simp, 5, by simp, by simp, ?_⟩
      intro v
      simp [PsdStep.nrm2, PsdStep.qform, PsdTri.svecToMat, PsdIndex.triangularNumber]
      linarith

end example_lapack

end Clarabel.StepK
