/-
  `find_compact_A_b_and_cones` on a valid `ChordalInfo`: the layout of the cones of the compact
  problem, the target relations for the row-index vectors, and the loop over the cones.
-/
import ClarabelProofs.Lemmas.ChordalCompactPattern
import Mathlib.Data.List.Induction

namespace Clarabel.Chordal

/-! ## sums -/

private theorem descSum_range' (f : Nat → Nat) (n d : Nat) (h : d ≤ n) :
    descSum f n d = ((List.range' (n - d) d).map f).sum := by
  induction d with
  | zero => rfl
  | succ d ih =>
    rw [descSum_succ, ih (by omega), show n - d = (n - (d + 1)) + 1 by omega, List.range'_succ,
      List.map_cons, List.sum_cons, show n - 1 - d = n - (d + 1) by omega]
    omega

theorem descSum_full (f : Nat → Nat) (n : Nat) : descSum f n n = ((List.range n).map f).sum := by
  rw [descSum_range' f n n (Nat.le_refl _), Nat.sub_self, List.range_eq_range']

/-! ## `rng_cones_iter` -/

/-- first original row of cone `c` -/
def ChordalInfo.rs (ci : ChordalInfo) (c : Nat) : Nat := (coneStarts ci.initCones).getD c 0
/-- number of rows of cone `c` -/
def ChordalInfo.nv (ci : ChordalInfo) (c : Nat) : Nat := (ci.initCones.getD c (.zero 0)).nvars

private theorem coneStarts_aux (l : List Cone) :
    let r := l.foldl (fun (acc : Array Nat × Nat) c => (acc.1.push acc.2, acc.2 + c.nvars)) (#[], 0)
    r.1.size = l.length ∧ r.2 = (l.map Cone.nvars).sum ∧
    ∀ c, c < l.length → r.1.getD c 0 = ((l.take c).map Cone.nvars).sum := by
  induction l using List.reverseRec with
  | nil => simp
  | append_singleton init x ih =>
    simp only at ih ⊢
    rw [List.foldl_append]
    simp only [List.foldl_cons, List.foldl_nil]
    obtain ⟨h1, h2, h3⟩ := ih
    refine ⟨by simp [h1], by simp [h2], ?_⟩
    intro c hc
    simp only [List.length_append, List.length_singleton] at hc
    rcases Nat.lt_succ_iff_lt_or_eq.1 hc with h | h
    · rw [List.take_append_of_le_length (by omega)]
      rw [← h3 c h]
      simp [Array.getD, Array.getElem_push, h1, h]
      intro hh; omega
    · subst h
      rw [List.take_append_of_le_length (Nat.le_refl _), List.take_length, ← h2]
      simp [Array.getD, Array.getElem_push, h1]

theorem coneStarts_size (cones : Array Cone) : (coneStarts cones).size = cones.size := by
  have := (coneStarts_aux cones.toList).1
  simpa [coneStarts] using this

theorem ChordalInfo.rs_zero (ci : ChordalInfo) (h : 0 < ci.initCones.size) : ci.rs 0 = 0 := by
  have := (coneStarts_aux ci.initCones.toList).2.2 0 (by simpa using h)
  simpa [ChordalInfo.rs, coneStarts] using this

theorem ChordalInfo.rs_succ (ci : ChordalInfo) (c : Nat) (h : c + 1 < ci.initCones.size) :
    ci.rs (c + 1) = ci.rs c + ci.nv c := by
  have h1 := (coneStarts_aux ci.initCones.toList).2.2 (c + 1) (by simpa using h)
  have h0 := (coneStarts_aux ci.initCones.toList).2.2 c (by simp; omega)
  unfold ChordalInfo.rs coneStarts ChordalInfo.nv
  rw [h1, h0, List.take_add_one]
  have : ci.initCones.toList[c]? = some (ci.initCones.getD c (.zero 0)) := by
    simp [Array.getD, show c < ci.initCones.size by omega]
  rw [this]
  simp

theorem ChordalInfo.rs_mono (ci : ChordalInfo) (c d : Nat) (h' : c + d < ci.initCones.size) :
    ci.rs c + (if 0 < d then ci.nv c else 0) ≤ ci.rs (c + d) := by
  induction d with
  | zero => simp
  | succ d ih =>
    have := ih (by omega)
    rw [show c + (d + 1) = (c + d) + 1 by omega, ci.rs_succ (c + d) (by omega), if_pos (by omega)]
    by_cases hd : 0 < d
    · rw [if_pos hd] at this; omega
    · have : d = 0 := by omega
      subst this
      simp

/-! ## layout of the compact problem -/

namespace ChordalInfo

/-- effect of one cone on `(patterns consumed, rows emitted, overlaps emitted)` -/
def layoutStep (ci : ChordalInfo) (acc : Nat × Nat × Nat) (c : Nat) : Nat × Nat × Nat :=
  match ci.nextPattern? acc.1 c with
  | some p => (acc.1 + 1, acc.2.1 + p.totalRows, acc.2.2 + p.totalOverlaps)
  | none => (acc.1, acc.2.1 + ci.nv c, acc.2.2)

/-- `(patterns consumed, first new row, overlaps emitted)` when the loop reaches cone `c` -/
def layoutAt (ci : ChordalInfo) (c : Nat) : Nat × Nat × Nat := (List.range c).foldl ci.layoutStep (0, 0, 0)

/-- the sparsity pattern that the loop uses for cone `c` (`None`: the cone is not decomposed) -/
def patAt (ci : ChordalInfo) (c : Nat) : Option SPattern := ci.nextPattern? (ci.layoutAt c).1 c
/-- first row of cone `c`'s rows in the compact problem -/
def newStart (ci : ChordalInfo) (c : Nat) : Nat := (ci.layoutAt c).2.1
/-- number of overlap columns emitted before cone `c` -/
def ovBefore (ci : ChordalInfo) (c : Nat) : Nat := (ci.layoutAt c).2.2

theorem layoutAt_succ (ci : ChordalInfo) (c : Nat) : ci.layoutAt (c + 1) = ci.layoutStep (ci.layoutAt c) c := by
  unfold layoutAt
  rw [List.range_succ, List.foldl_append]
  rfl

/-- the cones of the compact problem that replace cone `c` -/
def conesOf (ci : ChordalInfo) (c : Nat) : List Cone :=
  match ci.patAt c with
  | some p => (List.range p.sntree.nCliques).map
      (fun d => Cone.psd (p.sntree.cliqueAt (p.sntree.nCliques - 1 - d)).length)
  | none => [ci.initCones.getD c (.zero 0)]

/-- their `cone_maps` entries -/
def mapsOf (ci : ChordalInfo) (c : Nat) : List ConeMapEntry :=
  match ci.patAt c with
  | some p => (List.range p.sntree.nCliques).map
      (fun d => { origIndex := p.origIndex, treeAndClique := some ((ci.layoutAt c).1, p.sntree.nCliques - 1 - d) })
  | none => [{ origIndex := c, treeAndClique := none }]

end ChordalInfo

/-- validity of the analysis result: every pattern that the loop uses is valid and belongs to
a PSD cone of the pattern's dimension -/
structure ValidInfo (ci : ChordalInfo) : Prop where
  pat : ∀ c, c < ci.initCones.size → ∀ p, ci.patAt c = some p →
    ValidPattern p ∧ ci.initCones.getD c (.zero 0) = .psd p.ordering.size

/-- coverage of a sorted row-index vector `xs[0..n)` by the cliques: every stored row that lies in
a decomposed cone is an entry `(a, b)` of some clique block -/
def Covered (ci : ChordalInfo) (xs : Array Nat) (n : Nat) : Prop :=
  ∀ slot, slot < n → ∀ c, c < ci.initCones.size → ∀ p, ci.patAt c = some p →
    ci.rs c ≤ xs.getD slot 0 → xs.getD slot 0 < ci.rs c + ci.nv c →
    ∃ i, i < p.sntree.nCliques ∧
      (upperTriangularIndexToCoord (xs.getD slot 0 - ci.rs c)).1 ∈ p.cliqueO i ∧
      (upperTriangularIndexToCoord (xs.getD slot 0 - ci.rs c)).2 ∈ p.cliqueO i

/-! ## target relations -/

/-- `val` is the row of the compact problem that holds the original row `r`:
shifted by the cone's offset for a non-decomposed cone; for a decomposed cone the row of the
entry in the block of a clique that holds it as a NON-overlap entry -/
def NewRow (ci : ChordalInfo) (r val : Nat) : Prop :=
  ∃ c, c < ci.initCones.size ∧ ci.rs c ≤ r ∧ r < ci.rs c + ci.nv c ∧
    ((ci.patAt c = none ∧ val = ci.newStart c + (r - ci.rs c)) ∨
     (∃ p, ci.patAt c = some p ∧ ∃ i x y, i < p.sntree.nCliques ∧ x ≤ y ∧ y < (p.cliqueO i).length ∧
        ¬((p.cliqueO i).getD x 0 ∈ p.sepO i ∧ (p.cliqueO i).getD y 0 ∈ p.sepO i) ∧
        r = ci.rs c + coordToUpperTriangularIndex ((p.cliqueO i).getD x 0, (p.cliqueO i).getD y 0) ∧
        val = p.blockRow (ci.newStart c) i x y))

/-- slot `slot` of `A_I` (beyond the `nnz` original entries) belongs to the overlap entry
`(x, y)` of the non-root clique `i` of the pattern of cone `c`; the even slot of the pair may
hold the entry's row in clique `i`, the odd one its row in the parent clique `j` -/
def OvTarget (ci : ChordalInfo) (nnz slot val : Nat) : Prop :=
  ∃ c p i j x y x' y', c < ci.initCones.size ∧ ci.patAt c = some p ∧
    i + 1 < p.sntree.nCliques ∧ p.sntree.IsParent i j ∧ x ≤ y ∧ y < (p.cliqueO i).length ∧
    (p.cliqueO i).getD x 0 ∈ p.sepO i ∧ (p.cliqueO i).getD y 0 ∈ p.sepO i ∧
    x' ≤ y' ∧ y' < (p.cliqueO j).length ∧
    (p.cliqueO j).getD x' 0 = (p.cliqueO i).getD x 0 ∧ (p.cliqueO j).getD y' 0 = (p.cliqueO i).getD y 0 ∧
    ((slot = p.ovStart (nnz + 2 * ci.ovBefore c) i +
          2 * ovCount (p.blockList i) (coordToUpperTriangularIndex (x, y)) ∧
        val = p.blockRow (ci.newStart c) i x y) ∨
     (slot = p.ovStart (nnz + 2 * ci.ovBefore c) i +
          2 * ovCount (p.blockList i) (coordToUpperTriangularIndex (x, y)) + 1 ∧
        val = p.blockRow (ci.newStart c) j x' y'))

/-- legitimate contents of the slots of `A_I` -/
def TAof (ci : ChordalInfo) (rowval : Array Nat) (nnz : Nat) (slot val : Nat) : Prop :=
  (slot < nnz ∧ NewRow ci (rowval.getD slot 0) val) ∨ (nnz ≤ slot ∧ OvTarget ci nnz slot val)

/-- legitimate contents of the slots of `b_I` -/
def TBof (ci : ChordalInfo) (bInd : Array Nat) (slot val : Nat) : Prop :=
  NewRow ci (bInd.getD slot 0) val

/-! ## every covered entry has an owner -/

/-- an entry `(a, b)`, `a ≤ b`, of some clique block is a non-overlap entry of a clique at or
above it: walk up the tree while both vertices are in the separator -/
theorem owner_exists (p : SPattern) (hp : ValidPattern p) (a b : Nat) (hab : a ≤ b) (i0 : Nat)
    (hi0 : i0 < p.sntree.nCliques) (ha : a ∈ p.cliqueO i0) (hb : b ∈ p.cliqueO i0) :
    ∃ i x y, i < p.sntree.nCliques ∧ x ≤ y ∧ y < (p.cliqueO i).length ∧
      (p.cliqueO i).getD x 0 = a ∧ (p.cliqueO i).getD y 0 = b ∧
      ¬((p.cliqueO i).getD x 0 ∈ p.sepO i ∧ (p.cliqueO i).getD y 0 ∈ p.sepO i) := by
  obtain ⟨k, hk⟩ : ∃ k, p.sntree.nCliques - i0 = k := ⟨_, rfl⟩
  induction k using Nat.strong_induction_on generalizing i0 with
  | _ k ih =>
    have hf := cliqueFacts p hp i0 hi0
    by_cases hov : a ∈ p.sepO i0 ∧ b ∈ p.sepO i0
    · -- both in the separator: not the root, go to the parent
      have hlt : i0 + 1 < p.sntree.nCliques := by
        rcases Nat.lt_or_ge (i0 + 1) p.sntree.nCliques with h | h
        · exact h
        · exfalso
          have hroot : i0 = p.sntree.nCliques - 1 := by omega
          have h0 := hov.1
          unfold SPattern.sepO at h0
          rw [hroot, hp.tree.root_sep] at h0
          simp [SPattern.sortO] at h0
      obtain ⟨j, hij, hpar, _⟩ := hp.tree.parent i0 hlt
      exact ih (p.sntree.nCliques - j) (by have := hpar.1; omega) j hpar.1
        (sepO_sub_parent p hp i0 j hlt hpar a hov.1) (sepO_sub_parent p hp i0 j hlt hpar b hov.2) rfl
    · obtain ⟨x, hx, hxe⟩ := exists_pos_of_mem ha
      obtain ⟨y, hy, hye⟩ := exists_pos_of_mem hb
      refine ⟨i0, x, y, hi0, ?_, hy, hxe, hye, by rw [hxe, hye]; exact hov⟩
      rw [← getD_le_iff_of_sorted hf.clique_sorted hx hy, hxe, hye]
      exact hab

/-! ## `add_entries_with_cone` -/

theorem addEntriesWithCone_spec {α : Type} (st : CompactState) (A : Csc α) (hA : CscWF A) (bInd : Array Nat)
    (hb : StrictOn bInd 0 bInd.size) (rs re : Nat) (cone : Cone)
    (hszA : A.colptr.getD A.n 0 ≤ st.AaI.size) (hszB : bInd.size ≤ st.baI.size) :
    ∃ st', addEntriesWithCone st A bInd rs re cone = .ok st' ∧
      st'.rowPtr = st.rowPtr + cone.nvars ∧ st'.overlapPtr = st.overlapPtr ∧
      st'.conesNew = st.conesNew.push cone ∧
      st'.coneMaps = st.coneMaps.push { origIndex := (match st.coneMaps.back? with
        | none => 0 | some l => l.origIndex + 1), treeAndClique := none } ∧
      st'.AaI.size = st.AaI.size ∧ st'.baI.size = st.baI.size ∧
      (∀ x, x < A.colptr.getD A.n 0 → rs ≤ A.rowval.getD x 0 → A.rowval.getD x 0 < re →
        st'.AaI.getD x 0 = A.rowval.getD x 0 + st.rowPtr - rs) ∧
      (∀ x, ¬(x < A.colptr.getD A.n 0 ∧ rs ≤ A.rowval.getD x 0 ∧ A.rowval.getD x 0 < re) →
        st'.AaI.getD x 0 = st.AaI.getD x 0) ∧
      (∀ x, x < bInd.size → rs ≤ bInd.getD x 0 → bInd.getD x 0 < re →
        st'.baI.getD x 0 = bInd.getD x 0 + st.rowPtr - rs) ∧
      (∀ x, ¬(x < bInd.size ∧ rs ≤ bInd.getD x 0 ∧ bInd.getD x 0 < re) →
        st'.baI.getD x 0 = st.baI.getD x 0) := by
  obtain ⟨vb, hvb, hbz, hbin, hbout⟩ := shiftSeg_spec bInd st.baI 0 bInd.size rs re st.rowPtr hb.mono hszB
  obtain ⟨va, hva, haz, hain, haout⟩ := shiftCols_spec A hA st.AaI rs re st.rowPtr hszA
  refine ⟨{ st with AaI := va, baI := vb, conesNew := st.conesNew.push cone,
                    coneMaps := st.coneMaps.push { origIndex := (match st.coneMaps.back? with
                      | none => 0 | some l => l.origIndex + 1), treeAndClique := none },
                    rowPtr := st.rowPtr + cone.nvars }, ?_, rfl, rfl, rfl, rfl, haz, hbz, hain, haout, ?_, ?_⟩
  · unfold addEntriesWithCone
    rw [hva, hvb]
    rfl
  · intro x h1 h2 h3
    exact hbin x ⟨Nat.zero_le _, h1, h2, h3⟩
  · intro x hx
    exact hbout x (fun hh => hx ⟨hh.2.1, hh.2.2.1, hh.2.2.2⟩)

/-! ## `get_decomposed_dim_and_overlaps` -/

theorem tree_getDecomposedDimAndOverlaps (p : SPattern) (hp : ValidPattern p) :
    p.sntree.getDecomposedDimAndOverlaps = .ok (p.totalRows, p.totalOverlaps) := by
  unfold SuperNodeTree.getDecomposedDimAndOverlaps
  have key := foldlM_inv (fun (acc : Nat × Nat) i => do
      let nb ← p.sntree.getNblk i
      let ov ← p.sntree.getOverlap i
      pure (acc.1 + triangularNumber nb, acc.2 + triangularNumber ov)) (List.range p.sntree.nCliques)
    (fun i acc => acc = (((List.range i).map p.blk).sum, ((List.range i).map p.ovl).sum)) (0, 0) rfl
    (by
      intro i hi acc hacc
      simp only [List.length_range] at hi
      simp only [List.getElem_range]
      rw [getNblk_okV p.sntree _ hp.tree i hi]
      simp only [bind, Except.bind]
      rw [getOverlap_okV p.sntree _ hp.tree i hi]
      refine ⟨_, rfl, ?_⟩
      rw [hacc, List.range_succ, List.map_append, List.map_append, List.sum_append, List.sum_append]
      simp [SPattern.blk, SPattern.ovl])
  obtain ⟨acc, hfold, hacc⟩ := key
  rw [hfold, hacc]
  simp only [List.length_range]
  unfold SPattern.totalRows SPattern.totalOverlaps
  rw [descSum_full, descSum_full]

/-- the body of the loop of `ChordalInfo::get_decomposed_dim_and_overlaps` -/
def ddStepC (ci : ChordalInfo) (acc : Nat × Nat × Nat) (coneidx : Nat) : MErr (Nat × Nat × Nat) := do
  let (sc, so, k) := acc
  match ci.nextPattern? k coneidx with
  | some p =>
    let (cols, ov) ← p.sntree.getDecomposedDimAndOverlaps
    pure (sc + cols, so + ov, k + 1)
  | none =>
    let cone ← getE ci.initCones coneidx "get_decomposed_dim_and_overlaps"
    pure (sc + cone.nvars, so, k)

theorem getDecomposedDimAndOverlaps_eqC (ci : ChordalInfo) :
    ci.getDecomposedDimAndOverlaps = (do
      let (c, o, _) ← (List.range ci.initCones.size).foldlM (ddStepC ci) (0, 0, 0)
      pure (c, o)) := by
  rfl

theorem info_getDecomposedDimAndOverlaps (ci : ChordalInfo) (hv : ValidInfo ci) :
    ci.getDecomposedDimAndOverlaps =
      .ok (ci.newStart ci.initCones.size, ci.ovBefore ci.initCones.size) := by
  rw [getDecomposedDimAndOverlaps_eqC]
  have key := foldlM_inv (ddStepC ci) (List.range ci.initCones.size)
    (fun c acc => acc = ((ci.layoutAt c).2.1, (ci.layoutAt c).2.2, (ci.layoutAt c).1)) (0, 0, 0) rfl
    (by
      intro c hc acc hacc
      simp only [List.length_range] at hc
      simp only [List.getElem_range]
      subst hacc
      unfold ddStepC
      simp only
      rw [ci.layoutAt_succ c]
      unfold ChordalInfo.layoutStep
      cases hpat : ci.nextPattern? (ci.layoutAt c).1 c with
      | some p =>
        simp only
        rw [tree_getDecomposedDimAndOverlaps p (hv.pat c hc p hpat).1]
        exact ⟨_, rfl, rfl⟩
      | none =>
        simp only
        rw [getE_ok ci.initCones c _ (.zero 0) hc]
        exact ⟨_, rfl, rfl⟩)
  obtain ⟨acc, hfold, hacc⟩ := key
  rw [hfold, hacc]
  simp only [List.length_range]
  rfl

theorem ChordalInfo.ovBefore_mono (ci : ChordalInfo) (c d : Nat) : ci.ovBefore c ≤ ci.ovBefore (c + d) := by
  induction d with
  | zero => exact Nat.le_refl _
  | succ d ih =>
    refine Nat.le_trans ih ?_
    unfold ChordalInfo.ovBefore
    rw [show c + (d + 1) = (c + d) + 1 by omega, ci.layoutAt_succ]
    unfold ChordalInfo.layoutStep
    cases ci.nextPattern? (ci.layoutAt (c + d)).1 (c + d) with
    | some p => simp
    | none => simp

theorem ChordalInfo.newStart_mono (ci : ChordalInfo) (c d : Nat) : ci.newStart c ≤ ci.newStart (c + d) := by
  induction d with
  | zero => exact Nat.le_refl _
  | succ d ih =>
    refine Nat.le_trans ih ?_
    unfold ChordalInfo.newStart
    rw [show c + (d + 1) = (c + d) + 1 by omega, ci.layoutAt_succ]
    unfold ChordalInfo.layoutStep
    cases ci.nextPattern? (ci.layoutAt (c + d)).1 (c + d) with
    | some p => simp
    | none => simp

/-! ## the loop over the cones -/

/-- standing assumptions of the compact transformation -/
structure CompactHyp {α : Type} (ci : ChordalInfo) (A : Csc α) (bInd : Array Nat) : Prop where
  valid : ValidInfo ci
  wf : CscWF A
  ncols : 0 < A.n
  bsorted : StrictOn bInd 0 bInd.size
  rowsA : ∀ slot, slot < A.colptr.getD A.n 0 →
    ∃ c, c < ci.initCones.size ∧ ci.rs c ≤ A.rowval.getD slot 0 ∧ A.rowval.getD slot 0 < ci.rs c + ci.nv c
  rowsB : ∀ slot, slot < bInd.size →
    ∃ c, c < ci.initCones.size ∧ ci.rs c ≤ bInd.getD slot 0 ∧ bInd.getD slot 0 < ci.rs c + ci.nv c
  covA : Covered ci A.rowval (A.colptr.getD A.n 0)
  covB : Covered ci bInd bInd.size

/-- what the loop has established when it reaches cone `c` -/
structure ConeInv {α : Type} (ci : ChordalInfo) (A : Csc α) (bInd : Array Nat) (AaI0 baI0 : Array Nat)
    (c : Nat) (st : CompactState) (k : Nat) : Prop where
  hk : k = (ci.layoutAt c).1
  hrow : st.rowPtr = ci.newStart c
  hop : st.overlapPtr = A.colptr.getD A.n 0 + 2 * ci.ovBefore c
  hcones : st.conesNew.toList = (List.range c).flatMap ci.conesOf
  hmaps : st.coneMaps.toList = (List.range c).flatMap ci.mapsOf
  hlast : st.coneMaps.toList.getLast?.map (·.origIndex) = if c = 0 then none else some (c - 1)
  updA : Upd (TAof ci A.rowval (A.colptr.getD A.n 0)) AaI0 st.AaI
  updB : Upd (TBof ci bInd) baI0 st.baI
  hitA : ∀ slot, slot < A.colptr.getD A.n 0 → ∀ c', c' < c → ci.rs c' ≤ A.rowval.getD slot 0 →
    A.rowval.getD slot 0 < ci.rs c' + ci.nv c' →
    TAof ci A.rowval (A.colptr.getD A.n 0) slot (st.AaI.getD slot 0)
  hitB : ∀ slot, slot < bInd.size → ∀ c', c' < c → ci.rs c' ≤ bInd.getD slot 0 →
    bInd.getD slot 0 < ci.rs c' + ci.nv c' → TBof ci bInd slot (st.baI.getD slot 0)
  hitO : ∀ y, A.colptr.getD A.n 0 ≤ y → y < A.colptr.getD A.n 0 + 2 * ci.ovBefore c →
    TAof ci A.rowval (A.colptr.getD A.n 0) y (st.AaI.getD y 0)

private theorem back?_eq_getLast? {β : Type} (xs : Array β) : xs.back? = xs.toList.getLast? := by
  rw [← List.back?_toArray, Array.toArray_toList]

private theorem getLast?_append_map_range {β : Type} (l : List β) (f : Nat → β) (n : Nat) (h : 0 < n) :
    (l ++ (List.range n).map f).getLast? = some (f (n - 1)) := by
  obtain ⟨k, rfl⟩ : ∃ k, n = k + 1 := ⟨n - 1, by omega⟩
  rw [List.range_succ, List.map_append, ← List.append_assoc]
  simp

private theorem origIndex_of_last (cm : Array ConeMapEntry) (c : Nat)
    (hl : cm.toList.getLast?.map (·.origIndex) = if c = 0 then none else some (c - 1)) :
    (match cm.back? with
      | none => 0
      | some l => l.origIndex + 1) = c := by
  rw [back?_eq_getLast?]
  by_cases h0 : c = 0
  · rw [if_pos h0] at hl
    cases hg : cm.toList.getLast? with
    | none => simp [h0]
    | some l => rw [hg] at hl; simp at hl
  · rw [if_neg h0] at hl
    cases hg : cm.toList.getLast? with
    | none => rw [hg] at hl; simp at hl
    | some l =>
      rw [hg] at hl
      simp only [Option.map_some, Option.some.injEq] at hl
      simp only [hl]
      omega

theorem nextPattern?_origIndex (ci : ChordalInfo) (k c : Nat) (p : SPattern)
    (h : ci.nextPattern? k c = some p) : p.origIndex = c := by
  unfold ChordalInfo.nextPattern? at h
  cases hs : ci.spatterns[k]? with
  | none => rw [hs] at h; cases h
  | some q =>
    rw [hs] at h
    simp only at h
    by_cases hq : (q.origIndex == c) = true
    · rw [if_pos hq] at h
      cases h
      simpa using hq
    · rw [if_neg hq] at h; cases h

theorem compactConeStep_spec {α : Type} (ci : ChordalInfo) (A : Csc α) (bInd : Array Nat)
    (H : CompactHyp ci A bInd) (AaI0 baI0 : Array Nat)
    (hszA : A.colptr.getD A.n 0 + 2 * ci.ovBefore ci.initCones.size ≤ AaI0.size)
    (hszB : bInd.size ≤ baI0.size)
    (c : Nat) (hc : c < ci.initCones.size) (st : CompactState) (k : Nat)
    (I : ConeInv ci A bInd AaI0 baI0 c st k) :
    ∃ st' k', compactConeStep ci A bInd (coneStarts ci.initCones) (st, k) c = .ok (st', k') ∧
      ConeInv ci A bInd AaI0 baI0 (c + 1) st' k' := by
  have hlay := ci.layoutAt_succ c
  have hovm := ci.ovBefore_mono (c + 1) (ci.initCones.size - (c + 1))
  rw [show c + 1 + (ci.initCones.size - (c + 1)) = ci.initCones.size by omega] at hovm
  unfold compactConeStep
  simp only
  rw [getE_ok ci.initCones c _ (.zero 0) hc]
  simp only [bind, Except.bind]
  have hk := I.hk
  cases hpat : ci.patAt c with
  | none =>
    have hnp : ci.nextPattern? k c = none := by rw [hk]; exact hpat
    rw [hnp]
    simp only
    obtain ⟨st', hst', hr', ho', hc', hm', hza, hzb, hain, haout, hbin, hbout⟩ :=
      addEntriesWithCone_spec st A H.wf bInd H.bsorted ((coneStarts ci.initCones).getD c 0)
        ((coneStarts ci.initCones).getD c 0 + (ci.initCones.getD c (.zero 0)).nvars)
        (ci.initCones.getD c (.zero 0)) (by rw [I.updA.1]; omega) (by rw [I.updB.1]; exact hszB)
    rw [hst']
    have hstep : ci.layoutAt (c + 1) = ((ci.layoutAt c).1, (ci.layoutAt c).2.1 + ci.nv c, (ci.layoutAt c).2.2) := by
      rw [hlay]; unfold ChordalInfo.layoutStep
      have : ci.nextPattern? (ci.layoutAt c).1 c = none := hpat
      rw [this]
    have hUa : Upd (TAof ci A.rowval (A.colptr.getD A.n 0)) st.AaI st'.AaI := by
      refine ⟨hza, fun x => ?_⟩
      by_cases hx : x < A.colptr.getD A.n 0 ∧ (coneStarts ci.initCones).getD c 0 ≤ A.rowval.getD x 0 ∧
          A.rowval.getD x 0 < (coneStarts ci.initCones).getD c 0 + (ci.initCones.getD c (.zero 0)).nvars
      · right
        rw [hain x hx.1 hx.2.1 hx.2.2]
        refine Or.inl ⟨hx.1, c, hc, hx.2.1, hx.2.2, Or.inl ⟨hpat, ?_⟩⟩
        rw [I.hrow]
        have := hx.2.1
        unfold ChordalInfo.rs
        omega
      · left; exact haout x hx
    have hUb : Upd (TBof ci bInd) st.baI st'.baI := by
      refine ⟨hzb, fun x => ?_⟩
      by_cases hx : x < bInd.size ∧ (coneStarts ci.initCones).getD c 0 ≤ bInd.getD x 0 ∧
          bInd.getD x 0 < (coneStarts ci.initCones).getD c 0 + (ci.initCones.getD c (.zero 0)).nvars
      · right
        rw [hbin x hx.1 hx.2.1 hx.2.2]
        refine ⟨c, hc, hx.2.1, hx.2.2, Or.inl ⟨hpat, ?_⟩⟩
        rw [I.hrow]
        have := hx.2.1
        unfold ChordalInfo.rs
        omega
      · left; exact hbout x hx
    refine ⟨st', k, rfl, ?_⟩
    constructor
    · rw [hstep]; exact hk
    · rw [hr', I.hrow]; unfold ChordalInfo.newStart; rw [hstep]; rfl
    · rw [ho', I.hop]; unfold ChordalInfo.ovBefore; rw [hstep]
    · rw [hc', Array.toList_push, I.hcones, List.range_succ, List.flatMap_append]
      simp only [List.flatMap_cons, List.flatMap_nil, List.append_nil]
      unfold ChordalInfo.conesOf; rw [hpat]
    · rw [hm', Array.toList_push, I.hmaps, List.range_succ, List.flatMap_append]
      simp only [List.flatMap_cons, List.flatMap_nil, List.append_nil]
      have hmo : ci.mapsOf c = [{ origIndex := c, treeAndClique := none }] := by
        unfold ChordalInfo.mapsOf; rw [hpat]
      rw [hmo, origIndex_of_last st.coneMaps c I.hlast]
    · rw [hm', Array.toList_push, origIndex_of_last st.coneMaps c I.hlast]
      simp
    · exact I.updA.trans hUa
    · exact I.updB.trans hUb
    · intro slot hs c' hc' h1 h2
      rcases Nat.lt_succ_iff_lt_or_eq.1 hc' with h | h
      · exact hUa.keep (I.hitA slot hs c' h h1 h2)
      · subst h
        rw [hain slot hs h1 h2]
        refine Or.inl ⟨hs, c', hc, h1, h2, Or.inl ⟨hpat, ?_⟩⟩
        rw [I.hrow]
        unfold ChordalInfo.rs at h1 ⊢
        omega
    · intro slot hs c' hc' h1 h2
      rcases Nat.lt_succ_iff_lt_or_eq.1 hc' with h | h
      · exact hUb.keep (I.hitB slot hs c' h h1 h2)
      · subst h
        rw [hbin slot hs h1 h2]
        refine ⟨c', hc, h1, h2, Or.inl ⟨hpat, ?_⟩⟩
        rw [I.hrow]
        unfold ChordalInfo.rs at h1 ⊢
        omega
    · intro y h1 h2
      have : ci.ovBefore (c + 1) = ci.ovBefore c := by
        unfold ChordalInfo.ovBefore; rw [hstep]
      rw [this] at h2
      exact hUa.keep (I.hitO y h1 h2)
  | some p =>
    have hnp : ci.nextPattern? k c = some p := by rw [hk]; exact hpat
    obtain ⟨hvp, hcone⟩ := H.valid.pat c hc p hpat
    have hoi := nextPattern?_origIndex ci k c p hnp
    rw [hnp]
    simp only
    have hpsd : (ci.initCones.getD c (.zero 0)).isPsd = true := by rw [hcone]; rfl
    rw [hpsd]
    simp only [Bool.not_true, Bool.false_eq_true, ↓reduceIte]
    have hstep : ci.layoutAt (c + 1) =
        ((ci.layoutAt c).1 + 1, (ci.layoutAt c).2.1 + p.totalRows, (ci.layoutAt c).2.2 + p.totalOverlaps) := by
      rw [hlay]; unfold ChordalInfo.layoutStep
      have : ci.nextPattern? (ci.layoutAt c).1 c = some p := hpat
      rw [this]
    have hov1 : ci.ovBefore (c + 1) = ci.ovBefore c + p.totalOverlaps := by
      unfold ChordalInfo.ovBefore; rw [hstep]
    have hrsdef : (coneStarts ci.initCones).getD c 0 = ci.rs c := rfl
    have hnvdef : (ci.initCones.getD c (.zero 0)).nvars = ci.nv c := rfl
    rw [hrsdef, hnvdef]
    obtain ⟨st', hst', hr', ho', hc', hm', hUa, hUb, hHA, hHB, hHO⟩ :=
      addEntriesWithSparsityPattern_spec (TAof ci A.rowval (A.colptr.getD A.n 0)) (TBof ci bInd) A H.wf bInd
        H.bsorted (ci.rs c) (ci.rs c + ci.nv c) p hvp k st H.ncols
        (by rw [I.updA.1]; omega) (by rw [I.updB.1]; exact hszB)
        (by rw [I.updA.1, I.hop]; omega)
        (by
          intro i x y hi hxy hy hno slot hs h2 h3
          refine Or.inl ⟨hs, c, hc, by omega, h3, Or.inr ⟨p, hpat, i, x, y, hi, hxy, hy, hno, h2, ?_⟩⟩
          rw [I.hrow])
        (by
          intro i x y hi hxy hy hno slot hs h2 h3
          refine ⟨c, hc, by omega, h3, Or.inr ⟨p, hpat, i, x, y, hi, hxy, hy, hno, h2, ?_⟩⟩
          rw [I.hrow])
        (by
          intro i j x y x' y' hi hpar hxy hy hsx hsy hxy' hy' hex hey
          rw [I.hrow, I.hop]
          constructor
          · refine Or.inr ⟨?_, c, p, i, j, x, y, x', y', hc, hpat, hi, hpar, hxy, hy, hsx, hsy, hxy', hy',
              hex, hey, Or.inl ⟨rfl, rfl⟩⟩
            unfold SPattern.ovStart; omega
          · refine Or.inr ⟨?_, c, p, i, j, x, y, x', y', hc, hpat, hi, hpar, hxy, hy, hsx, hsy, hxy', hy',
              hex, hey, Or.inr ⟨rfl, rfl⟩⟩
            unfold SPattern.ovStart; omega)
    rw [hst']
    refine ⟨st', k + 1, rfl, ?_⟩
    constructor
    · rw [hstep, hk]
    · rw [hr', I.hrow]; unfold ChordalInfo.newStart; rw [hstep]
    · rw [ho', I.hop, hov1]; omega
    · rw [hc', I.hcones, List.range_succ, List.flatMap_append]
      simp only [List.flatMap_cons, List.flatMap_nil, List.append_nil]
      unfold ChordalInfo.conesOf; rw [hpat]
    · rw [hm', I.hmaps, List.range_succ, List.flatMap_append]
      simp only [List.flatMap_cons, List.flatMap_nil, List.append_nil]
      have hmo : ci.mapsOf c = (List.range p.sntree.nCliques).map (fun d =>
          ({ origIndex := p.origIndex,
             treeAndClique := some ((ci.layoutAt c).1, p.sntree.nCliques - 1 - d) } : ConeMapEntry)) := by
        unfold ChordalInfo.mapsOf; rw [hpat]
      rw [hmo, hk]
    · rw [hm', getLast?_append_map_range _ _ _ hvp.tree.ncl_pos]
      simp only [Option.map_some, Nat.add_one_ne_zero, ↓reduceIte, Nat.add_sub_cancel, hoi]
    · exact I.updA.trans hUa
    · exact I.updB.trans hUb
    · intro slot hs c' hc' h1 h2
      rcases Nat.lt_succ_iff_lt_or_eq.1 hc' with h | h
      · exact hUa.keep (I.hitA slot hs c' h h1 h2)
      · subst h
        obtain ⟨i0, hi0, ha, hb⟩ := H.covA slot hs c' hc p hpat h1 h2
        have hco := index_coord_inv (A.rowval.getD slot 0 - ci.rs c')
        simp only at hco
        obtain ⟨i, x, y, hi, hxy, hy, hxe, hye, hno⟩ := owner_exists p hvp _ _ hco.1 i0 hi0 ha hb
        refine hHA i hi x y hxy hy hno slot hs ?_ h2
        rw [hxe, hye, hco.2]; omega
    · intro slot hs c' hc' h1 h2
      rcases Nat.lt_succ_iff_lt_or_eq.1 hc' with h | h
      · exact hUb.keep (I.hitB slot hs c' h h1 h2)
      · subst h
        obtain ⟨i0, hi0, ha, hb⟩ := H.covB slot hs c' hc p hpat h1 h2
        have hco := index_coord_inv (bInd.getD slot 0 - ci.rs c')
        simp only at hco
        obtain ⟨i, x, y, hi, hxy, hy, hxe, hye, hno⟩ := owner_exists p hvp _ _ hco.1 i0 hi0 ha hb
        refine hHB i hi x y hxy hy hno slot hs ?_ h2
        rw [hxe, hye, hco.2]; omega
    · intro y h1 h2
      rw [hov1] at h2
      rcases Nat.lt_or_ge y (A.colptr.getD A.n 0 + 2 * ci.ovBefore c) with h | h
      · exact hUa.keep (I.hitO y h1 h)
      · exact hHO y (by rw [I.hop]; exact h) (by rw [I.hop]; omega)

end Clarabel.Chordal
