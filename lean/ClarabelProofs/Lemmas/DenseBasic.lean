/-
  Helper lemmas for the dense matrix model (`ClarabelModel/Dense.lean`), C16.

  * `at?` : the entry of a matrix as the theorems read it (`data[i + m*j]?`)
  * `tab` / `tabulate` : entry and size of a column-major table
  * `applyWrites` : a sequence of in-range writes succeeds; a position that is not written
    keeps its value, a position all of whose writes carry the value `v` ends up holding `v`
  * checked reads of a well-formed matrix (`data.size = m * n`) succeed
-/
import ClarabelModel.Dense
import Mathlib.Tactic.Ring
import Mathlib.Tactic.Linarith

namespace Clarabel.Dense
open Clarabel

variable {α : Type}

/-- entry `(i, j)` of the matrix itself, as stored -/
def at? (A : Dense α) (i j : Nat) : Option α := A.data[i + A.m * j]?

/-- entry `(i, j)` under a view -/
def atV? (v : DView) (A : Dense α) (i j : Nat) : Option α := A.data[indexLinear v A i j]?

/-- `data.size = m * n` -/
def WF (A : Dense α) : Prop := A.data.size = A.m * A.n

theorem wf_iff (A : Dense α) : wf A = true ↔ WF A := by
  simp [wf, WF]

/-! ### index arithmetic -/

theorem lin_lt {m n i j : Nat} (hi : i < m) (hj : j < n) : i + m * j < m * n := by
  calc i + m * j < m + m * j := by omega
    _ = m * (j + 1) := by ring
    _ ≤ m * n := Nat.mul_le_mul_left m hj

theorem lin_mod {m i j : Nat} (hi : i < m) : (i + m * j) % m = i := by
  rw [Nat.add_mul_mod_self_left, Nat.mod_eq_of_lt hi]

theorem lin_div {m i j : Nat} (hi : i < m) : (i + m * j) / m = j := by
  rw [Nat.add_mul_div_left _ _ (by omega : 0 < m), Nat.div_eq_of_lt hi, Nat.zero_add]

theorem lin_inj {m i j i' j' : Nat} (hi : i < m) (hi' : i' < m) (h : i + m * j = i' + m * j') :
    i = i' ∧ j = j' := by
  have h1 := lin_mod (j := j) hi
  have h2 := lin_div (j := j) hi
  rw [h] at h1 h2
  rw [lin_mod hi'] at h1
  rw [lin_div hi'] at h2
  exact ⟨h1.symm, h2.symm⟩

theorem mod_lt_of_lt_mul {m n k : Nat} (hk : k < m * n) : k % m < m := by
  apply Nat.mod_lt
  rcases Nat.eq_zero_or_pos m with h | h
  · subst h; simp at hk
  · exact h

theorem div_lt_of_lt_mul' {m n k : Nat} (hk : k < m * n) : k / m < n :=
  Nat.div_lt_of_lt_mul hk

/-! ### tables -/

@[simp] theorem tab_size (m n : Nat) (g : Nat → Nat → α) : (tab m n g).size = m * n := by
  simp [tab]

theorem tab_getElem? (m n : Nat) (g : Nat → Nat → α) (k : Nat) (hk : k < m * n) :
    (tab m n g)[k]? = some (g (k % m) (k / m)) := by
  simp [tab, hk]

theorem tab_at (m n : Nat) (g : Nat → Nat → α) {i j : Nat} (hi : i < m) (hj : j < n) :
    (tab m n g)[i + m * j]? = some (g i j) := by
  rw [tab_getElem? _ _ _ _ (lin_lt hi hj), lin_mod hi, lin_div hi]

theorem mapM_ok {β γ : Type} (l : List β) (f : β → MErr γ) (g : β → γ)
    (h : ∀ p ∈ l, f p = .ok (g p)) : l.mapM f = .ok (l.map g) := by
  induction l with
  | nil => rfl
  | cons a t ih =>
    rw [List.mapM_cons, h a (by simp), ih (fun p hp => h p (List.mem_cons_of_mem _ hp))]
    rfl

theorem mapM_error {β γ : Type} (l : List β) (f : β → MErr γ) (e : ModelErr)
    (h : ∃ p ∈ l, f p = .error e) (hall : ∀ p ∈ l, ∀ e', f p = .error e' → e' = e) :
    l.mapM f = .error e := by
  induction l with
  | nil => simp at h
  | cons a t ih =>
    rw [List.mapM_cons]
    cases hfa : f a with
    | error e' =>
      have := hall a (by simp) e' hfa
      subst this
      rfl
    | ok v =>
      obtain ⟨p, hp, hfp⟩ := h
      have hp' : p ∈ t := by
        rcases List.mem_cons.mp hp with rfl | hp'
        · rw [hfa] at hfp; cases hfp
        · exact hp'
      rw [ih ⟨p, hp', hfp⟩ (fun q hq => hall q (List.mem_cons_of_mem _ hq))]
      rfl

theorem tabulate_ok (m n : Nat) (f : Nat → Nat → MErr α) (g : Nat → Nat → α)
    (h : ∀ i j, i < m → j < n → f i j = .ok (g i j)) :
    tabulate m n f = .ok (tab m n g) := by
  unfold tabulate tab
  rw [mapM_ok _ _ (fun k => g (k % m) (k / m))]
  · rfl
  · intro k hk
    have hk' : k < m * n := List.mem_range.mp hk
    exact h _ _ (mod_lt_of_lt_mul hk') (div_lt_of_lt_mul' hk')

/-! ### checked reads -/

theorem getE_ok {β : Type} (xs : Array β) (i : Nat) (s : String) (h : i < xs.size) :
    getE xs i s = .ok xs[i] := by
  simp [getE, h]
  rfl

theorem getE_eq_ok_iff {β : Type} (xs : Array β) (i : Nat) (s : String) (v : β) :
    getE xs i s = .ok v ↔ xs[i]? = some v := by
  unfold getE
  cases h : xs[i]? with
  | none => simp
  | some w =>
    simp only [pure, Except.pure, Except.ok.injEq, Option.some.injEq]

theorem getE_panic {β : Type} (xs : Array β) (i : Nat) (s : String) (h : xs.size ≤ i) :
    getE xs i s = .error (.panic s) := by
  unfold getE
  rw [Array.getElem?_eq_none h]
  rfl

theorem setE_ok {β : Type} (xs : Array β) (i : Nat) (v : β) (s : String) (h : i < xs.size) :
    setE xs i v s = .ok (xs.set i v h) := by
  simp [setE, h]
  rfl

/-- a view index of a well-formed matrix is in range -/
theorem indexLinear_lt (v : DView) (A : Dense α) (hA : WF A) (hS : v = .S → A.m = A.n) {i j : Nat}
    (hi : i < nrowsV v A) (hj : j < ncolsV v A) : indexLinear v A i j < A.data.size := by
  rw [hA]
  cases v with
  | N => exact lin_lt hi hj
  | T =>
    simp only [nrowsV, ncolsV] at hi hj
    exact lin_lt hj hi
  | S =>
    simp only [nrowsV, ncolsV] at hi hj
    have hsq := hS rfl
    unfold indexLinear
    simp only
    split
    · -- i ≤ j < m, need j < n: only known for square; use i ≤ j
      rename_i hij
      have : i < A.m := by omega
      exact lin_lt this (by omega)
    · rename_i hij
      exact lin_lt hj hi

theorem get_ok (v : DView) (A : Dense α) (hA : WF A) (hS : v = .S → A.m = A.n) {i j : Nat}
    (hi : i < nrowsV v A) (hj : j < ncolsV v A) :
    ∃ x, get v A i j = .ok x ∧ atV? v A i j = some x := by
  have h := indexLinear_lt v A hA hS hi hj
  exact ⟨A.data[indexLinear v A i j], getE_ok _ _ _ h, by simp [atV?, h]⟩

theorem get_eq_ok_iff (v : DView) (A : Dense α) (i j : Nat) (x : α) :
    get v A i j = .ok x ↔ atV? v A i j = some x :=
  getE_eq_ok_iff _ _ _ _

theorem atV?_N (A : Dense α) (i j : Nat) : atV? .N A i j = at? A i j := rfl

/-! ### sequences of writes -/

theorem applyWrites_nil (d : Array α) : applyWrites d [] = .ok d := rfl

theorem applyWrites_cons (d : Array α) (w : Nat × α) (ws : List (Nat × α)) :
    applyWrites d (w :: ws) = (setE d w.1 w.2 "dense index_mut") >>= fun d' => applyWrites d' ws := by
  simp [applyWrites, List.foldlM_cons]

/-- in-range writes succeed; the size is kept; unwritten positions keep their value; a
position whose writes all carry `v` ends with `v` -/
theorem applyWrites_spec (ws : List (Nat × α)) : ∀ (d : Array α), (∀ w ∈ ws, w.1 < d.size) →
    ∃ d', applyWrites d ws = .ok d' ∧ d'.size = d.size ∧
      (∀ k, (∀ w ∈ ws, w.1 ≠ k) → d'[k]? = d[k]?) ∧
      (∀ k v, (∃ w ∈ ws, w.1 = k) → (∀ w ∈ ws, w.1 = k → w.2 = v) → d'[k]? = some v) := by
  induction ws with
  | nil =>
    intro d _
    exact ⟨d, rfl, rfl, fun _ _ => rfl, fun k v h _ => by simp at h⟩
  | cons w t ih =>
    intro d h
    have hw : w.1 < d.size := h w (by simp)
    obtain ⟨d', h1, h2, h3, h4⟩ := ih (d.set w.1 w.2 hw) (fun w' hw' => by
      simpa using h w' (List.mem_cons_of_mem _ hw'))
    refine ⟨d', ?_, ?_, ?_, ?_⟩
    · rw [applyWrites_cons, setE_ok _ _ _ _ hw]; exact h1
    · simpa using h2
    · intro k hk
      rw [h3 k (fun w' hw' => hk w' (List.mem_cons_of_mem _ hw'))]
      have : w.1 ≠ k := hk w (by simp)
      simp [this]
    · intro k v hex hall
      by_cases ht : ∃ w' ∈ t, w'.1 = k
      · exact h4 k v ht (fun w' hw' => hall w' (List.mem_cons_of_mem _ hw'))
      · have hnot : ∀ w' ∈ t, w'.1 ≠ k := fun w' hw' hk => ht ⟨w', hw', hk⟩
        rw [h3 k hnot]
        obtain ⟨w0, hw0, hk0⟩ := hex
        have hw0' : w0 = w := by
          rcases List.mem_cons.mp hw0 with rfl | h'
          · rfl
          · exact absurd hk0 (hnot w0 h')
        subst hw0'
        have hv : w0.2 = v := hall w0 (by simp) hk0
        subst hk0
        simp [hw, hv]

/-- an out-of-range write makes the sequence panic -/
theorem applyWrites_panic (ws : List (Nat × α)) : ∀ (d : Array α), (∃ w ∈ ws, d.size ≤ w.1) →
    applyWrites d ws = .error (.panic "dense index_mut") := by
  induction ws with
  | nil => intro d h; simp at h
  | cons w t ih =>
    intro d h
    rw [applyWrites_cons]
    by_cases hw : w.1 < d.size
    · rw [setE_ok _ _ _ _ hw]
      obtain ⟨w', hw', hle⟩ := h
      have : w' ∈ t := by
        rcases List.mem_cons.mp hw' with rfl | h'
        · omega
        · exact h'
      exact ih _ ⟨w', this, by simpa using hle⟩
    · simp [setE, hw]
      rfl

end Clarabel.Dense
