/-
  C08, structural part: the COMPLETE rejection table of data updating
  (`src/solver/implementations/default/data_updating.rs`), as exact iff-conditions about the
  model `ClarabelModel/Update.lean`.  Everything here is class [S] (no arithmetic law is used;
  the carrier only needs the operator classes the model functions themselves mention).

  * `updateVector_result_table` / `updateMatrix_result_table`: per argument form, when the
    `Result` is an error, which one, and what happened to the data.
  * `pairs_truncation`: the `(index,value)` forms see only the first
    `min index.len() values.len()` pairs (the `zip` stops at the shorter vector).
  * `updateP/Q/A/B_result_table`: guard errors first, then the format error of the data.
  * `updateData_result_table`: mixed argument forms; the error is that of the FIRST rejecting
    component in the order `P, q, A, b`, acceptance being evaluated on the ORIGINAL state;
    the returned state is the composition of the single updates up to and including the
    rejecting one — `update_data` is not atomic (`updateData_not_atomic`).
-/
import ClarabelProofs.Lemmas.Update
import ClarabelProofs.Lemmas.UpdateAbs

namespace Clarabel.Update
variable {α : Type}

/-! ### the pair loop: exact failure condition -/

/-- [S] the loop over `zip(index, values)` fails iff one of the first
`min index.len() values.len()` indices is out of range -/
theorem applyPairs_zip_flag_iff (f : Nat → α → α) (idx : Array Nat) (vals : Array α) (v : Array α) :
    (applyPairs f (idx.toList.zip vals.toList) v).2 = false ↔
      ∃ k, k < idx.size ∧ k < vals.size ∧ v.size ≤ idx.getD k 0 := by
  rw [applyPairs_eq_takeWhile]
  simp only [List.all_eq_false, decide_eq_true_eq, Nat.not_lt]
  constructor
  · rintro ⟨p, hp, hle⟩
    obtain ⟨k, hk, hpk⟩ := List.getElem_of_mem hp
    have hk' : k < idx.size ∧ k < vals.size := by
      have : k < min idx.size vals.size := by simpa [List.length_zip] using hk
      omega
    refine ⟨k, hk'.1, hk'.2, ?_⟩
    rw [List.getElem_zip] at hpk
    subst hpk
    rw [getD_eq_getElem _ _ hk'.1]
    simpa using hle
  · rintro ⟨k, hk1, hk2, hle⟩
    have hlen : k < (idx.toList.zip vals.toList).length := by
      simp only [List.length_zip, Array.length_toList]; omega
    refine ⟨(idx.toList.zip vals.toList)[k], List.getElem_mem hlen, ?_⟩
    rw [List.getElem_zip]
    rw [getD_eq_getElem _ _ hk1] at hle
    simpa using hle

theorem applyPairs_zip_flag_true_iff (f : Nat → α → α) (idx : Array Nat) (vals : Array α)
    (v : Array α) :
    (applyPairs f (idx.toList.zip vals.toList) v).2 = true ↔
      ∀ k, k < idx.size → k < vals.size → idx.getD k 0 < v.size := by
  have h := applyPairs_zip_flag_iff f idx vals v
  constructor
  · intro ht k h1 h2
    rcases Nat.lt_or_ge (idx.getD k 0) v.size with hlt | hge
    · exact hlt
    · have := h.mpr ⟨k, h1, h2, hge⟩
      rw [ht] at this; cases this
  · intro hall
    cases hb : (applyPairs f (idx.toList.zip vals.toList) v).2 with
    | true => rfl
    | false =>
      obtain ⟨k, h1, h2, hle⟩ := h.mp hb
      have := hall k h1 h2
      omega

/-- the flag of the pair loop depends on the target only through its length -/
theorem applyPairs_flag_congr (f g : Nat → α → α) (ps : List (Nat × α)) (v w : Array α)
    (h : w.size = v.size) : (applyPairs g ps w).2 = (applyPairs f ps v).2 := by
  rw [applyPairs_eq_takeWhile, applyPairs_eq_takeWhile, h]

/-- the zip of two arrays is the zip of their prefixes of the shorter length -/
theorem zip_toList_extract_min (idx : Array Nat) (vals : Array α) :
    (idx.extract 0 (min idx.size vals.size)).toList.zip
        (vals.extract 0 (min idx.size vals.size)).toList
      = idx.toList.zip vals.toList := by
  simp only [Array.toList_extract]
  have := List.zip_eq_zip_take_min (l₁ := idx.toList) (l₂ := vals.toList)
  simp only [Array.length_toList] at this
  simpa [List.extract_eq_take_drop] using this.symm

section arith
variable [Mul α] [OfNat α 0]

/-! ### 1. `update_vector` -/

/-- [S] `[T;0]`: accepted, nothing changes -/
theorem updateVector_empty0_iff (v vscale : Array α) (cs : Option α) :
    updateVector .empty0 v vscale cs = (v, .ok ()) := rfl

/-- [S] `[T]` / `Vec<T>`: rejected iff nonempty and of the wrong length, always with
`IncompatibleDimension` -/
theorem updateVector_slice_error_iff (data v vscale : Array α) (cs : Option α)
    (e : Csc.FormatError) :
    (updateVector (.slice data) v vscale cs).2 = .error e ↔
      (data.size ≠ 0 ∧ data.size ≠ v.size ∧ e = .incompatibleDimension) := by
  simp only [updateVector]
  by_cases h0 : data.size = 0
  · rw [if_pos h0]
    constructor
    · intro h; cases h
    · intro h; exact absurd h0 h.1
  · rw [if_neg h0]
    by_cases h1 : data.size = v.size
    · rw [if_neg (fun h => h h1)]
      constructor
      · intro h; cases h
      · intro h; exact absurd h1 h.2.1
    · rw [if_pos h1]
      constructor
      · intro h; cases h; exact ⟨h0, h1, rfl⟩
      · intro h; rw [h.2.2]

theorem updateVector_slice_ok_iff (data v vscale : Array α) (cs : Option α) :
    (updateVector (.slice data) v vscale cs).2 = .ok () ↔
      (data.size = 0 ∨ data.size = v.size) := by
  simp only [updateVector]
  by_cases h0 : data.size = 0
  · rw [if_pos h0]
    exact ⟨fun _ => Or.inl h0, fun _ => rfl⟩
  · rw [if_neg h0]
    by_cases h1 : data.size = v.size
    · rw [if_neg (fun h => h h1)]
      exact ⟨fun _ => Or.inr h1, fun _ => rfl⟩
    · rw [if_pos h1]
      constructor
      · intro h; cases h
      · rintro (h | h)
        · exact absurd h h0
        · exact absurd h h1

/-- [S] `[T]` / `Vec<T>`: the vector is unchanged on error and for the empty slice; an accepted
nonempty slice overwrites every entry -/
theorem updateVector_slice_value (data v vscale : Array α) (cs : Option α) :
    ((∃ e, (updateVector (.slice data) v vscale cs).2 = .error e) →
        (updateVector (.slice data) v vscale cs).1 = v) ∧
    (data.size = 0 → (updateVector (.slice data) v vscale cs).1 = v) ∧
    (data.size ≠ 0 → data.size = v.size →
        (updateVector (.slice data) v vscale cs).1 = data.mapIdx (fun k x => vscaleFull vscale cs k x)) := by
  refine ⟨?_, ?_, ?_⟩
  · rintro ⟨e, he⟩
    exact updateVector_whole_err (.slice data) rfl v vscale cs e he
  · intro h0; simp only [updateVector]; rw [if_pos h0]
  · intro h0 h1; simp only [updateVector]; rw [if_neg h0, if_neg (fun h => h h1)]

/-- [S] `zip(&index,&values)` / `(Vec<usize>,Vec<T>)`: rejected iff one of the first
`min index.len() values.len()` indices is `≥ v.len()`; always `IncompatibleDimension` -/
theorem updateVector_pairs_error_iff (idx : Array Nat) (vals v vscale : Array α) (cs : Option α)
    (e : Csc.FormatError) :
    (updateVector (.pairs idx vals) v vscale cs).2 = .error e ↔
      (e = .incompatibleDimension ∧
        ∃ k, k < idx.size ∧ k < vals.size ∧ v.size ≤ idx.getD k 0) := by
  have h := applyPairs_zip_flag_iff (vscaleFull vscale cs) idx vals v
  simp only [updateVector]
  cases hb : (applyPairs (vscaleFull vscale cs) (idx.toList.zip vals.toList) v).2 with
  | true =>
    rw [hb] at h
    simp only [if_true]
    constructor
    · intro h'; cases h'
    · rintro ⟨_, hk⟩
      have := h.mpr hk
      cases this
  | false =>
    rw [hb] at h
    simp only [Bool.false_eq_true, if_false]
    constructor
    · intro h'; cases h'; exact ⟨rfl, h.mp rfl⟩
    · rintro ⟨rfl, _⟩; rfl

theorem updateVector_pairs_ok_iff (idx : Array Nat) (vals v vscale : Array α) (cs : Option α) :
    (updateVector (.pairs idx vals) v vscale cs).2 = .ok () ↔
      ∀ k, k < idx.size → k < vals.size → idx.getD k 0 < v.size := by
  rw [← applyPairs_zip_flag_true_iff (vscaleFull vscale cs) idx vals v]
  simp only [updateVector]
  cases (applyPairs (vscaleFull vscale cs) (idx.toList.zip vals.toList) v).2 <;> simp

/-- [S] the written vector of the pair forms: the pairs before the first out-of-range index -/
theorem updateVector_pairs_value (idx : Array Nat) (vals v vscale : Array α) (cs : Option α) :
    (updateVector (.pairs idx vals) v vscale cs).1 =
      ((idx.toList.zip vals.toList).takeWhile (fun p => decide (p.1 < v.size))).foldl
        (fun a p => a.setIfInBounds p.1 (vscaleFull vscale cs p.1 p.2)) v := by
  simp only [updateVector]
  rw [applyPairs_eq_takeWhile]

/-- [S] the result of `update_vector` depends on the target only through its length
(and not at all on the scalings) -/
theorem updateVector_result_congr (arg : VecArg α) (v w vscale wscale : Array α) (cs cs' : Option α)
    (h : w.size = v.size) :
    (updateVector arg w wscale cs').2 = (updateVector arg v vscale cs).2 := by
  cases arg with
  | empty0 => rfl
  | slice data => simp only [updateVector, h]; split <;> [rfl; (split <;> rfl)]
  | pairs idx vals =>
    simp only [updateVector]
    rw [applyPairs_flag_congr (vscaleFull vscale cs) (vscaleFull wscale cs') _ v w h]

/-- [S] **rejection table of `update_vector`**, every argument form -/
theorem updateVector_result_table (arg : VecArg α) (v vscale : Array α) (cs : Option α) :
    match arg with
    | .empty0 => updateVector .empty0 v vscale cs = (v, .ok ())
    | .slice data =>
      (∀ e, (updateVector (.slice data) v vscale cs).2 = .error e ↔
          (data.size ≠ 0 ∧ data.size ≠ v.size ∧ e = .incompatibleDimension)) ∧
      ((updateVector (.slice data) v vscale cs).2 = .ok () ↔
          (data.size = 0 ∨ data.size = v.size)) ∧
      ((∃ e, (updateVector (.slice data) v vscale cs).2 = .error e) →
          (updateVector (.slice data) v vscale cs).1 = v) ∧
      (data.size = 0 → (updateVector (.slice data) v vscale cs).1 = v)
    | .pairs idx vals =>
      (∀ e, (updateVector (.pairs idx vals) v vscale cs).2 = .error e ↔
          (e = .incompatibleDimension ∧
            ∃ k, k < idx.size ∧ k < vals.size ∧ v.size ≤ idx.getD k 0)) ∧
      ((updateVector (.pairs idx vals) v vscale cs).2 = .ok () ↔
          ∀ k, k < idx.size → k < vals.size → idx.getD k 0 < v.size) ∧
      (updateVector (.pairs idx vals) v vscale cs).1 =
        ((idx.toList.zip vals.toList).takeWhile (fun p => decide (p.1 < v.size))).foldl
          (fun a p => a.setIfInBounds p.1 (vscaleFull vscale cs p.1 p.2)) v := by
  cases arg with
  | empty0 => rfl
  | slice data =>
    exact ⟨updateVector_slice_error_iff data v vscale cs, updateVector_slice_ok_iff data v vscale cs,
      (updateVector_slice_value data v vscale cs).1, (updateVector_slice_value data v vscale cs).2.1⟩
  | pairs idx vals =>
    exact ⟨updateVector_pairs_error_iff idx vals v vscale cs, updateVector_pairs_ok_iff idx vals v vscale cs,
      updateVector_pairs_value idx vals v vscale cs⟩

/-- [S] the only error `update_vector` can return is `IncompatibleDimension` -/
theorem updateVector_error_kind_iff (arg : VecArg α) (v vscale : Array α) (cs : Option α)
    (e : Csc.FormatError) (h : (updateVector arg v vscale cs).2 = .error e) :
    e = .incompatibleDimension := by
  cases arg with
  | empty0 => cases h
  | slice data => exact ((updateVector_slice_error_iff data v vscale cs e).mp h).2.2
  | pairs idx vals => exact ((updateVector_pairs_error_iff idx vals v vscale cs e).mp h).1

/-! ### 2. `update_matrix` -/

theorem updateMatrixSlice_error_iff (data : Array α) (M : Csc α) (l r : Array α) (cs : Option α)
    (e : Csc.FormatError) :
    (updateMatrixSlice data M l r cs).2 = .error e ↔
      (data.size ≠ 0 ∧ data.size ≠ M.nzval.size ∧ e = .incompatibleDimension) := by
  unfold updateMatrixSlice
  by_cases h0 : data.size = 0
  · rw [if_pos h0]
    constructor
    · intro h; cases h
    · intro h; exact absurd h0 h.1
  · rw [if_neg h0]
    by_cases h1 : data.size = M.nzval.size
    · rw [if_neg (fun h => h h1)]
      constructor
      · intro h; cases h
      · intro h; exact absurd h1 h.2.1
    · rw [if_pos h1]
      constructor
      · intro h; cases h; exact ⟨h0, h1, rfl⟩
      · intro h; rw [h.2.2]

theorem updateMatrixSlice_ok_iff (data : Array α) (M : Csc α) (l r : Array α) (cs : Option α) :
    (updateMatrixSlice data M l r cs).2 = .ok () ↔
      (data.size = 0 ∨ data.size = M.nzval.size) := by
  unfold updateMatrixSlice
  by_cases h0 : data.size = 0
  · rw [if_pos h0]
    exact ⟨fun _ => Or.inl h0, fun _ => rfl⟩
  · rw [if_neg h0]
    by_cases h1 : data.size = M.nzval.size
    · rw [if_neg (fun h => h h1)]
      exact ⟨fun _ => Or.inr h1, fun _ => rfl⟩
    · rw [if_pos h1]
      constructor
      · intro h; cases h
      · rintro (h | h)
        · exact absurd h h0
        · exact absurd h h1

omit [Mul α] [OfNat α 0] in
/-- [S] `check_equal_sparsity`, exactly -/
theorem checkEqualSparsity_iff (U M : Csc α) :
    (checkEqualSparsity U M = .error .incompatibleDimension ↔ (U.m ≠ M.m ∨ U.n ≠ M.n)) ∧
    (checkEqualSparsity U M = .error .sparsityMismatch ↔
      (U.m = M.m ∧ U.n = M.n ∧ (U.colptr ≠ M.colptr ∨ U.rowval ≠ M.rowval))) ∧
    (checkEqualSparsity U M = .ok () ↔
      (U.m = M.m ∧ U.n = M.n ∧ U.colptr = M.colptr ∧ U.rowval = M.rowval)) ∧
    (∀ e, checkEqualSparsity U M = .error e → e = .incompatibleDimension ∨ e = .sparsityMismatch) := by
  unfold checkEqualSparsity
  by_cases hd : U.m ≠ M.m ∨ U.n ≠ M.n
  · rw [if_pos hd]
    refine ⟨⟨fun _ => hd, fun _ => rfl⟩, ⟨fun h => (by cases h), ?_⟩, ⟨fun h => (by cases h), ?_⟩, ?_⟩
    · rintro ⟨h1, h2, _⟩
      rcases hd with hd | hd
      · exact absurd h1 hd
      · exact absurd h2 hd
    · rintro ⟨h1, h2, _⟩
      rcases hd with hd | hd
      · exact absurd h1 hd
      · exact absurd h2 hd
    · intro e h; cases h; exact Or.inl rfl
  · have hm : U.m = M.m := Decidable.not_not.mp (fun h => hd (Or.inl h))
    have hn : U.n = M.n := Decidable.not_not.mp (fun h => hd (Or.inr h))
    rw [if_neg hd]
    by_cases hp : U.colptr ≠ M.colptr ∨ U.rowval ≠ M.rowval
    · rw [if_pos hp]
      refine ⟨⟨fun h => (by cases h), fun h => absurd h hd⟩, ⟨fun _ => ⟨hm, hn, hp⟩, fun _ => rfl⟩,
        ⟨fun h => (by cases h), ?_⟩, ?_⟩
      · rintro ⟨_, _, h3, h4⟩
        rcases hp with hp | hp
        · exact absurd h3 hp
        · exact absurd h4 hp
      · intro e h; cases h; exact Or.inr rfl
    · have hc : U.colptr = M.colptr := Decidable.not_not.mp (fun h => hp (Or.inl h))
      have hr : U.rowval = M.rowval := Decidable.not_not.mp (fun h => hp (Or.inr h))
      rw [if_neg hp]
      refine ⟨⟨fun h => (by cases h), fun h => absurd h hd⟩,
        ⟨fun h => (by cases h), fun h => absurd h.2.2 hp⟩,
        ⟨fun _ => ⟨hm, hn, hc, hr⟩, fun _ => rfl⟩, ?_⟩
      intro e h; cases h

/-- [S] `CscMatrix` argument: `IncompatibleDimension` iff the dimensions differ, or everything
matches but the (nonempty) value array has the wrong length -/
theorem updateMatrix_matrix_incompatibleDimension_iff (U M : Csc α) (l r : Array α) (cs : Option α) :
    (updateMatrix (.matrix U) M l r cs).2 = .error .incompatibleDimension ↔
      ((U.m ≠ M.m ∨ U.n ≠ M.n) ∨
        (U.m = M.m ∧ U.n = M.n ∧ U.colptr = M.colptr ∧ U.rowval = M.rowval ∧
          U.nzval.size ≠ 0 ∧ U.nzval.size ≠ M.nzval.size)) := by
  obtain ⟨h1, h2, h3, h4⟩ := checkEqualSparsity_iff U M
  simp only [updateMatrix]
  cases hc : checkEqualSparsity U M with
  | error e =>
    simp only []
    rcases h4 e hc with rfl | rfl
    · have := h1.mp hc
      simp [this]
    · have := h2.mp hc
      constructor
      · intro h; cases h
      · rintro (h | h)
        · rcases h with h | h
          · exact absurd this.1 h
          · exact absurd this.2.1 h
        · rcases this.2.2 with h' | h'
          · exact absurd h.2.2.1 h'
          · exact absurd h.2.2.2.1 h'
  | ok u =>
    cases u
    simp only []
    have hok := h3.mp hc
    rw [updateMatrixSlice_error_iff]
    constructor
    · rintro ⟨a, b, _⟩
      exact Or.inr ⟨hok.1, hok.2.1, hok.2.2.1, hok.2.2.2, a, b⟩
    · rintro (h | h)
      · rcases h with h | h
        · exact absurd hok.1 h
        · exact absurd hok.2.1 h
      · exact ⟨h.2.2.2.2.1, h.2.2.2.2.2, rfl⟩

/-- [S] `CscMatrix` argument: `SparsityMismatch` iff the dimensions agree and the pattern differs -/
theorem updateMatrix_matrix_sparsityMismatch_iff (U M : Csc α) (l r : Array α) (cs : Option α) :
    (updateMatrix (.matrix U) M l r cs).2 = .error .sparsityMismatch ↔
      (U.m = M.m ∧ U.n = M.n ∧ (U.colptr ≠ M.colptr ∨ U.rowval ≠ M.rowval)) := by
  obtain ⟨h1, h2, h3, h4⟩ := checkEqualSparsity_iff U M
  simp only [updateMatrix]
  cases hc : checkEqualSparsity U M with
  | error e =>
    simp only []
    rw [← h2, hc]
  | ok u =>
    cases u
    simp only []
    have hok := h3.mp hc
    rw [updateMatrixSlice_error_iff]
    constructor
    · rintro ⟨_, _, h⟩; cases h
    · rintro ⟨_, _, h | h⟩
      · exact absurd hok.2.2.1 h
      · exact absurd hok.2.2.2 h

theorem updateMatrix_matrix_ok_iff (U M : Csc α) (l r : Array α) (cs : Option α) :
    (updateMatrix (.matrix U) M l r cs).2 = .ok () ↔
      (U.m = M.m ∧ U.n = M.n ∧ U.colptr = M.colptr ∧ U.rowval = M.rowval ∧
        (U.nzval.size = 0 ∨ U.nzval.size = M.nzval.size)) := by
  obtain ⟨h1, h2, h3, h4⟩ := checkEqualSparsity_iff U M
  simp only [updateMatrix]
  cases hc : checkEqualSparsity U M with
  | error e =>
    simp only []
    constructor
    · intro h; cases h
    · rintro ⟨a, b, c, d, _⟩
      have := h3.mpr ⟨a, b, c, d⟩
      rw [hc] at this; cases this
  | ok u =>
    cases u
    simp only []
    have hok := h3.mp hc
    rw [updateMatrixSlice_ok_iff]
    constructor
    · intro h; exact ⟨hok.1, hok.2.1, hok.2.2.1, hok.2.2.2, h⟩
    · intro h; exact h.2.2.2.2

/-- [S] `zip(&index,&values)` / `(Vec<usize>,Vec<T>)` on a matrix: as for vectors, with the number
of stored values as the bound -/
theorem updateMatrix_pairs_error_iff (idx : Array Nat) (vals : Array α) (M : Csc α) (l r : Array α)
    (cs : Option α) (e : Csc.FormatError) :
    (updateMatrix (.pairs idx vals) M l r cs).2 = .error e ↔
      (e = .incompatibleDimension ∧
        ∃ k, k < idx.size ∧ k < vals.size ∧ M.nzval.size ≤ idx.getD k 0) := by
  have h := applyPairs_zip_flag_iff (scalePair M l r cs) idx vals M.nzval
  simp only [updateMatrix]
  cases hb : (applyPairs (scalePair M l r cs) (idx.toList.zip vals.toList) M.nzval).2 with
  | true =>
    rw [hb] at h
    simp only [if_true]
    constructor
    · intro h'; cases h'
    · rintro ⟨_, hk⟩
      have := h.mpr hk
      cases this
  | false =>
    rw [hb] at h
    simp only [Bool.false_eq_true, if_false]
    constructor
    · intro h'; cases h'; exact ⟨rfl, h.mp rfl⟩
    · rintro ⟨rfl, _⟩; rfl

theorem updateMatrix_pairs_ok_iff (idx : Array Nat) (vals : Array α) (M : Csc α) (l r : Array α)
    (cs : Option α) :
    (updateMatrix (.pairs idx vals) M l r cs).2 = .ok () ↔
      ∀ k, k < idx.size → k < vals.size → idx.getD k 0 < M.nzval.size := by
  rw [← applyPairs_zip_flag_true_iff (scalePair M l r cs) idx vals M.nzval]
  simp only [updateMatrix]
  cases (applyPairs (scalePair M l r cs) (idx.toList.zip vals.toList) M.nzval).2 <;> simp

theorem updateMatrix_pairs_value (idx : Array Nat) (vals : Array α) (M : Csc α) (l r : Array α)
    (cs : Option α) :
    (updateMatrix (.pairs idx vals) M l r cs).1 =
      { M with
        nzval :=
          ((idx.toList.zip vals.toList).takeWhile (fun p => decide (p.1 < M.nzval.size))).foldl
            (fun a p => a.setIfInBounds p.1 (scalePair M l r cs p.1 p.2)) M.nzval } := by
  simp only [updateMatrix]
  rw [applyPairs_eq_takeWhile]

/-- [S] the only errors `update_matrix` can return: `IncompatibleDimension` (every form) and
`SparsityMismatch` (`CscMatrix` form only); `BadColptr` / `BadRowval` never -/
theorem updateMatrix_error_kind_iff (arg : MatArg α) (M : Csc α) (l r : Array α) (cs : Option α)
    (e : Csc.FormatError) (h : (updateMatrix arg M l r cs).2 = .error e) :
    e = .incompatibleDimension ∨ (e = .sparsityMismatch ∧ ∃ U, arg = .matrix U) := by
  cases arg with
  | empty0 => cases h
  | slice data => exact Or.inl ((updateMatrixSlice_error_iff data M l r cs e).mp h).2.2
  | matrix U =>
    simp only [updateMatrix] at h
    cases hc : checkEqualSparsity U M with
    | error e' =>
      rw [hc] at h
      simp only [] at h
      have hee : e' = e := by cases h; rfl
      subst hee
      rcases (checkEqualSparsity_iff U M).2.2.2 e' hc with h' | h'
      · exact Or.inl h'
      · exact Or.inr ⟨h', U, rfl⟩
    | ok u =>
      cases u
      rw [hc] at h
      exact Or.inl ((updateMatrixSlice_error_iff U.nzval M l r cs e).mp h).2.2
  | pairs idx vals => exact Or.inl ((updateMatrix_pairs_error_iff idx vals M l r cs e).mp h).1

/-- [S] the result of `update_matrix` depends on the target only through its dimensions,
pattern and number of stored values (and not at all on the scalings) -/
theorem updateMatrix_result_congr (arg : MatArg α) (M M' : Csc α) (l r l' r' : Array α)
    (cs cs' : Option α) (h : SamePattern M M') :
    (updateMatrix arg M' l' r' cs').2 = (updateMatrix arg M l r cs).2 := by
  have hs : ∀ data, (updateMatrixSlice data M' l' r' cs').2 = (updateMatrixSlice data M l r cs).2 := by
    intro data
    unfold updateMatrixSlice
    rw [h.size]
    split <;> [rfl; (split <;> rfl)]
  cases arg with
  | empty0 => rfl
  | slice data => exact hs data
  | matrix U =>
    simp only [updateMatrix]
    rw [checkEqualSparsity_congr U M M' h.m h.n h.colptr h.rowval]
    cases checkEqualSparsity U M with
    | error e => rfl
    | ok u => cases u; exact hs _
  | pairs idx vals =>
    simp only [updateMatrix]
    rw [applyPairs_flag_congr (scalePair M l r cs) (scalePair M' l' r' cs') _ M.nzval M'.nzval h.size]

/-- [S] **rejection table of `update_matrix`**, every argument form -/
theorem updateMatrix_result_table (arg : MatArg α) (M : Csc α) (l r : Array α) (cs : Option α) :
    (match arg with
    | .empty0 => updateMatrix .empty0 M l r cs = (M, .ok ())
    | .slice data =>
      (∀ e, (updateMatrix (.slice data) M l r cs).2 = .error e ↔
          (data.size ≠ 0 ∧ data.size ≠ M.nzval.size ∧ e = .incompatibleDimension)) ∧
      ((updateMatrix (.slice data) M l r cs).2 = .ok () ↔
          (data.size = 0 ∨ data.size = M.nzval.size)) ∧
      (data.size = 0 → (updateMatrix (.slice data) M l r cs).1 = M)
    | .matrix U =>
      ((updateMatrix (.matrix U) M l r cs).2 = .error .incompatibleDimension ↔
        ((U.m ≠ M.m ∨ U.n ≠ M.n) ∨
          (U.m = M.m ∧ U.n = M.n ∧ U.colptr = M.colptr ∧ U.rowval = M.rowval ∧
            U.nzval.size ≠ 0 ∧ U.nzval.size ≠ M.nzval.size))) ∧
      ((updateMatrix (.matrix U) M l r cs).2 = .error .sparsityMismatch ↔
        (U.m = M.m ∧ U.n = M.n ∧ (U.colptr ≠ M.colptr ∨ U.rowval ≠ M.rowval))) ∧
      ((updateMatrix (.matrix U) M l r cs).2 = .ok () ↔
        (U.m = M.m ∧ U.n = M.n ∧ U.colptr = M.colptr ∧ U.rowval = M.rowval ∧
          (U.nzval.size = 0 ∨ U.nzval.size = M.nzval.size)))
    | .pairs idx vals =>
      (∀ e, (updateMatrix (.pairs idx vals) M l r cs).2 = .error e ↔
          (e = .incompatibleDimension ∧
            ∃ k, k < idx.size ∧ k < vals.size ∧ M.nzval.size ≤ idx.getD k 0)) ∧
      ((updateMatrix (.pairs idx vals) M l r cs).2 = .ok () ↔
          ∀ k, k < idx.size → k < vals.size → idx.getD k 0 < M.nzval.size) ∧
      (updateMatrix (.pairs idx vals) M l r cs).1 =
        { M with
          nzval :=
            ((idx.toList.zip vals.toList).takeWhile (fun p => decide (p.1 < M.nzval.size))).foldl
              (fun a p => a.setIfInBounds p.1 (scalePair M l r cs p.1 p.2)) M.nzval }) ∧
    -- no other error kind, for every form
    (∀ e, (updateMatrix arg M l r cs).2 = .error e →
      e = .incompatibleDimension ∨ (e = .sparsityMismatch ∧ ∃ U, arg = .matrix U)) ∧
    -- a rejected whole form returns `M` unchanged
    (arg.isWhole = true → ∀ e, (updateMatrix arg M l r cs).2 = .error e →
      (updateMatrix arg M l r cs).1 = M) := by
  refine ⟨?_, updateMatrix_error_kind_iff arg M l r cs,
    fun hw e he => updateMatrix_whole_err arg hw M l r cs e he⟩
  cases arg with
  | empty0 => rfl
  | slice data =>
    refine ⟨updateMatrixSlice_error_iff data M l r cs, updateMatrixSlice_ok_iff data M l r cs, ?_⟩
    intro h0
    simp only [updateMatrix, updateMatrixSlice]; rw [if_pos h0]
  | matrix U =>
    exact ⟨updateMatrix_matrix_incompatibleDimension_iff U M l r cs,
      updateMatrix_matrix_sparsityMismatch_iff U M l r cs, updateMatrix_matrix_ok_iff U M l r cs⟩
  | pairs idx vals =>
    exact ⟨updateMatrix_pairs_error_iff idx vals M l r cs, updateMatrix_pairs_ok_iff idx vals M l r cs,
      updateMatrix_pairs_value idx vals M l r cs⟩

/-! ### zip truncation -/

/-- [S] **zip truncation**: the pair forms see `index` and `values` only through
`zip(index, values)` — i.e. through their prefixes of length `min index.len() values.len()`.
A bad index beyond the shorter length is never examined, surplus values are ignored: result
AND written data are those of the truncated arguments. -/
theorem pairs_truncation (idx : Array Nat) (vals : Array α) :
    let k := min idx.size vals.size
    (∀ (v vscale : Array α) (cs : Option α),
      updateVector (.pairs idx vals) v vscale cs
        = updateVector (.pairs (idx.extract 0 k) (vals.extract 0 k)) v vscale cs) ∧
    (∀ (M : Csc α) (l r : Array α) (cs : Option α),
      updateMatrix (.pairs idx vals) M l r cs
        = updateMatrix (.pairs (idx.extract 0 k) (vals.extract 0 k)) M l r cs) := by
  intro k
  have hz := zip_toList_extract_min idx vals
  constructor
  · intro v vscale cs
    simp only [updateVector]
    rw [hz]
  · intro M l r cs
    simp only [updateMatrix]
    rw [hz]

/-- [S] the same, for any two argument pairs with the same zip -/
theorem pairs_truncation_zip (idx idx' : Array Nat) (vals vals' : Array α)
    (h : idx.toList.zip vals.toList = idx'.toList.zip vals'.toList) :
    (∀ (v vscale : Array α) (cs : Option α),
      updateVector (.pairs idx vals) v vscale cs = updateVector (.pairs idx' vals') v vscale cs) ∧
    (∀ (M : Csc α) (l r : Array α) (cs : Option α),
      updateMatrix (.pairs idx vals) M l r cs = updateMatrix (.pairs idx' vals') M l r cs) := by
  constructor
  · intro v vscale cs; simp only [updateVector]; rw [h]
  · intro M l r cs; simp only [updateMatrix]; rw [h]

end arith

/-! ### 3. the four single operations -/

/-- [S] `check_data_update_allowed`, exactly; it never answers `BadFormat` -/
theorem checkDataUpdateAllowed_iff (st : State α) :
    (checkDataUpdateAllowed st = .error .presolveIsActive ↔ st.presolved = true) ∧
    (checkDataUpdateAllowed st = .error .chordalDecompositionIsActive ↔
      (st.presolved = false ∧ st.decomposed = true)) ∧
    (checkDataUpdateAllowed st = .ok () ↔ (st.presolved = false ∧ st.decomposed = false)) ∧
    (∀ e, checkDataUpdateAllowed st ≠ .error (.badFormat e)) := by
  unfold checkDataUpdateAllowed
  cases hp : st.presolved <;> cases hd : st.decomposed <;> simp

/-- the `Result` of a guarded operation: the guard error, else the format error wrapped in
`BadFormat` (`?` on `check_data_update_allowed()` then `?` on `update_matrix/vector`) -/
def opResult (g : Res) (r : FmtRes) : Res :=
  match g with
  | .error e => .error e
  | .ok () => fmtToRes r

/-- [S] the generic table behind the four operations -/
theorem opResult_table (st : State α) (r : FmtRes) :
    (opResult (checkDataUpdateAllowed st) r = .error .presolveIsActive ↔ st.presolved = true) ∧
    (opResult (checkDataUpdateAllowed st) r = .error .chordalDecompositionIsActive ↔
      (st.presolved = false ∧ st.decomposed = true)) ∧
    (∀ e, opResult (checkDataUpdateAllowed st) r = .error (.badFormat e) ↔
      (st.presolved = false ∧ st.decomposed = false ∧ r = .error e)) ∧
    (opResult (checkDataUpdateAllowed st) r = .ok () ↔
      (st.presolved = false ∧ st.decomposed = false ∧ r = .ok ())) := by
  unfold checkDataUpdateAllowed opResult
  cases hp : st.presolved <;> cases hd : st.decomposed <;> rcases r with e' | ⟨⟨⟩⟩ <;>
    simp [fmtToRes]

section ops
variable [Mul α] [OfNat α 0]

/-- acceptance of the `P` argument by `update_matrix`, evaluated on `st` -/
def accP (st : State α) (p : MatArg α) : FmtRes := (updateMatrix p st.P st.d st.d (some st.c)).2
/-- acceptance of the `q` argument by `update_vector`, evaluated on `st` -/
def accQ (st : State α) (q : VecArg α) : FmtRes := (updateVector q st.q st.d (some st.c)).2
/-- acceptance of the `A` argument by `update_matrix`, evaluated on `st` -/
def accA (st : State α) (a : MatArg α) : FmtRes := (updateMatrix a st.A st.e st.d none).2
/-- acceptance of the `b` argument by `update_vector`, evaluated on `st` -/
def accB (st : State α) (b : VecArg α) : FmtRes := (updateVector b st.b st.e none).2

theorem updateP_result_eq (st : State α) (arg : MatArg α) :
    (updateP st arg).2 = opResult (checkDataUpdateAllowed st) (accP st arg) := by
  unfold updateP opResult accP
  cases checkDataUpdateAllowed st with
  | error e => rfl
  | ok u =>
    cases u
    simp only []
    rcases updateMatrix arg st.P st.d st.d (some st.c) with ⟨P', r⟩
    cases r with
    | error e => rfl
    | ok u => cases u; rfl

theorem updateA_result_eq (st : State α) (arg : MatArg α) :
    (updateA st arg).2 = opResult (checkDataUpdateAllowed st) (accA st arg) := by
  unfold updateA opResult accA
  cases checkDataUpdateAllowed st with
  | error e => rfl
  | ok u =>
    cases u
    simp only []
    rcases updateMatrix arg st.A st.e st.d none with ⟨A', r⟩
    cases r with
    | error e => rfl
    | ok u => cases u; rfl

theorem updateQ_result_eq (st : State α) (arg : VecArg α) :
    (updateQ st arg).2 = opResult (checkDataUpdateAllowed st) (accQ st arg) := by
  unfold updateQ opResult accQ
  cases checkDataUpdateAllowed st with
  | error e => rfl
  | ok u =>
    cases u
    simp only []
    rcases updateVector arg st.q st.d (some st.c) with ⟨q', r⟩
    cases r with
    | error e => rfl
    | ok u => cases u; rfl

theorem updateB_result_eq (st : State α) (arg : VecArg α) :
    (updateB st arg).2 = opResult (checkDataUpdateAllowed st) (accB st arg) := by
  unfold updateB opResult accB
  cases checkDataUpdateAllowed st with
  | error e => rfl
  | ok u =>
    cases u
    simp only []
    rcases updateVector arg st.b st.e none with ⟨b', r⟩
    cases r with
    | error e => rfl
    | ok u => cases u; rfl

/-- [S] **rejection table of `update_P`**: `PresolveIsActive` first, then
`ChordalDecompositionIsActive`, then the format error of `update_matrix` on `(P̂, d, d, c)`;
`Ok` iff none of these; the only possible `BadFormat` payloads are `IncompatibleDimension`
and `SparsityMismatch` (the latter only for a `CscMatrix` argument).  Since
`DataUpdateError` has exactly the three constructors named, no other value can occur. -/
theorem updateP_result_table (st : State α) (arg : MatArg α) :
    ((updateP st arg).2 = .error .presolveIsActive ↔ st.presolved = true) ∧
    ((updateP st arg).2 = .error .chordalDecompositionIsActive ↔
      (st.presolved = false ∧ st.decomposed = true)) ∧
    (∀ e, (updateP st arg).2 = .error (.badFormat e) ↔
      (st.presolved = false ∧ st.decomposed = false ∧
        (updateMatrix arg st.P st.d st.d (some st.c)).2 = .error e)) ∧
    ((updateP st arg).2 = .ok () ↔
      (st.presolved = false ∧ st.decomposed = false ∧
        (updateMatrix arg st.P st.d st.d (some st.c)).2 = .ok ())) ∧
    (∀ e, (updateP st arg).2 = .error (.badFormat e) →
      e = .incompatibleDimension ∨ (e = .sparsityMismatch ∧ ∃ U, arg = .matrix U)) := by
  rw [updateP_result_eq]
  obtain ⟨h1, h2, h3, h4⟩ := opResult_table st (accP st arg)
  refine ⟨h1, h2, h3, h4, ?_⟩
  intro e he
  exact updateMatrix_error_kind_iff arg st.P st.d st.d (some st.c) e ((h3 e).mp he).2.2

/-- [S] **rejection table of `update_A`** (`update_matrix` on `(Â, e, d, None)`) -/
theorem updateA_result_table (st : State α) (arg : MatArg α) :
    ((updateA st arg).2 = .error .presolveIsActive ↔ st.presolved = true) ∧
    ((updateA st arg).2 = .error .chordalDecompositionIsActive ↔
      (st.presolved = false ∧ st.decomposed = true)) ∧
    (∀ e, (updateA st arg).2 = .error (.badFormat e) ↔
      (st.presolved = false ∧ st.decomposed = false ∧
        (updateMatrix arg st.A st.e st.d none).2 = .error e)) ∧
    ((updateA st arg).2 = .ok () ↔
      (st.presolved = false ∧ st.decomposed = false ∧
        (updateMatrix arg st.A st.e st.d none).2 = .ok ())) ∧
    (∀ e, (updateA st arg).2 = .error (.badFormat e) →
      e = .incompatibleDimension ∨ (e = .sparsityMismatch ∧ ∃ U, arg = .matrix U)) := by
  rw [updateA_result_eq]
  obtain ⟨h1, h2, h3, h4⟩ := opResult_table st (accA st arg)
  refine ⟨h1, h2, h3, h4, ?_⟩
  intro e he
  exact updateMatrix_error_kind_iff arg st.A st.e st.d none e ((h3 e).mp he).2.2

/-- [S] **rejection table of `update_q`** (`update_vector` on `(q̂, d, c)`); the only
`BadFormat` payload is `IncompatibleDimension` -/
theorem updateQ_result_table (st : State α) (arg : VecArg α) :
    ((updateQ st arg).2 = .error .presolveIsActive ↔ st.presolved = true) ∧
    ((updateQ st arg).2 = .error .chordalDecompositionIsActive ↔
      (st.presolved = false ∧ st.decomposed = true)) ∧
    (∀ e, (updateQ st arg).2 = .error (.badFormat e) ↔
      (st.presolved = false ∧ st.decomposed = false ∧
        (updateVector arg st.q st.d (some st.c)).2 = .error e)) ∧
    ((updateQ st arg).2 = .ok () ↔
      (st.presolved = false ∧ st.decomposed = false ∧
        (updateVector arg st.q st.d (some st.c)).2 = .ok ())) ∧
    (∀ e, (updateQ st arg).2 = .error (.badFormat e) → e = .incompatibleDimension) := by
  rw [updateQ_result_eq]
  obtain ⟨h1, h2, h3, h4⟩ := opResult_table st (accQ st arg)
  refine ⟨h1, h2, h3, h4, ?_⟩
  intro e he
  exact updateVector_error_kind_iff arg st.q st.d (some st.c) e ((h3 e).mp he).2.2

/-- [S] **rejection table of `update_b`** (`update_vector` on `(b̂, e, None)`) -/
theorem updateB_result_table (st : State α) (arg : VecArg α) :
    ((updateB st arg).2 = .error .presolveIsActive ↔ st.presolved = true) ∧
    ((updateB st arg).2 = .error .chordalDecompositionIsActive ↔
      (st.presolved = false ∧ st.decomposed = true)) ∧
    (∀ e, (updateB st arg).2 = .error (.badFormat e) ↔
      (st.presolved = false ∧ st.decomposed = false ∧
        (updateVector arg st.b st.e none).2 = .error e)) ∧
    ((updateB st arg).2 = .ok () ↔
      (st.presolved = false ∧ st.decomposed = false ∧
        (updateVector arg st.b st.e none).2 = .ok ())) ∧
    (∀ e, (updateB st arg).2 = .error (.badFormat e) → e = .incompatibleDimension) := by
  rw [updateB_result_eq]
  obtain ⟨h1, h2, h3, h4⟩ := opResult_table st (accB st arg)
  refine ⟨h1, h2, h3, h4, ?_⟩
  intro e he
  exact updateVector_error_kind_iff arg st.b st.e none e ((h3 e).mp he).2.2

/-- [S] every possible `Result` of the four operations, as a finite list -/
theorem update_result_values_table (st : State α) (pa : MatArg α) (va : VecArg α) :
    (∀ r, r = (updateP st pa).2 ∨ r = (updateA st pa).2 →
      r = .ok () ∨ r = .error .presolveIsActive ∨ r = .error .chordalDecompositionIsActive ∨
      r = .error (.badFormat .incompatibleDimension) ∨ r = .error (.badFormat .sparsityMismatch)) ∧
    (∀ r, r = (updateQ st va).2 ∨ r = (updateB st va).2 →
      r = .ok () ∨ r = .error .presolveIsActive ∨ r = .error .chordalDecompositionIsActive ∨
      r = .error (.badFormat .incompatibleDimension)) := by
  constructor
  · intro r hr
    have key : ∀ e, r = .error (.badFormat e) → e = .incompatibleDimension ∨ e = .sparsityMismatch := by
      intro e he
      rcases hr with hr | hr
      · rcases (updateP_result_table st pa).2.2.2.2 e (hr ▸ he) with h | h
        · exact Or.inl h
        · exact Or.inr h.1
      · rcases (updateA_result_table st pa).2.2.2.2 e (hr ▸ he) with h | h
        · exact Or.inl h
        · exact Or.inr h.1
    rcases r with (_ | _ | e) | ⟨⟨⟩⟩
    · exact Or.inr (Or.inl rfl)
    · exact Or.inr (Or.inr (Or.inl rfl))
    · rcases key e rfl with rfl | rfl
      · exact Or.inr (Or.inr (Or.inr (Or.inl rfl)))
      · exact Or.inr (Or.inr (Or.inr (Or.inr rfl)))
    · exact Or.inl rfl
  · intro r hr
    have key : ∀ e, r = .error (.badFormat e) → e = .incompatibleDimension := by
      intro e he
      rcases hr with hr | hr
      · exact (updateQ_result_table st va).2.2.2.2 e (hr ▸ he)
      · exact (updateB_result_table st va).2.2.2.2 e (hr ▸ he)
    rcases r with (_ | _ | e) | ⟨⟨⟩⟩
    · exact Or.inr (Or.inl rfl)
    · exact Or.inr (Or.inr (Or.inl rfl))
    · rcases key e rfl with rfl
      exact Or.inr (Or.inr (Or.inr rfl))
    · exact Or.inl rfl

/-! ### 4. `update_data` with mixed argument forms -/

/-- [S] acceptance of each component depends only on sizes / patterns — the frame, which no
data update changes: it may be evaluated on any state with the same frame -/
theorem acc_frame_congr {st st' : State α} (f : SameFrame st st') :
    (∀ p, accP st' p = accP st p) ∧ (∀ q, accQ st' q = accQ st q) ∧
    (∀ a, accA st' a = accA st a) ∧ (∀ b, accB st' b = accB st b) :=
  ⟨fun p => updateMatrix_result_congr p st.P st'.P _ _ _ _ _ _ f.P,
   fun q => updateVector_result_congr q st.q st'.q _ _ _ _ f.q,
   fun a => updateMatrix_result_congr a st.A st'.A _ _ _ _ _ _ f.A,
   fun b => updateVector_result_congr b st.b st'.b _ _ _ _ f.b⟩

/-- [S] in particular earlier components of `update_data` never change the acceptance of later
ones (accepted, rejected-partial or rejected-whole alike) -/
theorem acc_after_earlier (st : State α) (p : MatArg α) (q : VecArg α) (a : MatArg α) :
    (∀ q', accQ (updateP st p).1 q' = accQ st q') ∧
    (∀ a', accA (updateQ (updateP st p).1 q).1 a' = accA st a') ∧
    (∀ b', accB (updateA (updateQ (updateP st p).1 q).1 a).1 b' = accB st b') := by
  have f1 := updateP_frame st p
  have f2 := f1.trans (updateQ_frame (updateP st p).1 q)
  have f3 := f2.trans (updateA_frame (updateQ (updateP st p).1 q).1 a)
  exact ⟨(acc_frame_congr f1).2.1, (acc_frame_congr f2).2.2.1, (acc_frame_congr f3).2.2.2⟩

/-- the format error of the FIRST rejecting component in the order `P, q, A, b`, acceptance
evaluated on the one state `st` -/
def firstRejection (st : State α) (p : MatArg α) (q : VecArg α) (a : MatArg α) (b : VecArg α) :
    FmtRes :=
  match accP st p with
  | .error e => .error e
  | .ok () =>
    match accQ st q with
    | .error e => .error e
    | .ok () =>
      match accA st a with
      | .error e => .error e
      | .ok () => accB st b

/-- [S] `firstRejection`, spelled out -/
theorem firstRejection_iff (st : State α) (p : MatArg α) (q : VecArg α) (a : MatArg α)
    (b : VecArg α) :
    (∀ e, firstRejection st p q a b = .error e ↔
      (accP st p = .error e ∨
       (accP st p = .ok () ∧ accQ st q = .error e) ∨
       (accP st p = .ok () ∧ accQ st q = .ok () ∧ accA st a = .error e) ∨
       (accP st p = .ok () ∧ accQ st q = .ok () ∧ accA st a = .ok () ∧ accB st b = .error e))) ∧
    (firstRejection st p q a b = .ok () ↔
      (accP st p = .ok () ∧ accQ st q = .ok () ∧ accA st a = .ok () ∧ accB st b = .ok ())) := by
  unfold firstRejection
  rcases accP st p with e1 | ⟨⟨⟩⟩ <;> rcases accQ st q with e2 | ⟨⟨⟩⟩ <;>
    rcases accA st a with e3 | ⟨⟨⟩⟩ <;> rcases accB st b with e4 | ⟨⟨⟩⟩ <;> simp

/-- `update_data` is the short-circuiting chain of the four single operations -/
theorem updateData_chain (st : State α) (p : MatArg α) (q : VecArg α) (a : MatArg α)
    (b : VecArg α) :
    updateData st p q a b =
      match (updateP st p).2 with
      | .error e => ((updateP st p).1, .error e)
      | .ok () =>
        match (updateQ (updateP st p).1 q).2 with
        | .error e => ((updateQ (updateP st p).1 q).1, .error e)
        | .ok () =>
          match (updateA (updateQ (updateP st p).1 q).1 a).2 with
          | .error e => ((updateA (updateQ (updateP st p).1 q).1 a).1, .error e)
          | .ok () => updateB (updateA (updateQ (updateP st p).1 q).1 a).1 b := by
  unfold updateData
  rcases updateP st p with ⟨s1, e1 | ⟨⟨⟩⟩⟩
  · rfl
  · simp only []
    rcases updateQ s1 q with ⟨s2, e2 | ⟨⟨⟩⟩⟩
    · rfl
    · simp only []
      rcases updateA s2 a with ⟨s3, e3 | ⟨⟨⟩⟩⟩
      · rfl
      · rfl

/-- [S] the `Result` of `update_data`: the guard error, else the error of the first rejecting
component — acceptance evaluated on the ORIGINAL state -/
theorem updateData_result_eq (st : State α) (p : MatArg α) (q : VecArg α) (a : MatArg α)
    (b : VecArg α) :
    (updateData st p q a b).2 = opResult (checkDataUpdateAllowed st) (firstRejection st p q a b) := by
  have f1 := updateP_frame st p
  have f2 := f1.trans (updateQ_frame (updateP st p).1 q)
  have f3 := f2.trans (updateA_frame (updateQ (updateP st p).1 q).1 a)
  obtain ⟨hq, ha, hb⟩ := acc_after_earlier st p q a
  have e1 := updateP_result_eq st p
  have e2 := updateQ_result_eq (updateP st p).1 q
  have e3 := updateA_result_eq (updateQ (updateP st p).1 q).1 a
  have e4 := updateB_result_eq (updateA (updateQ (updateP st p).1 q).1 a).1 b
  rw [f1.guard, hq] at e2
  rw [f2.guard, ha] at e3
  rw [f3.guard, hb] at e4
  rw [updateData_chain, e1, e2, e3]
  unfold firstRejection
  generalize checkDataUpdateAllowed st = g at e4 ⊢
  generalize accP st p = rP
  generalize accQ st q = rQ
  generalize accA st a = rA
  rcases g with g | ⟨⟨⟩⟩
  · rfl
  · rcases rP with x1 | ⟨⟨⟩⟩
    · rfl
    · rcases rQ with x2 | ⟨⟨⟩⟩
      · rfl
      · rcases rA with x3 | ⟨⟨⟩⟩
        · rfl
        · exact e4

/-- [S] the state returned by `update_data`, by the position of the first non-`Ok` single
operation: exactly the composition of the single updates up to and including that one -/
theorem updateData_state_chain (st : State α) (p : MatArg α) (q : VecArg α) (a : MatArg α)
    (b : VecArg α) :
    (∀ e, (updateP st p).2 = .error e → updateData st p q a b = ((updateP st p).1, .error e)) ∧
    (∀ e, (updateP st p).2 = .ok () → (updateQ (updateP st p).1 q).2 = .error e →
      updateData st p q a b = ((updateQ (updateP st p).1 q).1, .error e)) ∧
    (∀ e, (updateP st p).2 = .ok () → (updateQ (updateP st p).1 q).2 = .ok () →
      (updateA (updateQ (updateP st p).1 q).1 a).2 = .error e →
      updateData st p q a b = ((updateA (updateQ (updateP st p).1 q).1 a).1, .error e)) ∧
    ((updateP st p).2 = .ok () → (updateQ (updateP st p).1 q).2 = .ok () →
      (updateA (updateQ (updateP st p).1 q).1 a).2 = .ok () →
      updateData st p q a b = updateB (updateA (updateQ (updateP st p).1 q).1 a).1 b) := by
  refine ⟨?_, ?_, ?_, ?_⟩
  · intro e h1; rw [updateData_chain, h1]
  · intro e h1 h2; rw [updateData_chain, h1, h2]
  · intro e h1 h2 h3; rw [updateData_chain, h1, h2, h3]
  · intro h1 h2 h3; rw [updateData_chain, h1, h2, h3]

/-- [S] **rejection table of `update_data`, mixed argument forms.**
With `accP st p = (update_matrix p on (P̂,d,d,c)).2`, `accQ`, `accA`, `accB` evaluated on the
ORIGINAL state:
* a guard is active ⇒ the guard error, state unchanged;
* otherwise `BadFormat e` iff `e` is the error of the FIRST rejecting component in the order
  `P, q, A, b`; `Ok` iff all four are accepted;
* the state returned on an error at component `i` is the state after the single updates of the
  components `< i` followed by the (possibly partial, for the pair forms) effect of component
  `i`: `update_data` is the composition `update_P; update_q; update_A; update_b` cut after the
  first error. -/
theorem updateData_result_table (st : State α) (p : MatArg α) (q : VecArg α) (a : MatArg α)
    (b : VecArg α) :
    let s1 := (updateP st p).1
    let s2 := (updateQ s1 q).1
    let s3 := (updateA s2 a).1
    -- the result
    ((updateData st p q a b).2 = .error .presolveIsActive ↔ st.presolved = true) ∧
    ((updateData st p q a b).2 = .error .chordalDecompositionIsActive ↔
      (st.presolved = false ∧ st.decomposed = true)) ∧
    (∀ e, (updateData st p q a b).2 = .error (.badFormat e) ↔
      (st.presolved = false ∧ st.decomposed = false ∧
        (accP st p = .error e ∨
         (accP st p = .ok () ∧ accQ st q = .error e) ∨
         (accP st p = .ok () ∧ accQ st q = .ok () ∧ accA st a = .error e) ∨
         (accP st p = .ok () ∧ accQ st q = .ok () ∧ accA st a = .ok () ∧ accB st b = .error e)))) ∧
    ((updateData st p q a b).2 = .ok () ↔
      (st.presolved = false ∧ st.decomposed = false ∧
        accP st p = .ok () ∧ accQ st q = .ok () ∧ accA st a = .ok () ∧ accB st b = .ok ())) ∧
    (∀ e, (updateData st p q a b).2 = .error (.badFormat e) →
      e = .incompatibleDimension ∨
      (e = .sparsityMismatch ∧ ((∃ U, p = .matrix U) ∨ (∃ U, a = .matrix U)))) ∧
    -- the state
    (∀ g, checkDataUpdateAllowed st = .error g → updateData st p q a b = (st, .error g)) ∧
    (checkDataUpdateAllowed st = .ok () →
      (∀ e, accP st p = .error e → updateData st p q a b = (s1, .error (.badFormat e))) ∧
      (∀ e, accP st p = .ok () → accQ st q = .error e →
        updateData st p q a b = (s2, .error (.badFormat e))) ∧
      (∀ e, accP st p = .ok () → accQ st q = .ok () → accA st a = .error e →
        updateData st p q a b = (s3, .error (.badFormat e))) ∧
      (accP st p = .ok () → accQ st q = .ok () → accA st a = .ok () →
        updateData st p q a b = ((updateB s3 b).1, fmtToRes (accB st b)))) := by
  intro s1 s2 s3
  obtain ⟨t1, t2, t3, t4⟩ := opResult_table st (firstRejection st p q a b)
  obtain ⟨fr1, fr2⟩ := firstRejection_iff st p q a b
  have hres := updateData_result_eq st p q a b
  obtain ⟨hq, ha, hb⟩ := acc_after_earlier st p q a
  have f1 := updateP_frame st p
  have f2 := f1.trans (updateQ_frame (updateP st p).1 q)
  have f3 := f2.trans (updateA_frame (updateQ (updateP st p).1 q).1 a)
  have e1 := updateP_result_eq st p
  have e2 := updateQ_result_eq (updateP st p).1 q
  have e3 := updateA_result_eq (updateQ (updateP st p).1 q).1 a
  have e4 := updateB_result_eq (updateA (updateQ (updateP st p).1 q).1 a).1 b
  rw [f1.guard, hq] at e2
  rw [f2.guard, ha] at e3
  rw [f3.guard, hb] at e4
  obtain ⟨c1, c2, c3, c4⟩ := updateData_state_chain st p q a b
  rw [hres]
  refine ⟨t1, t2, ?_, ?_, ?_, ?_, ?_⟩
  · intro e; rw [t3 e, fr1 e]
  · rw [t4, fr2]
  · intro e he
    have := ((fr1 e).mp ((t3 e).mp he).2.2)
    rcases this with h | ⟨_, h⟩ | ⟨_, _, h⟩ | ⟨_, _, _, h⟩
    · rcases updateMatrix_error_kind_iff p _ _ _ _ e h with h' | ⟨h', hU⟩
      · exact Or.inl h'
      · exact Or.inr ⟨h', Or.inl hU⟩
    · exact Or.inl (updateVector_error_kind_iff q _ _ _ e h)
    · rcases updateMatrix_error_kind_iff a _ _ _ _ e h with h' | ⟨h', hU⟩
      · exact Or.inl h'
      · exact Or.inr ⟨h', Or.inr hU⟩
    · exact Or.inl (updateVector_error_kind_iff b _ _ _ e h)
  · intro g hg
    have hP : updateP st p = (st, .error g) := by
      unfold updateP; rw [hg]
    have := c1 g (by rw [hP])
    rw [this, hP]
  · intro hg
    rw [hg] at e1 e2 e3 e4
    refine ⟨?_, ?_, ?_, ?_⟩
    · intro e h1
      rw [h1] at e1
      exact c1 _ e1
    · intro e h1 h2
      rw [h1] at e1; rw [h2] at e2
      exact c2 _ e1 e2
    · intro e h1 h2 h3
      rw [h1] at e1; rw [h2] at e2; rw [h3] at e3
      exact c3 _ e1 e2 e3
    · intro h1 h2 h3
      rw [h1] at e1; rw [h2] at e2; rw [h3] at e3
      rw [c4 e1 e2 e3]
      show updateB s3 b = ((updateB s3 b).1, fmtToRes (accB st b))
      rw [← show (updateB s3 b).2 = fmtToRes (accB st b) from e4]

/-! ### `update_data` is not atomic -/

/-- a rejected whole-form single operation returns the state unchanged
(the model-level form of `C08.rejects_leave_untouched`, used below) -/
theorem whole_reject_state (st : State α) :
    (∀ (a : MatArg α) e, a.isWhole = true → (updateP st a).2 = .error e → (updateP st a).1 = st) ∧
    (∀ (a : VecArg α) e, a.isWhole = true → (updateQ st a).2 = .error e → (updateQ st a).1 = st) ∧
    (∀ (a : MatArg α) e, a.isWhole = true → (updateA st a).2 = .error e → (updateA st a).1 = st) ∧
    (∀ (a : VecArg α) e, a.isWhole = true → (updateB st a).2 = .error e → (updateB st a).1 = st) := by
  refine ⟨?_, ?_, ?_, ?_⟩
  · intro a e hw h
    unfold updateP at h ⊢
    rcases hg : checkDataUpdateAllowed st with g | ⟨⟨⟩⟩
    · rfl
    · simp only [hg] at h ⊢
      generalize hres : updateMatrix a st.P st.d st.d (some st.c) = res at h ⊢
      obtain ⟨x', r⟩ := res
      cases r with
      | ok u => cases h
      | error e' =>
        have := updateMatrix_whole_err a hw st.P st.d st.d (some st.c) e' (by rw [hres])
        rw [hres] at this
        simp only at this ⊢
        rw [this]
  · intro a e hw h
    unfold updateQ at h ⊢
    rcases hg : checkDataUpdateAllowed st with g | ⟨⟨⟩⟩
    · rfl
    · simp only [hg] at h ⊢
      generalize hres : updateVector a st.q st.d (some st.c) = res at h ⊢
      obtain ⟨x', r⟩ := res
      cases r with
      | ok u => cases h
      | error e' =>
        have := updateVector_whole_err a hw st.q st.d (some st.c) e' (by rw [hres])
        rw [hres] at this
        simp only at this ⊢
        rw [this]
  · intro a e hw h
    unfold updateA at h ⊢
    rcases hg : checkDataUpdateAllowed st with g | ⟨⟨⟩⟩
    · rfl
    · simp only [hg] at h ⊢
      generalize hres : updateMatrix a st.A st.e st.d none = res at h ⊢
      obtain ⟨x', r⟩ := res
      cases r with
      | ok u => cases h
      | error e' =>
        have := updateMatrix_whole_err a hw st.A st.e st.d none e' (by rw [hres])
        rw [hres] at this
        simp only at this ⊢
        rw [this]
  · intro a e hw h
    unfold updateB at h ⊢
    rcases hg : checkDataUpdateAllowed st with g | ⟨⟨⟩⟩
    · rfl
    · simp only [hg] at h ⊢
      generalize hres : updateVector a st.b st.e none = res at h ⊢
      obtain ⟨x', r⟩ := res
      cases r with
      | ok u => cases h
      | error e' =>
        have := updateVector_whole_err a hw st.b st.e none e' (by rw [hres])
        rw [hres] at this
        simp only at this ⊢
        rw [this]

/-- [S] **`update_data` is not atomic.**  All four arguments in whole forms (`[T;0]`, `[T]`,
`Vec<T>`, `CscMatrix`), no guard active.  If the call is rejected at component `i`, the
rejected component itself changes nothing, but the components before it HAVE been applied:
the returned state is the one after the accepted single updates `< i` (data, KKT copies and
norm-cache flush included), not the original one. -/
theorem updateData_not_atomic (st : State α) (p : MatArg α) (q : VecArg α) (a : MatArg α)
    (b : VecArg α) (hg : checkDataUpdateAllowed st = .ok ())
    (hp : p.isWhole = true) (hq : q.isWhole = true) (ha : a.isWhole = true) (hb : b.isWhole = true) :
    let s1 := (updateP st p).1
    let s2 := (updateQ s1 q).1
    let s3 := (updateA s2 a).1
    (∀ e, accP st p = .error e → updateData st p q a b = (st, .error (.badFormat e))) ∧
    (∀ e, accP st p = .ok () → accQ st q = .error e →
      updateData st p q a b = (s1, .error (.badFormat e)) ∧ (updateP st p).2 = .ok ()) ∧
    (∀ e, accP st p = .ok () → accQ st q = .ok () → accA st a = .error e →
      updateData st p q a b = (s2, .error (.badFormat e)) ∧
      (updateP st p).2 = .ok () ∧ (updateQ s1 q).2 = .ok ()) ∧
    (∀ e, accP st p = .ok () → accQ st q = .ok () → accA st a = .ok () → accB st b = .error e →
      updateData st p q a b = (s3, .error (.badFormat e)) ∧
      (updateP st p).2 = .ok () ∧ (updateQ s1 q).2 = .ok () ∧ (updateA s2 a).2 = .ok ()) := by
  intro s1 s2 s3
  obtain ⟨_, _, _, _, _, _, hst⟩ := updateData_result_table st p q a b
  obtain ⟨k1, k2, k3, k4⟩ := hst hg
  obtain ⟨hq', ha', hb'⟩ := acc_after_earlier st p q a
  have f1 := updateP_frame st p
  have f2 := f1.trans (updateQ_frame (updateP st p).1 q)
  have f3 := f2.trans (updateA_frame (updateQ (updateP st p).1 q).1 a)
  have e1 := updateP_result_eq st p
  have e2 := updateQ_result_eq (updateP st p).1 q
  have e3 := updateA_result_eq (updateQ (updateP st p).1 q).1 a
  have e4 := updateB_result_eq (updateA (updateQ (updateP st p).1 q).1 a).1 b
  rw [f1.guard, hq', hg] at e2
  rw [f2.guard, ha', hg] at e3
  rw [f3.guard, hb', hg] at e4
  rw [hg] at e1
  refine ⟨?_, ?_, ?_, ?_⟩
  · intro e h1
    rw [k1 e h1]
    rw [h1] at e1
    rw [(whole_reject_state st).1 p _ hp e1]
  · intro e h1 h2
    rw [h1] at e1; rw [h2] at e2
    refine ⟨?_, e1⟩
    rw [k2 e h1 h2]
    rw [(whole_reject_state _).2.1 q _ hq e2]
  · intro e h1 h2 h3
    rw [h1] at e1; rw [h2] at e2; rw [h3] at e3
    refine ⟨?_, e1, e2⟩
    rw [k3 e h1 h2 h3]
    rw [(whole_reject_state _).2.2.1 a _ ha e3]
  · intro e h1 h2 h3 h4
    rw [h1] at e1; rw [h2] at e2; rw [h3] at e3; rw [h4] at e4
    refine ⟨?_, e1, e2, e3⟩
    rw [k4 h1 h2 h3, h4]
    rw [(whole_reject_state _).2.2.2 b _ hb e4]
    rfl

end ops

/-! ### 5. non-vacuity: one concrete instance per error kind and per argument form -/

section examples

/-- a carrier for concrete examples (`ℕ` with the obvious `FloatLike` structure; copy of the
instance at the end of `Props/C08.lean`) -/
local instance : FloatLike Nat :=
  ⟨id, id, id, fun a _ => a, max, min, id, fun _ => false, fun _ => true, 0, id⟩

/-- copy of `C08.exState`: 1 variable, 1 constraint, `P = [5]`, `q = [3]`, `A = [7]`, `b = [2]`,
unit equilibration -/
def rejState : State Nat :=
  { P := ⟨1, 1, #[0, 1], #[0], #[5]⟩, q := #[3], A := ⟨1, 1, #[0, 1], #[0], #[7]⟩, b := #[2],
    d := #[1], dinv := #[1], e := #[1], einv := #[1], c := 1,
    normq := none, normb := none, presolved := false, decomposed := false,
    kkt := #[5, 7, 0], mapP := #[0], mapA := #[1], diagFull := #[0, 2],
    ldl := #[0, 7, 5], atoPAPt := #[2, 1, 0], ldlDiagShifted := false }

/-- a 2-variable state (`P` = diag, `q` of length 2), to have room for truncation examples -/
def rejState2 : State Nat :=
  { P := ⟨2, 2, #[0, 1, 2], #[0, 1], #[5, 6]⟩, q := #[3, 4],
    A := ⟨1, 2, #[0, 1, 2], #[0, 0], #[7, 8]⟩, b := #[2],
    d := #[1, 1], dinv := #[1, 1], e := #[1], einv := #[1], c := 1,
    normq := none, normb := none, presolved := false, decomposed := false,
    kkt := #[5, 6, 7, 8, 0], mapP := #[0, 1], mapA := #[2, 3], diagFull := #[0, 1, 4],
    ldl := #[5, 6, 7, 8, 0], atoPAPt := #[0, 1, 2, 3, 4], ldlDiagShifted := false }

/-! guard errors (every operation, whatever the argument) -/

example : (updateP { rejState with presolved := true } (.slice #[9])).2 = .error .presolveIsActive := by
  decide
example : (updateQ { rejState with presolved := true, decomposed := true } .empty0).2
    = .error .presolveIsActive := by decide
example : (updateA { rejState with decomposed := true } (.pairs #[0] #[9])).2
    = .error .chordalDecompositionIsActive := by decide
example : (updateB { rejState with decomposed := true } (.slice #[9])).2
    = .error .chordalDecompositionIsActive := by decide
example : updateData { rejState with presolved := true } (.slice #[9]) (.slice #[1]) .empty0 .empty0
    = ({ rejState with presolved := true }, .error .presolveIsActive) := rfl
example : (step { rejState with decomposed := true } (.updateQ (.slice #[9]))).2
    = .error .chordalDecompositionIsActive := by decide

/-! vector forms -/

example : (updateQ rejState .empty0).2 = .ok () := by decide
example : (updateQ rejState (.slice #[])).2 = .ok () := by decide
example : (updateQ rejState (.slice #[9])).2 = .ok () ∧ (updateQ rejState (.slice #[9])).1.q = #[9] := by
  decide
example : (updateQ rejState (.slice #[9, 9])).2 = .error (.badFormat .incompatibleDimension) ∧
    (updateQ rejState (.slice #[9, 9])).1.q = #[3] := by decide
example : (updateB rejState (.slice #[9, 9])).2 = .error (.badFormat .incompatibleDimension) := by decide
example : (updateQ rejState (.pairs #[0] #[9])).2 = .ok () := by decide
example : (updateQ rejState (.pairs #[1] #[9])).2 = .error (.badFormat .incompatibleDimension) := by
  decide
example : (updateB rejState (.pairs #[1] #[9])).2 = .error (.badFormat .incompatibleDimension) := by
  decide

/-- zip truncation, more indices than values: the bad index `9` lies beyond the shorter length
and is never examined — accepted -/
example : (updateQ rejState2 (.pairs #[0, 9] #[8])).2 = .ok () ∧
    (updateQ rejState2 (.pairs #[0, 9] #[8])).1.q = #[8, 4] := by decide
/-- zip truncation, more values than indices: the surplus values are ignored -/
example : (updateQ rejState2 (.pairs #[1] #[8, 7, 6])).2 = .ok () ∧
    (updateQ rejState2 (.pairs #[1] #[8, 7, 6])).1.q = #[3, 8] := by decide
/-- a bad index INSIDE the shorter length: rejected, the prefix has been applied -/
example : (updateQ rejState2 (.pairs #[1, 9, 0] #[8, 7])).2 = .error (.badFormat .incompatibleDimension) ∧
    (updateQ rejState2 (.pairs #[1, 9, 0] #[8, 7])).1.q = #[3, 8] := by decide

/-! matrix forms -/

example : (updateP rejState .empty0).2 = .ok () := by decide
example : (updateP rejState (.slice #[])).2 = .ok () := by decide
example : (updateP rejState (.slice #[9, 9])).2 = .error (.badFormat .incompatibleDimension) := by decide
example : (updateA rejState (.slice #[9, 9])).2 = .error (.badFormat .incompatibleDimension) := by decide
example : (updateP rejState (.pairs #[1] #[9])).2 = .error (.badFormat .incompatibleDimension) := by
  decide
example : (updateA rejState2 (.pairs #[1, 2] #[9, 9])).2 = .error (.badFormat .incompatibleDimension) ∧
    (updateA rejState2 (.pairs #[1, 2] #[9, 9])).1.A.nzval = #[7, 9] := by decide
example : (updateA rejState2 (.pairs #[1, 2] #[9])).2 = .ok () := by decide
/-- `CscMatrix`, wrong dimensions -/
example : (updateP rejState (.matrix ⟨2, 1, #[0, 1], #[0], #[9]⟩)).2
    = .error (.badFormat .incompatibleDimension) := by decide
/-- `CscMatrix`, right dimensions, wrong pattern (`colptr`) -/
example : (updateP rejState (.matrix ⟨1, 1, #[0, 0], #[], #[]⟩)).2
    = .error (.badFormat .sparsityMismatch) := by decide
/-- `CscMatrix`, right dimensions, wrong pattern (`rowval`) -/
example : (updateA rejState2 (.matrix ⟨1, 2, #[0, 1, 2], #[0, 1], #[9, 9]⟩)).2
    = .error (.badFormat .sparsityMismatch) := by decide
/-- `CscMatrix`, right pattern, but an (ill-formed) value array of the wrong length: the third
way — possible because the fields of `CscMatrix` are public and `update_matrix` does not call
`check_format` -/
example : (updateP rejState (.matrix ⟨1, 1, #[0, 1], #[0], #[9, 9]⟩)).2
    = .error (.badFormat .incompatibleDimension) := by decide
/-- … and with an EMPTY value array such a matrix is accepted and changes nothing -/
example : (updateP rejState (.matrix ⟨1, 1, #[0, 1], #[0], #[]⟩)).2 = .ok () ∧
    (updateP rejState (.matrix ⟨1, 1, #[0, 1], #[0], #[]⟩)).1.P.nzval = #[5] := by decide
example : (updateP rejState (.matrix ⟨1, 1, #[0, 1], #[0], #[9]⟩)).2 = .ok () := by decide

/-! `update_data`, mixed forms: matrix + pairs + empty + slice -/

/-- all accepted -/
example : (updateData rejState (.matrix ⟨1, 1, #[0, 1], #[0], #[9]⟩) (.pairs #[0] #[8]) .empty0
    (.slice #[6])).2 = .ok () := by decide
/-- `b` (last component) is the first to be rejected: `P`, `q` have been applied -/
example :
    let r := updateData rejState (.matrix ⟨1, 1, #[0, 1], #[0], #[9]⟩) (.pairs #[0] #[8]) .empty0
      (.slice #[6, 6])
    r.2 = .error (.badFormat .incompatibleDimension) ∧ r.1.P.nzval = #[9] ∧ r.1.q = #[8] ∧
    r.1.b = #[2] ∧ r.1.kkt = #[9, 7, 0] := by decide
/-- `A` is the first to be rejected (pattern), although `b` would be rejected too -/
example :
    (updateData rejState (.slice #[9]) .empty0 (.matrix ⟨1, 1, #[0, 0], #[], #[]⟩) (.slice #[6, 6])).2
      = .error (.badFormat .sparsityMismatch) := by decide
/-- hypotheses of `updateData_not_atomic` are satisfiable, and its conclusion is not void:
whole forms only, rejected at `q`, and yet `P̂` and the KKT copy HAVE changed -/
example :
    checkDataUpdateAllowed rejState = .ok () ∧
    accP rejState (.slice #[9]) = .ok () ∧
    accQ rejState (.slice #[1, 2]) = .error .incompatibleDimension ∧
    (updateData rejState (.slice #[9]) (.slice #[1, 2]) .empty0 .empty0).2
      = .error (.badFormat .incompatibleDimension) ∧
    (updateData rejState (.slice #[9]) (.slice #[1, 2]) .empty0 .empty0).1.P.nzval = #[9] ∧
    (updateData rejState (.slice #[9]) (.slice #[1, 2]) .empty0 .empty0).1.kkt = #[9, 7, 0] ∧
    rejState.P.nzval = #[5] := by decide

/-- [S] the counterexample to atomicity, as a statement: a rejected whole-form `update_data`
that returns a state different from the one it was called on -/
theorem updateData_not_atomic_witness :
    ∃ (st : State Nat) (p : MatArg Nat) (q : VecArg Nat) (a : MatArg Nat) (b : VecArg Nat),
      p.isWhole = true ∧ q.isWhole = true ∧ a.isWhole = true ∧ b.isWhole = true ∧
      (∃ e, (updateData st p q a b).2 = .error e) ∧ (updateData st p q a b).1.P ≠ st.P :=
  ⟨rejState, .slice #[9], .slice #[1, 2], .empty0, .empty0, rfl, rfl, rfl, rfl,
    ⟨_, rfl⟩, by
      intro h
      have : (updateData rejState (.slice #[9]) (.slice #[1, 2]) .empty0 .empty0).1.P.nzval
          = rejState.P.nzval := by rw [h]
      revert this
      decide⟩

end examples

end Clarabel.Update
