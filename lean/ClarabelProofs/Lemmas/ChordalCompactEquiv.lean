/-
  `compact_equiv` (forward direction): a point satisfying the equalities of the compact problem
  gives a point satisfying the original equalities with `S = Σ_K E_Kᵀ S_K E_K`; the overlap
  variables cancel because both rows of an overlap column hold the same original matrix entry.
-/
import ClarabelProofs.Lemmas.ChordalCompactPairs
import Mathlib.Algebra.BigOperators.Group.Finset.Basic
import Mathlib.Algebra.BigOperators.Group.Finset.Piecewise
import Mathlib.Algebra.BigOperators.Group.Finset.Sigma
import Mathlib.Algebra.Ring.Defs

namespace Clarabel.Chordal
open Finset

/-! ## the original row held by a row of the compact problem -/

/-- row `ρ` of the compact problem holds (a copy of) the original row `r`: shifted row of a cone
that is not decomposed, or ANY entry (overlap or not) of a clique block of a decomposed cone -/
def OrigOf (ci : ChordalInfo) (ρ r : Nat) : Prop :=
  ∃ c, c < ci.initCones.size ∧
    ((ci.patAt c = none ∧ ci.newStart c ≤ ρ ∧ ρ < ci.newStart c + ci.nv c ∧ r = ci.rs c + (ρ - ci.newStart c)) ∨
     (∃ p, ci.patAt c = some p ∧ ∃ i x y, i < p.sntree.nCliques ∧ x ≤ y ∧ y < (p.cliqueO i).length ∧
        ρ = p.blockRow (ci.newStart c) i x y ∧
        r = ci.rs c + coordToUpperTriangularIndex ((p.cliqueO i).getD x 0, (p.cliqueO i).getD y 0)))

theorem NewRow.origOf {ci : ChordalInfo} {r v : Nat} (h : NewRow ci r v) : OrigOf ci v r := by
  obtain ⟨c, hc, h1, h2, h3⟩ := h
  refine ⟨c, hc, ?_⟩
  rcases h3 with ⟨hp, rfl⟩ | ⟨p, hp, i, x, y, hi, hxy, hy, _, hr, rfl⟩
  · exact Or.inl ⟨hp, by omega, by omega, by omega⟩
  · exact Or.inr ⟨p, hp, i, x, y, hi, hxy, hy, rfl, hr⟩

theorem blockRow_inj (p : SPattern) (hp : ValidPattern p) (row0 : Nat) {i x y i' x' y' : Nat}
    (hi : i < p.sntree.nCliques) (hxy : x ≤ y) (hy : y < (p.cliqueO i).length)
    (hi' : i' < p.sntree.nCliques) (hxy' : x' ≤ y') (hy' : y' < (p.cliqueO i').length)
    (h : p.blockRow row0 i x y = p.blockRow row0 i' x' y') : i = i' ∧ x = x' ∧ y = y' := by
  have hf := cliqueFacts p hp i hi
  have hf' := cliqueFacts p hp i' hi'
  have hb1 := coord_index_lt hxy hy
  have hb2 := coord_index_lt hxy' hy'
  rw [hf.clique_len] at hb1
  rw [hf'.clique_len] at hb2
  have hb1' : coordToUpperTriangularIndex (x, y) < p.blk i := hb1
  have hb2' : coordToUpperTriangularIndex (x', y') < p.blk i' := hb2
  unfold SPattern.blockRow at h
  have hii : i = i' := by
    rcases Nat.lt_trichotomy i i' with h' | h' | h'
    · have := rowStart_anti p row0 i (i' - i - 1) (by omega)
      rw [show i + (i' - i - 1) + 1 = i' by omega] at this
      omega
    · exact h'
    · have := rowStart_anti p row0 i' (i - i' - 1) (by omega)
      rw [show i' + (i - i' - 1) + 1 = i by omega] at this
      omega
  subst hii
  have htri : coordToUpperTriangularIndex (x, y) = coordToUpperTriangularIndex (x', y') := by omega
  obtain ⟨rfl, rfl⟩ := tri_pair_inj hxy hxy' htri
  exact ⟨rfl, rfl, rfl⟩

theorem OrigOf.range {ci : ChordalInfo} (hv : ValidInfo ci) {ρ r : Nat} {c : Nat} (hc : c < ci.initCones.size)
    (h : (ci.patAt c = none ∧ ci.newStart c ≤ ρ ∧ ρ < ci.newStart c + ci.nv c ∧ r = ci.rs c + (ρ - ci.newStart c)) ∨
     (∃ p, ci.patAt c = some p ∧ ∃ i x y, i < p.sntree.nCliques ∧ x ≤ y ∧ y < (p.cliqueO i).length ∧
        ρ = p.blockRow (ci.newStart c) i x y ∧
        r = ci.rs c + coordToUpperTriangularIndex ((p.cliqueO i).getD x 0, (p.cliqueO i).getD y 0))) :
    ci.newStart c ≤ ρ ∧ ρ < ci.newStart (c + 1) := by
  rcases h with ⟨hp, h1, h2, _⟩ | ⟨p, hp, i, x, y, hi, hxy, hy, rfl, _⟩
  · rw [ci.newStart_succ_none c hp]; exact ⟨h1, h2⟩
  · rw [ci.newStart_succ_some c p hp]
    have := blockRow_lt p (hv.pat c hc p hp).1 (ci.newStart c) i x y hi hxy hy
    unfold SPattern.blockRow SPattern.rowStart at this ⊢
    omega

/-- a row of the compact problem holds at most one original row -/
theorem OrigOf.unique {ci : ChordalInfo} (hv : ValidInfo ci) {ρ r r' : Nat}
    (h : OrigOf ci ρ r) (h' : OrigOf ci ρ r') : r = r' := by
  obtain ⟨c, hc, h3⟩ := h
  obtain ⟨c', hc', h3'⟩ := h'
  have hr := OrigOf.range hv hc h3
  have hr' := OrigOf.range hv hc' h3'
  have hcc : c = c' := by
    rcases Nat.lt_trichotomy c c' with h | h | h
    · have := ci.newStart_mono (c + 1) (c' - (c + 1))
      rw [show c + 1 + (c' - (c + 1)) = c' by omega] at this
      omega
    · exact h
    · have := ci.newStart_mono (c' + 1) (c - (c' + 1))
      rw [show c' + 1 + (c - (c' + 1)) = c by omega] at this
      omega
  subst hcc
  rcases h3 with ⟨hp, _, _, rfl⟩ | ⟨p, hp, i, x, y, hi, hxy, hy, hρ, rfl⟩
  · rcases h3' with ⟨_, _, _, rfl⟩ | ⟨p', hp', _⟩
    · rfl
    · rw [hp] at hp'; cases hp'
  · rcases h3' with ⟨hp', _⟩ | ⟨p', hp', i', x', y', hi', hxy', hy', hρ', rfl⟩
    · rw [hp] at hp'; cases hp'
    · rw [hp] at hp'
      cases hp'
      obtain ⟨rfl, rfl, rfl⟩ := blockRow_inj p (hv.pat c hc p hp).1 (ci.newStart c) hi hxy hy hi' hxy' hy'
        (hρ.symm.trans hρ')
      rfl

/-- both rows of an overlap column hold the same original row -/
theorem OvEntry.origOf {ci : ChordalInfo} {c : Nat} {p : SPattern} {i j x y x' y' : Nat}
    (h : OvEntry ci c p i j x y x' y') :
    OrigOf ci (p.blockRow (ci.newStart c) i x y)
      (ci.rs c + coordToUpperTriangularIndex ((p.cliqueO i).getD x 0, (p.cliqueO i).getD y 0)) ∧
    OrigOf ci (p.blockRow (ci.newStart c) j x' y')
      (ci.rs c + coordToUpperTriangularIndex ((p.cliqueO i).getD x 0, (p.cliqueO i).getD y 0)) := by
  constructor
  · exact ⟨c, h.hc, Or.inr ⟨p, h.hp, i, x, y, by have := h.hi; omega, h.hxy, h.hy, rfl, rfl⟩⟩
  · exact ⟨c, h.hc, Or.inr ⟨p, h.hp, j, x', y', h.hpar.1, h.hxy', h.hy', rfl, by rw [h.hex, h.hey]⟩⟩

/-! ## sums -/

section Sums
variable {α : Type} [AddCommMonoid α]

open Classical in
/-- exchange: scatter by `I`, then select the rows satisfying `O` = select the indices whose
target satisfies `O` -/
theorem sum_scatter_select (D K : Nat) (I : Nat → Nat) (O : Nat → Prop) (t : Nat → α)
    (hI : ∀ k, k < K → I k < D) :
    (∑ ρ ∈ range D, if O ρ then (∑ k ∈ range K, if I k = ρ then t k else 0) else 0) =
      ∑ k ∈ range K, if O (I k) then t k else 0 := by
  have h1 : ∀ ρ, (if O ρ then (∑ k ∈ range K, if I k = ρ then t k else 0) else 0) =
      ∑ k ∈ range K, if I k = ρ then (if O ρ then t k else 0) else 0 := by
    intro ρ
    by_cases h : O ρ
    · simp [h]
    · simp [h]
  simp only [h1]
  rw [Finset.sum_comm]
  apply Finset.sum_congr rfl
  intro k hk
  rw [Finset.sum_ite_eq, if_pos (Finset.mem_range.2 (hI k (Finset.mem_range.1 hk)))]

theorem sum_range_pairs (n : Nat) (f : Nat → α) :
    ∑ i ∈ range (2 * n), f i = ∑ o ∈ range n, (f (2 * o) + f (2 * o + 1)) := by
  induction n with
  | zero => simp
  | succ n ih =>
    rw [show 2 * (n + 1) = 2 * n + 1 + 1 by omega, Finset.sum_range_succ, Finset.sum_range_succ, ih,
      Finset.sum_range_succ, add_assoc]

end Sums

/-! ## the explicit column / value vectors -/

theorem pairs_getD {β : Type} (d : β) (n : Nat) (f g : Nat → β) (o : Nat) (ho : o < n) :
    ((List.range n).flatMap (fun o => [f o, g o])).getD (2 * o) d = f o ∧
    ((List.range n).flatMap (fun o => [f o, g o])).getD (2 * o + 1) d = g o := by
  induction n with
  | zero => omega
  | succ n ih =>
    rw [List.range_succ, List.flatMap_append]
    have hlen := pairs_length n (fun o => [f o, g o]) (fun _ => rfl)
    rcases Nat.lt_or_ge o n with h | h
    · have := ih h
      rw [List.getD_eq_getElem?_getD, List.getD_eq_getElem?_getD] at this ⊢
      rw [List.getElem?_append_left (by omega), List.getElem?_append_left (by omega)]
      exact this
    · have : o = n := by omega
      subst this
      rw [List.getD_eq_getElem?_getD, List.getD_eq_getElem?_getD,
        List.getElem?_append_right (by omega), List.getElem?_append_right (by omega), hlen]
      simp

theorem getD_append_toArray_right {β : Type} (a : Array β) (l : List β) (i : Nat) (d : β) :
    (a ++ l.toArray).getD (a.size + i) d = l.getD i d := by
  simp [Array.getD, List.getD_eq_getElem?_getD]
  rcases Nat.lt_or_ge i l.length with h | h
  · simp [h]
  · simp [Nat.not_lt.2 h]

theorem getD_append_left' {β : Type} (a b : Array β) (k : Nat) (d : β) (h : k < a.size) :
    (a ++ b).getD k d = a.getD k d := by
  simp [Array.getD, h, Array.getElem_append_left h]
  omega

theorem getD_extract_zero {β : Type} (a : Array β) (n k : Nat) (d : β) (hk : k < n) (hn : n ≤ a.size) :
    (a.extract 0 n).getD k d = a.getD k d := by
  have h1 : k < (a.extract 0 n).size := by rw [Array.size_extract]; omega
  have h2 : k < a.size := by omega
  rw [Array.getD_eq_getD_getElem?, Array.getD_eq_getD_getElem?, Array.getElem?_eq_getElem h1,
    Array.getElem?_eq_getElem h2, Array.getElem_extract]
  simp

/-! ## the theorem -/

section Main
variable {α : Type} [Ring α] [BEq α]

open Classical in
/-- **`compact_equiv` (compact ⇒ original)**.  Let `(A_I, A_J, A_V)`, `(b_I, b_V)` be the triplets
of the compact problem (`findCompactTriplets`), `xx` the values of its `n + n_overlaps` variables
and `st` its slack.  If every row `ρ < dim` satisfies the compact equality
`Σ_{k : A_I[k] = ρ} A_V[k]·xx[A_J[k]] + st[ρ] = Σ_{k : b_I[k] = ρ} b_V[k]`, then every original
row `r` satisfies `Σ_{k < nnz : rowval[k] = r} nzval[k]·xx[col k] + S[r] = Σ_{k : bInd[k] = r} b_V[k]`
— i.e. `(A x)[r] + S[r] = b[r]` — where `S[r] = Σ_{ρ : OrigOf ρ r} st[ρ]` is the sum of the slack
over all rows of the compact problem that hold (a copy of) the original row `r`:
`S = Σ_K E_Kᵀ S_K E_K`.  The overlap variables drop out: the two rows `(+1, -1)` of an overlap
column hold the same original entry. -/
theorem compact_equiv_forward (ci : ChordalInfo) (A : Csc α) (b : Array α)
    (H : CompactHyp ci A (bIndOf b)) (hnz : A.colptr.getD A.n 0 ≤ A.nzval.size)
    (hpos : A.colptr.getD A.n 0 + 2 * ci.ovBefore ci.initCones.size ≠ 0) :
    ∃ tr, findCompactTriplets ci A b = .ok tr ∧
      ∀ (xx st : Nat → α),
        (∀ ρ, ρ < tr.dim →
          (∑ k ∈ range tr.AaI.size, if tr.AaI.getD k 0 = ρ then tr.AaV.getD k 0 * xx (tr.AaJ.getD k 0) else 0) +
            st ρ =
          ∑ k ∈ range tr.bInd.size, if tr.baI.getD k 0 = ρ then tr.bVal.getD k 0 else 0) →
        ∀ r,
          (∑ k ∈ range (A.colptr.getD A.n 0),
              if A.rowval.getD k 0 = r then A.nzval.getD k 0 * xx (tr.AaJ.getD k 0) else 0) +
            (∑ ρ ∈ range tr.dim, if OrigOf ci ρ r then st ρ else 0) =
          ∑ k ∈ range tr.bInd.size, if tr.bInd.getD k 0 = r then tr.bVal.getD k 0 else 0 := by
  obtain ⟨tr, htr, hdim, hnov, hsz, hJ, hV, hbI, hbV, hbsz, hA, hO, hB, _, _⟩ :=
    findCompactTriplets_spec ci A b H hnz hpos
  refine ⟨tr, htr, fun xx st heq r => ?_⟩
  have hv := H.valid
  -- select the rows that hold `r` and add the compact equalities
  have hsum : (∑ ρ ∈ range tr.dim, if OrigOf ci ρ r then
        ((∑ k ∈ range tr.AaI.size, if tr.AaI.getD k 0 = ρ then tr.AaV.getD k 0 * xx (tr.AaJ.getD k 0) else 0) +
          st ρ) else 0) =
      ∑ ρ ∈ range tr.dim, if OrigOf ci ρ r then
        (∑ k ∈ range tr.bInd.size, if tr.baI.getD k 0 = ρ then tr.bVal.getD k 0 else 0) else 0 := by
    apply Finset.sum_congr rfl
    intro ρ hρ
    rw [heq ρ (Finset.mem_range.1 hρ)]
  have hsplit : ∀ ρ, (if OrigOf ci ρ r then
        ((∑ k ∈ range tr.AaI.size, if tr.AaI.getD k 0 = ρ then tr.AaV.getD k 0 * xx (tr.AaJ.getD k 0) else 0) +
          st ρ) else 0) =
      (if OrigOf ci ρ r then
        (∑ k ∈ range tr.AaI.size, if tr.AaI.getD k 0 = ρ then tr.AaV.getD k 0 * xx (tr.AaJ.getD k 0) else 0)
        else 0) + (if OrigOf ci ρ r then st ρ else 0) := by
    intro ρ
    by_cases h : OrigOf ci ρ r
    · simp [h]
    · simp [h]
  simp only [hsplit] at hsum
  rw [Finset.sum_add_distrib] at hsum
  -- in-range facts
  have hAlt : ∀ k, k < tr.AaI.size → tr.AaI.getD k 0 < tr.dim := by
    intro k hk
    rw [hdim]
    rcases Nat.lt_or_ge k (A.colptr.getD A.n 0) with h | h
    · exact (hA k h).lt_dim hv
    · exact (hO k h (by omega)).lt_dim hv
  have hBlt : ∀ k, k < tr.bInd.size → tr.baI.getD k 0 < tr.dim := by
    intro k hk
    rw [hbI] at hk
    rw [hdim]
    exact (hB k hk).lt_dim hv
  rw [sum_scatter_select tr.dim tr.AaI.size (fun k => tr.AaI.getD k 0) (fun ρ => OrigOf ci ρ r)
      (fun k => tr.AaV.getD k 0 * xx (tr.AaJ.getD k 0)) hAlt,
    sum_scatter_select tr.dim tr.bInd.size (fun k => tr.baI.getD k 0) (fun ρ => OrigOf ci ρ r)
      (fun k => tr.bVal.getD k 0) hBlt] at hsum
  -- the right-hand side
  have hrhs : (∑ k ∈ range tr.bInd.size, if OrigOf ci (tr.baI.getD k 0) r then tr.bVal.getD k 0 else 0) =
      ∑ k ∈ range tr.bInd.size, if tr.bInd.getD k 0 = r then tr.bVal.getD k 0 else 0 := by
    apply Finset.sum_congr rfl
    intro k hk
    have hk' : k < (bIndOf b).size := by rw [← hbI]; exact Finset.mem_range.1 hk
    have ho := (hB k hk').origOf
    rw [← hbI] at ho
    have : OrigOf ci (tr.baI.getD k 0) r ↔ tr.bInd.getD k 0 = r :=
      ⟨fun h => ho.unique hv h, fun h => h ▸ ho⟩
    by_cases h : tr.bInd.getD k 0 = r
    · rw [if_pos h, if_pos (this.2 h)]
    · rw [if_neg h, if_neg (fun hh => h (this.1 hh))]
  rw [hrhs] at hsum
  rw [← hsum]
  congr 1
  -- the left-hand side: original entries + overlap pairs
  rw [hsz, Finset.sum_range_add]
  have hfirst : (∑ k ∈ range (A.colptr.getD A.n 0),
        if OrigOf ci (tr.AaI.getD k 0) r then tr.AaV.getD k 0 * xx (tr.AaJ.getD k 0) else 0) =
      ∑ k ∈ range (A.colptr.getD A.n 0),
        if A.rowval.getD k 0 = r then A.nzval.getD k 0 * xx (tr.AaJ.getD k 0) else 0 := by
    apply Finset.sum_congr rfl
    intro k hk
    have hk' := Finset.mem_range.1 hk
    have ho := (hA k hk').origOf
    have hval : tr.AaV.getD k 0 = A.nzval.getD k 0 := by
      rw [hV, getD_append_left' _ _ _ _ (by rw [Array.size_extract]; omega)]
      exact getD_extract_zero _ _ _ _ hk' hnz
    have : OrigOf ci (tr.AaI.getD k 0) r ↔ A.rowval.getD k 0 = r :=
      ⟨fun h => ho.unique hv h, fun h => h ▸ ho⟩
    rw [hval]
    by_cases h : A.rowval.getD k 0 = r
    · rw [if_pos h, if_pos (this.2 h)]
    · rw [if_neg h, if_neg (fun hh => h (this.1 hh))]
  have hsecond : (∑ x ∈ range (2 * tr.nOverlaps),
        if OrigOf ci (tr.AaI.getD (A.colptr.getD A.n 0 + x) 0) r then
          tr.AaV.getD (A.colptr.getD A.n 0 + x) 0 * xx (tr.AaJ.getD (A.colptr.getD A.n 0 + x) 0) else 0) = 0 := by
    rw [sum_range_pairs]
    apply Finset.sum_eq_zero
    intro o ho
    have ho' := Finset.mem_range.1 ho
    obtain ⟨c, p, i, j, x, y, x', y', he, _, hv0, hv1⟩ := ov_pair hv (A.colptr.getD A.n 0) o _ _
      (hO (A.colptr.getD A.n 0 + 2 * o) (by omega) (by omega))
      (hO (A.colptr.getD A.n 0 + 2 * o + 1) (by omega) (by omega))
    obtain ⟨ho0, ho1⟩ := he.origOf
    rw [← hv0] at ho0
    rw [← hv1] at ho1
    have hJlen := findnzJ_length A H.wf
    have hszJ : ((List.range A.n).flatMap (fun c =>
        List.replicate (A.colptr.getD (c + 1) 0 - A.colptr.getD c 0) c)).toArray.size = A.colptr.getD A.n 0 := by
      rw [List.size_toArray, hJlen]
    have hszV : (A.nzval.extract 0 (A.colptr.getD A.n 0)).size = A.colptr.getD A.n 0 := by
      rw [Array.size_extract]; omega
    have hJ0 : tr.AaJ.getD (A.colptr.getD A.n 0 + 2 * o) 0 = A.n + o := by
      rw [hJ]
      have := getD_append_toArray_right ((List.range A.n).flatMap (fun c =>
        List.replicate (A.colptr.getD (c + 1) 0 - A.colptr.getD c 0) c)).toArray
        ((List.range tr.nOverlaps).flatMap (fun o => [A.n + o, A.n + o])) (2 * o) 0
      rw [hszJ] at this
      rw [this]
      exact (pairs_getD 0 tr.nOverlaps (fun o => A.n + o) (fun o => A.n + o) o ho').1
    have hJ1 : tr.AaJ.getD (A.colptr.getD A.n 0 + (2 * o + 1)) 0 = A.n + o := by
      rw [hJ]
      have := getD_append_toArray_right ((List.range A.n).flatMap (fun c =>
        List.replicate (A.colptr.getD (c + 1) 0 - A.colptr.getD c 0) c)).toArray
        ((List.range tr.nOverlaps).flatMap (fun o => [A.n + o, A.n + o])) (2 * o + 1) 0
      rw [hszJ] at this
      rw [this]
      exact (pairs_getD 0 tr.nOverlaps (fun o => A.n + o) (fun o => A.n + o) o ho').2
    have hV0 : tr.AaV.getD (A.colptr.getD A.n 0 + 2 * o) 0 = 1 := by
      rw [hV]
      have := getD_append_toArray_right (A.nzval.extract 0 (A.colptr.getD A.n 0))
        ((List.range tr.nOverlaps).flatMap (fun _ => [(1 : α), -1])) (2 * o) 0
      rw [hszV] at this
      rw [this]
      exact (pairs_getD 0 tr.nOverlaps (fun _ => (1 : α)) (fun _ => -1) o ho').1
    have hV1 : tr.AaV.getD (A.colptr.getD A.n 0 + (2 * o + 1)) 0 = -1 := by
      rw [hV]
      have := getD_append_toArray_right (A.nzval.extract 0 (A.colptr.getD A.n 0))
        ((List.range tr.nOverlaps).flatMap (fun _ => [(1 : α), -1])) (2 * o + 1) 0
      rw [hszV] at this
      rw [this]
      exact (pairs_getD 0 tr.nOverlaps (fun _ => (1 : α)) (fun _ => -1) o ho').2
    rw [hJ0, hJ1, hV0, hV1]
    have hiff : OrigOf ci (tr.AaI.getD (A.colptr.getD A.n 0 + 2 * o) 0) r ↔
        OrigOf ci (tr.AaI.getD (A.colptr.getD A.n 0 + (2 * o + 1)) 0) r := by
      rw [show A.colptr.getD A.n 0 + (2 * o + 1) = A.colptr.getD A.n 0 + 2 * o + 1 by omega]
      constructor
      · intro h; rw [← ho0.unique hv h]; exact ho1
      · intro h; rw [← ho1.unique hv h]; exact ho0
    by_cases h : OrigOf ci (tr.AaI.getD (A.colptr.getD A.n 0 + 2 * o) 0) r
    · rw [if_pos h, if_pos (hiff.1 h)]
      simp
    · rw [if_neg h, if_neg (fun hh => h (hiff.2 hh))]
      simp
  rw [hfirst, hsecond, add_zero]

end Main

end Clarabel.Chordal
