/-
  Helper lemmas for C16: the stable row sort and the duplicate merge used by
  `canonicalize` and `new_from_triplets`.
-/
import ClarabelProofs.Lemmas.CscBasic
import Mathlib.Algebra.BigOperators.Group.List.Basic

namespace Clarabel.Csc
open Clarabel.C16

variable {α : Type}

/-! ### insertion sort by row -/

theorem colVals_insertByRow (e : Nat × α) (l : List (Nat × α)) (i : Nat) :
    colVals (insertByRow e l) i = colVals (e :: l) i := by
  induction l with
  | nil => rfl
  | cons x xs ih =>
    unfold insertByRow
    by_cases h : e.1 ≤ x.1
    · simp [h]
    · simp only [h, ↓reduceIte]
      rw [colVals_cons, ih, colVals_cons, colVals_cons, colVals_cons]
      by_cases hx : x.1 = i <;> by_cases he : e.1 = i <;> simp [hx, he]
      omega

/-- [S] the stable sort keeps, for every row, the stored values in their original order -/
theorem colVals_sortByRow (l : List (Nat × α)) (i : Nat) :
    colVals (sortByRow l) i = colVals l i := by
  induction l with
  | nil => rfl
  | cons e t ih =>
    show colVals (insertByRow e (sortByRow t)) i = _
    rw [colVals_insertByRow, colVals_cons, colVals_cons, ih]

theorem mem_insertByRow (e x : Nat × α) (l : List (Nat × α)) :
    x ∈ insertByRow e l ↔ x = e ∨ x ∈ l := by
  induction l with
  | nil => simp [insertByRow]
  | cons y ys ih =>
    unfold insertByRow
    by_cases h : e.1 ≤ y.1
    · simp [h]
    · simp only [h, ↓reduceIte, List.mem_cons, ih]
      tauto

theorem mem_sortByRow (x : Nat × α) (l : List (Nat × α)) : x ∈ sortByRow l ↔ x ∈ l := by
  induction l with
  | nil => simp [sortByRow]
  | cons e t ih =>
    show x ∈ insertByRow e (sortByRow t) ↔ _
    rw [mem_insertByRow, ih, List.mem_cons]

theorem sorted_insertByRow (e : Nat × α) (l : List (Nat × α))
    (h : (l.map (·.1)).Pairwise (· ≤ ·)) : ((insertByRow e l).map (·.1)).Pairwise (· ≤ ·) := by
  induction l with
  | nil => simp [insertByRow]
  | cons y ys ih =>
    simp only [List.map_cons, List.pairwise_cons] at h
    unfold insertByRow
    by_cases hle : e.1 ≤ y.1
    · rw [if_pos hle]
      simp only [List.map_cons, List.pairwise_cons, List.mem_cons, forall_eq_or_imp]
      exact ⟨⟨hle, fun a ha => le_trans hle (h.1 a ha)⟩, h.1, h.2⟩
    · simp only [hle, ↓reduceIte, List.map_cons, List.pairwise_cons]
      refine ⟨?_, ih h.2⟩
      intro a ha
      simp only [List.mem_map] at ha
      obtain ⟨x, hx, rfl⟩ := ha
      rcases (mem_insertByRow e x ys).mp hx with rfl | hx
      · omega
      · exact h.1 x.1 (List.mem_map_of_mem hx)

theorem sorted_sortByRow (l : List (Nat × α)) : ((sortByRow l).map (·.1)).Pairwise (· ≤ ·) := by
  induction l with
  | nil => simp [sortByRow]
  | cons e t ih => exact sorted_insertByRow e _ ih

/-! ### merging duplicates -/

theorem mem_rows_dedupeGo [Add α] (r : Nat) (acc : α) (rest : List (Nat × α)) (x : Nat)
    (hx : x ∈ (dedupeGo r acc rest).map (·.1)) : x = r ∨ x ∈ rest.map (·.1) := by
  induction rest generalizing r acc with
  | nil => simpa [dedupeGo] using hx
  | cons e t ih =>
    unfold dedupeGo at hx
    by_cases h : e.1 = r
    · simp only [h, beq_self_eq_true, ↓reduceIte] at hx
      rcases ih r (acc + e.2) hx with h1 | h1
      · exact Or.inl h1
      · exact Or.inr (by simp [h1])
    · have h' : (e.1 == r) = false := by simpa using h
      simp only [h', Bool.false_eq_true, ↓reduceIte, List.map_cons, List.mem_cons] at hx
      rcases hx with h1 | h1
      · exact Or.inl h1
      · rcases ih e.1 e.2 h1 with h2 | h2
        · exact Or.inr (by simp [h2])
        · exact Or.inr (by simp [h2])

theorem sorted_dedupeGo [Add α] (r : Nat) (acc : α) (rest : List (Nat × α))
    (h : (r :: rest.map (·.1)).Pairwise (· ≤ ·)) :
    ((dedupeGo r acc rest).map (·.1)).Pairwise (· < ·) := by
  induction rest generalizing r acc with
  | nil => simp [dedupeGo]
  | cons e t ih =>
    simp only [List.map_cons, List.pairwise_cons, List.mem_cons, forall_eq_or_imp] at h
    obtain ⟨⟨hre, hrt⟩, het, ht⟩ := h
    unfold dedupeGo
    by_cases heq : e.1 = r
    · simp only [heq, beq_self_eq_true, ↓reduceIte]
      exact ih r (acc + e.2) (by simp only [List.pairwise_cons]; exact ⟨hrt, ht⟩)
    · have h' : (e.1 == r) = false := by simpa using heq
      simp only [h', Bool.false_eq_true, ↓reduceIte, List.map_cons, List.pairwise_cons]
      refine ⟨?_, ih e.1 e.2 (by simp only [List.pairwise_cons]; exact ⟨het, ht⟩)⟩
      intro a ha
      rcases mem_rows_dedupeGo e.1 e.2 t a ha with rfl | ha
      · omega
      · have := het a ha; omega

theorem sorted_dedupeRows [Add α] (l : List (Nat × α)) (h : (l.map (·.1)).Pairwise (· ≤ ·)) :
    ((dedupeRows l).map (·.1)).Pairwise (· < ·) := by
  cases l with
  | nil => simp [dedupeRows]
  | cons e t => exact sorted_dedupeGo e.1 e.2 t (by simpa using h)

theorem mem_rows_dedupeRows [Add α] (l : List (Nat × α)) (x : Nat)
    (hx : x ∈ (dedupeRows l).map (·.1)) : x ∈ l.map (·.1) := by
  cases l with
  | nil => simp [dedupeRows] at hx
  | cons e t =>
    rcases mem_rows_dedupeGo e.1 e.2 t x hx with rfl | h
    · simp
    · simp [h]

theorem colVals_sum_dedupeGo [AddMonoid α] (r : Nat) (acc : α) (rest : List (Nat × α)) (i : Nat) :
    (colVals (dedupeGo r acc rest) i).sum = (if r = i then acc else 0) + (colVals rest i).sum := by
  induction rest generalizing r acc with
  | nil => by_cases h : r = i <;> simp [dedupeGo, colVals_cons, h]
  | cons e t ih =>
    unfold dedupeGo
    by_cases heq : e.1 = r
    · simp only [heq, beq_self_eq_true, ↓reduceIte]
      rw [ih, colVals_cons, heq]
      by_cases h : r = i <;> simp [h, add_assoc]
    · have h' : (e.1 == r) = false := by simpa using heq
      simp only [h', Bool.false_eq_true, ↓reduceIte]
      rw [colVals_cons, colVals_cons]
      by_cases h : r = i <;> by_cases h2 : e.1 = i <;> simp [h, h2, ih]

/-- [F] merging duplicates preserves the sum of the values stored at every row -/
theorem colVals_sum_dedupeRows [AddMonoid α] (l : List (Nat × α)) (i : Nat) :
    (colVals (dedupeRows l) i).sum = (colVals l i).sum := by
  cases l with
  | nil => rfl
  | cons e t =>
    show (colVals (dedupeGo e.1 e.2 t) i).sum = _
    rw [colVals_sum_dedupeGo, colVals_cons]
    by_cases h : e.1 = i <;> simp [h]

/-- canonical column produced by sort + dedupe -/
theorem colOK_dedupe_sort [Add α] (m : Nat) (c : List (Nat × α)) (hb : ∀ e ∈ c, e.1 < m) :
    ColOK m (dedupeRows (sortByRow c)) := by
  refine ⟨sorted_dedupeRows _ (sorted_sortByRow c), fun e he => ?_⟩
  have := mem_rows_dedupeRows (sortByRow c) e.1 (List.mem_map_of_mem he)
  simp only [List.mem_map] at this
  obtain ⟨x, hx, hxe⟩ := this
  rw [← hxe]
  exact hb x ((mem_sortByRow x c).mp hx)

theorem toDense_eq_sum_colVals [AddMonoid α] (M : Csc α) (i j : Nat) :
    M.toDense i j = (colVals (M.col j) i).sum := by
  rw [toDense_eq_foldl_colVals, List.sum_eq_foldl]


theorem col_sortIndices (M : Csc α) (j : Nat) (hj : j < M.n) :
    M.sortIndices.col j = sortByRow (M.col j) := by
  unfold sortIndices cols
  rw [col_ofCols _ _ _ j (by simpa using hj)]
  simp

theorem col_deduplicate [Add α] (M : Csc α) (j : Nat) (hj : j < M.n) :
    M.deduplicate.col j = dedupeRows (M.col j) := by
  unfold deduplicate cols
  rw [col_ofCols _ _ _ j (by simpa using hj)]
  simp


/-! ### canonical columns are fixed points -/

theorem sortByRow_of_sorted (c : List (Nat × α)) (h : (c.map (·.1)).Pairwise (· < ·)) :
    sortByRow c = c := by
  induction c with
  | nil => rfl
  | cons e t ih =>
    simp only [List.map_cons, List.pairwise_cons] at h
    show insertByRow e (sortByRow t) = e :: t
    rw [ih h.2]
    cases t with
    | nil => rfl
    | cons x xs =>
      have : e.1 ≤ x.1 := Nat.le_of_lt (h.1 x.1 (by simp))
      simp [insertByRow, this]

theorem dedupeGo_of_sorted [Add α] (r : Nat) (acc : α) (rest : List (Nat × α))
    (h : (r :: rest.map (·.1)).Pairwise (· < ·)) : dedupeGo r acc rest = (r, acc) :: rest := by
  induction rest generalizing r acc with
  | nil => rfl
  | cons e t ih =>
    simp only [List.map_cons, List.pairwise_cons, List.mem_cons, forall_eq_or_imp] at h
    obtain ⟨⟨hre, _⟩, het, ht⟩ := h
    have hne : (e.1 == r) = false := by simp; omega
    unfold dedupeGo
    simp only [hne, Bool.false_eq_true, ↓reduceIte]
    rw [ih e.1 e.2 (by simp only [List.pairwise_cons]; exact ⟨het, ht⟩)]

theorem dedupeRows_of_sorted [Add α] (c : List (Nat × α)) (h : (c.map (·.1)).Pairwise (· < ·)) :
    dedupeRows c = c := by
  cases c with
  | nil => rfl
  | cons e t => exact dedupeGo_of_sorted e.1 e.2 t (by simpa using h)

end Clarabel.Csc
