/-
  Budget independence of the whole-solver model WITH NONSYMMETRIC CONES (C07): `max_iter` enters
  a pass of `ClarabelModel/SolverNS/Solve.lean` through `check_termination` only.  All structural
  ([S]).  The decision-table lemmas about `Info.checkTermination` are those of
  `Lemmas/SolverModelPrefix.lean` (they do not mention the solver object).
-/
import ClarabelProofs.Lemmas.SolverNSLoop
import ClarabelProofs.Lemmas.SolverModelPrefix

namespace Clarabel.SolverNS
open Clarabel Info
open Clarabel.Solver (bind_ok_inv checkTermination_frame checkTermination_budget_eq
  checkTermination_status_budget verdictOf varsCopyFrom addStep)

set_option linter.unusedSectionVars false
set_option linter.unusedVariables false

variable {α : Type}

section
variable [Add α] [Sub α] [Mul α] [Div α] [Neg α] [LT α] [LE α] [DecidableLT α] [DecidableLE α]
  [BEq α] [OfNat α 0] [OfNat α 1] [OfNat α 2] [OfNat α 3] [OfNat α 4] [OfNat α 100] [OfNat α 1000]
  [OfScientific α] [FloatLike α]

/-- the same settings with another iteration budget -/
def withMaxIter (st : Settings α) (k : Nat) : Settings α :=
  { st with info := { st.info with max_iter := k } }

/-- everything of one pass after the top numerics, with the outcome `ct` of
`check_termination` as a parameter (a copy of the body of `pass`) -/
def passRest (st : Settings α) (L : LoopSt α) (residuals : Residuals.Resid α) (mu : α) (info1 : InfoS α)
    (ct : InfoS α × Bool) : MErr (Bool × LoopSt α) := do
  let rec0 : PassRec α :=
    { vars := L.S.variables, mu, sigma := L.sigma, stepLength := L.alpha, info := info1,
      dotBz := residuals.dot_bz, dotQx := residuals.dot_qx, isdone := ct.2, status := ct.1.status,
      dual := isDual L.scaling }
  let S : SolverSt α := { L.S with residuals, info := ct.1, infoMu := mu, infoSigma := L.sigma,
                                   infoStepLength := L.alpha }
  if ct.2 then
    -- strategy_checkpoint_insufficient_progress
    if ct.1.status != .insufficientProgress then
      pure (false, { L with S, mu, traj := L.traj ++ [{ rec0 with ipCp := some .NoUpdate }] })
    else
      -- reset_to_prev_iterate
      let variables ← varsCopyFrom S.variables S.prevVars
      let S := { S with info := Info.resetToPrev ct.1, variables }
      if canSwitch S.cones L.scaling then
        -- info.set_status(Unsolved); scaling = Dual; continue
        pure (true, { L with S := { S with info := { S.info with status := .unsolved } }, mu,
                             scaling := .Dual,
                             traj := L.traj ++ [{ rec0 with ipCp := some (.Update .Dual) }] })
      else
        pure (false, { L with S, mu, traj := L.traj ++ [{ rec0 with ipCp := some .Fail }] })
  else
  -- scale_cones / strategy_checkpoint_is_scaling_success
  let sc ← scaleCones S.variables S.cones mu (isDual L.scaling)
  let S := { S with cones := sc.2 }
  if !sc.1 then
    pure (false, { L with S := { S with info := { S.info with status := .numericalError } }, mu,
                          traj := L.traj ++ [{ rec0 with scalingSuccess := some false }] })
  else
  -- iter += 1; kktsystem.update, affine and combined solves
  let k ← kktNumerics st S sc.2 mu (L.iter + 1) L.scaling
  let sigma := match k.aff with
    | some p => p.2
    | none => L.sigma
  let rec3 : PassRec α :=
    { rec0 with scalingSuccess := some true, kktSuccess := some k.ok,
                alphaAff := k.aff.map (·.1), sigmaNew := k.aff.map (·.2) }
  -- strategy_checkpoint_numerical_error
  if !k.ok then
    if canSwitch sc.2 L.scaling then
      -- Update(Dual): α = 0; scaling = Dual; continue
      pure (true, { S := k.S, iter := L.iter + 1, sigma, alpha := 0, mu, scaling := .Dual,
                    traj := L.traj ++ [{ rec3 with neCp := some (.Update .Dual) }] })
    else
      pure (false, { S := { k.S with info := { k.S.info with status := .numericalError } },
                     iter := L.iter + 1, sigma, alpha := 0, mu, scaling := L.scaling,
                     traj := L.traj ++ [{ rec3 with neCp := some .Fail }] })
  else
  let (a, nbt) ← getStepLength st k.S sc.2 .combined L.scaling
  let rec4 := { rec3 with neCp := some .NoUpdate, alpha := some a, backtracks := some nbt }
  -- strategy_checkpoint_small_step
  if canSwitch sc.2 L.scaling && decide (a < st.minSwitchStepLength) then
    -- Update(Dual): α = 0; scaling = Dual; continue
    pure (true, { S := k.S, iter := L.iter + 1, sigma, alpha := 0, mu, scaling := .Dual,
                  traj := L.traj ++ [{ rec4 with smCp := some (.Update .Dual) }] })
  else if a ≤ fmax 0 st.minTerminateStepLength then
    pure (false, { S := { k.S with info := { k.S.info with status := .insufficientProgress } },
                   iter := L.iter + 1, sigma, alpha := 0, mu, scaling := L.scaling,
                   traj := L.traj ++ [{ rec4 with smCp := some .Fail }] })
  else
  -- save_prev_iterate, add_step
  let pv ← stepVars k.S a
  pure (true, { S := { k.S with info := Info.savePrev k.S.info, prevVars := pv.1, variables := pv.2 },
                iter := L.iter + 1, sigma, alpha := a, mu, scaling := L.scaling,
                traj := L.traj ++ [{ rec4 with smCp := some .NoUpdate }] })


/-- `pass` = top numerics, `check_termination`, the rest -/
theorem pass_eq (st : Settings α) (L : LoopSt α) :
    pass st L = topNumerics L.S L.iter >>= fun t =>
      passRest st L t.1 t.2.1 t.2.2
        (Info.checkTermination t.2.2 t.1.dot_bz t.1.dot_qx st.info L.iter false) := by
  unfold pass
  cases topNumerics L.S L.iter with
  | error e => rfl
  | ok t =>
    obtain ⟨r, mu, i1⟩ := t
    rfl

/-- the iteration budget enters a pass through `check_termination` only -/
theorem passRest_withMaxIter (st : Settings α) (k : Nat) (L : LoopSt α) (r : Residuals.Resid α) (mu : α)
    (i1 : InfoS α) (ct : InfoS α × Bool) :
    passRest (withMaxIter st k) L r mu i1 ct = passRest st L r mu i1 ct := rfl

/-- a pass does not depend on the budget unless its check sits exactly at one of the two
budgets with no other verdict -/
theorem pass_budget_indep (st : Settings α) (k k' : Nat) (L : LoopSt α)
    (h : ∀ r mu i1, topNumerics L.S L.iter = .ok (r, mu, i1) →
      verdictOf i1 r.dot_bz r.dot_qx st.info L.iter ≠ .unsolved ∨ (k ≠ L.iter ∧ k' ≠ L.iter)) :
    pass (withMaxIter st k) L = pass (withMaxIter st k') L := by
  rw [pass_eq, pass_eq]
  cases htn : topNumerics L.S L.iter with
  | error e => rfl
  | ok t =>
    obtain ⟨r, mu, i1⟩ := t
    have hit := (topNumerics_frame htn).1
    have h' : verdictOf i1 r.dot_bz r.dot_qx st.info L.iter ≠ .unsolved
        ∨ (k ≠ i1.iterations ∧ k' ≠ i1.iterations) := by rw [hit]; exact h r mu i1 htn
    show passRest (withMaxIter st k) L r mu i1 (Info.checkTermination i1 r.dot_bz r.dot_qx
        { st.info with max_iter := k } L.iter false) =
      passRest (withMaxIter st k') L r mu i1 (Info.checkTermination i1 r.dot_bz r.dot_qx
        { st.info with max_iter := k' } L.iter false)
    rw [checkTermination_budget_eq i1 r.dot_bz r.dot_qx st.info L.iter k k' h',
      passRest_withMaxIter, passRest_withMaxIter]

/-- at its budget, with no other verdict, the short run stops with `MaxIterations` and hands
the current iterate to post-processing -/
theorem pass_at_budget (st : Settings α) (k : Nat) (L : LoopSt α) (hk : k = L.iter)
    {r : Residuals.Resid α} {mu : α} {i1 : InfoS α} (htn : topNumerics L.S L.iter = .ok (r, mu, i1))
    (hv : verdictOf i1 r.dot_bz r.dot_qx st.info L.iter = .unsolved) :
    ∃ Lf, pass (withMaxIter st k) L = .ok (false, Lf) ∧ Lf.S.info.status = .maxIterations
      ∧ Lf.S.variables = L.S.variables ∧ Lf.iter = L.iter ∧ Lf.alpha = L.alpha
      ∧ Lf.scaling = L.scaling
      ∧ ∃ rec, Lf.traj = L.traj ++ [rec] ∧ rec.vars = L.S.variables := by
  have hit := (topNumerics_frame htn).1
  have hs := checkTermination_status_budget i1 r.dot_bz r.dot_qx st.info L.iter k
  rw [if_pos hv, if_pos (by rw [hit]; exact hk)] at hs
  have f := checkTermination_frame i1 r.dot_bz r.dot_qx { st.info with max_iter := k } L.iter false
  rw [pass_eq, htn]
  show ∃ Lf, passRest (withMaxIter st k) L r mu i1 (Info.checkTermination i1 r.dot_bz r.dot_qx
        { st.info with max_iter := k } L.iter false) = .ok (false, Lf) ∧ _
  unfold passRest
  have h2 : (Info.checkTermination i1 r.dot_bz r.dot_qx { st.info with max_iter := k } L.iter false).2 = true := by
    rw [f.2, hs]; rfl
  have h3 : ((Info.checkTermination i1 r.dot_bz r.dot_qx { st.info with max_iter := k } L.iter false).1.status
      != .insufficientProgress) = true := by rw [hs]; rfl
  dsimp only
  rw [if_pos h2, if_pos h3]
  exact ⟨_, rfl, hs, rfl, rfl, rfl, rfl, _, rfl, rfl⟩

/-- the start of a solve does not read the budget -/
theorem defaultStart_withMaxIter (S : SolverSt α) (st : Settings α) (k : Nat) :
    S.defaultStart (withMaxIter st k) = S.defaultStart st := rfl


/-- `L'` is reached from `L` through passes that all go on to the next pass (fall through or
`continue` after a strategy switch) -/
inductive Reach (st : Settings α) : LoopSt α → LoopSt α → Prop
  | refl (L) : Reach st L L
  | step {L L' L''} (hp : pass st L = .ok (true, L')) (h : Reach st L' L'') : Reach st L L''

theorem Reach.iter_le {st : Settings α} {L L' : LoopSt α} (h : Reach st L L')
    (hI : L.iter ≤ st.info.max_iter) : L'.iter ≤ st.info.max_iter := by
  induction h with
  | refl => exact hI
  | step hp _ ih => exact ih (pass_measure hI hp).1

/-- a successful run of the loop is a chain of continuing passes followed by one that leaves -/
theorem runLoopO_reach (st : Settings α) : ∀ (fuel : Nat) (L Lf : LoopSt α),
    runLoopO st fuel L = .ok (some Lf) → ∃ Lm, Reach st L Lm ∧ pass st Lm = .ok (false, Lf)
  | 0, _, _, h => by cases h
  | fuel + 1, L, Lf, h => by
    unfold runLoopO at h
    obtain ⟨r, hp, h⟩ := bind_ok_inv h
    obtain ⟨c, L'⟩ := r
    cases c with
    | false =>
      cases h
      exact ⟨L, .refl L, hp⟩
    | true =>
      obtain ⟨Lm, h1, h2⟩ := runLoopO_reach st fuel L' Lf h
      exact ⟨Lm, .step hp h1, h2⟩

/-- a chain of continuing passes followed by one that leaves is what `runLoopO` computes,
whatever the (sufficient) fuel -/
theorem runLoopO_of_reach {st : Settings α} {L Lm Lf : LoopSt α} (h : Reach st L Lm)
    (hI : L.iter ≤ st.info.max_iter) (hp : pass st Lm = .ok (false, Lf)) :
    ∀ fuel, measure st L < fuel → runLoopO st fuel L = .ok (some Lf) := by
  induction h with
  | refl L =>
    intro fuel hf
    cases fuel with
    | zero => omega
    | succ f =>
      unfold runLoopO
      rw [hp]; rfl
  | @step L L' L'' hp' _ ih =>
    intro fuel hf
    obtain ⟨hI', _, hdec⟩ := pass_measure hI hp'
    have hd := hdec rfl
    cases fuel with
    | zero => omega
    | succ f =>
      unfold runLoopO
      rw [hp']
      exact ih hI' hp f (by omega)

/-- a pass that goes on under the budget `k` goes on in the same way under any budget `k' ≥ k`:
either it incremented the counter — then it was below `k` — or it switched the strategy after an
insufficient-progress verdict, which the numbers alone give -/
theorem pass_cont_budget (st : Settings α) (k k' : Nat) (hk : k ≤ k') {L L' : LoopSt α}
    (hI : L.iter ≤ k) (hp : pass (withMaxIter st k) L = .ok (true, L')) :
    pass (withMaxIter st k') L = .ok (true, L') := by
  have heq : pass (withMaxIter st k) L = pass (withMaxIter st k') L := by
    apply pass_budget_indep
    intro r mu i1 htn
    by_cases hv : verdictOf i1 r.dot_bz r.dot_qx st.info L.iter = .unsolved
    · by_cases hkl : k = L.iter
      · obtain ⟨Lf, h1, _⟩ := pass_at_budget st k L hkl htn hv
        rw [h1] at hp
        cases hp
      · exact Or.inr ⟨hkl, by omega⟩
    · exact Or.inl hv
  rw [← heq]; exact hp

theorem reach_prefix (st : Settings α) (k k' : Nat) (hk : k ≤ k') {L0 Lm : LoopSt α}
    (hI : L0.iter ≤ k) (h : Reach (withMaxIter st k) L0 Lm) : Reach (withMaxIter st k') L0 Lm := by
  induction h with
  | refl => exact .refl _
  | @step L L' L'' hp _ ih =>
    have hI' : L'.iter ≤ k := (pass_measure (st := withMaxIter st k) hI hp).1
    exact .step (pass_cont_budget st k k' hk hI hp) (ih hI')

/-- how the run with budget `k` relates to the run with budget `k' ≥ k` from the same loop
state: `Lf` is the loop state the short run leaves its loop with -/
inductive FullPrefix (st : Settings α) (k k' : Nat) (L0 Lf : LoopSt α) : Prop
  /-- the longer-budget run goes through the same passes and ends in the same state -/
  | same (Lm : LoopSt α) (hshort : Reach (withMaxIter st k) L0 Lm) (hlong : Reach (withMaxIter st k') L0 Lm)
      (hs : pass (withMaxIter st k) Lm = .ok (false, Lf))
      (hl : pass (withMaxIter st k') Lm = .ok (false, Lf))
  /-- the short run stops on its budget at a top-of-pass state `Lm` which the long run reaches
  too, through identical passes (same iterates, same strategy switches, bit for bit), and returns
  the iterate of `Lm` -/
  | budget (Lm : LoopSt α) (hshort : Reach (withMaxIter st k) L0 Lm) (hlong : Reach (withMaxIter st k') L0 Lm)
      (hs : pass (withMaxIter st k) Lm = .ok (false, Lf))
      (hiter : Lm.iter = k) (hstatus : Lf.S.info.status = .maxIterations)
      (hvars : Lf.S.variables = Lm.S.variables) (hiter' : Lf.iter = k)
      (htraj : ∃ rec, Lf.traj = Lm.traj ++ [rec] ∧ rec.vars = Lm.S.variables)

theorem loop_prefix (st : Settings α) (k k' : Nat) (hk : k ≤ k') {L0 Lm Lf : LoopSt α}
    (hI : L0.iter ≤ k) (h : Reach (withMaxIter st k) L0 Lm)
    (hp : pass (withMaxIter st k) Lm = .ok (false, Lf)) : FullPrefix st k k' L0 Lf := by
  have hlong := reach_prefix st k k' hk hI h
  have hle : Lm.iter ≤ k := h.iter_le (st := withMaxIter st k) hI
  by_cases hlt : Lm.iter < k
  · have heq : pass (withMaxIter st k) Lm = pass (withMaxIter st k') Lm :=
      pass_budget_indep st k k' Lm (fun _ _ _ _ => Or.inr ⟨by omega, by omega⟩)
    exact .same Lm h hlong hp (heq ▸ hp)
  · have hkm : k = Lm.iter := by omega
    cases htn : topNumerics Lm.S Lm.iter with
    | error e =>
      rw [pass_eq, htn] at hp
      cases hp
    | ok t =>
      obtain ⟨r, mu, i1⟩ := t
      by_cases hv : verdictOf i1 r.dot_bz r.dot_qx st.info Lm.iter = .unsolved
      · obtain ⟨Lf', h1, h2, h3, h4, _, _, h6⟩ := pass_at_budget st k Lm hkm htn hv
        rw [h1] at hp
        cases hp
        exact .budget Lm h hlong h1 hkm.symm h2 h3 (h4.trans hkm.symm) h6
      · have heq : pass (withMaxIter st k) Lm = pass (withMaxIter st k') Lm :=
          pass_budget_indep st k k' Lm (fun r' mu' i1' htn' => by
            rw [htn] at htn'
            cases htn'
            exact Or.inl hv)
        exact .same Lm h hlong hp (heq ▸ hp)

/-- budget independence on `SolverSt.runSolve`: for `k ≤ k'` the run with `max_iter = k` starts
from the same point as the run with `max_iter = k'`, and its loop is related to the longer run's
loop by `FullPrefix`; when the short run did not stop on its budget, the longer run returns the
very same loop state -/
theorem runSolve_prefix (S : SolverSt α) (st : Settings α) (k k' : Nat) (hk : k ≤ k') {Lk : LoopSt α}
    (h : S.runSolve (withMaxIter st k) = .ok Lk) :
    ∃ S0, (resetInfo S).defaultStart st = .ok S0
      ∧ FullPrefix st k k' (initLoopSt S0) Lk
      ∧ (S.runSolve (withMaxIter st k') = .ok Lk ∨ Lk.S.info.status = .maxIterations ∧ Lk.iter = k) := by
  rw [runSolve_eq_runSolveO] at h
  obtain ⟨o, ho, hl⟩ := bind_ok_inv h
  unfold SolverSt.runSolveO at ho
  obtain ⟨S0, hds, ho⟩ := bind_ok_inv ho
  rw [defaultStart_withMaxIter] at hds
  cases o with
  | none => cases hl
  | some Lf =>
    cases hl
    obtain ⟨Lm, hr, hp⟩ := runLoopO_reach _ _ _ _ ho
    have hI0 : (initLoopSt S0).iter ≤ k := Nat.zero_le _
    have hpre := loop_prefix st k k' hk hI0 hr hp
    refine ⟨S0, hds, hpre, ?_⟩
    cases hpre with
    | same Lm' h1 h2 hs hl' =>
      left
      have hm := measure_init (withMaxIter st k') S0
      have := runLoopO_of_reach h2 (Nat.zero_le _) hl' ((withMaxIter st k').info.max_iter + 3) (by omega)
      rw [runSolve_eq_runSolveO]
      unfold SolverSt.runSolveO
      rw [defaultStart_withMaxIter, hds]
      show (runLoopO (withMaxIter st k') ((withMaxIter st k').info.max_iter + 3) (initLoopSt S0) >>= liftO) = _
      rw [this]; rfl
    | budget Lm' h1 h2 hs hiter hstatus hvars hiter' htraj =>
      exact Or.inr ⟨hstatus, hiter'⟩

end

end Clarabel.SolverNS
