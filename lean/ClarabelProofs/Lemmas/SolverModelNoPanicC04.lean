/-
  Panic-freedom of the whole-solver model (C04) — THE END-TO-END STATEMENTS (QDLDL backend,
  zero / nonnegative / second-order cones), with every stage discharged.

  Hypotheses, all explicit:
  * `InputOK P q A b cones`  : `P`, `A` canonical CSC (`C16.Canonical0`), `P` square `n×n`, `A` `m×n`,
                               `q.size = n`, `b.size = m`, `Σ nvars = m`;
  * `0 < P.n`                : the KKT system is not `0×0` (the Rust code panics on an empty KKT
                               matrix: `Ap[1]` in `_factor_inner`);
  * `PermFor …`              : the ordering `perm` (AMD in the Rust code; an input of the model) is a
                               permutation of the KKT dimension `n + m' + p` of the INTERNAL problem
                               (`m'` rows after presolve, `p` = 2 per sparse-expanded second-order cone);
  * `PivotOK st.lin`         : scalar law — the dynamic regularisation never leaves an exactly zero
                               pivot (`refactor().unwrap()` would panic on `ZeroPivot`); true at
                               `Float` for `dynamic_regularization_eps > 0`, `delta ≠ 0`;
  * `FmaxOK α`               : scalar law — `max(0, r) < 0` never holds
                               (`panic!("starting point of line search not in SOC")`).
  No other property of the scalar type is used: everything is structural ([S]).
-/
import ClarabelProofs.Lemmas.SolverModelNoPanicQdldl
import ClarabelProofs.Lemmas.SolverModelNoPanicKktNew

namespace Clarabel.Solver
open Clarabel Info Residuals

set_option linter.unusedSectionVars false
set_option linter.unusedVariables false

variable {α : Type}

section
variable [Add α] [Sub α] [Mul α] [Div α] [Neg α] [OfNat α 0] [OfNat α 1] [OfNat α 2]
  [OfNat α 100] [OfNat α 1000] [LT α] [DecidableLT α] [LE α] [DecidableLE α] [BEq α] [FloatLike α]

/-- the ordering handed to QDLDL is a permutation of the KKT dimension of the internal problem
(whatever internal data and composite cone `DefaultSolver::new` arrives at) -/
def PermFor (P : Csc α) (q : Array α) (A : Csc α) (b : Array α) (cones : List (ConeT α))
    (st : Settings α) (perm : Array Nat) : Prop :=
  ∀ d K, internalData P q A b cones st = .ok d → makeCones d.cones = .ok K → PermOK perm d K

/-- [S] **C04, `new`: `DefaultSolver::new` never panics** on well-formed input (it may return
`.err` — a cone type outside the model —, never `.panic`). -/
theorem solverNew_noPanic_qdldl {P : Csc α} {q : Array α} {A : Csc α} {b : Array α}
    {cones : List (ConeT α)} {st : Settings α} {perm : Array Nat} (hin : InputOK P q A b cones)
    (hn : 0 < P.n) (hperm : PermFor P q A b cones st perm) (hpiv : PivotOK st.lin) :
    NoPanic (Solver.new P q A b cones st perm) := by
  refine solverNew_noPanic hin fun d K hd hK hdok hfull hnum => ?_
  have hdn : d.n = P.n := (internalData_dataOK hin hd).2.1.trans hin.A_n
  exact NoPanic.of_exists
    ((kktSolverNew_ok hdok hfull hnum (hperm d K hd hK) (by omega) hpiv).imp fun _ h => h.1)

/-- [S] **C04, `new` establishes the invariant**: every solver object `DefaultSolver::new` returns
on well-formed input satisfies `SolverInvQ`. -/
theorem solverNew_invQ {P : Csc α} {q : Array α} {A : Csc α} {b : Array α}
    {cones : List (ConeT α)} {st : Settings α} {perm : Array Nat} (hin : InputOK P q A b cones)
    (hn : 0 < P.n) (hperm : PermFor P q A b cones st perm) (hpiv : PivotOK st.lin)
    {S : Solver α} (h : Solver.new P q A b cones st perm = .ok S) : SolverInvQ S := by
  refine solverNew_establishes hin (fun d K Ks hd hK hdok hfull hnum hKs => ?_) h
  have hdn : d.n = P.n := (internalData_dataOK hin hd).2.1.trans hin.A_n
  obtain ⟨Ks', hKs', hI⟩ := kktSolverNew_ok (st := st.lin) hdok hfull hnum (hperm d K hd hK) (by omega) hpiv
  rw [hKs] at hKs'
  cases hKs'
  exact hI

/-- [S] **C04, the full statement: every solve returns without panicking.**  For all well-formed
inputs, `Solver.new P q A b cones st perm` is not `.error (.panic _)`, and for every `S` with
`Solver.new … = .ok S`, `S.solve st` returns `.ok` — so it is not `.error (.panic _)`; in
particular every index read of the model is in range, no assert / unwrap / unreachable arm is
reached, and the pass budget is not exhausted — and the solver object it returns can be solved
again with the same guarantee (`SolverInvQ` is kept; `solve_ok_qdldl`). -/
theorem solver_noPanic {P : Csc α} {q : Array α} {A : Csc α} {b : Array α}
    {cones : List (ConeT α)} {st : Settings α} {perm : Array Nat} (hin : InputOK P q A b cones)
    (hn : 0 < P.n) (hperm : PermFor P q A b cones st perm) (hpiv : PivotOK st.lin) (hf : FmaxOK α) :
    NoPanic (Solver.new P q A b cones st perm) ∧
      ∀ S, Solver.new P q A b cones st perm = .ok S →
        ∃ r, S.solve st = .ok r ∧ SolverInvQ r.S :=
  ⟨solverNew_noPanic_qdldl hin hn hperm hpiv,
    fun S h => solve_ok_qdldl hf st (solverNew_invQ hin hn hperm hpiv h)⟩

/-- `solver_noPanic` in the literal form "`solve` does not return `.error (.panic _)`" -/
theorem solve_noPanic {P : Csc α} {q : Array α} {A : Csc α} {b : Array α}
    {cones : List (ConeT α)} {st : Settings α} {perm : Array Nat} (hin : InputOK P q A b cones)
    (hn : 0 < P.n) (hperm : PermFor P q A b cones st perm) (hpiv : PivotOK st.lin) (hf : FmaxOK α)
    {S : Solver α} (h : Solver.new P q A b cones st perm = .ok S) (site : String) :
    S.solve st ≠ .error (.panic site) :=
  let ⟨_, hr, _⟩ := (solver_noPanic hin hn hperm hpiv hf).2 S h
  NoPanic.of_ok hr site

end

end Clarabel.Solver
