/-
  C16, dense matrix model: `blockdiag` of `block_concatenate.rs`.

  * `blockdiag_spec` : shape `Σ m × Σ n`; column `j` of block `k` sits at column
    `Σ_{k'<k} n_k' + j`, holds the block's column in rows `Σ_{k'<k} m_k' ..+ m_k` and zeros
    everywhere else
  * `blockdiag_error_iff` : `IncompatibleDimension` exactly on the empty list
-/
import ClarabelProofs.Lemmas.DenseGrid

namespace Clarabel.Dense
open Clarabel

variable {α : Type}

/-! ### prefix sums -/

theorem take_sum_step (l : List Nat) : ∀ (k k' : Nat) (hk : k < l.length), k < k' → k' ≤ l.length →
    (l.take k).sum + l[k] ≤ (l.take k').sum := by
  induction l with
  | nil => intro k k' hk; simp at hk
  | cons a t ih =>
    intro k k' hk hkk' hk'
    cases k' with
    | zero => omega
    | succ k'' =>
      cases k with
      | zero => simp
      | succ j =>
        have := ih j k'' (by simpa using hk) (by omega) (by simpa using hk')
        simp only [List.take_succ_cons, List.sum_cons, List.getElem_cons_succ]
        omega

/-- the half-open intervals `[Σ_{<k}, Σ_{<k} + l[k])` are disjoint -/
theorem prefix_sum_inj (l : List Nat) {k k' c c' : Nat} (hk : k < l.length) (hk' : k' < l.length)
    (hc : c < l[k]) (hc' : c' < l[k']) (h : (l.take k).sum + c = (l.take k').sum + c') :
    k = k' ∧ c = c' := by
  rcases Nat.lt_trichotomy k k' with hlt | heq | hgt
  · have := take_sum_step l k k' hk hlt (by omega); omega
  · subst heq; exact ⟨rfl, by omega⟩
  · have := take_sum_step l k' k hk' hgt (by omega); omega

/-! ### the writes of `blockdiag` -/

/-- row / column offset of block `k` -/
def bdRoff (mats : List (Dense α)) (k : Nat) : Nat := ((mats.take k).map (·.m)).sum
def bdCoff (mats : List (Dense α)) (k : Nat) : Nat := ((mats.take k).map (·.n)).sum

/-- the `(block, column, destination)` triples in program order -/
def bdReqs (mats : List (Dense α)) : List (Dense α × Nat × Nat) :=
  (mats.zip (((List.range mats.length).map (fun k => ((mats.map (·.m)).take k).foldl (· + ·) 0)).zip
      ((List.range mats.length).map (fun k => ((mats.map (·.n)).take k).foldl (· + ·) 0)))).flatMap
    (fun (q : Dense α × Nat × Nat) =>
      (List.range q.1.n).map (fun col =>
        ((q.1, col, q.2.1 + (mats.map (·.m)).foldl (· + ·) 0 * (q.2.2 + col)) : Dense α × Nat × Nat)))

/-- one copy step of `blockdiag` -/
def bdStep (mats : List (Dense α)) (q : Dense α × Nat × Nat) : MErr (List (Nat × α)) := do
  let s ← colSlice q.1 q.2.1
  if q.2.2 + q.1.m > (mats.map (·.m)).foldl (· + ·) 0 * (mats.map (·.n)).foldl (· + ·) 0 then
    throw (.panic "blockdiag: range")
  pure ((s.toList.zipIdx).map (fun e => (q.2.2 + e.2, e.1)))

/-- the writes of one copy step -/
def bdWrites (q : Dense α × Nat × Nat) : List (Nat × α) :=
  ((colList q.1 q.2.1).zipIdx).map (fun e => (q.2.2 + e.2, e.1))

theorem blockdiag_unfold [OfNat α 0] (mats : List (Dense α)) (hne : mats ≠ []) :
    blockdiag mats = ((bdReqs mats).mapM (bdStep mats)) >>= fun ws =>
      (applyWrites (Array.replicate ((mats.map (·.m)).foldl (· + ·) 0 * (mats.map (·.n)).foldl (· + ·) 0) 0)
        ws.flatten) >>= fun d =>
      pure ⟨(mats.map (·.m)).foldl (· + ·) 0, (mats.map (·.n)).foldl (· + ·) 0, d⟩ := by
  unfold blockdiag
  have : mats.isEmpty = false := by
    cases mats with
    | nil => exact absurd rfl hne
    | cons _ _ => rfl
  simp only [this, Bool.false_eq_true, ↓reduceIte]
  rfl

theorem bdReqs_mem (mats : List (Dense α)) (q : Dense α × Nat × Nat) :
    q ∈ bdReqs mats ↔ ∃ k, ∃ hk : k < mats.length, ∃ c, c < mats[k].n ∧
      q = (mats[k], c, bdRoff mats k + (mats.map (·.m)).sum * (bdCoff mats k + c)) := by
  unfold bdReqs
  simp only [List.mem_flatMap, List.mem_map, List.mem_range]
  constructor
  · rintro ⟨p, hp, c, hc, rfl⟩
    obtain ⟨k, hk, hpk⟩ := List.mem_iff_getElem.mp hp
    have hk' : k < mats.length := by
      simp only [List.length_zip, List.length_map, List.length_range] at hk; omega
    subst hpk
    refine ⟨k, hk', c, ?_, ?_⟩
    · simpa using hc
    · simp [bdRoff, bdCoff, Csc.foldl_add_eq_sum, List.map_take]
  · rintro ⟨k, hk, c, hc, rfl⟩
    refine ⟨(mats[k], bdRoff mats k, bdCoff mats k), ?_, c, hc, ?_⟩
    · apply List.mem_iff_getElem.mpr
      refine ⟨k, by simp [hk], ?_⟩
      simp [bdRoff, bdCoff, Csc.foldl_add_eq_sum, List.map_take]
    · simp [Csc.foldl_add_eq_sum]

theorem bdRoff_lt (mats : List (Dense α)) {k e : Nat} (hk : k < mats.length) (he : e < mats[k].m) :
    bdRoff mats k + e < (mats.map (·.m)).sum := by
  have := Csc.take_sum_add_le (mats.map (·.m)) k (by simpa using hk)
  simp only [List.getElem_map, ← List.map_take] at this
  unfold bdRoff; omega

theorem bdCoff_lt (mats : List (Dense α)) {k c : Nat} (hk : k < mats.length) (hc : c < mats[k].n) :
    bdCoff mats k + c < (mats.map (·.n)).sum := by
  have := Csc.take_sum_add_le (mats.map (·.n)) k (by simpa using hk)
  simp only [List.getElem_map, ← List.map_take] at this
  unfold bdCoff; omega

theorem bdStep_ok (mats : List (Dense α)) (hwf : ∀ b ∈ mats, WF b) (q : Dense α × Nat × Nat)
    (hq : q ∈ bdReqs mats) : bdStep mats q = .ok (bdWrites q) := by
  obtain ⟨k, hk, c, hc, rfl⟩ := (bdReqs_mem mats q).mp hq
  have hb : WF mats[k] := hwf _ (List.getElem_mem _)
  unfold bdStep
  simp only
  rw [colSlice_eq _ hb hc]
  have h1 : bdRoff mats k + mats[k].m ≤ (mats.map (·.m)).sum := by
    have := Csc.take_sum_add_le (mats.map (·.m)) k (by simpa using hk)
    simp only [List.getElem_map, ← List.map_take] at this
    exact this
  have h2 := bdCoff_lt mats hk hc
  have : ¬ (bdRoff mats k + (mats.map (·.m)).sum * (bdCoff mats k + c) + mats[k].m >
      (mats.map (·.m)).foldl (· + ·) 0 * (mats.map (·.n)).foldl (· + ·) 0) := by
    rw [Csc.foldl_add_eq_sum, Csc.foldl_add_eq_sum]
    have : (mats.map (·.m)).sum * (bdCoff mats k + c + 1) ≤ (mats.map (·.m)).sum * (mats.map (·.n)).sum :=
      Nat.mul_le_mul_left _ h2
    rw [Nat.mul_succ] at this
    omega
  show (if _ then _ else _) = _
  rw [if_neg this]
  rfl

/-- every write copies one entry of one block to its place -/
theorem bdWrites_mem (mats : List (Dense α)) (hwf : ∀ b ∈ mats, WF b) (w : Nat × α)
    (hw : w ∈ ((bdReqs mats).map bdWrites).flatten) :
    ∃ k, ∃ hk : k < mats.length, ∃ c e, c < mats[k].n ∧ e < mats[k].m ∧
      w.1 = (bdRoff mats k + e) + (mats.map (·.m)).sum * (bdCoff mats k + c) ∧
      at? mats[k] e c = some w.2 := by
  obtain ⟨ws, hws, hw⟩ := List.mem_flatten.mp hw
  obtain ⟨q, hq, rfl⟩ := List.mem_map.mp hws
  obtain ⟨k, hk, c, hc, rfl⟩ := (bdReqs_mem mats q).mp hq
  have hb : WF mats[k] := hwf _ (List.getElem_mem _)
  unfold bdWrites at hw
  obtain ⟨e, he, rfl⟩ := List.mem_map.mp hw
  have he' := List.mem_zipIdx_iff_getElem?.mp he
  simp only at he'
  have hlt : e.2 < mats[k].m := by
    have h1 : e.2 < (colList mats[k] c).length := by
      by_contra hc'
      rw [List.getElem?_eq_none (by omega)] at he'
      cases he'
    rwa [colList_length _ hb hc] at h1
  refine ⟨k, hk, c, e.2, hc, hlt, by simp only; omega, ?_⟩
  rw [← colList_getElem? _ hb hc hlt]
  exact he'

theorem applyWrites_error (ws : List (Nat × α)) : ∀ (d : Array α) (e : ModelErr),
    applyWrites d ws = .error e → e = .panic "dense index_mut" := by
  induction ws with
  | nil => intro d e h; cases h
  | cons w t ih =>
    intro d e h
    rw [applyWrites_cons] at h
    by_cases hw : w.1 < d.size
    · rw [setE_ok _ _ _ _ hw] at h
      exact ih _ e h
    · have : setE d w.1 w.2 "dense index_mut" = .error (.panic "dense index_mut") := by
        simp [setE, hw]; rfl
      rw [this] at h
      cases h; rfl

/-- [S] `blockdiag` of a non-empty list of well-formed blocks: shape `Σ m × Σ n`; column `j` of
block `k` is column `Σ_{k'<k} n_k' + j` of the result, which holds the block's column in the
rows `Σ_{k'<k} m_k' ≤ i < Σ_{k'<k} m_k' + m_k` and `0` in all other rows -/
theorem blockdiag_spec [OfNat α 0] (mats : List (Dense α)) (hne : mats ≠ [])
    (hwf : ∀ b ∈ mats, WF b) :
    ∃ R, blockdiag mats = .ok R ∧ R.m = (mats.map (·.m)).sum ∧ R.n = (mats.map (·.n)).sum ∧ WF R ∧
      ∀ k (hk : k < mats.length) j, j < mats[k].n → ∀ i, i < (mats.map (·.m)).sum →
        at? R i (((mats.take k).map (·.n)).sum + j) =
          if ((mats.take k).map (·.m)).sum ≤ i ∧ i < ((mats.take k).map (·.m)).sum + mats[k].m
          then at? mats[k] (i - ((mats.take k).map (·.m)).sum) j else some 0 := by
  let nr := (mats.map (·.m)).sum
  let nc := (mats.map (·.n)).sum
  have hmap : (bdReqs mats).mapM (bdStep mats) = .ok ((bdReqs mats).map bdWrites) :=
    mapM_ok _ _ _ (fun q hq => bdStep_ok mats hwf q hq)
  have hin : ∀ w ∈ ((bdReqs mats).map bdWrites).flatten,
      w.1 < (Array.replicate (nr * nc) (0 : α)).size := by
    intro w hw
    obtain ⟨k, hk, c, e, hc, he, hpos, _⟩ := bdWrites_mem mats hwf w hw
    rw [hpos, Array.size_replicate]
    exact lin_lt (bdRoff_lt mats hk he) (bdCoff_lt mats hk hc)
  obtain ⟨d', h1, h2, h3, h4⟩ := applyWrites_spec _ _ hin
  refine ⟨⟨nr, nc, d'⟩, ?_, rfl, rfl, ?_, ?_⟩
  · rw [blockdiag_unfold mats hne, hmap]
    simp only [Csc.foldl_add_eq_sum]
    change (applyWrites (Array.replicate (nr * nc) 0) ((bdReqs mats).map bdWrites).flatten >>=
      fun d => (pure (⟨nr, nc, d⟩ : Dense α) : MErr (Dense α))) = _
    rw [h1]; rfl
  · simp only [WF, h2, Array.size_replicate]
  · intro k hk j hj i hi
    have hb : WF mats[k] := hwf _ (List.getElem_mem _)
    have hcj := bdCoff_lt mats hk hj
    show d'[i + nr * (bdCoff mats k + j)]? = _
    -- a write to this position comes from block `k`, column `j`, row `i - roff`
    have hfrom : ∀ w ∈ ((bdReqs mats).map bdWrites).flatten, w.1 = i + nr * (bdCoff mats k + j) →
        bdRoff mats k ≤ i ∧ i < bdRoff mats k + mats[k].m ∧
          at? mats[k] (i - bdRoff mats k) j = some w.2 := by
      intro w hw hpos
      obtain ⟨k', hk', c, e, hc, he, hpos', hval⟩ := bdWrites_mem mats hwf w hw
      rw [hpos'] at hpos
      have hinj := lin_inj (bdRoff_lt mats hk' he) hi hpos
      have hkk := prefix_sum_inj (mats.map (·.n)) (k := k') (k' := k) (c := c) (c' := j)
        (by simpa using hk') (by simpa using hk) (by simpa using hc) (by simpa using hj)
        (by simpa [bdCoff, List.map_take] using hinj.2)
      obtain ⟨rfl, rfl⟩ := hkk
      have : e = i - bdRoff mats k' := by omega
      subst this
      exact ⟨by omega, by omega, hval⟩
    split
    · rename_i hblk
      obtain ⟨hlo, hhi⟩ := hblk
      have he : i - bdRoff mats k < mats[k].m := by unfold bdRoff; omega
      have hx : ∃ x, at? mats[k] (i - bdRoff mats k) j = some x := by
        have : (i - bdRoff mats k) + mats[k].m * j < mats[k].data.size := by
          rw [hb]; exact lin_lt he hj
        exact ⟨_, by simp only [at?]; exact Array.getElem?_eq_getElem this⟩
      obtain ⟨x, hx⟩ := hx
      show _ = at? mats[k] (i - bdRoff mats k) j
      rw [hx]
      apply h4
      · refine ⟨(i + nr * (bdCoff mats k + j), x), ?_, rfl⟩
        apply List.mem_flatten.mpr
        refine ⟨bdWrites (mats[k], j, bdRoff mats k + nr * (bdCoff mats k + j)), ?_, ?_⟩
        · exact List.mem_map_of_mem ((bdReqs_mem mats _).mpr ⟨k, hk, j, hj, rfl⟩)
        · unfold bdWrites
          apply List.mem_map.mpr
          refine ⟨(x, i - bdRoff mats k), ?_, ?_⟩
          · apply List.mem_zipIdx_iff_getElem?.mpr
            simp only
            rw [colList_getElem? _ hb hj he]; exact hx
          · simp only [Prod.mk.injEq, and_true]
            have : bdRoff mats k ≤ i := hlo
            omega
      · intro w hw hpos
        obtain ⟨_, _, hval⟩ := hfrom w hw hpos
        rw [hx] at hval
        exact (Option.some.inj hval).symm
    · rename_i hblk
      rw [h3]
      · have : i + nr * (bdCoff mats k + j) < nr * nc := lin_lt hi hcj
        simp [this]
      · intro w hw hpos
        obtain ⟨h1', h2', _⟩ := hfrom w hw hpos
        exact hblk ⟨h1', h2'⟩

/-- [S] `blockdiag` answers `IncompatibleDimension` exactly on the empty list -/
theorem blockdiag_error_iff [OfNat α 0] (mats : List (Dense α)) :
    blockdiag mats = .error (.err "IncompatibleDimension") ↔ mats = [] := by
  constructor
  · intro h
    by_contra hne
    rw [blockdiag_unfold mats hne] at h
    cases hp : (bdReqs mats).mapM (bdStep mats) with
    | error e =>
      rw [hp] at h
      have he : e = .err "IncompatibleDimension" := by cases h; rfl
      obtain ⟨q, _, hq⟩ := mapM_error_mem _ _ _ hp
      unfold bdStep at hq
      cases hs : colSlice q.1 q.2.1 with
      | error e' =>
        rw [hs] at hq
        have : e' = e := by cases hq; rfl
        obtain ⟨s, hs'⟩ := colSlice_error _ _ _ hs
        rw [this, he] at hs'; cases hs'
      | ok s =>
        rw [hs] at hq
        simp only [bind, Except.bind] at hq
        split at hq
        · rw [he] at hq; cases hq
        · cases hq
    | ok ws =>
      rw [hp] at h
      simp only [bind, Except.bind] at h
      cases ha : applyWrites (Array.replicate ((mats.map (·.m)).foldl (· + ·) 0 * (mats.map (·.n)).foldl (· + ·) 0) (0 : α)) ws.flatten with
      | error e =>
        rw [ha] at h
        have := applyWrites_error _ _ _ ha
        rw [this] at h; cases h
      | ok d => rw [ha] at h; cases h
  · rintro rfl
    rfl

end Clarabel.Dense
