/-
  Helper lemmas for C10 `bounds`: the rectification step keeps the row scalings inside
  `[min, max]` (scalar cones untouched, every other cone gets the mean of its entries).
-/
import ClarabelProofs.Lemmas.Equil

namespace Clarabel.Equil
open Cones
variable {α : Type} [Field α] [LinearOrder α] [IsStrictOrderedRing α] [FloatLike α] [LawfulFloatLike α]

theorem rectifyCone_bounds (lo hi : α) (hlo : 0 < lo) (c : ConeT α) (seg : List α)
    (h : ∀ x ∈ seg, lo ≤ x ∧ x ≤ hi) (i : Nat) (hi' : i < seg.length) :
    lo ≤ seg.getD i 0 * (rectifyCone c seg).1.getD i 0 ∧
    seg.getD i 0 * (rectifyCone c seg).1.getD i 0 ≤ hi := by
  cases hc : c.isScalar with
  | true =>
    rw [rectifyCone_scalar c seg hc i hi', mul_one]
    have : seg.getD i 0 = seg[i] := by simp [List.getD_eq_getElem?_getD, hi']
    rw [this]
    exact h _ (List.getElem_mem hi')
  | false =>
    rw [(rectifyCone_nonscalar c seg hc (fun x hx => ne_of_gt (lt_of_lt_of_le hlo (h x hx).1)) i hi').1]
    exact meanL_mem lo hi seg (by intro hn; rw [hn] at hi'; simp at hi') h

theorem rectifyGo_bounds (lo hi : α) (hlo : 0 < lo) (cones : List (ConeT α)) (es : List α)
    (h : ∀ x ∈ es, lo ≤ x ∧ x ≤ hi) (i : Nat) (hi' : i < es.length) :
    lo ≤ es.getD i 0 * (rectifyGo cones es).1.getD i 0 ∧
    es.getD i 0 * (rectifyGo cones es).1.getD i 0 ≤ hi := by
  induction cones generalizing es i with
  | nil =>
    have hx : es.getD i 0 = es[i] := by simp [List.getD_eq_getElem?_getD, hi']
    have : (rectifyGo ([] : List (ConeT α)) es).1.getD i 0 = 1 := by
      simp [rectifyGo, List.getD_eq_getElem?_getD, hi']
    rw [this, mul_one, hx]
    exact h _ (List.getElem_mem hi')
  | cons c cs ih =>
    simp only [rectifyGo]
    have hl : (rectifyCone c (es.take c.nvars)).1.length = (es.take c.nvars).length := length_rectifyCone _ _
    by_cases hin : i < (es.take c.nvars).length
    · rw [List.getD_eq_getElem?_getD (l := _ ++ _), List.getElem?_append_left (by omega),
        ← List.getD_eq_getElem?_getD]
      have hseg : (es.take c.nvars).getD i 0 = es.getD i 0 := by
        have : i < c.nvars := by simp at hin; omega
        simp [List.getD_eq_getElem?_getD, this]
      rw [← hseg]
      exact rectifyCone_bounds lo hi hlo c _ (fun x hx => h x (List.mem_of_mem_take hx)) i hin
    · have hge : c.nvars ≤ i := by simp at hin; omega
      rw [List.getD_eq_getElem?_getD (l := _ ++ _), List.getElem?_append_right (by omega), hl,
        ← List.getD_eq_getElem?_getD]
      have hlen : (es.take c.nvars).length = c.nvars := by simp; omega
      rw [hlen]
      have hdrop : es.getD i 0 = (es.drop c.nvars).getD (i - c.nvars) 0 := by
        simp [List.getD_eq_getElem?_getD, List.getElem?_drop]
        congr 2; omega
      rw [hdrop]
      exact ih (es.drop c.nvars) (fun x hx => h x (List.mem_of_mem_drop hx)) (i - c.nvars) (by simp; omega)

/-- the rectification step keeps `e` inside `[lo, hi]` -/
theorem allIn_rectifyStep (lo hi : α) (hlo : 0 < lo) (dt : ProblemData α) (cones : List (ConeT α))
    (h : AllIn lo hi dt.equilibration.e) : AllIn lo hi (rectifyStep dt cones).equilibration.e := by
  have hmem : ∀ x ∈ dt.equilibration.e.toList, lo ≤ x ∧ x ≤ hi := by
    intro x hx
    obtain ⟨i, hi', rfl⟩ := List.mem_iff_getElem.mp hx
    have hi2 : i < dt.equilibration.e.size := by simpa using hi'
    have := h i hi2
    rw [show dt.equilibration.e.getD i 1 = dt.equilibration.e[i] by simp [Array.getD, hi2]] at this
    simpa using this
  unfold rectifyStep
  simp only []
  split
  · intro j hj
    simp only [applyScaling] at hj ⊢
    rw [size_hadamardInPlace] at hj
    rw [getD_hadamardInPlace _ _ _ _ hj]
    have hl := length_rectifyGo cones dt.equilibration.e.toList
    have e1 : dt.equilibration.e.getD j 1 = dt.equilibration.e.toList.getD j 0 := by
      simp [Array.getD, List.getD_eq_getElem?_getD, hj]
    have e2 : (rectifyGo cones dt.equilibration.e.toList).1.toArray.getD j 1 =
        (rectifyGo cones dt.equilibration.e.toList).1.getD j 0 := by
      have : j < (rectifyGo cones dt.equilibration.e.toList).1.length := by rw [hl]; simpa using hj
      simp [Array.getD, List.getD_eq_getElem?_getD, this]
    rw [e1, e2]
    exact rectifyGo_bounds lo hi hlo cones _ hmem j (by simpa using hj)
  · exact h

end Clarabel.Equil
