/-
  C10: the row scaling `E` (and `E⁻¹`) that `equilibrate` returns is positive and uniform on
  every non-scalar cone — for every cone list, any number of passes, any positive bounds — so
  `E` maps the product cone onto itself (`EquilComposite.compositeMem_scale`).
-/
import ClarabelProofs.Lemmas.EquilComposite
import ClarabelProofs.Lemmas.EquilSettings
import ClarabelProofs.Lemmas.EquilPosMax

namespace Clarabel.Equil
open Clarabel Cones

variable {α : Type} [Field α] [LinearOrder α] [IsStrictOrderedRing α] [FloatLike α] [LawfulFloatLike α]

omit [FloatLike α] [LawfulFloatLike α] in
theorem posV_toList {x : Array α} (h : PosV x) : ∀ a ∈ x.toList, 0 < a := by
  intro a ha
  obtain ⟨i, hi, rfl⟩ := List.mem_iff_getElem.mp ha
  have hi2 : i < x.size := by simpa using hi
  have := h i hi2
  simpa [Array.getD, hi2] using this

/-- the `e` and `einv` returned by `equilibrate` are `UniformOn` the cone list, given
positivity at the end of the loop -/
theorem uniformOn_equilibrate_of (dt dt' : ProblemData α) (cones : List (ConeT α)) (s : Settings α)
    (hP : Pos (ruizLoop s s.maxIter dt))
    (hfresh : dt.equilibration = EquilData.new dt.n dt.m)
    (h : equilibrate dt cones s = .ok dt') :
    UniformOn cones dt'.equilibration.e.toList ∧ UniformOn cones dt'.equilibration.einv.toList ∧
    dt'.equilibration.e.size = dt.m ∧ dt'.equilibration.einv.size = dt.m := by
  unfold equilibrate at h
  split at h
  · cases h
    have e1 : dt.equilibration.e.toList = List.replicate dt.m 1 := by simp [hfresh, EquilData.new]
    have e2 : dt.equilibration.einv.toList = List.replicate dt.m 1 := by simp [hfresh, EquilData.new]
    rw [e1, e2]
    exact ⟨uniformOn_replicate_one _ _, uniformOn_replicate_one _ _, by simp [hfresh, EquilData.new],
      by simp [hfresh, EquilData.new]⟩
  · split at h
    · cases h
    · rename_i hok
      split at h
      · cases h
      · rename_i hnum
        cases h
        have hs : Shapes dt := shapes_of_shapesOk dt (by simpa using hok)
        have hInvL := (Inv.init dt hfresh).ruizLoop hs s s.maxIter
        have hInvF := hInvL.finish hs cones
        have hn : numel cones = dt.m := by simpa using hnum
        obtain ⟨h1, h2⟩ := uniformOn_finish (ruizLoop s s.maxIter dt) cones (by rw [hInvL.sze, hn])
          (posV_toList hP.e)
        refine ⟨h1, h2, hInvF.sze, ?_⟩
        have : (finish (ruizLoop s s.maxIter dt) cones).equilibration.einv.size =
            (finish (ruizLoop s s.maxIter dt) cones).equilibration.e.size := by
          simp [finish, setInverses]
        rw [this, hInvF.sze]

theorem pos_equilibrate_of (dt dt' : ProblemData α) (cones : List (ConeT α)) (s : Settings α)
    (hP : Pos (ruizLoop s s.maxIter dt))
    (hfresh : dt.equilibration = EquilData.new dt.n dt.m)
    (h : equilibrate dt cones s = .ok dt') :
    PosV dt'.equilibration.d ∧ 0 < dt'.equilibration.c := by
  unfold equilibrate at h
  split at h
  · cases h; exact ⟨(Pos.fresh dt hfresh).d, (Pos.fresh dt hfresh).c⟩
  · split at h
    · cases h
    · split at h
      · cases h
      · cases h
        have hcc : (finish (ruizLoop s s.maxIter dt) cones).equilibration.c =
            (ruizLoop s s.maxIter dt).equilibration.c := by
          simp only [finish, setInverses, rectifyStep]; split <;> rfl
        rw [finish_d, hcc]
        exact ⟨hP.d, hP.c⟩

/-- [F] the `e` and `einv` returned by `equilibrate` are `UniformOn` the cone list -/
theorem uniformOn_equilibrate (dt dt' : ProblemData α) (cones : List (ConeT α)) (s : Settings α)
    (hlo : 0 < s.minScaling) (hhi : 0 < s.maxScaling)
    (hfresh : dt.equilibration = EquilData.new dt.n dt.m)
    (h : equilibrate dt cones s = .ok dt') :
    UniformOn cones dt'.equilibration.e.toList ∧ UniformOn cones dt'.equilibration.einv.toList ∧
    dt'.equilibration.e.size = dt.m ∧ dt'.equilibration.einv.size = dt.m :=
  uniformOn_equilibrate_of dt dt' cones s ((Pos.fresh dt hfresh).ruizLoop s hlo hhi s.maxIter) hfresh h

/-- [F] positivity of everything `equilibrate` returns (any positive bounds, in any order) -/
theorem pos_equilibrate (dt dt' : ProblemData α) (cones : List (ConeT α)) (s : Settings α)
    (hlo : 0 < s.minScaling) (hhi : 0 < s.maxScaling)
    (hfresh : dt.equilibration = EquilData.new dt.n dt.m)
    (h : equilibrate dt cones s = .ok dt') :
    PosV dt'.equilibration.d ∧ 0 < dt'.equilibration.c :=
  pos_equilibrate_of dt dt' cones s ((Pos.fresh dt hfresh).ruizLoop s hlo hhi s.maxIter) hfresh h

/-- the same with `0 < max` alone, when `√` maps positives to positives -/
theorem uniformOn_equilibrate_hi (dt dt' : ProblemData α) (cones : List (ConeT α)) (s : Settings α)
    (hsq : ∀ x : α, 0 < x → 0 < sqrt x) (hhi : 0 < s.maxScaling)
    (hfresh : dt.equilibration = EquilData.new dt.n dt.m)
    (h : equilibrate dt cones s = .ok dt') :
    UniformOn cones dt'.equilibration.e.toList ∧ UniformOn cones dt'.equilibration.einv.toList ∧
    dt'.equilibration.e.size = dt.m ∧ dt'.equilibration.einv.size = dt.m :=
  uniformOn_equilibrate_of dt dt' cones s ((Pos.fresh dt hfresh).ruizLoop_hi s hsq hhi s.maxIter) hfresh h

theorem pos_equilibrate_hi (dt dt' : ProblemData α) (cones : List (ConeT α)) (s : Settings α)
    (hsq : ∀ x : α, 0 < x → 0 < sqrt x) (hhi : 0 < s.maxScaling)
    (hfresh : dt.equilibration = EquilData.new dt.n dt.m)
    (h : equilibrate dt cones s = .ok dt') :
    PosV dt'.equilibration.d ∧ 0 < dt'.equilibration.c :=
  pos_equilibrate_of dt dt' cones s ((Pos.fresh dt hfresh).ruizLoop_hi s hsq hhi s.maxIter) hfresh h

end Clarabel.Equil
