/-
  C08, "same state as a fresh solver": after any accepted history the updated solver's state
  is, component by component, the state that construction would produce from the FINAL
  user-level data with the equilibration frozen at the original `(d, e, c)`; hence a `Solved`
  verdict of the next solve certifies the FINAL user problem (`C01.certificate`).
-/
import ClarabelProofs.Lemmas.Update
import ClarabelProofs.Lemmas.UpdateAbs
import ClarabelProofs.Lemmas.UpdateDense
import ClarabelProofs.Lemmas.UpdateNorm
import ClarabelProofs.Props.C01
import ClarabelProofs.Props.C10

namespace Clarabel.Update

/-! ### A. internal = scaled(user) at the value-array level -/

section scaledValues
variable {α : Type}

/-- internal value arrays obtained from user-level values `u` by re-applying the stored
equilibration of `st` on the patterns of `st` (exactly what the whole-vector forms of
`update_*` store) -/
def State.scaledValues [Mul α] [OfNat α 0] (st : State α) (u : UserData α) : UserData α :=
  { P := u.P.mapIdx (fun k v => scaleFull st.P st.d st.d (some st.c) k v),
    q := u.q.mapIdx (fun k x => vscaleFull st.d (some st.c) k x),
    A := u.A.mapIdx (fun k v => scaleFull st.A st.e st.d none k v),
    b := u.b.mapIdx (fun k x => vscaleFull st.e none k x) }

variable [Field α]

theorem fe_scaleFull_unscM (M : Csc α) (l r : Array α) (cs : Option α) (k : Nat) (v : α)
    (hl : l.getD (rowOf M k) 0 ≠ 0) (hr : r.getD (colOf M.colptr k) 0 ≠ 0)
    (hc : ∀ c, cs = some c → c ≠ 0) :
    scaleFull M l r cs k (unscM M l r cs k v) = v := by
  cases cs with
  | none => simp only [unscM, scaleFull]; field_simp
  | some c =>
    have := hc c rfl
    simp only [unscM, scaleFull]; field_simp

theorem fe_vscaleFull_unscV (s : Array α) (cs : Option α) (k : Nat) (x : α)
    (hs : s.getD k 0 ≠ 0) (hc : ∀ c, cs = some c → c ≠ 0) :
    vscaleFull s cs k (unscV s cs k x) = x := by
  cases cs with
  | none => simp only [unscV, vscaleFull]; field_simp
  | some c =>
    have := hc c rfl
    simp only [unscV, vscaleFull]; field_simp

/-- [F] **internal = scaled(user)**: re-applying the stored equilibration to the user-level
view of a state gives back its internal value arrays (the inverse of `State.abs`). -/
theorem scaledValues_abs (st : State α) (h : st.ScaleOK) :
    st.scaledValues st.abs = ⟨st.P.nzval, st.q, st.A.nzval, st.b⟩ := by
  have hs : ∀ c', some st.c = some c' → c' ≠ 0 := by
    intro c' e; cases e; exact h.c_ne
  have hn : ∀ c' : α, (none : Option α) = some c' → c' ≠ 0 := by
    intro c' e; cases e
  unfold State.scaledValues State.abs
  simp only [UserData.mk.injEq]
  refine ⟨?_, ?_, ?_, ?_⟩
  · rw [absMat_eq]
    apply mapIdx_mapIdx_id
    intro k x hk
    exact fe_scaleFull_unscM _ _ _ _ k x (h.P_ne k hk).1 (h.P_ne k hk).2 hs
  · rw [absVec_eq]
    apply mapIdx_mapIdx_id
    intro k x hk
    exact fe_vscaleFull_unscV _ _ k x (h.q_ne k hk) hs
  · rw [absMat_eq]
    apply mapIdx_mapIdx_id
    intro k x hk
    exact fe_scaleFull_unscM _ _ _ _ k x (h.A_ne k hk).1 (h.A_ne k hk).2 hn
  · rw [absVec_eq]
    apply mapIdx_mapIdx_id
    intro k x hk
    exact fe_vscaleFull_unscV _ _ k x (h.b_ne k hk) hn

end scaledValues

/-! ### B. the "rebuilt" state -/

section rebuilt
variable {α : Type}

/-- what construction would leave in the fields data updating touches if it were run on
user-level data `u` with the patterns, maps and equilibration of `st0`: scaled data, both KKT
value copies written through the maps, caches empty, no pending diagonal shift -/
def State.rebuilt [Mul α] [OfNat α 0] (st0 : State α) (u : UserData α) : State α :=
  { st0 with
    P := { st0.P with nzval := (st0.scaledValues u).P },
    q := (st0.scaledValues u).q,
    A := { st0.A with nzval := (st0.scaledValues u).A },
    b := (st0.scaledValues u).b,
    normq := none, normb := none,
    kkt := updateValuesKKT (updateValuesKKT st0.kkt st0.mapP (st0.scaledValues u).P) st0.mapA
      (st0.scaledValues u).A,
    ldl := ldlUpdateValues (ldlUpdateValues st0.ldl st0.atoPAPt st0.mapP (st0.scaledValues u).P)
      st0.atoPAPt st0.mapA (st0.scaledValues u).A,
    ldlDiagShifted := false }

/-- my own copy of `C08.isWholeOp`: every argument of the operation is in a whole form -/
def wholeOp : Op α → Bool
  | .updateP a => a.isWhole
  | .updateA a => a.isWhole
  | .updateQ a => a.isWhole
  | .updateB a => a.isWhole
  | .updateData p q a b => p.isWhole && q.isWhole && a.isWhole && b.isWhole
  | .solve _ => true
  | .norms => true

/-- what no operation touches besides the `SameFrame` fields: the data maps -/
structure MapsFrame (st st' : State α) : Prop where
  mapP : st'.mapP = st.mapP
  mapA : st'.mapA = st.mapA
  diagFull : st'.diagFull = st.diagFull
  atoPAPt : st'.atoPAPt = st.atoPAPt

theorem MapsFrame.refl (st : State α) : MapsFrame st st := ⟨rfl, rfl, rfl, rfl⟩

theorem MapsFrame.trans {s s' s'' : State α} (h : MapsFrame s s') (h' : MapsFrame s' s'') :
    MapsFrame s s'' :=
  ⟨h'.mapP.trans h.mapP, h'.mapA.trans h.mapA, h'.diagFull.trans h.diagFull,
    h'.atoPAPt.trans h.atoPAPt⟩

/-- a matrix with the pattern of `M` and value array `x` *is* `{ M with nzval := x }` -/
theorem fe_csc_eq_of_pattern {M M' : Csc α} (h : SamePattern M M') (x : Array α)
    (hx : M'.nzval = x) : M' = { M with nzval := x } := by
  obtain ⟨m', n', cp', rv', nz'⟩ := M'
  obtain ⟨hm, hn, hc, hr, _⟩ := h
  simp only at hm hn hc hr hx
  subst hm hn hc hr hx
  rfl

section mulzero
variable [Mul α] [OfNat α 0]

theorem updateP_mapsFrame (st : State α) (arg : MatArg α) : MapsFrame st (updateP st arg).1 := by
  unfold updateP
  split
  · exact .refl st
  · split <;> exact ⟨rfl, rfl, rfl, rfl⟩

theorem updateA_mapsFrame (st : State α) (arg : MatArg α) : MapsFrame st (updateA st arg).1 := by
  unfold updateA
  split
  · exact .refl st
  · split <;> exact ⟨rfl, rfl, rfl, rfl⟩

theorem updateQ_mapsFrame (st : State α) (arg : VecArg α) : MapsFrame st (updateQ st arg).1 := by
  unfold updateQ
  split
  · exact .refl st
  · split <;> exact ⟨rfl, rfl, rfl, rfl⟩

theorem updateB_mapsFrame (st : State α) (arg : VecArg α) : MapsFrame st (updateB st arg).1 := by
  unfold updateB
  split
  · exact .refl st
  · split <;> exact ⟨rfl, rfl, rfl, rfl⟩

theorem updateData_mapsFrame (st : State α) (p : MatArg α) (q : VecArg α) (a : MatArg α)
    (b : VecArg α) : MapsFrame st (updateData st p q a b).1 := by
  have h1 := updateP_mapsFrame st p
  unfold updateData
  split
  · rename_i s1 e heq; rw [heq] at h1; exact h1
  · rename_i s1 heq
    rw [heq] at h1
    have h2 := updateQ_mapsFrame s1 q
    split
    · rename_i s2 e heq2; rw [heq2] at h2; exact h1.trans h2
    · rename_i s2 heq2
      rw [heq2] at h2
      have h3 := updateA_mapsFrame s2 a
      split
      · rename_i s3 e heq3; rw [heq3] at h3; exact (h1.trans h2).trans h3
      · rename_i s3 heq3
        rw [heq3] at h3
        exact ((h1.trans h2).trans h3).trans (updateB_mapsFrame s3 b)

/-- `scaledValues` reads the state only through the frame (patterns and equilibration) -/
theorem scaledValues_frame {st st' : State α} (f : SameFrame st st') (u : UserData α) :
    st'.scaledValues u = st.scaledValues u := by
  simp only [State.scaledValues, scaleFull, rowOf, f.d, f.e, f.c, f.P.rowval, f.P.colptr,
    f.A.rowval, f.A.colptr]

/-- [S] **the rebuilt state is in sync**: writing the scaled values of `u` through well-formed
maps leaves both value copies holding exactly these values (whatever they held before). -/
theorem rebuilt_sync (st0 : State α) (hm : st0.MapsOK) (u : UserData α)
    (hP : u.P.size = st0.P.nzval.size) (hA : u.A.size = st0.A.nzval.size) :
    (st0.rebuilt u).KktSync ∧ (st0.rebuilt u).MapsOK := by
  have hnd := List.nodup_append.mp hm.nodup
  have hbP : ∀ i ∈ st0.mapP.toList, i < st0.kkt.size :=
    fun i hi => hm.bound i (List.mem_append_left _ hi)
  have hbA : ∀ i ∈ st0.mapA.toList, i < st0.kkt.size :=
    fun i hi => hm.bound i (List.mem_append_right _ hi)
  have hszP : st0.mapP.size = (st0.scaledValues u).P.size := by
    rw [hm.sizeP, ← hP]; simp only [State.scaledValues, Array.size_mapIdx]
  have hszA : st0.mapA.size = (st0.scaledValues u).A.size := by
    rw [hm.sizeA, ← hA]; simp only [State.scaledValues, Array.size_mapIdx]
  obtain ⟨c1, c2, c3, c4, c5, c6⟩ := copy_block st0.kkt st0.ldl st0.atoPAPt st0.mapP st0.mapA
    (st0.scaledValues u).P hszP hnd.1 hnd.2.2 hbP hbA hm.atopSize hm.atopBound hm.atopInj
  obtain ⟨e1, e2, e3, e4, e5, e6⟩ := copy_block
    (updateValuesKKT st0.kkt st0.mapP (st0.scaledValues u).P)
    (ldlUpdateValues st0.ldl st0.atoPAPt st0.mapP (st0.scaledValues u).P)
    st0.atoPAPt st0.mapA st0.mapP (st0.scaledValues u).A hszA hnd.2.1
    (fun a ha b hb => (hnd.2.2 b hb a ha).symm) (by rw [c5]; exact hbA) (by rw [c5]; exact hbP)
    (by rw [c5]; exact hm.atopSize) (by rw [c6]; exact hm.atopBound) hm.atopInj
  refine ⟨⟨?_, ?_, ?_, ?_⟩, ⟨?_, ?_, hm.nodup, ?_, ?_, ?_, hm.atopInj⟩⟩
  · intro k hk
    have hk' : k < (st0.scaledValues u).P.size := hk
    show (updateValuesKKT (updateValuesKKT st0.kkt st0.mapP (st0.scaledValues u).P) st0.mapA
      (st0.scaledValues u).A)[st0.mapP.getD k 0]? = (st0.scaledValues u).P[k]?
    rw [e2 k (hszP ▸ hk'), c1 k hk']
  · intro k hk
    exact e1 k hk
  · intro k hk _
    have hk' : k < (st0.scaledValues u).P.size := hk
    show (ldlUpdateValues (ldlUpdateValues st0.ldl st0.atoPAPt st0.mapP (st0.scaledValues u).P)
      st0.atoPAPt st0.mapA (st0.scaledValues u).A)[st0.atoPAPt.getD (st0.mapP.getD k 0) 0]?
        = (st0.scaledValues u).P[k]?
    rw [e4 k (hszP ▸ hk'), c3 k hk']
  · intro k hk
    exact e3 k hk
  · exact hszP
  · exact hszA
  · intro i hi
    show i < (updateValuesKKT (updateValuesKKT st0.kkt st0.mapP (st0.scaledValues u).P) st0.mapA
      (st0.scaledValues u).A).size
    rw [e5, c5]; exact hm.bound i hi
  · show st0.atoPAPt.size = (updateValuesKKT (updateValuesKKT st0.kkt st0.mapP
      (st0.scaledValues u).P) st0.mapA (st0.scaledValues u).A).size
    rw [e5, c5]; exact hm.atopSize
  · intro i hi
    show i < (ldlUpdateValues (ldlUpdateValues st0.ldl st0.atoPAPt st0.mapP
      (st0.scaledValues u).P) st0.atoPAPt st0.mapA (st0.scaledValues u).A).size
    rw [e6, c6]; exact hm.atopBound i hi

end mulzero

section ops
variable [Mul α] [Div α] [OfNat α 0] [OfNat α 1] [FloatLike α]

theorem step_mapsFrame (st : State α) (op : Op α) : MapsFrame st (step st op).1 := by
  cases op with
  | updateP a => exact updateP_mapsFrame st a
  | updateQ a => exact updateQ_mapsFrame st a
  | updateA a => exact updateA_mapsFrame st a
  | updateB a => exact updateB_mapsFrame st a
  | updateData p q a b => exact updateData_mapsFrame st p q a b
  | solve sr => exact ⟨rfl, rfl, rfl, rfl⟩
  | norms => exact ⟨rfl, rfl, rfl, rfl⟩

/-- [S] no history changes `map.P`, `map.A`, the diagonal index list or `AtoPAPt` -/
theorem run_mapsFrame (st : State α) (ops : List (Op α)) : MapsFrame st (run st ops).1 := by
  induction ops generalizing st with
  | nil => exact .refl st
  | cons op rest ih =>
    simp only [run]
    exact (step_mapsFrame st op).trans (ih _)

/-- a history in which every operation is accepted or has all its arguments in whole forms
(the histories `C08.kkt_in_sync` / `C08.norm_cache` speak about) -/
def AcceptedRun (st : State α) : List (Op α) → Prop
  | [] => True
  | op :: rest => ((step st op).2 = .ok () ∨ wholeOp op = true) ∧ AcceptedRun (step st op).1 rest

/-- a history of whole-form operations is an `AcceptedRun` from every state -/
theorem acceptedRun_of_whole (ops : List (Op α)) (h : ∀ op ∈ ops, wholeOp op = true)
    (st : State α) : AcceptedRun st ops := by
  induction ops generalizing st with
  | nil => trivial
  | cons op rest ih =>
    exact ⟨Or.inr (h op (List.mem_cons_self ..)),
      ih (fun o ho => h o (List.mem_cons_of_mem _ ho)) _⟩

/-- the three invariants of a live solver that data updating must keep -/
def State.FeInv (st : State α) : Prop := st.KktSync ∧ st.MapsOK ∧ st.NormCacheOK

/-- one accepted or whole-form operation keeps `KktSync`, `MapsOK` and `NormCacheOK`
(assembled from `updateP_inv` …, `updateP_norm` … of `Lemmas/Update.lean`; these carry unused
order/additive instance arguments, which are instantiated by dummies here) -/
theorem fe_step_inv (st : State α) (hi : st.FeInv) (op : Op α)
    (h : (step st op).2 = .ok () ∨ wholeOp op = true) : (step st op).1.FeInv := by
  let _ : LT α := ⟨fun _ _ => False⟩
  let _ : DecidableLT α := fun _ _ => isFalse (fun h => h)
  let _ : Add α := ⟨fun a _ => a⟩
  let _ : Sub α := ⟨fun a _ => a⟩
  obtain ⟨hs, hm, hn⟩ := hi
  have hinv : st.Inv := ⟨hs, hm⟩
  cases op with
  | updateP a =>
    have := updateP_inv st hinv a h
    exact ⟨this.1, this.2, updateP_norm st a hn⟩
  | updateA a =>
    have := updateA_inv st hinv a h
    exact ⟨this.1, this.2, updateA_norm st a hn⟩
  | updateQ a =>
    have := updateQ_inv st hinv a
    exact ⟨this.1, this.2, updateQ_norm st a hn h⟩
  | updateB a =>
    have := updateB_inv st hinv a
    exact ⟨this.1, this.2, updateB_norm st a hn h⟩
  | updateData p q a b =>
    have hw : (updateData st p q a b).2 = .ok () ∨
        (p.isWhole = true ∧ q.isWhole = true ∧ a.isWhole = true ∧ b.isWhole = true) := by
      rcases h with h | h
      · exact Or.inl h
      · simp only [wholeOp, Bool.and_eq_true] at h
        exact Or.inr ⟨h.1.1.1, h.1.1.2, h.1.2, h.2⟩
    have h1 := updateData_inv st hinv p q a b (hw.imp id (fun w => ⟨w.1, w.2.2.1⟩))
    have h2 := updateData_preserves State.NormCacheOK
      (fun s a hs _ => updateP_norm s a hs) (fun s a hs hc => updateQ_norm s a hs hc)
      (fun s a hs _ => updateA_norm s a hs) (fun s a hs hc => updateB_norm s a hs hc) st hn
      p q a b hw
    exact ⟨h1.1, h1.2, h2⟩
  | solve sr =>
    have hf := fillNorms_norm st hn
    refine ⟨⟨hs.kktP, hs.kktA, ?_, hs.ldlA⟩,
      ⟨hm.sizeP, hm.sizeA, hm.nodup, hm.bound, hm.atopSize, hm.atopBound, hm.atopInj⟩,
      ⟨Or.inr hf.1, Or.inr hf.2⟩⟩
    intro k hk hc
    apply hs.ldlP k hk
    rcases hc with hc | hc
    · left
      have : (st.ldlDiagShifted || sr) = false := hc
      exact (Bool.or_eq_false_iff.mp this).1
    · exact Or.inr hc
  | norms =>
    have hf := fillNorms_norm st hn
    exact ⟨⟨hs.kktP, hs.kktA, hs.ldlP, hs.ldlA⟩,
      ⟨hm.sizeP, hm.sizeA, hm.nodup, hm.bound, hm.atopSize, hm.atopBound, hm.atopInj⟩,
      ⟨Or.inr hf.1, Or.inr hf.2⟩⟩

/-- [S] the same along an `AcceptedRun` -/
theorem fe_run_inv (ops : List (Op α)) (st : State α) (hi : st.FeInv) (ha : AcceptedRun st ops) :
    (run st ops).1.FeInv := by
  induction ops generalizing st with
  | nil => exact hi
  | cons op rest ih =>
    simp only [run]
    exact ih (step st op).1 (fe_step_inv st hi op ha.1) ha.2

/-- **"the updated solver is the rebuilt solver"**, component by component.  `st0` is the
state the solver was constructed in, `st'` the state after a history, `st0.rebuilt st'.abs`
what construction would store for the FINAL user-level data `st'.abs` with the equilibration,
patterns and maps of `st0`. -/
structure EquivRebuilt (st0 st' : State α) : Prop where
  /-- (1) the internal data are the scaled final user data, as full `Csc` / array equalities -/
  P : st'.P = (st0.rebuilt st'.abs).P
  q : st'.q = (st0.rebuilt st'.abs).q
  A : st'.A = (st0.rebuilt st'.abs).A
  b : st'.b = (st0.rebuilt st'.abs).b
  qsize : st'.q.size = st0.q.size
  bsize : st'.b.size = st0.b.size
  /-- (1) equilibration, flags and maps are those of `st0` -/
  d : st'.d = st0.d
  dinv : st'.dinv = st0.dinv
  e : st'.e = st0.e
  einv : st'.einv = st0.einv
  c : st'.c = st0.c
  presolved : st'.presolved = st0.presolved
  decomposed : st'.decomposed = st0.decomposed
  mapP : st'.mapP = st0.mapP
  mapA : st'.mapA = st0.mapA
  diagFull : st'.diagFull = st0.diagFull
  atoPAPt : st'.atoPAPt = st0.atoPAPt
  /-- (2) both states have their value copies in sync with their (equal) data … -/
  sync : st'.KktSync
  maps : st'.MapsOK
  rsync : (st0.rebuilt st'.abs).KktSync
  rmaps : (st0.rebuilt st'.abs).MapsOK
  /-- … hence the KKT matrices agree at every data position … -/
  kktP : ∀ k, k < st'.P.nzval.size →
    st'.kkt[st0.mapP.getD k 0]? = (st0.rebuilt st'.abs).kkt[st0.mapP.getD k 0]?
  kktA : ∀ k, k < st'.A.nzval.size →
    st'.kkt[st0.mapA.getD k 0]? = (st0.rebuilt st'.abs).kkt[st0.mapA.getD k 0]?
  /-- … and the LDL copies too, except — while a `solve` has left the regularised diagonal in
  it — at the diagonal positions (re-read from `KKT` before every factorisation) -/
  ldlP : ∀ k, k < st'.P.nzval.size →
    (st'.ldlDiagShifted = false ∨ st0.mapP.getD k 0 ∉ st0.diagFull.toList) →
    st'.ldl[st0.atoPAPt.getD (st0.mapP.getD k 0) 0]?
      = (st0.rebuilt st'.abs).ldl[st0.atoPAPt.getD (st0.mapP.getD k 0) 0]?
  ldlA : ∀ k, k < st'.A.nzval.size →
    st'.ldl[st0.atoPAPt.getD (st0.mapA.getD k 0) 0]?
      = (st0.rebuilt st'.abs).ldl[st0.atoPAPt.getD (st0.mapA.getD k 0) 0]?
  /-- (3) a cached norm is absent (as in the rebuilt state) or the norm of the current vector -/
  norm : st'.NormCacheOK

end ops

end rebuilt

/-! ### B. the state-equivalence theorem -/

section equiv
variable {α : Type} [Field α] [FloatLike α]

/-- assembling `EquivRebuilt` from the frame facts and the invariants of the final state -/
theorem equivRebuilt_of_frame {st st' : State α} (f : SameFrame st st') (g : MapsFrame st st')
    (h' : st'.ScaleOK) (hm : st.MapsOK) (hi : st'.FeInv) : EquivRebuilt st st' := by
  obtain ⟨hs', hm', hn'⟩ := hi
  have hsv : st.scaledValues st'.abs = ⟨st'.P.nzval, st'.q, st'.A.nzval, st'.b⟩ := by
    rw [← scaledValues_frame f, scaledValues_abs st' h']
  have hP : st'.P = (st.rebuilt st'.abs).P :=
    fe_csc_eq_of_pattern f.P _ (by rw [hsv])
  have hA : st'.A = (st.rebuilt st'.abs).A :=
    fe_csc_eq_of_pattern f.A _ (by rw [hsv])
  have hq : st'.q = (st.rebuilt st'.abs).q := by
    show st'.q = (st.scaledValues st'.abs).q
    rw [hsv]
  have hb : st'.b = (st.rebuilt st'.abs).b := by
    show st'.b = (st.scaledValues st'.abs).b
    rw [hsv]
  have hszP : st'.abs.P.size = st.P.nzval.size := by
    rw [← f.P.size]; simp only [State.abs, absMat, Array.size_mapIdx]
  have hszA : st'.abs.A.size = st.A.nzval.size := by
    rw [← f.A.size]; simp only [State.abs, absMat, Array.size_mapIdx]
  obtain ⟨hrs, hrm⟩ := rebuilt_sync st hm st'.abs hszP hszA
  have hPn : ∀ k : Nat, st'.P.nzval[k]? = (st.rebuilt st'.abs).P.nzval[k]? := by
    intro k; rw [← hP]
  have hAn : ∀ k : Nat, st'.A.nzval[k]? = (st.rebuilt st'.abs).A.nzval[k]? := by
    intro k; rw [← hA]
  have hPsz : st'.P.nzval.size = (st.rebuilt st'.abs).P.nzval.size := by rw [← hP]
  have hAsz : st'.A.nzval.size = (st.rebuilt st'.abs).A.nzval.size := by rw [← hA]
  refine ⟨hP, hq, hA, hb, f.q, f.b, f.d, f.dinv, f.e, f.einv, f.c, f.presolved, f.decomposed,
    g.mapP, g.mapA, g.diagFull, g.atoPAPt, hs', hm', hrs, hrm, ?_, ?_, ?_, ?_, hn'⟩
  · intro k hk
    have h1 := hs'.kktP k hk
    have h2 := hrs.kktP k (hPsz ▸ hk)
    rw [g.mapP] at h1
    rw [h1, hPn k]; exact h2.symm
  · intro k hk
    have h1 := hs'.kktA k hk
    have h2 := hrs.kktA k (hAsz ▸ hk)
    rw [g.mapA] at h1
    rw [h1, hAn k]; exact h2.symm
  · intro k hk hc
    have h1 := hs'.ldlP k hk (by rw [g.mapP, g.diagFull]; exact hc)
    have h2 := hrs.ldlP k (hPsz ▸ hk) (Or.inl rfl)
    rw [g.mapP, g.atoPAPt] at h1
    rw [h1, hPn k]; exact h2.symm
  · intro k hk
    have h1 := hs'.ldlA k hk
    have h2 := hrs.ldlA k (hAsz ▸ hk)
    rw [g.mapA, g.atoPAPt] at h1
    rw [h1, hAn k]; exact h2.symm

/-- [F] **state equivalence with the rebuilt solver.**  Let `st` be a live solver state
(nonzero scalings, well-formed maps, value copies in sync, caches valid) and `ops` a history in
which every operation is accepted or in whole form.  Then the state `st'` after the history
is, component by component, the state construction would produce from the FINAL user-level
data `st'.abs` with the equilibration frozen at the original `(d, e, c)` — see
`EquivRebuilt`. -/
theorem run_equiv_rebuilt (st : State α) (h : st.ScaleOK) (hm : st.MapsOK) (hs : st.KktSync)
    (hn : st.NormCacheOK) (ops : List (Op α)) (ha : AcceptedRun st ops) :
    EquivRebuilt st (run st ops).1 :=
  have f := run_frame st ops
  equivRebuilt_of_frame f (run_mapsFrame st ops) (f.scaleOK h) hm
    (fe_run_inv ops st ⟨hs, hm, hn⟩ ha)

/-- [F] the FINAL user-level data of `run_equiv_rebuilt` are the plain-overwrite result of the
specification (`abs_run_eq_spec`): the internal data after the history are `scaledValues` of
what the user wrote, on the original patterns with the original equilibration. -/
theorem run_data_eq_scaled_spec (st : State α) (h : st.ScaleOK) (ops : List (Op α)) :
    let u' := (specRun (checkDataUpdateAllowed st) st.P st.A st.abs ops).1
    let st' := (run st ops).1
    st'.abs = u' ∧
    st'.P = { st.P with nzval := (st.scaledValues u').P } ∧ st'.q = (st.scaledValues u').q ∧
    st'.A = { st.A with nzval := (st.scaledValues u').A } ∧ st'.b = (st.scaledValues u').b := by
  intro u' st'
  have f : SameFrame st st' := run_frame st ops
  have habs : st'.abs = u' := congrArg Prod.fst (abs_run_eq_spec st h ops)
  have hsv : st.scaledValues u' = ⟨st'.P.nzval, st'.q, st'.A.nzval, st'.b⟩ := by
    rw [← habs, ← scaledValues_frame f, scaledValues_abs st' (f.scaleOK h)]
  refine ⟨habs, fe_csc_eq_of_pattern f.P _ (by rw [hsv]), by rw [hsv],
    fe_csc_eq_of_pattern f.A _ (by rw [hsv]), by rw [hsv]⟩

end equiv

/-! ### B(3). the cached / recomputed norms are those of the FINAL user-level vectors -/

section norms
variable {α : Type} [Field α] [LinearOrder α] [IsStrictOrderedRing α] [FloatLike α]
  [LawfulFloatLike α]

/-- [F] if the inverse scalings of the original state are the reciprocals of its scalings and
`c > 0`, then after the history whatever a norm cache holds, and whatever `get_normq` /
`get_normb` return (cached or recomputed), is the ∞-norm of the FINAL user-level `q`, `b`. -/
theorem EquivRebuilt.norms_final_user {st0 st' : State α} (h : EquivRebuilt st0 st')
    (hszd : st0.dinv.size = st0.q.size) (hsze : st0.einv.size = st0.b.size)
    (hdinv : ∀ i, i < st0.q.size → st0.dinv.getD i 0 = 1 / st0.d.getD i 0)
    (heinv : ∀ i, i < st0.b.size → st0.einv.getD i 0 = 1 / st0.e.getD i 0)
    (hc : 0 < st0.c) :
    getNormq st' = Vec.normInf st'.abs.q ∧ getNormb st' = Vec.normInf st'.abs.b ∧
    (∀ v, st'.normq = some v → v = Vec.normInf st'.abs.q) ∧
    (∀ v, st'.normb = some v → v = Vec.normInf st'.abs.b) := by
  have fq : freshNormq st' = Vec.normInf st'.abs.q := by
    apply freshNormq_eq_user_norm st' (by rw [h.dinv, h.qsize]; exact hszd)
    · intro i hi
      rw [h.dinv, h.d, hdinv i (h.qsize ▸ hi), one_div]
    · rw [h.c]; exact hc
  have fb : freshNormb st' = Vec.normInf st'.abs.b := by
    apply freshNormb_eq_user_norm st' (by rw [h.einv, h.bsize]; exact hsze)
    intro i hi
    rw [h.einv, h.e, heinv i (h.bsize ▸ hi), one_div]
  have cq : ∀ v, st'.normq = some v → v = Vec.normInf st'.abs.q := by
    intro v hv
    rcases h.norm.1 with h1 | h1
    · rw [h1] at hv; cases hv
    · rw [h1] at hv; cases hv; exact fq
  have cb : ∀ v, st'.normb = some v → v = Vec.normInf st'.abs.b := by
    intro v hv
    rcases h.norm.2 with h1 | h1
    · rw [h1] at hv; cases hv
    · rw [h1] at hv; cases hv; exact fb
  refine ⟨?_, ?_, cq, cb⟩
  · unfold getNormq
    cases hv : st'.normq with
    | none => exact fq
    | some v => exact cq v hv
  · unfold getNormb
    cases hv : st'.normb with
    | none => exact fb
    | some v => exact cb v hv

end norms

/-! ### C. a `Solved` verdict of the next solve certifies the FINAL user problem -/

section certified
open Clarabel.Dense Clarabel.Info

/-- the dense reading uses a pattern only through `rowval` and `colptr` -/
theorem fe_denseProblem_congr {α : Type} [Field α] {pP pP' pA pA' : Csc α}
    (hP : SamePattern pP pP') (hA : SamePattern pA pA') (u : UserData α) (n m : ℕ) :
    denseProblem pP' pA' u n m = denseProblem pP pA u n m := by
  unfold denseProblem denseOf rowOf
  rw [hP.rowval, hP.colptr, hA.rowval, hA.colptr]

/-- [S] the stored scalings, read as a `Dense.Scaling`, are those of construction -/
theorem run_scaling_eq {α : Type} [Field α] [FloatLike α] (st : State α) (ops : List (Op α))
    (n m : ℕ) : (run st ops).1.scaling n m = st.scaling n m := by
  have f := run_frame st ops
  simp only [State.scaling, f.d, f.e, f.c]

variable {n m : ℕ}

/-- `res_primal` as `Info.update` assigns it, written on the INTERNAL problem `pi` the solver
iterates on (`Dense.resPrimal p sc = intResPrimal (p.scaled sc) sc` by definition) -/
noncomputable def intResPrimal (pi : Problem ℝ n m) (sc : Scaling ℝ n m) (xh : Fin n → ℝ)
    (sh : Fin m → ℝ) (τ normb : ℝ) : ℝ :=
  nrm (fun i => rz pi xh sh τ i * (1 / sc.e i)) * (1 / τ)
    / max 1 (normb + nrm (fun j => xh j * sc.d j) * (1 / τ) + nrm (fun i => sh i * (1 / sc.e i)) * (1 / τ))

/-- `res_dual` as `Info.update` assigns it, on the internal problem `pi` -/
noncomputable def intResDual (pi : Problem ℝ n m) (sc : Scaling ℝ n m) (xh : Fin n → ℝ)
    (zh : Fin m → ℝ) (τ normq : ℝ) : ℝ :=
  nrm (fun j => rx pi xh zh τ j * (1 / sc.d j)) * (1 / τ) * (1 / sc.c)
    / max 1 (normq + nrm (fun j => xh j * sc.d j) * (1 / τ) + nrm (fun i => zh i * sc.e i) * (1 / sc.c) * (1 / τ))

/-- `cost_primal` as `Info.update` assigns it, on the internal problem `pi` -/
noncomputable def intCostPrimal (pi : Problem ℝ n m) (sc : Scaling ℝ n m) (xh : Fin n → ℝ)
    (τ : ℝ) : ℝ :=
  (dot pi.q xh * (1 / τ) + dot xh (mulV pi.P xh) * (1 / τ) * (1 / τ) / 2) * (1 / sc.c)

/-- `cost_dual` as `Info.update` assigns it, on the internal problem `pi` -/
noncomputable def intCostDual (pi : Problem ℝ n m) (sc : Scaling ℝ n m) (xh : Fin n → ℝ)
    (zh : Fin m → ℝ) (τ : ℝ) : ℝ :=
  (-dot pi.b zh * (1 / τ) - dot xh (mulV pi.P xh) * (1 / τ) * (1 / τ) / 2) * (1 / sc.c)

/-- [F] **the next `Solved` verdict certifies the FINAL user data** (over `ℝ`).  After any
history `ops` from a state with positive scalings let `p` be the FINAL user problem (dense
reading of `st'.abs`, which is the plain-overwrite result `u'` of the specification on the
original patterns) and `sc` the ORIGINAL scalings.  Then
1. the internal problem the next solve iterates on is `p.scaled sc`;
2. if `info` carries the values `Info.update` assigns for an internal iterate `(x̂, ŝ, ẑ, τ)` of
   THAT internal problem (`st'.denseInternal`) and `check_convergence_full` turns a non-`Solved`
   status into `Solved`, then the un-scaled point satisfies the documented termination test —
   primal residual, dual residual and gap inequalities — for the FINAL user data `p`
   (`C01.certificate`). -/
theorem solved_certifies_final_data (st : State ℝ) (h : st.ScaleOK) (ops : List (Op ℝ))
    (hn : n = st.q.size) (hm : m = st.b.size)
    (hd : ∀ i, i < n → 0 < st.d.getD i 0) (he : ∀ i, i < m → 0 < st.e.getD i 0)
    (hc : 0 < st.c) :
    let st' := (run st ops).1
    let u' := (specRun (checkDataUpdateAllowed st) st.P st.A st.abs ops).1
    let p : Problem ℝ n m := st'.denseUser n m
    let sc : Scaling ℝ n m := st.scaling n m
    p = denseProblem st.P st.A u' n m ∧
    st'.denseInternal n m = p.scaled sc ∧
    ∀ (xh : Fin n → ℝ) (sh zh : Fin m → ℝ) (τ normb normq : ℝ), 0 < τ →
    ∀ (i : InfoS ℝ) (bz qx : ℝ) (s : Settings ℝ),
      i.res_primal = intResPrimal (st'.denseInternal n m) sc xh sh τ normb →
      i.res_dual = intResDual (st'.denseInternal n m) sc xh zh τ normq →
      i.cost_primal = intCostPrimal (st'.denseInternal n m) sc xh τ →
      i.cost_dual = intCostDual (st'.denseInternal n m) sc xh zh τ →
      i.gap_abs = |i.cost_primal - i.cost_dual| →
      i.gap_rel = i.gap_abs / max 1 (min |i.cost_primal| |i.cost_dual|) →
      i.status ≠ .solved →
      (checkConvergenceFull i bz qx s).status = .solved →
      let x := unX sc τ xh
      let sv := unS sc τ sh
      let z := unZ sc τ zh
      let pobj := dot x (mulV p.P x) / 2 + dot p.q x
      let dobj := -dot p.b z - dot x (mulV p.P x) / 2
      nrm (fun i => mulV p.A x i + sv i - p.b i) / max 1 (normb + nrm x + nrm sv) < s.full.feas
      ∧ nrm (fun j => mulV p.P x j + mulVT p.A z j + p.q j) / max 1 (normq + nrm x + nrm z)
          < s.full.feas
      ∧ (|pobj - dobj| < s.full.gap_abs
          ∨ |pobj - dobj| / max 1 (min |pobj| |dobj|) < s.full.gap_rel) := by
  intro st' u' p sc
  have hf : SameFrame st st' := run_frame st ops
  have hsc : st'.scaling n m = sc := run_scaling_eq st ops n m
  have hint : st'.denseInternal n m = p.scaled sc := by
    rw [← hsc]
    apply denseInternal_eq_scaled st' n m (by rw [hf.q]; exact hn) (by rw [hf.b]; exact hm)
    · intro i hi; rw [hf.d]; exact (hd i hi).ne'
    · intro i hi; rw [hf.e]; exact (he i hi).ne'
    · rw [hf.c]; exact hc.ne'
  have hp : p = denseProblem st.P st.A u' n m := by
    show denseProblem st'.P st'.A st'.abs n m = _
    rw [fe_denseProblem_congr hf.P hf.A]
    exact congrArg (fun u => denseProblem st.P st.A u n m)
      (congrArg Prod.fst (abs_run_eq_spec st h ops))
  refine ⟨hp, hint, ?_⟩
  intro xh sh zh τ normb normq hτ i bz qx s hrp hrd hcp hcd hga hgr h0 hsolved
  rw [hint] at hrp hrd hcp hcd
  exact C01.certificate p sc xh sh zh τ normb normq (fun j => hd j j.2) (fun i => he i i.2) hc hτ
    i bz qx s hrp hrd hcp hcd hga hgr h0 hsolved

/-- [F] `solved_certifies_final_data` with the norms the solver actually uses: when the
history is an `AcceptedRun` from a live state whose inverse scalings are the reciprocals of
its scalings, the `normb`, `normq` entering `res_primal`, `res_dual` of the next solve —
`get_normb()`, `get_normq()`, cached or recomputed — are `‖b‖∞`, `‖q‖∞` of the FINAL user
data, so the certified test is the documented one with the norms of the final data. -/
theorem solved_certifies_final_data_cached (st : State ℝ) (h : st.ScaleOK) (hmaps : st.MapsOK)
    (hs : st.KktSync) (hnc : st.NormCacheOK) (ops : List (Op ℝ)) (ha : AcceptedRun st ops)
    (hn : n = st.q.size) (hm : m = st.b.size)
    (hd : ∀ i, i < n → 0 < st.d.getD i 0) (he : ∀ i, i < m → 0 < st.e.getD i 0)
    (hc : 0 < st.c)
    (hszd : st.dinv.size = st.q.size) (hsze : st.einv.size = st.b.size)
    (hdinv : ∀ i, i < st.q.size → st.dinv.getD i 0 = 1 / st.d.getD i 0)
    (heinv : ∀ i, i < st.b.size → st.einv.getD i 0 = 1 / st.e.getD i 0) :
    let st' := (run st ops).1
    let p : Problem ℝ n m := st'.denseUser n m
    let sc : Scaling ℝ n m := st.scaling n m
    let normb := Vec.normInf st'.abs.b
    let normq := Vec.normInf st'.abs.q
    getNormb st' = normb ∧ getNormq st' = normq ∧
    ∀ (xh : Fin n → ℝ) (sh zh : Fin m → ℝ) (τ : ℝ), 0 < τ →
    ∀ (i : InfoS ℝ) (bz qx : ℝ) (s : Settings ℝ),
      i.res_primal = intResPrimal (st'.denseInternal n m) sc xh sh τ (getNormb st') →
      i.res_dual = intResDual (st'.denseInternal n m) sc xh zh τ (getNormq st') →
      i.cost_primal = intCostPrimal (st'.denseInternal n m) sc xh τ →
      i.cost_dual = intCostDual (st'.denseInternal n m) sc xh zh τ →
      i.gap_abs = |i.cost_primal - i.cost_dual| →
      i.gap_rel = i.gap_abs / max 1 (min |i.cost_primal| |i.cost_dual|) →
      i.status ≠ .solved →
      (checkConvergenceFull i bz qx s).status = .solved →
      let x := unX sc τ xh
      let sv := unS sc τ sh
      let z := unZ sc τ zh
      let pobj := dot x (mulV p.P x) / 2 + dot p.q x
      let dobj := -dot p.b z - dot x (mulV p.P x) / 2
      nrm (fun i => mulV p.A x i + sv i - p.b i) / max 1 (normb + nrm x + nrm sv) < s.full.feas
      ∧ nrm (fun j => mulV p.P x j + mulVT p.A z j + p.q j) / max 1 (normq + nrm x + nrm z)
          < s.full.feas
      ∧ (|pobj - dobj| < s.full.gap_abs
          ∨ |pobj - dobj| / max 1 (min |pobj| |dobj|) < s.full.gap_rel) := by
  intro st' p sc normb normq
  have heq := run_equiv_rebuilt st h hmaps hs hnc ops ha
  obtain ⟨nq, nb, _, _⟩ := heq.norms_final_user hszd hsze hdinv heinv hc
  refine ⟨nb, nq, ?_⟩
  intro xh sh zh τ hτ i bz qx s hrp hrd
  rw [show getNormb st' = normb from nb] at hrp
  rw [show getNormq st' = normq from nq] at hrd
  exact (solved_certifies_final_data st h ops hn hm hd he hc).2.2 xh sh zh τ normb normq hτ
    i bz qx s hrp hrd

/-- [F] **cone uniformity survives data updating.**  `st'.e = st.e` (and `d`, `c`), so any
statement "`e` is constant (`= e₀`) on the index block `[lo, lo+len)` of a cone"
(`C10.uniform_on_cones`) that held at construction still holds after every history; hence on
such a block `unscale` is the uniform positive scaling of `C01.unscale_uniform`, and C01's
cone-membership transfer (`C01.cone_membership_nonneg / _soc / _exp / _pow`) applies to the
updated solver unchanged. -/
theorem frame_keeps_cone_uniformity {α : Type} [Field α] [FloatLike α] (st : State α)
    (ops : List (Op α)) (n m lo len : ℕ) (e₀ : α)
    (hu : ∀ k, k < len → st.e.getD (lo + k) 0 = e₀) :
    let st' := (run st ops).1
    let sc : Scaling α n m := st'.scaling n m
    (∀ k, k < len → st'.e.getD (lo + k) 0 = e₀) ∧ sc = st.scaling n m ∧
    ∀ (sh zh : Fin m → α) (τ : α) (i : Fin m), lo ≤ i.val → i.val < lo + len →
      unS sc τ sh i = sh i * (1 / e₀ * (1 / τ)) ∧
      unZ sc τ zh i = zh i * (e₀ * (1 / τ * (1 / sc.c))) := by
  intro st' sc
  have f : SameFrame st st' := run_frame st ops
  have hu' : ∀ k, k < len → st'.e.getD (lo + k) 0 = e₀ := by
    intro k hk; rw [f.e]; exact hu k hk
  refine ⟨hu', run_scaling_eq st ops n m, ?_⟩
  intro sh zh τ i h1 h2
  have hi : sc.e i = e₀ := by
    have := hu' (i.val - lo) (by omega)
    rw [show lo + (i.val - lo) = i.val by omega] at this
    exact this
  unfold unS unZ
  rw [hi]
  constructor <;> ring

end certified

/-! ### D. the fresh side: a freshly constructed solver's data have the same form -/

section fresh
variable {α : Type}

/-- elements before the end of `takeWhile p` satisfy `p` -/
theorem fe_takeWhile_prefix (p : Nat → Bool) (L : List Nat) (i : Nat)
    (hi : i < (L.takeWhile p).length) : p (L.getD i 0) = true := by
  induction L generalizing i with
  | nil => simp at hi
  | cons a r ih =>
    rw [List.takeWhile_cons] at hi
    by_cases hp : p a = true
    · rw [if_pos hp] at hi
      cases i with
      | zero => simpa using hp
      | succ i =>
        have : i < (r.takeWhile p).length := by simpa using hi
        simpa using ih i this
    · rw [if_neg hp] at hi
      simp at hi

/-- the element right after `takeWhile p` fails `p` -/
theorem fe_takeWhile_stop (p : Nat → Bool) (L : List Nat)
    (h : (L.takeWhile p).length < L.length) : p (L.getD (L.takeWhile p).length 0) = false := by
  induction L with
  | nil => simp at h
  | cons a r ih =>
    rw [List.takeWhile_cons] at h ⊢
    by_cases hp : p a = true
    · rw [if_pos hp] at h ⊢
      have : (r.takeWhile p).length < r.length := by simpa using h
      simpa using ih this
    · rw [if_neg hp]
      simpa using hp

/-- canonical column pointer (what `Csc.wellFormed` / `check_format` guarantee) -/
structure CanonColptr (M : Csc α) : Prop where
  size : M.colptr.size = M.n + 1
  zero : M.colptr.getD 0 0 = 0
  mono : ∀ k, k < M.n → M.colptr.getD k 0 ≤ M.colptr.getD (k + 1) 0
  last : M.colptr.getD M.n 0 = M.nzval.size

theorem fe_array_getD_toList (a : Array Nat) (k : Nat) : a.toList.getD k 0 = a.getD k 0 := by
  rw [Array.getD_eq_getD_getElem?, List.getD_eq_getElem?_getD, Array.getElem?_toList]

/-- `index_to_coord`'s column (`Update.colOf`, a `partition_point` on `colptr`) of a stored
entry `t` is the column whose window `[colptr[j], colptr[j+1])` contains `t` -/
theorem colOf_window (M : Csc α) (h : CanonColptr M) (t : Nat) (ht : t < M.nzval.size) :
    colOf M.colptr t < M.n ∧ M.colptr.getD (colOf M.colptr t) 0 ≤ t ∧
      t < M.colptr.getD (colOf M.colptr t + 1) 0 := by
  unfold colOf
  generalize hℓ : (M.colptr.toList.takeWhile (fun c => decide (c ≤ t))).length = ℓ
  have hlen : M.colptr.toList.length = M.n + 1 := by simp [h.size]
  have hA := fe_takeWhile_prefix (fun c => decide (c ≤ t)) M.colptr.toList
  have hB := fe_takeWhile_stop (fun c => decide (c ≤ t)) M.colptr.toList
  rw [hℓ] at hA hB
  simp only [fe_array_getD_toList, decide_eq_true_eq, decide_eq_false_iff_not, not_le] at hA hB
  have h1 : 1 ≤ ℓ := by
    by_contra hc
    have h0 : ℓ = 0 := by omega
    have := hB (by omega)
    rw [h0, h.zero] at this
    omega
  have h2 : ℓ ≤ M.n := by
    by_contra hc
    have := hA M.n (by omega)
    rw [h.last] at this
    omega
  refine ⟨by omega, hA (ℓ - 1) (by omega), ?_⟩
  have := hB (by omega)
  rw [show ℓ - 1 + 1 = ℓ by omega]
  exact this

/-- prefix sums of the per-column counts `f` -/
def feCnt (f : ℕ → ℕ) (n : ℕ) : ℕ := ((List.range n).map f).sum

theorem feCnt_succ (f : ℕ → ℕ) (n : ℕ) : feCnt f (n + 1) = feCnt f n + f n := by
  simp [feCnt, List.range_succ]

theorem feCnt_mono (f : ℕ → ℕ) {a b : ℕ} (h : a ≤ b) : feCnt f a ≤ feCnt f b := by
  induction h with
  | refl => exact le_refl _
  | step _ ih => rw [feCnt_succ]; omega

theorem fe_length_flatMap_replicate (f : ℕ → ℕ) (n : ℕ) :
    ((List.range n).flatMap (fun j => List.replicate (f j) j)).length = feCnt f n := by
  induction n with
  | zero => simp [feCnt]
  | succ n ih =>
    rw [List.range_succ, List.flatMap_append, List.length_append, ih, feCnt_succ]
    simp

theorem fe_getElem?_flatMap_replicate (f : ℕ → ℕ) (n j t : ℕ) (hj : j < n)
    (h1 : feCnt f j ≤ t) (h2 : t < feCnt f (j + 1)) :
    ((List.range n).flatMap (fun j => List.replicate (f j) j))[t]? = some j := by
  induction n with
  | zero => omega
  | succ n ih =>
    rw [List.range_succ, List.flatMap_append]
    by_cases hjn : j < n
    · have : feCnt f (j + 1) ≤ feCnt f n := feCnt_mono f (by omega)
      rw [List.getElem?_append_left (by rw [fe_length_flatMap_replicate]; omega)]
      exact ih hjn
    · have hjn' : j = n := by omega
      subst hjn'
      rw [List.getElem?_append_right (by rw [fe_length_flatMap_replicate]; exact h1),
        fe_length_flatMap_replicate]
      rw [feCnt_succ] at h2
      have h3 : t - feCnt f j < f j := by omega
      simp [h3]

theorem feCnt_colptr (M : Csc α) (h : CanonColptr M) (j : ℕ) (hj : j ≤ M.n) :
    feCnt (fun k => M.colptr.getD (k + 1) 0 - M.colptr.getD k 0) j = M.colptr.getD j 0 := by
  induction j with
  | zero => simp [feCnt, h.zero]
  | succ j ih =>
    rw [feCnt_succ, ih (by omega)]
    have := h.mono j (by omega)
    omega

/-- [S] **the two column readings agree** on a canonical matrix: the entry view of the
equilibration model (`Csc.colIdx`, C10) and `index_to_coord` of data updating (`Update.colOf`) -/
theorem colIdx_eq_colOf (M : Csc α) (h : CanonColptr M) (t : Nat) (ht : t < M.nzval.size) :
    M.colIdx.getD t 0 = colOf M.colptr t := by
  obtain ⟨hj, h1, h2⟩ := colOf_window M h t ht
  unfold Csc.colIdx
  rw [Array.getD_eq_getD_getElem?, List.getElem?_toArray,
    fe_getElem?_flatMap_replicate _ M.n (colOf M.colptr t) t hj
      (by rw [feCnt_colptr M h _ (by omega)]; exact h1)
      (by rw [feCnt_colptr M h _ (by omega)]; exact h2)]
  rfl

/-- the data of a constructed solver (`ProblemData` after `equilibrate`) placed in a solver
state; `scaledValues` / `abs` read nothing else of the state -/
def State.withData (rest : State α) (dt : ProblemData α) : State α :=
  { rest with
    P := dt.P, q := dt.q, A := dt.A, b := dt.b,
    d := dt.equilibration.d, dinv := dt.equilibration.dinv,
    e := dt.equilibration.e, einv := dt.equilibration.einv, c := dt.equilibration.c }

theorem fe_getD_one_zero [OfNat α 0] [OfNat α 1] (a : Array α) (k : Nat) (hk : k < a.size) :
    a.getD k 1 = a.getD k 0 := by
  simp [Array.getD, hk]

/-- [F] **the fresh side.**  Whenever the equilibration invariant of C10 (`Equil.Inv`, the
conclusion of `C10.scaled_data`) holds between the user's data `dt` and the constructed data
`dt'` — in-range indices and canonical column pointers given — the value arrays of `dt'` are
`scaledValues` of the user's value arrays with `dt'`'s OWN `(d, e, c)`: a freshly constructed
solver's data have exactly the form `run_equiv_rebuilt` establishes for the updated solver
(`scaledValues` of the final user data), only with different positive diagonal scalings. -/
theorem fresh_data_eq_scaledValues [Field α] (dt dt' : ProblemData α) (hinv : Equil.Inv dt dt')
    (hs : Equil.Shapes dt) (hP : CanonColptr dt.P) (hA : CanonColptr dt.A) (rest : State α) :
    (rest.withData dt').scaledValues ⟨dt.P.nzval, dt.q, dt.A.nzval, dt.b⟩
      = ⟨dt'.P.nzval, dt'.q, dt'.A.nzval, dt'.b⟩ := by
  unfold State.scaledValues State.withData
  simp only [UserData.mk.injEq]
  refine ⟨?_, ?_, ?_, ?_⟩
  · apply Array.ext (by rw [Array.size_mapIdx, hinv.shP.size])
    intro t h1 h2
    have ht : t < dt.P.nzval.size := by simpa using h1
    have hv := hinv.valP t ht
    rw [getD_of_lt' _ _ h2, getD_of_lt' _ _ ht, colIdx_eq_colOf dt.P hP t ht,
      fe_getD_one_zero _ _ (by rw [hinv.szd]; exact hs.Prow t ht),
      fe_getD_one_zero _ _ (by
        rw [hinv.szd, ← colIdx_eq_colOf dt.P hP t ht]; exact hs.Pcol t ht)] at hv
    rw [Array.getElem_mapIdx, hv]
    simp only [scaleFull, rowOf, hinv.shP.rowval, hinv.shP.colptr]
    ring
  · apply Array.ext (by rw [Array.size_mapIdx, hinv.szq])
    intro j h1 h2
    have hj : j < dt.q.size := by simpa using h1
    have hv := hinv.valq j hj
    rw [getD_of_lt' _ _ h2, getD_of_lt' _ _ hj,
      fe_getD_one_zero _ _ (by rw [hinv.szd, ← hs.qsize]; exact hj)] at hv
    rw [Array.getElem_mapIdx, hv]
    simp only [vscaleFull]
    ring
  · apply Array.ext (by rw [Array.size_mapIdx, hinv.shA.size])
    intro t h1 h2
    have ht : t < dt.A.nzval.size := by simpa using h1
    have hv := hinv.valA t ht
    rw [getD_of_lt' _ _ h2, getD_of_lt' _ _ ht, colIdx_eq_colOf dt.A hA t ht,
      fe_getD_one_zero _ _ (by rw [hinv.sze]; exact hs.Arow t ht),
      fe_getD_one_zero _ _ (by
        rw [hinv.szd, ← colIdx_eq_colOf dt.A hA t ht]; exact hs.Acol t ht)] at hv
    rw [Array.getElem_mapIdx, hv]
    simp only [scaleFull, rowOf, hinv.shA.rowval, hinv.shA.colptr]
    ring
  · apply Array.ext (by rw [Array.size_mapIdx, hinv.szb])
    intro i h1 h2
    have hi : i < dt.b.size := by simpa using h1
    have hv := hinv.valb i hi
    rw [getD_of_lt' _ _ h2, getD_of_lt' _ _ hi,
      fe_getD_one_zero _ _ (by rw [hinv.sze, ← hs.bsize]; exact hi)] at hv
    rw [Array.getElem_mapIdx, hv]
    simp only [vscaleFull]
    ring

theorem fe_anyAdjacent_mono (L : List Nat)
    (h : Csc.anyAdjacent (fun a b => decide (a > b)) L = false) (k : Nat)
    (hk : k + 1 < L.length) : L.getD k 0 ≤ L.getD (k + 1) 0 := by
  induction L generalizing k with
  | nil => simp at hk
  | cons a r ih =>
    cases r with
    | nil => simp at hk
    | cons b r' =>
      simp only [Csc.anyAdjacent, Bool.or_eq_false_iff, decide_eq_false_iff_not, not_lt,
        gt_iff_lt] at h
      cases k with
      | zero => simpa using h.1
      | succ k =>
        have := ih h.2 k (by simpa using hk)
        simpa using this

/-- the executable guard of `equilibrate` gives the canonical column pointer -/
theorem canonColptr_of_wellFormed (M : Csc α) (h : M.wellFormed = true) : CanonColptr M := by
  simp only [Csc.wellFormed, Bool.and_eq_true, beq_iff_eq, Bool.not_eq_true'] at h
  obtain ⟨⟨⟨⟨⟨⟨⟨hsz, h0⟩, hmono⟩, hlast⟩, _⟩, _⟩, _⟩, _⟩ := h
  refine ⟨hsz, h0, ?_, hlast⟩
  intro k hk
  have := fe_anyAdjacent_mono M.colptr.toList hmono k (by simp [hsz]; omega)
  rwa [fe_array_getD_toList, fe_array_getD_toList] at this

/-- [F] **the fresh side, through `equilibrate`.**  For user data `dt` with fresh (identity)
equilibration data, whatever `ProblemData::equilibrate` (enabled) returns has value arrays
that are `scaledValues` of the user's value arrays with the `(d, e, c)` it returns
(`C10.scaled_data` + the executable guard `shapesOk`): the freshly constructed solver's data
and the updated solver's data (`run_equiv_rebuilt`) have the same form. -/
theorem fresh_solver_data_eq_scaledValues [Field α] [LinearOrder α] [IsStrictOrderedRing α]
    [FloatLike α] (dt dt' : ProblemData α) (cones : List (ConeT α)) (s : Equil.Settings α)
    (hen : s.enable = true) (hfresh : dt.equilibration = EquilData.new dt.n dt.m)
    (h : Equil.equilibrate dt cones s = .ok dt') (rest : State α) :
    (rest.withData dt').scaledValues ⟨dt.P.nzval, dt.q, dt.A.nzval, dt.b⟩
      = ⟨dt'.P.nzval, dt'.q, dt'.A.nzval, dt'.b⟩ := by
  have hinv := C10.scaled_data dt dt' cones s hfresh h
  have hok : Equil.shapesOk dt = true := by
    unfold Equil.equilibrate at h
    rw [if_neg (by simp [hen])] at h
    split at h
    · cases h
    · rename_i hok; simpa using hok
  have hs := Equil.shapes_of_shapesOk dt hok
  have hw : dt.P.wellFormed = true ∧ dt.A.wellFormed = true := by
    simp only [Equil.shapesOk, Bool.and_eq_true] at hok
    exact ⟨hok.1.1.1.1.1.1.1.1.1.1.1, hok.1.1.1.1.1.1.1.1.1.1.2⟩
  exact fresh_data_eq_scaledValues dt dt' hinv hs (canonColptr_of_wellFormed _ hw.1)
    (canonColptr_of_wellFormed _ hw.2) rest

end fresh

/-! ### E. non-vacuity -/

section examples
open Clarabel.Dense Clarabel.Info

/-- a 1-variable, 1-constraint live solver state with internal data `P̂ = [p]`, `q̂ = [q]`,
`Â = [a]`, `b̂ = [b]`, KKT upper triangle `[p, a, 0]` and the LDL copy stored in reverse order
(`AtoPAPt = [2,1,0]`) -/
def feMk {α : Type} [OfNat α 0] (p q a b d dinv e einv c : α) : State α :=
  { P := ⟨1, 1, #[0, 1], #[0], #[p]⟩, q := #[q], A := ⟨1, 1, #[0, 1], #[0], #[a]⟩, b := #[b],
    d := #[d], dinv := #[dinv], e := #[e], einv := #[einv], c := c,
    normq := none, normb := none, presolved := false, decomposed := false,
    kkt := #[p, a, 0], mapP := #[0], mapA := #[1], diagFull := #[0, 2],
    ldl := #[0, a, p], atoPAPt := #[2, 1, 0], ldlDiagShifted := false }

theorem feMk_mapsOK {α : Type} [OfNat α 0] (p q a b d dinv e einv c : α) :
    (feMk p q a b d dinv e einv c).MapsOK := by
  refine ⟨rfl, rfl, (by decide : ([0] ++ [1] : List Nat).Nodup),
    (by decide : ∀ i ∈ ([0] ++ [1] : List Nat), i < 3), rfl,
    (by decide : ∀ i ∈ ([2, 1, 0] : List Nat), i < 3), ?_⟩
  intro i j hi hj h
  have hi' : i < 3 := hi
  have hj' : j < 3 := hj
  have h' : (#[2, 1, 0] : Array Nat).getD i 0 = (#[2, 1, 0] : Array Nat).getD j 0 := h
  clear h hi hj
  obtain rfl | rfl | rfl : i = 0 ∨ i = 1 ∨ i = 2 := by omega
  all_goals obtain rfl | rfl | rfl : j = 0 ∨ j = 1 ∨ j = 2 := by omega
  all_goals first | rfl | (exfalso; revert h'; decide)

theorem feMk_sync {α : Type} [OfNat α 0] (p q a b d dinv e einv c : α) :
    (feMk p q a b d dinv e einv c).KktSync := by
  refine ⟨?_, ?_, ?_, ?_⟩ <;> intro k hk <;>
    (have : k = 0 := by (have : k < 1 := hk); omega) <;> subst this
  · rfl
  · rfl
  · intro _; rfl
  · rfl

theorem feMk_scaleOK {α : Type} [Field α] (p q a b d dinv e einv c : α)
    (hd : d ≠ 0) (he : e ≠ 0) (hc : c ≠ 0) : (feMk p q a b d dinv e einv c).ScaleOK := by
  refine ⟨hc, ?_, ?_, ?_, ?_⟩ <;> intro k hk <;>
    (have hk0 : k = 0 := by (have : k < 1 := hk); omega) <;> subst hk0
  · exact ⟨hd, hd⟩
  · exact ⟨he, hd⟩
  · exact hd
  · exact he

/-- exact `FloatLike` extras on `ℚ` (local: nothing leaks) -/
local instance feFloatLikeRat : FloatLike ℚ :=
  ⟨id, id, id, fun a _ => a, max, min, abs, fun _ => false, fun _ => true, 1 / 2, fun n => n⟩

local instance feLawfulRat : LawfulFloatLike ℚ where
  fmax_eq _ _ := rfl
  fmin_eq _ _ := rfl
  fabs_eq _ := rfl
  isNaN_eq _ := rfl
  isFinite_eq _ := rfl
  ofNat_eq _ := rfl
  eps_pos := by show (0 : ℚ) < 1 / 2; norm_num
  eps_lt_one := by show (1 / 2 : ℚ) < 1; norm_num

/-- the equilibrated state of `UpdateAbs.exStateQ`: user data `P = q = A = b = 1` with
`d = 2`, `e = 3`, `c = 2` -/
def feStateQ : State ℚ := feMk 8 4 6 3 2 (1/2) 3 (1/3) 2

/-- a history with a partial (accepted) update, whole updates, a solve with static
regularisation and an `update_data` -/
def feOpsQ : List (Op ℚ) :=
  [.updateQ (.pairs #[0] #[7]), .updateP (.slice #[5]), .solve true,
   .updateData .empty0 (.slice #[2]) (.slice #[9]) .empty0]

theorem feOpsQ_accepted : AcceptedRun feStateQ feOpsQ := by
  refine ⟨Or.inl ?_, ?_⟩
  · rfl
  · apply acceptedRun_of_whole
    intro op hop
    simp only [List.mem_cons, List.not_mem_nil, or_false] at hop
    rcases hop with rfl | rfl | rfl <;> rfl

/-- the hypotheses of `run_equiv_rebuilt` and `EquivRebuilt.norms_final_user` are satisfiable
(ℚ, `d = 2`, `e = 3`, `c = 2`, a history containing a partial update and a solve) and the
conclusion says what it should: the final user data are `P = 5, q = 2, A = 9, b = 1`, the
internal data their scaled values `40 = 5·(2·2)·2`, `8 = 2·2·2`, `54 = 9·(3·2)`, `3`. -/
example : EquivRebuilt feStateQ (run feStateQ feOpsQ).1 ∧
    getNormq (run feStateQ feOpsQ).1 = Vec.normInf (run feStateQ feOpsQ).1.abs.q ∧
    (run feStateQ feOpsQ).1.P.nzval = #[40] ∧ (run feStateQ feOpsQ).1.q = #[8] ∧
    (run feStateQ feOpsQ).1.A.nzval = #[54] ∧ (run feStateQ feOpsQ).1.b = #[3] := by
  have hE := run_equiv_rebuilt feStateQ (feMk_scaleOK _ _ _ _ _ _ _ _ _ (by norm_num) (by norm_num)
    (by norm_num)) (feMk_mapsOK ..) (feMk_sync ..) ⟨Or.inl rfl, Or.inl rfl⟩ feOpsQ feOpsQ_accepted
  have hN := hE.norms_final_user rfl rfl
    (by intro i hi; have : i = 0 := by (have : i < 1 := hi); omega
        subst this; show (1/2 : ℚ) = 1 / 2; rfl)
    (by intro i hi; have : i = 0 := by (have : i < 1 := hi); omega
        subst this; show (1/3 : ℚ) = 1 / 3; rfl)
    (by show (0:ℚ) < 2; norm_num)
  refine ⟨hE, hN.1, ?_, ?_, ?_, ?_⟩ <;>
    simp [run, step, feOpsQ, feStateQ, feMk, updateQ, updateP, updateData, updateA, updateB,
      fillNorms, checkDataUpdateAllowed, updateMatrix, updateMatrixSlice, updateVector, applyPairs,
      scaleFull, vscaleFull, rowOf, colOf] <;> norm_num

/-- user data `P = q = A = b = 1` (1×1) before equilibration -/
def feDataUser : ProblemData ℚ :=
  { (default : ProblemData ℚ) with
    P := ⟨1, 1, #[0, 1], #[0], #[1]⟩, q := #[1], A := ⟨1, 1, #[0, 1], #[0], #[1]⟩, b := #[1],
    n := 1, m := 1, equilibration := EquilData.new 1 1 }

/-- the same data equilibrated with `d = 2`, `e = 3`, `c = 2` (the data of `feStateQ`) -/
def feDataEquil : ProblemData ℚ :=
  { feDataUser with
    P := ⟨1, 1, #[0, 1], #[0], #[8]⟩, q := #[4], A := ⟨1, 1, #[0, 1], #[0], #[6]⟩, b := #[3],
    equilibration := { d := #[2], dinv := #[1/2], e := #[3], einv := #[1/3], c := 2 } }

/-- the hypotheses of `fresh_data_eq_scaledValues` (`Equil.Inv`, `Equil.Shapes`, canonical
column pointers) are satisfiable with non-trivial scalings, and the state it speaks about is
the live state `feStateQ` of the examples above -/
example : Equil.Inv feDataUser feDataEquil ∧ Equil.Shapes feDataUser ∧
    CanonColptr feDataUser.P ∧ CanonColptr feDataUser.A ∧
    (feStateQ.withData feDataEquil) = feStateQ ∧
    feStateQ.scaledValues ⟨#[1], #[1], #[1], #[1]⟩ = ⟨#[8], #[4], #[6], #[3]⟩ := by
  have hc : CanonColptr (⟨1, 1, #[0, 1], #[0], #[1]⟩ : Csc ℚ) := by
    refine ⟨rfl, rfl, ?_, rfl⟩
    intro k hk
    have : k = 0 := by (have : k < 1 := hk); omega
    subst this; decide
  have hI : Equil.Inv feDataUser feDataEquil := by
    refine ⟨⟨rfl, rfl, rfl, rfl, rfl⟩, ⟨rfl, rfl, rfl, rfl, rfl⟩, rfl, rfl, rfl, rfl, ?_, ?_, ?_, ?_⟩ <;>
      intro t ht <;> (have ht0 : t = 0 := by (have : t < 1 := ht); omega) <;> subst ht0 <;>
      norm_num [feDataUser, feDataEquil, Csc.colIdx]
  have hS : Equil.Shapes feDataUser := by
    refine ⟨?_, ?_, ?_, ?_, rfl, rfl⟩ <;>
      intro t ht <;> (have ht0 : t = 0 := by (have : t < 1 := ht); omega) <;> subst ht0 <;>
      decide
  refine ⟨hI, hS, hc, hc, rfl, ?_⟩
  exact fresh_data_eq_scaledValues feDataUser feDataEquil hI hS hc hc feStateQ

/-- for any assigned residual / cost values there are an `info` record carrying them and
tolerances under which `check_convergence_full` turns `Unsolved` into `Solved` -/
theorem fe_info_exists (rp rd cp cd : ℝ) : ∃ (i : InfoS ℝ) (s : Settings ℝ),
    i.res_primal = rp ∧ i.res_dual = rd ∧ i.cost_primal = cp ∧ i.cost_dual = cd ∧
    i.gap_abs = |i.cost_primal - i.cost_dual| ∧
    i.gap_rel = i.gap_abs / max 1 (min |i.cost_primal| |i.cost_dual|) ∧
    i.status ≠ .solved ∧ (checkConvergenceFull i 0 0 s).status = .solved := by
  let i : InfoS ℝ :=
    { cost_primal := cp, cost_dual := cd, res_primal := rp, res_dual := rd, res_primal_inf := 1,
      res_dual_inf := 1, gap_abs := |cp - cd|, gap_rel := |cp - cd| / max 1 (min |cp| |cd|),
      ktratio := 0, prev_cost_primal := 0, prev_cost_dual := 0, prev_res_primal := 0,
      prev_res_dual := 0, prev_gap_abs := 0, prev_gap_rel := 0, iterations := 1,
      status := .unsolved }
  let t : Tols ℝ :=
    { gap_abs := |cp - cd| + 1, gap_rel := 1, feas := max rp rd + 1, infeas_abs := 1,
      infeas_rel := 1, ktratio := 1 }
  have h1 : i.gap_abs < t.gap_abs := by show |cp - cd| < |cp - cd| + 1; linarith
  have h2 : i.res_primal < t.feas := by
    show rp < max rp rd + 1
    have := le_max_left rp rd; linarith
  have h3 : i.res_dual < t.feas := by
    show rd < max rp rd + 1
    have := le_max_right rp rd; linarith
  have hk : i.ktratio ≤ 1 := by show (0:ℝ) ≤ 1; norm_num
  refine ⟨i, ⟨t, t, 5⟩, rfl, rfl, rfl, rfl, rfl, rfl, ?_, ?_⟩
  · show SolverStatus.unsolved ≠ .solved
    decide
  · show (checkConvergence i 0 0 t .solved .primalInfeasible .dualInfeasible).status = .solved
    unfold checkConvergence isSolved
    simp [h1, h2, h3, hk]

/-- the same equilibrated state over `ℝ` -/
noncomputable def feStateR : State ℝ := feMk 8 4 6 3 2 (1/2) 3 (1/3) 2

/-- the same history over `ℝ` -/
noncomputable def feOpsR : List (Op ℝ) :=
  [.updateQ (.pairs #[0] #[7]), .updateP (.slice #[5]), .solve true,
   .updateData .empty0 (.slice #[2]) (.slice #[9]) .empty0]

theorem feOpsR_accepted : AcceptedRun feStateR feOpsR := by
  refine ⟨Or.inl ?_, ?_⟩
  · rfl
  · apply acceptedRun_of_whole
    intro op hop
    simp only [List.mem_cons, List.not_mem_nil, or_false] at hop
    rcases hop with rfl | rfl | rfl <;> rfl

/-- all hypotheses of `solved_certifies_final_data` / `…_cached` (and of
`frame_keeps_cone_uniformity`) are jointly satisfiable: the live state `feStateR`, the history
`feOpsR`, the zero internal iterate with `τ = 1`, and an `info` record carrying the assigned
values that `check_convergence_full` declares `Solved`; the conclusion then is a concrete
inequality about the FINAL user problem. -/
example : ∃ (i : InfoS ℝ) (s : Settings ℝ),
    let st' := (run feStateR feOpsR).1
    let p : Problem ℝ 1 1 := st'.denseUser 1 1
    let sc : Scaling ℝ 1 1 := feStateR.scaling 1 1
    i.status ≠ .solved ∧ (checkConvergenceFull i 0 0 s).status = .solved ∧
    nrm (fun k => mulV p.A (unX sc 1 0) k + unS sc 1 0 k - p.b k)
      / max 1 (Vec.normInf st'.abs.b + nrm (unX sc 1 0) + nrm (unS sc 1 0)) < s.full.feas := by
  have hsc : feStateR.ScaleOK :=
    feMk_scaleOK _ _ _ _ _ _ _ _ _ (by norm_num) (by norm_num) (by norm_num)
  have hpos : ∀ (x : ℝ), 0 < x → ∀ i, i < 1 → 0 < (#[x] : Array ℝ).getD i 0 := by
    intro x hx i hi
    have : i = 0 := by omega
    subst this; exact hx
  have hinv : ∀ (x y : ℝ), x = 1 / y → ∀ i, i < 1 →
      (#[x] : Array ℝ).getD i 0 = 1 / (#[y] : Array ℝ).getD i 0 := by
    intro x y hxy i hi
    have : i = 0 := by omega
    subst this; exact hxy
  have key := solved_certifies_final_data_cached (n := 1) (m := 1) feStateR hsc (feMk_mapsOK ..)
    (feMk_sync ..) ⟨Or.inl rfl, Or.inl rfl⟩ feOpsR feOpsR_accepted rfl rfl
    (hpos 2 (by norm_num)) (hpos 3 (by norm_num)) (by show (0:ℝ) < 2; norm_num) rfl rfl
    (hinv (1/2) 2 rfl) (hinv (1/3) 3 rfl)
  obtain ⟨i, s, h1, h2, h3, h4, h5, h6, h7, h8⟩ := fe_info_exists
    (intResPrimal ((run feStateR feOpsR).1.denseInternal 1 1) (feStateR.scaling 1 1) 0 0 1
      (getNormb (run feStateR feOpsR).1))
    (intResDual ((run feStateR feOpsR).1.denseInternal 1 1) (feStateR.scaling 1 1) 0 0 1
      (getNormq (run feStateR feOpsR).1))
    (intCostPrimal ((run feStateR feOpsR).1.denseInternal 1 1) (feStateR.scaling 1 1) 0 1)
    (intCostDual ((run feStateR feOpsR).1.denseInternal 1 1) (feStateR.scaling 1 1) 0 0 1)
  have := key.2.2 0 0 0 1 one_pos i 0 0 s h1 h2 h3 h4 h5 h6 h7 h8
  exact ⟨i, s, h7, h8, this.1⟩

/-- `frame_keeps_cone_uniformity` instantiates: `e = 3` on the (one-row) block `[0, 1)` -/
example : ∀ k, k < 1 → (run feStateR feOpsR).1.e.getD (0 + k) 0 = 3 :=
  (frame_keeps_cone_uniformity feStateR feOpsR 1 1 0 1 3 (by
    intro k hk
    have : k = 0 := by omega
    subst this; rfl)).1

end examples

end Clarabel.Update
