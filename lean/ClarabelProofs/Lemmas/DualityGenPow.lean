/-
  C05 (weak duality): pairing nonnegativity for the (closed) generalised power cone
  `K = {(u,w) : ∏ uᵢ^{aᵢ} ≥ ‖w‖₂, u ≥ 0}` (`Σ aᵢ = 1`, `aᵢ > 0`) of
  `src/solver/core/cones/genpowcone.rs` and its dual
  `K* = {(v,y) : ∏ (vᵢ/aᵢ)^{aᵢ} ≥ ‖y‖₂, v ≥ 0}`, in every dimension — weighted AM–GM over a
  `Finset` for the `u·v` part, Cauchy–Schwarz (`soc_pair_nonneg`) for the `w·y` part.

  Membership is stated **without square roots**: `Σ wⱼ² ≤ (∏ uᵢ^{aᵢ})²` (the product is
  nonnegative because `u ≥ 0`), which is equivalent to `‖w‖₂ ≤ ∏ uᵢ^{aᵢ}`; the Euclidean-norm
  form is `genpow_pair_nonneg_sqrt`.
-/
import ClarabelProofs.Lemmas.Duality
import Mathlib.Analysis.MeanInequalities

namespace Clarabel.Lemmas
open Finset

/-- `∏ uᵢ^{aᵢ} · ∏ (vᵢ/aᵢ)^{aᵢ} ≤ Σ uᵢvᵢ` (weighted AM–GM) -/
theorem genpow_geo_le_pair {ι : Type} (I : Finset ι) (a u v : ι → ℝ) (ha : ∀ i ∈ I, 0 < a i)
    (hsum : ∑ i ∈ I, a i = 1) (hu : ∀ i ∈ I, 0 ≤ u i) (hv : ∀ i ∈ I, 0 ≤ v i) :
    (∏ i ∈ I, u i ^ a i) * (∏ i ∈ I, (v i / a i) ^ a i) ≤ ∑ i ∈ I, u i * v i := by
  have hva : ∀ i ∈ I, 0 ≤ v i / a i := fun i hi => div_nonneg (hv i hi) (ha i hi).le
  have hP : (∏ i ∈ I, u i ^ a i) * (∏ i ∈ I, (v i / a i) ^ a i)
      = ∏ i ∈ I, (u i * (v i / a i)) ^ a i := by
    rw [← Finset.prod_mul_distrib]
    exact Finset.prod_congr rfl fun i hi => (Real.mul_rpow (hu i hi) (hva i hi)).symm
  have amgm := Real.geom_mean_le_arith_mean_weighted I a (fun i => u i * (v i / a i))
    (fun i hi => (ha i hi).le) hsum (fun i hi => mul_nonneg (hu i hi) (hva i hi))
  have hlin : ∑ i ∈ I, a i * (u i * (v i / a i)) = ∑ i ∈ I, u i * v i := by
    apply Finset.sum_congr rfl
    intro i hi
    have hne : a i ≠ 0 := (ha i hi).ne'
    field_simp
  rw [hP]
  linarith

/-- [R] generalised power cone, all dimensions, squared-norm form:
`u,v ≥ 0`, `Σ wⱼ² ≤ (∏ uᵢ^{aᵢ})²`, `Σ yⱼ² ≤ (∏ (vᵢ/aᵢ)^{aᵢ})²` ⟹ `u·v + w·y ≥ 0` -/
theorem genpow_pair_nonneg {ι κ : Type} (I : Finset ι) (J : Finset κ) (a u v : ι → ℝ)
    (w y : κ → ℝ) (ha : ∀ i ∈ I, 0 < a i) (hsum : ∑ i ∈ I, a i = 1) (hu : ∀ i ∈ I, 0 ≤ u i)
    (hv : ∀ i ∈ I, 0 ≤ v i) (hw : ∑ j ∈ J, w j ^ 2 ≤ (∏ i ∈ I, u i ^ a i) ^ 2)
    (hy : ∑ j ∈ J, y j ^ 2 ≤ (∏ i ∈ I, (v i / a i) ^ a i) ^ 2) :
    0 ≤ ∑ i ∈ I, u i * v i + ∑ j ∈ J, w j * y j := by
  have hP0 : 0 ≤ ∏ i ∈ I, u i ^ a i :=
    Finset.prod_nonneg fun i hi => Real.rpow_nonneg (hu i hi) _
  have hQ0 : 0 ≤ ∏ i ∈ I, (v i / a i) ^ a i :=
    Finset.prod_nonneg fun i hi => Real.rpow_nonneg (div_nonneg (hv i hi) (ha i hi).le) _
  have hsoc := soc_pair_nonneg J w y _ _ hP0 hQ0 hw hy
  have hgeo := genpow_geo_le_pair I a u v ha hsum hu hv
  linarith

/-- [R] the same with the Euclidean norm `‖w‖₂ = √(Σ wⱼ²)` as the cone is usually written -/
theorem genpow_pair_nonneg_sqrt {ι κ : Type} (I : Finset ι) (J : Finset κ) (a u v : ι → ℝ)
    (w y : κ → ℝ) (ha : ∀ i ∈ I, 0 < a i) (hsum : ∑ i ∈ I, a i = 1) (hu : ∀ i ∈ I, 0 ≤ u i)
    (hv : ∀ i ∈ I, 0 ≤ v i) (hw : Real.sqrt (∑ j ∈ J, w j ^ 2) ≤ ∏ i ∈ I, u i ^ a i)
    (hy : Real.sqrt (∑ j ∈ J, y j ^ 2) ≤ ∏ i ∈ I, (v i / a i) ^ a i) :
    0 ≤ ∑ i ∈ I, u i * v i + ∑ j ∈ J, w j * y j :=
  genpow_pair_nonneg I J a u v w y ha hsum hu hv (Real.sqrt_le_iff.mp hw).2
    (Real.sqrt_le_iff.mp hy).2

end Clarabel.Lemmas
