/-
  Exponential cone (C14): the third-order correction is half the directional derivative of the
  Hessian:  d/dt [ H(z + t u) v ]_{t=0} = 2 · higher_correction(z; u, v).
-/
import ClarabelProofs.Lemmas.NonsymExp

namespace Clarabel.Exp
open Clarabel Nonsym

theorem line_d (z u : ℝ) : HasDerivAt (fun t : ℝ => z + t * u) u 0 := by
  simpa using ((hasDerivAt_id (0 : ℝ)).mul_const u).const_add z

section
variable {z0 z1 z2 : ℝ} (u0 u1 u2 : ℝ)

theorem L_line (h0 : z0 < 0) (h2 : 0 < z2) :
    HasDerivAt (fun t => dualL (z0 + t * u0) (z2 + t * u2)) (u2 / z2 - u0 / z0) 0 := by
  have n0 : z0 ≠ 0 := ne_of_lt h0
  have n2 : z2 ≠ 0 := ne_of_gt h2
  have hf := ((line_d z2 u2).neg).div (line_d z0 u0) (by simpa using n0)
  have hpos : 0 < (-(z2 + 0 * u2)) / (z0 + 0 * u0) := by simpa using arg_pos h0 h2
  have h := hf.logsafe hpos
  unfold dualL
  refine h.congr_deriv ?_
  simp only [Pi.neg_apply, Pi.div_apply, zero_mul, add_zero]
  field_simp
  ring

theorem R_line (h0 : z0 < 0) (h2 : 0 < z2) :
    HasDerivAt (fun t => dualR (z0 + t * u0) (z1 + t * u1) (z2 + t * u2))
      (-(u0 * dualL z0 z2) - z0 * (u2 / z2 - u0 / z0) - u0 + u1) 0 := by
  have hL := L_line u0 u2 h0 h2
  have h := ((((line_d z0 u0).neg).mul hL).sub (line_d z0 u0)).add (line_d z1 u1)
  unfold dualR
  refine h.congr_deriv ?_
  simp only [Pi.neg_apply, zero_mul, add_zero]
  ring

end

/-- `log(-z₀/z₂) = -log(-z₂/z₀)`: the `η[0]` of `higher_correction` is `-L` -/
theorem eta0_eq {z0 z2 : ℝ} (h0 : z0 < 0) (h2 : 0 < z2) : logsafe ((-z0) / z2) = -(dualL z0 z2) := by
  unfold dualL
  have p1 : 0 < (-z0) / z2 := div_pos (neg_pos.mpr h0) h2
  rw [logsafe_of_pos p1, logsafe_of_pos (arg_pos h0 h2), ← Real.log_inv]
  congr 1
  have : z0 ≠ 0 := ne_of_lt h0
  have : z2 ≠ 0 := ne_of_gt h2
  field_simp

section
variable {z0 z1 z2 : ℝ} (u0 u1 u2 v0 v1 v2 : ℝ) (h : DualInt z0 z1 z2)
include h

/-- row 0 of `d/dt H(z+tu) v` -/
theorem third_row0 :
    HasDerivAt (fun t => ((hessDual (z0 + t * u0, z1 + t * u1, z2 + t * u2)).mul (v0, v1, v2)).1)
      (2 * (higherCorrectionOf (z0, z1, z2) (u0, u1, u2) (v0, v1, v2)).1) 0 := by
  obtain ⟨h0, h2, hr⟩ := h
  have n0 : z0 ≠ 0 := ne_of_lt h0
  have n2 : z2 ≠ 0 := ne_of_gt h2
  have nr : dualR z0 z1 z2 ≠ 0 := ne_of_gt hr
  have hZ0 := line_d z0 u0
  have hZ1 := line_d z1 u1
  have hZ2 := line_d z2 u2
  have hL := L_line u0 u2 h0 h2
  have hR := R_line (z1 := z1) u0 u1 u2 h0 h2
  have nR : dualR (z0 + 0 * u0) (z1 + 0 * u1) (z2 + 0 * u2) ≠ 0 := by simpa using nr
  have nZ0 : z0 + 0 * u0 ≠ 0 := by simpa using n0
  have nZ2 : z2 + 0 * u2 ≠ 0 := by simpa using n2
  have d00 := (((hR.mul hR).sub (hZ0.mul hR)).add (((hL.mul hL).mul hZ0).mul hZ0)).div
    (((hR.mul hZ0).mul hZ0).mul hR) (mul_ne_zero (mul_ne_zero (mul_ne_zero nR nZ0) nZ0) nR)
  have d01 := (hL.neg).div (hR.mul hR) (mul_ne_zero nR nR)
  have d02 := (hZ1.sub hZ0).div ((hR.mul hR).mul hZ2) (mul_ne_zero (mul_ne_zero nR nR) nZ2)
  have hd := ((d00.mul_const v0).add (d01.mul_const v1)).add (d02.mul_const v2)
  simp only [hessDual, Sym3.mul, h00, h01, h02]
  refine hd.congr_deriv ?_
  simp only [higherCorrectionOf, Sym3.dot3, recip, eta0_eq h0 h2, Pi.neg_apply, Pi.mul_apply, Pi.sub_apply,
    Pi.add_apply, zero_mul, add_zero]
  have hψ : z0 * -(dualL z0 z2) - z0 + z1 = dualR z0 z1 z2 := by unfold dualR; ring
  simp only [hψ]
  have hz1 : z1 = dualR z0 z1 z2 + z0 * dualL z0 z2 + z0 := by unfold dualR; ring
  generalize dualR z0 z1 z2 = r at *
  generalize dualL z0 z2 = L at *
  subst hz1
  have e5 : (0.5 : ℝ) = 1 / 2 := by norm_num
  rw [e5]
  field_simp
  ring

/-- row 1 of `d/dt H(z+tu) v` -/
theorem third_row1 :
    HasDerivAt (fun t => ((hessDual (z0 + t * u0, z1 + t * u1, z2 + t * u2)).mul (v0, v1, v2)).2.1)
      (2 * (higherCorrectionOf (z0, z1, z2) (u0, u1, u2) (v0, v1, v2)).2.1) 0 := by
  obtain ⟨h0, h2, hr⟩ := h
  have n0 : z0 ≠ 0 := ne_of_lt h0
  have n2 : z2 ≠ 0 := ne_of_gt h2
  have nr : dualR z0 z1 z2 ≠ 0 := ne_of_gt hr
  have hZ0 := line_d z0 u0
  have hZ1 := line_d z1 u1
  have hZ2 := line_d z2 u2
  have hL := L_line u0 u2 h0 h2
  have hR := R_line (z1 := z1) u0 u1 u2 h0 h2
  have nR : dualR (z0 + 0 * u0) (z1 + 0 * u1) (z2 + 0 * u2) ≠ 0 := by simpa using nr
  have nZ0 : z0 + 0 * u0 ≠ 0 := by simpa using n0
  have nZ2 : z2 + 0 * u2 ≠ 0 := by simpa using n2
  have d01 := (hL.neg).div (hR.mul hR) (mul_ne_zero nR nR)
  have d11 := (hasDerivAt_const (0 : ℝ) (1 : ℝ)).div (hR.mul hR) (mul_ne_zero nR nR)
  have d12 := (hZ0.neg).div ((hR.mul hR).mul hZ2) (mul_ne_zero (mul_ne_zero nR nR) nZ2)
  have hd := ((d01.mul_const v0).add (d11.mul_const v1)).add (d12.mul_const v2)
  simp only [hessDual, Sym3.mul, h01, h11, h12, recip]
  refine hd.congr_deriv ?_
  simp only [higherCorrectionOf, Sym3.dot3, recip, eta0_eq h0 h2, Pi.neg_apply, Pi.mul_apply, Pi.sub_apply,
    Pi.add_apply, zero_mul, add_zero]
  have hψ : z0 * -(dualL z0 z2) - z0 + z1 = dualR z0 z1 z2 := by unfold dualR; ring
  simp only [hψ]
  have hz1 : z1 = dualR z0 z1 z2 + z0 * dualL z0 z2 + z0 := by unfold dualR; ring
  generalize dualR z0 z1 z2 = r at *
  generalize dualL z0 z2 = L at *
  subst hz1
  have e5 : (0.5 : ℝ) = 1 / 2 := by norm_num
  rw [e5]
  field_simp
  ring

/-- row 2 of `d/dt H(z+tu) v` -/
theorem third_row2 :
    HasDerivAt (fun t => ((hessDual (z0 + t * u0, z1 + t * u1, z2 + t * u2)).mul (v0, v1, v2)).2.2)
      (2 * (higherCorrectionOf (z0, z1, z2) (u0, u1, u2) (v0, v1, v2)).2.2) 0 := by
  obtain ⟨h0, h2, hr⟩ := h
  have n0 : z0 ≠ 0 := ne_of_lt h0
  have n2 : z2 ≠ 0 := ne_of_gt h2
  have nr : dualR z0 z1 z2 ≠ 0 := ne_of_gt hr
  have hZ0 := line_d z0 u0
  have hZ1 := line_d z1 u1
  have hZ2 := line_d z2 u2
  have hL := L_line u0 u2 h0 h2
  have hR := R_line (z1 := z1) u0 u1 u2 h0 h2
  have nR : dualR (z0 + 0 * u0) (z1 + 0 * u1) (z2 + 0 * u2) ≠ 0 := by simpa using nr
  have nZ0 : z0 + 0 * u0 ≠ 0 := by simpa using n0
  have nZ2 : z2 + 0 * u2 ≠ 0 := by simpa using n2
  have d02 := (hZ1.sub hZ0).div ((hR.mul hR).mul hZ2) (mul_ne_zero (mul_ne_zero nR nR) nZ2)
  have d12 := (hZ0.neg).div ((hR.mul hR).mul hZ2) (mul_ne_zero (mul_ne_zero nR nR) nZ2)
  have d22 := (((hR.mul hR).sub (hZ0.mul hR)).add (hZ0.mul hZ0)).div (((hR.mul hR).mul hZ2).mul hZ2)
    (mul_ne_zero (mul_ne_zero (mul_ne_zero nR nR) nZ2) nZ2)
  have hd := ((d02.mul_const v0).add (d12.mul_const v1)).add (d22.mul_const v2)
  simp only [hessDual, Sym3.mul, h02, h12, h22]
  refine hd.congr_deriv ?_
  simp only [higherCorrectionOf, Sym3.dot3, recip, eta0_eq h0 h2, Pi.neg_apply, Pi.mul_apply, Pi.sub_apply,
    Pi.add_apply, zero_mul, add_zero]
  have hψ : z0 * -(dualL z0 z2) - z0 + z1 = dualR z0 z1 z2 := by unfold dualR; ring
  simp only [hψ]
  have hz1 : z1 = dualR z0 z1 z2 + z0 * dualL z0 z2 + z0 := by unfold dualR; ring
  generalize dualR z0 z1 z2 = r at *
  generalize dualL z0 z2 = L at *
  subst hz1
  have e5 : (0.5 : ℝ) = 1 / 2 := by norm_num
  rw [e5]
  field_simp
  ring

end

end Clarabel.Exp
