/-
  C08 ∘ C04 on the whole-solver model: EVERY history of update operations and `solve()` calls RETURNS.

  `C08.full_update_total` says that every update operation returns on an object reached from `new` by a
  history that returned; `C04` (`solve_ok_qdldl`) says that `solve()` returns on every object satisfying
  `SolverInvQ` and keeps it.  Here the two are composed:

  * `ValFrame S S'`            — `S'` is `S` with the data replaced by data in the same `DFrame` (values of
                               `P, q, A, b`, norm caches) and the two value copies of the linear-solver
                               object rewritten (`VFrame`); nothing else.
  * `SolverInvQ.of_uframe`   — C04's invariant only looks at patterns, dimensions and lengths: it is
                               kept along `ValFrame`.
  * `updateP_uframe` …       — every update operation, ACCEPTED or REJECTED (every argument form), is a
                               `ValFrame` step.
  * `stepU_total`, `runU_total` — by induction over the history: `runU` returns `.ok` for EVERY list of
                               operations, and the final object satisfies `UInv` and `SolverInvQ` again.
  [S] throughout (the one scalar law is C04's `FmaxOK`).
-/
import ClarabelProofs.Lemmas.UpdateSolverFinal
import ClarabelProofs.Lemmas.SolverTotal

namespace Clarabel.Solver
open Clarabel Clarabel.Update
open Clarabel.Lemmas.KktSpec (KktInputs)

set_option linter.unusedSectionVars false
set_option linter.unusedVariables false

variable {α : Type}

section
variable [Add α] [Sub α] [Mul α] [Div α] [Neg α] [OfNat α 0] [OfNat α 1] [OfNat α 2]
  [OfNat α 100] [OfNat α 1000] [LT α] [DecidableLT α] [LE α] [DecidableLE α] [BEq α] [FloatLike α]

/-! ### the invariant of `solve()` does not look at values -/

/-- `Canonical0` is a property of the pattern -/
theorem canonical0_of_samePat {M M' : Csc α} (h : SamePat M M') (hM : C16.Canonical0 M) :
    C16.Canonical0 M' := by
  rw [h.eq_with]
  exact ⟨canonical_set_nzval hM.canon M'.nzval h.size, hM.colptr_zero⟩

/-- `is_triu` is a property of the pattern -/
theorem isTriu_of_samePat {M M' : Csc α} (h : SamePat M M') : M'.isTriu = M.isTriu := by
  rw [h.eq_with]
  rfl

/-- well-formedness of the internal data is kept along `DFrame` -/
theorem DataOK.of_frame {d0 d : ProblemData α} (h : DFrame d0 d) (h0 : DataOK d0) : DataOK d where
  P_canon := canonical0_of_samePat h.P h0.P_canon
  P_m := by rw [h.P.m, h.n]; exact h0.P_m
  P_n := by rw [h.P.n, h.n]; exact h0.P_n
  P_triu := by rw [isTriu_of_samePat h.P]; exact h0.P_triu
  A_canon := canonical0_of_samePat h.A h0.A_canon
  A_m := by rw [h.A.m, h.m]; exact h0.A_m
  A_n := by rw [h.A.n, h.n]; exact h0.A_n
  q := by rw [h.q, h.n]; exact h0.q
  b := by rw [h.b, h.m]; exact h0.b
  eq_d := by rw [h.equilibration, h.n]; exact h0.eq_d
  eq_dinv := by rw [h.equilibration, h.n]; exact h0.eq_dinv
  eq_e := by rw [h.equilibration, h.m]; exact h0.eq_e
  eq_einv := by rw [h.equilibration, h.m]; exact h0.eq_einv
  keep := by
    have e : presolveMap d = presolveMap d0 := by unfold presolveMap; rw [h.presolver]
    intro p hp
    rw [h.m]
    exact h0.keep p (e ▸ hp)

theorem SolutionSized.of_frame {d0 d : ProblemData α} (h : DFrame d0 d) {sol : Unscale.Solution α}
    (h0 : SolutionSized d0 sol) : SolutionSized d sol := by
  have e : presolveMap d = presolveMap d0 := by unfold presolveMap; rw [h.presolver]
  exact ⟨by rw [h.n]; exact h0.x, fun hp => by rw [h.m]; exact h0.none_s (e ▸ hp),
    fun hp => by rw [h.m]; exact h0.none_z (e ▸ hp), fun p hp => h0.some_s p (e ▸ hp),
    fun p hp => h0.some_z p (e ▸ hp)⟩

/-- `S'` is `S` with the data replaced inside its `DFrame` and the value copies of the linear-solver
object rewritten: what ANY update operation (accepted or rejected) does to the solver object -/
def ValFrame (S S' : Solver α) : Prop :=
  ∃ (d : ProblemData α) (K' : KktSolver α), DFrame S.st.data d ∧ VFrame S.st.kktsystem.kktsolver K' ∧
    S' = (S.setData d).setKktSolver K'

theorem solver_setKkt_self (S : Solver α) : S.setKktSolver S.st.kktsystem.kktsolver = S := by
  cases S with | mk st sol => cases st with | mk d v r k c l rh p i mu sg sl => cases k; rfl

theorem ValFrame.rfl' (S : Solver α) : ValFrame S S :=
  ⟨S.st.data, S.st.kktsystem.kktsolver, DFrame.rfl' _, VFrame.rfl' _, by
    rw [solver_setData_self]; exact (solver_setKkt_self S).symm⟩

theorem ValFrame.of_setData (S : Solver α) {d : ProblemData α} (hd : DFrame S.st.data d) :
    ValFrame S (S.setData d) :=
  ⟨d, S.st.kktsystem.kktsolver, hd, VFrame.rfl' _, (solver_setKkt_self (S.setData d)).symm⟩

/-- [S] **C04's invariant is kept along `ValFrame`**: it constrains patterns, dimensions, vector lengths,
cone shapes and the structure of the linear-solver object — none of which an update operation touches. -/
theorem SolverInvQ.of_uframe {S S' : Solver α} (hI : SolverInvQ S) (h : ValFrame S S') : SolverInvQ S' := by
  obtain ⟨d, K', hd, hK, rfl⟩ := h
  have hn : d.n = S.st.data.n := hd.n
  have hm : d.m = S.st.data.m := hd.m
  have hS := hI.st.shapes
  show SolverInv (KktInvW (S.st.cones.map ConeSt.kktSpec) d.n d.m) d (S.st.cones.map ConeSt.kktSpec) _
  rw [hn, hm]
  refine ⟨⟨⟨DataOK.of_frame hd hS.data, ?_, ?_, ?_, ?_, ?_, hS.cones, ?_, ?_, ?_, ?_, ?_, ?_, ?_, ?_,
    hK.inv hS.kkt⟩, rfl, rfl⟩, SolutionSized.of_frame hd hI.solution⟩
  · show VarsSized d.n d.m S.st.variables
    rw [hn, hm]; exact hS.vars
  · show ResidSized d.n d.m S.st.residuals
    rw [hn, hm]; exact hS.resid
  · show VarsSized d.n d.m S.st.stepLhs
    rw [hn, hm]; exact hS.stepLhs
  · show VarsSized d.n d.m S.st.stepRhs
    rw [hn, hm]; exact hS.stepRhs
  · show VarsSized d.n d.m S.st.prevVars
    rw [hn, hm]; exact hS.prevVars
  · show numelAll S.st.cones = d.m
    rw [hm]; exact hS.numel
  · show S.st.kktsystem.x1.size = d.n
    rw [hn]; exact hS.x1
  · show S.st.kktsystem.z1.size = d.m
    rw [hm]; exact hS.z1
  · show S.st.kktsystem.x2.size = d.n
    rw [hn]; exact hS.x2
  · show S.st.kktsystem.z2.size = d.m
    rw [hm]; exact hS.z2
  · show S.st.kktsystem.workx.size = d.n
    rw [hn]; exact hS.workx
  · show S.st.kktsystem.workz.size = d.m
    rw [hm]; exact hS.workz
  · show S.st.kktsystem.workConic.size = d.m
    rw [hm]; exact hS.workConic

/-! ### every update operation is a `ValFrame` step -/

/-- the maps of the current linear-solver object address slots of its own value array -/
theorem UInv.mapP_lt {st : Settings α} {perm : Array Nat} {S0 S : Solver α} {pk ak : Array α}
    (hb : Base st perm S0) (h : UInv st S0 S pk ak) :
    ∀ i ∈ S.st.kktsystem.kktsolver.map.P.toList, i < S.st.kktsystem.kktsolver.KKT.nzval.size := by
  intro i hi
  rw [← h.ksync.map] at hi
  rw [← h.ksync.nzsz]
  exact hb.maps.bound i (List.mem_append_left _ hi)

theorem UInv.mapA_lt {st : Settings α} {perm : Array Nat} {S0 S : Solver α} {pk ak : Array α}
    (hb : Base st perm S0) (h : UInv st S0 S pk ak) :
    ∀ i ∈ S.st.kktsystem.kktsolver.map.A.toList, i < S.st.kktsystem.kktsolver.KKT.nzval.size := by
  intro i hi
  rw [← h.ksync.map] at hi
  rw [← h.ksync.nzsz]
  exact hb.maps.bound i (List.mem_append_right _ hi)

/-- `update_P`, accepted or rejected, is a `ValFrame` step -/
theorem updateP_uframe {st : Settings α} {perm : Array Nat} {S0 S : Solver α} {pk ak : Array α}
    (hb : Base st perm S0) (h : UInv st S0 S pk ak) (hI : SolverInvQ S) {arg : MatArg α} {S' : Solver α}
    {r : Res} (hu : S.updateP arg = .ok (S', r)) : ValFrame S S' := by
  rw [updateP_eq S arg (h.dataWf hb)] at hu
  cases hg : checkDataUpdateAllowed S.st.data with
  | error e =>
    rw [hg] at hu
    cases hu
    exact ValFrame.rfl' S
  | ok u =>
    cases u
    rw [hg] at hu
    dsimp only at hu
    have hshape := samePat_updateMatrix arg S.st.data.P S.st.data.equilibration.d S.st.data.equilibration.d
      (some S.st.data.equilibration.c)
    generalize updateMatrix arg S.st.data.P S.st.data.equilibration.d S.st.data.equilibration.d
      (some S.st.data.equilibration.c) = res at hshape hu
    obtain ⟨P', r'⟩ := res
    have hd : DFrame S.st.data { S.st.data with P := P' } := (DFrame.rfl' S.st.data).setP hshape
    cases r' with
    | error e =>
      cases hu
      exact ValFrame.of_setData S hd
    | ok u =>
      cases u
      dsimp only at hu
      have hsz : S.st.kktsystem.kktsolver.map.P.size ≤ P'.nzval.size := by
        rw [← h.ksync.map, hb.mapPsz, hshape.size, h.frame.P.size]
      obtain ⟨K', hK', hV⟩ := updateValues_ok hI.st.shapes.kkt S.st.kktsystem.kktsolver.map.P P'.nzval
        (h.mapP_lt hb) hsz
      rw [hK'] at hu
      cases hu
      exact ⟨_, K', hd, hV, rfl⟩

/-- `update_A`, accepted or rejected, is a `ValFrame` step -/
theorem updateA_uframe {st : Settings α} {perm : Array Nat} {S0 S : Solver α} {pk ak : Array α}
    (hb : Base st perm S0) (h : UInv st S0 S pk ak) (hI : SolverInvQ S) {arg : MatArg α} {S' : Solver α}
    {r : Res} (hu : S.updateA arg = .ok (S', r)) : ValFrame S S' := by
  rw [updateA_eq S arg (h.dataWf hb)] at hu
  cases hg : checkDataUpdateAllowed S.st.data with
  | error e =>
    rw [hg] at hu
    cases hu
    exact ValFrame.rfl' S
  | ok u =>
    cases u
    rw [hg] at hu
    dsimp only at hu
    have hshape := samePat_updateMatrix arg S.st.data.A S.st.data.equilibration.e S.st.data.equilibration.d
      none
    generalize updateMatrix arg S.st.data.A S.st.data.equilibration.e S.st.data.equilibration.d
      none = res at hshape hu
    obtain ⟨A', r'⟩ := res
    have hd : DFrame S.st.data { S.st.data with A := A' } := (DFrame.rfl' S.st.data).setA hshape
    cases r' with
    | error e =>
      cases hu
      exact ValFrame.of_setData S hd
    | ok u =>
      cases u
      dsimp only at hu
      have hsz : S.st.kktsystem.kktsolver.map.A.size ≤ A'.nzval.size := by
        rw [← h.ksync.map, hb.mapAsz, hshape.size, h.frame.A.size]
      obtain ⟨K', hK', hV⟩ := updateValues_ok hI.st.shapes.kkt S.st.kktsystem.kktsolver.map.A A'.nzval
        (h.mapA_lt hb) hsz
      rw [hK'] at hu
      cases hu
      exact ⟨_, K', hd, hV, rfl⟩

/-- `update_q`, accepted or rejected, is a `ValFrame` step (the linear-solver object is untouched) -/
theorem updateQ_uframe {st : Settings α} {perm : Array Nat} {S0 S : Solver α} {pk ak : Array α}
    (hb : Base st perm S0) (h : UInv st S0 S pk ak) {arg : VecArg α} {S' : Solver α}
    {r : Res} (hu : S.updateQ arg = .ok (S', r)) : ValFrame S S' := by
  rw [updateQ_eq S arg (h.dataWf hb)] at hu
  cases hg : checkDataUpdateAllowed S.st.data with
  | error e =>
    rw [hg] at hu
    cases hu
    exact ValFrame.rfl' S
  | ok u =>
    cases u
    rw [hg] at hu
    dsimp only at hu
    have hsize := updateVector_size arg S.st.data.q S.st.data.equilibration.d (some S.st.data.equilibration.c)
    generalize updateVector arg S.st.data.q S.st.data.equilibration.d (some S.st.data.equilibration.c) = res
      at hsize hu
    obtain ⟨q', r'⟩ := res
    cases r' with
    | error e =>
      cases hu
      exact ValFrame.of_setData S (by simpa using (DFrame.rfl' S.st.data).setQ hsize S.st.data.normq)
    | ok u =>
      cases u
      cases hu
      exact ValFrame.of_setData S ((DFrame.rfl' S.st.data).setQ hsize none)

/-- `update_b`, accepted or rejected, is a `ValFrame` step -/
theorem updateB_uframe {st : Settings α} {perm : Array Nat} {S0 S : Solver α} {pk ak : Array α}
    (hb : Base st perm S0) (h : UInv st S0 S pk ak) {arg : VecArg α} {S' : Solver α}
    {r : Res} (hu : S.updateB arg = .ok (S', r)) : ValFrame S S' := by
  rw [updateB_eq S arg (h.dataWf hb)] at hu
  cases hg : checkDataUpdateAllowed S.st.data with
  | error e =>
    rw [hg] at hu
    cases hu
    exact ValFrame.rfl' S
  | ok u =>
    cases u
    rw [hg] at hu
    dsimp only at hu
    have hsize := updateVector_size arg S.st.data.b S.st.data.equilibration.e none
    generalize updateVector arg S.st.data.b S.st.data.equilibration.e none = res at hsize hu
    obtain ⟨b', r'⟩ := res
    cases r' with
    | error e =>
      cases hu
      exact ValFrame.of_setData S (by simpa using (DFrame.rfl' S.st.data).setB hsize S.st.data.normb)
    | ok u =>
      cases u
      cases hu
      exact ValFrame.of_setData S ((DFrame.rfl' S.st.data).setB hsize none)

/-! ### one operation: total, and both invariants are kept -/

/-- the pair of invariants carried along a history: C08's `UInv` (relative to the constructed object)
and C04's `SolverInvQ` -/
def HistInv (st : Settings α) (S0 S : Solver α) : Prop :=
  (∃ pk ak, UInv st S0 S pk ak) ∧ SolverInvQ S

theorem updateP_hist {st : Settings α} {perm : Array Nat} {S0 S : Solver α} (hb : Base st perm S0)
    (h : HistInv st S0 S) (arg : MatArg α) : ∃ S' r, S.updateP arg = .ok (S', r) ∧ HistInv st S0 S' := by
  obtain ⟨⟨pk, ak, hU⟩, hI⟩ := h
  obtain ⟨S', r, pk', e, hU', _⟩ := updateP_step hb hU arg
  exact ⟨S', r, e, ⟨pk', ak, hU'⟩, hI.of_uframe (updateP_uframe hb hU hI e)⟩

theorem updateA_hist {st : Settings α} {perm : Array Nat} {S0 S : Solver α} (hb : Base st perm S0)
    (h : HistInv st S0 S) (arg : MatArg α) : ∃ S' r, S.updateA arg = .ok (S', r) ∧ HistInv st S0 S' := by
  obtain ⟨⟨pk, ak, hU⟩, hI⟩ := h
  obtain ⟨S', r, ak', e, hU', _⟩ := updateA_step hb hU arg
  exact ⟨S', r, e, ⟨pk, ak', hU'⟩, hI.of_uframe (updateA_uframe hb hU hI e)⟩

theorem updateQ_hist {st : Settings α} {perm : Array Nat} {S0 S : Solver α} (hb : Base st perm S0)
    (h : HistInv st S0 S) (arg : VecArg α) : ∃ S' r, S.updateQ arg = .ok (S', r) ∧ HistInv st S0 S' := by
  obtain ⟨⟨pk, ak, hU⟩, hI⟩ := h
  obtain ⟨S', r, e, hU', _⟩ := updateQ_step hb hU arg
  exact ⟨S', r, e, ⟨pk, ak, hU'⟩, hI.of_uframe (updateQ_uframe hb hU e)⟩

theorem updateB_hist {st : Settings α} {perm : Array Nat} {S0 S : Solver α} (hb : Base st perm S0)
    (h : HistInv st S0 S) (arg : VecArg α) : ∃ S' r, S.updateB arg = .ok (S', r) ∧ HistInv st S0 S' := by
  obtain ⟨⟨pk, ak, hU⟩, hI⟩ := h
  obtain ⟨S', r, e, hU', _⟩ := updateB_step hb hU arg
  exact ⟨S', r, e, ⟨pk, ak, hU'⟩, hI.of_uframe (updateB_uframe hb hU e)⟩

/-- `update_data = update_P?; update_q?; update_A?; update_b?`: whichever component is rejected, the
object it leaves satisfies both invariants -/
theorem updateData_hist {st : Settings α} {perm : Array Nat} {S0 S : Solver α} (hb : Base st perm S0)
    (h : HistInv st S0 S) (p : MatArg α) (q : VecArg α) (a : MatArg α) (b : VecArg α) :
    ∃ S' r, S.updateData p q a b = .ok (S', r) ∧ HistInv st S0 S' := by
  obtain ⟨S1, r1, e1, h1⟩ := updateP_hist hb h p
  unfold Solver.updateData
  rw [bind_ok_of e1]
  cases r1 with
  | error e => exact ⟨S1, .error e, rfl, h1⟩
  | ok u =>
    cases u
    dsimp only
    obtain ⟨S2, r2, e2, h2⟩ := updateQ_hist hb h1 q
    rw [bind_ok_of e2]
    cases r2 with
    | error e => exact ⟨S2, .error e, rfl, h2⟩
    | ok u =>
      cases u
      dsimp only
      obtain ⟨S3, r3, e3, h3⟩ := updateA_hist hb h2 a
      rw [bind_ok_of e3]
      cases r3 with
      | error e => exact ⟨S3, .error e, rfl, h3⟩
      | ok u =>
        cases u
        dsimp only
        obtain ⟨S4, r4, e4, h4⟩ := updateB_hist hb h3 b
        exact ⟨S4, r4, e4, h4⟩

/-- [S] **one operation of a history always returns** — an update (accepted or rejected, every argument
form) or a `solve()` — and leaves an object on which the next operation returns again -/
theorem stepU_total (hf : FmaxOK α) {st : Settings α} {perm : Array Nat} {S0 S : Solver α}
    (hb : Base st perm S0) (h : HistInv st S0 S) (op : UOp α) :
    ∃ S' o, S.stepU st op = .ok (S', o) ∧ HistInv st S0 S' := by
  cases op with
  | updateP a =>
    obtain ⟨S', r, e, h'⟩ := updateP_hist hb h a
    exact ⟨S', .res r, by rw [stepU_updateP, e]; rfl, h'⟩
  | updateQ a =>
    obtain ⟨S', r, e, h'⟩ := updateQ_hist hb h a
    exact ⟨S', .res r, by rw [stepU_updateQ, e]; rfl, h'⟩
  | updateA a =>
    obtain ⟨S', r, e, h'⟩ := updateA_hist hb h a
    exact ⟨S', .res r, by rw [stepU_updateA, e]; rfl, h'⟩
  | updateB a =>
    obtain ⟨S', r, e, h'⟩ := updateB_hist hb h a
    exact ⟨S', .res r, by rw [stepU_updateB, e]; rfl, h'⟩
  | updateData p q a b =>
    obtain ⟨S', r, e, h'⟩ := updateData_hist hb h p q a b
    exact ⟨S', .res r, by rw [stepU_updateData, e]; rfl, h'⟩
  | solve =>
    obtain ⟨⟨pk, ak, hU⟩, hI⟩ := h
    obtain ⟨r, hr, hI'⟩ := solve_ok_qdldl hf st hI
    have hU' := (solveU_step hb hU (r := r) hr).1
    exact ⟨r.S, .solved r, by rw [stepU_solve]; show (S.solve st >>= _) = _; rw [hr]; rfl,
      ⟨pk, ak, hU'⟩, hI'⟩

/-- [S] **every history returns**: from an object satisfying both invariants, `runU` answers `.ok` for
EVERY list of operations, and the final object satisfies both invariants again -/
theorem runU_total_of_inv (hf : FmaxOK α) {st : Settings α} {perm : Array Nat} {S0 : Solver α}
    (hb : Base st perm S0) :
    ∀ (ops : List (UOp α)) (S : Solver α), HistInv st S0 S →
      ∃ S' outs, Solver.runU st S ops = .ok (S', outs) ∧ HistInv st S0 S'
  | [], S, h => ⟨S, [], rfl, h⟩
  | op :: rest, S, h => by
    obtain ⟨S1, o1, e1, h1⟩ := stepU_total hf hb h op
    obtain ⟨S2, o2, e2, h2⟩ := runU_total_of_inv hf hb rest S1 h1
    exact ⟨S2, o1 :: o2, runU_cons_ok e1 e2, h2⟩

/-- [S] **`Solver.runU_total`**: on well-formed user input with zero / nonnegative / second-order
cones, `n ≥ 1`, a valid ordering and `PivotOK`, `FmaxOK`: `DefaultSolver::new` returns an object `S0`, and
EVERY history of `update_P / q / A / b / update_data` (every argument form, accepted or rejected) and
`solve()` calls on it returns; the object it ends in satisfies C04's invariant (so `solve()` returns on
it: `solve_ok_qdldl`) and C08's (`UInv`). -/
theorem runU_total {P : Csc α} {q : Array α} {A : Csc α} {b : Array α} {cones : List (ConeT α)}
    {st : Settings α} {perm : Array Nat} (hin : InputOK P q A b cones)
    (hm : ∀ c ∈ cones, ConeT.modelled c) (hn : 0 < P.n) (hperm : PermFor P q A b cones st perm)
    (hpiv : PivotOK st.lin) (hf : FmaxOK α) :
    ∃ S0, Solver.new P q A b cones st perm = .ok S0 ∧
      ∀ ops : List (UOp α), ∃ S' outs, Solver.runU st S0 ops = .ok (S', outs) ∧
        SolverInvQ S' ∧ ∃ pk ak, UInv st S0 S' pk ak := by
  obtain ⟨S0, h, hI⟩ := solverNew_ok_of_modelled hin hm hn hperm hpiv
  have hb := base_of_new hin hn hperm h
  refine ⟨S0, h, fun ops => ?_⟩
  obtain ⟨S', outs, e, ⟨hU, hI'⟩⟩ := runU_total_of_inv hf hb ops S0 ⟨⟨_, _, (UInv.init hb).1⟩, hI⟩
  exact ⟨S', outs, e, hI', hU⟩

end

end Clarabel.Solver

/-! ### non-vacuity: a history with two solves, an accepted and a rejected update, run by the kernel -/

namespace Clarabel.Solver.Example
open Clarabel Clarabel.Solver Clarabel.Update
attribute [local instance] intFloatLike

/-- `solve()`, an ACCEPTED whole-vector `update_q([2])`, a REJECTED partial `update_A([(0,3),(5,4)])`
(index 5 is out of range; the pair `(0,3)` has been written to `data.A`, the KKT copy is stale),
`solve()` -/
def histOps : List (UOp Int) :=
  [.solve, .updateQ (.slice #[2]), .updateA (.pairs #[0, 5] #[3, 4]), .solve]

/-- what an operation showed: `0` accepted, `1` rejected, `2 + passes` for a `solve()` -/
def outCode : UOut Int → Nat
  | .res (.ok _) => 0
  | .res (.error _) => 1
  | .solved r => 2 + r.passes

/-- `new`, then the history -/
def histRun : MErr (Solver Int × List (UOut Int)) := do
  let S ← newSolver 3
  Solver.runU (st 3) S histOps

/-- the kernel runs the history: first solve 2 passes, `update_q` accepted, `update_A` REJECTED, second
solve 3 passes; afterwards `data.A = [3]` while the KKT matrix still holds `1` at the `A` position -/
theorem histRun_codes :
    histRun.toOption.map (fun (r : Solver Int × List (UOut Int)) =>
      (r.2.map outCode, r.1.st.data.A.nzval, r.1.st.data.q, r.1.st.kktsystem.kktsolver.KKT.nzval))
    = some ([4, 0, 1, 5], #[3], #[2], #[0, 1, 0]) := by decide +kernel

theorem histRun_eq {S0 S' : Solver Int} {outs : List (UOut Int)} (h : newSolver 3 = .ok S0)
    (e : Solver.runU (st 3) S0 histOps = .ok (S', outs)) : histRun = .ok (S', outs) := by
  unfold histRun
  rw [bind_ok_of h]
  exact e

end Clarabel.Solver.Example
