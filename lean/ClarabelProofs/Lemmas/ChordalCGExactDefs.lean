/-
  Clique-graph merge strategy, EXACTNESS OF THE CLIQUE GRAPH: the vocabulary for the last link of
  the junction-tree chain — THE EDGE MATRIX IS AT ALL TIMES EXACTLY THE REDUCED CLIQUE GRAPH OF THE
  CURRENT CLIQUES (its stored entries are exactly the separating pairs, `JT.SepPair`), which makes
  every permissible candidate a separating pair.  No theorem of substance lives here.

  * `JT.Exact cl L adj`      : `adj` is exactly the separating-pair relation of the family;
  * `JT.Perm cl L adj a b`   : the merge `{a, b}` is permissible: every common neighbour meets `C_a` and
                               `C_b` in the same set (`ispermissible` of the Rust code, at set level);
  * `JT.contractAdj adj a b` : the adjacency after `b` was contracted into `a` (what
                               `update_strategy` does to the edge matrix, `UpdateStateSpec`);
  * `JT.ExactContractSpec`   : exactness survives a permissible merge (`ChordalJTExact.lean`);
  * `CGExact s t`, `CGPermissible s t a b` : the same for the model's state;
  * `InitExactSpec`, `TraversePermSpec`    : `initialise` establishes exactness
                               (`ChordalCGExactInit.lean`); a candidate returned by `traverse` is
                               permissible (`ChordalCGTraversePerm.lean`).
-/
import ClarabelProofs.Lemmas.ChordalJTSwap
import ClarabelProofs.Lemmas.ChordalCGSpecs

namespace Clarabel.Chordal
open Clarabel

namespace JT

/-- `adj` is exactly the separating-pair relation (the reduced clique graph) of the family -/
def Exact (cl : Nat → Nat → Bool) (L : List Nat) (adj : Nat → Nat → Prop) : Prop :=
  ∀ x ∈ L, ∀ y ∈ L, x ≠ y → (adj x y ↔ SepPair cl L x y)

/-- the merge `{a, b}` is permissible: every common neighbour `n` meets `C_a` and `C_b` in the same set -/
def Perm (cl : Nat → Nat → Bool) (L : List Nat) (adj : Nat → Nat → Prop) (a b : Nat) : Prop :=
  ∀ n ∈ L, n ≠ a → n ≠ b → adj a n → adj b n →
    ∀ v, (cl a v = true ∧ cl n v = true) ↔ (cl b v = true ∧ cl n v = true)

/-- the adjacency after `b` was contracted into `a` -/
def contractAdj (adj : Nat → Nat → Prop) (a b : Nat) : Nat → Nat → Prop :=
  fun x y => x ≠ b ∧ y ≠ b ∧
    (adj x y ∨ (x = a ∧ adj b y ∧ y ≠ a) ∨ (y = a ∧ adj b x ∧ x ≠ a))

/-- EXACTNESS SURVIVES A PERMISSIBLE MERGE: if the family has a junction tree, `adj` is symmetric and
is exactly its separating-pair relation, `a — b` is an edge and the merge is permissible, then the
contracted adjacency is exactly the separating-pair relation of the merged family
(`ChordalJTExact.lean`) -/
def ExactContractSpec : Prop :=
  ∀ (cl : Nat → Nat → Bool) (L : List Nat) (nv : Nat) (J : List (Nat × Nat))
    (adj : Nat → Nat → Prop) (a b : Nat),
    L.Nodup → (∀ c ∈ L, ∀ v, cl c v = true → v < nv) →
    ForestFrom [] J → (∀ e ∈ J, e.1 ∈ L ∧ e.2 ∈ L) → RIP cl L J →
    (∀ x y, adj x y → adj y x) → Exact cl L adj →
    a ∈ L → b ∈ L → a ≠ b → adj a b → Perm cl L adj a b →
    Exact (mergeCl cl a b) (L.erase b) (contractAdj adj a b)

end JT

/-- THE EDGE MATRIX IS EXACTLY THE REDUCED CLIQUE GRAPH OF THE CURRENT CLIQUES -/
def CGExact (s : CGStrategy) (t : SuperNodeTree) : Prop :=
  JT.Exact (cgCl t) (cgLiveList t) (fun a b => s.edges.Adj a b)

/-- the candidate `(a, b)` is permissible at set level -/
def CGPermissible (s : CGStrategy) (t : SuperNodeTree) (a b : Nat) : Prop :=
  JT.Perm (cgCl t) (cgLiveList t) (fun x y => s.edges.Adj x y) a b

/-- `initialise` makes the edge matrix exactly the reduced clique graph of the cliques
(`ChordalCGExactInit.lean`) -/
def InitExactSpec : Prop :=
  ∀ (L : LPat) (t0 : SuperNodeTree), L.Filled → SnTreeOk L t0 → 2 ≤ t0.snode.size →
    ∃ s1 t1, CGStrategy.new.initialise t0 = .ok (s1, t1) ∧ CGExact s1 t1

/-- a candidate returned by `traverse` is permissible (`ChordalCGTraversePerm.lean`) -/
def TraversePermSpec : Prop :=
  ∀ (N nv : Nat) (s : CGStrategy) (t : SuperNodeTree), CGInv N nv s t → 2 ≤ t.nCliques →
    ∀ s' r c, s.traverse t = .ok (s', some (r, c)) → CGPermissible s t r c

end Clarabel.Chordal
