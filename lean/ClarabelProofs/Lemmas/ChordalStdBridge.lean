/-
  Bridge between C17's clique-tree validity predicate (`ValidCliqueTree`,
  `ClarabelProofs/Lemmas/ChordalValid.lean`) and the hypothesis `StdPatternOK` of the
  block theorems about the standard decomposition (`ChordalStdBlocks.lean`).

  Patterns with a single clique are never stored in `ChordalInfo.spatterns`
  (`chordal_info.rs`: `if spattern.sntree.n_cliques == 1 { continue }`), hence the
  hypothesis `t.nCliques ≠ 1`.
-/
import ClarabelProofs.Lemmas.ChordalStdBlocks
import ClarabelProofs.Lemmas.ChordalValid

namespace Clarabel.Chordal
open SuperNodeTree

/-- [S] a valid clique tree with more than one clique is a well-formed pattern for the
standard decomposition of a PSD cone of dimension `n` -/
theorem StdPatternOK.of_valid (n : Nat) (edges : List (Nat × Nat)) (p : SPattern)
    (h : ValidCliqueTree n edges p.sntree p.ordering) (hne : p.sntree.nCliques ≠ 1) :
    StdPatternOK p n := by
  obtain ⟨hc, hs⟩ := h
  have hm : ValidMulti n edges p.sntree p.ordering := by
    rcases hs with ⟨h1, _⟩ | ⟨_, h2⟩
    · exact absurd h1 hne
    · exact h2
  have hlen : p.ordering.size = n := by
    have := hc.ordering_perm.length_eq
    simpa using this
  have hget : ∀ v (hv : v < n),
      p.ordering.getD v 0 = p.ordering.toList[v]'(by simpa [hlen] using hv) := by
    intro v hv
    simp [Array.getD_eq_getD_getElem?, hlen, hv]
  have hnd : p.ordering.toList.Nodup := hc.ordering_perm.nodup_iff.2 List.nodup_range
  have hpost : ∀ i, i < p.sntree.nCliques → p.sntree.snodePost.getD i 0 ∈ p.sntree.snodePost.toList := by
    intro i hi
    have hi' : i < p.sntree.snodePost.size := by rw [hc.post_size]; exact hi
    rw [Array.getD_eq_getD_getElem?, Array.getElem?_eq_getElem hi', Option.getD_some]
    exact Array.getElem_mem_toList hi'
  refine
    { ord_size := hlen
      ord_lt := ?_
      ord_inj := ?_
      post_size := by rw [hc.post_size]
      post_lt := fun i hi => hm.post_lt _ (hpost i hi)
      sep_size := hc.separators_size
      clique_nodup := fun i hi => hm.clique_nodup _ (hm.post_lt _ (hpost i hi))
      clique_lt := fun i hi => hm.clique_lt _ (hm.post_lt _ (hpost i hi))
      nblk := hm.nblk }
  · intro v hv
    rw [hget v hv]
    have : p.ordering.toList[v]'(by simpa [hlen] using hv) ∈ List.range n :=
      hc.ordering_perm.mem_iff.1 (List.getElem_mem _)
    exact List.mem_range.1 this
  · intro u v hu hv e
    rw [hget u hu, hget v hv] at e
    exact (List.Nodup.getElem_inj_iff hnd).1 e

/-- non-vacuity: the model's tree of the path graph `0 – 1 – 2` -/
example : StdPatternOK ⟨exValidTree, #[0, 2, 1], 0⟩ 3 :=
  StdPatternOK.of_valid 3 [(0, 1), (1, 2)] ⟨exValidTree, #[0, 2, 1], 0⟩
    ((validCliqueTreeB_iff _ _ _ _).1 exValidTree_ok) (by decide)

end Clarabel.Chordal
