/-
  Calculus helpers for the nonsymmetric cones (C14): `logsafe` is `Real.log` on positive
  arguments and differentiable there; `powf` is `Real.rpow`.
-/
import ClarabelModel.Cones.Nonsym
import ClarabelProofs.Lemmas.ScalarInst
import Mathlib.Analysis.SpecialFunctions.Log.Deriv
import Mathlib.Analysis.SpecialFunctions.Pow.Deriv

namespace Clarabel.Nonsym
open Clarabel

theorem logsafe_of_pos {x : ℝ} (hx : 0 < x) : logsafe x = Real.log x := by
  unfold logsafe
  rw [if_neg (not_le.mpr hx)]
  rfl

@[simp] theorem real_powf_eq (x y : ℝ) : (powf x y : ℝ) = x ^ y := rfl

theorem recip_eq (x : ℝ) : recip x = 1 / x := rfl

/-- `logsafe` has derivative `1/x` at every positive `x`. -/
theorem hasDerivAt_logsafe {x : ℝ} (hx : 0 < x) : HasDerivAt (logsafe (α := ℝ)) x⁻¹ x := by
  have h := Real.hasDerivAt_log (ne_of_gt hx)
  refine h.congr_of_eventuallyEq ?_
  filter_upwards [Ioi_mem_nhds hx] with y hy
  exact logsafe_of_pos hy

/-- chain rule for `logsafe` -/
theorem _root_.HasDerivAt.logsafe {f : ℝ → ℝ} {f' x : ℝ} (hf : HasDerivAt f f' x) (hx : 0 < f x) :
    HasDerivAt (fun t => Nonsym.logsafe (f t)) (f' / f x) x := by
  have h : HasDerivAt (fun t => Nonsym.logsafe (f t)) ((f x)⁻¹ * f') x :=
    (hasDerivAt_logsafe hx).comp x hf
  exact h.congr_deriv (by rw [div_eq_inv_mul])

end Clarabel.Nonsym
