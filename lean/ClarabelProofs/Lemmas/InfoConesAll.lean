/-
  C01/C02 round 3 — the point handed back to the user stays in the cone, for the product of
  ALL SEVEN cone kinds.

  `Unscale.unscale v eq inf` returns `s = (ŝ ∘ einv)·σ⁻¹` and `z = (ẑ ∘ e)·(σ⁻¹·c⁻¹)` with
  `σ = κ` (infeasibility certificate) or `σ = τ`.  With C10's `uniformOn_equilibrate`
  (`e`, `einv` positive and constant on every non-scalar cone), `pos_equilibrate` (`c > 0`)
  and `compositeMem_scale`:

      ŝ ∈ K, ẑ ∈ K*, σ > 0   ⟹   s ∈ K, z ∈ K*

  * `uniformOn_replicate`, `compositeMem_smul` : a positive scalar times the whole vector;
  * `unscale_s_toList`, `unscale_z_toList`     : list forms of what `unscale` returns;
  * `unscaled_point_in_cones`                  : the main theorem.
-/
import ClarabelModel.Unscale
import ClarabelProofs.Lemmas.EquilComposite
import ClarabelProofs.Lemmas.EquilPreserved
import ClarabelProofs.Lemmas.InfoUser
import ClarabelProofs.Lemmas.InfoArrayDense

namespace Clarabel.InfoCone
open Clarabel Clarabel.Equil Residuals

/-! ### a positive scalar times the whole vector -/

/-- a constant positive vector is `UniformOn` every cone list -/
theorem uniformOn_replicate (cones : List (ConeT ℝ)) (m : ℕ) (k : ℝ) (hk : 0 < k) :
    UniformOn cones (List.replicate m k) := by
  induction cones generalizing m with
  | nil => trivial
  | cons c cs ih =>
    refine ⟨?_, ?_, ?_⟩
    · intro a ha
      have := List.mem_of_mem_take ha
      rw [List.mem_replicate] at this
      rw [this.2]; exact hk
    · intro _
      refine ⟨k, fun a ha => ?_⟩
      have := List.mem_of_mem_take ha
      rw [List.mem_replicate] at this
      exact this.2
    · rw [List.drop_replicate]; exact ih _

/-- [R] the product cone (and its dual) of any valid cone list is closed under multiplication
by a positive scalar, and under division by it -/
theorem compositeMem_smul (cones : List (ConeT ℝ)) (hv : ValidCones cones) (k : ℝ) (hk : 0 < k)
    (s : List ℝ) :
    (CompositeMem ConeMem cones (s.map (k * ·)) ↔ CompositeMem ConeMem cones s) ∧
    (CompositeMem ConeMemDual cones (s.map (k * ·)) ↔ CompositeMem ConeMemDual cones s) := by
  have h := compositeMem_scale cones hv (List.replicate s.length k) s (by simp)
    (uniformOn_replicate cones s.length k hk)
  rw [zipWith_const k (List.replicate s.length k) s (by simp)
    (fun a ha => (List.mem_replicate.mp ha).2)] at h
  exact h

/-! ### list forms of what `unscale` returns -/

/-- `[T]::hadamard` on equal lengths, as a list (factors commuted) -/
theorem hadamard_toList (x y : Array ℝ) (h : x.size = y.size) :
    (Unscale.hadamardInPlace x y).toList = List.zipWith (· * ·) y.toList x.toList := by
  rw [InfoUser.unscale_hadamard_eq]
  apply List.ext_getElem
  · simp [h]
  · intro i h1 h2
    have hx : i < x.size := by simpa using h1
    have hy : i < y.size := by omega
    simp [Array.getD, hx, hy]
    exact mul_comm _ _

theorem scale_toList (x : Array ℝ) (c : ℝ) : (Vec.scale x c).toList = x.toList.map (c * ·) := by
  simp only [Vec.scale, Array.toList_map]
  apply List.map_congr_left
  intro a _
  exact mul_comm a c

theorem scaleinv_eq (v : Vars ℝ) (inf : Bool) :
    (if inf then 1 / v.κ else 1 / v.τ) = 1 / (if inf then v.κ else v.τ) := by
  cases inf <;> rfl

/-- the returned `s`, as a list: `σ⁻¹ · (einv ∘ ŝ)` -/
theorem unscale_s_toList (v : Vars ℝ) (eq : Info.Equil ℝ) (inf : Bool)
    (hs : v.s.size = eq.einv.size) :
    (Unscale.unscale v eq inf).s.toList =
      (List.zipWith (· * ·) eq.einv.toList v.s.toList).map
        (1 / (if inf then v.κ else v.τ) * ·) := by
  show (Vec.scale (Unscale.hadamardInPlace v.s eq.einv) (if inf then 1 / v.κ else 1 / v.τ)).toList = _
  rw [scaleinv_eq, scale_toList, hadamard_toList _ _ hs]

/-- the returned `z`, as a list: `(σ⁻¹ c⁻¹) · (e ∘ ẑ)` -/
theorem unscale_z_toList (v : Vars ℝ) (eq : Info.Equil ℝ) (inf : Bool)
    (hz : v.z.size = eq.e.size) :
    (Unscale.unscale v eq inf).z.toList =
      (List.zipWith (· * ·) eq.e.toList v.z.toList).map
        ((1 / (if inf then v.κ else v.τ) * (1 / eq.c)) * ·) := by
  show (Vec.scale (Unscale.hadamardInPlace v.z eq.e)
    ((if inf then 1 / v.κ else 1 / v.τ) * (1 / eq.c))).toList = _
  rw [scaleinv_eq, scale_toList, hadamard_toList _ _ hz]

/-! ### the main theorem -/

/-- [R] **the returned point is in the cone** (all seven cone kinds).  Let `dt'` be what
`equilibrate` returns on fresh data (any positive clipping bounds), `v` an internal iterate
with `ŝ ∈ K`, `ẑ ∈ K*` for the product cone `K` of the cone list, and `σ > 0` the homogenising
variable `unscale` divides by (`κ` for an infeasibility certificate, `τ` otherwise).  Then
the `s`, `z` that `DefaultVariables::unscale` hands to the solution satisfy `s ∈ K`, `z ∈ K*`.
(`ConeMem`/`ConeMemDual`: see `EquilComposite.lean`.) -/
theorem unscaled_point_in_cones (dt dt' : ProblemData ℝ) (cones : List (ConeT ℝ)) (es : Equil.Settings ℝ)
    (hlo : 0 < es.minScaling) (hhi : 0 < es.maxScaling)
    (hfresh : dt.equilibration = EquilData.new dt.n dt.m) (hv : Equil.ValidCones cones)
    (heq : Equil.equilibrate dt cones es = .ok dt')
    (v : Residuals.Vars ℝ) (hs : v.s.size = dt.m) (hz : v.z.size = dt.m) (inf : Bool)
    (hσ : 0 < (if inf then v.κ else v.τ))
    (hsK : Equil.CompositeMem Equil.ConeMem cones v.s.toList)
    (hzK : Equil.CompositeMem Equil.ConeMemDual cones v.z.toList) :
    let out := Unscale.unscale v (InfoUser.toInfoEquil dt'.equilibration) inf
    Equil.CompositeMem Equil.ConeMem cones out.s.toList
    ∧ Equil.CompositeMem Equil.ConeMemDual cones out.z.toList := by
  intro out
  obtain ⟨hue, huei, hse, hsei⟩ := uniformOn_equilibrate dt dt' cones es hlo hhi hfresh heq
  obtain ⟨-, hc⟩ := pos_equilibrate dt dt' cones es hlo hhi hfresh heq
  have hk1 : 0 < 1 / (if inf then v.κ else v.τ) := one_div_pos.mpr hσ
  have hk2 : 0 < 1 / (if inf then v.κ else v.τ) * (1 / dt'.equilibration.c) :=
    mul_pos hk1 (one_div_pos.mpr hc)
  constructor
  · have e := unscale_s_toList v (InfoUser.toInfoEquil dt'.equilibration) inf
      (by show v.s.size = dt'.equilibration.einv.size; rw [hs, hsei])
    show CompositeMem ConeMem cones (Unscale.unscale v _ inf).s.toList
    rw [e, (compositeMem_smul cones hv _ hk1 _).1]
    show CompositeMem ConeMem cones (List.zipWith (· * ·) dt'.equilibration.einv.toList v.s.toList)
    rw [(compositeMem_scale cones hv _ _ (by simp [hs, hsei]) huei).1]
    exact hsK
  · have e := unscale_z_toList v (InfoUser.toInfoEquil dt'.equilibration) inf
      (by show v.z.size = dt'.equilibration.e.size; rw [hz, hse])
    show CompositeMem ConeMemDual cones (Unscale.unscale v _ inf).z.toList
    rw [e]
    show CompositeMem ConeMemDual cones
      ((List.zipWith (· * ·) dt'.equilibration.e.toList v.z.toList).map
        ((1 / (if inf then v.κ else v.τ) * (1 / dt'.equilibration.c)) * ·))
    rw [(compositeMem_smul cones hv _ hk2 _).2, (compositeMem_scale cones hv _ _ (by simp [hz, hse]) hue).2]
    exact hzK

/-! ### non-vacuity -/

/-- the hypotheses `hv`, `hsK`, `hzK` are satisfiable: `K = ℝ₊ × Q²`, `s = z = (1; 5, 3)` -/
example : ValidCones [ConeT.nonneg 1, .soc 2]
    ∧ CompositeMem ConeMem [ConeT.nonneg 1, .soc 2] [1, 5, 3]
    ∧ CompositeMem ConeMemDual [ConeT.nonneg 1, .soc 2] [1, 5, 3] := by
  refine ⟨?_, ?_, ?_⟩
  · intro c hc
    simp at hc
    rcases hc with rfl | rfl <;> simp [ValidCone]
  · simp [CompositeMem, ConeMem, ConeT.nvars, SocMem, sumSq]
    norm_num
  · simp [CompositeMem, ConeMemDual, ConeT.nvars, SocMem, sumSq]
    norm_num

/-- `compositeMem_smul` on that point: `2·(1; 5, 3)` is in the cone -/
example : CompositeMem ConeMem [ConeT.nonneg 1, .soc 2] (([1, 5, 3] : List ℝ).map ((2:ℝ) * ·)) := by
  refine (compositeMem_smul _ ?_ 2 (by norm_num) _).1.mpr ?_
  · intro c hc
    simp at hc
    rcases hc with rfl | rfl <;> simp [ValidCone]
  · simp [CompositeMem, ConeMem, ConeT.nvars, SocMem, sumSq]
    norm_num

end Clarabel.InfoCone
