/-
  Exponential cone (C14): partial derivatives of the model's dual barrier / gradient entries.
-/
import ClarabelModel.Cones.Exp
import ClarabelProofs.Lemmas.NonsymCalc

namespace Clarabel.Exp
open Clarabel Nonsym

/-- interior of the dual exponential cone in the coordinates of the model:
`z₀ < 0`, `z₂ > 0`, `r = z₁ - z₀ - z₀ log(-z₂/z₀) > 0`. -/
structure DualInt (z0 z1 z2 : ℝ) : Prop where
  h0 : z0 < 0
  h2 : 0 < z2
  hr : 0 < dualR z0 z1 z2

theorem arg_pos {z0 z2 : ℝ} (h0 : z0 < 0) (h2 : 0 < z2) : 0 < (-z2) / z0 :=
  div_pos_of_neg_of_neg (neg_neg_of_pos h2) h0

theorem barrierDual_eq (z0 z1 z2 : ℝ) :
    barrierDual z0 z1 z2 = -(logsafe ((-z2) * z0)) - logsafe (dualR z0 z1 z2) := by
  unfold barrierDual dualR dualL
  ring_nf

/-! ### `L = logsafe(-z₂/z₀)` -/

theorem dualL_d0 {z0 z2 : ℝ} (h0 : z0 < 0) (h2 : 0 < z2) :
    HasDerivAt (fun t => dualL t z2) (-(1 / z0)) z0 := by
  have hne : z0 ≠ 0 := ne_of_lt h0
  have h1 : HasDerivAt (fun t : ℝ => (-z2) / t) (-(-z2) / z0 ^ 2) z0 := by
    have := (hasDerivAt_inv hne).const_mul (-z2)
    refine (this.congr_deriv ?_).congr_of_eventuallyEq ?_
    · field_simp
    · exact Filter.Eventually.of_forall (fun t => by simp [div_eq_mul_inv])
  have h := h1.logsafe (arg_pos h0 h2)
  refine h.congr_deriv ?_
  have : z2 ≠ 0 := ne_of_gt h2
  field_simp

theorem dualL_d2 {z0 z2 : ℝ} (h0 : z0 < 0) (h2 : 0 < z2) :
    HasDerivAt (fun t => dualL z0 t) (1 / z2) z2 := by
  have hne : z0 ≠ 0 := ne_of_lt h0
  have h1 : HasDerivAt (fun t : ℝ => (-t) / z0) (-1 / z0) z2 := by
    have := ((hasDerivAt_id z2).neg).div_const z0
    exact this
  have h := h1.logsafe (arg_pos h0 h2)
  refine h.congr_deriv ?_
  have : z2 ≠ 0 := ne_of_gt h2
  field_simp

/-! ### `r = -z₀ L - z₀ + z₁` -/

theorem dualR_d0 {z0 z1 z2 : ℝ} (h0 : z0 < 0) (h2 : 0 < z2) :
    HasDerivAt (fun t => dualR t z1 z2) (-(dualL z0 z2)) z0 := by
  have hne : z0 ≠ 0 := ne_of_lt h0
  have hL := dualL_d0 h0 h2
  have h := ((((hasDerivAt_id z0).neg).mul hL).sub (hasDerivAt_id z0)).add_const z1
  refine h.congr_deriv ?_
  simp only [Pi.neg_apply, id_eq]
  field_simp
  ring

theorem dualR_d1 (z0 z1 z2 : ℝ) : HasDerivAt (fun t => dualR z0 t z2) 1 z1 := by
  have h := (hasDerivAt_id z1).const_add ((-z0) * dualL z0 z2 - z0)
  exact h

theorem dualR_d2 {z0 z1 z2 : ℝ} (h0 : z0 < 0) (h2 : 0 < z2) :
    HasDerivAt (fun t => dualR z0 z1 t) (-z0 / z2) z2 := by
  have hL := dualL_d2 h0 h2
  have h := ((hL.const_mul (-z0)).sub_const z0).add_const z1
  refine h.congr_deriv ?_
  ring


/-! ### the barrier along each coordinate -/

theorem barrier_d0 {z0 z1 z2 : ℝ} (h : DualInt z0 z1 z2) :
    HasDerivAt (fun t => barrierDual t z1 z2) (grad0 z0 z1 z2) z0 := by
  obtain ⟨h0, h2, hr⟩ := h
  have e : (fun t => barrierDual t z1 z2) = fun t => -(logsafe ((-z2) * t)) - logsafe (dualR t z1 z2) :=
    funext fun t => barrierDual_eq t z1 z2
  rw [e]
  have ha : HasDerivAt (fun t : ℝ => (-z2) * t) (-z2) z0 := by
    simpa using (hasDerivAt_id z0).const_mul (-z2)
  have hpos : 0 < (-z2) * z0 := mul_pos_of_neg_of_neg (neg_neg_of_pos h2) h0
  have h := ((ha.logsafe hpos).neg).sub ((dualR_d0 (z1 := z1) h0 h2).logsafe hr)
  refine h.congr_deriv ?_
  unfold grad0 recip
  have : z0 ≠ 0 := ne_of_lt h0
  have : z2 ≠ 0 := ne_of_gt h2
  have : dualR z0 z1 z2 ≠ 0 := ne_of_gt hr
  field_simp
  ring

theorem barrier_d1 {z0 z1 z2 : ℝ} (h : DualInt z0 z1 z2) :
    HasDerivAt (fun t => barrierDual z0 t z2) (grad1 z0 z1 z2) z1 := by
  obtain ⟨h0, h2, hr⟩ := h
  have e : (fun t => barrierDual z0 t z2) = fun t => -(logsafe ((-z2) * z0)) - logsafe (dualR z0 t z2) :=
    funext fun t => barrierDual_eq z0 t z2
  rw [e]
  have h := ((dualR_d1 z0 z1 z2).logsafe hr).const_sub (-(logsafe ((-z2) * z0)))
  refine h.congr_deriv ?_
  unfold grad1 recip
  ring

theorem barrier_d2 {z0 z1 z2 : ℝ} (h : DualInt z0 z1 z2) :
    HasDerivAt (fun t => barrierDual z0 z1 t) (grad2 z0 z1 z2) z2 := by
  obtain ⟨h0, h2, hr⟩ := h
  have e : (fun t => barrierDual z0 z1 t) = fun t => -(logsafe ((-t) * z0)) - logsafe (dualR z0 z1 t) :=
    funext fun t => barrierDual_eq z0 z1 t
  rw [e]
  have ha : HasDerivAt (fun t : ℝ => (-t) * z0) (-z0) z2 := by
    simpa using ((hasDerivAt_id z2).neg).mul_const z0
  have hpos : 0 < (-z2) * z0 := mul_pos_of_neg_of_neg (neg_neg_of_pos h2) h0
  have h := ((ha.logsafe hpos).neg).sub ((dualR_d2 (z1 := z1) h0 h2).logsafe hr)
  refine h.congr_deriv ?_
  unfold grad2 recip
  have : z0 ≠ 0 := ne_of_lt h0
  have : z2 ≠ 0 := ne_of_gt h2
  have : dualR z0 z1 z2 ≠ 0 := ne_of_gt hr
  field_simp
  ring


/-! ### the gradient entries along each coordinate (rows of the Hessian) -/

theorem grad0_eq (z0 z1 z2 : ℝ) : grad0 z0 z1 z2 = dualL z0 z2 / dualR z0 z1 z2 - 1 / z0 := by
  unfold grad0 recip; ring
theorem grad1_eq (z0 z1 z2 : ℝ) : grad1 z0 z1 z2 = -(1 / dualR z0 z1 z2) := by
  unfold grad1 recip; ring
theorem grad2_eq (z0 z1 z2 : ℝ) : grad2 z0 z1 z2 = (z0 / dualR z0 z1 z2 - 1) / z2 := by
  unfold grad2 recip; ring

section
variable {z0 z1 z2 : ℝ} (h : DualInt z0 z1 z2)
include h

theorem grad0_d0 : HasDerivAt (fun t => grad0 t z1 z2) (h00 z0 z1 z2) z0 := by
  obtain ⟨h0, h2, hr⟩ := h
  rw [funext fun t => grad0_eq t z1 z2]
  have n0 : z0 ≠ 0 := ne_of_lt h0
  have n2 : z2 ≠ 0 := ne_of_gt h2
  have nr : dualR z0 z1 z2 ≠ 0 := ne_of_gt hr
  have hd := ((dualL_d0 h0 h2).div (dualR_d0 (z1 := z1) h0 h2) nr).sub ((hasDerivAt_inv n0).const_mul 1)
  refine (hd.congr_deriv ?_).congr_of_eventuallyEq (Filter.Eventually.of_forall fun t => by simp [div_eq_mul_inv])
  unfold h00
  field_simp
  ring

theorem grad1_d0 : HasDerivAt (fun t => grad1 t z1 z2) (h01 z0 z1 z2) z0 := by
  obtain ⟨h0, h2, hr⟩ := h
  rw [funext fun t => grad1_eq t z1 z2]
  have nr : dualR z0 z1 z2 ≠ 0 := ne_of_gt hr
  have hd := (((dualR_d0 (z1 := z1) h0 h2).inv nr)).neg
  refine (hd.congr_deriv ?_).congr_of_eventuallyEq (Filter.Eventually.of_forall fun t => by simp)
  unfold h01
  field_simp

theorem grad2_d0 : HasDerivAt (fun t => grad2 t z1 z2) (h02 z0 z1 z2) z0 := by
  obtain ⟨h0, h2, hr⟩ := h
  rw [funext fun t => grad2_eq t z1 z2]
  have n0 : z0 ≠ 0 := ne_of_lt h0
  have n2 : z2 ≠ 0 := ne_of_gt h2
  have nr : dualR z0 z1 z2 ≠ 0 := ne_of_gt hr
  have hd := ((((hasDerivAt_id z0).div (dualR_d0 (z1 := z1) h0 h2) nr).sub_const 1).div_const z2)
  refine (hd.congr_deriv ?_).congr_of_eventuallyEq (Filter.Eventually.of_forall fun t => by simp)
  unfold h02
  simp only [id_eq]
  field_simp
  unfold dualR
  ring

theorem grad0_d1 : HasDerivAt (fun t => grad0 z0 t z2) (h01 z0 z1 z2) z1 := by
  obtain ⟨h0, h2, hr⟩ := h
  rw [funext fun t => grad0_eq z0 t z2]
  have nr : dualR z0 z1 z2 ≠ 0 := ne_of_gt hr
  have hd := (((dualR_d1 z0 z1 z2).inv nr).const_mul (dualL z0 z2)).sub_const (1 / z0)
  refine (hd.congr_deriv ?_).congr_of_eventuallyEq (Filter.Eventually.of_forall fun t => by simp [div_eq_mul_inv])
  unfold h01
  field_simp

theorem grad1_d1 : HasDerivAt (fun t => grad1 z0 t z2) (h11 z0 z1 z2) z1 := by
  obtain ⟨h0, h2, hr⟩ := h
  rw [funext fun t => grad1_eq z0 t z2]
  have nr : dualR z0 z1 z2 ≠ 0 := ne_of_gt hr
  have hd := (((dualR_d1 z0 z1 z2).inv nr)).neg
  refine (hd.congr_deriv ?_).congr_of_eventuallyEq (Filter.Eventually.of_forall fun t => by simp)
  unfold h11 recip
  field_simp

theorem grad2_d1 : HasDerivAt (fun t => grad2 z0 t z2) (h12 z0 z1 z2) z1 := by
  obtain ⟨h0, h2, hr⟩ := h
  rw [funext fun t => grad2_eq z0 t z2]
  have n2 : z2 ≠ 0 := ne_of_gt h2
  have nr : dualR z0 z1 z2 ≠ 0 := ne_of_gt hr
  have hd := (((((dualR_d1 z0 z1 z2).inv nr).const_mul z0).sub_const 1).div_const z2)
  refine (hd.congr_deriv ?_).congr_of_eventuallyEq (Filter.Eventually.of_forall fun t => by simp [div_eq_mul_inv])
  unfold h12
  field_simp

theorem grad0_d2 : HasDerivAt (fun t => grad0 z0 z1 t) (h02 z0 z1 z2) z2 := by
  obtain ⟨h0, h2, hr⟩ := h
  rw [funext fun t => grad0_eq z0 z1 t]
  have n0 : z0 ≠ 0 := ne_of_lt h0
  have n2 : z2 ≠ 0 := ne_of_gt h2
  have nr : dualR z0 z1 z2 ≠ 0 := ne_of_gt hr
  have hd := ((dualL_d2 h0 h2).div (dualR_d2 (z1 := z1) h0 h2) nr).sub_const (1 / z0)
  refine hd.congr_deriv ?_
  unfold h02
  field_simp
  unfold dualR
  ring

theorem grad1_d2 : HasDerivAt (fun t => grad1 z0 z1 t) (h12 z0 z1 z2) z2 := by
  obtain ⟨h0, h2, hr⟩ := h
  rw [funext fun t => grad1_eq z0 z1 t]
  have n2 : z2 ≠ 0 := ne_of_gt h2
  have nr : dualR z0 z1 z2 ≠ 0 := ne_of_gt hr
  have hd := (((dualR_d2 (z1 := z1) h0 h2).inv nr)).neg
  refine (hd.congr_deriv ?_).congr_of_eventuallyEq (Filter.Eventually.of_forall fun t => by simp)
  unfold h12
  field_simp

theorem grad2_d2 : HasDerivAt (fun t => grad2 z0 z1 t) (h22 z0 z1 z2) z2 := by
  obtain ⟨h0, h2, hr⟩ := h
  rw [funext fun t => grad2_eq z0 z1 t]
  have n2 : z2 ≠ 0 := ne_of_gt h2
  have nr : dualR z0 z1 z2 ≠ 0 := ne_of_gt hr
  have hd := ((((dualR_d2 (z1 := z1) h0 h2).inv nr).const_mul z0).sub_const 1).div (hasDerivAt_id z2) n2
  refine (hd.congr_deriv ?_).congr_of_eventuallyEq (Filter.Eventually.of_forall fun t => by simp [div_eq_mul_inv])
  unfold h22
  simp only [id_eq, Pi.inv_apply]
  field_simp
  ring

end

end Clarabel.Exp
