/-
  C16, dense matrix model: `kron.rs` (Kronecker product) and tables whose entries are
  checked reads.  [S] = every scalar type.
-/
import ClarabelProofs.Lemmas.DenseCore

namespace Clarabel.Dense
open Clarabel

variable {α : Type}

theorem mapM_exists {β γ : Type} (f : β → MErr γ) : ∀ (l : List β), (∀ p ∈ l, ∃ o, f p = .ok o) →
    ∃ os, l.mapM f = .ok os ∧ os.length = l.length ∧
      ∀ k (h : k < l.length), ∃ (h' : k < os.length), f l[k] = .ok os[k] := by
  intro l
  induction l with
  | nil => intro _; exact ⟨[], rfl, rfl, fun k h => by simp at h⟩
  | cons a t ih =>
    intro h
    obtain ⟨o, ho⟩ := h a (by simp)
    obtain ⟨os, h1, h2, h3⟩ := ih (fun p hp => h p (List.mem_cons_of_mem _ hp))
    refine ⟨o :: os, ?_, by simp [h2], ?_⟩
    · rw [List.mapM_cons, ho, h1]; rfl
    · intro k hk
      cases k with
      | zero => exact ⟨by simp, by simpa using ho⟩
      | succ k =>
        obtain ⟨h', hk'⟩ := h3 k (by simpa using hk)
        exact ⟨by simpa using h', by simpa using hk'⟩

/-- a table of successful reads: it exists, has `m*n` entries and entry `(i, j)` is what the
read returned -/
theorem tabulate_exists (m n : Nat) (f : Nat → Nat → MErr α)
    (h : ∀ i j, i < m → j < n → ∃ x, f i j = .ok x) :
    ∃ t, tabulate m n f = .ok t ∧ t.size = m * n ∧
      ∀ i j, i < m → j < n → ∃ x, f i j = .ok x ∧ t[i + m * j]? = some x := by
  obtain ⟨os, h1, h2, h3⟩ := mapM_exists (fun k => f (k % m) (k / m)) (List.range (m * n)) (by
    intro k hk
    have hk' : k < m * n := List.mem_range.mp hk
    exact h _ _ (mod_lt_of_lt_mul hk') (div_lt_of_lt_mul' hk'))
  refine ⟨os.toArray, ?_, by simpa using h2, ?_⟩
  · unfold tabulate; rw [h1]; rfl
  · intro i j hi hj
    have hk : i + m * j < (List.range (m * n)).length := by simpa using lin_lt hi hj
    obtain ⟨h', hk'⟩ := h3 _ hk
    simp only [List.getElem_range, lin_mod hi, lin_div hi] at hk'
    exact ⟨os[i + m * j], hk', by simp [h']⟩

theorem tabulate_empty (m n : Nat) (f : Nat → Nat → MErr α) (h : m * n = 0) :
    tabulate m n f = .ok #[] := by
  unfold tabulate; rw [h]; rfl

/-- [S] Kronecker product: `K.kron(A, B)` with `K` of the right shape writes
`A[p,q]·B[r,s]` at `(p·rr + r, q·ss + s)`; `A`, `B` are any view (a `sym()` view of a square
matrix) -/
theorem kron_spec [Mul α] (K A B : Dense α) (va vb : DView) (hK : WF K) (hA : WF A) (hB : WF B)
    (hSa : va = .S → A.m = A.n) (hSb : vb = .S → B.m = B.n)
    (hm : K.m = nrowsV va A * nrowsV vb B) (hn : K.n = ncolsV va A * ncolsV vb B) :
    ∃ R, kron K va A vb B = .ok R ∧ R.m = K.m ∧ R.n = K.n ∧ WF R ∧
      ∀ p q r s, p < nrowsV va A → q < ncolsV va A → r < nrowsV vb B → s < ncolsV vb B →
        ∃ a b, atV? va A p q = some a ∧ atV? vb B r s = some b ∧
          at? R (p * nrowsV vb B + r) (q * ncolsV vb B + s) = some (a * b) := by
  set pp := nrowsV va A with hpp
  set qq := ncolsV va A with hqq
  set rr := nrowsV vb B with hrr
  set ss := ncolsV vb B with hss
  -- the reads of A alone
  have hpre : ∃ t, tabulate pp qq (fun p q => get va A p q) = .ok t := by
    obtain ⟨t, ht, _⟩ := tabulate_exists pp qq (fun p q => get va A p q) (fun p q hp hq => by
      obtain ⟨x, hx, _⟩ := get_ok va A hA hSa hp hq
      exact ⟨x, hx⟩)
    exact ⟨t, ht⟩
  obtain ⟨tpre, htpre⟩ := hpre
  -- the product table
  have hdiv : ∀ row col, row < pp * rr → col < qq * ss →
      row / rr < pp ∧ row % rr < rr ∧ col / ss < qq ∧ col % ss < ss := by
    intro row col hrow hcol
    have hr0 : 0 < rr := by
      rcases Nat.eq_zero_or_pos rr with h | h
      · rw [h] at hrow; simp at hrow
      · exact h
    have hs0 : 0 < ss := by
      rcases Nat.eq_zero_or_pos ss with h | h
      · rw [h] at hcol; simp at hcol
      · exact h
    refine ⟨?_, Nat.mod_lt _ hr0, ?_, Nat.mod_lt _ hs0⟩
    · exact Nat.div_lt_of_lt_mul (by rwa [Nat.mul_comm] at hrow)
    · exact Nat.div_lt_of_lt_mul (by rwa [Nat.mul_comm] at hcol)
  obtain ⟨vals, hv1, hv2, hv3⟩ := tabulate_exists (pp * rr) (qq * ss) (fun row col => do
      let a ← get va A (row / rr) (col / ss)
      let b ← get vb B (row % rr) (col % ss)
      pure (a * b)) (fun row col hrow hcol => by
    obtain ⟨h1, h2, h3, h4⟩ := hdiv row col hrow hcol
    obtain ⟨a, ha, _⟩ := get_ok va A hA hSa h1 h3
    obtain ⟨b, hb, _⟩ := get_ok vb B hB hSb h2 h4
    exact ⟨a * b, by rw [ha]; show (do let b ← get vb B _ _; pure (a * b)) = _; rw [hb]; rfl⟩)
  have hsz : vals.size = K.data.size := by rw [hv2, hK, hm, hn]
  refine ⟨{ K with data := (vals.toList ++ K.data.toList.drop vals.size).toArray }, ?_, rfl, rfl, ?_, ?_⟩
  · unfold kron
    simp only [← hpp, ← hqq, ← hrr, ← hss]
    have e1 : (K.m != pp * rr) = false := by simp [hm]
    have e2 : (K.n != qq * ss) = false := by simp [hn]
    simp only [e1, e2, Bool.false_eq_true, ↓reduceIte]
    have e3 : ¬ vals.size > K.data.size := by omega
    by_cases hs : ss > 0
    · simp only [hs, ↓reduceIte, htpre, hv1]
      show (if vals.size > K.data.size then _ else _) = _
      rw [if_neg e3]; rfl
    · simp only [hs, ↓reduceIte, hv1]
      show (if vals.size > K.data.size then _ else _) = _
      rw [if_neg e3]; rfl
  · simp only [WF, List.size_toArray, List.length_append, Array.length_toList, List.length_drop]
    rw [← hK]; omega
  · intro p q r s hp hq hr hs
    have hrow : p * rr + r < pp * rr := by
      calc p * rr + r < p * rr + rr := by omega
        _ = (p + 1) * rr := by ring
        _ ≤ pp * rr := Nat.mul_le_mul_right _ hp
    have hcol : q * ss + s < qq * ss := by
      calc q * ss + s < q * ss + ss := by omega
        _ = (q + 1) * ss := by ring
        _ ≤ qq * ss := Nat.mul_le_mul_right _ hq
    obtain ⟨x, hx, hxat⟩ := hv3 _ _ hrow hcol
    have d1 : (p * rr + r) / rr = p := by
      rw [Nat.add_comm, Nat.mul_comm]; exact lin_div hr
    have d2 : (p * rr + r) % rr = r := by
      rw [Nat.add_comm, Nat.mul_comm]; exact lin_mod hr
    have d3 : (q * ss + s) / ss = q := by
      rw [Nat.add_comm, Nat.mul_comm]; exact lin_div hs
    have d4 : (q * ss + s) % ss = s := by
      rw [Nat.add_comm, Nat.mul_comm]; exact lin_mod hs
    simp only [d1, d2, d3, d4] at hx
    obtain ⟨a, ha, haat⟩ := get_ok va A hA hSa hp hq
    obtain ⟨b, hb, hbat⟩ := get_ok vb B hB hSb hr hs
    rw [ha] at hx
    change (do let b ← get vb B r s; pure (a * b)) = _ at hx
    rw [hb] at hx
    have hxe : x = a * b := by cases hx; rfl
    refine ⟨a, b, haat, hbat, ?_⟩
    simp only [at?, hm, List.getElem?_toArray]
    have hlt : p * rr + r + pp * rr * (q * ss + s) < vals.size := by
      rw [hv2]; exact lin_lt hrow hcol
    rw [List.getElem?_append_left (by simpa using hlt)]
    rw [← hxe, ← hxat]
    simp

end Clarabel.Dense
