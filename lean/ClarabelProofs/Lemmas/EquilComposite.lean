/-
  C10 `cone_preserved`, composed over a whole cone list (all seven kinds):

  * `ConeMem` / `ConeMemDual` : membership of a segment in one cone / in its dual, stated on
    the model's own tests where the model has one (`Exp/Pow/GenPow.isPrimalFeasible`,
    `isDualFeasible` — the interior tests of the non-symmetric cones), on the square-root
    free norm inequality for the second-order cone and on the quadratic form of
    `svec_to_mat` (`PsdTri.svecToMat`, C13) for the PSD triangle cone;
  * `CompositeMem` : the product over the cone list, cut exactly like `rng_cones`;
  * `UniformOn cones e` : `e` is positive and constant on the rows of every cone that is not a
    product of scalar cones;
  * `compositeMem_scale` : `UniformOn cones e → (E s ∈ K ↔ s ∈ K)`, likewise for `K*`;
  * `uniformOn_rectify` : what `rectify_equilibration` writes makes `e ∘ δ` uniform.
-/
import ClarabelProofs.Lemmas.Equil
import ClarabelProofs.Lemmas.EquilCones
import ClarabelProofs.Lemmas.EquilGenPow
import ClarabelProofs.Lemmas.ConesPsdSvec

namespace Clarabel.Equil
open Clarabel Cones

/-! ### one cone -/

/-- `seg ∈ K` for one cone of the list (`seg` = the cone's rows) -/
def ConeMem : ConeT ℝ → List ℝ → Prop
  | .zero _, s => ∀ x ∈ s, x = 0
  | .nonneg _, s => ∀ x ∈ s, 0 ≤ x
  | .soc _, s => SocMem s
  | .exp, s => match s with
    | [a, b, c] => Exp.isPrimalFeasible a b c = true
    | _ => False
  | .pow al, s => match s with
    | [a, b, c] => Pow.isPrimalFeasible al a b c = true
    | _ => False
  | .genpow al _, s => GenPow.isPrimalFeasible al s.toArray = .ok true
  | .psd n, s => ∀ x : Fin n → ℝ, 0 ≤ quadForm (fun i j => PsdTri.svecToMat s.toArray i j) x

/-- `seg ∈ K*` for one cone of the list -/
def ConeMemDual : ConeT ℝ → List ℝ → Prop
  | .zero _, _ => True
  | .nonneg _, s => ∀ x ∈ s, 0 ≤ x
  | .soc _, s => SocMem s
  | .exp, s => match s with
    | [a, b, c] => Exp.isDualFeasible a b c = true
    | _ => False
  | .pow al, s => match s with
    | [a, b, c] => Pow.isDualFeasible al a b c = true
    | _ => False
  | .genpow al _, s => GenPow.isDualFeasible al s.toArray = .ok true
  | .psd n, s => ∀ x : Fin n → ℝ, 0 ≤ quadForm (fun i j => PsdTri.svecToMat s.toArray i j) x

/-- what the constructors of the cones assert about their parameters (over ℝ):
`PowerCone`: `0 < α < 1`; `GenPowerCone`: all `αᵢ > 0`, `Σ αᵢ = 1` -/
def ValidCone : ConeT ℝ → Prop
  | .pow a => 0 < a ∧ a < 1
  | .genpow al _ => GenPow.AllPos al.toList ∧ al.toList.sum = 1
  | _ => True

/-- `svec_to_mat (k·s) = k · svec_to_mat s` -/
theorem svecToMat_map_mul (k : ℝ) (s : List ℝ) (i j : Nat) :
    PsdTri.svecToMat (s.map (k * ·)).toArray i j = k * PsdTri.svecToMat s.toArray i j := by
  have h : ∀ p, (s.map (k * ·)).toArray.getD p 0 = k * s.toArray.getD p 0 := by
    intro p
    by_cases hp : p < s.length
    · simp [Array.getD, hp]
    · simp [Array.getD, hp]
  unfold PsdTri.svecToMat
  simp only [h]
  split
  · rfl
  · split <;> ring

theorem quadForm_nonneg_scale {n : Nat} (k : ℝ) (hk : 0 < k) (S : Fin n → Fin n → ℝ) :
    (∀ x, 0 ≤ quadForm (fun i j => k * S i j) x) ↔ (∀ x, 0 ≤ quadForm S x) := by
  constructor
  · intro h x
    have := h x
    rw [quadForm_scale] at this
    exact le_of_mul_le_mul_left (by simpa using this) hk
  · intro h x
    rw [quadForm_scale]
    exact mul_nonneg hk.le (h x)

/-- [R] a positive uniform scaling of the rows of any cone preserves membership -/
theorem coneMem_scale (c : ConeT ℝ) (k : ℝ) (hk : 0 < k) (hv : ValidCone c) (seg : List ℝ) :
    ConeMem c (seg.map (k * ·)) ↔ ConeMem c seg := by
  cases c with
  | zero n =>
    simp only [ConeMem, List.mem_map, forall_exists_index, and_imp, forall_apply_eq_imp_iff₂]
    exact ⟨fun h x hx => (mul_eq_zero.mp (h x hx)).resolve_left hk.ne', fun h x hx => by rw [h x hx, mul_zero]⟩
  | nonneg n =>
    simp only [ConeMem, List.mem_map, forall_exists_index, and_imp, forall_apply_eq_imp_iff₂]
    exact ⟨fun h x hx => le_of_mul_le_mul_left (by simpa using h x hx) hk,
      fun h x hx => mul_nonneg hk.le (h x hx)⟩
  | soc n => exact socMem_scale k hk seg
  | exp =>
    match seg with
    | [] | [_] | [_, _] | _ :: _ :: _ :: _ :: _ => simp [ConeMem]
    | [a, b, c] =>
      simp only [ConeMem, List.map_cons, List.map_nil]
      rw [exp_primal_scale k a b c hk]
  | pow al =>
    match seg with
    | [] | [_] | [_, _] | _ :: _ :: _ :: _ :: _ => simp [ConeMem]
    | [a, b, c] =>
      simp only [ConeMem, List.map_cons, List.map_nil]
      rw [pow_primal_scale al k a b c hk]
  | genpow al d =>
    obtain ⟨_, hsum⟩ := hv
    have := GenPow.isPrimalFeasible_scale_seg k hk al.toList seg hsum
    simpa [ConeMem] using this
  | psd n =>
    simp only [ConeMem, svecToMat_map_mul]
    exact quadForm_nonneg_scale k hk _

/-- [R] a positive uniform scaling of the rows of any cone preserves membership in the dual -/
theorem coneMemDual_scale (c : ConeT ℝ) (k : ℝ) (hk : 0 < k) (hv : ValidCone c) (seg : List ℝ) :
    ConeMemDual c (seg.map (k * ·)) ↔ ConeMemDual c seg := by
  cases c with
  | zero n => simp [ConeMemDual]
  | nonneg n =>
    simp only [ConeMemDual, List.mem_map, forall_exists_index, and_imp, forall_apply_eq_imp_iff₂]
    exact ⟨fun h x hx => le_of_mul_le_mul_left (by simpa using h x hx) hk,
      fun h x hx => mul_nonneg hk.le (h x hx)⟩
  | soc n => exact socMem_scale k hk seg
  | exp =>
    match seg with
    | [] | [_] | [_, _] | _ :: _ :: _ :: _ :: _ => simp [ConeMemDual]
    | [a, b, c] =>
      simp only [ConeMemDual, List.map_cons, List.map_nil]
      rw [exp_dual_scale k a b c hk]
  | pow al =>
    match seg with
    | [] | [_] | [_, _] | _ :: _ :: _ :: _ :: _ => simp [ConeMemDual]
    | [a, b, c] =>
      simp only [ConeMemDual, List.map_cons, List.map_nil]
      rw [pow_dual_scale al k a b c hk hv.1 hv.2]
  | genpow al d =>
    obtain ⟨ha, hsum⟩ := hv
    have := GenPow.isDualFeasible_scale_seg k hk al.toList seg ha hsum
    simpa [ConeMemDual] using this
  | psd n =>
    simp only [ConeMemDual, svecToMat_map_mul]
    exact quadForm_nonneg_scale k hk _

/-- entries of `zipWith (·*·) e s` -/
theorem mem_zipWith_mul {e s : List ℝ} (hlen : e.length = s.length) {P : ℝ → Prop}
    (Q : ℝ → Prop) (hPQ : ∀ a x, 0 < a → (P (a * x) ↔ Q x)) (he : ∀ a ∈ e, 0 < a) :
    (∀ y ∈ List.zipWith (· * ·) e s, P y) ↔ (∀ x ∈ s, Q x) := by
  induction e generalizing s with
  | nil =>
    cases s with
    | nil => simp
    | cons _ _ => simp at hlen
  | cons a t ih =>
    cases s with
    | nil => simp at hlen
    | cons x r =>
      simp only [List.zipWith_cons_cons, List.forall_mem_cons]
      rw [hPQ a x (he a (by simp)), ih (by simpa using hlen) (fun b hb => he b (by simp [hb]))]

/-- [F] zero / nonnegative cones: *any* positive diagonal scaling preserves membership -/
theorem coneMem_scalar (c : ConeT ℝ) (hc : c.isScalar = true) (e seg : List ℝ)
    (hlen : e.length = seg.length) (he : ∀ a ∈ e, 0 < a) :
    (ConeMem c (List.zipWith (· * ·) e seg) ↔ ConeMem c seg) ∧
    (ConeMemDual c (List.zipWith (· * ·) e seg) ↔ ConeMemDual c seg) := by
  cases c with
  | zero n =>
    refine ⟨?_, by simp [ConeMemDual]⟩
    exact mem_zipWith_mul hlen (fun x => x = 0)
      (fun a x ha => ⟨fun h => (mul_eq_zero.mp h).resolve_left ha.ne', fun h => by rw [h, mul_zero]⟩) he
  | nonneg n =>
    have := mem_zipWith_mul (P := fun y => 0 ≤ y) hlen (fun x => 0 ≤ x)
      (fun a x ha => ⟨fun h => le_of_mul_le_mul_left (by simpa using h) ha, fun h => mul_nonneg ha.le h⟩) he
    exact ⟨this, this⟩
  | soc _ | exp | pow _ | genpow _ _ | psd _ => simp [ConeT.isScalar] at hc

/-- a constant segment acts as a uniform scaling -/
theorem zipWith_const (k : ℝ) (e seg : List ℝ) (hlen : e.length = seg.length) (he : ∀ a ∈ e, a = k) :
    List.zipWith (· * ·) e seg = seg.map (k * ·) := by
  induction e generalizing seg with
  | nil =>
    cases seg with
    | nil => rfl
    | cons _ _ => simp at hlen
  | cons a t ih =>
    cases seg with
    | nil => simp at hlen
    | cons x r =>
      simp only [List.zipWith_cons_cons, List.map_cons]
      rw [he a (by simp), ih r (by simpa using hlen) (fun b hb => he b (by simp [hb]))]

/-! ### the cone list -/

/-- membership in the product cone: the vector is cut into the cones' ranges in order -/
def CompositeMem (mem : ConeT ℝ → List ℝ → Prop) : List (ConeT ℝ) → List ℝ → Prop
  | [], _ => True
  | c :: cs, s => mem c (s.take c.nvars) ∧ CompositeMem mem cs (s.drop c.nvars)

/-- every cone of the list has admissible parameters -/
def ValidCones (cones : List (ConeT ℝ)) : Prop := ∀ c ∈ cones, ValidCone c

/-- `e` is positive on the rows of the cone list and constant on the rows of every cone that
is not a product of scalar cones -/
def UniformOn {α : Type} [Zero α] [LT α] : List (ConeT α) → List α → Prop
  | [], _ => True
  | c :: cs, e => (∀ a ∈ e.take c.nvars, 0 < a) ∧
      (c.isScalar = false → ∃ k, ∀ a ∈ e.take c.nvars, a = k) ∧ UniformOn cs (e.drop c.nvars)

/-- [R] **composed cone preservation**, abstract form: a diagonal scaling that is positive and
uniform on every non-scalar cone maps the product cone onto itself. -/
theorem compositeMem_scale (cones : List (ConeT ℝ)) (hv : ValidCones cones) (e s : List ℝ)
    (hlen : e.length = s.length) (hu : UniformOn cones e) :
    (CompositeMem ConeMem cones (List.zipWith (· * ·) e s) ↔ CompositeMem ConeMem cones s) ∧
    (CompositeMem ConeMemDual cones (List.zipWith (· * ·) e s) ↔ CompositeMem ConeMemDual cones s) := by
  induction cones generalizing e s with
  | nil => simp [CompositeMem]
  | cons c cs ih =>
    obtain ⟨hpos, hconst, hrest⟩ := hu
    have hvc : ValidCone c := hv c (by simp)
    have hih := ih (fun c' hc' => hv c' (by simp [hc'])) (e.drop c.nvars) (s.drop c.nvars)
      (by simp [hlen]) hrest
    have hl : (e.take c.nvars).length = (s.take c.nvars).length := by simp [hlen]
    simp only [CompositeMem, List.take_zipWith, List.drop_zipWith]
    have hhead : (ConeMem c (List.zipWith (· * ·) (e.take c.nvars) (s.take c.nvars)) ↔ ConeMem c (s.take c.nvars)) ∧
        (ConeMemDual c (List.zipWith (· * ·) (e.take c.nvars) (s.take c.nvars)) ↔
          ConeMemDual c (s.take c.nvars)) := by
      cases hsc : c.isScalar with
      | true => exact coneMem_scalar c hsc _ _ hl hpos
      | false =>
        obtain ⟨k, hk⟩ := hconst hsc
        rw [zipWith_const k _ _ hl hk]
        cases hne : e.take c.nvars with
        | nil =>
          have : s.take c.nvars = [] := by
            have := hl; rw [hne] at this; exact List.length_eq_zero_iff.mp this.symm
          rw [this]; simp
        | cons a t =>
          have hkpos : 0 < k := by
            have ha : a ∈ e.take c.nvars := by rw [hne]; simp
            rw [← hk a ha]; exact hpos a ha
          exact ⟨coneMem_scale c k hkpos hvc _, coneMemDual_scale c k hkpos hvc _⟩
    exact ⟨and_congr hhead.1 hih.1, and_congr hhead.2 hih.2⟩

section generic
variable {α : Type} [Field α] [LinearOrder α] [IsStrictOrderedRing α] [FloatLike α] [LawfulFloatLike α]

/-- `UniformOn` passes to the reciprocals (`einv = 1/e`) -/
theorem UniformOn.inv {cones : List (ConeT α)} {e : List α} (h : UniformOn cones e) :
    UniformOn cones (e.map (fun v => 1 / v)) := by
  induction cones generalizing e with
  | nil => trivial
  | cons c cs ih =>
    obtain ⟨hpos, hconst, hrest⟩ := h
    refine ⟨?_, ?_, ?_⟩
    · intro a ha
      rw [← List.map_take] at ha
      obtain ⟨b, hb, rfl⟩ := List.mem_map.mp ha
      exact one_div_pos.mpr (hpos b hb)
    · intro hsc
      obtain ⟨k, hk⟩ := hconst hsc
      refine ⟨1 / k, ?_⟩
      intro a ha
      rw [← List.map_take] at ha
      obtain ⟨b, hb, rfl⟩ := List.mem_map.mp ha
      rw [hk b hb]
    · rw [← List.map_drop]; exact ih hrest

/-- an everywhere-positive vector is `UniformOn` a list of scalar cones -/
theorem uniformOn_of_scalar (cones : List (ConeT α)) (hs : ∀ c ∈ cones, c.isScalar = true) (e : List α)
    (he : ∀ a ∈ e, 0 < a) : UniformOn cones e := by
  induction cones generalizing e with
  | nil => trivial
  | cons c cs ih =>
    refine ⟨fun a ha => he a (List.mem_of_mem_take ha), ?_, ?_⟩
    · intro hc; rw [hs c (by simp)] at hc; cases hc
    · exact ih (fun c' hc' => hs c' (by simp [hc'])) _ (fun a ha => he a (List.mem_of_mem_drop ha))

/-- the all-ones vector (identity scaling) is `UniformOn` every cone list -/
theorem uniformOn_replicate_one (cones : List (ConeT α)) (m : Nat) :
    UniformOn cones (List.replicate m (1 : α)) := by
  induction cones generalizing m with
  | nil => trivial
  | cons c cs ih =>
    refine ⟨?_, ?_, ?_⟩
    · intro a ha
      have := List.mem_of_mem_take ha
      rw [List.mem_replicate] at this
      rw [this.2]; exact one_pos
    · intro _
      refine ⟨1, fun a ha => ?_⟩
      have := List.mem_of_mem_take ha
      rw [List.mem_replicate] at this
      exact this.2
    · rw [List.drop_replicate]; exact ih _

/-! ### what `rectify_equilibration` produces -/

theorem foldl_add_pos (seg : List α) (acc : α) (hacc : 0 ≤ acc) (h : ∀ x ∈ seg, 0 < x) (hne : seg ≠ []) :
    0 < seg.foldl (fun a v => a + v) acc := by
  induction seg generalizing acc with
  | nil => exact absurd rfl hne
  | cons x xs ih =>
    simp only [List.foldl_cons]
    have hx := h x (by simp)
    cases xs with
    | nil => simp; linarith
    | cons y ys => exact ih (acc + x) (by linarith) (fun z hz => h z (by simp [hz])) (by simp)

theorem meanL_pos (seg : List α) (h : ∀ x ∈ seg, 0 < x) (hne : seg ≠ []) : 0 < meanL seg := by
  unfold meanL
  have hpos : 0 < seg.length := List.length_pos_iff.mpr hne
  rw [if_neg (by omega)]
  apply div_pos (foldl_add_pos seg 0 le_rfl h hne)
  rw [LawfulFloatLike.ofNat_eq]
  exact_mod_cast hpos

/-- `e ∘ δ` on one cone: unchanged on a scalar cone, the mean everywhere on any other cone -/
theorem zipWith_rectifyCone (c : ConeT α) (seg : List α) (h : ∀ x ∈ seg, 0 < x) :
    (c.isScalar = true → List.zipWith (· * ·) seg (rectifyCone c seg).1 = seg) ∧
    (c.isScalar = false → ∀ a ∈ List.zipWith (· * ·) seg (rectifyCone c seg).1, a = meanL seg) := by
  constructor
  · intro hc
    simp only [rectifyCone, hc, ↓reduceIte, List.zipWith_map_right, List.zipWith_self, mul_one, List.map_id']
  · intro hc a ha
    simp only [rectifyCone, hc, Bool.false_eq_true, ↓reduceIte, List.zipWith_map_right, List.zipWith_self,
      List.mem_map] at ha
    obtain ⟨x, hx, rfl⟩ := ha
    have hx0 : x ≠ 0 := (h x hx).ne'
    unfold meanL
    field_simp

/-- [R] after `rectify_equilibration` the accumulated row scaling `e ∘ δ` is positive and
uniform on every non-scalar cone -/
theorem uniformOn_rectify (cones : List (ConeT α)) (es : List α) (hn : numel cones ≤ es.length)
    (hpos : ∀ x ∈ es, 0 < x) :
    UniformOn cones (List.zipWith (· * ·) es (rectifyGo cones es).1) := by
  induction cones generalizing es with
  | nil => trivial
  | cons c cs ih =>
    simp only [numel] at hn
    have hlt : (es.take c.nvars).length = c.nvars := by simp; omega
    have hlr : (rectifyCone c (es.take c.nvars)).1.length = c.nvars := by rw [length_rectifyCone, hlt]
    have hsplit : List.zipWith (· * ·) es (rectifyGo (c :: cs) es).1 =
        List.zipWith (· * ·) (es.take c.nvars) (rectifyCone c (es.take c.nvars)).1 ++
        List.zipWith (· * ·) (es.drop c.nvars) (rectifyGo cs (es.drop c.nvars)).1 := by
      have := List.zipWith_append (f := fun (a b : α) => a * b) (l₁ := es.take c.nvars)
        (l₁' := es.drop c.nvars) (l₂ := (rectifyCone c (es.take c.nvars)).1)
        (l₂' := (rectifyGo cs (es.drop c.nvars)).1) (hlt.trans hlr.symm)
      rw [List.take_append_drop] at this
      exact this
    have hlz : (List.zipWith (· * ·) (es.take c.nvars) (rectifyCone c (es.take c.nvars)).1).length = c.nvars := by
      simp [hlr, hlt]
    have hsegpos : ∀ x ∈ es.take c.nvars, 0 < x := fun x hx => hpos x (List.mem_of_mem_take hx)
    obtain ⟨hz1, hz2⟩ := zipWith_rectifyCone c (es.take c.nvars) hsegpos
    rw [hsplit]
    refine ⟨?_, ?_, ?_⟩
    · rw [List.take_left' hlz]
      cases hc : c.isScalar with
      | true => rw [hz1 hc]; exact hsegpos
      | false =>
        intro a ha
        rw [hz2 hc a ha]
        apply meanL_pos _ hsegpos
        intro hnil
        rw [hnil] at ha
        simp at ha
    · intro hc
      rw [List.take_left' hlz]
      exact ⟨_, hz2 hc⟩
    · rw [List.drop_left' hlz]
      exact ih (es.drop c.nvars) (by simp; omega) (fun x hx => hpos x (List.mem_of_mem_drop hx))

/-- no cone asked for a rescale ⇒ all cones are scalar -/
theorem rectifyGo_flag_false (cones : List (ConeT α)) (es : List α) (h : (rectifyGo cones es).2 = false) :
    ∀ c ∈ cones, c.isScalar = true := by
  induction cones generalizing es with
  | nil => simp
  | cons c cs ih =>
    simp only [rectifyGo, Bool.or_eq_false_iff] at h
    intro c' hc'
    rcases List.mem_cons.mp hc' with rfl | hc'
    · by_contra hns
      have : (rectifyCone c' (es.take c'.nvars)).2 = true := by
        simp [rectifyCone, hns]
      rw [this] at h
      exact absurd h.1 (by simp)
    · exact ih _ h.2 c' hc'

theorem toList_hadamardInPlace (x y : Array α) (h : x.size = y.size) :
    (hadamardInPlace x y).toList = List.zipWith (· * ·) x.toList y.toList := by
  apply List.ext_getElem
  · simp [hadamardInPlace, h]
  · intro i h1 h2
    have hx : i < x.size := by simpa [hadamardInPlace] using h1
    have hy : i < y.size := by omega
    simp [hadamardInPlace, Array.getD, hy]

/-- [R] the row scaling left by `finish` (rectification + final inverses) is `UniformOn` the cone
list, and so is `einv` -/
theorem uniformOn_finish (dt : ProblemData α) (cones : List (ConeT α))
    (hn : numel cones ≤ dt.equilibration.e.size) (hpos : ∀ x ∈ dt.equilibration.e.toList, 0 < x) :
    UniformOn cones (finish dt cones).equilibration.e.toList ∧
    UniformOn cones (finish dt cones).equilibration.einv.toList := by
  have key : UniformOn cones (finish dt cones).equilibration.e.toList := by
    simp only [finish, setInverses, rectifyStep]
    split
    · simp only [applyScaling]
      rw [toList_hadamardInPlace _ _ (by simp [length_rectifyGo])]
      exact uniformOn_rectify cones _ (by simpa using hn) hpos
    · rename_i hflag
      exact uniformOn_of_scalar cones (rectifyGo_flag_false cones _ (by simpa using hflag)) _ hpos
  refine ⟨key, ?_⟩
  have : (finish dt cones).equilibration.einv.toList =
      (finish dt cones).equilibration.e.toList.map (fun v => 1 / v) := by
    simp [finish, setInverses]
  rw [this]
  exact key.inv

/-- when the cones cover the whole vector, `UniformOn` gives positivity everywhere -/
theorem UniformOn.pos {cones : List (ConeT α)} {e : List α} (h : UniformOn cones e)
    (hn : e.length ≤ numel cones) : ∀ a ∈ e, 0 < a := by
  induction cones generalizing e with
  | nil =>
    simp only [numel, Nat.le_zero, List.length_eq_zero_iff] at hn
    rw [hn]; simp
  | cons c cs ih =>
    obtain ⟨hpos, _, hrest⟩ := h
    intro a ha
    rw [← List.take_append_drop c.nvars e, List.mem_append] at ha
    rcases ha with ha | ha
    · exact hpos a ha
    · exact ih hrest (by simp only [numel] at hn; simp; omega) a ha

end generic

end Clarabel.Equil
