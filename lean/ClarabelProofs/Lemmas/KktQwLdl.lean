/-
  C05 (iv) "`KKTSolver::update` forgets" — part 2: the engine's permuted copy.

  `LS D F F'`: two QDLDL objects with the same symbolic data (`perm, iperm, etree, Lnz, AtoPAPt`,
  pattern of `triuA`, regularisation parameters), buffers of the same sizes, whose `triuA.nzval`
  agree on the slots in `D`.  Nothing is said about the CONTENT of `L.colptr / L.rowval / L.nzval /
  D / Dinv`, the two counters and `is_symbolic`.
  * `update_values`, `scale_values` on both: lock-step (`…_ls`);
  * `refactor` on two objects related by `LS (fun _ => True)`: the same result — the same error or
    the same object in EVERY field (`refactor_ls`, from C12 `factor_buffers_irrelevant`), provided
    one of them satisfies C12's history invariant (`Ready`);
  * single-run frames (`…_frame`).
-/
import ClarabelProofs.Lemmas.KktQwArr

namespace Clarabel.Solver
open Clarabel Clarabel.Qdldl

set_option linter.unusedSectionVars false
set_option linter.unusedVariables false

variable {α : Type}

/-- same symbolic data, same buffer sizes, `triuA.nzval` agree on the slots in `D` -/
structure LS (D : Nat → Prop) (F F' : Factorisation α) : Prop where
  perm : F.perm = F'.perm
  iperm : F.iperm = F'.iperm
  etree : F.etree = F'.etree
  lnz : F.Lnz = F'.Lnz
  map : F.AtoPAPt = F'.AtoPAPt
  rp : F.rp = F'.rp
  lm : F.L.m = F'.L.m
  ln : F.L.n = F'.L.n
  tm : F.triuA.m = F'.triuA.m
  tn : F.triuA.n = F'.triuA.n
  tcol : F.triuA.colptr = F'.triuA.colptr
  trow : F.triuA.rowval = F'.triuA.rowval
  tnz : AgreeOn D F.triuA.nzval F'.triuA.nzval
  lisz : F.L.rowval.size = F'.L.rowval.size
  lxsz : F.L.nzval.size = F'.L.nzval.size
  dsz : F.D.size = F'.D.size
  disz : F.Dinv.size = F'.Dinv.size

theorem LS.rfl' (D : Nat → Prop) (F : Factorisation α) : LS D F F :=
  ⟨rfl, rfl, rfl, rfl, rfl, rfl, rfl, rfl, rfl, rfl, rfl, rfl, AgreeOn.rfl' _ _, rfl, rfl, rfl, rfl⟩

theorem LS.mono {D D' : Nat → Prop} {F F' : Factorisation α} (h : LS D F F') (hD : ∀ i, D' i → D i) :
    LS D' F F' := { h with tnz := h.tnz.mono hD }

theorem LS.symm {D : Nat → Prop} {F F' : Factorisation α} (h : LS D F F') : LS D F' F :=
  ⟨h.perm.symm, h.iperm.symm, h.etree.symm, h.lnz.symm, h.map.symm, h.rp.symm, h.lm.symm, h.ln.symm,
    h.tm.symm, h.tn.symm, h.tcol.symm, h.trow.symm, h.tnz.symm, h.lisz.symm, h.lxsz.symm, h.dsz.symm,
    h.disz.symm⟩

theorem LS.trans {D : Nat → Prop} {F F' F'' : Factorisation α} (h : LS D F F') (h' : LS D F' F'') :
    LS D F F'' :=
  ⟨h.perm.trans h'.perm, h.iperm.trans h'.iperm, h.etree.trans h'.etree, h.lnz.trans h'.lnz,
    h.map.trans h'.map, h.rp.trans h'.rp, h.lm.trans h'.lm, h.ln.trans h'.ln, h.tm.trans h'.tm,
    h.tn.trans h'.tn, h.tcol.trans h'.tcol, h.trow.trans h'.trow, h.tnz.trans h'.tnz,
    h.lisz.trans h'.lisz, h.lxsz.trans h'.lxsz, h.dsz.trans h'.dsz, h.disz.trans h'.disz⟩

/-- replacing the values of `triuA` -/
theorem LS.setNz {D D' : Nat → Prop} {F F' : Factorisation α} (h : LS D F F') {nz nz' : Array α}
    (hn : AgreeOn D' nz nz') :
    LS D' { F with triuA := { F.triuA with nzval := nz } } { F' with triuA := { F'.triuA with nzval := nz' } } :=
  ⟨h.perm, h.iperm, h.etree, h.lnz, h.map, h.rp, h.lm, h.ln, h.tm, h.tn, h.tcol, h.trow, hn, h.lisz,
    h.lxsz, h.dsz, h.disz⟩

section ops
variable [Add α] [Sub α] [Mul α] [Div α] [Neg α] [OfNat α 0] [OfNat α 1] [LT α] [DecidableLT α]
  [LE α] [DecidableLE α] [BEq α] [FloatLike α]

/-! ### `update_values`, `scale_values` in lock-step -/

/-- the body of the loop of `update_values` -/
def updStep (indices : Array Nat) (values : Array α) (F : Factorisation α) (i : Nat) :
    MErr (Factorisation α) := do
  let idx ← getE indices i
  let k ← getE F.AtoPAPt idx "update_values: AtoPAPt[idx]"
  let v ← getE values i "update_values: values[i]"
  let nz ← setE F.triuA.nzval k v "update_values: nzval[AtoPAPt[idx]]"
  pure { F with triuA := { F.triuA with nzval := nz } }

theorem updateValues_eq (F : Factorisation α) (indices : Array Nat) (values : Array α) :
    Qdldl.updateValues F indices values = (List.range indices.size).foldlM (updStep indices values) F := rfl

/-- the slots of `triuA` that the entries `is` of the index vector address -/
def slotsOf (mp indices : Array Nat) (is : List Nat) (j : Nat) : Prop :=
  ∃ i ∈ is, ∃ idx, indices[i]? = some idx ∧ mp[idx]? = some j

theorem updStep_ls {D : Nat → Prop} {F F' : Factorisation α} (h : LS D F F') (indices : Array Nat)
    (values : Array α) (i : Nat) :
    RelM (fun G G' => LS (fun j => D j ∨ slotsOf F.AtoPAPt indices [i] j) G G' ∧ G.AtoPAPt = F.AtoPAPt)
      (updStep indices values F i) (updStep indices values F' i) := by
  unfold updStep
  refine RelM.bind_ok (RelM.refl_eq _) ?_
  intro idx _ hidx _ e
  subst e
  refine RelM.bind_ok (R := (· = ·)) (RelM.of_eq (by rw [h.map]) fun _ => rfl) ?_
  intro k _ hk _ e
  subst e
  refine RelM.bind (RelM.refl_eq _) ?_
  intro v _ e
  subst e
  refine RelM.bind (setE_agree h.tnz k v _) ?_
  intro nz nz' hn
  refine ⟨h.setNz (hn.mono ?_), rfl⟩
  intro j hj
  rcases hj with hj | ⟨i', hi', idx', h1, h2⟩
  · exact Or.inl hj
  · right
    simp only [List.mem_singleton] at hi'
    subst hi'
    rw [getE_ok_iff.mp hidx] at h1
    cases h1
    rw [getE_ok_iff.mp hk] at h2
    exact (Option.some.inj h2).symm

theorem foldlM_updStep_ls (indices : Array Nat) (values : Array α) (mp : Array Nat) :
    ∀ (is : List Nat) {D : Nat → Prop} {F F' : Factorisation α}, LS D F F' → F.AtoPAPt = mp →
      RelM (fun G G' => LS (fun j => D j ∨ slotsOf mp indices is j) G G' ∧ G.AtoPAPt = mp)
        (is.foldlM (updStep indices values) F) (is.foldlM (updStep indices values) F')
  | [], D, F, F', h, hm => by
    show LS _ F F' ∧ _
    refine ⟨h.mono ?_, hm⟩
    intro j hj
    rcases hj with hj | ⟨i, hi, _⟩
    · exact hj
    · cases hi
  | i :: is, D, F, F', h, hm => by
    simp only [List.foldlM_cons]
    refine RelM.bind (updStep_ls h indices values i) ?_
    rintro G G' ⟨hG, hGm⟩
    rw [hm] at hGm hG
    refine (foldlM_updStep_ls indices values mp is hG hGm).mono ?_
    rintro H H' ⟨hH, hHm⟩
    refine ⟨hH.mono ?_, hHm⟩
    intro j hj
    rcases hj with hj | ⟨i', hi', hr⟩
    · exact Or.inl (Or.inl hj)
    · rcases List.mem_cons.mp hi' with e | hi'
      · subst e
        exact Or.inl (Or.inr ⟨i', List.mem_singleton.mpr rfl, hr⟩)
      · exact Or.inr ⟨i', hi', hr⟩

/-- the slots of `triuA` addressed through the entry map by an index vector -/
def slotsOfIdx (mp : Array Nat) (idxs : List Nat) (j : Nat) : Prop := ∃ idx ∈ idxs, mp[idx]? = some j

theorem slotsOf_range (mp indices : Array Nat) (j : Nat) :
    slotsOf mp indices (List.range indices.size) j ↔ slotsOfIdx mp indices.toList j := by
  constructor
  · rintro ⟨i, hi, idx, h1, h2⟩
    exact ⟨idx, Array.mem_toList_iff.mpr (Array.mem_of_getElem? h1), h2⟩
  · rintro ⟨idx, hidx, h2⟩
    obtain ⟨i, hi, e⟩ := List.getElem_of_mem hidx
    have hi' : i < indices.size := by simpa using hi
    refine ⟨i, List.mem_range.mpr hi', idx, ?_, h2⟩
    rw [Array.getElem?_eq_getElem hi']
    simpa using e

/-- `update_values` on two objects: afterwards the value arrays agree on every addressed slot -/
theorem updateValues_ls {D : Nat → Prop} {F F' : Factorisation α} (h : LS D F F') (indices : Array Nat)
    (values : Array α) :
    RelM (fun G G' => LS (fun j => D j ∨ slotsOfIdx F.AtoPAPt indices.toList j) G G' ∧ G.AtoPAPt = F.AtoPAPt)
      (Qdldl.updateValues F indices values) (Qdldl.updateValues F' indices values) := by
  rw [updateValues_eq, updateValues_eq]
  refine (foldlM_updStep_ls indices values F.AtoPAPt _ h rfl).mono ?_
  rintro G G' ⟨hG, hm⟩
  refine ⟨hG.mono ?_, hm⟩
  intro j hj
  rcases hj with hj | hj
  · exact Or.inl hj
  · exact Or.inr ((slotsOf_range _ _ _).mpr hj)

/-- a successful `update_values` had a value for every index -/
theorem updateValues_ok_size {F F1 : Factorisation α} {indices : Array Nat} {values : Array α}
    (h : Qdldl.updateValues F indices values = .ok F1) : indices.size ≤ values.size := by
  rw [updateValues_eq] at h
  have hall := foldlM_ok_forall (updStep indices values) (fun i => i < values.size) ?_ _ _ _ h
  · by_contra hc
    have := hall values.size (List.mem_range.mpr (by omega))
    omega
  · intro G i G1 hs
    unfold updStep at hs
    obtain ⟨idx, _, hs⟩ := bind_ok_inv hs
    obtain ⟨k, _, hs⟩ := bind_ok_inv hs
    obtain ⟨v, hv, hs⟩ := bind_ok_inv hs
    have := getE_ok_iff.mp hv
    by_contra hc
    rw [Array.getElem?_eq_none (by omega)] at this
    cases this

theorem modifyEntry_ls {D : Nat → Prop} {F F' : Factorisation α} (h : LS D F F') (idx : Nat) (f : α → α) :
    RelM (fun G G' => LS D G G' ∧ G.AtoPAPt = F.AtoPAPt) (modifyEntry F idx f) (modifyEntry F' idx f) := by
  unfold modifyEntry
  refine RelM.bind (R := (· = ·)) (RelM.of_eq (by rw [h.map]) fun _ => rfl) ?_
  intro k _ e
  subst e
  by_cases hk : k < F.triuA.nzval.size
  · have hk' : k < F'.triuA.nzval.size := h.tnz.1 ▸ hk
    rw [getE_ok_of_lt _ k _ hk, getE_ok_of_lt _ k _ hk']
    show RelM _ (setE F.triuA.nzval k (f F.triuA.nzval[k]) _ >>= _) (setE F'.triuA.nzval k (f F'.triuA.nzval[k]) _ >>= _)
    refine RelM.bind (setE_agree' h.tnz k _ _ _ ?_) ?_
    · intro hD
      have := h.tnz.2 k hD
      rw [Array.getElem?_eq_getElem hk, Array.getElem?_eq_getElem hk'] at this
      rw [Option.some.inj this]
    · intro nz nz' hn
      exact ⟨h.setNz hn, rfl⟩
  · have hk' : ¬ k < F'.triuA.nzval.size := h.tnz.1 ▸ hk
    rw [getE_err_of_not_lt _ k _ hk, getE_err_of_not_lt _ k _ hk']
    rfl

/-- `scale_values` on two objects keeps the agreement -/
theorem scaleValues_ls {D : Nat → Prop} {F F' : Factorisation α} (h : LS D F F') (indices : Array Nat)
    (scale : α) :
    RelM (fun G G' => LS D G G' ∧ G.AtoPAPt = F.AtoPAPt)
      (Qdldl.scaleValues F indices scale) (Qdldl.scaleValues F' indices scale) := by
  unfold Qdldl.scaleValues
  refine foldlM_relM (R := fun G G' => LS D G G' ∧ G.AtoPAPt = F.AtoPAPt) _ _ ?_ _ _ _ ⟨h, rfl⟩
  rintro G G' idx ⟨hG, hm⟩
  refine (modifyEntry_ls hG idx _).mono ?_
  rintro H H' ⟨hH, hHm⟩
  exact ⟨hH, hHm.trans hm⟩

/-! ### single-run frames -/

/-- what a call that only rewrites `triuA.nzval` keeps: everything else, field by field -/
structure SameButNz (F G : Factorisation α) : Prop where
  perm : G.perm = F.perm
  iperm : G.iperm = F.iperm
  L : G.L = F.L
  D : G.D = F.D
  Dinv : G.Dinv = F.Dinv
  etree : G.etree = F.etree
  lnz : G.Lnz = F.Lnz
  tm : G.triuA.m = F.triuA.m
  tn : G.triuA.n = F.triuA.n
  tcol : G.triuA.colptr = F.triuA.colptr
  trow : G.triuA.rowval = F.triuA.rowval
  map : G.AtoPAPt = F.AtoPAPt
  rp : G.rp = F.rp
  pi : G.positiveInertia = F.positiveInertia
  rc : G.regularizeCount = F.regularizeCount
  sym : G.isSymbolic = F.isSymbolic

theorem SameButNz.rfl' (F : Factorisation α) : SameButNz F F :=
  ⟨rfl, rfl, rfl, rfl, rfl, rfl, rfl, rfl, rfl, rfl, rfl, rfl, rfl, rfl, rfl, rfl⟩

theorem SameButNz.trans {F G H : Factorisation α} (h : SameButNz F G) (h' : SameButNz G H) : SameButNz F H :=
  ⟨h'.perm.trans h.perm, h'.iperm.trans h.iperm, h'.L.trans h.L, h'.D.trans h.D, h'.Dinv.trans h.Dinv,
    h'.etree.trans h.etree, h'.lnz.trans h.lnz, h'.tm.trans h.tm, h'.tn.trans h.tn, h'.tcol.trans h.tcol,
    h'.trow.trans h.trow, h'.map.trans h.map, h'.rp.trans h.rp, h'.pi.trans h.pi, h'.rc.trans h.rc,
    h'.sym.trans h.sym⟩

theorem SameButNz.ls {F G : Factorisation α} (h : SameButNz F G) {D : Nat → Prop}
    (hn : AgreeOn D F.triuA.nzval G.triuA.nzval) : LS D F G :=
  ⟨h.perm.symm, h.iperm.symm, h.etree.symm, h.lnz.symm, h.map.symm, h.rp.symm, by rw [h.L], by rw [h.L],
    h.tm.symm, h.tn.symm, h.tcol.symm, h.trow.symm, hn, by rw [h.L], by rw [h.L], by rw [h.D], by rw [h.Dinv]⟩

theorem updStep_frame {indices : Array Nat} {values : Array α} {F G : Factorisation α} {i : Nat}
    (h : updStep indices values F i = .ok G) :
    SameButNz F G ∧ ∃ idx k, indices[i]? = some idx ∧ F.AtoPAPt[idx]? = some k ∧
      AgreeOn (fun j => j ≠ k) F.triuA.nzval G.triuA.nzval := by
  unfold updStep at h
  obtain ⟨idx, hidx, h⟩ := bind_ok_inv h
  obtain ⟨k, hk, h⟩ := bind_ok_inv h
  obtain ⟨v, _, h⟩ := bind_ok_inv h
  obtain ⟨nz, hnz, h⟩ := bind_ok_inv h
  cases h
  exact ⟨⟨rfl, rfl, rfl, rfl, rfl, rfl, rfl, rfl, rfl, rfl, rfl, rfl, rfl, rfl, rfl, rfl⟩,
    idx, k, getE_ok_iff.mp hidx, getE_ok_iff.mp hk, setE_frame hnz⟩

/-- `update_values` (single run): only `triuA.nzval` changes, and only at the addressed slots -/
theorem updateValues_frame {F G : Factorisation α} {indices : Array Nat} {values : Array α}
    (h : Qdldl.updateValues F indices values = .ok G) :
    SameButNz F G ∧ AgreeOn (fun j => ¬ slotsOfIdx F.AtoPAPt indices.toList j) F.triuA.nzval G.triuA.nzval := by
  rw [updateValues_eq] at h
  refine foldlM_inv _ (fun H => SameButNz F H ∧
    AgreeOn (fun j => ¬ slotsOfIdx F.AtoPAPt indices.toList j) F.triuA.nzval H.triuA.nzval) _ ?_ F G
    ⟨SameButNz.rfl' _, AgreeOn.rfl' _ _⟩ h
  rintro H i H1 hi ⟨hS, hA⟩ hs
  obtain ⟨hS1, idx, k, h1, h2, hA1⟩ := updStep_frame hs
  refine ⟨hS.trans hS1, hA.trans (hA1.mono ?_)⟩
  intro j hj e
  subst e
  rw [hS.map] at h2
  exact hj ⟨idx, Array.mem_toList_iff.mpr (Array.mem_of_getElem? h1), h2⟩

theorem modifyEntry_frame {F G : Factorisation α} {idx : Nat} {f : α → α} (h : modifyEntry F idx f = .ok G) :
    SameButNz F G ∧ ∃ k, F.AtoPAPt[idx]? = some k ∧ AgreeOn (fun j => j ≠ k) F.triuA.nzval G.triuA.nzval := by
  unfold modifyEntry at h
  obtain ⟨k, hk, h⟩ := bind_ok_inv h
  obtain ⟨v, _, h⟩ := bind_ok_inv h
  obtain ⟨nz, hnz, h⟩ := bind_ok_inv h
  cases h
  exact ⟨⟨rfl, rfl, rfl, rfl, rfl, rfl, rfl, rfl, rfl, rfl, rfl, rfl, rfl, rfl, rfl, rfl⟩,
    k, getE_ok_iff.mp hk, setE_frame hnz⟩

/-- `scale_values` (single run) -/
theorem scaleValues_frame {F G : Factorisation α} {indices : Array Nat} {scale : α}
    (h : Qdldl.scaleValues F indices scale = .ok G) :
    SameButNz F G ∧ AgreeOn (fun j => ¬ slotsOfIdx F.AtoPAPt indices.toList j) F.triuA.nzval G.triuA.nzval := by
  unfold Qdldl.scaleValues at h
  refine foldlM_inv _ (fun H => SameButNz F H ∧
    AgreeOn (fun j => ¬ slotsOfIdx F.AtoPAPt indices.toList j) F.triuA.nzval H.triuA.nzval) _ ?_ F G
    ⟨SameButNz.rfl' _, AgreeOn.rfl' _ _⟩ h
  rintro H idx H1 hi ⟨hS, hA⟩ hs
  obtain ⟨hS1, k, h2, hA1⟩ := modifyEntry_frame hs
  refine ⟨hS.trans hS1, hA.trans (hA1.mono ?_)⟩
  intro j hj e
  subst e
  rw [hS.map] at h2
  exact hj ⟨idx, hi, h2⟩

/-! ### C12's history invariant, packaged; `refactor` -/

/-- the object was built by `QDLDLFactorisation::new` on a valid input and has since seen only
`update_values / scale_values / offset_values / refactor` (C12 `HistInv`) -/
def LdlInv (F : Factorisation α) : Prop :=
  ∃ (A : Csc α) (perm iperm : Array Nat) (dsigns : Option (Array Int)) (P : Csc α) (map : Array Nat)
    (Ds : Array Int) (es : EtreeState) (rp : RegParams α) (lg : Bool) (v : Array α),
    Stages A perm iperm dsigns P map Ds es ∧ rp.Dsigns = Ds ∧
      HistInv A iperm (freshObj A.m perm iperm P map es rp lg) v F

theorem LdlInv.updateValues {F G : Factorisation α} (hI : LdlInv F) {indices : Array Nat} {values : Array α}
    (h : Qdldl.updateValues F indices values = .ok G) : LdlInv G := by
  obtain ⟨A, perm, iperm, ds, P, map, Ds, es, rp, lg, v, hS, hrp, hH⟩ := hI
  obtain ⟨v', _, hH'⟩ := updateValues_rel hH indices values h
  exact ⟨A, perm, iperm, ds, P, map, Ds, es, rp, lg, v', hS, hrp, hH'⟩

theorem LdlInv.scaleValues {F G : Factorisation α} (hI : LdlInv F) {indices : Array Nat} {scale : α}
    (h : Qdldl.scaleValues F indices scale = .ok G) : LdlInv G := by
  obtain ⟨A, perm, iperm, ds, P, map, Ds, es, rp, lg, v, hS, hrp, hH⟩ := hI
  obtain ⟨v', _, hH'⟩ := scaleValues_rel hH indices scale h
  exact ⟨A, perm, iperm, ds, P, map, Ds, es, rp, lg, v', hS, hrp, hH'⟩

theorem LdlInv.refactor {F G : Factorisation α} (hI : LdlInv F) (h : Qdldl.refactor F = .ok G) : LdlInv G := by
  obtain ⟨A, perm, iperm, ds, P, map, Ds, es, rp, lg, v, hS, hrp, hH⟩ := hI
  exact ⟨A, perm, iperm, ds, P, map, Ds, es, rp, lg, v, hS, hrp, refactor_rel hS rp hrp lg hH h⟩

/-- `refactor` (single run): `triuA` and the symbolic data are kept, the buffers keep their sizes -/
theorem refactor_frame {F G : Factorisation α} (hI : LdlInv F) (h : Qdldl.refactor F = .ok G) (D : Nat → Prop) :
    LS D F G ∧ G.triuA = F.triuA := by
  have hG := hI.refactor h
  obtain ⟨A, perm, iperm, ds, P, map, Ds, es, rp, lg, v, hS, hrp, hH⟩ := hI
  have hH' := refactor_rel hS rp hrp lg hH h
  unfold Qdldl.refactor at h
  rw [factor_false_eq] at h
  cases hs : factorInner F.triuA.n F.triuA.colptr F.triuA.rowval F.triuA.nzval F.L.rowval F.L.nzval F.D F.Dinv
      F.Lnz F.etree false F.rp with
  | error e =>
    simp only [hs, Except.map] at h
    cases h
  | ok s =>
    simp only [hs, Except.map] at h
    have hG : G = _ := (Except.ok.inj h).symm
    subst hG
    refine ⟨⟨rfl, rfl, rfl, rfl, rfl, rfl, rfl, rfl, rfl, rfl, rfl, rfl, AgreeOn.rfl' _ _, ?_, ?_, ?_, ?_⟩, rfl⟩
    · exact hH.lisz.trans hH'.lisz.symm
    · exact hH.lxsz.trans hH'.lxsz.symm
    · exact hH.dsz.trans hH'.dsz.symm
    · exact hH.disz.trans hH'.disz.symm

/-- **`refactor` forgets the buffers**: two objects with the same symbolic data and the same
`triuA.nzval` — whatever their `L`, `D`, `D⁻¹`, counters and `is_symbolic` hold — are refactored to
the same object (or fail with the same error) -/
theorem refactor_ls {F F' : Factorisation α} (hI : LdlInv F) (h : LS (fun _ => True) F F') :
    Qdldl.refactor F' = Qdldl.refactor F := by
  obtain ⟨A, perm, iperm, ds, P, map, Ds, es, rp, lg, v, hS, hrp, hH⟩ := hI
  obtain ⟨r1, r2, r3, r4, r5, C, hRep, hLi, hLx, hDs, hDi, hsg⟩ := hH.ready hS rp hrp lg
  have hnz : F.triuA.nzval = F'.triuA.nzval := h.tnz.eq_of_all fun _ => trivial
  have hobj : ({ F' with isSymbolic := false } : Factorisation α) =
      { ({ F with isSymbolic := false } : Factorisation α) with
        L := { F.L with colptr := F'.L.colptr, rowval := F'.L.rowval, nzval := F'.L.nzval },
        D := F'.D, Dinv := F'.Dinv, positiveInertia := F'.positiveInertia,
        regularizeCount := F'.regularizeCount } := by
    obtain ⟨e1, e2, e3, e4, e5, e6, e7, e8, e9, e10, e11, e12, _, _, _, _, _⟩ := h
    obtain ⟨p, ip, ⟨lm, ln, lc, lr, lx⟩, D, Di, et, lz, ⟨tm, tn, tc, tr, tx⟩, mp, rp', pi, rc, sy⟩ := F
    obtain ⟨p', ip', ⟨lm', ln', lc', lr', lx'⟩, D', Di', et', lz', ⟨tm', tn', tc', tr', tx'⟩, mp', rp'', pi', rc', sy'⟩ := F'
    dsimp only at e1 e2 e3 e4 e5 e6 e7 e8 e9 e10 e11 e12 hnz
    subst e1 e2 e3 e4 e5 e6 e7 e8 e9 e10 e11 e12 hnz
    rfl
  unfold Qdldl.refactor
  rw [hobj]
  have C' : FCtx F.triuA.n F.triuA.colptr F.triuA.rowval F.etree F.Lnz := by
    rw [r1, r3, r4]; exact C
  exact factor_buffers_irrelevant ({ F with isSymbolic := false } : Factorisation α)
    (denseOf P.colptr P.rowval F.triuA.nzval) C'
    (by show Represents F.triuA.n F.triuA.colptr F.triuA.rowval F.triuA.nzval _
        rw [r1, r3, r4]; exact hRep)
    F'.L.colptr F'.L.rowval F'.L.nzval F'.D F'.Dinv F'.positiveInertia F'.regularizeCount
    (by show F.L.rowval.size = LpOf F.Lnz F.triuA.n
        rw [r1]; exact hLi)
    hLx
    (by show F.D.size = F.triuA.n
        rw [r1]; exact hDs)
    (by show F.Dinv.size = F.triuA.n
        rw [r1]; exact hDi)
    h.lisz.symm
    (by rw [← h.lxsz]; exact hLx)
    (by show F'.D.size = F.triuA.n
        rw [← h.dsz, r1]; exact hDs)
    (by show F'.Dinv.size = F.triuA.n
        rw [← h.disz, r1]; exact hDi)
    (by intro he
        show F.triuA.n ≤ F.rp.Dsigns.size
        rw [r1]; exact hsg he)

end ops

end Clarabel.Solver
