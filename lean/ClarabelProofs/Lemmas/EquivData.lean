/-
  C05, equivalent formulations at the level of the MODEL of `DefaultSolver::new`
  (`ProblemData.new`, `Solver.internalData`, `Solver.SolverSt.new`, `Solver.Solver.new`,
  `Solver.Solver.solve`): class [S] — for every scalar type, `Float` included.

  * the cone list is read by `DefaultProblemData::new` only through `new_collapsed`, and by
    `_check_dimensions` only through `Σ nvars` (which `new_collapsed` preserves): two cone lists
    with the same collapsed list give the SAME solver object, hence the same `solve()`;
  * `P` is read by `DefaultProblemData::new` only through `if !P.is_triu() { P.to_triu() }`, by
    `_check_dimensions` through `P.m`, `P.n` (which `to_triu` keeps).

  Helper lemmas for `Props/C05Equiv.lean`.
-/
import ClarabelModel.Solver.Solve
import ClarabelProofs.Lemmas.PresolveCollapse
import ClarabelProofs.Lemmas.CscBasic

set_option linter.unusedSectionVars false

namespace Clarabel
namespace Cones
variable {α : Type}

/-- an empty cone (any kind) is skipped by `new_collapsed`, inside or outside a run -/
theorem collapseGo_empty_cons (acc : Nat) (c : ConeT α) (hc : c.nvars = 0) (l : List (ConeT α)) :
    collapseGo acc (c :: l) = collapseGo acc l := by
  rw [collapseGo, if_pos hc]

theorem newCollapsed_insert_empty (pre post : List (ConeT α)) (c : ConeT α) (hc : c.nvars = 0) :
    newCollapsed (pre ++ c :: post) = newCollapsed (pre ++ post) := by
  unfold newCollapsed
  exact collapseGo_congr_prefix pre (c :: post) post (fun acc => collapseGo_empty_cons acc c hc post) 0

theorem newCollapsed_split_merge (pre post : List (ConeT α)) (a b : Nat) :
    newCollapsed (pre ++ ConeT.nonneg a :: ConeT.nonneg b :: post) =
      newCollapsed (pre ++ ConeT.nonneg (a + b) :: post) := by
  unfold newCollapsed
  apply collapseGo_congr_prefix
  intro acc
  rw [collapseGo_nonneg_cons, collapseGo_nonneg_cons, collapseGo_nonneg_cons, Nat.add_assoc]

/-- the sum `_check_dimensions` computes (`cones.iter().map(|c| c.nvars()).sum()`) is `numel` -/
theorem foldl_nvars_init_eq_numel (cones : List (ConeT α)) (init : Nat) :
    (cones.map ConeT.nvars).foldl (fun acc c => acc + c) init = init + numel cones := by
  induction cones generalizing init with
  | nil => simp [numel]
  | cons c cs ih =>
    simp only [List.map_cons, List.foldl_cons, numel]
    rw [ih]; omega

/-- equal collapsed lists have the same number of rows -/
theorem numel_eq_of_newCollapsed_eq {c1 c2 : List (ConeT α)}
    (h : newCollapsed c1 = newCollapsed c2) : numel c1 = numel c2 := by
  have h1 : numel (newCollapsed c1) = numel c1 := by simp [newCollapsed, numel_collapseGo]
  have h2 : numel (newCollapsed c2) = numel c2 := by simp [newCollapsed, numel_collapseGo]
  rw [← h1, ← h2, h]

end Cones

namespace Csc
open Clarabel.C16
variable {α : Type}

/-- `to_triu` keeps the shape -/
theorem toTriu_shape {M R : Csc α} (h : M.toTriu = .ok R) : R.m = M.m ∧ R.n = M.n := by
  unfold toTriu at h
  split at h
  · cases h
  · cases h; exact ⟨rfl, rfl⟩

/-- `to_triu` only succeeds on square matrices -/
theorem toTriu_square {M R : Csc α} (h : M.toTriu = .ok R) : M.m = M.n := by
  unfold toTriu at h
  split at h
  · cases h
  · rename_i hne; simpa using hne

/-- the result of `to_triu` in column form -/
theorem toTriu_eq_ofCols {M R : Csc α} (h : M.toTriu = .ok R) :
    R = ofCols M.m M.n ((List.range M.n).map (fun j =>
      (M.col j).take (((M.col j).filter (fun e => decide (e.1 ≤ j))).length))) := by
  unfold toTriu at h
  split at h
  · cases h
  · cases h; rfl

theorem take_filter_length_self {β : Type} (l : List β) (p : β → Bool) (h : ∀ e ∈ l, p e = true) :
    l.take (l.filter p).length = l := by
  rw [List.filter_eq_self.mpr h, List.take_length]

/-- **`to_triu` is idempotent on its own (upper-triangular) results.**  A matrix built from
`n` column lists of a square shape that passes `is_triu` is returned unchanged by `to_triu`. -/
theorem toTriu_ofCols_of_isTriu (n : Nat) (cols : List (List (Nat × α))) (hlen : cols.length = n)
    (ht : (ofCols n n cols).isTriu = true) : (ofCols n n cols).toTriu = .ok (ofCols n n cols) := by
  unfold toTriu
  simp only [ofCols_m, ofCols_n, bne_self_eq_false, Bool.false_eq_true, ↓reduceIte]
  have hcols : (List.range n).map (fun j =>
      ((ofCols n n cols).col j).take
        ((((ofCols n n cols).col j).filter (fun e => decide (e.1 ≤ j))).length)) = cols := by
    apply List.ext_getElem
    · simp [hlen]
    · intro j h1 h2
      simp only [List.getElem_map, List.getElem_range]
      have hj : j < cols.length := h2
      rw [col_ofCols n n cols j hj]
      apply take_filter_length_self
      intro e he
      unfold isTriu at ht
      simp only [ofCols_n, List.all_eq_true, List.mem_range, decide_eq_true_eq] at ht
      have := ht j (hlen ▸ hj) e.1
      rw [colRows_ofCols n n cols j hj] at this
      simpa using this (List.mem_map_of_mem he)
  rw [hcols]
  rfl

/-- `to_triu (to_triu P) = to_triu P` whenever the first result is upper triangular (always
the case when the columns of `P` are sorted, `C16.toTriu_spec`). -/
theorem toTriu_idem_of_isTriu {M R : Csc α} (h : M.toTriu = .ok R) (ht : R.isTriu = true) :
    R.toTriu = .ok R := by
  have hsq := toTriu_square h
  have hR := toTriu_eq_ofCols h
  rw [hsq] at hR
  subst hR
  exact toTriu_ofCols_of_isTriu M.n _ (by simp) ht

end Csc

namespace ProblemData
variable {α : Type}
variable [Add α] [Sub α] [Mul α] [Div α] [OfNat α 0] [OfNat α 1] [LT α] [DecidableLT α] [FloatLike α]

/-- `DefaultProblemData::new` reads the user's cone list only through `new_collapsed` -/
theorem new_congr_collapsed (P : Csc α) (q : Array α) (A : Csc α) (b : Array α)
    {c1 c2 : List (ConeT α)} (h : Cones.newCollapsed c1 = Cones.newCollapsed c2)
    (pe ce : Bool) (inf : α) : new P q A b c1 pe ce inf = new P q A b c2 pe ce inf := by
  unfold new
  rw [h]

/-- `triuStep` returns a matrix of the same shape -/
theorem triuStep_shape {P R : Csc α} (h : triuStep P = .ok R) : R.m = P.m ∧ R.n = P.n := by
  unfold triuStep at h
  split at h
  · exact Csc.toTriu_shape h
  · cases h; exact ⟨rfl, rfl⟩

/-- an upper-triangular matrix passes `triuStep` untouched -/
theorem triuStep_of_isTriu {R : Csc α} (ht : R.isTriu = true) : triuStep R = .ok R := by
  unfold triuStep
  simp [ht]; rfl

/-- `DefaultProblemData::new` reads `P` only through `triuStep`: if the internal `P` built from
the user's `P` is `R`, and `R` passes `is_triu`, then supplying `R` directly gives the same
internal problem. -/
theorem new_congr_triu {P R : Csc α} (h : triuStep P = .ok R) (ht : R.isTriu = true)
    (q : Array α) (A : Csc α) (b : Array α) (cones : List (ConeT α)) (pe ce : Bool) (inf : α) :
    new P q A b cones pe ce inf = new R q A b cones pe ce inf := by
  unfold new
  rw [h, triuStep_of_isTriu ht]

end ProblemData

namespace Solver
variable {α : Type}

/-- `_check_dimensions` reads the cone list only through `Σ nvars` -/
theorem checkDimensions_congr_numel (Pm Pn ql Am An bl : Nat) {c1 c2 : List (ConeT α)}
    (h : Cones.numel c1 = Cones.numel c2) :
    Loop.checkDimensions Pm Pn ql Am An bl (c1.map ConeT.nvars)
      = Loop.checkDimensions Pm Pn ql Am An bl (c2.map ConeT.nvars) := by
  unfold Loop.checkDimensions
  simp only [Cones.foldl_nvars_init_eq_numel, h]

variable [Add α] [Sub α] [Mul α] [Div α] [Neg α] [OfNat α 0] [OfNat α 1] [OfNat α 2]
  [OfNat α 100] [OfNat α 1000] [LT α] [DecidableLT α] [LE α] [DecidableLE α] [BEq α] [FloatLike α]

/-- `solve()` on a freshly constructed solver: `DefaultSolver::new(…)` then `solve()` -/
def newAndSolve (P : Csc α) (q : Array α) (A : Csc α) (b : Array α) (cones : List (ConeT α))
    (st : Settings α) (perm : Array Nat) : MErr (SolveResult α) := do
  let S ← Solver.new P q A b cones st perm
  S.solve st

theorem internalData_congr_collapsed (P : Csc α) (q : Array α) (A : Csc α) (b : Array α)
    {c1 c2 : List (ConeT α)} (h : Cones.newCollapsed c1 = Cones.newCollapsed c2) (st : Settings α) :
    internalData P q A b c1 st = internalData P q A b c2 st := by
  unfold internalData
  rw [ProblemData.new_congr_collapsed P q A b h]

theorem solverSt_new_congr_collapsed (P : Csc α) (q : Array α) (A : Csc α) (b : Array α)
    {c1 c2 : List (ConeT α)} (h : Cones.newCollapsed c1 = Cones.newCollapsed c2) (st : Settings α)
    (perm : Array Nat) : SolverSt.new P q A b c1 st perm = SolverSt.new P q A b c2 st perm := by
  unfold SolverSt.new
  rw [internalData_congr_collapsed P q A b h]

/-- **Cone lists with the same collapsed form give the same solver object.** -/
theorem solver_new_congr_collapsed (P : Csc α) (q : Array α) (A : Csc α) (b : Array α)
    {c1 c2 : List (ConeT α)} (h : Cones.newCollapsed c1 = Cones.newCollapsed c2) (st : Settings α)
    (perm : Array Nat) : Solver.new P q A b c1 st perm = Solver.new P q A b c2 st perm := by
  unfold Solver.new
  rw [solverSt_new_congr_collapsed P q A b h,
    checkDimensions_congr_numel _ _ _ _ _ _ (Cones.numel_eq_of_newCollapsed_eq h)]

theorem newAndSolve_congr_collapsed (P : Csc α) (q : Array α) (A : Csc α) (b : Array α)
    {c1 c2 : List (ConeT α)} (h : Cones.newCollapsed c1 = Cones.newCollapsed c2) (st : Settings α)
    (perm : Array Nat) : newAndSolve P q A b c1 st perm = newAndSolve P q A b c2 st perm := by
  unfold newAndSolve
  rw [solver_new_congr_collapsed P q A b h]

theorem internalData_congr_triu {P R : Csc α} (h : ProblemData.triuStep P = .ok R)
    (ht : R.isTriu = true) (q : Array α) (A : Csc α) (b : Array α) (cones : List (ConeT α))
    (st : Settings α) : internalData P q A b cones st = internalData R q A b cones st := by
  unfold internalData
  rw [ProblemData.new_congr_triu h ht]

theorem solverSt_new_congr_triu {P R : Csc α} (h : ProblemData.triuStep P = .ok R)
    (ht : R.isTriu = true) (q : Array α) (A : Csc α) (b : Array α) (cones : List (ConeT α))
    (st : Settings α) (perm : Array Nat) :
    SolverSt.new P q A b cones st perm = SolverSt.new R q A b cones st perm := by
  unfold SolverSt.new
  rw [internalData_congr_triu h ht]

/-- **`P` full or upper triangular: the same solver object** (`_check_dimensions` reads `P.m`,
`P.n` only, which `to_triu` keeps). -/
theorem solver_new_congr_triu {P R : Csc α} (h : ProblemData.triuStep P = .ok R)
    (ht : R.isTriu = true) (q : Array α) (A : Csc α) (b : Array α) (cones : List (ConeT α))
    (st : Settings α) (perm : Array Nat) :
    Solver.new P q A b cones st perm = Solver.new R q A b cones st perm := by
  unfold Solver.new
  obtain ⟨hm, hn⟩ := ProblemData.triuStep_shape h
  rw [solverSt_new_congr_triu h ht, hm, hn]

theorem newAndSolve_congr_triu {P R : Csc α} (h : ProblemData.triuStep P = .ok R)
    (ht : R.isTriu = true) (q : Array α) (A : Csc α) (b : Array α) (cones : List (ConeT α))
    (st : Settings α) (perm : Array Nat) :
    newAndSolve P q A b cones st perm = newAndSolve R q A b cones st perm := by
  unfold newAndSolve
  rw [solver_new_congr_triu h ht]

end Solver
end Clarabel
