/-
  C12: `QDLDLFactorisation::new` returns `ZeroPivot` iff a pivot of the exact elimination of
  `Π Sym(A) Πᵀ` is zero (regulariser off); otherwise `Ok` with exactly those pivots.
-/
import ClarabelProofs.Lemmas.QdldlNew
import ClarabelProofs.Lemmas.QdldlZeroPivot

namespace Clarabel.Qdldl
open BigOperators

section field
variable {α : Type} [Field α] [DecidableEq α] [LT α] [DecidableLT α] [FloatLike α]

/-- the permuted symmetric matrix `Π Sym(A) Πᵀ` of the user's input -/
noncomputable def permSym (A : Csc α) (perm : Array Nat) (i k : Nat) : α :=
  symOf A (perm.getD i 0) (perm.getD k 0)

theorem new_zeroPivot_iff (A : Csc α) (hw : wellFormed A = true) (hc : checkStructure A = .ok ())
    (hnd : NoDupCols A.colptr A.rowval) (hn : 0 < A.n) (perm iperm : Array Nat)
    (hip : Perm.invperm perm = .ok iperm) (hps : perm.size = A.n) (dsigns : Option (Array Int))
    (hds : ∀ ds, dsigns = some ds → A.n ≤ ds.size) (eps delta : α) :
    (new A perm dsigns false eps delta false = .error errZeroPivot ↔
      ∃ k, k < A.n ∧ refPivot (permSym A perm) k = 0) ∧
    ((∀ k, k < A.n → refPivot (permSym A perm) k ≠ 0) →
      ∃ F, new A perm dsigns false eps delta false = .ok F) ∧
    (∀ F, new A perm dsigns false eps delta false = .ok F →
      ∀ k, k < A.n → F.D.getD k 0 = refPivot (permSym A perm) k ∧ refPivot (permSym A perm) k ≠ 0) := by
  obtain ⟨P, map, Ds, es, hP, hDs, hes, hPm, hPn, hT, hI, hRep, hval, hDsz, hDv⟩ :=
    new_stages A hw hc hnd perm iperm hip hps dsigns hds
  have hA := InputOK.of_checks A hw hc
  have heq := new_eq A perm iperm dsigns false eps delta false P map Ds es hc hip hP hDs hes
  rw [heq, factor_false_eq]
  have C : FCtx A.n P.colptr P.rowval es.etree es.Lnz := FCtx.of_etree hn hT hI
  have hsum : LpOf es.Lnz A.n = es.Lnz.toList.foldl (· + ·) 0 := by
    have := cumsum_last es.Lnz
    rw [C.lsz] at this
    exact this
  set rp : RegParams α := { Dsigns := Ds, enable := false, eps := eps, delta := delta } with hrp
  have hcall : factorInner (freshObj A.m perm iperm P map es rp false).triuA.n
      (freshObj A.m perm iperm P map es rp false).triuA.colptr
      (freshObj A.m perm iperm P map es rp false).triuA.rowval
      (freshObj A.m perm iperm P map es rp false).triuA.nzval
      (freshObj A.m perm iperm P map es rp false).L.rowval
      (freshObj A.m perm iperm P map es rp false).L.nzval
      (freshObj A.m perm iperm P map es rp false).D
      (freshObj A.m perm iperm P map es rp false).Dinv
      (freshObj A.m perm iperm P map es rp false).Lnz
      (freshObj A.m perm iperm P map es rp false).etree false
      (freshObj A.m perm iperm P map es rp false).rp =
      factorInner A.n P.colptr P.rowval P.nzval (Array.replicate (es.Lnz.toList.foldl (· + ·) 0) 0)
        (Array.replicate (es.Lnz.toList.foldl (· + ·) 0) 0) (Array.replicate A.n 0) (Array.replicate A.n 0)
        es.Lnz es.etree false rp := by
    show factorInner P.n _ _ _ _ _ (Array.replicate A.m 0) (Array.replicate A.m 0) _ _ _ _ = _
    rw [hPn, hA.sq]
    rfl
  rw [hcall]
  have hpiv : ∀ k, k < A.n → refPivot (denseOf P.colptr P.rowval P.nzval) k = refPivot (permSym A perm) k := by
    intro k hk
    apply refPivot_congr
    intro c r hcr hr
    rw [hval c r (by omega) hcr]
    rfl
  obtain ⟨h1, h2, h3⟩ := factorInner_zeroPivot_iff C P.nzval _ hRep
    (Array.replicate (es.Lnz.toList.foldl (· + ·) 0) 0)
    (Array.replicate (es.Lnz.toList.foldl (· + ·) 0) (0 : α)) (Array.replicate A.n 0) (Array.replicate A.n 0)
    (by rw [hsum]; simp) (by simp) (by simp) (by simp) rp rfl
  refine ⟨?_, ?_, ?_⟩
  · constructor
    · intro h
      cases hs : factorInner A.n P.colptr P.rowval P.nzval (Array.replicate (es.Lnz.toList.foldl (· + ·) 0) 0)
          (Array.replicate (es.Lnz.toList.foldl (· + ·) 0) (0 : α)) (Array.replicate A.n 0) (Array.replicate A.n 0)
          es.Lnz es.etree false rp with
      | ok s => rw [hs] at h; cases h
      | error e =>
        rw [hs] at h
        have : e = errZeroPivot := by
          have := Except.error.inj h
          exact this
        rw [this] at hs
        obtain ⟨k, hk, hz⟩ := h1.mp hs
        exact ⟨k, hk, by rw [← hpiv k hk]; exact hz⟩
    · rintro ⟨k, hk, hz⟩
      rw [h1.mpr ⟨k, hk, by rw [hpiv k hk]; exact hz⟩]
      rfl
  · intro hall
    obtain ⟨s, hs, _⟩ := h2 (fun k hk => by rw [hpiv k hk]; exact hall k hk)
    rw [hs]
    exact ⟨_, rfl⟩
  · intro F hF k hk
    cases hs : factorInner A.n P.colptr P.rowval P.nzval (Array.replicate (es.Lnz.toList.foldl (· + ·) 0) 0)
        (Array.replicate (es.Lnz.toList.foldl (· + ·) 0) (0 : α)) (Array.replicate A.n 0) (Array.replicate A.n 0)
        es.Lnz es.etree false rp with
    | error e => rw [hs] at hF; cases hF
    | ok s =>
      rw [hs] at hF
      have hFe : F = _ := (Except.ok.inj hF).symm
      have := h3 s hs k hk
      rw [hpiv k hk] at this
      subst hFe
      exact this

end field

end Clarabel.Qdldl
