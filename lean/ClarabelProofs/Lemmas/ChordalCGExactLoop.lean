/-
  Clique-graph merge strategy, EXACTNESS OF THE CLIQUE GRAPH through the loop: if `initialise` makes
  the edge matrix exactly the reduced clique graph of the cliques (`InitExactSpec`), a permissible
  merge keeps it exact (`JT.ExactContractSpec`, abstract) and `traverse` only returns permissible
  candidates (`TraversePermSpec`), then EVERY MERGE THE LOOP PERFORMS MERGES A SEPARATING PAIR of the
  current cliques (`CGMergesSep L`, for every filled pattern `L`) — the last hypothesis of the
  pipeline theorem `analysis_cg_valid_sep_partial` (`ChordalCGJunctionSep.lean`).

  * `JT.SepPair.congr`, `JT.Exact.congr` : transport along pointwise-equal families / equal index sets;
  * `cg_merge_exact`     : one permissible merge of the model keeps `CGExact`;
  * `cg_loopSep_of_exact`: the loop, carrying `CGInv`, a junction tree inside the graph and `CGExact`;
  * `cg_mergesSep_of_specs`, `analysis_cg_valid_of_exact_specs`: the per-pattern statement and the
    pipeline without any hypothesis on the run.
-/
import ClarabelProofs.Lemmas.ChordalCGExactDefs
import ClarabelProofs.Lemmas.ChordalCGJunctionSep

namespace Clarabel.Chordal
open Clarabel

namespace JT

/-- [S] links only look at the family pointwise and at the index list through membership -/
theorem HLink.congr {cl cl' : Nat → Nat → Bool} {L L' : List Nat}
    (hcl : ∀ c v, cl c v = cl' c v) (hL : ∀ c, c ∈ L ↔ c ∈ L') {a b p q : Nat}
    (h : HLink cl L a b p q) : HLink cl' L' a b p q := by
  have : cl = cl' := funext fun c => funext fun v => hcl c v
  subst this
  obtain ⟨hp, hq, hne, hsub, hv⟩ := h
  exact ⟨(hL p).1 hp, (hL q).1 hq, hne, hsub, hv⟩

/-- [S] separating pairs only look at the family pointwise and at the index list through membership -/
theorem SepPair.congr {cl cl' : Nat → Nat → Bool} {L L' : List Nat}
    (hcl : ∀ c v, cl c v = cl' c v) (hL : ∀ c, c ∈ L ↔ c ∈ L') {a b : Nat}
    (h : SepPair cl L a b) : SepPair cl' L' a b := by
  intro hc
  apply h
  refine Relation.ReflTransGen.mono ?_ _ _ hc
  intro p q hpq
  exact hpq.congr (fun c v => (hcl c v).symm) (fun c => (hL c).symm)

/-- [S] exactness only looks at the family pointwise, the index list through membership and the
adjacency through equivalence -/
theorem Exact.congr {cl cl' : Nat → Nat → Bool} {L L' : List Nat} {adj adj' : Nat → Nat → Prop}
    (hcl : ∀ c v, cl c v = cl' c v) (hL : ∀ c, c ∈ L ↔ c ∈ L')
    (hadj : ∀ x y, adj x y ↔ adj' x y) (h : Exact cl L adj) : Exact cl' L' adj' := by
  intro x hx y hy hxy
  rw [← hadj x y, h x ((hL x).2 hx) y ((hL y).2 hy) hxy]
  exact ⟨fun hs => hs.congr hcl hL,
    fun hs => hs.congr (fun c v => (hcl c v).symm) (fun c => (hL c).symm)⟩

end JT

/-- [S] the adjacency of the edge matrix is symmetric -/
theorem cg_adj_symm (E : IMat) : ∀ x y, E.Adj x y → E.Adj y x := fun _ _ h => h.symm

/-- [S] **ONE PERMISSIBLE MERGE KEEPS THE EDGE MATRIX EXACTLY THE REDUCED CLIQUE GRAPH**: under the
loop invariant, with a junction tree inside the graph, if the edge matrix is exact and the stored
candidate `(c1, cr)` is permissible, then after `merge_two_cliques` + `update_strategy` the new edge
matrix is exactly the reduced clique graph of the new cliques -/
theorem cg_merge_exact (hEC : JT.ExactContractSpec) {N nv : Nat} {s : CGStrategy}
    {t : SuperNodeTree} (hinv : CGInv N nv s t) {J : List (Nat × Nat)} (hJ : CGHasJT s t J)
    (hex : CGExact s t) {c1 cr : Nat} (he : (s.edges.entry c1 cr).isSome = true)
    (hperm : CGPermissible s t c1 cr)
    {t' : SuperNodeTree} {s' : CGStrategy} (hm : s.mergeTwoCliques t (c1, cr) = .ok t')
    (hu : s.updateStrategy t' (c1, cr) true = .ok s') : CGExact s' t' := by
  obtain ⟨hne, hl1, hlr, ht'⟩ := cg_merge_facts hinv he hm
  obtain ⟨s'', hu', _, _, _, _, _, _, hadj, _⟩ := update_state_ok N nv s t hinv c1 cr he t' hm
  rw [hu] at hu'
  obtain rfl := Except.ok.inj hu'
  have hlt := cgi_entry_lt hinv.good he
  have hadj1 : s.edges.Adj c1 cr := by
    unfold IMat.Adj
    rw [Nat.max_eq_left (by omega), Nat.min_eq_right (by omega)]
    exact he
  have hE := hEC (cgCl t) (cgLiveList t) nv J (fun a b => s.edges.Adj a b) c1 cr
    (cgLiveList_nodup t) (fun c _ v hv => hinv.sn_lt c v ((cgCl_iff t c v).1 hv)) hJ.forest
    (hJ.ends_live hinv) hJ.rip (cg_adj_symm s.edges) hex
    ((mem_cgLiveList t c1).2 hl1) ((mem_cgLiveList t cr).2 hlr) hne hadj1 hperm
  subst ht'
  refine JT.Exact.congr (fun c v => (cgCl_merged hne hl1.1 c v).symm)
    (fun c => (mem_cgLiveList_merged hne hl1 c).symm) ?_ hE
  intro x y
  rw [hadj x y]
  rfl

/-- [S] **WITH AN EXACT EDGE MATRIX EVERY MERGE MERGES A SEPARATING PAIR**: along the loop started in a
state satisfying the loop invariant, with a junction tree inside the graph and an exact edge
matrix -/
theorem cg_loopSep_of_exact (hEC : JT.ExactContractSpec) (hTP : TraversePermSpec) (N nv : Nat) :
    ∀ (fuel : Nat) (s : CGStrategy) (t : SuperNodeTree), CGInv N nv s t → 2 ≤ t.nCliques →
    (∃ J, CGHasJT s t J) → CGExact s t → s.loopSep fuel t := by
  intro fuel
  induction fuel with
  | zero => intro s t _ _ _ _; unfold CGStrategy.loopSep; trivial
  | succ fuel ih =>
    intro s t hinv h2 hJT hex
    by_cases hstop : s.stop = true
    · exact CGStrategy.loopSep_of_stop _ s t hstop
    · unfold CGStrategy.loopSep
      simp only [hstop, Bool.false_eq_true, if_false]
      obtain ⟨p', cand?, htr, hpsz, hcand⟩ := traverse_spec N nv s t hinv h2
      have hinv1 : CGInv N nv { s with p := p' } t := hinv.of_eq rfl rfl hpsz
      obtain ⟨J, hJ⟩ := hJT
      have hJ1 : CGHasJT { s with p := p' } t J := CGHasJT.of_edges_eq (s := s) rfl hJ
      have hex1 : CGExact { s with p := p' } t := hex
      simp only [htr]
      cases hc : cand? with
      | none => trivial
      | some cand =>
        obtain ⟨r, c⟩ := cand
        have hsome := hcand r c hc
        obtain ⟨v, hv⟩ := Option.isSome_iff_exists.1 hsome
        have hev := evaluate_spec N nv { s with p := p' } t hinv1 r c v hv
        have hperm : CGPermissible { s with p := p' } t r c :=
          hTP N nv s t hinv h2 _ r c (by rw [htr, hc])
        simp only [hev]
        by_cases hvn : v ≥ 0
        · simp only [hvn, if_true, decide_true]
          have hlive := hinv.edge_live r c hsome
          have hlt := cgi_entry_lt hinv.good hsome
          have hadj : s.edges.Adj r c := by
            unfold IMat.Adj
            rw [Nat.max_eq_left (by omega), Nat.min_eq_right (by omega)]
            exact hsome
          have hs : CGSep t (r, c) :=
            (hex r ((mem_cgLiveList t r).2 hlive.1) c ((mem_cgLiveList t c).2 hlive.2)
              (by omega)).1 hadj
          refine ⟨hs, ?_⟩
          obtain ⟨J0, hJ0, hmem⟩ := cgOnJT_of_sep hinv1 hJ1 hsome hs
          obtain ⟨t1, s1, hm, hu, hinv', _, _, hncl, _⟩ :=
            merge_update_ok N nv { s with p := p' } t hinv1 r c hsome
          have hJ' : CGHasJT s1 t1 (JT.contract r c J0) :=
            cg_merge_hasJT hinv1 hsome hJ0 hmem hm hu
          have hex' : CGExact s1 t1 := cg_merge_exact hEC hinv1 hJ0 hex1 hsome hperm hm hu
          simp only [hm, hu]
          by_cases h1 : t1.nCliques = 1
          · simp only [h1, beq_self_eq_true, if_true]
          · have hne : (t1.nCliques == 1) = false := by simpa using h1
            simp only [hne, Bool.false_eq_true, if_false]
            exact ih s1 t1 hinv' (by omega) ⟨_, hJ'⟩ hex'
        · simp only [hvn, if_false, decide_false, updateStrategy_false]
          have hne : (t.nCliques == 1) = false := by
            have : t.nCliques ≠ 1 := by omega
            simpa using this
          simp only [hne, Bool.false_eq_true, if_false]
          exact CGStrategy.loopSep_of_stop _ _ t rfl

/-- [S] **EVERY FILLED PATTERN SATISFIES `CGMergesSep`** (given the three ingredients) -/
theorem cg_mergesSep_of_specs (hIE : InitExactSpec) (hEC : JT.ExactContractSpec)
    (hTP : TraversePermSpec) {L : LPat} (hf : L.Filled) : CGMergesSep L := by
  intro t0 s1 t1 hnew h2 hi
  obtain ⟨t0', hnew', hok⟩ := sntree_new_ok hf
  rw [hnew] at hnew'
  obtain rfl := Except.ok.inj hnew'
  obtain ⟨sa, ta, hia, _, hinv, hrel⟩ := initialise_ok L t0 hf hok h2
  rw [hi] at hia
  obtain ⟨rfl, rfl⟩ := Prod.mk.inj (Except.ok.inj hia)
  obtain ⟨sb, tb, J, hib, hJ⟩ := init_hasJT_ok L t0 hf hok h2
  rw [hi] at hib
  obtain ⟨rfl, rfl⟩ := Prod.mk.inj (Except.ok.inj hib)
  obtain ⟨sc, tc, hic, hex⟩ := hIE L t0 hf hok h2
  rw [hi] at hic
  obtain ⟨rfl, rfl⟩ := Prod.mk.inj (Except.ok.inj hic)
  have hn1 : t1.nCliques = t1.snode.size := by rw [hrel.ncl, hok.ncl, hrel.size]
  exact cg_loopSep_of_exact hEC hTP t0.snode.size L.n (t1.snode.size + 2) s1 t1 hinv
    (by rw [hn1, hrel.size]; exact h2) ⟨J, hJ⟩ hex

/-- [S] **C17 FOR THE STRATEGY `clique_graph` WITHOUT ANY HYPOTHESIS ON THE RUN** (given the three
ingredients): for a filled pattern `L`, a permutation `ordering` and pattern entries inside `L`,
`SparsityPattern::new(L, ordering, "clique_graph")` returns without panic a tree and an ordering
satisfying `ValidCliqueTree` -/
theorem analysis_cg_valid_of_exact_specs (hIE : InitExactSpec) (hEC : JT.ExactContractSpec)
    (hTP : TraversePermSpec) {L : LPat} (h : L.Filled) (ordering : Array Nat)
    (ho : ordering.toList.Perm (List.range L.n)) (edges : List (Nat × Nat))
    (hedges : EdgesIn L ordering edges) :
    ∃ tf ord', sparsityPatternNewCG L ordering = .ok (tf, ord') ∧
      ValidCliqueTree L.n edges tf ord' ∧ validCliqueTreeB L.n edges tf ord' = true :=
  analysis_cg_valid_sep_partial h ordering ho edges hedges (cg_mergesSep_of_specs hIE hEC hTP h)

end Clarabel.Chordal
