/-
  `newton_raphson_onesided` (C14): what the loop does, over ℝ.

  * a root is a fixed point (the loop returns it after one pass);
  * a point where `f0 ≤ 0` and `f1 ≤ 0` (right of the root of a decreasing target) is returned
    unrefined after one pass;
  * one-sided Newton: if on `[lo, r]` the target is non-negative with negative derivative and lies
    above its tangents at the root `r` (`f0 y + f1 y (r - y) ≤ f0 r = 0`, true for a convex `f0`),
    every iterate stays in `[x, r]`: the result is between the start and the root;
  * whenever the loop returns before the fuel is exhausted one of its three stopping tests held at
    the returned point.
-/
import ClarabelModel.Cones.Nonsym
import ClarabelProofs.Lemmas.ScalarInst

namespace Clarabel.Nonsym
open Clarabel

theorem real_eps_pos : (0 : ℝ) < FloatLike.eps := LawfulFloatLike.eps_pos

/-- the loop's stopping test at `x` -/
def NewtonStopped (f0 f1 : ℝ → ℝ) (x : ℝ) : Prop :=
  -(f0 x) / f1 x < FloatLike.eps ∨ |(-(f0 x) / f1 x) / x| < Real.sqrt FloatLike.eps ∨ |f1 x| < FloatLike.eps

theorem newton_unfold (f0 f1 : ℝ → ℝ) (fuel : Nat) (x : ℝ) (it : Nat) :
    newtonRaphsonOnesided f0 f1 (fuel + 1) x it =
      if (-(f0 x) / f1 x < FloatLike.eps || fabs ((-(f0 x) / f1 x) / x) < sqrt FloatLike.eps
          || fabs (f1 x) < FloatLike.eps) = true
      then (x, it + 1) else newtonRaphsonOnesided f0 f1 fuel (x + -(f0 x) / f1 x) (it + 1) := by
  rfl

/-- a step that is not positive ends the loop at once -/
theorem newton_stop_of_step_nonpos (f0 f1 : ℝ → ℝ) (fuel : Nat) (x : ℝ) (it : Nat)
    (h : -(f0 x) / f1 x ≤ 0) : newtonRaphsonOnesided f0 f1 (fuel + 1) x it = (x, it + 1) := by
  rw [newton_unfold]
  have : -(f0 x) / f1 x < FloatLike.eps := lt_of_le_of_lt h real_eps_pos
  simp [this]

/-- [F] a root of `f0` is a fixed point of the iteration -/
theorem newton_fixed_point (f0 f1 : ℝ → ℝ) (fuel : Nat) (x : ℝ) (it : Nat) (h : f0 x = 0) :
    newtonRaphsonOnesided f0 f1 (fuel + 1) x it = (x, it + 1) := by
  apply newton_stop_of_step_nonpos
  rw [h]; simp

/-- [F] right of the root of a decreasing target (`f0 x ≤ 0`, `f1 x ≤ 0`) the loop returns the
start unrefined -/
theorem newton_stop_right (f0 f1 : ℝ → ℝ) (fuel : Nat) (x : ℝ) (it : Nat) (h0 : f0 x ≤ 0) (h1 : f1 x ≤ 0) :
    newtonRaphsonOnesided f0 f1 (fuel + 1) x it = (x, it + 1) := by
  apply newton_stop_of_step_nonpos
  exact div_nonpos_of_nonneg_of_nonpos (by linarith) h1

/-- [F] one Newton step from the left of the root `r`: it moves right and does not pass `r` -/
theorem newton_step_onesided {f0 f1 : ℝ → ℝ} {x r : ℝ} (h1 : f1 x < 0) (hpos : 0 ≤ f0 x)
    (htan : f0 x + f1 x * (r - x) ≤ 0) :
    x ≤ x + -(f0 x) / f1 x ∧ x + -(f0 x) / f1 x ≤ r := by
  have hn : 0 < -(f1 x) := by linarith
  have e : -(f0 x) / f1 x = f0 x / (-(f1 x)) := by rw [neg_div, div_neg]
  rw [e]
  constructor
  · have : 0 ≤ f0 x / (-(f1 x)) := div_nonneg hpos hn.le
    linarith
  · have : f0 x / (-(f1 x)) ≤ r - x := by
      rw [div_le_iff₀ hn]; nlinarith
    linarith

/-- [F] one-sided Newton: the result lies between the start and the root -/
theorem newton_loop_onesided {f0 f1 : ℝ → ℝ} {lo r : ℝ}
    (H : ∀ y, lo ≤ y → y ≤ r → f1 y < 0 ∧ 0 ≤ f0 y ∧ f0 y + f1 y * (r - y) ≤ 0) :
    ∀ (fuel : Nat) (x : ℝ) (it : Nat), lo ≤ x → x ≤ r →
      x ≤ (newtonRaphsonOnesided f0 f1 fuel x it).1 ∧ (newtonRaphsonOnesided f0 f1 fuel x it).1 ≤ r := by
  intro fuel
  induction fuel with
  | zero => intro x it _ hxr; exact ⟨le_refl _, hxr⟩
  | succ n ih =>
    intro x it hlo hxr
    rw [newton_unfold]
    split
    · exact ⟨le_refl _, hxr⟩
    · obtain ⟨h1, h0, ht⟩ := H x hlo hxr
      obtain ⟨s1, s2⟩ := newton_step_onesided h1 h0 ht
      obtain ⟨i1, i2⟩ := ih (x + -(f0 x) / f1 x) (it + 1) (le_trans hlo s1) s2
      exact ⟨le_trans s1 i1, i2⟩

/-- [S] the loop's stopping rule: either all passes were used, or one of the three tests holds at
the returned point -/
theorem newton_loop_stopped (f0 f1 : ℝ → ℝ) :
    ∀ (fuel : Nat) (x : ℝ) (it : Nat),
      (newtonRaphsonOnesided f0 f1 fuel x it).2 = it + fuel ∨
        NewtonStopped f0 f1 (newtonRaphsonOnesided f0 f1 fuel x it).1 := by
  intro fuel
  induction fuel with
  | zero => intro x it; left; rfl
  | succ n ih =>
    intro x it
    rw [newton_unfold]
    split
    · rename_i h
      right
      simp only [Bool.or_eq_true, decide_eq_true_eq] at h
      unfold NewtonStopped
      rcases h with (h | h) | h
      · exact Or.inl h
      · exact Or.inr (Or.inl h)
      · exact Or.inr (Or.inr h)
    · rcases ih (x + -(f0 x) / f1 x) (it + 1) with h | h
      · left; rw [h]; omega
      · right; exact h

end Clarabel.Nonsym
