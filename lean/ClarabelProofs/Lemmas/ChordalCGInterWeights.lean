/-
  Clique-graph merge strategy, JUNCTION-TREE LINK: the weights `clique_intersections` writes into
  the edge matrix before `kruskal` (`ClarabelModel/Chordal/MergeCG.lean`, Rust `clique_graph.rs`)
  are exactly the cardinalities `|C_row ∩ C_col|`, in the counting form `JT.w` of the junction-tree
  theory (`ChordalJunctionTree.lean`).

  * `intersectDim_eq_count`      : `intersect_dim` of two duplicate-free sets = number of common
                                   elements, counted over `List.range nv`;
  * `cliqueIntersections_values` : no panic, pattern kept, the value at the stored entry `k` is
                                   `intersect_dim (snd[row k], snd[col k])`;
  * `cliqueIntersections_jtw`    : the same with the value `JT.w (cgCl t) nv (row k, col k)`.
-/
import ClarabelProofs.Lemmas.ChordalCGJunctionDefs
import ClarabelProofs.Lemmas.ChordalCGPostMultiRun

namespace Clarabel.Chordal
open Clarabel

/-! ## `intersect_dim` counts the common elements -/

/-- [S] the counting fold of `intersect_dim` is the length of a filtered list -/
theorem intersectFold_eq_filter (sa sb : VSet) :
    sa.foldl (fun dim e => if sb.contains e then dim + 1 else dim) 0 =
      (sa.toList.filter (fun e => sb.contains e)).length := by
  rw [← Array.foldl_toList]
  have : ∀ (l : List Nat) (d : Nat),
      l.foldl (fun dim e => if sb.contains e then dim + 1 else dim) d =
        d + (l.filter (fun e => sb.contains e)).length := by
    intro l
    induction l with
    | nil => intro d; rfl
    | cons a l ih =>
      intro d
      rw [List.foldl_cons, List.filter_cons]
      by_cases hc : sb.contains a = true
      · rw [if_pos hc, if_pos hc, ih, List.length_cons]; omega
      · rw [if_neg hc, if_neg hc, ih]
  rw [this sa.toList 0, Nat.zero_add]

/-- [S] two duplicate-free lists with the same members have the same length -/
theorem length_eq_of_nodup_of_mem_iff {l1 l2 : List Nat} (h1 : l1.Nodup) (h2 : l2.Nodup)
    (h : ∀ a, a ∈ l1 ↔ a ∈ l2) : l1.length = l2.length :=
  ((List.perm_ext_iff_of_nodup h1 h2).2 h).length_eq

/-- [S] `intersect_dim` counts the common elements -/
theorem intersectDim_eq_count (s1 s2 : VSet) (h1 : s1.toList.Nodup) (h2 : s2.toList.Nodup) (nv : Nat)
    (hlt : ∀ v ∈ s1.toList, v < nv) :
    intersectDim s1 s2 =
      ((List.range nv).filter (fun v => decide (v ∈ s1.toList) && decide (v ∈ s2.toList))).length := by
  have hr : ((List.range nv).filter
      (fun v => decide (v ∈ s1.toList) && decide (v ∈ s2.toList))).Nodup :=
    List.Nodup.filter _ List.nodup_range
  unfold intersectDim
  by_cases h : s1.size < s2.size
  · simp only [h, if_true]
    rw [intersectFold_eq_filter]
    refine length_eq_of_nodup_of_mem_iff (List.Nodup.filter _ h1) hr ?_
    intro a
    simp only [List.mem_filter, List.mem_range, Array.contains_iff_mem, Array.mem_toList_iff,
      Bool.and_eq_true, decide_eq_true_eq]
    constructor
    · rintro ⟨ha1, ha2⟩
      exact ⟨hlt a (Array.mem_toList_iff.2 ha1), ha1, ha2⟩
    · rintro ⟨_, ha1, ha2⟩
      exact ⟨ha1, ha2⟩
  · simp only [h, if_false]
    rw [intersectFold_eq_filter]
    refine length_eq_of_nodup_of_mem_iff (List.Nodup.filter _ h2) hr ?_
    intro a
    simp only [List.mem_filter, List.mem_range, Array.contains_iff_mem, Array.mem_toList_iff,
      Bool.and_eq_true, decide_eq_true_eq]
    constructor
    · rintro ⟨ha2, ha1⟩
      exact ⟨hlt a (Array.mem_toList_iff.2 ha1), ha1, ha2⟩
    · rintro ⟨_, ha1, ha2⟩
      exact ⟨ha2, ha1⟩

/-! ## `clique_intersections` with the values it writes -/

/-- the length is `S` and the first `b` values are the intersection cardinalities of the cliques at
the two ends of the stored entry -/
def CiInvV (E : IMat) (snd : Array VSet) (S b : Nat) (nz : Array Int) : Prop :=
  nz.size = S ∧ ∀ k, k < b → nz.getD k 0 =
    Int.ofNat (intersectDim (snd.getD (E.rowval.getD k 0) #[]) (snd.getD (E.colIdx.getD k 0) #[]))

/-- [S] the inner loop of `clique_intersections` writes `|C_row ∩ C_col|` at every visited
position of column `col` -/
theorem forIn_ciInner_values {E : IMat} (h : E.WFE) {snd : Array VSet} (hsz : E.n ≤ snd.size)
    {col : Nat} (hcol : col < E.n) (len : Nat) :
    ∀ (i : Nat) (nz : Array Int), E.colptr.getD col 0 ≤ i → i + len ≤ E.colptr.getD (col + 1) 0 →
      E.colptr.getD (col + 1) 0 ≤ E.rowval.size → CiInvV E snd E.rowval.size i nz →
      ∃ nz', forIn (List.range' i len) nz (ciInner E snd col) = .ok nz' ∧
        CiInvV E snd E.rowval.size (i + len) nz' := by
  induction len with
  | zero => intro i nz _ _ _ hinv; exact ⟨nz, rfl, hinv⟩
  | succ len ih =>
    intro i nz hlo hi hle hinv
    rw [List.range'_succ, List.forIn_cons]
    have hrow := h.rows i (by omega)
    have hci : E.colIdx.getD i 0 = col := (colIdx_eq_iff h (by omega) hcol).2 ⟨hlo, by omega⟩
    simp only [ciInner, Kr.getE_ok E.rowval i _ 0 (by omega),
      Kr.getE_ok snd (E.rowval.getD i 0) _ #[] (by omega), Kr.getE_ok snd col _ #[] (by omega),
      Kr.setE_ok nz i _ _ (by rw [hinv.1]; omega), bind, Except.bind, pure, Except.pure]
    have hinv1 : CiInvV E snd E.rowval.size (i + 1) (nz.setIfInBounds i
        (Int.ofNat (intersectDim (snd.getD (E.rowval.getD i 0) #[]) (snd.getD col #[])))) := by
      refine ⟨by simpa using hinv.1, ?_⟩
      intro k hk
      have hisz : i < nz.size := by rw [hinv.1]; omega
      by_cases e : i = k
      · subst e
        simp only [Array.getD_eq_getD_getElem?, Array.getElem?_setIfInBounds_self_of_lt hisz,
          Option.getD_some]
        rw [hci]
      · simp only [Array.getD_eq_getD_getElem?, Array.getElem?_setIfInBounds_ne e]
        have := hinv.2 k (by omega)
        simpa only [Array.getD_eq_getD_getElem?] using this
    obtain ⟨nz', hrun, hinv'⟩ := ih (i + 1) _ (by omega) (by omega) hle hinv1
    exact ⟨nz', hrun, by rw [show i + (len + 1) = i + 1 + len by omega]; exact hinv'⟩

/-- [S] the outer loop of `clique_intersections`, with the values written -/
theorem forIn_ciOuter_values {E : IMat} (h : E.WFE) {snd : Array VSet} (hsz : E.n ≤ snd.size)
    (len : Nat) :
    ∀ (c : Nat) (nz : Array Int), c + len ≤ E.n →
      CiInvV E snd E.rowval.size (E.colptr.getD c 0) nz →
      ∃ nz', forIn (List.range' c len) nz (ciOuter E snd) = .ok nz' ∧
        CiInvV E snd E.rowval.size (E.colptr.getD (c + len) 0) nz' := by
  induction len with
  | zero => intro c nz _ hinv; exact ⟨nz, rfl, hinv⟩
  | succ len ih =>
    intro c nz hc hinv
    rw [List.range'_succ, List.forIn_cons]
    have hm := h.mono c (by omega)
    have hle : E.colptr.getD (c + 1) 0 ≤ E.rowval.size := by
      rw [← h.nnz_row]; exact colptr_mono h E.n (Nat.le_refl _) (c + 1) (by omega)
    obtain ⟨nz1, hrun1, hinv1⟩ := forIn_ciInner_values h hsz (show c < E.n by omega)
      (E.colptr.getD (c + 1) 0 - E.colptr.getD c 0) (E.colptr.getD c 0) nz (Nat.le_refl _)
      (by omega) hle hinv
    simp only [ciOuter, Kr.getE_ok E.colptr c _ 0 (by have := h.cpsize; omega),
      Kr.getE_ok E.colptr (c + 1) _ 0 (by have := h.cpsize; omega), bind, Except.bind, pure,
      Except.pure, hrun1]
    rw [show E.colptr.getD c 0 + (E.colptr.getD (c + 1) 0 - E.colptr.getD c 0) =
      E.colptr.getD (c + 1) 0 by omega] at hinv1
    obtain ⟨nz', hrun, hinv'⟩ := ih (c + 1) nz1 (by omega) hinv1
    exact ⟨nz', hrun, by rw [show c + (len + 1) = c + 1 + len by omega]; exact hinv'⟩

/-- [S] `clique_intersections` writes `|C_row ∩ C_col|` at every stored entry -/
theorem cliqueIntersections_values {E : IMat} (h : E.WFE) {snd : Array VSet} (hsz : E.n ≤ snd.size) :
    ∃ nz, cliqueIntersections E snd = .ok { E with nzval := nz } ∧ nz.size = E.rowval.size ∧
      ∀ k, k < nz.size → nz.getD k 0 =
        Int.ofNat (intersectDim (snd.getD (E.rowval.getD k 0) #[]) (snd.getD (E.colIdx.getD k 0) #[])) := by
  obtain ⟨nz, hrun, hsize, hval⟩ := forIn_ciOuter_values h hsz E.n 0 E.nzval (by omega)
    ⟨h.nnz_val, fun k hk => by rw [h.cp0] at hk; omega⟩
  refine ⟨nz, ?_, hsize, ?_⟩
  · rw [cliqueIntersections_eq_forIn, hrun]; rfl
  · intro k hk
    rw [Nat.zero_add, h.nnz_row] at hval
    exact hval k (hsize ▸ hk)

/-- [S] the weights handed to `kruskal` are the junction-tree weights `JT.w (cgCl t) nv` -/
theorem cliqueIntersections_jtw {E : IMat} (h : E.WFE) {t : SuperNodeTree} (hsz : E.n ≤ t.snode.size)
    (nv : Nat) (hnd : ∀ c, (t.snode.getD c #[]).toList.Nodup)
    (hlt : ∀ c, ∀ v ∈ (t.snode.getD c #[]).toList, v < nv) :
    ∃ nz, cliqueIntersections E t.snode = .ok { E with nzval := nz } ∧ nz.size = E.rowval.size ∧
      (∀ k, k < nz.size → 0 ≤ nz.getD k 0) ∧
      ∀ k, k < E.rowval.size → nz.getD k 0 =
        Int.ofNat (JT.w (cgCl t) nv (E.rowval.getD k 0, E.colIdx.getD k 0)) := by
  obtain ⟨nz, hrun, hsize, hval⟩ := cliqueIntersections_values h (snd := t.snode) hsz
  refine ⟨nz, hrun, hsize, ?_, ?_⟩
  · intro k hk
    rw [hval k hk]
    exact Int.natCast_nonneg _
  · intro k hk
    rw [hval k (hsize ▸ hk), intersectDim_eq_count _ _ (hnd _) (hnd _) nv (hlt _)]
    rfl

/-! ## non-vacuity -/

/-- non-vacuity of `cliqueIntersections_values`: the weighted triangle of `ChordalKruskal.lean` -/
example : ∃ nz, cliqueIntersections KrEx.tri KrEx.cliques = .ok { KrEx.tri with nzval := nz } ∧
    nz.size = 3 :=
  let ⟨nz, h, hs, _⟩ := cliqueIntersections_values KrEx.tri_wfe (snd := KrEx.cliques) (by decide)
  ⟨nz, h, hs⟩

/-- non-vacuity of `intersectDim_eq_count` -/
example : intersectDim #[0, 1, 2] #[1, 2, 5] = 2 := by
  rw [intersectDim_eq_count #[0, 1, 2] #[1, 2, 5] (by decide) (by decide) 3 (by decide)]
  rfl

/-- the triangle's cliques as a supernode tree (only `snode` matters) -/
def ciwExT : SuperNodeTree :=
  { snode := KrEx.cliques, snodePost := #[], snodeParent := #[], snodeChildren := #[], post := #[],
    separators := #[], nblk := none, nCliques := 4 }

/-- [S] the cliques of the example, index by index -/
theorem ciwExT_getD (c : Nat) : ciwExT.snode.getD c #[] =
    if c = 0 then #[0, 5] else if c = 1 then #[1, 5] else if c = 2 then #[2, 5] else #[] := by
  rcases c with _ | _ | _ | _ | c
  · rfl
  · rfl
  · rfl
  · rfl
  · have : ¬ c + 1 + 1 + 1 + 1 < ciwExT.snode.size := by
      show ¬ c + 1 + 1 + 1 + 1 < 4
      omega
    simp only [Array.getD, this, dite_false]
    rw [if_neg (by omega), if_neg (by omega), if_neg (by omega)]

/-- non-vacuity of `cliqueIntersections_jtw`: the triangle with the cliques `{0,5}, {1,5}, {2,5}, ∅`
and `nv = 6` -/
example : ∃ nz, cliqueIntersections KrEx.tri ciwExT.snode = .ok { KrEx.tri with nzval := nz } ∧
    nz.getD 0 0 = Int.ofNat (JT.w (cgCl ciwExT) 6 (1, 0)) := by
  obtain ⟨nz, h, _, _, hv⟩ := cliqueIntersections_jtw KrEx.tri_wfe (t := ciwExT) (by decide) 6
    (by intro c; rw [ciwExT_getD]; split <;> [skip; split <;> [skip; split]] <;> decide)
    (by intro c; rw [ciwExT_getD]; split <;> [skip; split <;> [skip; split]] <;> decide)
  exact ⟨nz, h, hv 0 (by decide)⟩

end Clarabel.Chordal
