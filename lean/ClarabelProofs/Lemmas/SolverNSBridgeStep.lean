/-
  Composition on the whole-solver model WITH NONSYMMETRIC CONES — the BRIDGE between the model's own
  step functions (`SolverNS.calcStepLength`, `SolverNS.getStepLength` with
  `backtrack_step_to_barrier`, `Solver.addStep`) and C07's StepK theorems for ALL cone kinds
  (`StepK.interior_stepG`): every accepted step of the model keeps the iterate strictly inside the
  cone (`InteriorN`: zero / nonnegative / second-order / exponential / power / generalised power
  cones).  Counterpart of `Lemmas/StepKBridge.lean` (first model).  Scalar type ℝ.
-/
import ClarabelProofs.Lemmas.SolverNSBridgeDefs
import ClarabelProofs.Lemmas.StepKBridge

namespace Clarabel.SolverNS.BridgeN
open Clarabel Residuals
open Clarabel.Solver (bind_ok_inv addStep StepDirection)
open Clarabel.Loop (Scaling)

set_option linter.unusedVariables false

/-! ## (a) the step length that is accepted is at most `calc_step_length`'s -/

/-- `backtrack_step_to_barrier` only contracts: with `0 ≤ step ≤ 1` and `0 ≤ a0` the result lies in
`[0, a0]` (whatever the barrier answers) -/
theorem backtrack_le (step : ℝ) (hb0 : 0 ≤ step) (hb1 : step ≤ 1) (v lhs : Vars ℝ)
    (cones : List (ConeSt ℝ)) :
    ∀ (n : Nat) (a0 : ℝ) (k : Nat) (a : ℝ) (k' : Nat), 0 ≤ a0 →
      backtrackStepToBarrier step v lhs cones n a0 k = .ok (a, k') → 0 ≤ a ∧ a ≤ a0 := by
  intro n
  induction n with
  | zero =>
    intro a0 k a k' h0 h
    unfold backtrackStepToBarrier at h
    cases h
    exact ⟨h0, le_refl _⟩
  | succ n ih =>
    intro a0 k a k' h0 h
    unfold backtrackStepToBarrier at h
    obtain ⟨b, hb, h⟩ := bind_ok_inv h
    split at h
    · cases h
      exact ⟨h0, le_refl _⟩
    · obtain ⟨g0, g1⟩ := ih (step * a0) (k + 1) a k' (mul_nonneg hb0 h0) h
      exact ⟨g0, le_trans g1 (by nlinarith)⟩

/-- the shape of `get_step_length(Combined)`: `calc_step_length` returned some `a0`, and the value
handed on is `a0` or a barrier contraction of it -/
theorem getStepLength_inv {st : Settings ℝ} (hb0 : 0 ≤ st.linesearchBacktrackStep)
    (hb1 : st.linesearchBacktrackStep ≤ 1) {S : SolverSt ℝ} {cones : List (ConeSt ℝ)} {sc : Scaling}
    {a : ℝ} {nbt : Nat} (h : getStepLength st S cones .combined sc = .ok (a, nbt)) :
    ∃ a0, calcStepLength st.ls S.variables S.stepLhs cones st.maxValue st.maxStepFraction .combined
        = .ok a0 ∧ (0 ≤ a0 → 0 ≤ a ∧ a ≤ a0) := by
  unfold getStepLength at h
  obtain ⟨a0, h0, h⟩ := bind_ok_inv h
  refine ⟨a0, h0, fun hpos => ?_⟩
  split at h
  · exact backtrack_le _ hb0 hb1 _ _ _ 50 a0 0 a nbt hpos h
  · cases h
    exact ⟨hpos, le_refl _⟩

/-- the shape of the model's `calc_step_length(Combined)` -/
theorem calcStepLength_inv {ls : LineSearch ℝ} {v d : Vars ℝ} {cs : List (ConeSt ℝ)} {mv msf a : ℝ}
    (h : calcStepLength ls v d cs mv msf .combined = .ok a) :
    ∃ fns r, stepFns ls cs d.z d.s v.z v.s = .ok fns ∧
      Composite.stepLength fns msf (Loop.Step.alphaMax v.τ v.κ d.τ d.κ mv) = .ok r ∧
      a = min r.1 r.2 * msf := by
  unfold calcStepLength at h
  dsimp only at h
  obtain ⟨⟨az, as⟩, h1, h⟩ := bind_ok_inv h
  unfold stepLength at h1
  obtain ⟨fns, hf, h1⟩ := bind_ok_inv h1
  refine ⟨fns, (az, as), hf, h1, ?_⟩
  simp only [pure, Except.pure, Except.ok.injEq] at h
  rw [← h]
  rfl

/-! ## (b) the StepK point of the model's iterate and direction -/

/-- a slice of a 3-dimensional cone as a triple (entries outside the slice read as `0`; on slices
of length 3 this is what the model's `v3E` returns, `v3E_toV3`) -/
def toV3 (x : Array ℝ) : V3 ℝ := (x.getD 0 0, x.getD 1 0, x.getD 2 0)

/-- the StepK block of cone `c` with its slices -/
def mkBlkN : ConeSt ℝ → (z s dz ds : Array ℝ) → StepK.Blk ℝ
  | .sym (.zero _), z, s, dz, ds => .zero z s dz ds
  | .sym (.nonneg _), z, s, dz, ds => .nn z s dz ds
  | .sym (.soc _), z, s, dz, ds => .soc z s dz ds
  | .exp _, z, s, dz, ds => .exp (toV3 z) (toV3 s) (toV3 dz) (toV3 ds)
  | .pow a _, z, s, dz, ds => .pow a (toV3 z) (toV3 s) (toV3 dz) (toV3 ds)
  | .genpow al _ _ _, z, s, dz, ds => .genpow al z s dz ds

/-- the StepK blocks of the flat `(z, s, dz, ds)` cut into the cones' ranges -/
def mkBlksN : List (ConeSt ℝ) → (z s dz ds : List ℝ) → List (StepK.Blk ℝ)
  | [], _, _, _, _ => []
  | c :: cs, z, s, dz, ds =>
    mkBlkN c (z.take c.numel).toArray (s.take c.numel).toArray (dz.take c.numel).toArray
        (ds.take c.numel).toArray
      :: mkBlksN cs (z.drop c.numel) (s.drop c.numel) (dz.drop c.numel) (ds.drop c.numel)

/-- `cutE` on lists -/
def cutListN : List (ConeSt ℝ) → List ℝ → List (Array ℝ)
  | [], _ => []
  | c :: cs, l => (l.take c.numel).toArray :: cutListN cs (l.drop c.numel)

theorem cutE_go_eq (v : Array ℝ) (site : String) :
    ∀ (cones : List (ConeSt ℝ)) (start : Nat) (ps : List (Array ℝ)),
      cutE.go v site cones start = .ok ps → ps = cutListN cones (v.toList.drop start) := by
  intro cones
  induction cones with
  | nil => intro start ps h; unfold cutE.go at h; cases h; rfl
  | cons c rest ih =>
    intro start ps h
    unfold cutE.go at h
    split at h
    · cases h
    · obtain ⟨tl, htl, h⟩ := bind_ok_inv h
      cases h
      rw [ih _ _ htl, cutListN, Solver.Bridge.extract_eq, List.drop_drop]

theorem cutE_eq {cones : List (ConeSt ℝ)} {v : Array ℝ} {site : String} {ps : List (Array ℝ)}
    (h : cutE cones v site = .ok ps) : ps = cutListN cones v.toList :=
  cutE_go_eq v site cones 0 ps h

/-- a prefix of length 3 -/
theorem take_eq3 (l : List ℝ) (n : Nat) (hn : n = 3) (h : n ≤ l.length) :
    ∃ a b c, l.take n = [a, b, c] := by
  subst hn
  match l, h with
  | a :: b :: c :: t, _ => exact ⟨a, b, c, rfl⟩

theorem toV3_three (a b c : ℝ) : toV3 [a, b, c].toArray = (a, b, c) := rfl

/-- on a slice of length 3 the model's `v3E` returns `toV3` -/
theorem v3E_toV3 (x : Array ℝ) (site : String) (h : x.size = 3) : v3E x site = .ok (toV3 x) := by
  obtain ⟨l⟩ := x
  match l, h with
  | [a, b, c], _ => rfl

/-- StepK's copy of the line-search settings -/
def lsK (ls : LineSearch ℝ) : StepK.LineSearch ℝ := ⟨ls.step, ls.amin, ls.fuel⟩

/-- mapping a per-cone function over the cut vectors, given what it does on one cone's slices -/
theorem map_cut_eq (ls : LineSearch ℝ)
    (f : ConeSt ℝ × Array ℝ × Array ℝ × Array ℝ × Array ℝ → Composite.ConeFn ℝ)
    (hf : ∀ (c : ConeSt ℝ) (Lz Ls Ldz Lds : List ℝ), c.numel ≤ Lz.length → c.numel ≤ Ls.length →
      c.numel ≤ Ldz.length → c.numel ≤ Lds.length →
      f (c, (Ldz.take c.numel).toArray, (Lds.take c.numel).toArray, (Lz.take c.numel).toArray,
          (Ls.take c.numel).toArray)
        = (mkBlkN c (Lz.take c.numel).toArray (Ls.take c.numel).toArray (Ldz.take c.numel).toArray
            (Lds.take c.numel).toArray).coneFn (lsK ls))
    (cs : List (ConeSt ℝ)) :
    ∀ (Lz Ls Ldz Lds : List ℝ), Lz.length = numelAll cs → Ls.length = numelAll cs →
      Ldz.length = numelAll cs → Lds.length = numelAll cs →
      (cs.zip ((cutListN cs Ldz).zip ((cutListN cs Lds).zip ((cutListN cs Lz).zip
          (cutListN cs Ls))))).map f
        = (mkBlksN cs Lz Ls Ldz Lds).map (StepK.Blk.coneFn (lsK ls)) := by
  induction cs with
  | nil => intro _ _ _ _ _ _ _ _; rfl
  | cons c rest ih =>
    intro Lz Ls Ldz Lds lz lss ldz lds
    rw [numelAll_cons] at lz lss ldz lds
    simp only [cutListN, mkBlksN, List.zip_cons_cons, List.map_cons]
    congr 1
    · exact hf c Lz Ls Ldz Lds (by omega) (by omega) (by omega) (by omega)
    · refine ih _ _ _ _ ?_ ?_ ?_ ?_ <;> rw [List.length_drop] <;> omega

/-- the closures the model hands to `Composite.stepLength` are those of the StepK blocks (the flat
vectors have the rows of the cones, so that the slices of 3-dimensional cones have length 3) -/
theorem stepFns_eq (ls : LineSearch ℝ) {cs : List (ConeSt ℝ)} {dz ds z s : Array ℝ}
    {fns : List (Composite.ConeFn ℝ)} (hz : z.size = numelAll cs) (hs : s.size = numelAll cs)
    (hdz : dz.size = numelAll cs) (hds : ds.size = numelAll cs)
    (h : stepFns ls cs dz ds z s = .ok fns) :
    fns = (mkBlksN cs z.toList s.toList dz.toList ds.toList).map (StepK.Blk.coneFn (lsK ls)) := by
  unfold stepFns at h
  obtain ⟨dzs, h1, h⟩ := bind_ok_inv h
  obtain ⟨dss, h2, h⟩ := bind_ok_inv h
  obtain ⟨zs, h3, h⟩ := bind_ok_inv h
  obtain ⟨ss, h4, h⟩ := bind_ok_inv h
  cases h
  rw [cutE_eq h1, cutE_eq h2, cutE_eq h3, cutE_eq h4]
  refine map_cut_eq ls _ ?_ cs _ _ _ _ hz hs hdz hds
  intro c Lz Ls Ldz Lds lz lss ldz lds
  cases c with
  | sym c => cases c <;> rfl
  | exp K =>
    obtain ⟨a1, a2, a3, e1⟩ := take_eq3 Ldz (ConeSt.exp K).numel rfl ldz
    obtain ⟨b1, b2, b3, e2⟩ := take_eq3 Lds (ConeSt.exp K).numel rfl lds
    obtain ⟨c1, c2, c3, e3⟩ := take_eq3 Lz (ConeSt.exp K).numel rfl lz
    obtain ⟨d1, d2, d3, e4⟩ := take_eq3 Ls (ConeSt.exp K).numel rfl lss
    rw [e1, e2, e3, e4]
    rfl
  | pow al K =>
    obtain ⟨a1, a2, a3, e1⟩ := take_eq3 Ldz (ConeSt.pow al K).numel rfl ldz
    obtain ⟨b1, b2, b3, e2⟩ := take_eq3 Lds (ConeSt.pow al K).numel rfl lds
    obtain ⟨c1, c2, c3, e3⟩ := take_eq3 Lz (ConeSt.pow al K).numel rfl lz
    obtain ⟨d1, d2, d3, e4⟩ := take_eq3 Ls (ConeSt.pow al K).numel rfl lss
    rw [e1, e2, e3, e4]
    rfl
  | genpow al d2 ψ K => rfl

/-! ## (c) `InteriorN` on the flat vectors is `InteriorG` of the blocks -/

theorem typ_nvars (c : ConeSt ℝ) : c.typ.nvars = c.numel := by
  cases c with
  | sym c => cases c <;> rfl
  | exp K => rfl
  | pow a K => rfl
  | genpow al d2 ψ K => rfl

theorem rowsN_typ (cs : List (ConeSt ℝ)) : rowsN (cs.map ConeSt.typ) = numelAll cs := by
  induction cs with
  | nil => rfl
  | cons c rest ih =>
    rw [numelAll_cons, ← ih]
    simp only [rowsN, List.map_cons, List.sum_cons, typ_nvars]

theorem len3 (l : List ℝ) (h : l.length = 3) : ∃ a b c, l = [a, b, c] := by
  match l, h with
  | [a, b, c], _ => exact ⟨a, b, c, rfl⟩

/-- one cone: the block is interior iff its rows are (whatever the direction) -/
theorem mkBlkN_interiorG_iff (c : ConeSt ℝ) (z s dz ds : List ℝ) (hz : z.length = c.numel)
    (hs : s.length = c.numel) :
    (mkBlkN c z.toArray s.toArray dz.toArray ds.toArray).InteriorG ↔ BlkIntN c.typ z s := by
  cases c with
  | sym c => cases c <;> exact Iff.rfl
  | exp K =>
    obtain ⟨z0, z1, z2, rfl⟩ := len3 z hz
    obtain ⟨s0, s1, s2, rfl⟩ := len3 s hs
    constructor
    · intro h
      exact ⟨z0, z1, z2, s0, s1, s2, rfl, rfl, h.1, h.2⟩
    · rintro ⟨y0, y1, y2, t0, t1, t2, e1, e2, h1, h2⟩
      cases e1
      cases e2
      exact ⟨h1, h2⟩
  | pow al K =>
    obtain ⟨z0, z1, z2, rfl⟩ := len3 z hz
    obtain ⟨s0, s1, s2, rfl⟩ := len3 s hs
    constructor
    · intro h
      exact ⟨h.1, h.2.1, z0, z1, z2, s0, s1, s2, rfl, rfl, h.2.2.1, h.2.2.2⟩
    · rintro ⟨p0, p1, y0, y1, y2, t0, t1, t2, e1, e2, h1, h2⟩
      cases e1
      cases e2
      exact ⟨p0, p1, h1, h2⟩
  | genpow al d2 ψ K => exact Iff.rfl

/-- the blocks are interior iff the rows are (whatever the direction) -/
theorem mkBlksN_interiorG_iff (cs : List (ConeSt ℝ)) :
    ∀ (z s dz ds : List ℝ), z.length = numelAll cs → s.length = numelAll cs →
      ((∀ b ∈ mkBlksN cs z s dz ds, b.InteriorG) ↔ IntRowsN (cs.map ConeSt.typ) z s) := by
  induction cs with
  | nil => intro z s dz ds _ _; simp [mkBlksN, IntRowsN]
  | cons c rest ih =>
    intro z s dz ds hz hs
    rw [numelAll_cons] at hz hs
    simp only [mkBlksN, List.forall_mem_cons, List.map_cons, IntRowsN, typ_nvars]
    rw [mkBlkN_interiorG_iff c _ _ _ _ (by rw [List.length_take]; omega)
      (by rw [List.length_take]; omega),
      ih _ _ _ _ (by rw [List.length_drop]; omega) (by rw [List.length_drop]; omega)]

/-! ## (d) the direction has the shape of the iterate; `add_step` block by block -/

theorem mkBlksN_dirOk (cs : List (ConeSt ℝ)) :
    ∀ (z s dz ds : List ℝ), dz.length = z.length → ds.length = s.length →
      ∀ b ∈ mkBlksN cs z s dz ds, b.DirOk := by
  induction cs with
  | nil => intro z s dz ds _ _ b hb; cases hb
  | cons c rest ih =>
    intro z s dz ds h1 h2 b hb
    simp only [mkBlksN, List.mem_cons] at hb
    rcases hb with rfl | hb
    · cases c with
      | sym c =>
        cases c with
        | zero d => trivial
        | nonneg K => exact ⟨by simp [List.length_take, h1], by simp [List.length_take, h2]⟩
        | soc K => exact ⟨by simp [List.length_take, h1], by simp [List.length_take, h2]⟩
      | exp K => trivial
      | pow al K => trivial
      | genpow al d2 ψ K => exact ⟨by simp [List.length_take, h1], by simp [List.length_take, h2]⟩
    · exact ih _ _ _ _ (by simp [h1]) (by simp [h2]) b hb

/-- one cone: `add_step` on the block is `add_step` on the slices (for the 3-dimensional cones the
slices have length 3) -/
theorem mkBlkN_addStep (c : ConeSt ℝ) (z s dz ds : List ℝ) (a : ℝ) (hz : z.length = c.numel)
    (hs : s.length = c.numel) (hdz : dz.length = c.numel) (hds : ds.length = c.numel) :
    (mkBlkN c z.toArray s.toArray dz.toArray ds.toArray).addStep a =
      mkBlkN c (StepK.axpbyL a z dz).toArray (StepK.axpbyL a s ds).toArray dz.toArray ds.toArray := by
  cases c with
  | sym c => cases c <;> rfl
  | exp K =>
    obtain ⟨z0, z1, z2, rfl⟩ := len3 z hz
    obtain ⟨s0, s1, s2, rfl⟩ := len3 s hs
    obtain ⟨d0, d1, d2, rfl⟩ := len3 dz hdz
    obtain ⟨e0, e1, e2, rfl⟩ := len3 ds hds
    rfl
  | pow al K =>
    obtain ⟨z0, z1, z2, rfl⟩ := len3 z hz
    obtain ⟨s0, s1, s2, rfl⟩ := len3 s hs
    obtain ⟨d0, d1, d2, rfl⟩ := len3 dz hdz
    obtain ⟨e0, e1, e2, rfl⟩ := len3 ds hds
    rfl
  | genpow al d2 ψ K => rfl

/-- cutting into cone blocks commutes with `add_step` -/
theorem mkBlksN_addStep (cs : List (ConeSt ℝ)) (a : ℝ) :
    ∀ (z s dz ds : List ℝ), z.length = numelAll cs → s.length = numelAll cs →
      dz.length = numelAll cs → ds.length = numelAll cs →
      (mkBlksN cs z s dz ds).map (StepK.Blk.addStep a) =
        mkBlksN cs (StepK.axpbyL a z dz) (StepK.axpbyL a s ds) dz ds := by
  induction cs with
  | nil => intro z s dz ds _ _ _ _; rfl
  | cons c rest ih =>
    intro z s dz ds hz hs hdz hds
    rw [numelAll_cons] at hz hs hdz hds
    simp only [mkBlksN, List.map_cons, Solver.Bridge.axpbyL_take, Solver.Bridge.axpbyL_drop]
    congr 1
    · exact mkBlkN_addStep c _ _ _ _ a (by rw [List.length_take]; omega)
        (by rw [List.length_take]; omega) (by rw [List.length_take]; omega)
        (by rw [List.length_take]; omega)
    · refine ih _ _ _ _ ?_ ?_ ?_ ?_ <;> rw [List.length_drop] <;> omega

/-! ## (e) one accepted step -/

/-- the StepK point (C07) of the model's iterate `v` and direction `d` over the cones `cs` -/
def ptOfN (cs : List (ConeSt ℝ)) (v d : Vars ℝ) : StepK.Pt ℝ :=
  ⟨v.x, d.x, mkBlksN cs v.z.toList v.s.toList d.z.toList d.s.toList, v.τ, v.κ, d.τ, d.κ⟩

/-- the model's `calc_step_length(Combined)` IS C07's `StepK.calcStepLength` on `ptOfN` -/
theorem calcStepLength_stepK {ls : LineSearch ℝ} {v d : Vars ℝ} {cs : List (ConeSt ℝ)} {mv msf a : ℝ}
    (hz : v.z.size = numelAll cs) (hs : v.s.size = numelAll cs) (hdz : d.z.size = numelAll cs)
    (hds : d.s.size = numelAll cs) (h : calcStepLength ls v d cs mv msf .combined = .ok a) :
    StepK.calcStepLength mv (lsK ls) (ptOfN cs v d) true msf = .ok a := by
  obtain ⟨fns, r, hf, hr, hae⟩ := calcStepLength_inv h
  rw [stepFns_eq ls hz hs hdz hds hf] at hr
  unfold StepK.calcStepLength StepK.coneStep
  dsimp only [ptOfN]
  rw [hr, hae]
  rfl

/-- one accepted step of the model, on the StepK level: from an interior iterate, for the value `a0`
of `calc_step_length(Combined)` and EVERY `0 ≤ a ≤ a0`, the iterate after `add_step(a)` is interior
again -/
theorem interior_step_modelN {ls : LineSearch ℝ} {cs : List (ConeSt ℝ)} {v d v' : Vars ℝ}
    {mv msf a0 a : ℝ} (hl0 : 0 ≤ ls.step) (hl1 : ls.step ≤ 1) (h0 : 0 < msf) (h1 : msf < 1)
    (hm : 0 < mv) (hI : InteriorN (cs.map ConeSt.typ) v) (hdz : d.z.size = v.z.size)
    (hds : d.s.size = v.s.size) (ha : calcStepLength ls v d cs mv msf .combined = .ok a0)
    (hpos : 0 ≤ a) (hle : 0 ≤ a0 → a ≤ a0) (hv : addStep v d a = .ok v') :
    InteriorN (cs.map ConeSt.typ) v' := by
  obtain ⟨hτ, hκ, hzs, hss, hrows⟩ := hI
  rw [rowsN_typ] at hzs hss
  have hPI : (ptOfN cs v d).InteriorG :=
    ⟨hτ, hκ, (mkBlksN_interiorG_iff cs _ _ _ _ hzs hss).mpr hrows⟩
  have hPD : (ptOfN cs v d).DirOk := mkBlksN_dirOk cs _ _ _ _ hdz hds
  obtain ⟨k0, _, _, hstep⟩ := StepK.interior_stepG mv (lsK ls) hl0 hl1 hm (ptOfN cs v d) hPI hPD
    msf a0 h0 h1 (calcStepLength_stepK hzs hss (hdz.trans hzs) (hds.trans hss) ha)
  obtain ⟨gτ, gκ, gB⟩ := hstep a hpos (hle k0)
  obtain ⟨t1, t2, _, _, t5, t6⟩ := Solver.Bridge.addStep_inv hv
  have hz' : v'.z.size = numelAll cs := by rw [t6, StepK.addStepVec_size _ _ _ hdz]; exact hzs
  have hs' : v'.s.size = numelAll cs := by rw [t5, StepK.addStepVec_size _ _ _ hds]; exact hss
  refine ⟨?_, ?_, ?_, ?_, ?_⟩
  · rw [t1]; exact gτ
  · rw [t2]; exact gκ
  · rw [rowsN_typ]; exact hz'
  · rw [rowsN_typ]; exact hs'
  · have hb : ∀ b ∈ (mkBlksN cs v.z.toList v.s.toList d.z.toList d.s.toList).map (StepK.Blk.addStep a),
        b.InteriorG := gB
    rw [mkBlksN_addStep cs a _ _ _ _ hzs hss (hdz.trans hzs) (hds.trans hss)] at hb
    have hz'' : (StepK.axpbyL a v.z.toList d.z.toList).length = numelAll cs := by
      have := hz'
      rw [t6] at this
      exact this
    have hs'' : (StepK.axpbyL a v.s.toList d.s.toList).length = numelAll cs := by
      have := hs'
      rw [t5] at this
      exact this
    rw [t5, t6]
    exact (mkBlksN_interiorG_iff cs _ _ _ _ hz'' hs'').mp hb

end Clarabel.SolverNS.BridgeN

namespace Clarabel.SolverNS
open Clarabel Residuals BridgeN

/-- **every accepted step of the whole-solver model with nonsymmetric cones keeps the iterate in the
interior of the cone** (zero / nonnegative / second-order / exponential / power / generalised power
cones; the step length is `calc_step_length`'s or a `backtrack_step_to_barrier` contraction of it) -/
theorem interiorN_stepHyp (st : Settings ℝ) (h0 : 0 < st.maxStepFraction) (h1 : st.maxStepFraction < 1)
    (hm : 0 < st.maxValue) (hb0 : 0 ≤ st.linesearchBacktrackStep)
    (hb1 : st.linesearchBacktrackStep ≤ 1) : StepHypN st InteriorN := by
  intro S mu iter sc k a nbt v' hS hG hk hok ha hs hv
  have hfr := kktNumerics_frameN hk
  have e1 : k.S.variables = S.variables := by
    have := congrArg SolverSt.variables hfr
    exact this
  have hapos : 0 < a := by
    have : (0 : ℝ) ≤ max 0 st.minTerminateStepLength := le_max_left _ _
    have h' : ¬ a ≤ max 0 st.minTerminateStepLength := hs
    linarith [lt_of_not_ge h']
  obtain ⟨a0, hcalc, hle⟩ := getStepLength_inv hb0 hb1 ha
  rw [e1] at hcalc
  obtain ⟨_, _, d1, d2, _, _⟩ := Solver.Bridge.addStep_inv hv
  exact interior_step_modelN (ls := st.ls) hb0 hb1 h0 h1 hm hG d2 d1 hcalc (le_of_lt hapos)
    (fun h => (hle h).2) hv

/-! ## non-vacuity -/

/-- `InteriorN` is satisfiable on a layout with a nonnegative cone (1 row) and an exponential cone:
`z = (1 | −1, 0, 1)`, `s = (1 | 0, 1, 2)` -/
example : InteriorN [.nonneg 1, .exp]
    { x := #[], s := [1, 0, 1, 2].toArray, z := [1, -1, 0, 1].toArray, τ := 1, κ := 1 } := by
  refine ⟨one_pos, one_pos, rfl, rfl, ⟨rfl, ?_, ?_⟩, ⟨-1, 0, 1, 0, 1, 2, rfl, rfl, ?_, ?_⟩, trivial⟩
  · intro v hv
    change v ∈ [1] at hv
    simp only [List.mem_cons, List.not_mem_nil, or_false] at hv
    rw [hv]; exact one_pos
  · intro v hv
    change v ∈ [1] at hv
    simp only [List.mem_cons, List.not_mem_nil, or_false] at hv
    rw [hv]; exact one_pos
  · refine ⟨by norm_num, by norm_num, ?_⟩
    have : Real.exp ((0 : ℝ) / -1 - 1) < 1 := by
      rw [← Real.exp_zero]
      exact Real.exp_lt_exp.mpr (by norm_num)
    linarith
  · refine ⟨by norm_num, by norm_num, ?_⟩
    have : Real.exp ((0 : ℝ) / 1) = 1 := by norm_num
    rw [this]; norm_num

/-- the hypotheses of `interiorN_stepHyp` on the settings are those of the defaults
(`max_step_fraction = 0.99`, `linesearch_backtrack_step = 0.8`, `T::max_value() > 0`) -/
example : (0 : ℝ) < 0.99 ∧ (0.99 : ℝ) < 1 ∧ (0 : ℝ) ≤ 0.8 ∧ (0.8 : ℝ) ≤ 1 := by norm_num

end Clarabel.SolverNS
